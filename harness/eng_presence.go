package main

// engine `presence`: presence of real Documents under updates (successful and failing), syncs
// through a simulated server log (wire round trip at push time) and acknowledgements.
// Ties Model/Presence.lean (C12) to pkg/document/presence + internal_document.applyChanges, and
// checks C08's all-or-nothing clause for presence (a failing update must change neither the
// presence map nor any pending change).

import (
	"fmt"
	"sort"
	"strings"

	"github.com/yorkie-team/yorkie/pkg/document"
	"github.com/yorkie-team/yorkie/pkg/document/change"
	"github.com/yorkie-team/yorkie/pkg/document/json"
	"github.com/yorkie-team/yorkie/pkg/document/presence"
	"github.com/yorkie-team/yorkie/pkg/document/presence/inner"
	"github.com/yorkie-team/yorkie/pkg/document/time"
)

func init() { register("presence", runPresence) }

func prShowData(d map[string]string) string {
	if len(d) == 0 {
		return "-"
	}
	keys := make([]string, 0, len(d))
	for k := range d {
		keys = append(keys, k)
	}
	sort.Strings(keys)
	var parts []string
	for _, k := range keys {
		parts = append(parts, k+"="+d[k])
	}
	return strings.Join(parts, ",")
}

func prShowChange(pc *inner.Change) string {
	if pc == nil {
		return "none"
	}
	if pc.ChangeType == inner.Clear {
		return "clear"
	}
	return "put " + prShowData(pc.Presence)
}

func prShowMap(d *document.Document) string {
	all := d.AllPresences()
	type kv struct{ k, v string }
	var l []kv
	for hex, data := range all {
		a, err := time.ActorIDFromHex(hex)
		if err != nil {
			continue
		}
		l = append(l, kv{ActorNat(a), prShowData(data)})
	}
	sort.Slice(l, func(i, j int) bool {
		if len(l[i].k) != len(l[j].k) {
			return len(l[i].k) < len(l[j].k)
		}
		return l[i].k < l[j].k
	})
	var parts []string
	for _, e := range l {
		parts = append(parts, e.k+":"+e.v)
	}
	return "{" + strings.Join(parts, ";") + "}"
}

type prReplica struct {
	name    string
	doc     *document.Document
	actor   time.ActorID
	cpS     int
	pushedC uint32
	pseq    int // presence changes made so far
	// presence sequence numbers of the presence changes not yet pushed, oldest first
	pendingPseq []int
}

// pushedPseq pops the sequence number of the oldest unpushed presence change.
func (r *prReplica) pushedPseq() int {
	if len(r.pendingPseq) == 0 {
		return -1
	}
	x := r.pendingPseq[0]
	r.pendingPseq = r.pendingPseq[1:]
	return x
}

type prLogEntry struct {
	cn   *change.Change // wire copy taken at push time
	pseq int            // index of its presence change among its author's presence changes
}

func runPresence(c *Ctx) error {
	c.stats.Rule = "2-4 real Documents; random updates that set/delete presence keys, clear presence, edit content, or FAIL " +
		"after touching presence; syncs through a simulated server log (wire copy at push time), acknowledgements; the " +
		"presence map of every replica and the presence payload of every pending local change are compared with the model " +
		"after every step; non-trivial = a failing update touched presence while a presence change was pending or after the " +
		"clone had been re-created; distinct by trace hash"
	if c.Replay != nil && !c.ReplaySeed("presence") {
		return fmt.Errorf("presence: replay needs a `T presence-<seed>-<i>` line")
	}
	r := c.Rng
	keys := []string{"k", "cursor", "sel"}
	for i := 0; i < c.N; i++ {
		c.Trace(fmt.Sprintf("presence-%d-%d", c.Seed, i))
		n := 2 + r.Intn(3)
		var reps []*prReplica
		var log []prLogEntry
		for k := 0; k < n; k++ {
			d := document.New("doc-presence")
			a := mkActor(r, k)
			d.SetActor(a)
			d.SetStatus(document.StatusAttached)
			rep := &prReplica{name: fmt.Sprintf("r%d", k), doc: d, actor: a}
			reps = append(reps, rep)
			c.Cmd("R %s", rep.name)
			c.Obs("ok")
		}
		observe := func(rep *prReplica) {
			c.Cmd("PQ %s", rep.name)
			c.Obs("%s", prShowMap(rep.doc))
			c.Cmd("PP %s", rep.name)
			var parts []string
			for _, cn := range rep.doc.CreateChangePack().Changes {
				if cn.PresenceChange() != nil {
					parts = append(parts, prShowChange(cn.PresenceChange()))
				}
			}
			c.Obs("[%s]", strings.Join(parts, ";"))
		}
		sync := func(rep *prReplica) {
			pack := rep.doc.CreateChangePack()
			for _, cn := range pack.Changes {
				if cn.ClientSeq() <= rep.pushedC {
					continue
				}
				wire, err := roundTrip([]*change.Change{cn})
				if err != nil {
					c.Oracle("wire round trip failed: %v", err)
					return
				}
				e := prLogEntry{cn: wire[0], pseq: -1}
				if cn.PresenceChange() != nil {
					e.pseq = rep.pushedPseq()
				}
				log = append(log, e)
				rep.pushedC = cn.ClientSeq()
			}
			var pulled []*change.Change
			var entries []prLogEntry
			for _, e := range log[rep.cpS:] {
				if e.cn.ID().ActorID() == rep.actor {
					continue
				}
				pulled = append(pulled, e.cn)
				entries = append(entries, e)
			}
			resp := change.NewPack(rep.doc.Key(), change.NewCheckpoint(int64(len(log)), rep.pushedC), pulled, nil, nil)
			if rec := safely(func() {
				if err := rep.doc.ApplyChangePack(resp); err != nil {
					c.Oracle("ApplyChangePack failed on %s: %v", rep.name, err)
				}
			}); rec != nil {
				c.Oracle("ApplyChangePack panicked on %s: %v", rep.name, rec)
			}
			for _, e := range entries {
				if pc := e.cn.PresenceChange(); pc != nil {
					c.Cmd("PO %s recv %s %d %s", rep.name, ActorNat(e.cn.ID().ActorID()), e.pseq, prShowChange(pc))
					c.Obs("ok")
				}
			}
			rep.cpS = len(log)
			c.Cmd("ACKP %s", rep.name)
			c.Obs("ok")
			observe(rep)
		}
		touched := false
		steps := 8 + r.Intn(30)
		for s := 0; s < steps; s++ {
			rep := reps[r.Intn(n)]
			switch x := r.Intn(100); {
			case x < 45: // presence update
				var pc *inner.Change
				before := len(rep.doc.CreateChangePack().Changes)
				kind := r.Intn(10)
				err := rep.doc.Update(func(root *json.Object, p *presence.Presence) error {
					switch {
					case kind < 6:
						p.Set(keys[r.Intn(len(keys))], fmt.Sprintf("v%d", r.Intn(50)))
					case kind < 8:
						p.Set(keys[r.Intn(len(keys))], fmt.Sprintf("v%d", r.Intn(50)))
						root.SetInteger("n", r.Intn(100))
					case kind < 9:
						p.Delete(keys[r.Intn(len(keys))])
					default:
						p.Clear()
					}
					return nil
				})
				if err != nil {
					c.Oracle("update failed: %v", err)
					break
				}
				chs := rep.doc.CreateChangePack().Changes
				for _, cn := range chs[before:] {
					pc = cn.PresenceChange()
				}
				if pc != nil {
					c.Cmd("PO %s local %s %d %s", rep.name, ActorNat(rep.actor), rep.pseq, prShowChange(pc))
					c.Obs("ok")
					rep.pseq++
					rep.pendingPseq = append(rep.pendingPseq, rep.pseq-1)
				}
				c.Count("update:presence")
				observe(rep)
			case x < 60: // failing update that touches presence first
				pending := 0
				for _, cn := range rep.doc.CreateChangePack().Changes {
					if cn.PresenceChange() != nil {
						pending++
					}
				}
				_ = rep.doc.Update(func(root *json.Object, p *presence.Presence) error {
					p.Set(keys[r.Intn(len(keys))], fmt.Sprintf("f%d", r.Intn(50)))
					if r.Intn(2) == 0 {
						root.SetInteger("m", r.Intn(100))
					}
					return fmt.Errorf("callback failed")
				})
				c.Cmd("PFAIL %s", rep.name)
				c.Obs("ok")
				c.Count("update:failing-with-presence")
				if pending > 0 || touched {
					c.Nontrivial()
				}
				touched = true
				observe(rep)
			case x < 70: // content-only edit
				_ = rep.doc.Update(func(root *json.Object, p *presence.Presence) error {
					root.SetInteger("c", r.Intn(100))
					return nil
				})
				observe(rep)
			default:
				sync(rep)
			}
		}
		for round := 0; round < 2; round++ {
			for _, rep := range reps {
				sync(rep)
			}
		}
		first := prShowMap(reps[0].doc)
		for _, rep := range reps[1:] {
			if m := prShowMap(rep.doc); m != first {
				c.Oracle("presence maps differ after quiescence: %s=%s %s=%s", reps[0].name, first, rep.name, m)
			}
		}
	}
	return nil
}
