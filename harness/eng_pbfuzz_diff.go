package main

// Evidence-based classification of what the snapshot oracle of engine `pbfuzz` observes.
//
// Three views of one document are compared item by item:
//
//	L  the live root's own bookkeeping   (Root.GCElementPairMap, gcNodePairMap)
//	G  the live root's object graph      (crdt.NewRoot(live.Object()): what a walk of the graph finds)
//	D  the decoded graph                 (crdt.NewRoot(BytesToSnapshot(SnapshotToBytes(live))))
//
// L vs G is the live document's bookkeeping (no codec involved); G vs D is what the codec (or
// the decoder's replay) changes.  Every differing item must be explained by the predicate of a
// listed finding; an item that no predicate explains is reported untagged (a violation).  No
// predicate looks at the generator class of the history.

import (
	"encoding/json"
	"fmt"
	"reflect"
	"sort"
	"strings"

	"google.golang.org/protobuf/proto"

	api "github.com/yorkie-team/yorkie/api/yorkie/v1"
	"github.com/yorkie-team/yorkie/pkg/document/crdt"
	"github.com/yorkie-team/yorkie/pkg/document/time"
)

// ---------- views ----------

type elemView struct {
	removed map[string]crdt.Element // createdAt key -> removed element, closed under descendants (what GarbageElementLen counts)
	all     map[string]crdt.Element // createdAt key -> element found by walking the graph
	pairs   map[string]crdt.GCPair  // GC node pairs found by walking the graph (key: child type + id)
}

func pairKey(p crdt.GCPair) string { return fmt.Sprintf("%T:%s", p.Child, p.Child.IDString()) }

// graphView walks an object graph (no bookkeeping involved).
func graphView(root *crdt.Object) elemView {
	v := elemView{removed: map[string]crdt.Element{}, all: map[string]crdt.Element{}, pairs: map[string]crdt.GCPair{}}
	var mark func(e crdt.Element)
	mark = func(e crdt.Element) {
		v.removed[e.CreatedAt().Key()] = e
		if ct, ok := e.(crdt.Container); ok {
			ct.Descendants(func(d crdt.Element, _ crdt.Container) bool {
				v.removed[d.CreatedAt().Key()] = d
				return false
			})
		}
	}
	visit := func(e crdt.Element) {
		v.all[e.CreatedAt().Key()] = e
		if e.RemovedAt() != nil {
			mark(e)
		}
		var ps []crdt.GCPair
		switch x := e.(type) {
		case *crdt.Array:
			ps = x.GCPairs()
		case *crdt.Text:
			ps = x.GCPairs()
		case *crdt.Tree:
			ps = x.GCPairs()
		}
		for _, p := range ps {
			v.pairs[pairKey(p)] = p
		}
	}
	visit(root)
	root.Descendants(func(e crdt.Element, _ crdt.Container) bool {
		visit(e)
		return false
	})
	return v
}

// bookView is the live root's own bookkeeping: registered removed elements (closed under
// descendants, as GarbageElementLen counts them) and the keys of gcNodePairMap (unexported: read
// through reflection, keys only).
func bookView(r *crdt.Root) (map[string]crdt.Element, map[string]bool, bool) {
	reg := map[string]crdt.Element{}
	for _, p := range r.GCElementPairMap() {
		p := p
		e := p.Elem()
		reg[e.CreatedAt().Key()] = e
		if ct, ok := e.(crdt.Container); ok {
			ct.Descendants(func(d crdt.Element, _ crdt.Container) bool {
				reg[d.CreatedAt().Key()] = d
				return false
			})
		}
	}
	pairs := map[string]bool{}
	ok := false
	func() {
		defer func() { _ = recover() }()
		f := reflect.ValueOf(r).Elem().FieldByName("gcNodePairMap")
		if f.IsValid() && f.Kind() == reflect.Map {
			for _, k := range f.MapKeys() {
				pairs[k.String()] = true
			}
			ok = true
		}
	}()
	return reg, pairs, ok
}

// ---------- protobuf side ----------

func pbTicketKey(t *api.TimeTicket) string {
	if t == nil {
		return ""
	}
	a, err := time.ActorIDFromBytes(t.ActorId)
	if err != nil {
		return ""
	}
	return time.NewTicket(t.Lamport, t.Delimiter, a).Key()
}

// elementHeader returns created/moved/removed tickets of a JSONElement body (by field name).
func elementTickets(e *api.JSONElement) (created, moved, removed *api.TimeTicket) {
	switch b := e.GetBody().(type) {
	case *api.JSONElement_JsonObject:
		return b.JsonObject.GetCreatedAt(), b.JsonObject.GetMovedAt(), b.JsonObject.GetRemovedAt()
	case *api.JSONElement_JsonArray:
		return b.JsonArray.GetCreatedAt(), b.JsonArray.GetMovedAt(), b.JsonArray.GetRemovedAt()
	case *api.JSONElement_Primitive_:
		return b.Primitive.GetCreatedAt(), b.Primitive.GetMovedAt(), b.Primitive.GetRemovedAt()
	case *api.JSONElement_Text_:
		return b.Text.GetCreatedAt(), b.Text.GetMovedAt(), b.Text.GetRemovedAt()
	case *api.JSONElement_Counter_:
		return b.Counter.GetCreatedAt(), b.Counter.GetMovedAt(), b.Counter.GetRemovedAt()
	case *api.JSONElement_Tree_:
		return b.Tree.GetCreatedAt(), b.Tree.GetMovedAt(), b.Tree.GetRemovedAt()
	}
	return nil, nil, nil
}

func setElementTickets(e *api.JSONElement, moved, removed *api.TimeTicket) {
	switch b := e.GetBody().(type) {
	case *api.JSONElement_JsonObject:
		b.JsonObject.MovedAt, b.JsonObject.RemovedAt = moved, removed
	case *api.JSONElement_JsonArray:
		b.JsonArray.MovedAt, b.JsonArray.RemovedAt = moved, removed
	case *api.JSONElement_Primitive_:
		b.Primitive.MovedAt, b.Primitive.RemovedAt = moved, removed
	case *api.JSONElement_Text_:
		b.Text.MovedAt, b.Text.RemovedAt = moved, removed
	case *api.JSONElement_Counter_:
		b.Counter.MovedAt, b.Counter.RemovedAt = moved, removed
	case *api.JSONElement_Tree_:
		b.Tree.MovedAt, b.Tree.RemovedAt = moved, removed
	}
}

// walkObjects calls f for every JSONObject of a snapshot element tree.
func walkObjects(e *api.JSONElement, f func(o *api.JSONElement_JSONObject)) {
	if e == nil {
		return
	}
	switch b := e.Body.(type) {
	case *api.JSONElement_JsonObject:
		if b.JsonObject == nil {
			return
		}
		f(b.JsonObject)
		for _, n := range b.JsonObject.Nodes {
			if n != nil {
				walkObjects(n.Element, f)
			}
		}
	case *api.JSONElement_JsonArray:
		if b.JsonArray == nil {
			return
		}
		for _, n := range b.JsonArray.Nodes {
			if n != nil {
				walkObjects(n.Element, f)
			}
		}
	}
}

// raceMembers: createdAt keys of object members that share their key with another member of the
// same object (the members between which the decoder replays a last-writer-wins race).
func raceMembers(root *api.JSONElement) map[string]string {
	out := map[string]string{}
	walkObjects(root, func(o *api.JSONElement_JSONObject) {
		cnt := map[string]int{}
		for _, n := range o.Nodes {
			cnt[n.GetKey()]++
		}
		for _, n := range o.Nodes {
			if cnt[n.GetKey()] >= 2 && n.Element != nil {
				cr, _, _ := elementTickets(n.Element)
				out[pbTicketKey(cr)] = n.GetKey()
			}
		}
	})
	return out
}

// normaliseMembers: (1) a member without moved_at gets moved_at := created_at (the decoder's
// SetWithExecutedAt(PositionedAt) writes exactly that; same LWW anchor, no behavioural change);
// (2) members in `race` have moved_at/removed_at cleared; (3) members in `drop` are removed.
func normaliseMembers(root *api.JSONElement, race map[string]string, drop map[string]bool) {
	walkObjects(root, func(o *api.JSONElement_JSONObject) {
		var keep []*api.RHTNode
		for _, n := range o.Nodes {
			if n == nil || n.Element == nil {
				keep = append(keep, n)
				continue
			}
			cr, mv, rm := elementTickets(n.Element)
			k := pbTicketKey(cr)
			if drop[k] {
				continue
			}
			if _, ok := race[k]; ok {
				mv, rm = nil, nil
			} else if mv == nil && cr != nil {
				mv = proto.Clone(cr).(*api.TimeTicket)
			}
			setElementTickets(n.Element, mv, rm)
			keep = append(keep, n)
		}
		o.Nodes = keep
	})
}

// ---------- live-graph evidence ----------

// restoredInstances: object members whose by-key occupant is a different instance than the one
// the by-createdAt table holds under the same createdAt (an undo/redo re-set an element under
// its old identity: ElementRHT.nodeMapByKey has the restored instance, nodeMapByCreatedAt - what
// the encoder, DeepCopy and GC walk - is keyed by createdAt and holds one of the two).
func restoredInstances(root *crdt.Object) map[string]string {
	out := map[string]string{}
	check := func(o *crdt.Object) {
		byCreated := map[string]crdt.Element{}
		for _, n := range o.RHTNodes() {
			byCreated[n.Element().CreatedAt().Key()] = n.Element()
		}
		for k, occ := range o.Members() {
			if other, ok := byCreated[occ.CreatedAt().Key()]; !ok || other != occ {
				out[occ.CreatedAt().Key()] = k
			}
		}
	}
	check(root)
	root.Descendants(func(e crdt.Element, _ crdt.Container) bool {
		if o, ok := e.(*crdt.Object); ok {
			check(o)
		}
		return false
	})
	return out
}

// removedTextAttrs: ids of removed attribute nodes of Text nodes in a graph (their IsRemoved
// flag is what toTextNodes does not serialise).
func removedTextAttrs(root *crdt.Object) map[string]bool {
	out := map[string]bool{}
	root.Descendants(func(e crdt.Element, _ crdt.Container) bool {
		if t, ok := e.(*crdt.Text); ok {
			for _, n := range t.Nodes() {
				if n.Value() == nil || n.Value().Attrs() == nil {
					continue
				}
				for _, a := range n.Value().Attrs().Nodes() {
					if a.IsRemoved() {
						out[fmt.Sprintf("%T:%s", a, a.IDString())] = true
					}
				}
			}
		}
		return false
	})
	return out
}

// ---------- the analysis ----------

type snapFinding struct {
	tag   string // "" = unexplained
	items []string
}

type snapReport struct {
	by map[string]*snapFinding
}

func (r *snapReport) add(tag, item string) {
	if r.by == nil {
		r.by = map[string]*snapFinding{}
	}
	f := r.by[tag]
	if f == nil {
		f = &snapFinding{tag: tag}
		r.by[tag] = f
	}
	f.items = append(f.items, item)
}

const (
	tagArraySet   = "c09-arrayset-garbage-unregistered"
	tagStaleReg   = "c15-garbage-registration-of-restored-element"
	tagRestored   = "c15-restored-instance-shadowed-in-createdat-table"
	tagRHT        = "c02-rht-lww-replay-on-decode"
	tagTextAttr   = "c02-text-attr-removed"
	tagPairToggle = "c09-gc-pair-registered-twice-is-dropped"
)

func describe(e crdt.Element) string {
	rm := "live"
	if e.RemovedAt() != nil {
		rm = "removedAt=" + e.RemovedAt().ToTestString()
	}
	return fmt.Sprintf("%s(%T,%s)", e.CreatedAt().ToTestString(), e, rm)
}

// analyseSnapshot explains, item by item, every difference between L, G and D and between the
// two encodings pa (of the live graph) and pb (of the decoded graph).
func (h *fuzzHist) analyseSnapshot(live *crdt.Root, obj *crdt.Object, pa, pb *api.Snapshot) *snapReport {
	rep := &snapReport{}
	G := graphView(live.Object())
	D := graphView(obj)
	Lreg, Lpairs, haveLpairs := bookView(live)
	restored := restoredInstances(live.Object())
	race := raceMembers(pa.Root)
	for k, v := range raceMembers(pb.Root) {
		race[k] = v
	}

	// --- L vs G: elements
	for k, e := range G.removed {
		if _, ok := Lreg[k]; ok {
			continue
		}
		switch {
		case h.replaced[k]:
			// replaced through Array.Set*: tombstoned in the graph, never registered by the live root
			rep.add(tagArraySet, "graph-tombstone-not-registered:"+describe(e))
		default:
			rep.add("", "graph-tombstone-not-registered:"+describe(e))
		}
	}
	for k, e := range Lreg {
		if _, ok := G.removed[k]; ok {
			continue
		}
		cur, inGraph := G.all[k]
		switch {
		case inGraph && cur.RemovedAt() == nil && cur != e:
			// the registered instance is a tombstone that an undo/redo replaced by a live instance
			// under the same createdAt; the registration was never dropped
			rep.add(tagStaleReg, "registered-but-live-in-graph:"+describe(e)+" graph holds "+describe(cur))
		case inGraph && cur.RemovedAt() == nil && cur == e:
			rep.add("", "registered-but-not-removed:"+describe(e))
		default:
			rep.add("", "registered-but-absent-from-graph:"+describe(e))
		}
	}
	// --- L vs G: GC node pairs
	if haveLpairs {
		for k := range G.pairs {
			id := k[strings.Index(k, ":")+1:]
			if !Lpairs[id] {
				// RegisterGCPair deletes the entry when the same child is registered a second time
				// ("it means that the child should be removed from the cache")
				rep.add(tagPairToggle, "graph-pair-not-registered:"+k)
			}
		}
		gids := map[string]bool{}
		for k := range G.pairs {
			gids[k[strings.Index(k, ":")+1:]] = true
		}
		for id := range Lpairs {
			if !gids[id] {
				rep.add("", "registered-pair-not-in-graph:"+id)
			}
		}
	} else if n := live.GarbageLen() - live.GarbageElementLen(); n != len(G.pairs) {
		rep.add("", fmt.Sprintf("live pair count %d, graph pair count %d (gcNodePairMap not readable)", n, len(G.pairs)))
	}

	// --- G vs D: elements
	for k, e := range D.removed {
		if _, ok := G.removed[k]; ok {
			continue
		}
		_, isRace := race[k]
		_, isRest := restored[k]
		switch {
		case isRest:
			rep.add(tagRestored, "tombstone-after-decode:"+describe(e))
		case isRace:
			rep.add(tagRHT, "member-tombstoned-by-decode:"+describe(e)+" key="+race[k])
		default:
			rep.add("", "tombstone-only-after-decode:"+describe(e))
		}
	}
	for k, e := range G.removed {
		if _, ok := D.removed[k]; ok {
			continue
		}
		_, isRest := restored[k]
		switch {
		case isRest:
			rep.add(tagRestored, "tombstone-lost-by-decode:"+describe(e))
		default:
			rep.add("", "tombstone-lost-by-decode:"+describe(e))
		}
	}
	// --- G vs D: GC node pairs
	lostAttrs := removedTextAttrs(live.Object())
	for k := range G.pairs {
		if _, ok := D.pairs[k]; ok {
			continue
		}
		if lostAttrs[k] {
			rep.add(tagTextAttr, "removed-text-attribute-pair-lost:"+k)
		} else {
			rep.add("", "pair-lost-by-decode:"+k)
		}
	}
	for k := range D.pairs {
		if _, ok := G.pairs[k]; !ok {
			rep.add("", "pair-only-after-decode:"+k)
		}
	}

	// --- the two encodings
	qa, qb := proto.Clone(pa).(*api.Snapshot), proto.Clone(pb).(*api.Snapshot)
	normaliseMembers(qa.Root, nil, nil)
	normaliseMembers(qb.Root, nil, nil)
	canonElement(qa.Root)
	canonElement(qb.Root)
	if !proto.Equal(qa, qb) {
		// differences confined to the members that race for a key, or to restored instances?
		drop := map[string]bool{}
		for k := range restored {
			drop[k] = true
		}
		ra, rb := proto.Clone(pa).(*api.Snapshot), proto.Clone(pb).(*api.Snapshot)
		normaliseMembers(ra.Root, race, nil)
		normaliseMembers(rb.Root, race, nil)
		canonElement(ra.Root)
		canonElement(rb.Root)
		switch {
		case proto.Equal(ra, rb):
			rep.add(tagRHT, "encodings differ only in moved_at/removed_at of members racing for keys "+raceKeys(race))
		default:
			sa, sb := proto.Clone(pa).(*api.Snapshot), proto.Clone(pb).(*api.Snapshot)
			normaliseMembers(sa.Root, race, drop)
			normaliseMembers(sb.Root, race, drop)
			canonElement(sa.Root)
			canonElement(sb.Root)
			if len(drop) > 0 && proto.Equal(sa, sb) {
				rep.add(tagRestored, "encodings differ only in members restored under an old createdAt: "+strings.Join(sortedVals(restored), ","))
			} else {
				rep.add("", "re-encode differs: "+firstDiff(protoTextLong(sa), protoTextLong(sb)))
			}
		}
	}
	return rep
}

func raceKeys(m map[string]string) string {
	s := map[string]bool{}
	for _, v := range m {
		s[v] = true
	}
	var l []string
	for k := range s {
		l = append(l, k)
	}
	sort.Strings(l)
	return strings.Join(l, ",")
}

func sortedVals(m map[string]string) []string {
	var l []string
	for k, v := range m {
		l = append(l, v+"@"+k)
	}
	sort.Strings(l)
	return l
}

func firstDiff(a, b string) string {
	i := 0
	for i < len(a) && i < len(b) && a[i] == b[i] {
		i++
	}
	win := func(x string) string {
		lo, hi := max(0, i-200), min(len(x), i+200)
		return x[lo:hi]
	}
	return "expected …" + win(a) + "… got …" + win(b) + "…"
}

// explainMarshal decides whether a Marshal() difference between the live and the decoded root is
// accounted for by the items already found.
func (h *fuzzHist) explainMarshal(rep *snapReport, live *crdt.Root, m1, m2 string) string {
	// (a) removed text attributes come back: the difference is confined to "attrs" of text nodes
	if len(removedTextAttrs(live.Object())) > 0 && reAttrs.ReplaceAllString(m1, "") == reAttrs.ReplaceAllString(m2, "") {
		return tagTextAttr
	}
	// (b) the encodings are equal up to racing members / restored instances (no unexplained item),
	// and the two Marshal() strings are equal once the keys those members compete for are deleted
	// from every object: which member shows under such a key is exactly what the two findings change
	if _, unexplained := rep.by[""]; unexplained {
		return ""
	}
	keys := map[string]bool{}
	restored := restoredInstances(live.Object())
	for _, k := range restored {
		keys[k] = true
	}
	raceUsed := false
	if f, ok := rep.by[tagRHT]; ok && len(f.items) > 0 {
		for _, it := range f.items {
			if i := strings.Index(it, "racing for keys "); i >= 0 {
				for _, k := range strings.Split(it[i+len("racing for keys "):], ",") {
					keys[k] = true
				}
			}
			if i := strings.LastIndex(it, " key="); i >= 0 {
				keys[it[i+5:]] = true
			}
		}
		raceUsed = true
	}
	if len(keys) == 0 {
		return ""
	}
	a, ok1 := stripKeysJSON(m1, keys)
	b, ok2 := stripKeysJSON(m2, keys)
	if ok1 && ok2 && a == b {
		if len(restored) > 0 {
			return tagRestored
		}
		if raceUsed {
			return tagRHT
		}
	}
	return ""
}

// stripKeysJSON parses a Marshal() string, deletes the given member names from every object and
// re-serialises canonically.
func stripKeysJSON(s string, keys map[string]bool) (string, bool) {
	for _, t := range []string{"+Inf", "-Inf", "NaN"} {
		s = strings.ReplaceAll(s, ":"+t, `:"`+t+`"`)
		s = strings.ReplaceAll(s, ","+t, `,"`+t+`"`)
		s = strings.ReplaceAll(s, "["+t, `["`+t+`"`)
	}
	dec := json.NewDecoder(strings.NewReader(s))
	dec.UseNumber()
	var v any
	if err := dec.Decode(&v); err != nil {
		return "", false
	}
	var strip func(x any) any
	strip = func(x any) any {
		switch t := x.(type) {
		case map[string]any:
			for k := range t {
				if keys[k] {
					delete(t, k)
				} else {
					t[k] = strip(t[k])
				}
			}
			return t
		case []any:
			for i := range t {
				t[i] = strip(t[i])
			}
			return t
		}
		return x
	}
	out, err := json.Marshal(strip(v))
	if err != nil {
		return "", false
	}
	return string(out), true
}
