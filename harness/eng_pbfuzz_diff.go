package main

// Evidence-based classification of what the snapshot oracle of engine `pbfuzz` observes.
//
// Three views of one document are compared item by item:
//
//	L  the live root's own bookkeeping   (Root.GCElementPairMap, gcNodePairMap)
//	G  the live root's object graph      (crdt.NewRoot(live.Object()): what a walk of the graph finds)
//	D  the decoded graph                 (crdt.NewRoot(BytesToSnapshot(SnapshotToBytes(live))))
//
// L vs G is the live document's bookkeeping (no codec involved); G vs D is what the codec (or
// the decoder's replay) changes.  Every differing item must be explained by the predicate of a
// listed finding; an item that no predicate explains is reported untagged (a violation).  No
// predicate looks at the generator class of the history.

import (
	"encoding/json"
	"fmt"
	"os"
	"reflect"
	"sort"
	"strings"
	"unsafe"

	"google.golang.org/protobuf/proto"

	api "github.com/yorkie-team/yorkie/api/yorkie/v1"
	"github.com/yorkie-team/yorkie/pkg/document/change"
	"github.com/yorkie-team/yorkie/pkg/document/crdt"
	"github.com/yorkie-team/yorkie/pkg/document/operations"
	"github.com/yorkie-team/yorkie/pkg/document/time"
)

// ---------- views ----------

type elemView struct {
	removed map[string]string       // createdAt key -> key of the tombstoned element that brings it in (itself or an ancestor): what GarbageElementLen counts
	all     map[string]crdt.Element // createdAt key -> element found by walking the graph
	pairs   map[string]string       // GC node pairs found by walking the graph: unique key (owner + child) -> child id
	idCount map[string]int          // child id -> number of graph pairs carrying it (ids of attribute tombstones are not unique per owner)
	attrOf  map[string]string       // unique pair key -> "text" | "tree" for attribute tombstones
	pairIn  map[string]string       // unique pair key -> createdAt key of the Text / Tree / Array element holding the pair
}

func ownerOf(p crdt.GCPair) string {
	switch x := p.Parent.(type) {
	case *crdt.TreeNode:
		return "treenode " + x.IDString()
	case *crdt.RGATreeList:
		return "array"
	case *crdt.TextValue:
		return fmt.Sprintf("textvalue %p", x)
	default:
		return fmt.Sprintf("%T", p.Parent)
	}
}

// graphView walks an object graph (no bookkeeping involved).
func graphView(root *crdt.Object) elemView {
	v := elemView{removed: map[string]string{}, all: map[string]crdt.Element{}, pairs: map[string]string{},
		idCount: map[string]int{}, attrOf: map[string]string{}, pairIn: map[string]string{}}
	mark := func(e crdt.Element) {
		o := e.CreatedAt().Key()
		if _, ok := v.removed[o]; !ok {
			v.removed[o] = o
		}
		if ct, ok := e.(crdt.Container); ok {
			ct.Descendants(func(d crdt.Element, _ crdt.Container) bool {
				if _, ok := v.removed[d.CreatedAt().Key()]; !ok {
					v.removed[d.CreatedAt().Key()] = o
				}
				return false
			})
		}
	}
	visit := func(e crdt.Element) {
		v.all[e.CreatedAt().Key()] = e
		if e.RemovedAt() != nil {
			mark(e)
		}
		addPair := func(owner string, p crdt.GCPair, attr string) {
			k := e.CreatedAt().Key() + "/" + owner + "/" + fmt.Sprintf("%T:%s", p.Child, p.Child.IDString())
			v.pairs[k] = p.Child.IDString()
			v.pairIn[k] = e.CreatedAt().Key()
			v.idCount[p.Child.IDString()]++
			if attr != "" {
				v.attrOf[k] = attr
			}
		}
		switch x := e.(type) {
		case *crdt.Array:
			for _, p := range x.GCPairs() {
				addPair("array", p, "")
			}
		case *crdt.Text:
			for _, n := range x.Nodes() {
				if n.RemovedAt() != nil {
					addPair("text", crdt.GCPair{Parent: x.RGATreeSplit(), Child: n}, "")
				}
				if n.Value() != nil {
					for _, p := range n.Value().GCPairs() {
						addPair("textnode "+n.ID().ToTestString(), p, "text")
					}
				}
			}
		case *crdt.Tree:
			for _, p := range x.GCPairs() {
				attr := ""
				if _, ok := p.Child.(*crdt.RHTNode); ok {
					attr = "tree"
				}
				addPair(ownerOf(p), p, attr)
			}
		}
	}
	visit(root)
	root.Descendants(func(e crdt.Element, _ crdt.Container) bool {
		visit(e)
		return false
	})
	return v
}

type bookKeeping struct {
	direct map[string]crdt.Element // registered tombstones
	elems  map[string]string       // closed under descendants: key -> registered tombstone that brings it in
	inst   map[string]crdt.Element // the instances seen through the registered tombstones
	pairs  map[string]bool         // keys of gcNodePairMap (child ids)
	ok     bool
}

// bookView is a root's own bookkeeping: registered removed elements (closed under descendants, as
// GarbageElementLen counts them) and the keys of gcNodePairMap (unexported: read through
// reflection, keys only).
func bookView(r *crdt.Root) bookKeeping {
	b := bookKeeping{direct: map[string]crdt.Element{}, elems: map[string]string{}, inst: map[string]crdt.Element{}, pairs: map[string]bool{}}
	for _, p := range r.GCElementPairMap() {
		p := p
		e := p.Elem()
		o := e.CreatedAt().Key()
		b.direct[o] = e
	}
	for o, e := range b.direct {
		b.elems[o] = o
		b.inst[o] = e
	}
	for o, e := range b.direct {
		if ct, ok := e.(crdt.Container); ok {
			o := o
			ct.Descendants(func(d crdt.Element, _ crdt.Container) bool {
				if _, ok := b.elems[d.CreatedAt().Key()]; !ok {
					b.elems[d.CreatedAt().Key()] = o
					b.inst[d.CreatedAt().Key()] = d
				}
				return false
			})
		}
	}
	func() {
		defer func() { _ = recover() }()
		f := reflect.ValueOf(r).Elem().FieldByName("gcNodePairMap")
		if f.IsValid() && f.Kind() == reflect.Map {
			for _, k := range f.MapKeys() {
				b.pairs[k.String()] = true
			}
			b.ok = true
		}
	}()
	return b
}

// observe records which attribute-tombstone ids were ever carried by more than one owner.
func (h *fuzzHist) observe(root *crdt.Object) {
	for id, n := range graphView(root).idCount {
		if n >= 2 {
			h.sharedIDs[id] = true
		}
	}
	root.Descendants(func(e crdt.Element, parent crdt.Container) bool {
		h.parentOf[e.CreatedAt().Key()] = parent.CreatedAt().Key()
		return false
	})
}

// restoredAncestor: an element was seen (at some observed point) below a container that undo/redo
// later restored as a copy under the container's old createdAt.
func (h *fuzzHist) restoredAncestor(key string) string {
	for i := 0; i < 64; i++ {
		p, ok := h.parentOf[key]
		if !ok {
			return ""
		}
		if h.restoredVals[p] {
			return p
		}
		key = p
	}
	return ""
}

// ---------- protobuf side ----------

func pbTicketKey(t *api.TimeTicket) string {
	if t == nil {
		return ""
	}
	a, err := time.ActorIDFromBytes(t.ActorId)
	if err != nil {
		return ""
	}
	return time.NewTicket(t.Lamport, t.Delimiter, a).Key()
}

// elementHeader returns created/moved/removed tickets of a JSONElement body (by field name).
func elementTickets(e *api.JSONElement) (created, moved, removed *api.TimeTicket) {
	switch b := e.GetBody().(type) {
	case *api.JSONElement_JsonObject:
		return b.JsonObject.GetCreatedAt(), b.JsonObject.GetMovedAt(), b.JsonObject.GetRemovedAt()
	case *api.JSONElement_JsonArray:
		return b.JsonArray.GetCreatedAt(), b.JsonArray.GetMovedAt(), b.JsonArray.GetRemovedAt()
	case *api.JSONElement_Primitive_:
		return b.Primitive.GetCreatedAt(), b.Primitive.GetMovedAt(), b.Primitive.GetRemovedAt()
	case *api.JSONElement_Text_:
		return b.Text.GetCreatedAt(), b.Text.GetMovedAt(), b.Text.GetRemovedAt()
	case *api.JSONElement_Counter_:
		return b.Counter.GetCreatedAt(), b.Counter.GetMovedAt(), b.Counter.GetRemovedAt()
	case *api.JSONElement_Tree_:
		return b.Tree.GetCreatedAt(), b.Tree.GetMovedAt(), b.Tree.GetRemovedAt()
	}
	return nil, nil, nil
}

func setElementTickets(e *api.JSONElement, moved, removed *api.TimeTicket) {
	switch b := e.GetBody().(type) {
	case *api.JSONElement_JsonObject:
		b.JsonObject.MovedAt, b.JsonObject.RemovedAt = moved, removed
	case *api.JSONElement_JsonArray:
		b.JsonArray.MovedAt, b.JsonArray.RemovedAt = moved, removed
	case *api.JSONElement_Primitive_:
		b.Primitive.MovedAt, b.Primitive.RemovedAt = moved, removed
	case *api.JSONElement_Text_:
		b.Text.MovedAt, b.Text.RemovedAt = moved, removed
	case *api.JSONElement_Counter_:
		b.Counter.MovedAt, b.Counter.RemovedAt = moved, removed
	case *api.JSONElement_Tree_:
		b.Tree.MovedAt, b.Tree.RemovedAt = moved, removed
	}
}

// walkObjects calls f for every JSONObject of a snapshot element tree.
func walkObjects(e *api.JSONElement, f func(o *api.JSONElement_JSONObject)) {
	if e == nil {
		return
	}
	switch b := e.Body.(type) {
	case *api.JSONElement_JsonObject:
		if b.JsonObject == nil {
			return
		}
		f(b.JsonObject)
		for _, n := range b.JsonObject.Nodes {
			if n != nil {
				walkObjects(n.Element, f)
			}
		}
	case *api.JSONElement_JsonArray:
		if b.JsonArray == nil {
			return
		}
		for _, n := range b.JsonArray.Nodes {
			if n != nil {
				walkObjects(n.Element, f)
			}
		}
	}
}

// raceMembers: createdAt keys of object members that share their key with another member of the
// same object (the members between which the decoder replays a last-writer-wins race).
func raceMembers(root *api.JSONElement) map[string]string {
	out := map[string]string{}
	walkObjects(root, func(o *api.JSONElement_JSONObject) {
		cnt := map[string]int{}
		for _, n := range o.Nodes {
			cnt[n.GetKey()]++
		}
		for _, n := range o.Nodes {
			if cnt[n.GetKey()] >= 2 && n.Element != nil {
				cr, _, _ := elementTickets(n.Element)
				out[pbTicketKey(cr)] = n.GetKey()
			}
		}
	})
	return out
}

// normaliseMembers: (1) a member without moved_at gets moved_at := created_at (the decoder's
// SetWithExecutedAt(PositionedAt) writes exactly that; same LWW anchor, no behavioural change);
// (2) members in `race` have moved_at/removed_at cleared; (3) members in `drop` are removed.
func normaliseMembers(root *api.JSONElement, race map[string]string, drop map[string]bool) {
	walkObjects(root, func(o *api.JSONElement_JSONObject) {
		var keep []*api.RHTNode
		for _, n := range o.Nodes {
			if n == nil || n.Element == nil {
				keep = append(keep, n)
				continue
			}
			cr, mv, rm := elementTickets(n.Element)
			k := pbTicketKey(cr)
			if drop[k] {
				continue
			}
			if _, ok := race[k]; ok {
				mv, rm = nil, nil
			} else if mv == nil && cr != nil {
				mv = proto.Clone(cr).(*api.TimeTicket)
			}
			setElementTickets(n.Element, mv, rm)
			keep = append(keep, n)
		}
		o.Nodes = keep
	})
}

// ---------- live-graph evidence ----------

// restoredInstances: object members whose by-key occupant is a different instance than the one
// the by-createdAt table holds under the same createdAt (an undo/redo re-set an element under
// its old identity: ElementRHT.nodeMapByKey has the restored instance, nodeMapByCreatedAt - what
// the encoder, DeepCopy and GC walk - is keyed by createdAt and holds one of the two).
func restoredInstances(root *crdt.Object) map[string]string {
	out := map[string]string{}
	check := func(o *crdt.Object) {
		byCreated := map[string]crdt.Element{}
		for _, n := range o.RHTNodes() {
			byCreated[n.Element().CreatedAt().Key()] = n.Element()
		}
		for k, occ := range o.Members() {
			if other, ok := byCreated[occ.CreatedAt().Key()]; !ok || other != occ {
				out[occ.CreatedAt().Key()] = k
			}
		}
	}
	check(root)
	root.Descendants(func(e crdt.Element, _ crdt.Container) bool {
		if o, ok := e.(*crdt.Object); ok {
			check(o)
		}
		return false
	})
	return out
}

// orphanMembers: object members that are not tombstoned and are not the occupant of their key
// (key -> createdAt key).  The live object does not show them; a decoder that re-inserts every
// member makes the newest of them the occupant.
func orphanMembers(root *crdt.Object) map[string]string {
	out := map[string]string{}
	check := func(o *crdt.Object) {
		occ := o.Members()
		for _, n := range o.RHTNodes() {
			e := n.Element()
			if e.RemovedAt() == nil && occ[n.Key()] != e {
				out[n.Key()] = e.CreatedAt().Key()
			}
		}
	}
	check(root)
	root.Descendants(func(e crdt.Element, _ crdt.Container) bool {
		if o, ok := e.(*crdt.Object); ok {
			check(o)
		}
		return false
	})
	return out
}

// ---------- the analysis ----------

type snapFinding struct {
	tag   string // "" = unexplained
	items []string
}

type snapReport struct {
	by map[string]*snapFinding
}

func (r *snapReport) add(tag, item string) {
	if r.by == nil {
		r.by = map[string]*snapFinding{}
	}
	f := r.by[tag]
	if f == nil {
		f = &snapFinding{tag: tag}
		r.by[tag] = f
	}
	f.items = append(f.items, item)
}

const (
	tagArraySet   = "c09-arrayset-garbage-unregistered"
	tagStaleReg   = "c15-garbage-registration-of-restored-element"
	tagRestored   = "c15-restored-instance-shadowed-in-createdat-table"
	tagRHT        = "c02-rht-lww-replay-on-decode"
	tagPairToggle = "c09-gc-pair-registered-twice-is-dropped"
	// consequences of undo/redo restoring something under its old identity
	tagRestoredInner = "c15-tombstones-inside-restored-element-not-registered"
	tagRestoredNode  = "c15-gc-pair-of-restored-node-stays-registered"
	// the live root's registrations differ from crdt.NewRoot(live.Object()) - a rebuild from its own
	// graph, no codec involved - in a shape none of the predicates identifies.  This used to be a listed
	// residual class (C09-n7, 4367 per 100k histories); since the shapes behind it were identified
	// (tagLostSet, tagDeparted, the extensions of tagPairToggle / tagStaleReg / tagRestoredInner) nothing
	// is left of it in 200k histories, and such an item is now reported UNTAGGED (= a violation) with the
	// structural facts of the item attached
	tagBookOther = ""
	// RHT.Set returns the key's tombstone also when the set loses against it; Tree.Style / Text.Style
	// pass it to RegisterGCPair, whose toggle drops the registration of a tombstone that stays
	tagLostSet = "c03-lost-style-set-unregisters-attribute-tombstone"
	// collecting (or replacing) a Text/Tree element, or collecting a node, leaves the GC pairs of what
	// was inside registered
	tagDeparted = "c03-gc-pair-outlives-collected-or-replaced-owner"
	// an object member that lost a last-writer-wins race against an occupant that was already
	// removed is never tombstoned; once the occupant is purged it is the only member left and the
	// decoder makes it the occupant
	tagOrphan = "c02-untombstoned-lww-loser-resurrected-by-decode"
)

func describe(e crdt.Element) string {
	rm := "live"
	if e.RemovedAt() != nil {
		rm = "removedAt=" + e.RemovedAt().ToTestString()
	}
	return fmt.Sprintf("%s(%T,%s)", e.CreatedAt().ToTestString(), e, rm)
}

// isAttrID: ids of attribute tombstones are "<updatedAt key>:<attribute key>", ids of text / tree
// nodes are "<createdAt key>:<offset>".
func isAttrID(id string) bool {
	i := strings.LastIndex(id, ":")
	if i < 0 || i+1 >= len(id) {
		return false
	}
	for _, c := range id[i+1:] {
		if c < '0' || c > '9' {
			return true
		}
	}
	return false
}

// analyseSnapshot explains, item by item, every difference between L, G and D and between the
// two encodings pa (of the live graph) and pb (of the decoded graph).
func (h *fuzzHist) analyseSnapshot(live *crdt.Root, obj *crdt.Object, pa, pb *api.Snapshot) *snapReport {
	rep := &snapReport{}
	G := graphView(live.Object())
	D := graphView(obj)
	L := bookView(live)
	Gb := bookView(crdt.NewRoot(live.Object())) // bookkeeping rebuilt from the live graph (no codec)
	Db := bookView(crdt.NewRoot(obj))           // bookkeeping rebuilt from the decoded graph
	for id, n := range G.idCount {
		if n >= 2 {
			h.sharedIDs[id] = true
		}
	}
	for id, n := range D.idCount {
		if n >= 2 {
			h.sharedIDs[id] = true
		}
	}
	restored := restoredInstances(live.Object())
	race := raceMembers(pa.Root)
	for k, v := range raceMembers(pb.Root) {
		race[k] = v
	}
	closure := func(set map[string]bool) map[string]bool {
		out := map[string]bool{}
		for k := range set {
			out[k] = true
			if ct, ok := G.all[k].(crdt.Container); ok {
				ct.Descendants(func(d crdt.Element, _ crdt.Container) bool {
					out[d.CreatedAt().Key()] = true
					return false
				})
			}
		}
		return out
	}
	replaced := closure(h.replaced)       // everything below an element replaced through Array.Set*
	inRestored := closure(h.restoredVals) // everything inside an element restored under its old createdAt

	// --- (1) elements, L vs G: the live root's registrations against its own graph
	for k, o := range G.removed {
		if _, ok := L.elems[k]; ok {
			continue
		}
		e := G.all[k]
		switch {
		case replaced[o]:
			// replaced through Array.Set*: tombstoned in the graph, never registered by the live root
			rep.add(tagArraySet, "graph-tombstone-not-registered:"+describe(e))
		case inRestored[o] && !h.restoredVals[o]:
			// a tombstone that came back inside a restored container: RegisterElement books the
			// restored value and its descendants as live, their tombstones are never registered
			rep.add(tagRestoredInner, "graph-tombstone-not-registered:"+describe(e))
		case h.restoredVals[o] && live.FindByCreatedAt(G.all[o].CreatedAt()) == G.all[o]:
			// the tombstone IS an instance that undo/redo restored under its old createdAt and that was
			// removed again: gcElementPairMap is keyed by createdAt, the registration of the instance it
			// replaced and its own share one slot
			rep.add(tagRestoredInner, "restored-instance-removed-again-not-registered:"+describe(e))
		default:
			shape := "elementMap does not know it"
			if r := live.FindByCreatedAt(e.CreatedAt()); r == e {
				shape = "elementMap holds this instance"
			} else if r != nil {
				shape = "elementMap holds another instance: " + describe(r)
			}
			if o != k {
				shape += "; tombstoned through " + describe(G.all[o])
			}
			rep.add(tagBookOther, "graph-tombstone-not-registered:"+describe(e)+" ["+shape+"]")
		}
	}
	for k, o := range L.elems {
		if _, ok := G.removed[k]; ok {
			continue
		}
		e := L.inst[k]
		reg := L.direct[o]
		cur, inGraph := G.all[o]
		switch {
		case inGraph && cur != reg && (cur.RemovedAt() == nil || h.restoredVals[o] || inRestored[o] || h.restoredAncestor(o) != ""):
			// the registered tombstone instance was replaced (undo/redo restored the element under the
			// same createdAt, or restored a container around it as a copy); the registration - and with
			// it everything the old instance contained - was never dropped
			rep.add(tagStaleReg, "registered-through-replaced-instance:"+describe(e)+" via "+describe(reg))
		case !inGraph && G.all[k] == nil && (h.restoredVals[o] || h.restoredAncestor(o) != ""):
			// the registered tombstone is no longer part of the graph at all: it sat inside a container
			// instance that undo/redo replaced by a copy (or is itself the replaced instance), and the
			// registration was never dropped
			rep.add(tagStaleReg, "registered-tombstone-left-the-graph-with-a-replaced-instance:"+describe(e)+" via "+describe(reg))
		default:
			// structural facts for whoever reads the line
			shape := "registered instance is not in the graph"
			if inGraph && cur == reg {
				shape = "registered instance is in the graph"
			} else if inGraph {
				shape = "the graph holds another instance under the registered createdAt: " + describe(cur)
			}
			if g, ok := G.all[k]; !ok {
				shape += "; the element is not in the graph"
			} else if g == e {
				shape += "; the element is in the graph (same instance)"
			} else {
				shape += "; the graph holds another instance of the element: " + describe(g)
			}
			rep.add(tagBookOther, "registered-but-not-a-graph-tombstone:"+describe(e)+" via "+describe(reg)+" ["+shape+"]")
		}
	}
	// --- (2) elements, G vs D: what the codec / the decoder's replay changes
	for k, o := range D.removed {
		if _, ok := G.removed[k]; ok {
			continue
		}
		e := D.all[k]
		_, isRace := race[o]
		_, isRest := restored[o]
		switch {
		case isRest:
			rep.add(tagRestored, "tombstone-after-decode:"+describe(e))
		case isRace:
			rep.add(tagRHT, "member-tombstoned-by-decode:"+describe(e)+" key="+race[o])
		default:
			rep.add("", "tombstone-only-after-decode:"+describe(e)+" via "+describe(D.all[o]))
		}
	}
	for k, o := range G.removed {
		if _, ok := D.removed[k]; ok {
			continue
		}
		e := G.all[k]
		_, isRest := restored[o]
		switch {
		case isRest:
			rep.add(tagRestored, "tombstone-lost-by-decode:"+describe(e))
		default:
			rep.add("", "tombstone-lost-by-decode:"+describe(e)+" via "+describe(G.all[o]))
		}
	}
	// --- (5) GC node pairs with their owners, G vs D: what the codec loses or invents
	lostIDs := map[string]bool{}
	for k, id := range G.pairs {
		if _, ok := D.pairs[k]; ok {
			continue
		}
		_ = id
		rep.add("", "pair-lost-by-decode:"+k)
	}
	for k := range D.pairs {
		if _, ok := G.pairs[k]; !ok {
			rep.add("", "pair-only-after-decode:"+k)
		}
	}
	// --- (3) pair registrations, L vs a rebuild from the same graph
	var regs map[string]crdt.GCPair
	var owners graphOwners
	pairItem := func(id, what string, book bool) {
		tk := id
		if i := strings.LastIndex(id, ":"); i > 0 {
			tk = id[:i]
		}
		switch {
		case isAttrID(id) && h.sharedIDs[id]:
			// gcNodePairMap is keyed by the child id; an attribute tombstone's id (updatedAt:key) is
			// shared by every text / tree node the same style operation touched (or a split copied it
			// to), and RegisterGCPair deletes the entry when "the same child" is registered again
			rep.add(tagPairToggle, what+":"+id)
		case !isAttrID(id) && h.restoredNodes[tk]:
			// the node was un-tombstoned / re-tombstoned by an identity-preserving restore edit
			rep.add(tagRestoredNode, what+":"+id)
		case book && strings.HasPrefix(what, "pair-registered-by-rebuild"):
			// a tombstone in the graph that the live root does not have registered
			lostSet, inCopy, replacedElsewhere := false, false, false
			for k, pid := range G.pairs {
				if pid != id {
					continue
				}
				elem := G.pairIn[k]
				if isAttrID(id) && h.olderSetSeen(elem, id) && os.Getenv("PBFUZZ_NOLOSTSET") == "" {
					lostSet = true
				}
				if isAttrID(id) && h.newerStyleSeen(elem, id) {
					replacedElsewhere = true
				}
				if inRestored[elem] {
					inCopy = true
				}
			}
			switch {
			case lostSet:
				// RHT.Set hands the surviving tombstone back although the set lost; Style "registers" it,
				// which toggles the registration off
				rep.add(tagLostSet, what+":"+id)
			case replacedElsewhere:
				// shared id: a later style operation replaced this tombstone on some owners; unregistering
				// the replaced copies took the one registration of the id away from the copies that stay
				rep.add(tagPairToggle, "unregistered-with-a-replaced-copy-of-the-same-id:"+id)
			case inCopy:
				// node / attribute tombstones inside a Text or Tree that undo/redo restored as a copy: the
				// copy is registered as a live element, what is dead inside it is not registered
				rep.add(tagRestoredInner, what+":"+id)
			default:
				rep.add(tagBookOther, what+":"+id)
			}
		case book:
			// a registration of the live root for which the graph has no tombstone
			if regs == nil {
				regs, owners = registeredPairs(live), ownersOf(live.Object())
			}
			p, ok := regs[id]
			if !ok {
				rep.add(tagBookOther, what+":"+id)
				break
			}
			sh := pairShape(owners, p)
			switch {
			case sh.childRemoved && (!sh.ownerInGraph || (!sh.isAttr && !sh.childInGraph)):
				// the owner (a collected or replaced Text/Tree, a collected node) or the child itself (dropped
				// together with a collected ancestor) is gone from the graph, the pair stayed registered
				rep.add(tagDeparted, what+":"+id+" ["+sh.desc+"]")
			case sh.childRemoved && sh.isAttr && sh.ownerInGraph && !sh.childInGraph:
				// the registered child is an attribute tombstone that its owner has since replaced: the
				// "unregister" call for the replaced tombstone found no entry (dropped before, shared id) and
				// RegisterGCPair's toggle registered it instead
				rep.add(tagPairToggle, "replaced-attribute-tombstone-registered-by-toggle:"+id+" ["+sh.desc+"]")
			default:
				rep.add(tagBookOther, what+":"+id+" ["+sh.desc+"]")
			}
		default:
			rep.add("", what+":"+id)
		}
	}
	if L.ok && Gb.ok && Db.ok {
		for id := range Gb.pairs {
			if !L.pairs[id] {
				pairItem(id, "pair-registered-by-rebuild-not-by-live-root", true)
			}
		}
		for id := range L.pairs {
			if !Gb.pairs[id] {
				pairItem(id, "pair-registered-by-live-root-not-by-rebuild", true)
			}
		}
		// --- (4) pair registrations through the codec
		for id := range Gb.pairs {
			if !Db.pairs[id] && !lostIDs[id] {
				pairItem(id, "pair-registration-lost-by-decode", false)
			}
		}
		for id := range Db.pairs {
			if !Gb.pairs[id] {
				if lostIDs[id] {
					continue
				}
				pairItem(id, "pair-registration-only-after-decode", false)
			}
		}
	} else {
		rep.add("", "gcNodePairMap not readable")
	}

	// --- the two encodings
	qa, qb := proto.Clone(pa).(*api.Snapshot), proto.Clone(pb).(*api.Snapshot)
	normaliseMembers(qa.Root, nil, nil)
	normaliseMembers(qb.Root, nil, nil)
	canonElement(qa.Root)
	canonElement(qb.Root)
	if !proto.Equal(qa, qb) {
		// differences confined to the members that race for a key, or to restored instances?
		drop := map[string]bool{}
		for k := range restored {
			drop[k] = true
		}
		ra, rb := proto.Clone(pa).(*api.Snapshot), proto.Clone(pb).(*api.Snapshot)
		normaliseMembers(ra.Root, race, nil)
		normaliseMembers(rb.Root, race, nil)
		canonElement(ra.Root)
		canonElement(rb.Root)
		switch {
		case proto.Equal(ra, rb):
			rep.add(tagRHT, "encodings differ only in moved_at/removed_at of members racing for keys "+raceKeys(race))
		default:
			sa, sb := proto.Clone(pa).(*api.Snapshot), proto.Clone(pb).(*api.Snapshot)
			normaliseMembers(sa.Root, race, drop)
			normaliseMembers(sb.Root, race, drop)
			canonElement(sa.Root)
			canonElement(sb.Root)
			if len(drop) > 0 && proto.Equal(sa, sb) {
				rep.add(tagRestored, "encodings differ only in members restored under an old createdAt: "+strings.Join(sortedVals(restored), ","))
			} else {
				rep.add("", "re-encode differs: "+firstDiff(protoTextLong(sa), protoTextLong(sb)))
			}
		}
	}
	return rep
}

func raceKeys(m map[string]string) string {
	s := map[string]bool{}
	for _, v := range m {
		s[v] = true
	}
	var l []string
	for k := range s {
		l = append(l, k)
	}
	sort.Strings(l)
	return strings.Join(l, ",")
}

func sortedVals(m map[string]string) []string {
	var l []string
	for k, v := range m {
		l = append(l, v+"@"+k)
	}
	sort.Strings(l)
	return l
}

func firstDiff(a, b string) string {
	i := 0
	for i < len(a) && i < len(b) && a[i] == b[i] {
		i++
	}
	win := func(x string) string {
		lo, hi := max(0, i-200), min(len(x), i+200)
		return x[lo:hi]
	}
	return "expected …" + win(a) + "… got …" + win(b) + "…"
}

// explainMarshal decides whether a Marshal() difference between the live and the decoded root is
// accounted for by findings for which the live graph (or the two encodings) carry evidence.  All
// applicable normalisations are applied together; the tags returned are those whose normalisation
// was needed.  nil = unexplained.
func (h *fuzzHist) explainMarshal(rep *snapReport, live *crdt.Root, m1, m2 string) []string {
	type norm struct {
		tag string
		f   func(string) (string, bool)
	}
	var norms []norm
	// (b) an untombstoned loser becomes the occupant: delete the keys that have such a member
	if orph := orphanMembers(live.Object()); len(orph) > 0 {
		ks := map[string]bool{}
		for k := range orph {
			ks[k] = true
		}
		norms = append(norms, norm{tagOrphan, func(s string) (string, bool) { return stripKeysJSON(s, ks) }})
	}
	// (c) restored instances shadowed in the by-createdAt table: delete their keys
	if restored := restoredInstances(live.Object()); len(restored) > 0 {
		ks := map[string]bool{}
		for _, k := range restored {
			ks[k] = true
		}
		norms = append(norms, norm{tagRestored, func(s string) (string, bool) { return stripKeysJSON(s, ks) }})
	}
	// (d) members racing for a key whose tombstones the decoder moved: delete those keys
	if f, ok := rep.by[tagRHT]; ok {
		ks := map[string]bool{}
		for _, it := range f.items {
			if i := strings.Index(it, "racing for keys "); i >= 0 {
				for _, k := range strings.Split(it[i+len("racing for keys "):], ",") {
					ks[k] = true
				}
			}
			if i := strings.LastIndex(it, " key="); i >= 0 {
				ks[it[i+5:]] = true
			}
		}
		if len(ks) > 0 {
			norms = append(norms, norm{tagRHT, func(s string) (string, bool) { return stripKeysJSON(s, ks) }})
		}
	}
	apply := func(skip int) bool {
		a, b := m1, m2
		for i, n := range norms {
			if i == skip {
				continue
			}
			var ok1, ok2 bool
			a, ok1 = n.f(a)
			b, ok2 = n.f(b)
			if !ok1 || !ok2 {
				return false
			}
		}
		if len(norms) == 0 || (skip >= 0 && len(norms) == 1) {
			return a == b
		}
		// canonical form for comparison when no JSON normalisation ran
		return a == b
	}
	if len(norms) == 0 || !apply(-1) {
		return nil
	}
	var tags []string
	for i, n := range norms {
		if !apply(i) {
			tags = append(tags, n.tag) // needed
		}
	}
	if len(tags) == 0 {
		tags = append(tags, norms[0].tag)
	}
	return tags
}

// stripKeysJSON parses a Marshal() string, deletes the given member names from every object and
// re-serialises canonically.
func stripKeysJSON(s string, keys map[string]bool) (string, bool) {
	for _, t := range []string{"+Inf", "-Inf", "NaN"} {
		s = strings.ReplaceAll(s, ":"+t, `:"`+t+`"`)
		s = strings.ReplaceAll(s, ","+t, `,"`+t+`"`)
		s = strings.ReplaceAll(s, "["+t, `["`+t+`"`)
	}
	dec := json.NewDecoder(strings.NewReader(s))
	dec.UseNumber()
	var v any
	if err := dec.Decode(&v); err != nil {
		return "", false
	}
	var strip func(x any) any
	strip = func(x any) any {
		switch t := x.(type) {
		case map[string]any:
			for k := range t {
				if keys[k] {
					delete(t, k)
				} else {
					t[k] = strip(t[k])
				}
			}
			return t
		case []any:
			for i := range t {
				t[i] = strip(t[i])
			}
			return t
		}
		return x
	}
	out, err := json.Marshal(strip(v))
	if err != nil {
		return "", false
	}
	return string(out), true
}

// opsMentioning lists the logged operations that create, remove, move or replace the element with
// the given createdAt key (debug aid, PBFUZZ_DUMP).
func (h *fuzzHist) opsMentioning(key string) []string {
	var out []string
	tk := func(t *time.Ticket) string {
		if t == nil {
			return "nil"
		}
		return t.ToTestString()
	}
	all := append([]*change.Change{}, h.log...)
	for _, cl := range h.clients {
		all = append(all, cl.doc.CreateChangePack().Changes...)
	}
	for _, ch := range all {
		for _, op := range ch.Operations() {
			hit := false
			desc := fmt.Sprintf("seq%d(actor %s cs%d) %T", ch.ServerSeq(), ch.ID().ActorID().String()[22:], ch.ClientSeq(), op)
			switch o := op.(type) {
			case *operations.Set:
				hit = o.Value().CreatedAt().Key() == key || o.ParentCreatedAt().Key() == key
				desc += fmt.Sprintf(" parent=%s key=%s value=%s at=%s", tk(o.ParentCreatedAt()), o.Key(), tk(o.Value().CreatedAt()), tk(o.ExecutedAt()))
			case *operations.Add:
				hit = o.Value().CreatedAt().Key() == key || o.ParentCreatedAt().Key() == key
				desc += fmt.Sprintf(" parent=%s prev=%s value=%s at=%s", tk(o.ParentCreatedAt()), tk(o.PrevCreatedAt()), tk(o.Value().CreatedAt()), tk(o.ExecutedAt()))
			case *operations.Remove:
				hit = o.CreatedAt().Key() == key || o.ParentCreatedAt().Key() == key
				desc += fmt.Sprintf(" parent=%s target=%s at=%s", tk(o.ParentCreatedAt()), tk(o.CreatedAt()), tk(o.ExecutedAt()))
			case *operations.Move:
				hit = o.CreatedAt().Key() == key || o.ParentCreatedAt().Key() == key
				desc += fmt.Sprintf(" parent=%s prev=%s target=%s at=%s", tk(o.ParentCreatedAt()), tk(o.PrevCreatedAt()), tk(o.CreatedAt()), tk(o.ExecutedAt()))
			case *operations.TreeStyle:
				hit = strings.HasPrefix(key, o.ExecutedAt().Key()) || key == "styles"
				desc += fmt.Sprintf(" parent=%s from=%v to=%v attrs=%v remove=%v at=%s", tk(o.ParentCreatedAt()), o.FromPos(), o.ToPos(), o.Attributes(), o.AttributesToRemove(), tk(o.ExecutedAt()))
			case *operations.Style:
				hit = strings.HasPrefix(key, o.ExecutedAt().Key()) || key == "styles"
				desc += fmt.Sprintf(" parent=%s attrs=%v remove=%v at=%s", tk(o.ParentCreatedAt()), o.Attributes(), o.AttributesToRemove(), tk(o.ExecutedAt()))
			case *operations.TreeEdit:
				hit = key == "styles"
				desc += fmt.Sprintf(" split=%d contents=%d at=%s", o.SplitLevel(), len(o.Contents()), tk(o.ExecutedAt()))
			case *operations.Edit:
				hit = key == "styles"
				var sp []string
				for _, x := range o.RestoreSpans() {
					sp = append(sp, fmt.Sprintf("restore %s[%d,%d)", tk(x.CreatedAt), x.Start, x.End))
				}
				for _, x := range o.RetombstoneSpans() {
					sp = append(sp, fmt.Sprintf("retomb %s[%d,%d)", tk(x.CreatedAt), x.Start, x.End))
				}
				desc += fmt.Sprintf(" parent=%s from=%s:%d to=%s:%d content=%q mode=%v %v at=%s", tk(o.ParentCreatedAt()), tk(o.From().ID().CreatedAt()), o.From().ID().Offset()+o.From().RelativeOffset(),
					tk(o.To().ID().CreatedAt()), o.To().ID().Offset()+o.To().RelativeOffset(), o.Content(), o.RestoreMode(), sp, tk(o.ExecutedAt()))
			case *operations.ArraySet:
				hit = o.CreatedAt().Key() == key || o.Value().CreatedAt().Key() == key || o.ParentCreatedAt().Key() == key
				desc += fmt.Sprintf(" parent=%s target=%s value=%s at=%s", tk(o.ParentCreatedAt()), tk(o.CreatedAt()), tk(o.Value().CreatedAt()), tk(o.ExecutedAt()))
			}
			if hit {
				out = append(out, desc)
			}
		}
	}
	return out
}

// noteOps records, from operations the system itself produced, the facts the predicates need:
// elements replaced through ArraySet, elements restored under their old createdAt (a Set/Add/
// ArraySet whose value was created before the operation: only undo/redo emits those), and text /
// tree nodes un-tombstoned or re-tombstoned by identity-preserving restore edits.
func (h *fuzzHist) noteOps(changes []*change.Change) {
	for _, ch := range changes {
		for _, op := range ch.Operations() {
			switch o := op.(type) {
			case *operations.ArraySet:
				if o.CreatedAt() != nil {
					h.replaced[o.CreatedAt().Key()] = true
				}
				if isRestoredValue(o.Value(), o.ExecutedAt()) {
					h.restoredVals[o.Value().CreatedAt().Key()] = true
				}
			case *operations.Set:
				if isRestoredValue(o.Value(), o.ExecutedAt()) {
					h.restoredVals[o.Value().CreatedAt().Key()] = true
				}
			case *operations.Add:
				if isRestoredValue(o.Value(), o.ExecutedAt()) {
					h.restoredVals[o.Value().CreatedAt().Key()] = true
				}
			case *operations.Style:
				h.noteStyle(o.ParentCreatedAt(), o.ExecutedAt(), o.Attributes(), o.AttributesToRemove())
			case *operations.TreeStyle:
				h.noteStyle(o.ParentCreatedAt(), o.ExecutedAt(), o.Attributes(), o.AttributesToRemove())
			case *operations.Edit:
				for _, sp := range append(append([]*crdt.RestoreSpan{}, o.RestoreSpans()...), o.RetombstoneSpans()...) {
					if sp != nil && sp.CreatedAt != nil {
						h.restoredNodes[sp.CreatedAt.Key()] = true
					}
				}
			case *operations.TreeEdit:
				for _, sp := range append(append([]*crdt.TreeRestoreSpan{}, o.RestoreSpans()...), o.RetombstoneSpans()...) {
					if sp != nil && sp.ID != nil && sp.ID.CreatedAt != nil {
						h.restoredNodes[sp.ID.CreatedAt.Key()] = true
					}
				}
			}
		}
	}
}

// isRestoredValue: the value an operation inserts is not new.  Either it keeps a createdAt older than
// the operation (undo/redo re-set an object member under its old identity), or it is a container
// with a fresh createdAt whose descendants are older than the operation (since /repo 868855dc
// undo/redo re-inserts an array element as a copy under a fresh createdAt; what is inside the copy
// keeps its createdAt - and its tombstones).
func isRestoredValue(v crdt.Element, at *time.Ticket) bool {
	if v == nil || v.CreatedAt() == nil || at == nil {
		return false
	}
	if v.CreatedAt().Key() != at.Key() {
		return true
	}
	old := false
	if ct, ok := v.(crdt.Container); ok {
		ct.Descendants(func(d crdt.Element, _ crdt.Container) bool {
			c := d.CreatedAt()
			if c != nil && (c.Lamport() != at.Lamport() || c.ActorID() != at.ActorID()) {
				old = true
			}
			return old
		})
	}
	return old
}

func (h *fuzzHist) noteStyle(parent, at *time.Ticket, set map[string]string, remove []string) {
	if parent == nil || at == nil {
		return
	}
	for k := range set {
		key := parent.Key() + "/" + k
		dup := false
		for _, t := range h.styleSets[key] {
			if t.Key() == at.Key() {
				dup = true
			}
		}
		if !dup {
			h.styleSets[key] = append(h.styleSets[key], at)
		}
	}
	if len(remove) > 0 {
		h.styleRemoves[at.Key()] = at
	}
	for _, k := range remove {
		key := parent.Key() + "/" + k
		dup := false
		for _, t := range h.styleRems[key] {
			if t.Key() == at.Key() {
				dup = true
			}
		}
		if !dup {
			h.styleRems[key] = append(h.styleRems[key], at)
		}
	}
}

// newerStyleSeen: an attribute tombstone <T>:<k> inside container `elem`, and a style operation on the
// same container that sets or removes k with a ticket AFTER T has been seen.  Such an operation
// replaces the tombstone on the nodes of its range; the pieces a split made of one node carry copies
// of its attributes under the same ids, gcNodePairMap has ONE entry for all of them, and unregistering
// the replaced copy (toggle) takes the registration away from the copies that stay - all inside one
// operation (split + set), so no observer can see the id on two owners.
func (h *fuzzHist) newerStyleSeen(elem, id string) bool {
	i := strings.LastIndex(id, ":")
	if i < 0 {
		return false
	}
	t, ok := h.styleRemoves[id[:i]]
	if !ok {
		return false
	}
	for _, s := range h.styleSets[elem+"/"+id[i+1:]] {
		if s.After(t) {
			return true
		}
	}
	for _, s := range h.styleRems[elem+"/"+id[i+1:]] {
		if s.After(t) {
			return true
		}
	}
	return false
}

// olderSetSeen: an attribute tombstone <T>:<k> inside container `elem`, and a style operation on the
// same container that SETS k with a ticket older than T has been seen.  (RHT.Set hands the surviving
// tombstone back to its caller although the set lost; the caller "registers" it, which toggles the
// registration off.)
func (h *fuzzHist) olderSetSeen(elem, id string) bool {
	i := strings.LastIndex(id, ":")
	if i < 0 {
		return false
	}
	t, ok := h.styleRemoves[id[:i]]
	if !ok {
		return false
	}
	for _, s := range h.styleSets[elem+"/"+id[i+1:]] {
		if !s.After(t) {
			return true
		}
	}
	return false
}

func (h *fuzzHist) notePending() {
	for _, cl := range h.clients {
		h.noteOps(cl.doc.CreateChangePack().Changes)
	}
}

// staleRegistrations: tombstones registered in a root's gcElementPairMap whose createdAt now
// belongs to a different, live instance in the graph (an undo/redo restored the element under its
// old createdAt and the registration was not dropped).  GarbageCollect purges by createdAt.
func staleRegistrations(r *crdt.Root) []string {
	out, _ := staleRegistrationKeys(r)
	return out
}

// staleRegistrationKeys also returns the names of the object members that hold the live
// instances (the keys a purge by createdAt would take away).
func staleRegistrationKeys(r *crdt.Root) ([]string, map[string]bool) {
	G := graphView(r.Object())
	var out []string
	stale := map[string]bool{}
	for _, p := range r.GCElementPairMap() {
		p := p
		e := p.Elem()
		if cur, ok := G.all[e.CreatedAt().Key()]; ok && cur != e && cur.RemovedAt() == nil {
			out = append(out, describe(e)+" now "+describe(cur))
			stale[e.CreatedAt().Key()] = true
		}
	}
	sort.Strings(out)
	keys := map[string]bool{}
	visit := func(o *crdt.Object) {
		for k, e := range o.Members() {
			if stale[e.CreatedAt().Key()] {
				keys[k] = true
			}
		}
	}
	visit(r.Object())
	r.Object().Descendants(func(e crdt.Element, _ crdt.Container) bool {
		if o, ok := e.(*crdt.Object); ok {
			visit(o)
		}
		return false
	})
	return out, keys
}

// mergeTextNodesJSON: see mergeTextNodes.
func mergeTextNodesJSON(s string) (string, bool) {
	for _, t := range []string{"+Inf", "-Inf", "NaN"} {
		s = strings.ReplaceAll(s, ":"+t, `:"`+t+`"`)
		s = strings.ReplaceAll(s, ","+t, `,"`+t+`"`)
		s = strings.ReplaceAll(s, "["+t, `["`+t+`"`)
	}
	dec := json.NewDecoder(strings.NewReader(s))
	dec.UseNumber()
	var v any
	if err := dec.Decode(&v); err != nil {
		return "", false
	}
	var walk func(x any) any
	walk = func(x any) any {
		switch t := x.(type) {
		case map[string]any:
			for k := range t {
				t[k] = walk(t[k])
			}
			return t
		case []any:
			isText := len(t) > 0
			for i := range t {
				t[i] = walk(t[i])
				m, ok := t[i].(map[string]any)
				if !ok {
					isText = false
					continue
				}
				if _, ok := m["val"].(string); !ok || len(m) > 2 {
					isText = false
				}
			}
			if !isText {
				return t
			}
			var out []any
			for _, e := range t {
				m := e.(map[string]any)
				if n := len(out); n > 0 {
					prev := out[n-1].(map[string]any)
					if reflect.DeepEqual(prev["attrs"], m["attrs"]) {
						prev["val"] = prev["val"].(string) + m["val"].(string)
						continue
					}
				}
				out = append(out, m)
			}
			return out
		}
		return x
	}
	b, err := json.Marshal(walk(v))
	if err != nil {
		return "", false
	}
	return string(b), true
}

// duplicateCreatedAt lists createdAt keys carried by two or more distinct element instances that
// are reachable in a graph (undo/redo re-inserting a copy next to the tombstone it replaces).
func duplicateCreatedAt(root *crdt.Object) map[string][]string {
	seen := map[string][]crdt.Element{}
	add := func(e crdt.Element) {
		k := e.CreatedAt().Key()
		for _, x := range seen[k] {
			if x == e {
				return
			}
		}
		seen[k] = append(seen[k], e)
	}
	add(root)
	root.Descendants(func(e crdt.Element, _ crdt.Container) bool {
		add(e)
		return false
	})
	out := map[string][]string{}
	for k, l := range seen {
		if len(l) >= 2 {
			for _, e := range l {
				out[k] = append(out[k], describe(e))
			}
		}
	}
	return out
}

// unregisteredInGraph lists elements reachable in a root's object graph that its registry
// (Root.FindByCreatedAt) does not know: every operation addressing them fails on this replica.
func unregisteredInGraph(r *crdt.Root) []string {
	var out []string
	r.Object().Descendants(func(e crdt.Element, _ crdt.Container) bool {
		if r.FindByCreatedAt(e.CreatedAt()) == nil {
			out = append(out, describe(e))
		}
		return false
	})
	sort.Strings(out)
	return out
}

// locateNode describes where a text / tree node id occurs in a graph (debug aid).
func locateNode(root *crdt.Object, id string) []string {
	var out []string
	rm := func(t *time.Ticket) string {
		if t == nil {
			return "live"
		}
		return "removedAt=" + t.ToTestString()
	}
	visit := func(e crdt.Element) {
		switch x := e.(type) {
		case *crdt.Text:
			for _, n := range x.Nodes() {
				if n.IDString() == id {
					out = append(out, fmt.Sprintf("text %s (%s): node %s %s len=%d", x.CreatedAt().ToTestString(), rm(x.RemovedAt()), n.ID().ToTestString(), rm(n.RemovedAt()), n.Len()))
				}
			}
		case *crdt.Tree:
			for _, n := range x.Nodes() {
				if n.IDString() == id {
					out = append(out, fmt.Sprintf("tree %s (%s): node %s type=%s %s", x.CreatedAt().ToTestString(), rm(x.RemovedAt()), n.IDString(), n.Type(), rm(n.RemovedAt())))
				}
			}
		}
	}
	visit(root)
	root.Descendants(func(e crdt.Element, _ crdt.Container) bool {
		visit(e)
		return false
	})
	if len(out) == 0 {
		out = append(out, "node "+id+" is nowhere in the graph")
	}
	return out
}

// registeredPairs reads the live root's gcNodePairMap with its values (unexported: through
// reflection on the field's address).  nil when the field is not what this harness expects.
func registeredPairs(r *crdt.Root) (out map[string]crdt.GCPair) {
	defer func() {
		if recover() != nil {
			out = nil
		}
	}()
	f := reflect.ValueOf(r).Elem().FieldByName("gcNodePairMap")
	if !f.IsValid() || f.Kind() != reflect.Map || !f.CanAddr() {
		return nil
	}
	m, ok := reflect.NewAt(f.Type(), unsafe.Pointer(f.UnsafeAddr())).Elem().Interface().(map[string]crdt.GCPair)
	if !ok {
		return nil
	}
	return m
}

// graphOwners: every possible owner of a GC pair that a walk of the graph reaches.
type graphOwners struct {
	treeNodes map[*crdt.TreeNode]*crdt.Tree
	textNodes map[*crdt.RGATreeSplitNode[*crdt.TextValue]]*crdt.Text
	textVals  map[*crdt.TextValue]*crdt.RGATreeSplitNode[*crdt.TextValue]
	splits    map[*crdt.RGATreeSplit[*crdt.TextValue]]*crdt.Text
	attrs     map[*crdt.RHTNode]bool // attribute nodes currently held by an owner in the graph
}

func ownersOf(root *crdt.Object) graphOwners {
	g := graphOwners{treeNodes: map[*crdt.TreeNode]*crdt.Tree{}, textNodes: map[*crdt.RGATreeSplitNode[*crdt.TextValue]]*crdt.Text{},
		textVals: map[*crdt.TextValue]*crdt.RGATreeSplitNode[*crdt.TextValue]{}, splits: map[*crdt.RGATreeSplit[*crdt.TextValue]]*crdt.Text{},
		attrs: map[*crdt.RHTNode]bool{}}
	visit := func(e crdt.Element) {
		switch x := e.(type) {
		case *crdt.Text:
			g.splits[x.RGATreeSplit()] = x
			for _, n := range x.Nodes() {
				g.textNodes[n] = x
				if n.Value() != nil {
					g.textVals[n.Value()] = n
					for _, p := range n.Value().GCPairs() {
						if a, ok := p.Child.(*crdt.RHTNode); ok {
							g.attrs[a] = true
						}
					}
				}
			}
		case *crdt.Tree:
			for _, n := range x.Nodes() {
				g.treeNodes[n] = x
				if n.Attrs != nil {
					for _, a := range n.Attrs.Nodes() {
						g.attrs[a] = true
					}
				}
			}
		}
	}
	visit(root)
	root.Descendants(func(e crdt.Element, _ crdt.Container) bool {
		visit(e)
		return false
	})
	return g
}

// pairShape states, from the structure alone, how a registered pair relates to the graph.
type pairShapeT struct {
	ownerInGraph bool
	childInGraph bool // text / tree node reachable; attribute node held by an owner that is reachable
	childRemoved bool
	isAttr       bool
	desc         string
}

func pairShape(g graphOwners, p crdt.GCPair) pairShapeT {
	var sh pairShapeT
	rm := func(t *time.Ticket) string {
		if t == nil {
			return "live"
		}
		return "removedAt=" + t.ToTestString()
	}
	owner := "owner-unknown"
	in := func(ok bool, what, extra string) string {
		sh.ownerInGraph = ok
		if ok {
			return "owner-" + what + "-in-graph" + extra
		}
		return "owner-" + what + "-not-in-graph" + extra
	}
	switch o := p.Parent.(type) {
	case *crdt.Tree:
		found := false
		for _, t := range g.treeNodes {
			if t == o {
				found = true
				break
			}
		}
		owner = in(found, "tree", "")
	case *crdt.TreeNode:
		_, ok := g.treeNodes[o]
		owner = in(ok, "treenode", "("+rm(o.RemovedAt())+")")
	case *crdt.RGATreeSplit[*crdt.TextValue]:
		_, ok := g.splits[o]
		owner = in(ok, "text", "")
	case *crdt.TextValue:
		_, ok := g.textVals[o]
		owner = in(ok, "textnode", "")
	default:
		owner = fmt.Sprintf("owner-%T", p.Parent)
	}
	child := ""
	sh.childRemoved = p.Child.RemovedAt() != nil
	switch ch := p.Child.(type) {
	case *crdt.TreeNode:
		_, sh.childInGraph = g.treeNodes[ch]
		child = "treenode"
	case *crdt.RGATreeSplitNode[*crdt.TextValue]:
		_, sh.childInGraph = g.textNodes[ch]
		child = "textnode"
	case *crdt.RHTNode:
		sh.isAttr = true
		sh.childInGraph = g.attrs[ch]
		child = "attribute"
	default:
		child = fmt.Sprintf("%T", p.Child)
	}
	if sh.childInGraph {
		child += "-in-graph"
	} else {
		child += "-not-in-graph"
	}
	sh.desc = owner + " " + child + "(" + rm(p.Child.RemovedAt()) + ")"
	return sh
}
