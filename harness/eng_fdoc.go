package main

// engine `fdoc`: correspondence of the FAITHFUL document model (Model/FDoc.lean) – garbage
// collection, snapshot encode/decode, deep copy – with the real code, plus the oracles of C03
// (GC-on run == GC-off twin, no ApplyChangePack error) and C02 (snapshot-fed replica ==
// change-fed replica == server rebuild).
//
// Every history runs in TWO worlds in lock-step: world `g` hands the min version vector to
// ApplyChangePack exactly as server/packs/pushpull.go + memory/database.go compute it (the
// REQUEST-time vector of each attached client is stored, MinVersionVector(request vv, rows…)),
// world `n` hands none (GC off).  Replicas are real document.Document values, the server is
// simulated (log in server order, wire round trip per delivery), server-side documents are real
// document.InternalDocument values (full fold `?s`, stored-snapshot lineage `?t`, cached
// GC'd rebuild as in BuildInternalDocForServerSeq).
//
// Driver commands (generated, or replayed from a corpus file; the model ignores them):
//   W mix=<c03|c02> n=<k> actors=<nat,…>     start the two worlds with k replicas
//   U <k> seed=<s>                           Update on replica k (randomEdit driven by seed s)
//   A <k> call=<name> [path=a.b] [key=] [i=] [j=] [v=]   one explicit API call (hand-written witnesses)
//   S <k>                                    full sync of replica k
//   SV                                       twin server docs catch up (+GC in world g)
//   ST                                       store a snapshot (lineage doc: apply suffix, encode, decode)
//   SN v=<0|1> ax=<nat> ay=<nat>             late attach: snapshot-fed X and change-fed Y
//   Q                                        quiescence + final oracles
// Observation commands (written by the harness while executing; replayed by the model):
//   R/EC/OP/E/GC/M/MC/G/D/DC/SNAP/COPY/CP/TW, see Driver/FDocEngine.lean.

import (
	"errors"
	"fmt"
	"math/big"
	"math/rand"
	"os"
	"sort"
	"strconv"
	"strings"

	"google.golang.org/protobuf/proto"

	api "github.com/yorkie-team/yorkie/api/yorkie/v1"
	"github.com/yorkie-team/yorkie/api/converter"
	"github.com/yorkie-team/yorkie/pkg/document"
	"github.com/yorkie-team/yorkie/pkg/document/change"
	"github.com/yorkie-team/yorkie/pkg/document/crdt"
	"github.com/yorkie-team/yorkie/pkg/document/json"
	"github.com/yorkie-team/yorkie/pkg/document/operations"
	"github.com/yorkie-team/yorkie/pkg/document/presence"
	"github.com/yorkie-team/yorkie/pkg/document/time"
)

func init() { register("fdoc", runFDoc) }

const fdKey = "doc-fdoc"

// ---------- structural dump (must match Driver/FDocEngine.lean `dump`) ----------

func fdKind(e crdt.Element) string {
	switch e.(type) {
	case *crdt.Primitive:
		return "p"
	case *crdt.Object:
		return "o"
	case *crdt.Array:
		return "a"
	case *crdt.Counter:
		return "c"
	}
	return "x"
}

func fdHdr(e crdt.Element) string {
	return fmt.Sprintf("%s/m=%s/r=%s", fdKind(e), encTicket(e.MovedAt()), encTicket(e.RemovedAt()))
}

func fdDumpElem(e crdt.Element, out *[]string, n *int) {
	*n++
	switch v := e.(type) {
	case *crdt.Object:
		var ns []string
		for _, nd := range v.RHTNodes() {
			ns = append(ns, fmt.Sprintf("%s/k=%s/%s", encTicket(nd.Element().CreatedAt()), nd.Key(), fdHdr(nd.Element())))
			fdDumpElem(nd.Element(), out, n)
		}
		sort.Strings(ns)
		mem := v.Members()
		keys := make([]string, 0, len(mem))
		for k := range mem {
			keys = append(keys, k)
		}
		sort.Strings(keys)
		var ms []string
		for _, k := range keys {
			ms = append(ms, fmt.Sprintf("%s=%s", k, encTicket(mem[k].CreatedAt())))
		}
		*out = append(*out, fmt.Sprintf("o%s{%s}mem[%s]", encTicket(v.CreatedAt()), strings.Join(ns, ","), strings.Join(ms, ",")))
	case *crdt.Array:
		var ns []string
		for _, nd := range v.AllRGANodes() {
			if nd.Element() == nil {
				ns = append(ns, fmt.Sprintf("%s/dead/r=%s", encTicket(nd.PositionCreatedAt()), encTicket(nd.RemovedAt())))
				continue
			}
			ns = append(ns, fmt.Sprintf("%s/e=%s/pm=%s/%s", encTicket(nd.PositionCreatedAt()), encTicket(nd.Element().CreatedAt()),
				encTicket(nd.PositionMovedAt()), fdHdr(nd.Element())))
			fdDumpElem(nd.Element(), out, n)
		}
		*out = append(*out, fmt.Sprintf("a%s[%s]", encTicket(v.CreatedAt()), strings.Join(ns, ",")))
	}
}

func fdDump(root *crdt.Object) string {
	var out []string
	n := 0
	fdDumpElem(root, &out, &n)
	sort.Strings(out)
	return strings.Join(out, ";")
}

// ---------- plain copies of array structure, used by the finding predicates ----------

type fdNode struct {
	pos, elem string
	posAt     *time.Ticket // RGATreeListNode.PositionedAt()
	live      bool
	moved     bool
}

func fdArrays(e crdt.Element, out map[string][]fdNode) {
	switch v := e.(type) {
	case *crdt.Object:
		for _, nd := range v.RHTNodes() {
			fdArrays(nd.Element(), out)
		}
	case *crdt.Array:
		var l []fdNode
		for _, nd := range v.AllRGANodes() {
			x := fdNode{pos: nd.PositionCreatedAt().Key(), posAt: nd.PositionedAt(), live: !nd.IsRemoved()}
			if nd.Element() != nil {
				x.elem = nd.Element().CreatedAt().Key()
				x.moved = nd.PositionMovedAt() != nil
				fdArrays(nd.Element(), out)
			}
			l = append(l, x)
		}
		out[v.CreatedAt().Key()] = l
	}
}

func fdLive(l []fdNode) string {
	var s []string
	for _, n := range l {
		if n.live {
			s = append(s, n.elem)
		}
	}
	return strings.Join(s, ",")
}

// fdLanding simulates the start-node lookup + skip rule of RGATreeList.insertAfter on a copied
// list and returns the live element the new node would land behind ("" = front) and how the
// anchor resolved ("pos", "elem", "head", "none").
func fdLanding(l []fdNode, anchor *time.Ticket, exec *time.Ticket, posOnly bool) (string, string) {
	idx, how := -2, "none"
	if anchor.Key() == time.InitialTicket.Key() {
		idx, how = -1, "head"
	} else {
		for i, n := range l {
			if n.pos == anchor.Key() {
				idx, how = i, "pos"
				break
			}
		}
		if idx == -2 && !posOnly {
			for i, n := range l {
				if n.elem == anchor.Key() {
					idx, how = i, "elem"
					break
				}
			}
		}
	}
	if idx == -2 {
		return "", how
	}
	for idx+1 < len(l) && l[idx+1].posAt.After(exec) {
		idx++
	}
	for j := idx; j >= 0; j-- {
		if l[j].live {
			return l[j].elem, how
		}
	}
	return "", how
}

// ---------- worlds ----------

type fdRep struct {
	name    string
	doc     *document.Document
	actor   time.ActorID
	cpS     int64
	pushedC uint32
}

type fdSrv struct {
	name    string
	doc     *document.InternalDocument
	upto    int
	bytes   []byte // lineage: the stored snapshot
	lamport int64
	vv      time.VersionVector
}

type fdOpMeta struct {
	api          string
	trailingTomb bool // Add/Move whose anchor was the author's LAST node and a tombstone / dead slot
}

type fdWorld struct {
	c     *Ctx
	pfx   string
	gc    bool
	reps  []*fdRep
	log   []*change.Change
	rows  map[string]time.VersionVector
	full  *fdSrv // every change, never GC'd
	sv    *fdSrv // mix=c03: server doc that is GC'd with GetMinVersionVector like a cached rebuild
	lin   *fdSrv // stored snapshot lineage
	cache *fdSrv // Backend.Cache.Snapshot
	meta  map[string]*fdOpMeta
	taint map[string]string
	nsrv  int
	// last applied operations (for the divergence predicates)
	lastOps []operations.Operation
	srvOps  []operations.Operation
}

type fdRun struct {
	c      *Ctx
	mix    string
	g, n   *fdWorld
	failed bool
	// set when the two worlds' logs start to differ: the same operation (same ticket) carries a different
	// anchor because its author had purged the trailing tombstone LastCreatedAt() returns without GC
	anchorDiff    string
	anchorDiffWhy string
}

// compareLogs looks for the first operation whose encoding differs between the two worlds' new log entries.
func (r *fdRun) compareLogs() {
	if r.anchorDiff != "" {
		return
	}
	byTs := map[string]operations.Operation{}
	for _, op := range r.n.srvOps {
		byTs[op.ExecutedAt().Key()] = op
	}
	for _, og := range r.g.srvOps {
		on, ok := byTs[og.ExecutedAt().Key()]
		if !ok || encOp(og) == encOp(on) {
			continue
		}
		m, mg := r.n.meta[og.ExecutedAt().Key()], r.g.meta[og.ExecutedAt().Key()]
		if (m != nil && m.trailingTomb) || (mg != nil && mg.trailingTomb) {
			r.anchorDiff = "c03-append-after-own-delete"
			r.anchorDiffWhy = fmt.Sprintf("earlier, %s (api %s) was anchored on a trailing tombstone without GC and elsewhere with GC: [%s] vs [%s]", encTicket(og.ExecutedAt()), m.api, encOp(on), encOp(og))
			return
		}
	}
}

func (w *fdWorld) newSrv(suffix string) *fdSrv {
	return &fdSrv{name: w.pfx + suffix, doc: document.NewInternalDocument(fdKey)}
}

func fdErrKind(err error) string {
	switch {
	case err == nil:
		return "ok"
	case errors.Is(err, crdt.ErrChildNotFound):
		return "err:childNotFound"
	case errors.Is(err, operations.ErrNotApplicableDataType):
		return "err:notApplicable"
	}
	return "err:other"
}

// safely runs f, turning a panic into an error
func fdSafe(f func() error) (err error) {
	defer func() {
		if r := recover(); r != nil {
			if e, ok := r.(error); ok {
				err = fmt.Errorf("panic: %w", e)
			} else {
				err = fmt.Errorf("panic: %v", r)
			}
		}
	}()
	return f()
}

// emitApplied writes the OP/E lines of the changes that the implementation executed:
// all of them when err == nil, otherwise up to and including the first change that the
// document's version vector shows as not applied.
func (w *fdWorld) emitApplied(name string, chs []*change.Change, vv time.VersionVector, err error) *change.Change {
	if err != nil && os.Getenv("FDOC_DEBUG") != "" {
		fmt.Fprintf(os.Stderr, "DEBUG %s err=%v vv=%s\n", name, err, ShowVV(vv))
		for _, cn := range chs {
			fmt.Fprintf(os.Stderr, "  change lamport=%d actor=%s vv=%s\n", cn.ID().Lamport(), ActorNat(cn.ID().ActorID()), ShowVV(cn.ID().VersionVector()))
		}
	}
	for _, cn := range chs {
		applied := err == nil || vv.EqualToOrAfter(time.NewTicket(cn.ID().Lamport(), 0, cn.ID().ActorID()))
		for _, op := range cn.Operations() {
			w.c.Cmd("OP %s %s", name, encOp(op))
		}
		w.c.Cmd("E %s", name)
		if applied {
			w.c.Obs("ok")
		} else {
			w.c.Obs("%s", fdErrKind(err))
			return cn
		}
	}
	if err != nil { // failure outside the changes (should not happen)
		w.c.Cmd("E %s", name)
		w.c.Obs("%s", fdErrKind(err))
	}
	return nil
}

func (w *fdWorld) obsRep(rep *fdRep) {
	c := w.c
	c.Cmd("M %s", rep.name)
	c.Obs("%s", rep.doc.Marshal())
	c.Cmd("G %s", rep.name)
	c.Obs("g=%d n=%d", rep.doc.GarbageLen(), rep.doc.InternalDocument().Root().ElementMapLen())
}

func (w *fdWorld) dumpRep(rep *fdRep) {
	w.c.Cmd("D %s", rep.name)
	w.c.Obs("%s", fdDump(rep.doc.RootObject()))
}

func (w *fdWorld) obsClone(rep *fdRep) {
	c := w.c
	c.Cmd("EC %s", rep.name)
	cl := rep.doc.Root() // forces ensureClone, as the EC line tells the model
	c.Cmd("MC %s", rep.name)
	c.Obs("%s", cl.Marshal())
	c.Cmd("DC %s", rep.name)
	c.Obs("%s", fdDump(cl.Object))
}

func (w *fdWorld) obsSrv(s *fdSrv, dump bool) {
	c := w.c
	c.Cmd("M %s", s.name)
	c.Obs("%s", s.doc.Marshal())
	c.Cmd("G %s", s.name)
	c.Obs("g=%d n=%d", s.doc.GarbageLen(), s.doc.Root().ElementMapLen())
	if dump {
		c.Cmd("D %s", s.name)
		c.Obs("%s", fdDump(s.doc.RootObject()))
	}
}

func (w *fdWorld) minVV(req time.VersionVector) time.VersionVector {
	vs := []time.VersionVector{req}
	names := make([]string, 0, len(w.rows))
	for k := range w.rows {
		names = append(names, k)
	}
	sort.Strings(names)
	shown := []string{ShowVV(req)}
	for _, k := range names {
		vs = append(vs, w.rows[k])
		shown = append(shown, ShowVV(w.rows[k]))
	}
	vec := time.MinVersionVector(vs...)
	// the model recomputes the minimum from the same vectors (Model/Time.lean minVV)
	w.c.Cmd("MV %s", strings.Join(shown, " "))
	w.c.Obs("%s", ShowVV(vec))
	return vec
}

// srvApply feeds log[s.upto:] to a server-side document (OpSourceReplay, no GC).
func (w *fdWorld) srvApply(s *fdSrv) (error, *change.Change) {
	if s.upto >= len(w.log) {
		return nil, nil
	}
	wire, err := roundTrip(w.log[s.upto:])
	if err != nil {
		return err, nil
	}
	err = fdSafe(func() error {
		return s.doc.ApplyChangePack(change.NewPack(fdKey, change.InitialCheckpoint.NextServerSeq(int64(len(w.log))), wire, nil, nil), true)
	})
	bad := w.emitApplied(s.name, wire, s.doc.VersionVector(), err)
	w.srvOps = nil
	for _, cn := range wire {
		w.srvOps = append(w.srvOps, cn.Operations()...)
	}
	s.upto = len(w.log)
	return err, bad
}

func (w *fdWorld) srvGC(s *fdSrv) error {
	vec := w.minVV(s.doc.VersionVector())
	err := fdSafe(func() error { _, e := s.doc.GarbageCollect(vec); return e })
	w.c.Cmd("GC %s %s", s.name, ShowVV(vec))
	if err != nil {
		w.c.Obs("gc %s", fdErrKind(err))
		return err
	}
	w.c.Obs("gc left=%d", s.doc.GarbageLen())
	return nil
}

// ---------- finding predicates (evaluated on the real state) ----------

func fdFindArr(root *crdt.Root, id *time.Ticket) *crdt.Array {
	a, _ := root.FindByCreatedAt(id).(*crdt.Array)
	return a
}

func fdHasPos(a *crdt.Array, t *time.Ticket) bool {
	if t.Key() == time.InitialTicket.Key() {
		return true
	}
	for _, n := range a.AllRGANodes() {
		if n.PositionCreatedAt().Key() == t.Key() {
			return true
		}
	}
	return false
}

func fdHasElem(a *crdt.Array, t *time.Ticket) bool {
	for _, n := range a.AllRGANodes() {
		if n.Element() != nil && n.Element().CreatedAt().Key() == t.Key() {
			return true
		}
	}
	return false
}

// recordMeta inspects the author's root right after a local change was executed.
func (w *fdWorld) recordMeta(rep *fdRep, ops []operations.Operation, apis []string) {
	root := rep.doc.InternalDocument().Root()
	for i, op := range ops {
		m := &fdOpMeta{}
		if len(apis) == len(ops) {
			m.api = apis[i]
		}
		var parent, prev *time.Ticket
		switch o := op.(type) {
		case *operations.Add:
			parent, prev = o.ParentCreatedAt(), o.PrevCreatedAt()
		case *operations.Move:
			parent, prev = o.ParentCreatedAt(), o.PrevCreatedAt()
		}
		if parent != nil {
			if a := fdFindArr(root, parent); a != nil {
				for _, n := range a.AllRGANodes() {
					if n.PositionCreatedAt().Key() == prev.Key() && n.IsRemoved() {
						// the json layer takes a removed node as anchor only through LastCreatedAt();
						// the root is inspected after the whole change, so a node that a LATER operation of
						// the same change removed (add after x; remove x) was live when this one executed
						at := n.RemovedAt()
						if e := n.Element(); e != nil {
							at = e.RemovedAt()
						}
						// strictly before: a MoveLast of the last live element anchors on the element's own
						// position, which this very operation turns into a dead slot (removedAt = its ticket)
						if at == nil || op.ExecutedAt().After(at) {
							m.trailingTomb = true
						}
					}
				}
			}
		}
		w.meta[op.ExecutedAt().Key()] = m
	}
}

// asetOnMovedInLog: the log holds an ArraySet whose target element was moved by an earlier operation
// (the characterising shape of c03-set-move-anchor-purged / c07-set-on-moved-element).
func (w *fdWorld) asetOnMovedInLog() bool {
	moved := map[string]bool{}
	for _, cn := range w.log {
		for _, op := range cn.Operations() {
			switch o := op.(type) {
			case *operations.Move:
				moved[o.CreatedAt().Key()] = true
			case *operations.ArraySet:
				if moved[o.CreatedAt().Key()] {
					return true
				}
			}
		}
	}
	return false
}

// movePos reports whether t is the position identity created by a Move in the log, and the element it moved.
func (w *fdWorld) movePos(t *time.Ticket) *operations.Move {
	for _, cn := range w.log {
		for _, op := range cn.Operations() {
			if m, ok := op.(*operations.Move); ok && m.ExecutedAt().Key() == t.Key() {
				return m
			}
		}
	}
	return nil
}

// losingMoveSlot: the missing anchor is the position of a move that LOST at the receiver (the element's
// posMovedAt there is later): its dead slot was tombstoned with the move's own ticket and purged as soon as
// every client had seen that move, while the author – who has not seen the winning move – still holds it live.
func (w *fdWorld) losingMoveSlot(a *crdt.Array, prev *time.Ticket) (bool, string) {
	m := w.movePos(prev)
	if m == nil {
		return false, ""
	}
	for _, n := range a.AllRGANodes() {
		if n.Element() != nil && n.Element().CreatedAt().Key() == m.CreatedAt().Key() {
			if pm := n.PositionMovedAt(); pm != nil && pm.After(prev) {
				return true, fmt.Sprintf("anchor %s is the slot of a move of %s that lost against %s at the receiver; its dead slot (removedAt = its own ticket) was purged although the author still holds the position live",
					encTicket(prev), encTicket(m.CreatedAt()), encTicket(pm))
			}
		}
	}
	// the element itself may be gone at the receiver (removed and purged after the winning move)
	if !fdHasElem(a, m.CreatedAt()) {
		return true, fmt.Sprintf("anchor %s is the slot of a move of %s; element and slot are purged at the receiver", encTicket(prev), encTicket(m.CreatedAt()))
	}
	return false, ""
}

// classifyApplyError: a change failed to apply on `root` (the receiving document's root).
func (w *fdWorld) classifyApplyError(root *crdt.Root, cn *change.Change) (string, string) {
	if cn == nil {
		return "", "no failing change identified"
	}
	made := map[string]bool{} // identities created by earlier operations of the same change
	for _, op := range cn.Operations() {
		made[op.ExecutedAt().Key()] = true
		switch o := op.(type) {
		case *operations.Add:
			a := fdFindArr(root, o.ParentCreatedAt())
			if a == nil || made[o.PrevCreatedAt().Key()] {
				continue
			}
			if !fdHasPos(a, o.PrevCreatedAt()) && !fdHasElem(a, o.PrevCreatedAt()) {
				if m := w.meta[o.ExecutedAt().Key()]; m != nil && m.trailingTomb {
					return "c03-append-after-own-delete", fmt.Sprintf("add %s anchors on trailing tombstone %s (api %s) that the receiver purged",
						encTicket(o.ExecutedAt()), encTicket(o.PrevCreatedAt()), m.api)
				}
				if ok, why := w.losingMoveSlot(a, o.PrevCreatedAt()); ok {
					return "c03-losing-move-slot", fmt.Sprintf("add %s: %s", encTicket(o.ExecutedAt()), why)
				}
				return "", fmt.Sprintf("add %s: anchor %s missing at receiver, not a trailing tombstone of the author", encTicket(o.ExecutedAt()), encTicket(o.PrevCreatedAt()))
			}
		case *operations.Move:
			a := fdFindArr(root, o.ParentCreatedAt())
			if a == nil {
				continue
			}
			if !made[o.PrevCreatedAt().Key()] && !fdHasPos(a, o.PrevCreatedAt()) {
				if m := w.meta[o.ExecutedAt().Key()]; m != nil && m.trailingTomb {
					return "c03-append-after-own-delete", fmt.Sprintf("move %s anchors on trailing tombstone %s (api %s) that the receiver purged",
						encTicket(o.ExecutedAt()), encTicket(o.PrevCreatedAt()), m.api)
				}
				if ok, why := w.losingMoveSlot(a, o.PrevCreatedAt()); ok {
					return "c03-losing-move-slot", fmt.Sprintf("move %s: %s", encTicket(o.ExecutedAt()), why)
				}
				return "", fmt.Sprintf("move %s: anchor %s missing at receiver", encTicket(o.ExecutedAt()), encTicket(o.PrevCreatedAt()))
			}
			if !made[o.CreatedAt().Key()] && !fdHasElem(a, o.CreatedAt()) {
				return "", fmt.Sprintf("move %s: target %s missing at receiver", encTicket(o.ExecutedAt()), encTicket(o.CreatedAt()))
			}
		case *operations.ArraySet:
			a := fdFindArr(root, o.ParentCreatedAt())
			if a != nil && !made[o.CreatedAt().Key()] && !fdHasElem(a, o.CreatedAt()) {
				return "", fmt.Sprintf("aset %s: target %s missing at receiver", encTicket(o.ExecutedAt()), encTicket(o.CreatedAt()))
			}
		case *operations.Remove:
			if a := fdFindArr(root, o.ParentCreatedAt()); a != nil && !made[o.CreatedAt().Key()] && !fdHasElem(a, o.CreatedAt()) {
				return "", fmt.Sprintf("remove %s: target %s missing at receiver", encTicket(o.ExecutedAt()), encTicket(o.CreatedAt()))
			}
		}
	}
	return "", "no operation with a missing reference found"
}

// classifyDivergence: replica content differs between the GC-on and the GC-off world after the
// same step. preG/preN are the array structures before the step; opsG/opsN the operations applied.
func fdClassifyDivergence(meta, metaN map[string]*fdOpMeta, preG, preN map[string][]fdNode, opsG, opsN []operations.Operation) (string, string) {
	byTs := map[string]operations.Operation{}
	for _, op := range opsN {
		byTs[op.ExecutedAt().Key()] = op
	}
	anchorOf := func(op operations.Operation) (parent, anchor *time.Ticket, posOnly bool, kind string) {
		switch o := op.(type) {
		case *operations.Add:
			return o.ParentCreatedAt(), o.PrevCreatedAt(), false, "add"
		case *operations.Move:
			return o.ParentCreatedAt(), o.PrevCreatedAt(), true, "move"
		case *operations.ArraySet:
			return o.ParentCreatedAt(), o.CreatedAt(), false, "aset"
		}
		return nil, nil, false, ""
	}
	for _, og := range opsG {
		parent, anchorG, posOnly, kind := anchorOf(og)
		if parent == nil {
			continue
		}
		on, okN := byTs[og.ExecutedAt().Key()]
		if !okN {
			continue
		}
		_, anchorN, _, _ := anchorOf(on)
		lg, ok1 := preG[parent.Key()]
		ln, ok2 := preN[parent.Key()]
		if !ok1 || !ok2 || anchorN == nil {
			continue
		}
		if kind != "aset" && anchorG.Key() != anchorN.Key() {
			m, mg := metaN[og.ExecutedAt().Key()], meta[og.ExecutedAt().Key()]
			if (m != nil && m.trailingTomb) || (mg != nil && mg.trailingTomb) {
				return "c03-append-after-own-delete", fmt.Sprintf("%s %s (api %s): LastCreatedAt() is a trailing tombstone in one world and another node in the other (%s without GC, %s with GC: purges changed what the author's last node is), so the append is ordered differently",
					kind, encTicket(og.ExecutedAt()), m.api, encTicket(anchorN), encTicket(anchorG))
			}
		}
		purged := 0
		inG := map[string]bool{}
		for _, x := range lg {
			inG[x.pos] = true
		}
		for _, x := range ln {
			if !inG[x.pos] && !x.live {
				purged++
			}
		}
		landG, howG := fdLanding(lg, anchorG, og.ExecutedAt(), posOnly)
		landN, howN := fdLanding(ln, anchorN, og.ExecutedAt(), posOnly)
		if howG == "none" || howN == "none" || purged == 0 {
			continue
		}
		if kind != "aset" && howG != howN {
			if m := meta[og.ExecutedAt().Key()]; m != nil && m.trailingTomb {
				return "c03-append-after-own-delete", fmt.Sprintf("%s %s anchors on trailing dead slot %s (api %s) that the receiver purged; the anchor then resolves by %s instead of %s (element-identity fallback): silent reorder",
					kind, encTicket(og.ExecutedAt()), encTicket(anchorG), m.api, howG, howN)
			}
		}
		if landG == landN && !(kind == "aset" && howG != howN) {
			continue
		}
		if kind == "aset" && howG != howN {
			return "c03-set-move-anchor-purged", fmt.Sprintf("aset %s: target's original slot resolves by %s with GC, by %s without (slot purged); lands behind %q vs %q",
				encTicket(og.ExecutedAt()), howG, howN, landG, landN)
		}
		return "c03-reparent", fmt.Sprintf("%s %s: %d purged tombstones change the skip walk: lands behind %q with GC, %q without",
			kind, encTicket(og.ExecutedAt()), purged, landG, landN)
	}
	return "", "no insertion whose landing differs because of purged tombstones"
}

// snapshot predicates, evaluated on the document that is encoded / deep-copied
func fdAddAnchorDefect(e crdt.Element) bool {
	switch v := e.(type) {
	case *crdt.Object:
		for _, nd := range v.RHTNodes() {
			if fdAddAnchorDefect(nd.Element()) {
				return true
			}
		}
	case *crdt.Array:
		ns := v.AllRGANodes()
		for i, nd := range ns {
			if nd.Element() != nil && fdAddAnchorDefect(nd.Element()) {
				return true
			}
			if nd.Element() == nil || nd.PositionMovedAt() == nil || i+1 >= len(ns) {
				continue
			}
			nx := ns[i+1]
			if nx.Element() == nil || nx.PositionMovedAt() != nil {
				continue
			}
			for j := 0; j < i; j++ {
				if ns[j].Element() == nil && ns[j].PositionCreatedAt().Key() == nd.Element().CreatedAt().Key() {
					return true
				}
			}
		}
	}
	return false
}

// a live node of nodeMapByCreatedAt that is not the member of its key
func fdLiveLoser(e crdt.Element) bool {
	switch v := e.(type) {
	case *crdt.Object:
		mem := v.Members()
		for _, nd := range v.RHTNodes() {
			if nd.Element().RemovedAt() == nil {
				if m, ok := mem[nd.Key()]; !ok || m != nd.Element() {
					return true
				}
			}
			if fdLiveLoser(nd.Element()) {
				return true
			}
		}
	case *crdt.Array:
		for _, nd := range v.AllRGANodes() {
			if nd.Element() != nil && fdLiveLoser(nd.Element()) {
				return true
			}
		}
	}
	return false
}

func fdAllPos(root *crdt.Object) string {
	m := map[string][]fdNode{}
	fdArrays(root, m)
	keys := make([]string, 0, len(m))
	for k := range m {
		keys = append(keys, k)
	}
	sort.Strings(keys)
	var sb strings.Builder
	for _, k := range keys {
		sb.WriteString(k + "[")
		for _, n := range m[k] {
			sb.WriteString(n.pos + ",")
		}
		sb.WriteString("]")
	}
	return sb.String()
}

// taintCopy: dst was produced from src by snapshot encode/decode (snap=true) or DeepCopy.
func (w *fdWorld) taintCopy(srcName string, src, dst *crdt.Object, dstName string, snap bool) {
	if t, ok := w.taint[srcName]; ok {
		w.taint[dstName] = t
	}
	if fdAllPos(src) != fdAllPos(dst) && fdAddAnchorDefect(src) {
		w.taint[dstName] = "c02-array-add-anchor"
		w.c.Count("finding-site:c02-array-add-anchor")
	}
	if snap && src.Marshal() != dst.Marshal() && fdLiveLoser(src) {
		if _, ok := w.taint[dstName]; !ok {
			w.taint[dstName] = "c02-lww-loser-resurrected"
		}
		w.c.Count("finding-site:c02-lww-loser-resurrected")
	}
}

// ---------- snapshot plumbing ----------

func fdPbTicket(t *api.TimeTicket) string {
	return fmt.Sprintf("%d:%d:%s", t.Lamport, t.Delimiter, new(big.Int).SetBytes(t.ActorId).String())
}

func fdPermElem(e *api.JSONElement, out *[]string) {
	switch b := e.Body.(type) {
	case *api.JSONElement_JsonObject:
		for _, n := range b.JsonObject.Nodes {
			*out = append(*out, fdPbCreated(n.Element))
			fdPermElem(n.Element, out)
		}
	case *api.JSONElement_JsonArray:
		for _, n := range b.JsonArray.Nodes {
			if n.Element != nil {
				fdPermElem(n.Element, out)
			}
		}
	}
}

func fdPbCreated(e *api.JSONElement) string {
	switch b := e.Body.(type) {
	case *api.JSONElement_JsonObject:
		return fdPbTicket(b.JsonObject.CreatedAt)
	case *api.JSONElement_JsonArray:
		return fdPbTicket(b.JsonArray.CreatedAt)
	case *api.JSONElement_Primitive_:
		return fdPbTicket(b.Primitive.CreatedAt)
	case *api.JSONElement_Counter_:
		return fdPbTicket(b.Counter.CreatedAt)
	case *api.JSONElement_Text_:
		return fdPbTicket(b.Text.CreatedAt)
	case *api.JSONElement_Tree_:
		return fdPbTicket(b.Tree.CreatedAt)
	}
	return "0:0:0"
}

// fdEncode encodes with the real converter and returns the order in which object nodes were written.
func fdEncode(obj *crdt.Object) ([]byte, string, error) {
	b, err := converter.SnapshotToBytes(obj, nil)
	if err != nil {
		return nil, "", err
	}
	var snap api.Snapshot
	if err := proto.Unmarshal(b, &snap); err != nil {
		return nil, "", err
	}
	var perm []string
	fdPermElem(snap.GetRoot(), &perm)
	return b, strings.Join(perm, ","), nil
}

// order-dependence probe: encode again (new Go map order), decode, compare
func (w *fdWorld) probeOrder(obj *crdt.Object, want *crdt.Object) {
	for i := 0; i < 2; i++ {
		b, _, err := fdEncode(obj)
		if err != nil {
			return
		}
		o2, _, err := converter.BytesToSnapshot(b)
		if err != nil {
			return
		}
		if o2.Marshal() != want.Marshal() {
			w.c.Oracle("snapshot decode depends on Go map order (content): %s vs %s", o2.Marshal(), want.Marshal())
			return
		}
		if fdDump(o2) != fdDump(want) {
			w.c.Count("snap:decode-structure-depends-on-map-order")
			return
		}
	}
	w.c.Count("snap:decode-order-independent")
}

// ---------- run ----------

func fdArg(toks []string, k string) string {
	for _, t := range toks {
		if strings.HasPrefix(t, k+"=") {
			return t[len(k)+1:]
		}
	}
	return ""
}

func fdInt(s string) int { n, _ := strconv.Atoi(s); return n }

func (r *fdRun) worlds() []*fdWorld { return []*fdWorld{r.g, r.n} }

func (r *fdRun) oracle(tag, format string, a ...any) {
	msg := fmt.Sprintf(format, a...)
	if tag != "" {
		r.c.Oracle("KNOWN[%s] %s", tag, msg)
		r.c.Count("known:" + tag)
	} else {
		r.c.Oracle("%s", msg)
		r.c.Count("oracle:untagged")
	}
	r.failed = true
}

func (r *fdRun) newWorld(pfx string, gc bool) *fdWorld {
	w := &fdWorld{c: r.c, pfx: pfx, gc: gc, rows: map[string]time.VersionVector{}, meta: map[string]*fdOpMeta{}, taint: map[string]string{}}
	w.full = w.newSrv("s")
	w.c.Cmd("R %s", w.full.name)
	w.c.Obs("ok")
	if r.mix == "c02" {
		w.lin = w.newSrv("t")
		w.c.Cmd("R %s", w.lin.name)
		w.c.Obs("ok")
	} else {
		w.sv = w.newSrv("v")
		w.c.Cmd("R %s", w.sv.name)
		w.c.Obs("ok")
	}
	return w
}

func (w *fdWorld) addRep(actor time.ActorID) *fdRep {
	d := document.New(fdKey)
	d.SetActor(actor)
	d.SetStatus(document.StatusAttached)
	rep := &fdRep{name: fmt.Sprintf("%s%d", w.pfx, len(w.reps)), doc: d, actor: actor}
	w.reps = append(w.reps, rep)
	// Attach is a PushPull: the server stores the request-time vector of the attaching client, so
	// an attached client that has not synced yet holds every purge back
	w.rows[rep.name] = d.CreateChangePack().VersionVector.DeepCopy()
	w.c.Cmd("R %s", rep.name)
	w.c.Obs("ok")
	return rep
}

// twin comparison of replica k after a step
func (r *fdRun) twinCheck(k int, preG, preN map[string][]fdNode, what string) {
	a, b := r.g.reps[k], r.n.reps[k]
	r.c.Cmd("TW %s %s", a.name, b.name)
	if a.doc.Marshal() == b.doc.Marshal() {
		r.c.Obs("eq")
		return
	}
	r.c.Obs("ne")
	if r.failed {
		return
	}
	if t, ok := r.g.taint[a.name]; ok {
		r.oracle(t, "%s: replica %d differs between GC-on and GC-off world, snapshot-derived: %s vs %s", what, k, a.doc.Marshal(), b.doc.Marshal())
		return
	}
	tag, why := fdClassifyDivergence(r.g.meta, r.n.meta, preG, preN, r.g.lastOps, r.n.lastOps)
	if tag == "" && r.anchorDiff != "" {
		tag, why = r.anchorDiff, r.anchorDiffWhy
	}
	r.oracle(tag, "%s: GC changed the content of replica %d: with GC %s, without %s (%s)", what, k, a.doc.Marshal(), b.doc.Marshal(), why)
}

func fdPre(rep *fdRep) map[string][]fdNode {
	m := map[string][]fdNode{}
	fdArrays(rep.doc.RootObject(), m)
	return m
}

// one API call, explicit form (hand-written witnesses)
func fdAPICall(root *json.Object, toks []string) string {
	call := fdArg(toks, "call")
	obj := root
	var arr *json.Array
	if p := fdArg(toks, "path"); p != "" {
		parts := strings.Split(p, ".")
		for i, k := range parts {
			if i == len(parts)-1 {
				if a := obj.GetArray(k); a != nil {
					arr = a
					break
				}
			}
			obj = obj.GetObject(k)
		}
	}
	key, i, j, v := fdArg(toks, "key"), fdInt(fdArg(toks, "i")), fdInt(fdArg(toks, "j")), fdInt(fdArg(toks, "v"))
	switch call {
	case "setInteger":
		obj.SetInteger(key, v)
	case "setNewArray":
		obj.SetNewArray(key)
	case "setNewObject":
		obj.SetNewObject(key)
	case "delete":
		obj.Delete(key)
	case "add":
		arr.AddInteger(v)
	case "insertAfter":
		arr.InsertIntegerAfter(i, v)
	case "arrDelete":
		arr.Delete(i)
	case "moveAfter":
		arr.MoveAfterByIndex(i, j)
	case "moveFront":
		arr.MoveFront(arr.Get(i).CreatedAt())
	case "moveLast":
		arr.MoveLast(arr.Get(i).CreatedAt())
	case "arrSet":
		arr.SetInteger(i, v)
	default:
		panic("unknown api call " + call)
	}
	return "x." + call
}

func (r *fdRun) update(k int, toks []string) {
	c := r.c
	var pre [2]map[string][]fdNode
	for wi, w := range r.worlds() {
		rep := w.reps[k]
		pre[wi] = fdPre(rep)
		before := len(rep.doc.CreateChangePack().Changes)
		c.Cmd("EC %s", rep.name)
		var apis []string
		err := fdSafe(func() error {
			return rep.doc.Update(func(root *json.Object, p *presence.Presence) error {
				if toks[0] == "A" {
					apis = append(apis, fdAPICall(root, toks))
					return nil
				}
				rng := rand.New(rand.NewSource(int64(fdInt(fdArg(toks, "seed")))))
				n := 1
				if rng.Intn(5) == 0 {
					n = 2 + rng.Intn(2)
				}
				for i := 0; i < n; i++ {
					what := randomEdit(rng, root, c)
					apis = append(apis, what)
					if wi == 0 {
						c.Count("api:" + what)
					}
				}
				return nil
			})
		})
		chs := rep.doc.CreateChangePack().Changes[before:]
		w.lastOps = nil
		var ops []operations.Operation
		for _, cn := range chs {
			for _, op := range cn.Operations() {
				c.Cmd("OP %s %s", rep.name, encOp(op))
				ops = append(ops, op)
			}
		}
		w.lastOps = ops
		if len(ops) > 0 || err != nil {
			c.Cmd("E %s", rep.name)
			c.Obs("%s", fdErrKind(err))
		}
		if err != nil {
			tag := w.taint[rep.name]
			r.oracle(tag, "Update failed on %s: %v", rep.name, err)
			return
		}
		w.recordMeta(rep, ops, apis)
		w.obsRep(rep)
		if _, ok := w.taint[rep.name]; ok || r.mix == "c02" {
			// clone vs root (DeepCopy shares the defective Add path)
			w.obsClone(rep)
		}
	}
	r.twinCheck(k, pre[0], pre[1], "local edit")
}

func (r *fdRun) sync(k int) {
	c := r.c
	var pre, preFull [2]map[string][]fdNode
	for wi, w := range r.worlds() {
		rep := w.reps[k]
		pre[wi] = fdPre(rep)
		pack := rep.doc.CreateChangePack()
		reqVV := pack.VersionVector.DeepCopy()
		for _, cn := range pack.Changes {
			if cn.ClientSeq() <= rep.pushedC {
				continue
			}
			// the client serialises its pack when it sends it: store the wire copy, not the live object
			// (change.ID shares its version vector map with the document's changeID, which later
			// SyncClocks calls mutate in place)
			sent, err := roundTrip([]*change.Change{cn})
			if err != nil {
				r.oracle("", "converter round trip failed: %v", err)
				return
			}
			w.log = append(w.log, sent[0])
			rep.pushedC = cn.ClientSeq()
		}
		var pulled []*change.Change
		for _, cn := range w.log[rep.cpS:] {
			if cn.ID().ActorID() != rep.actor {
				pulled = append(pulled, cn)
			}
		}
		wire, err := roundTrip(pulled)
		if err != nil {
			r.oracle("", "converter round trip failed: %v", err)
			return
		}
		// server/packs/pushpull.go: UpdateMinVersionVector(clientInfo, reqPack.VersionVector)
		w.rows[rep.name] = reqVV
		var vec time.VersionVector
		if w.gc {
			vec = w.minVV(reqVV)
		}
		head := int64(len(w.log))
		c.Cmd("EC %s", rep.name)
		err = fdSafe(func() error {
			return rep.doc.ApplyChangePack(change.NewPack(fdKey, change.NewCheckpoint(head, rep.pushedC), wire, vec, nil))
		})
		bad := w.emitApplied(rep.name, wire, rep.doc.VersionVector(), err)
		w.lastOps = nil
		for _, cn := range wire {
			w.lastOps = append(w.lastOps, cn.Operations()...)
		}
		rep.cpS = head
		if err != nil {
			tag, why := w.classifyApplyError(rep.doc.InternalDocument().Root(), bad)
			if tag == "" {
				if t, ok := w.taint[rep.name]; ok {
					tag = t
				}
			}
			r.oracle(tag, "ApplyChangePack failed on %s: %v (%s)", rep.name, err, why)
			return
		}
		if w.gc {
			c.Cmd("GC %s %s", rep.name, ShowVV(vec))
			c.Obs("gc left=%d", rep.doc.GarbageLen())
			c.Count("gc:runs")
		}
		if len(pulled) > 0 && wi == 0 {
			c.Count("sync:with-remote-changes")
		}
		w.obsRep(rep)
		w.dumpRep(rep)
		// the full fold follows the log
		preFull[wi] = map[string][]fdNode{}
		fdArrays(w.full.doc.RootObject(), preFull[wi])
		if e, badc := w.srvApply(w.full); e != nil {
			_ = badc
			r.oracle("", "full fold (no GC) failed on %s: %v", w.full.name, e)
			return
		}
	}
	r.twinCheck(k, pre[0], pre[1], "sync")
	// a document that never purges (server with SnapshotDisableGC, client with WithDisableGC) fed with the
	// changes of purging authors vs. the same in the GC-off world
	r.compareLogs()
	if !r.failed {
		c.Cmd("TW %s %s", r.g.full.name, r.n.full.name)
		if mg, mn := r.g.full.doc.Marshal(), r.n.full.doc.Marshal(); mg == mn {
			c.Obs("eq")
		} else {
			c.Obs("ne")
			tag, why := fdClassifyDivergence(r.g.meta, r.n.meta, preFull[0], preFull[1], r.g.srvOps, r.n.srvOps)
			if tag == "" && r.anchorDiff != "" {
				tag, why = r.anchorDiff, r.anchorDiffWhy
			}
			r.oracle(tag, "never-purging document fed by purging authors differs from the GC-off world: %s vs %s (%s)", mg, mn, why)
		}
	}
}

// SV: server docs catch up; in world g the doc is then GC'd with GetMinVersionVector like the
// cached document of BuildInternalDocForServerSeq.
func (r *fdRun) serverStep() {
	var pre [2]map[string][]fdNode
	for wi, w := range r.worlds() {
		pre[wi] = map[string][]fdNode{}
		fdArrays(w.sv.doc.RootObject(), pre[wi])
		err, bad := w.srvApply(w.sv)
		if err != nil {
			tag, why := w.classifyApplyError(w.sv.doc.Root(), bad)
			r.oracle(tag, "server rebuild failed on %s: %v (%s)", w.sv.name, err, why)
			return
		}
		if w.gc {
			if err := w.srvGC(w.sv); err != nil {
				r.oracle("", "server GC failed: %v", err)
				return
			}
		}
		w.obsSrv(w.sv, true)
	}
	r.c.Cmd("TW %s %s", r.g.sv.name, r.n.sv.name)
	if r.g.sv.doc.Marshal() == r.n.sv.doc.Marshal() {
		r.c.Obs("eq")
	} else {
		r.c.Obs("ne")
		tag, why := fdClassifyDivergence(r.g.meta, r.n.meta, pre[0], pre[1], r.g.srvOps, r.n.srvOps)
		r.oracle(tag, "server document differs between GC-on and GC-off world: %s vs %s (%s)", r.g.sv.doc.Marshal(), r.n.sv.doc.Marshal(), why)
	}
}

// ST: storeSnapshot – previous snapshot + suffix, encode, store; the lineage doc continues from the decoded bytes
func (r *fdRun) storeSnapshot() {
	for _, w := range r.worlds() {
		err, bad := w.srvApply(w.lin)
		if err != nil {
			tag, why := w.classifyApplyError(w.lin.doc.Root(), bad)
			if tag == "" {
				tag = w.taint[w.lin.name]
			}
			r.oracle(tag, "storeSnapshot rebuild failed on %s: %v (%s)", w.lin.name, err, why)
			return
		}
		b, perm, err := fdEncode(w.lin.doc.RootObject())
		if err != nil {
			r.oracle("", "SnapshotToBytes failed: %v", err)
			return
		}
		lam, vv := w.lin.doc.Lamport(), w.lin.doc.VersionVector().DeepCopy()
		nd, err := document.NewInternalDocumentFromSnapshot(fdKey, int64(w.lin.upto), lam, vv, b)
		if err != nil {
			r.oracle("", "NewInternalDocumentFromSnapshot failed: %v", err)
			return
		}
		w.c.Cmd("SNAP %s %s perm=%s", w.lin.name, w.lin.name, perm)
		w.c.Obs("ok")
		w.taintCopy(w.lin.name, w.lin.doc.RootObject(), nd.RootObject(), w.lin.name, true)
		w.probeOrder(w.lin.doc.RootObject(), nd.RootObject())
		w.lin.doc, w.lin.bytes, w.lin.lamport, w.lin.vv = nd, b, lam, vv
		w.obsSrv(w.lin, true)
		w.c.Count("snap:stored")
		if m, f := w.lin.doc.Marshal(), w.full.doc.Marshal(); m != f && w.lin.upto == w.full.upto && !r.failed {
			r.oracle(w.taint[w.lin.name], "server rebuild from stored snapshot + suffix differs from the full fold in world %s: %s vs %s", w.pfx, m, f)
			return
		}
	}
}

// SN: late attach. X is fed by a snapshot built like pullSnapshot/BuildInternalDocForServerSeq, Y by changes.
func (r *fdRun) snapshotAttach(toks []string) {
	v := fdInt(fdArg(toks, "v"))
	ax, ay := NatActor(fdArg(toks, "ax")), NatActor(fdArg(toks, "ay"))
	for _, w := range r.worlds() {
		c := w.c
		w.nsrv++
		b := &fdSrv{name: fmt.Sprintf("%sb%d", w.pfx, w.nsrv)}
		if v == 1 && w.cache != nil {
			d, err := w.cache.doc.DeepCopy()
			if err != nil {
				r.oracle("", "cached doc DeepCopy failed: %v", err)
				return
			}
			b.doc, b.upto = d, w.cache.upto
			c.Cmd("COPY %s %s", w.cache.name, b.name)
			c.Obs("ok")
			w.taintCopy(w.cache.name, w.cache.doc.RootObject(), d.RootObject(), b.name, false)
			c.Count("snap:rebuild-from-cache")
		} else {
			d, err := document.NewInternalDocumentFromSnapshot(fdKey, int64(w.lin.upto), w.lin.lamport, w.lin.vv.DeepCopy(), w.lin.bytes)
			if err != nil {
				r.oracle("", "NewInternalDocumentFromSnapshot failed: %v", err)
				return
			}
			b.doc, b.upto = d, w.lin.upto
			c.Cmd("CP %s %s", w.lin.name, b.name)
			c.Obs("ok")
			if t, ok := w.taint[w.lin.name]; ok {
				w.taint[b.name] = t
			}
			c.Count("snap:rebuild-from-stored")
		}
		err, bad := w.srvApply(b)
		if err != nil {
			tag, why := w.classifyApplyError(b.doc.Root(), bad)
			if tag == "" {
				tag = w.taint[b.name]
			}
			r.oracle(tag, "BuildInternalDocForServerSeq failed on %s: %v (%s)", b.name, err, why)
			return
		}
		if w.gc {
			if err := w.srvGC(b); err != nil {
				r.oracle("", "server GC failed: %v", err)
				return
			}
		}
		w.obsSrv(b, true)
		w.cache = b
		out, err := b.doc.DeepCopy()
		if err != nil {
			r.oracle("", "rebuild DeepCopy failed: %v", err)
			return
		}
		o := &fdSrv{name: fmt.Sprintf("%so%d", w.pfx, w.nsrv), doc: out, upto: b.upto}
		c.Cmd("COPY %s %s", b.name, o.name)
		c.Obs("ok")
		w.taintCopy(b.name, b.doc.RootObject(), out.RootObject(), o.name, false)
		w.obsSrv(o, true)
		bytes, perm, err := fdEncode(out.RootObject())
		if err != nil {
			r.oracle("", "SnapshotToBytes failed: %v", err)
			return
		}
		head := int64(len(w.log))
		// X: snapshot-fed
		x := w.addRep(ax)
		xReq := x.doc.CreateChangePack().VersionVector.DeepCopy()
		err = fdSafe(func() error {
			return x.doc.ApplyChangePack(change.NewPack(fdKey, change.NewCheckpoint(head, 0), nil, out.VersionVector().DeepCopy(), bytes))
		})
		if err != nil {
			r.oracle("", "applying the snapshot failed on %s: %v", x.name, err)
			return
		}
		c.Cmd("SNAP %s %s perm=%s", o.name, x.name, perm)
		c.Obs("ok")
		w.taintCopy(o.name, out.RootObject(), x.doc.RootObject(), x.name, true)
		w.probeOrder(out.RootObject(), x.doc.RootObject())
		x.cpS = head
		w.rows[x.name] = xReq
		w.obsRep(x)
		w.dumpRep(x)
		w.obsClone(x)
		if cl := x.doc.Root(); fdAllPos(cl.Object) != fdAllPos(x.doc.RootObject()) && fdAddAnchorDefect(x.doc.RootObject()) {
			w.taint[x.name] = "c02-array-add-anchor"
			c.Count("finding-site:c02-array-add-anchor")
		}
		c.Count("snap:attach")
		// Y: change-fed
		y := w.addRep(ay)
		yReq := y.doc.CreateChangePack().VersionVector.DeepCopy()
		w.rows[y.name] = yReq
		wire, err := roundTrip(w.log)
		if err != nil {
			r.oracle("", "converter round trip failed: %v", err)
			return
		}
		var vec time.VersionVector
		if w.gc {
			vec = w.minVV(yReq)
		}
		c.Cmd("EC %s", y.name)
		err = fdSafe(func() error {
			return y.doc.ApplyChangePack(change.NewPack(fdKey, change.NewCheckpoint(head, 0), wire, vec, nil))
		})
		badY := w.emitApplied(y.name, wire, y.doc.VersionVector(), err)
		y.cpS = head
		if err != nil {
			tag, why := w.classifyApplyError(y.doc.InternalDocument().Root(), badY)
			r.oracle(tag, "change-fed attach failed on %s: %v (%s)", y.name, err, why)
			return
		}
		if w.gc {
			c.Cmd("GC %s %s", y.name, ShowVV(vec))
			c.Obs("gc left=%d", y.doc.GarbageLen())
		}
		w.obsRep(y)
		// C02 oracle at the snapshot point
		mx, my, mf := x.doc.Marshal(), y.doc.Marshal(), w.full.doc.Marshal()
		c.Cmd("TW %s %s", x.name, y.name)
		if mx == my {
			c.Obs("eq")
		} else {
			c.Obs("ne")
		}
		if mx != my || mx != mf {
			tag := w.taint[x.name]
			if tag == "" && w.gc && out.Marshal() == mx && w.asetOnMovedInLog() {
				// the snapshot is faithful (the server's rebuilt document already shows this content): the
				// server document, garbage-collected between the changes, differs from the fold because an
				// ArraySet on a previously moved element lands at the element's current place once the
				// original slot is purged (listed C03 finding met on a C02 history; found by the thorough tier)
				tag = "c03-set-move-anchor-purged"
				c.Count("finding-site:c03-set-move-anchor-purged-on-server-doc")
			}
			r.oracle(tag, "snapshot-fed %s differs from change-fed %s / full fold in world %s: snapshot %s, changes %s, fold %s", x.name, y.name, w.pfx, mx, my, mf)
			return
		}
	}
}

func (r *fdRun) quiesce() {
	n := len(r.g.reps)
	for round := 0; round < 2 && !r.failed; round++ {
		for k := 0; k < n && !r.failed; k++ {
			r.sync(k)
		}
	}
	if r.failed {
		return
	}
	for _, w := range r.worlds() {
		first := w.reps[0].doc.Marshal()
		for _, rep := range w.reps[1:] {
			if m := rep.doc.Marshal(); m != first {
				tag := ""
				for _, x := range w.reps {
					if t, ok := w.taint[x.name]; ok {
						tag = t
					}
				}
				if tag == "" && w.gc {
					// replicas of the GC world diverge from each other; the twin comparison of each
					// replica (TW lines) has already located the step; reaching this means they agreed
					// with their GC-off twins, so the twins diverge too: not a GC effect
					tag = ""
				}
				r.oracle(tag, "replicas diverge after quiescence in world %s: %s=%s vs %s=%s", w.pfx, w.reps[0].name, first, rep.name, m)
				return
			}
		}
		if m := w.full.doc.Marshal(); m != first {
			r.oracle("", "full server fold differs from the replicas in world %s: %s vs %s", w.pfx, m, first)
			return
		}
	}
	if r.mix == "c02" {
		r.storeSnapshot()
	} else {
		r.serverStep()
	}
}

// PX: restore-like Sets (value identity older than the execution ticket, as undo/redo reverse operations
// carry them) in random arrival order on a standalone server-side document, then a snapshot round trip.
// Ties ElementRHT.SetWithExecutedAt / fromJSONObject for PositionedAt != CreatedAt.
func (r *fdRun) probeRestore(toks []string) {
	c := r.c
	rng := rand.New(rand.NewSource(int64(fdInt(fdArg(toks, "seed")))))
	w := r.g
	w.nsrv++
	px := &fdSrv{name: fmt.Sprintf("px%d", w.nsrv), doc: document.NewInternalDocument(fdKey)}
	c.Cmd("R %s", px.name)
	c.Obs("ok")
	actor, other := NatActor("7"), NatActor("9")
	keys := []string{"a", "b"}
	n := 4 + rng.Intn(6)
	lams := rng.Perm(3 * n)
	var ops []operations.Operation
	var made []*time.Ticket
	for i := 0; i < n; i++ {
		exec := time.NewTicket(int64(lams[i]+2), 1, actor)
		if len(made) > 0 && rng.Intn(4) == 0 {
			ops = append(ops, operations.NewRemove(time.InitialTicket, made[rng.Intn(len(made))], exec))
			continue
		}
		cr := exec
		if rng.Intn(3) > 0 {
			cr = time.NewTicket(int64(1+rng.Intn(lams[i]+2)), uint32(10+i), other)
		}
		v, err := crdt.NewPrimitive(int32(i), cr)
		if err != nil {
			panic(err)
		}
		ops = append(ops, operations.NewSet(time.InitialTicket, keys[rng.Intn(2)], v, exec))
		made = append(made, cr)
	}
	top := int64(3*n + 5)
	id := change.NewID(1, 0, top, actor, time.VersionVector{actor: top})
	wire, err := roundTrip([]*change.Change{change.New(id, "", ops, nil)})
	if err != nil {
		r.oracle("", "converter round trip failed: %v", err)
		return
	}
	err = fdSafe(func() error {
		return px.doc.ApplyChangePack(change.NewPack(fdKey, change.InitialCheckpoint.NextServerSeq(1), wire, nil, nil), true)
	})
	w.emitApplied(px.name, wire, px.doc.VersionVector(), err)
	if err != nil {
		r.oracle("", "restore-like sets failed to apply: %v", err)
		return
	}
	w.obsSrv(px, true)
	b, perm, err := fdEncode(px.doc.RootObject())
	if err != nil {
		r.oracle("", "SnapshotToBytes failed: %v", err)
		return
	}
	nd, err := document.NewInternalDocumentFromSnapshot(fdKey, 1, top, time.VersionVector{actor: top}, b)
	if err != nil {
		r.oracle("", "NewInternalDocumentFromSnapshot failed: %v", err)
		return
	}
	py := &fdSrv{name: fmt.Sprintf("py%d", w.nsrv), doc: nd}
	c.Cmd("SNAP %s %s perm=%s", px.name, py.name, perm)
	c.Obs("ok")
	w.obsSrv(py, true)
	c.Count("snap:restore-probe")
	if a, bb := px.doc.Marshal(), py.doc.Marshal(); a != bb {
		tag := ""
		if fdLiveLoser(px.doc.RootObject()) {
			tag = "c02-lww-loser-resurrected"
		}
		r.oracle(tag, "snapshot of a document with restore-like sets differs: %s vs %s", a, bb)
	}
}

func (r *fdRun) exec(line string) {
	toks := strings.Fields(line)
	switch toks[0] {
	case "W":
		r.mix = fdArg(toks, "mix")
		r.g = r.newWorld("g", true)
		r.n = r.newWorld("n", false)
		for _, a := range strings.Split(fdArg(toks, "actors"), ",") {
			r.g.addRep(NatActor(a))
			r.n.addRep(NatActor(a))
		}
	case "U", "A":
		r.update(fdInt(toks[1]), toks)
	case "S":
		r.sync(fdInt(toks[1]))
	case "SV":
		r.serverStep()
	case "ST":
		r.storeSnapshot()
	case "SN":
		r.snapshotAttach(toks)
	case "Q":
		r.quiesce()
	case "PX":
		r.probeRestore(toks)
	}
}

var fdDriverCmds = map[string]bool{"PX": true, "W": true, "U": true, "A": true, "S": true, "SV": true, "ST": true, "SN": true, "Q": true}

func fdMix() string {
	for _, a := range os.Args {
		if strings.HasPrefix(a, "mix=") {
			return a[4:]
		}
	}
	return "c03"
}

func runFDoc(c *Ctx) error {
	mix := fdMix()
	c.stats.Rule = "random 2-4 replica histories over the object/array(move,set)/counter editing API, each executed in two " +
		"lock-step worlds (GC vector handed over as pushpull.go computes it / no vector), simulated server log with wire round trip; " +
		"every operation, purge vector, snapshot encode/decode (node order fed) and deep copy is replayed by the faithful Lean model and " +
		"Marshal, GarbageLen, ElementMapLen and full structural dumps (tombstones, dead slots, removedAt/movedAt) are compared; " +
		"mix=c03: schedules with replicas holding unsent edits while peers sync repeatedly, server doc GC'd with the min vector; " +
		"mix=c02: stored-snapshot lineage, cached rebuilds, late attach by snapshot next to a change-fed twin; " +
		"non-trivial = a replica applied remote changes while holding unpushed local changes and at least one purge (c03) / one snapshot attach (c02) happened"
	if c.Replay != nil {
		var r *fdRun
		for _, l := range c.Replay {
			toks := strings.Fields(l)
			if toks[0] == "T" {
				c.Trace(toks[1])
				r = &fdRun{c: c}
				continue
			}
			if r == nil {
				c.Trace("replay")
				r = &fdRun{c: c}
			}
			if fdDriverCmds[toks[0]] && !r.failed {
				c.Cmd("%s", l)
				r.exec(l)
			}
		}
		return nil
	}
	rng := c.Rng
	for i := 0; i < c.N; i++ {
		c.Trace(fmt.Sprintf("fdoc-%s-%d-%d", mix, c.Seed, i))
		r := &fdRun{c: c}
		do := func(format string, a ...any) {
			if r.failed {
				return
			}
			l := fmt.Sprintf(format, a...)
			c.Cmd("%s", l)
			r.exec(l)
		}
		n := 2 + rng.Intn(3)
		var actors []string
		for k := 0; k < n; k++ {
			actors = append(actors, ActorNat(mkActor(rng, k)))
		}
		do("W mix=%s n=%d actors=%s", mix, n, strings.Join(actors, ","))
		steps := 10 + rng.Intn(36)
		// a replica that stays offline for a stretch while holding edits
		lazy := rng.Intn(n)
		lazyUntil := rng.Intn(steps)
		extra := 0
		concurrent, purged, snaps := false, false, false
		for s := 0; s < steps && !r.failed; s++ {
			k := rng.Intn(len(r.g.reps))
			x := rng.Intn(100)
			if mix == "c02" && x < 7 && extra < 2 && len(r.g.log) > 0 {
				extra++
				snaps = true
				do("SN v=%d ax=%s ay=%s", rng.Intn(2), ActorNat(mkActor(rng, 10+2*extra)), ActorNat(mkActor(rng, 11+2*extra)))
				continue
			}
			if mix == "c02" && x < 14 {
				do("ST")
				continue
			}
			if mix == "c03" && x < 5 {
				do("SV")
				continue
			}
			edit := x < 60
			if k == lazy && s < lazyUntil {
				edit = x < 92 // mostly edits, rarely syncs: holds unsent edits while peers sync repeatedly
			}
			if edit {
				do("U %d seed=%d", k, rng.Intn(1<<30))
			} else {
				rep := r.g.reps[k]
				if rep.doc.HasLocalChanges() && int(rep.cpS) < len(r.g.log) {
					concurrent = true
				}
				g0 := rep.doc.GarbageLen()
				do("S %d", k)
				if !r.failed && rep.doc.GarbageLen() < g0 {
					purged = true
				}
			}
		}
		do("Q")
		if mix == "c02" {
			do("PX seed=%d", rng.Intn(1<<30))
		}
		if concurrent && ((mix == "c03" && purged) || (mix == "c02" && snaps)) {
			c.Nontrivial()
		}
		if purged {
			c.Count("trace:with-purge")
		}
		if r.failed {
			c.Count("trace:oracle-fired")
		}
	}
	return nil
}
