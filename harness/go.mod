module verif/harness

go 1.25.0

require (
	connectrpc.com/connect v1.19.1
	github.com/hashicorp/go-memdb v1.3.5
	github.com/klauspost/compress v1.18.4
	github.com/yorkie-team/yorkie v0.0.0
	go.mongodb.org/mongo-driver/v2 v2.4.0
	go.uber.org/zap v1.27.1
	google.golang.org/protobuf v1.36.10
)

require (
	connectrpc.com/grpchealth v1.4.0 // indirect
	filippo.io/edwards25519 v1.1.0 // indirect
	github.com/beorn7/perks v1.0.1 // indirect
	github.com/cespare/xxhash/v2 v2.3.0 // indirect
	github.com/davecgh/go-spew v1.1.2-0.20180830191138-d8f796af33cc // indirect
	github.com/gabriel-vasile/mimetype v1.4.11 // indirect
	github.com/go-co-op/gocron/v2 v2.18.2 // indirect
	github.com/go-playground/locales v0.14.1 // indirect
	github.com/go-playground/universal-translator v0.18.1 // indirect
	github.com/go-playground/validator/v10 v10.28.0 // indirect
	github.com/go-sql-driver/mysql v1.9.3 // indirect
	github.com/golang-jwt/jwt/v5 v5.3.0 // indirect
	github.com/golang/snappy v1.0.0 // indirect
	github.com/google/btree v1.1.3 // indirect
	github.com/google/uuid v1.6.0 // indirect
	github.com/hashicorp/go-immutable-radix v1.3.1 // indirect
	github.com/hashicorp/golang-lru v1.0.2 // indirect
	github.com/hashicorp/golang-lru/v2 v2.0.7 // indirect
	github.com/jonboulle/clockwork v0.5.0 // indirect
	github.com/leodido/go-urn v1.4.0 // indirect
	github.com/lithammer/shortuuid/v4 v4.2.0 // indirect
	github.com/munnerz/goautoneg v0.0.0-20191010083416-a7dc8b61c822 // indirect
	github.com/pierrec/lz4/v4 v4.1.22 // indirect
	github.com/pmezard/go-difflib v1.0.1-0.20181226105442-5d4384ee4fb2 // indirect
	github.com/prometheus/client_golang v1.23.2 // indirect
	github.com/prometheus/client_model v0.6.2 // indirect
	github.com/prometheus/common v0.67.4 // indirect
	github.com/prometheus/procfs v0.19.2 // indirect
	github.com/robfig/cron/v3 v3.0.1 // indirect
	github.com/rs/cors v1.11.1 // indirect
	github.com/rs/xid v1.6.0 // indirect
	github.com/segmentio/kafka-go v0.4.49 // indirect
	github.com/stretchr/testify v1.11.1 // indirect
	github.com/xdg-go/scram v1.2.0 // indirect
	github.com/xdg-go/stringprep v1.0.4 // indirect
	github.com/youmark/pkcs8 v0.0.0-20240726163527-a2c0da244d78 // indirect
	go.uber.org/multierr v1.11.0 // indirect
	go.yaml.in/yaml/v2 v2.4.3 // indirect
	golang.org/x/crypto v0.45.0 // indirect
	golang.org/x/net v0.47.0 // indirect
	golang.org/x/oauth2 v0.33.0 // indirect
	golang.org/x/sync v0.18.0 // indirect
	golang.org/x/sys v0.38.0 // indirect
	golang.org/x/text v0.31.0 // indirect
	google.golang.org/genproto/googleapis/rpc v0.0.0-20251202230838-ff82c1b0f217 // indirect
	gopkg.in/yaml.v3 v3.0.1 // indirect
)

replace github.com/yorkie-team/yorkie => /repo

replace github.com/hashicorp/go-memdb => github.com/hackerwins/go-memdb v1.3.3-0.20211225080334-513a74641622
