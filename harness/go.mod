module verif/harness

go 1.25.0

require github.com/yorkie-team/yorkie v0.0.0

require (
	connectrpc.com/connect v1.19.1 // indirect
	github.com/cespare/xxhash/v2 v2.3.0 // indirect
	github.com/gabriel-vasile/mimetype v1.4.11 // indirect
	github.com/go-playground/locales v0.14.1 // indirect
	github.com/go-playground/universal-translator v0.18.1 // indirect
	github.com/go-playground/validator/v10 v10.28.0 // indirect
	github.com/golang/snappy v1.0.0 // indirect
	github.com/google/btree v1.1.3 // indirect
	github.com/google/uuid v1.6.0 // indirect
	github.com/hashicorp/golang-lru/v2 v2.0.7 // indirect
	github.com/klauspost/compress v1.18.4 // indirect
	github.com/leodido/go-urn v1.4.0 // indirect
	github.com/lithammer/shortuuid/v4 v4.2.0 // indirect
	github.com/xdg-go/scram v1.2.0 // indirect
	github.com/xdg-go/stringprep v1.0.4 // indirect
	github.com/youmark/pkcs8 v0.0.0-20240726163527-a2c0da244d78 // indirect
	go.mongodb.org/mongo-driver/v2 v2.4.0 // indirect
	go.uber.org/multierr v1.11.0 // indirect
	go.uber.org/zap v1.27.1 // indirect
	golang.org/x/crypto v0.45.0 // indirect
	golang.org/x/sync v0.18.0 // indirect
	golang.org/x/sys v0.38.0 // indirect
	golang.org/x/text v0.31.0 // indirect
	google.golang.org/genproto/googleapis/rpc v0.0.0-20251202230838-ff82c1b0f217 // indirect
	google.golang.org/protobuf v1.36.10 // indirect
)

replace github.com/yorkie-team/yorkie => /repo

replace github.com/hashicorp/go-memdb => github.com/hackerwins/go-memdb v1.3.3-0.20211225080334-513a74641622
