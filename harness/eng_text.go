package main

// engine `text`: op-fed correspondence of crdt.Text (RGATreeSplit) with Model/Text.lean, plus the
// C01 oracle (replicas converge, clone == root) and the C07 reference oracle (a local Edit is the
// UTF-16 splice of the visible string) on the implementation.
//
// Replicas are real document.Document values holding {"t": Text}; the server is simulated (a log
// in server order, no echo, every delivery goes through the real protobuf converters); GC is off
// (no version vector is handed to ApplyChangePack).
//
// A document.Document keeps two copies: the clone (json layer applies a local call there with NO
// version vector) and the root (Change.Execute applies the same operation with the change's
// version vector; remote changes reach both with their vector). Every application is printed as
// `OP <replica> <side> …` and replayed by the model on that side; M/MC compare Marshal(), D/DC a
// structural dump (ids, lengths, removedAt, insPrev, attribute registers incl. tombstoned keys),
// L the live length and String(), P the result of CreateRange (index → position).
//
// REBUILT texts. A Text is not only built by operations; three paths rebuild one from another:
//   * `F <rep> <kind> <call>…` failing update: an Update whose callback performs 0-2 text calls and
//     then returns an error (`err`), panics (`panic`) or misuses the json layer so that the real
//     code panics (`misuse`: Edit(1,0)). The Document drops its clone; the next access re-creates it
//     with Root.DeepCopy → Text.DeepCopy. The harness then emits `RC <rep>`; the model resets the
//     clone state to the root state. In the model a copy is the identity: that IS the specification
//     of Text.DeepCopy (ids, lengths/content, removedAt, insPrev links, attribute registers incl.
//     tombstoned keys), compared by DC against the model right after and by every later clone
//     application;
//   * `SN <src> <dst> <actor>` snapshot feed: src is synced (so its root holds exactly the log prefix
//     [0, cpS)), then a NEW replica dst is created the way a late attacher is:
//     SnapshotToBytes(src.RootObject()) → change.Pack{Snapshot, VersionVector} → ToChangePack →
//     protobuf bytes → FromChangePack → ApplyChangePack (BytesToSnapshot inside). The harness emits
//     `SNAP <src> <dst>`; the model makes dst's root AND clone copies of src's root state
//     (specification of the text codec: identity on ids, content, removedAt, insPrev and attribute
//     registers INCLUDING the removed flags; dst's clone is Text.DeepCopy of the decoded text).
//     dst then takes part like every other replica (pulls from the snapshot's log position, edits);
//   * every snapshot-fed replica is shadowed by a CHANGE-FED TWIN: a document that is fed, as remote
//     changes through the wire converters, exactly the changes src's root executed (in that order)
//     and from then on every change dst's root executes; oracle: Marshal and structure of the twin's
//     root equal dst's root after every step;
//   * once in a while (at quiescence: operations on a replaced text are outside the model, which
//     keeps one text per side) the Text is replaced by a new one (`U <rep> new`): the old Text stays
//     in the object as a removed element, and Text.DeepCopy / the snapshot codec have to carry the
//     element's own createdAt / movedAt / removedAt too: oracle "element metadata" (clone vs root,
//     snapshot-fed vs twin), implementation side only.
// The generator aims Edit/Style indices exactly at SEAMS (the end of a live piece whose insertion
// continues in another piece: there CreateRange yields (A, len A), findFloorNodePreferToLeft finds
// the successor piece and steps back over its insPrev link), preferably right after a rebuild.
//
// GARBAGE COLLECTION (C03, harness arg `gc=1`; off otherwise, so the C01/C07 runs are unchanged).
// The simulated server keeps, per replica, the vector the replica reported with its last request
// (its document vector at request time, as a real client sends it) and answers every request with
// time.MinVersionVector over those rows (computed at request time, this request's vector included),
// as server/packs does; ApplyChangePack then runs Document.GarbageCollect(min vector) after the
// changes. The harness emits `GC <rep> <vv>` after the OP lines of that response and the model
// purges clone and root (Model/TextGc.lean: nodes with insPrev relinking, attribute tombstones by the
// registration table). Every trace is executed in TWO worlds: the GC world (emitting) and a silent
// GC-off twin fed the same API lines; the property's own oracle: after every API line every replica's
// Marshal() is the same in both worlds and no sync fails. MALFORMED share (one trace in five): `GX
// <rep> <vv>` calls Document.GarbageCollect directly with a vector that is TOO LARGE (pointwise
// maximum of all replicas' vectors); such a trace is `tainted`: the GC-on/GC-off and convergence
// oracles are off (the property presupposes the min vector), updates have one call each and remote
// changes are applied one change per pack, so that a failing operation is a single `OP … clone` line
// whose `err` the model has to predict; the trace ends there.
//
// Replay: the API-level lines (R, U, S, Z, F, SN) carry every random choice, so a trace file is
// replayed by executing exactly those lines; the observation-feeding lines (OP, RC, SNAP, M, MC, D,
// DC, L, P) of the file are ignored and re-emitted by the execution. Trace ids are text-<seed>-<i>:
// the same trace is also regenerated by running the generator with -seed <seed> -n <i+1>.

import (
	"bufio"
	"fmt"
	"io"
	"math/big"
	"math/rand"
	"net/url"
	"os"
	"sort"
	"strconv"
	"strings"
	"unicode/utf16"

	"google.golang.org/protobuf/proto"

	"github.com/yorkie-team/yorkie/api/converter"
	api "github.com/yorkie-team/yorkie/api/yorkie/v1"
	"github.com/yorkie-team/yorkie/pkg/document"
	"github.com/yorkie-team/yorkie/pkg/document/change"
	"github.com/yorkie-team/yorkie/pkg/document/crdt"
	"github.com/yorkie-team/yorkie/pkg/document/json"
	"github.com/yorkie-team/yorkie/pkg/document/operations"
	"github.com/yorkie-team/yorkie/pkg/document/presence"
	"github.com/yorkie-team/yorkie/pkg/document/time"
)

func init() {
	register("text", func(c *Ctx) error { return runText(c, false) })
	// same engine with in-flight edits: a sync is split into its request half (SS) and its response
	// half (SA) and local updates happen in between. On the pinned tree this schedule exposes a
	// genuine divergence (the version vector of the last local change is aliased with the document's
	// own vector and inflated by the response), so it is a separate engine.
	register("textif", func(c *Ctx) error { return runText(c, true) })
}

func encTextPos(p *crdt.RGATreeSplitNodePos) string {
	return fmt.Sprintf("%s:%d:%d", encTicket(p.ID().CreatedAt()), p.ID().Offset(), p.RelativeOffset())
}

func encNodeID(id *crdt.RGATreeSplitNodeID) string {
	if id == nil {
		return "-"
	}
	return fmt.Sprintf("%s:%d", encTicket(id.CreatedAt()), id.Offset())
}

func encAttrMap(m map[string]string, kvSep string, sep string) string {
	keys := make([]string, 0, len(m))
	for k := range m {
		keys = append(keys, k)
	}
	sort.Strings(keys)
	parts := make([]string, 0, len(keys))
	for _, k := range keys {
		parts = append(parts, pct(k)+kvSep+pct(m[k]))
	}
	return strings.Join(parts, sep)
}

func encKeys(ks []string) string {
	parts := make([]string, 0, len(ks))
	for _, k := range ks {
		parts = append(parts, pct(k))
	}
	return strings.Join(parts, ",")
}

// encTextOp prints one operation the way Driver/TextEngine.lean parses it. vv is what the Go
// Execute of that side receives ("-" for the json-layer call, which passes nil).
func encTextOp(op operations.Operation, vv string) string {
	switch o := op.(type) {
	case *operations.Set:
		if _, ok := o.Value().(*crdt.Text); ok && o.Key() == "t" {
			return fmt.Sprintf("new t=%s", encTicket(o.Value().CreatedAt()))
		}
		return fmt.Sprintf("unsupported kind=set-%T", o.Value())
	case *operations.Edit:
		return fmt.Sprintf("edit p=%s from=%s to=%s content=%s attrs=%s t=%s vv=%s spans=%d",
			encTicket(o.ParentCreatedAt()), encTextPos(o.From()), encTextPos(o.To()), pct(o.Content()),
			encAttrMap(o.Attributes(), ":", ","), encTicket(o.ExecutedAt()), vv,
			len(o.RestoreSpans())+len(o.RetombstoneSpans()))
	case *operations.Style:
		return fmt.Sprintf("style p=%s from=%s to=%s attrs=%s rem=%s t=%s vv=%s",
			encTicket(o.ParentCreatedAt()), encTextPos(o.From()), encTextPos(o.To()),
			encAttrMap(o.Attributes(), ":", ","), encKeys(o.AttributesToRemove()), encTicket(o.ExecutedAt()), vv)
	default:
		return fmt.Sprintf("unsupported kind=%T", op)
	}
}

// dumpText prints id,len,removedAt,insPrev,[attribute register] for every node after the head.
func dumpText(t *crdt.Text) string {
	if t == nil {
		return ""
	}
	var parts []string
	for _, n := range t.Nodes() {
		rm := "-"
		if n.RemovedAt() != nil {
			rm = encTicket(n.RemovedAt())
		}
		rn := n.Value().Attrs().Nodes()
		sort.Slice(rn, func(i, j int) bool { return rn[i].Key() < rn[j].Key() })
		var as []string
		for _, a := range rn {
			s := pct(a.Key()) + "=" + pct(a.Value()) + "@" + encTicket(a.UpdatedAt())
			if a.IsRemoved() {
				s += "!"
			}
			as = append(as, s)
		}
		parts = append(parts, fmt.Sprintf("%s,%d,%s,%s,[%s]", encNodeID(n.ID()), n.Value().Len(), rm,
			encNodeID(n.InsPrevID()), strings.Join(as, ";")))
	}
	return strings.Join(parts, " ")
}

type textReplica struct {
	name    string
	doc     *document.Document
	cpS     int64
	actor   time.ActorID
	pushedC uint32
	// response of a sync whose request has been sent but whose response has not been applied yet
	inflight *change.Pack
	// every change the root executed, in that order (wire copies); inherited by a snapshot-fed replica
	hist []*change.Change
	// snapshot-fed replicas only: the change-fed twin and how much of hist it has seen
	twin    *document.Document
	twinFed int
	// ids of the pieces whose insPrev link went through a rebuild (DeepCopy / snapshot decode) of the
	// current clone; rebuilds counts them
	copiedLinks map[string]bool
	rebuilds    int
	// gc=1: the vector this replica reported with its last request (the server's row)
	reported time.VersionVector
	// a response has been applied since the last local update (gc=1: the undo stack may then hold
	// positions inside purged nodes)
	syncedSinceUpdate bool
	// the operations of the last Undo (compared between the GC world and the GC-off twin)
	lastUndo string
}

type textWorld struct {
	c    *Ctx
	reps map[string]*textReplica
	ord  []*textReplica
	log  []*change.Change
	// a panic inside the implementation was reported for this trace; its remaining lines are skipped
	dead bool
	// gc=1: responses carry the min version vector; tainted: a too-large vector has been used (GX)
	gc      bool
	tainted bool
	// gc=1: the silent GC-off twin world and whether a difference has been reported already
	twinOff  *textWorld
	diffSeen bool
	// gc=1: the re-parenting step of this trace has been identified
	reparented bool
	// gc=1: an Undo produced different reverse operations in the two worlds: the rest of the trace is
	// outside C03 (undo/redo is C14/C15)
	undoDiffers bool
	// the trace runs in gc mode (true in BOTH worlds, so that rules that must not depend on the world -
	// which API lines are skipped - are the same in both)
	gcTrace bool
}

// parseShownVV is the inverse of ShowVV.
func parseShownVV(s string) time.VersionVector {
	vv := time.NewVersionVector()
	s = strings.Trim(s, "{}")
	if s == "" {
		return vv
	}
	for _, kv := range strings.Split(s, ",") {
		p := strings.SplitN(kv, ":", 2)
		if len(p) != 2 {
			continue
		}
		l, _ := strconv.ParseInt(p[1], 10, 64)
		vv.Set(NatActor(p[0]), l)
	}
	return vv
}

// serverMinVV is what the server answers: the minimum over the rows of all replicas that have one.
func (w *textWorld) serverMinVV() time.VersionVector {
	var rows []time.VersionVector
	for _, r := range w.ord {
		if r.reported != nil {
			rows = append(rows, r.reported)
		}
	}
	return time.MinVersionVector(rows...)
}

// silentCtx is the context of the GC-off twin world: nothing it prints reaches the streams.
func silentCtx(c *Ctx) *Ctx {
	sc := &Ctx{Rng: c.Rng, Seed: c.Seed, N: c.N, Tier: c.Tier, Out: c.Out,
		cmds: bufio.NewWriter(io.Discard), impl: bufio.NewWriter(io.Discard), orc: bufio.NewWriter(io.Discard),
		seen: map[string]bool{}}
	sc.stats.Dist = map[string]int{}
	sc.traceID = c.traceID
	return sc
}

func textGCArg() bool {
	for _, a := range os.Args {
		if a == "gc=1" {
			return true
		}
	}
	return false
}

// charBag lists every live character of the text with its attributes, sorted: two texts with the same
// bag differ in ORDER only (the shape of the re-parenting divergence).
func charBag(d *document.Document) string {
	t := rootText(d)
	if t == nil {
		return ""
	}
	var parts []string
	for _, n := range t.Nodes() {
		if n.RemovedAt() != nil {
			continue
		}
		as := n.Value().Attrs().Marshal()
		for _, r := range n.Value().Value() {
			parts = append(parts, string(r)+as)
		}
	}
	sort.Strings(parts)
	return strings.Join(parts, "\x00")
}

func diffShape(a, b *document.Document) string {
	if charBag(a) == charBag(b) {
		return "order-only"
	}
	return "content"
}

// textReparentTag is the prefix of the C03 oracle lines of a trace in which the re-parenting step has
// been IDENTIFIED (reparentEvidence): known finding F-C03-text-reparent.
const textReparentTag = "KNOWN[c03-text-reparent] "

// c03Prefix: consequences (GC-on != GC-off later in the trace, divergence at quiescence) carry the tag
// only after such a step was identified in this trace; anything else is a plain violation.
func (w *textWorld) c03Prefix() string {
	if w.reparented {
		return textReparentTag
	}
	return ""
}

type gcNodeRow struct {
	id      string
	removed bool
	first   bool // offset 0: the first piece of an insertion
}

func gcNodeRows(d *document.Document) []gcNodeRow {
	t := rootText(d)
	if t == nil {
		return nil
	}
	var rows []gcNodeRow
	for _, n := range t.Nodes() {
		rows = append(rows, gcNodeRow{id: encNodeID(n.ID()), removed: n.RemovedAt() != nil, first: n.ID().Offset() == 0})
	}
	return rows
}

// reparentEvidence looks, on one replica and its GC-off twin, for the signature of the re-parenting
// divergence: (1) an insertion (same ticket) that both worlds hold, (2) whose left neighbour - among
// the nodes both worlds hold - differs, and (3) in the GC-off twin at least one tombstone that the GC
// world has purged lies between the two landing places (the skip walk crossed a purge site).
func reparentEvidence(on, off *document.Document) string {
	ron, roff := gcNodeRows(on), gcNodeRows(off)
	inOn, posOff := map[string]bool{}, map[string]int{}
	for _, r := range ron {
		inOn[r.id] = true
	}
	for i, r := range roff {
		posOff[r.id] = i
	}
	prevCommon := func(rows []gcNodeRow, k int, other func(string) bool) string {
		for j := k - 1; j >= 0; j-- {
			if other(rows[j].id) {
				return rows[j].id
			}
		}
		return "head"
	}
	inOff := func(id string) bool { _, ok := posOff[id]; return ok }
	for k, x := range ron {
		px, ok := posOff[x.id]
		if !x.first || !ok {
			continue
		}
		a := prevCommon(ron, k, inOff)                                  // left neighbour with GC
		b := prevCommon(roff, px, func(id string) bool { return inOn[id] }) // left neighbour without GC
		if a == b {
			continue
		}
		pa := -1
		if a != "head" {
			pa = posOff[a]
		}
		if pa < px {
			// (the mirror image: x is a node the walk of ANOTHER insertion went over)
			continue
		}
		// with GC the walk went on to behind a, which in the twin lies to the right of where x stopped
		purged := 0
		for j := px + 1; j < pa; j++ {
			if roff[j].removed && !inOn[roff[j].id] {
				purged++
			}
		}
		if purged > 0 {
			return fmt.Sprintf("%d purged tombstone(s) change the skip walk: insertion %s lands behind %s with GC, behind %s without",
				purged, x.id, a, b)
		}
	}
	return ""
}

// compareWorlds is the C03 oracle: same history, GC on vs GC off, same content on every replica.
func (w *textWorld) compareWorlds(after string) {
	if w.twinOff == nil || w.tainted || w.diffSeen || w.dead || w.undoDiffers {
		return
	}
	if f := strings.Fields(after); len(f) == 2 && f[0] == "Z" {
		if a, b := w.reps[f[1]], w.twinOff.reps[f[1]]; a != nil && b != nil && a.lastUndo != b.lastUndo {
			// not a GC defect of an edit: the reverse of a Style takes "the previous attributes" from the
			// first visited node, which may be a tombstone - that GC has purged in one world
			w.undoDiffers = true
			w.c.Count("c14:undo-reverse-differs-with-gc")
			// counted, not reported: C03 quantifies over histories without undo/redo, and C14 says the
			// restoration of a style is only approximate; the comparison of the two worlds stops here
			return
		}
	}
	if w.twinOff.dead {
		w.c.Oracle("C03 the GC-off twin world died after %q", after)
		w.diffSeen = true
		return
	}
	for _, rep := range w.ord {
		o := w.twinOff.reps[rep.name]
		if o == nil {
			continue
		}
		if on, off := rep.doc.Marshal(), o.doc.Marshal(); on != off {
			shape := diffShape(rep.doc, o.doc)
			if ev := reparentEvidence(rep.doc, o.doc); ev != "" {
				w.reparented = true
				w.c.Count("c03:reparenting-step-identified")
				w.c.Oracle("%sC03 GC-on != GC-off on %s after %q: %s (shape=%s): on=%s off=%s", textReparentTag, rep.name, after, ev, shape, on, off)
			} else {
				w.c.Oracle("C03 GC-on != GC-off (shape=%s) on %s after %q: on=%s off=%s", shape, rep.name, after, on, off)
			}
			w.diffSeen = true
			return
		}
	}
	w.c.Count("c03:worlds-compared")
}

func rootText(d *document.Document) *crdt.Text {
	if e := d.RootObject().Get("t"); e != nil {
		if t, ok := e.(*crdt.Text); ok {
			return t
		}
	}
	return nil
}

func cloneText(d *document.Document) *crdt.Text {
	if t := d.Root().GetText("t"); t != nil {
		return t.Text
	}
	return nil
}

func (w *textWorld) observe(rep *textReplica) {
	c := w.c
	root := rep.doc.Marshal()
	clone := rep.doc.Root().Marshal()
	c.Cmd("M %s", rep.name)
	c.Obs("%s", root)
	c.Cmd("MC %s", rep.name)
	c.Obs("%s", clone)
	if clone != root {
		if w.tainted {
			c.Count("gx:clone-differs-from-root")
		} else {
			c.Oracle("clone != root on %s: clone=%s root=%s", rep.name, clone, root)
		}
	}
	rt, ct := rootText(rep.doc), cloneText(rep.doc)
	dr, dc := dumpText(rt), dumpText(ct)
	c.Cmd("D %s", rep.name)
	c.Obs("%s", dr)
	c.Cmd("DC %s", rep.name)
	c.Obs("%s", dc)
	if dr != dc {
		if w.gc {
			// with GC on, which attribute tombstones are purged depends on the registration table
			// (known finding C09-n2: keyed without the owner, toggling); the model reproduces both sides
			c.Count("gc:clone-root-structure-differs")
		} else {
			c.Oracle("clone and root differ structurally on %s: clone=%s root=%s", rep.name, dc, dr)
		}
	}
	if ct != nil {
		c.Cmd("L %s", rep.name)
		c.Obs("len=%d str=%s", ct.TreeByIndex().Len(), pct(ct.String()))
		if !ct.CheckWeight() || !rt.CheckWeight() {
			c.Oracle("CheckWeight failed on %s", rep.name)
		}
	}
	// Text.DeepCopy / the snapshot codec also have to keep the element's own createdAt / movedAt /
	// removedAt (a replaced Text stays in the object as a removed element): oracle only, the model
	// does not keep removed elements
	em := elemMeta(rep.doc.RootObject())
	if ec := elemMeta(rep.doc.Root().Object); ec != em {
		c.Oracle("element metadata of clone and root differ on %s: clone=%s root=%s", rep.name, ec, em)
	}
	w.checkTwin(rep, root, dr, em)
}

// elemMeta lists key, type, createdAt, movedAt, removedAt of every member node of obj, removed ones included.
func elemMeta(obj *crdt.Object) string {
	var parts []string
	for _, n := range obj.RHTNodes() {
		e := n.Element()
		parts = append(parts, fmt.Sprintf("%s:%T:c=%s:m=%s:r=%s", pct(n.Key()), e, encTicket(e.CreatedAt()), encTicket(e.MovedAt()), encTicket(e.RemovedAt())))
	}
	sort.Strings(parts)
	return strings.Join(parts, " ")
}

// textSeam is the end of a live piece A whose insertion continues in another piece B (B.insPrev ==
// A): the index at which CreateRange yields (A, len A) and findFloorNodePreferToLeft has to step
// back from B over the insPrev link.
type textSeam struct {
	idx   int    // visible UTF-16 index
	link  string // id of B
	chain int    // number of pieces of that insertion
}

// textSeams returns the seams of t and the visible start index of every node (all boundaries).
func textSeams(t *crdt.Text) (seams []textSeam, bounds []int) {
	if t == nil {
		return nil, nil
	}
	nodes := t.Nodes()
	next := map[string]string{}
	chain := map[string]int{}
	for _, n := range nodes {
		chain[encTicket(n.ID().CreatedAt())]++
		if p := n.InsPrevID(); p != nil {
			next[encNodeID(p)] = encNodeID(n.ID())
		}
	}
	prefix := 0
	for _, n := range nodes {
		bounds = append(bounds, prefix)
		l := n.Len()
		if b, ok := next[encNodeID(n.ID())]; ok && l > 0 {
			seams = append(seams, textSeam{idx: prefix + l, link: b, chain: chain[encTicket(n.ID().CreatedAt())]})
		}
		prefix += l
	}
	return seams, bounds
}

// rebuilt records that the clone of rep has just been re-created from the root (DeepCopy after a
// failed update / after a snapshot): every insPrev link it holds now went through the copy.
func (w *textWorld) rebuilt(rep *textReplica, how string) {
	rep.rebuilds++
	if rep.copiedLinks == nil {
		rep.copiedLinks = map[string]bool{}
	}
	ct := cloneText(rep.doc)
	links, tombs, rmAttrs := 0, 0, 0
	maxChain := 0
	if ct != nil {
		chain := map[string]int{}
		for _, n := range ct.Nodes() {
			k := encTicket(n.ID().CreatedAt())
			chain[k]++
			if chain[k] > maxChain {
				maxChain = chain[k]
			}
			if n.InsPrevID() != nil {
				rep.copiedLinks[encNodeID(n.ID())] = true
				links++
			}
			if n.RemovedAt() != nil {
				tombs++
			}
			for _, a := range n.Value().Attrs().Nodes() {
				if a.IsRemoved() {
					rmAttrs++
				}
			}
		}
	}
	w.c.Count("rebuild:" + how)
	for _, n := range rep.doc.RootObject().RHTNodes() {
		if n.Element().RemovedAt() != nil {
			w.c.Count("rebuild:" + how + "-with-replaced-text-element")
			break
		}
	}
	if links > 0 {
		w.c.Count("rebuild:" + how + "-with-insPrev-links")
	}
	if maxChain >= 3 {
		w.c.Count("rebuild:" + how + "-with-chain>=3")
	}
	if tombs > 0 {
		w.c.Count("rebuild:" + how + "-with-tombstones")
	}
	if rmAttrs > 0 {
		w.c.Count("rebuild:" + how + "-with-removed-attrs")
	}
}

// record appends changes the root of rep has just executed to its history (as wire copies: applying
// a change may touch its operations) and forwards them to the change-fed twin of a snapshot-fed replica.
func (w *textWorld) record(rep *textReplica, chs []*change.Change) {
	if len(chs) == 0 {
		return
	}
	cp, err := roundTrip(chs)
	if err != nil {
		w.c.Oracle("converter round trip failed: %v", err)
		return
	}
	rep.hist = append(rep.hist, cp...)
	w.feedTwin(rep)
}

func (w *textWorld) feedTwin(rep *textReplica) {
	if rep.twin == nil || rep.twinFed >= len(rep.hist) {
		return
	}
	wire, err := roundTrip(rep.hist[rep.twinFed:])
	if err != nil {
		w.c.Oracle("converter round trip failed: %v", err)
		return
	}
	rep.twinFed = len(rep.hist)
	if rec := safely(func() {
		if err := rep.twin.ApplyChangePack(change.NewPack(rep.twin.Key(), change.NewCheckpoint(int64(rep.twinFed), 0), wire, nil, nil)); err != nil {
			w.c.Oracle("change-fed twin of %s failed to apply %d changes: %v", rep.name, len(wire), err)
		}
	}); rec != nil {
		w.c.Oracle("change-fed twin of %s panicked: %v", rep.name, rec)
	}
}

// checkTwin: a snapshot-fed replica equals the replica that was fed the same history as changes.
func (w *textWorld) checkTwin(rep *textReplica, rootMarshal string, rootDump string, rootMeta string) {
	if rep.twin == nil || w.tainted {
		return
	}
	w.c.Count("twin:compared")
	if m := rep.twin.Marshal(); m != rootMarshal && w.gc {
		// the change-fed twin is never garbage-collected: a GC-on vs GC-off difference, which the
		// comparison of the two WORLDS reports (the snapshot-fed replica exists in both)
		w.c.Count("gc:snapshot-fed-differs-from-change-fed-twin")
	} else if m != rootMarshal {
		w.c.Oracle("snapshot-fed %s differs from its change-fed twin: snapshot-fed=%s twin=%s", rep.name, rootMarshal, m)
	} else if w.gc {
		// the change-fed twin is never garbage-collected: only the content is comparable
	} else if d := dumpText(rootText(rep.twin)); d != rootDump {
		w.c.Oracle("snapshot-fed %s differs structurally from its change-fed twin: snapshot-fed=%s twin=%s", rep.name, rootDump, d)
	} else if em := elemMeta(rep.twin.RootObject()); em != rootMeta {
		w.c.Oracle("element metadata of snapshot-fed %s differs from its change-fed twin: snapshot-fed=%s twin=%s", rep.name, rootMeta, em)
	}
}

// emitChange prints the OP lines of one change. localJSON: the change was just produced by the
// json layer (the clone saw no vector); otherwise both sides executed it with the change's vector.
func (w *textWorld) emitChange(rep *textReplica, cn *change.Change, localJSON bool, ok bool) {
	verdict := "ok"
	if !ok {
		verdict = "err"
	}
	vv := ShowVV(cn.ID().VersionVector())
	for _, op := range cn.Operations() {
		cvv := vv
		if localJSON {
			cvv = "-"
		}
		w.c.Cmd("OP %s clone %s", rep.name, encTextOp(op, cvv))
		w.c.Obs("%s", verdict)
		w.c.Cmd("OP %s root %s", rep.name, encTextOp(op, vv))
		w.c.Obs("%s", verdict)
		switch op.(type) {
		case *operations.Edit:
			w.c.Count("op:edit")
		case *operations.Style:
			w.c.Count("op:style")
		}
	}
}

type textCall struct {
	kind     string // new, edit, style
	from, to int
	content  string
	attrs    map[string]string
}

func encCall(cl textCall) string {
	if cl.kind == "new" {
		return "new"
	}
	return fmt.Sprintf("%s:%d:%d:%s:%s", cl.kind, cl.from, cl.to, pct(cl.content), encAttrMap(cl.attrs, "=", ";"))
}

func unpct(s string) string {
	r, err := url.QueryUnescape(s)
	if err != nil {
		return s
	}
	return r
}

func decCall(s string) (textCall, error) {
	if s == "new" {
		return textCall{kind: "new"}, nil
	}
	f := strings.Split(s, ":")
	if len(f) != 5 {
		return textCall{}, fmt.Errorf("bad call %q", s)
	}
	from, e1 := strconv.Atoi(f[1])
	to, e2 := strconv.Atoi(f[2])
	if e1 != nil || e2 != nil {
		return textCall{}, fmt.Errorf("bad call %q", s)
	}
	cl := textCall{kind: f[0], from: from, to: to, content: unpct(f[3])}
	if f[4] != "" {
		cl.attrs = map[string]string{}
		for _, kv := range strings.Split(f[4], ";") {
			p := strings.SplitN(kv, "=", 2)
			if len(p) == 2 {
				cl.attrs[unpct(p[0])] = unpct(p[1])
			}
		}
	}
	return cl, nil
}

func u16(s string) []uint16 { return utf16.Encode([]rune(s)) }

func insidePair(u []uint16, i int) bool {
	return i > 0 && i < len(u) && utf16.IsSurrogate(rune(u[i-1])) && u[i-1] < 0xDC00 && u[i] >= 0xDC00 && u[i] < 0xE000
}

// runCalls performs json-layer calls inside an updater (successful or failing), with the C07
// reference oracle on each of them.
func (w *textWorld) runCalls(rep *textReplica, root *json.Object, calls []textCall) {
	c := w.c
	for i, cl := range calls {
		if cl.kind == "new" {
			root.SetNewText("t")
			c.Count("api:new")
			continue
		}
		t := root.GetText("t")
		if t == nil {
			c.Count("api:skipped-no-text")
			continue
		}
		n := t.TreeByIndex().Len()
		if cl.from < 0 || cl.from > cl.to || cl.to > n {
			c.Count("api:skipped-out-of-range")
			continue
		}
		if i == 0 {
			fp, tp, err := t.Text.CreateRange(cl.from, cl.to)
			c.Cmd("P %s %d %d", rep.name, cl.from, cl.to)
			if err != nil {
				c.Obs("from=err to=err")
			} else {
				c.Obs("from=%s to=%s", encTextPos(fp), encTextPos(tp))
			}
		}
		bs := t.String()
		bu := u16(bs)
		if len(bu) != n {
			c.Oracle("Len()=%d but String() has %d UTF-16 units on %s", n, len(bu), rep.name)
		}
		tomb := false
		for _, nd := range t.Nodes() {
			if nd.RemovedAt() != nil {
				tomb = true
			}
		}
		if tomb {
			c.Count("api:with-tombstones-present")
		}
		if rep.rebuilds > 0 {
			c.Count("api:call-on-rebuilt-clone")
		}
		if rep.twin != nil {
			c.Count("api:call-on-snapshot-fed-replica")
		}
		// is an index of this call exactly on a seam?
		seams, _ := textSeams(t.Text)
		onSeam, onChain3, onCopied := false, false, false
		for _, sm := range seams {
			if sm.idx == cl.from || sm.idx == cl.to {
				onSeam = true
				onChain3 = onChain3 || sm.chain >= 3
				onCopied = onCopied || rep.copiedLinks[sm.link]
				if rep.copiedLinks[sm.link] && sm.chain >= 3 {
					c.Count("seam:" + cl.kind + "-on-copied-link-chain>=3")
				}
			}
		}
		if onSeam {
			c.Count("seam:" + cl.kind)
			if onChain3 {
				c.Count("seam:" + cl.kind + "-chain>=3")
			}
			if onCopied {
				c.Count("seam:" + cl.kind + "-on-copied-link")
				if cl.kind == "edit" && cl.from == cl.to && cl.content != "" {
					c.Count("seam:insert-on-copied-link")
				}
				if rep.twin != nil {
					c.Count("seam:" + cl.kind + "-on-copied-link-snapshot-fed")
				}
			}
		}
		switch cl.kind {
		case "edit":
			if cl.attrs != nil {
				t.Edit(cl.from, cl.to, cl.content, cl.attrs)
			} else {
				t.Edit(cl.from, cl.to, cl.content)
			}
			switch {
			case cl.from == cl.to && cl.content == "":
				c.Count("api:edit-empty")
			case cl.from == cl.to:
				c.Count("api:edit-insert")
			case cl.content == "":
				c.Count("api:edit-delete")
			default:
				c.Count("api:edit-replace")
			}
			if insidePair(bu, cl.from) || insidePair(bu, cl.to) {
				c.Count("api:edit-cut-inside-surrogate-pair")
			}
			// C07 reference: the UTF-16 splice. Go strings cannot hold half a surrogate pair, so the
			// reference decodes the kept pieces separately (a cut inside a pair yields U+FFFD twice).
			exp := string(utf16.Decode(bu[:cl.from])) + cl.content + string(utf16.Decode(bu[cl.to:]))
			as := t.String()
			if as != exp {
				c.Oracle("C07 Edit(%d,%d,%q) on %s: before=%q after=%q expected=%q", cl.from, cl.to, cl.content, rep.name, bs, as, exp)
			}
			if l := t.TreeByIndex().Len(); l != len(u16(exp)) {
				c.Oracle("C07 Len()=%d after Edit(%d,%d,%q) on %s, expected %d", l, cl.from, cl.to, cl.content, rep.name, len(u16(exp)))
			}
		case "style":
			t.Style(cl.from, cl.to, cl.attrs)
			c.Count("api:style")
			if as := t.String(); as != string(utf16.Decode(bu[:cl.from]))+string(utf16.Decode(bu[cl.from:cl.to]))+string(utf16.Decode(bu[cl.to:])) {
				c.Oracle("C07 Style(%d,%d) changed the content on %s: before=%q after=%q", cl.from, cl.to, rep.name, bs, as)
			}
		}
	}
}

// update runs one document.Update with the given json-layer calls.
func (w *textWorld) update(rep *textReplica, calls []textCall) {
	c := w.c
	before := len(rep.doc.CreateChangePack().Changes)
	err := rep.doc.Update(func(root *json.Object, p *presence.Presence) error {
		w.runCalls(rep, root, calls)
		return nil
	})
	if err != nil {
		c.Oracle("update failed on %s: %v", rep.name, err)
		return
	}
	chs := rep.doc.CreateChangePack().Changes
	for _, cn := range chs[before:] {
		w.emitChange(rep, cn, true, true)
	}
	w.record(rep, chs[before:])
	rep.syncedSinceUpdate = false
	w.observe(rep)
}

type textFailure struct{}

// failingUpdate runs one document.Update whose callback performs the calls and then fails: it
// returns an error (`err`), panics (`panic`) or makes the json layer panic (`misuse`). The document
// must be unchanged and its clone, re-created by Root.DeepCopy, must equal the root (`RC`).
func (w *textWorld) failingUpdate(rep *textReplica, kind string, calls []textCall) {
	c := w.c
	preM, preD := rep.doc.Marshal(), dumpText(rootText(rep.doc))
	preN := len(rep.doc.CreateChangePack().Changes)
	reached := false
	var uerr error
	var rec any
	func() {
		defer func() { rec = recover() }()
		uerr = rep.doc.Update(func(root *json.Object, p *presence.Presence) error {
			w.runCalls(rep, root, calls)
			reached = true
			switch kind {
			case "panic":
				panic(textFailure{})
			case "misuse":
				if t := root.GetText("t"); t != nil {
					t.Edit(1, 0, "x") // "from should be less than or equal to to"
				}
				panic(textFailure{}) // no text yet
			}
			return fmt.Errorf("callback failed")
		})
	}()
	if !reached && rec != nil {
		panic(rec) // a panic of the real code inside the calls: reported by exec
	}
	c.Count("fail:" + kind)
	c.Count(fmt.Sprintf("fail:calls=%d", len(calls)))
	if uerr == nil && rec == nil {
		c.Oracle("failing update (%s) reported success on %s", kind, rep.name)
	}
	if m, d := rep.doc.Marshal(), dumpText(rootText(rep.doc)); m != preM || d != preD {
		c.Oracle("failed update (%s) changed the root of %s: before=%s after=%s", kind, rep.name, preD, d)
	}
	if n := len(rep.doc.CreateChangePack().Changes); n != preN {
		c.Oracle("failed update (%s) changed the pending changes of %s: %d -> %d", kind, rep.name, preN, n)
	}
	// the next access re-creates the clone: Root.DeepCopy → Text.DeepCopy
	_ = rep.doc.Root()
	w.rebuilt(rep, "reclone")
	c.Cmd("RC %s", rep.name)
	c.Obs("ok")
	w.observe(rep)
}

// snapshotFeed creates the new replica `name` from a snapshot of src, the way a late attacher gets
// it from the server (pullSnapshot → ChangePack{Snapshot, VersionVector} → wire → ApplyChangePack).
func (w *textWorld) snapshotFeed(src *textReplica, name string, actor time.ActorID) error {
	c := w.c
	// after a sync the root of src holds exactly the changes log[0:cpS) (nothing unpushed), which is
	// what a server snapshot at that position holds
	w.sync(src)
	if w.dead { // (tainted trace: an operation failed during that sync)
		return nil
	}
	if src.doc.HasLocalChanges() {
		return fmt.Errorf("SN: %s still has local changes", src.name)
	}
	snap, err := converter.SnapshotToBytes(src.doc.RootObject(), src.doc.AllPresences())
	if err != nil {
		c.Oracle("SnapshotToBytes failed on %s: %v", src.name, err)
		w.dead = true
		return nil
	}
	pack := change.NewPack(src.doc.Key(), change.NewCheckpoint(src.cpS, 0), nil, src.doc.VersionVector().DeepCopy(), snap)
	pb, err := converter.ToChangePack(pack)
	if err != nil {
		c.Oracle("ToChangePack failed: %v", err)
		w.dead = true
		return nil
	}
	bs, err := proto.Marshal(pb)
	if err != nil {
		return err
	}
	pb2 := &api.ChangePack{}
	if err := proto.Unmarshal(bs, pb2); err != nil {
		return err
	}
	wire, err := converter.FromChangePack(pb2)
	if err != nil {
		c.Oracle("FromChangePack failed: %v", err)
		w.dead = true
		return nil
	}
	d := document.New("doc-text")
	d.SetActor(actor)
	d.SetStatus(document.StatusAttached)
	if err := d.ApplyChangePack(wire); err != nil {
		c.Oracle("ApplyChangePack(snapshot of %s) failed: %v", src.name, err)
		w.dead = true // the rest of the trace refers to a replica that does not exist
		return nil
	}
	dst := &textReplica{name: name, doc: d, actor: actor, cpS: src.cpS, hist: append([]*change.Change(nil), src.hist...)}
	if w.gc {
		dst.reported = d.VersionVector().DeepCopy()
	}
	w.reps[name] = dst
	w.ord = append(w.ord, dst)
	// the change-fed twin: the same history, as changes
	var ta time.ActorID
	copy(ta[:], actor[:])
	ta[1] = 0xEE // never used by mkActor
	dst.twin = document.New("doc-text")
	dst.twin.SetActor(ta)
	dst.twin.SetStatus(document.StatusAttached)
	w.feedTwin(dst)
	_ = d.Root() // clone of the decoded root: Text.DeepCopy
	w.rebuilt(dst, "snapshot")
	c.Cmd("SNAP %s %s", src.name, name)
	c.Obs("ok")
	if m := d.Marshal(); m != src.doc.Marshal() {
		c.Oracle("snapshot-fed %s != its source %s: %s vs %s", name, src.name, m, src.doc.Marshal())
	}
	w.observe(dst)
	return nil
}

// undoStyle undoes the last local change if it consists of Style operations only (the reverse is
// then a Style set/remove operation; Edit reverses carry restore spans, which are out of scope).
func (w *textWorld) undoStyle(rep *textReplica) {
	c := w.c
	if w.gcTrace && rep.syncedSinceUpdate {
		// Undo after a garbage collection is C15 territory (the reverse Style keeps positions inside
		// nodes that may have been purged: text instance of F-C15-undo-purged-target, `offset should be
		// less than or equal to length` / `the node of the given id should be found`, clone executed
		// before root without rollback); the C03 runs undo only what no response has touched
		c.Count("api:undo-skipped-after-sync(gc)")
		return
	}
	top := rep.doc.UndoStackTopForTest()
	if len(top) == 0 {
		c.Count("api:undo-skipped")
		return
	}
	ct := cloneText(rep.doc)
	for _, h := range top {
		st, ok := h.Op.(*operations.Style)
		// (a Style on a Text that has been replaced since is outside the model: it keeps one text)
		if !ok || ct == nil || st.ParentCreatedAt().Compare(ct.CreatedAt()) != 0 {
			c.Count("api:undo-skipped")
			return
		}
	}
	before := len(rep.doc.CreateChangePack().Changes)
	if err := rep.doc.Undo(); err != nil {
		c.Oracle("undo failed on %s: %v", rep.name, err)
		return
	}
	c.Count("api:undo-style")
	chs := rep.doc.CreateChangePack().Changes
	rep.lastUndo = ""
	for _, cn := range chs[before:] {
		for _, op := range cn.Operations() {
			rep.lastUndo += encTextOp(op, "-") + " ; "
		}
	}
	for _, cn := range chs[before:] {
		for _, op := range cn.Operations() {
			if st, ok := op.(*operations.Style); ok && len(st.AttributesToRemove()) > 0 {
				c.Count("op:style-remove")
			}
		}
		w.emitChange(rep, cn, false, true)
	}
	w.record(rep, chs[before:])
	w.observe(rep)
}

// syncSend is the first half of a sync: push (serialised now, as a real client does before the
// RPC) and let the server compute the response from its log at this moment.
func (w *textWorld) syncSend(rep *textReplica) {
	c := w.c
	// NOTE: storing the *change.Change pointer instead of a serialised copy would be wrong: the
	// version-vector map of a document's LAST local change is shared with the document's own change
	// ID and is mutated in place by the next SyncClocks.
	pack := rep.doc.CreateChangePack()
	var fresh []*change.Change
	for _, cn := range pack.Changes {
		if cn.ClientSeq() > rep.pushedC {
			fresh = append(fresh, cn)
		}
	}
	pushed, err := roundTrip(fresh)
	if err != nil {
		c.Oracle("converter round trip failed: %v", err)
		return
	}
	for _, cn := range pushed {
		w.log = append(w.log, cn)
		rep.pushedC = cn.ClientSeq()
	}
	var pulled []*change.Change
	for _, cn := range w.log[rep.cpS:] {
		if cn.ID().ActorID() == rep.actor {
			continue
		}
		pulled = append(pulled, cn)
	}
	wire, err := roundTrip(pulled)
	if err != nil {
		c.Oracle("converter round trip failed: %v", err)
		return
	}
	head := int64(len(w.log))
	var minVV time.VersionVector
	if w.gc {
		rep.reported = rep.doc.VersionVector().DeepCopy()
		minVV = w.serverMinVV()
	}
	rep.inflight = change.NewPack(rep.doc.Key(), change.NewCheckpoint(head, rep.pushedC), wire, minVV, nil)
}

// syncApply is the second half: the response computed by syncSend reaches the document.
func (w *textWorld) syncApply(rep *textReplica) {
	c := w.c
	resp := rep.inflight
	if resp == nil {
		return
	}
	rep.inflight = nil
	rep.syncedSinceUpdate = true
	if w.tainted {
		w.syncApplyOneByOne(rep, resp)
		return
	}
	err := rep.doc.ApplyChangePack(resp)
	if err != nil {
		c.Oracle("ApplyChangePack failed on %s: %v", rep.name, err)
	}
	for _, cn := range resp.Changes {
		w.emitChange(rep, cn, false, err == nil)
	}
	if err == nil {
		w.record(rep, resp.Changes)
	}
	if err == nil && w.gc && resp.VersionVector != nil {
		// ApplyChangePack has run Document.GarbageCollect(resp.VersionVector) after the changes
		c.Cmd("GC %s %s", rep.name, ShowVV(resp.VersionVector))
		c.Obs("ok")
		c.Count("gc:min-vector")
	}
	rep.cpS = resp.Checkpoint.ServerSeq
	if len(resp.Changes) > 0 {
		c.Count("sync:with-remote-changes")
	}
	w.observe(rep)
}

// syncApplyOneByOne (tainted traces): one change per pack, so that a failure is one operation.
func (w *textWorld) syncApplyOneByOne(rep *textReplica, resp *change.Pack) {
	c := w.c
	for _, cn := range resp.Changes {
		pk := change.NewPack(rep.doc.Key(), change.NewCheckpoint(rep.cpS, 0), []*change.Change{cn}, nil, nil)
		if err := rep.doc.ApplyChangePack(pk); err != nil {
			c.Count("gx:operation-failed-after-too-large-vector")
			ops := cn.Operations()
			if len(ops) == 1 {
				// the clone executes first and fails; the root is not reached
				c.Cmd("OP %s clone %s", rep.name, encTextOp(ops[0], ShowVV(cn.ID().VersionVector())))
				c.Obs("err")
			}
			w.dead = true
			return
		}
		w.emitChange(rep, cn, false, true)
		w.record(rep, []*change.Change{cn})
	}
	last := change.NewPack(rep.doc.Key(), resp.Checkpoint, nil, resp.VersionVector, nil)
	if err := rep.doc.ApplyChangePack(last); err != nil {
		c.Oracle("ApplyChangePack (checkpoint only) failed on %s: %v", rep.name, err)
	}
	if w.gc && resp.VersionVector != nil {
		c.Cmd("GC %s %s", rep.name, ShowVV(resp.VersionVector))
		c.Obs("ok")
	}
	rep.cpS = resp.Checkpoint.ServerSeq
	w.observe(rep)
}

func (w *textWorld) sync(rep *textReplica) {
	if rep.inflight != nil { // a pending response is delivered first
		w.syncApply(rep)
	}
	w.syncSend(rep)
	w.syncApply(rep)
}

func (w *textWorld) converged() {
	if len(w.ord) == 0 || w.tainted || w.undoDiffers {
		return
	}
	first := w.ord[0].doc.Marshal()
	fd := dumpText(rootText(w.ord[0].doc))
	for _, rep := range w.ord[1:] {
		if m := rep.doc.Marshal(); m != first {
			if w.gc {
				shape := diffShape(w.ord[0].doc, rep.doc)
				w.c.Oracle("%sC03 replicas diverge after quiescence with GC on (shape=%s): %s=%s vs %s=%s", w.c03Prefix(), shape, w.ord[0].name, first, rep.name, m)
			} else {
				w.c.Oracle("replicas diverge after quiescence: %s=%s vs %s=%s", w.ord[0].name, first, rep.name, m)
			}
		} else if d := dumpText(rootText(rep.doc)); d != fd {
			// not part of C01 (which is about Marshal), but worth knowing: internal structure differs
			w.c.Count("quiescent:structure-differs")
		}
	}
}

// exec executes one API-level line (R, U, S, Z, Q); everything random is in the line.
func (w *textWorld) exec(line string) (err error) {
	f := strings.Fields(line)
	if len(f) == 0 || w.dead {
		return nil
	}
	defer func() {
		if r := recover(); r != nil {
			msg := fmt.Sprint(r)
			if len(msg) > 300 {
				msg = msg[:300]
			}
			w.c.Oracle("panic while executing %q: %s", line, msg)
			w.dead = true
		}
	}()
	rep := func() (*textReplica, error) {
		if len(f) < 2 || w.reps[f[1]] == nil {
			return nil, fmt.Errorf("unknown replica in %q", line)
		}
		return w.reps[f[1]], nil
	}
	switch f[0] {
	case "R":
		if len(f) != 3 {
			return fmt.Errorf("bad line %q", line)
		}
		actor := NatActor(f[2])
		d := document.New("doc-text")
		d.SetActor(actor)
		d.SetStatus(document.StatusAttached)
		r := &textReplica{name: f[1], doc: d, actor: actor}
		w.reps[f[1]] = r
		w.ord = append(w.ord, r)
		w.c.Obs("ok")
	case "U":
		r, err := rep()
		if err != nil {
			return err
		}
		var calls []textCall
		for _, s := range f[2:] {
			cl, err := decCall(s)
			if err != nil {
				return err
			}
			calls = append(calls, cl)
		}
		w.update(r, calls)
	case "S":
		r, err := rep()
		if err != nil {
			return err
		}
		if r.doc.HasLocalChanges() && int(r.cpS) < len(w.log) {
			w.c.Nontrivial()
		}
		w.sync(r)
	case "Z":
		r, err := rep()
		if err != nil {
			return err
		}
		w.undoStyle(r)
	case "F": // failing update: F <rep> <err|panic|misuse> <call>…
		r, err := rep()
		if err != nil {
			return err
		}
		if len(f) < 3 || (f[2] != "err" && f[2] != "panic" && f[2] != "misuse") {
			return fmt.Errorf("bad line %q", line)
		}
		var calls []textCall
		for _, s := range f[3:] {
			cl, err := decCall(s)
			if err != nil {
				return err
			}
			calls = append(calls, cl)
		}
		w.failingUpdate(r, f[2], calls)
	case "SN": // snapshot feed: SN <src> <dst> <actor of dst>
		r, err := rep()
		if err != nil {
			return err
		}
		if len(f) != 4 || w.reps[f[2]] != nil {
			return fmt.Errorf("bad line %q", line)
		}
		return w.snapshotFeed(r, f[2], NatActor(f[3]))
	case "SS": // sync, request half (engine textif only)
		r, err := rep()
		if err != nil {
			return err
		}
		if r.inflight == nil {
			w.syncSend(r)
		}
	case "SA": // sync, response half
		r, err := rep()
		if err != nil {
			return err
		}
		if r.inflight != nil && r.doc.HasLocalChanges() {
			w.c.Nontrivial()
		}
		w.syncApply(r)
	case "GX": // malformed: Document.GarbageCollect with a too-large vector: GX <rep> <vv>
		r, err := rep()
		if err != nil {
			return err
		}
		if len(f) != 3 {
			return fmt.Errorf("bad line %q", line)
		}
		if !w.gc { // the GC-off twin ignores it
			return nil
		}
		w.tainted = true
		vv := parseShownVV(f[2])
		r.doc.GarbageCollect(vv)
		w.c.Cmd("GC %s %s", r.name, ShowVV(vv))
		w.c.Obs("ok")
		w.c.Count("gx:too-large-vector")
		w.observe(r)
	case "Q":
		w.converged()
	}
	return nil
}

// maxVV is the pointwise maximum of the vectors of all replicas (a vector that is too large for GC).
func (w *textWorld) maxVV() time.VersionVector {
	m := map[string]int64{}
	for _, r := range w.ord {
		for a, l := range r.doc.VersionVector() {
			k := new(big.Int).SetBytes(a[:]).String()
			if l > m[k] {
				m[k] = l
			}
		}
	}
	vv := time.NewVersionVector()
	for k, l := range m {
		vv.Set(NatActor(k), l)
	}
	return vv
}

var textPool = []string{"a", "b", "c", "d", "e", "x", "y", "z", "A", "Z", "0", "1", "7", " ", " ",
	"\"", "\\", "\n", "é", "한", "€", "😀", "𝄞"}
var textAttrKeys = []string{"b", "i", "c", "a\"k"}
var textAttrVals = []string{"1", "2", "red", "x\"y", ""}

func genContent(r *rand.Rand) string {
	n := 1 + r.Intn(6)
	if r.Intn(8) == 0 {
		n += r.Intn(10)
	}
	var sb strings.Builder
	for i := 0; i < n; i++ {
		sb.WriteString(textPool[r.Intn(len(textPool))])
	}
	return sb.String()
}

func genAttrs(r *rand.Rand) map[string]string {
	m := map[string]string{}
	for i, n := 0, 1+r.Intn(2); i < n; i++ {
		m[textAttrKeys[r.Intn(len(textAttrKeys))]] = textAttrVals[r.Intn(len(textAttrVals))]
	}
	return m
}

// genCall generates one json-layer call against a text of n visible UTF-16 units and returns the
// length after it.
func genCall(r *rand.Rand, n int) (textCall, int) {
	rng := func() (int, int) { // non-empty range inside [0,n], n > 0
		a := r.Intn(n)
		b := a + 1 + r.Intn(min(n-a, 8))
		if r.Intn(10) == 0 {
			b = a + 1 + r.Intn(n-a)
		}
		return a, b
	}
	x := r.Intn(100)
	switch {
	case n == 0 || x < 40:
		p := r.Intn(n + 1)
		if r.Intn(6) == 0 { // typing at the end / the start
			p = []int{0, n}[r.Intn(2)]
		}
		cl := textCall{kind: "edit", from: p, to: p, content: genContent(r)}
		if r.Intn(5) == 0 {
			cl.attrs = genAttrs(r)
		}
		return cl, n + len(u16(cl.content))
	case x < 60:
		a, b := rng()
		return textCall{kind: "edit", from: a, to: b}, n - (b - a)
	case x < 75:
		a, b := rng()
		cl := textCall{kind: "edit", from: a, to: b, content: genContent(r)}
		if r.Intn(5) == 0 {
			cl.attrs = genAttrs(r)
		}
		return cl, n - (b - a) + len(u16(cl.content))
	case x < 78:
		p := r.Intn(n + 1)
		return textCall{kind: "edit", from: p, to: p}, n
	default:
		a, b := rng()
		if r.Intn(12) == 0 {
			b = a // empty style range
		}
		return textCall{kind: "style", from: a, to: b, attrs: genAttrs(r)}, n
	}
}

// genCallSeam generates one json-layer call with an index exactly on a seam (see textSeam) of a
// text of n visible units; bounds are the visible start indices of all nodes.
func genCallSeam(r *rand.Rand, n int, seams []textSeam, bounds []int) (textCall, int) {
	pick := func() int {
		var big []int // seams of insertions that consist of three or more pieces
		for _, s := range seams {
			if s.chain >= 3 {
				big = append(big, s.idx)
			}
		}
		if len(big) > 0 && r.Intn(2) == 0 {
			return big[r.Intn(len(big))]
		}
		return seams[r.Intn(len(seams))].idx
	}
	s := pick()
	span := func() (int, int) {
		switch r.Intn(3) {
		case 0: // starts on the seam
			if s < n {
				return s, s + 1 + r.Intn(min(n-s, 6))
			}
		case 1: // ends on the seam
			if s > 0 {
				return s - 1 - r.Intn(min(s, 6)), s
			}
		}
		o := pick() // both ends on boundaries
		if o == s && len(bounds) > 0 {
			o = bounds[r.Intn(len(bounds))]
		}
		if o < s {
			return o, s
		}
		return s, o
	}
	switch x := r.Intn(100); {
	case x < 45:
		cl := textCall{kind: "edit", from: s, to: s, content: genContent(r)}
		if r.Intn(5) == 0 {
			cl.attrs = genAttrs(r)
		}
		return cl, n + len(u16(cl.content))
	case x < 60:
		a, b := span()
		return textCall{kind: "edit", from: a, to: b}, n - (b - a)
	case x < 72:
		a, b := span()
		cl := textCall{kind: "edit", from: a, to: b, content: genContent(r)}
		return cl, n - (b - a) + len(u16(cl.content))
	default:
		a, b := span()
		return textCall{kind: "style", from: a, to: b, attrs: genAttrs(r)}, n
	}
}

func runText(c *Ctx, inflight bool) error {
	c.stats.Rule = "random 2-4 replica histories over Text.Edit (insert/delete/replace/empty, with and without attributes, " +
		"BMP and supplementary-plane characters, cuts inside surrogate pairs) and Text.Style (+ undo of a Style, which yields " +
		"attribute removal operations) with a simulated server log (server order, no echo), wire round trip per delivery, " +
		"offline stretches, GC off; every operation of every change is replayed by the Lean model on the clone and on the root " +
		"of the receiving replica and Marshal(), the node structure (ids, lengths, tombstones, insPrev, attribute registers), " +
		"length/String() and CreateRange are compared; REBUILT texts: failing updates (callback returns an error / panics / " +
		"misuses the json layer after 0-2 text calls; the clone is dropped and re-created by Root.DeepCopy -> Text.DeepCopy, model: " +
		"clone := root), snapshot feeds (a late attacher is created from SnapshotToBytes(src root) through the wire ChangePack and " +
		"ApplyChangePack, model: root and clone := src root; it then syncs and edits like everybody else; a change-fed twin shadows " +
		"it: Marshal, node structure and element metadata must stay equal), the Text replaced by a new one at quiescence (the old one " +
		"stays as a removed element that DeepCopy and the snapshot must carry); Edit/Style indices are aimed exactly at seams between " +
		"pieces of one insertion (incl. insertions of >= 3 pieces), mostly right after a rebuild; " +
		"non-trivial = some replica applied a remote change while holding " +
		"unpushed local changes (a concurrent pair); distinct by trace hash"
	if inflight {
		c.stats.Rule += "; engine textif additionally splits syncs into request/response halves with local updates in between"
	}
	gc := textGCArg()
	if gc {
		c.stats.Rule += "; gc=1 (C03): every response carries time.MinVersionVector over the vectors the replicas reported with their " +
			"last requests and ApplyChangePack garbage-collects with it (GC <rep> <vv>: the model purges clone and root); a silent " +
			"GC-off twin world executes the same API lines and every replica's Marshal() is compared after every line; one trace in " +
			"five is malformed: Document.GarbageCollect is called with a too-large vector (GX), the oracles are off and the model has " +
			"to predict the failing operation"
	}
	newWorld := func() *textWorld {
		w := &textWorld{c: c, reps: map[string]*textReplica{}, gc: gc, gcTrace: gc}
		if gc {
			w.twinOff = &textWorld{c: silentCtx(c), reps: map[string]*textReplica{}, gcTrace: true}
		}
		return w
	}
	// run executes one API line in the GC world and in the GC-off twin and compares them
	run := func(w *textWorld, l string) error {
		if err := w.exec(l); err != nil {
			return err
		}
		if w.twinOff != nil {
			if err := w.twinOff.exec(l); err != nil {
				return err
			}
			w.compareWorlds(l)
		}
		return nil
	}
	if c.Replay != nil {
		w := newWorld()
		for _, l := range c.Replay {
			f := strings.Fields(l)
			switch f[0] {
			case "T":
				c.Trace(strings.TrimSpace(strings.TrimPrefix(l, "T")))
				w = newWorld()
			case "R", "U", "S", "Z", "Q", "SS", "SA", "F", "SN", "GX":
				if c.traceID == "" {
					c.Trace("replay")
				}
				c.Cmd("%s", l)
				if err := run(w, l); err != nil {
					return err
				}
			default:
				// OP/RC/SNAP/M/MC/D/DC/L/P lines are outputs of the execution; they are regenerated, not replayed
			}
		}
		return nil
	}
	r := c.Rng
	for i := 0; i < c.N; i++ {
		c.Trace(fmt.Sprintf("%s-%d-%d", c.stats.Engine, c.Seed, i))
		w := newWorld()
		do := func(format string, a ...any) error {
			l := fmt.Sprintf(format, a...)
			c.Cmd("%s", l)
			return run(w, l)
		}
		malformed := gc && r.Intn(5) == 0 // this trace will use a too-large GC vector
		n := 2 + r.Intn(3)
		var names []string
		syncP := map[string]int{}
		boost := map[string]int{} // replica -> coming updates that aim at seams (just rebuilt)
		for k := 0; k < n; k++ {
			if err := do("R r%d %s", k, ActorNat(mkActor(r, k))); err != nil {
				return err
			}
			names = append(names, fmt.Sprintf("r%d", k))
			syncP[names[k]] = []int{4, 12, 30, 45}[r.Intn(4)] // small = long offline stretches
		}
		if err := do("U r0 new"); err != nil {
			return err
		}
		if r.Intn(3) > 0 { // some initial content everybody shares
			if err := do("U r0 %s", encCall(textCall{kind: "edit", content: genContent(r) + genContent(r)})); err != nil {
				return err
			}
		}
		for k := 0; k < n; k++ {
			if err := do("S r%d", k); err != nil {
				return err
			}
		}
		// genCalls generates nc calls against the clone of rep; the first one aims at a seam with
		// probability pSeam/100 (when the text has one)
		genCalls := func(rep *textReplica, nc int, pSeam int, pStyle int) []string {
			ln := 0
			ct := cloneText(rep.doc)
			if ct != nil {
				ln = ct.TreeByIndex().Len()
			}
			var parts []string
			for j := 0; j < nc; j++ {
				var cl textCall
				seams, bounds := []textSeam(nil), []int(nil)
				if j == 0 {
					seams, bounds = textSeams(ct)
				}
				switch {
				case len(seams) > 0 && r.Intn(100) < pSeam:
					cl, ln = genCallSeam(r, ln, seams, bounds)
				case ln > 0 && r.Intn(100) < pStyle:
					a := r.Intn(ln)
					cl = textCall{kind: "style", from: a, to: a + 1 + r.Intn(min(ln-a, 8)), attrs: genAttrs(r)}
				default:
					cl, ln = genCall(r, ln)
				}
				parts = append(parts, encCall(cl))
			}
			return parts
		}
		steps := 8 + r.Intn(30)
		replaced := false
		for s := 0; s < steps; s++ {
			name := names[r.Intn(len(names))]
			var hot []string
			for _, nm := range names {
				if boost[nm] > 0 {
					hot = append(hot, nm)
				}
			}
			if len(hot) > 0 && r.Intn(2) == 0 { // stay on a replica whose text has just been rebuilt
				name = hot[r.Intn(len(hot))]
			}
			rep := w.reps[name]
			if rep == nil { // a panic was reported while creating it
				break
			}
			sp := syncP[name]
			if boost[name] > 0 {
				sp = min(sp, 12) // edit first, sync later
			}
			x := r.Intn(100)
			switch {
			case malformed && s >= 3 && r.Intn(8) == 0:
				if err := do("GX %s %s", name, ShowVV(w.maxVV())); err != nil {
					return err
				}
			case inflight && rep.inflight != nil && x < 40:
				if err := do("SA %s", name); err != nil {
					return err
				}
			case inflight && rep.inflight == nil && x < sp/2+5:
				if err := do("SS %s", name); err != nil {
					return err
				}
			case x < sp:
				if err := do("S %s", name); err != nil {
					return err
				}
			case x < sp+5:
				if err := do("Z %s", name); err != nil {
					return err
				}
			case x < sp+14: // failing update, then the clone is rebuilt
				kind := []string{"err", "err", "panic", "misuse"}[r.Intn(4)]
				parts := genCalls(rep, r.Intn(3), 30, 35)
				if err := do("%s", strings.TrimSpace(fmt.Sprintf("F %s %s %s", name, kind, strings.Join(parts, " ")))); err != nil {
					return err
				}
				boost[name] = 3
			case x < sp+18 && len(names) < n+2: // a late attacher is fed by a snapshot
				k := len(names)
				dst := fmt.Sprintf("r%d", k)
				if r.Intn(3) == 0 { // a removed style right before: Style + undo
					ln := 0
					if ct := cloneText(rep.doc); ct != nil {
						ln = ct.TreeByIndex().Len()
					}
					if ln > 0 {
						a := r.Intn(ln)
						cl := textCall{kind: "style", from: a, to: a + 1 + r.Intn(ln-a), attrs: genAttrs(r)}
						if err := do("U %s %s", name, encCall(cl)); err != nil {
							return err
						}
						if err := do("Z %s", name); err != nil {
							return err
						}
					}
				}
				if err := do("SN %s %s %s", name, dst, ActorNat(mkActor(r, k))); err != nil {
					return err
				}
				names = append(names, dst)
				syncP[dst] = []int{4, 12, 30, 45}[r.Intn(4)]
				boost[dst] = 3
			case x >= sp+18 && x < sp+19 && !replaced:
				// the Text is replaced by a new one while everybody is quiescent (operations on a replaced
				// text are outside the model); the old one stays in the object as a removed element that
				// DeepCopy and the snapshot have to carry
				replaced = true
				for round := 0; round < 2; round++ {
					for _, nm := range names {
						if err := do("S %s", nm); err != nil {
							return err
						}
					}
				}
				if err := do("U %s new", name); err != nil {
					return err
				}
				if r.Intn(2) == 0 {
					if err := do("U %s %s", name, encCall(textCall{kind: "edit", content: genContent(r) + genContent(r)})); err != nil {
						return err
					}
				}
				for _, nm := range append([]string{name}, names...) { // the author pushes first
					if err := do("S %s", nm); err != nil {
						return err
					}
				}
				c.Count("trace:text-replaced")
			default:
				nc := 1
				if r.Intn(5) == 0 && !malformed {
					nc = 2 + r.Intn(2)
				}
				pSeam := 20
				if boost[name] > 0 {
					pSeam = 80
					boost[name]--
				}
				if err := do("U %s %s", name, strings.Join(genCalls(rep, nc, pSeam, 0), " ")); err != nil {
					return err
				}
			}
			if w.dead {
				break
			}
		}
		for round := 0; round < 2; round++ {
			for _, nm := range names {
				if err := do("S %s", nm); err != nil {
					return err
				}
			}
		}
		if err := do("Q"); err != nil {
			return err
		}
	}
	return nil
}
