package main

// engine `treelist`: correspondence of pkg/treelist (the order-statistic LLRB tree of
// RGATreeList / Array) with Model/TreeList.lean, plus the sequential-specification
// oracle (C07, tree half).  After every command both sides print
//   <result> | <Tree.ToTestString()> | <shape: id:weight:count:colour> | len=<Len()>
// The shape is read through read-only reflection (the package exports no accessor).

import (
	"fmt"
	"reflect"
	"strconv"
	"strings"

	"github.com/yorkie-team/yorkie/pkg/treelist"
)

func init() { register("treelist", runTreeList) }

type tval struct {
	id      int
	removed bool
}

func (v *tval) IsRemoved() bool { return v.removed }
func (v *tval) String() string  { return strconv.Itoa(v.id) }

type refT struct {
	id int
	rm bool
}

type tlSt struct {
	tree  *treelist.Tree[*tval]
	nodes map[int]*treelist.Node[*tval]
	ref   []refT       // sequential specification: structural sequence of (id, removed)
	dirty map[int]bool // values whose IsRemoved() changed without UpdateWeight
	dead  bool         // a call panicked: the rest of the trace is skipped
	// non-triviality statistics
	structural, lookups, tombAtLookup, rotations int
}

func newTLSt() *tlSt { return &tlSt{nodes: map[int]*treelist.Node[*tval]{}, dirty: map[int]bool{}} }

func b01(b bool) int {
	if b {
		return 1
	}
	return 0
}

// tlWalk prints the shape and returns (weight, count, blackHeight, ok-aggregates, ok-colours).
type tlInfo struct {
	live, count, bh int
	aggOK, cntOK    bool
	colOK           bool
}

func tlWalk(n reflect.Value, sb *strings.Builder, inorder *[]refT, parentRed bool) tlInfo {
	if n.IsNil() {
		sb.WriteByte('-')
		return tlInfo{0, 0, 0, true, true, true}
	}
	e := n.Elem()
	red := rfield(e, "isRed").Bool()
	v := rfield(e, "value").Elem()
	id := int(rfield(v, "id").Int())
	rm := rfield(v, "removed").Bool()
	w, c := int(rfield(e, "weight").Int()), int(rfield(e, "count").Int())
	sb.WriteByte('(')
	li := tlWalk(rfield(e, "left"), sb, inorder, red)
	*inorder = append(*inorder, refT{id, rm})
	col := "B"
	if red {
		col = "R"
	}
	fmt.Fprintf(sb, " %d:%d:%d:%s ", id, w, c, col)
	ri := tlWalk(rfield(e, "right"), sb, inorder, red)
	sb.WriteByte(')')
	rightRed := !rfield(e, "right").IsNil() && rfield(rfield(e, "right").Elem(), "isRed").Bool()
	info := tlInfo{
		live:  li.live + 1 - b01(rm) + ri.live,
		count: li.count + 1 + ri.count,
		bh:    li.bh + 1 - b01(red),
	}
	info.aggOK = li.aggOK && ri.aggOK && w == info.live
	info.cntOK = li.cntOK && ri.cntOK && c == info.count
	info.colOK = li.colOK && ri.colOK && li.bh == ri.bh && !rightRed && !(red && parentRed)
	return info
}

func (s *tlSt) pos(id int) int {
	for i, e := range s.ref {
		if e.id == id {
			return i
		}
	}
	return -1
}

func (s *tlSt) liveCount() int {
	n := 0
	for _, e := range s.ref {
		if !e.rm {
			n++
		}
	}
	return n
}

func (s *tlSt) obs(c *Ctx, res string) {
	root := rfield(reflect.ValueOf(s.tree).Elem(), "root")
	var sb strings.Builder
	var got []refT
	info := tlWalk(root, &sb, &got, false)
	c.Obs("%s | %s | %s | len=%d", res, s.tree.ToTestString(), sb.String(), s.tree.Len())
	if len(got) != len(s.ref) {
		c.Oracle("in-order has %d nodes, specification %d", len(got), len(s.ref))
	} else {
		for i := range got {
			if got[i] != s.ref[i] {
				c.Oracle("in-order[%d]=%v, specification %v", i, got[i], s.ref[i])
				break
			}
		}
	}
	if !info.cntOK {
		c.Oracle("a cached count is not the number of nodes of its subtree")
	}
	if !info.colOK || (!root.IsNil() && rfield(root.Elem(), "isRed").Bool()) {
		c.Oracle("red-black invariant broken (Delete relies on it not to lose nodes)")
	}
	if len(s.dirty) == 0 {
		if !info.aggOK {
			c.Oracle("a cached weight is not the number of live nodes of its subtree")
		}
		if s.tree.Len() != s.liveCount() {
			c.Oracle("Len()=%d, live nodes %d", s.tree.Len(), s.liveCount())
		}
	}
}

func (s *tlSt) exec(c *Ctx, line string) {
	t := strings.Fields(line)
	if s.dead {
		c.Obs("dead")
		return
	}
	defer func() {
		if r := recover(); r != nil {
			s.dead = true
			c.Obs("panic")
			c.Oracle("%s panicked: %v", line, r)
		}
	}()
	num := func(i int) int {
		v, _ := strconv.Atoi(t[i])
		return v
	}
	switch t[0] {
	case "new":
		if s.tree != nil {
			c.Obs("precond")
			return
		}
		id, rm := num(1), t[2] == "1"
		nd := treelist.NewNode(&tval{id: id, removed: rm})
		s.tree = treelist.NewTree(nd)
		s.nodes[id] = nd
		s.ref = []refT{{id, rm}}
		s.obs(c, "ok")
	case "ins":
		prev, id, rm := num(1), num(2), t[3] == "1"
		if s.tree == nil || s.nodes[prev] == nil || s.nodes[id] != nil {
			c.Obs("precond")
			return
		}
		nd := treelist.NewNode(&tval{id: id, removed: rm})
		s.tree.InsertAfter(s.nodes[prev], nd)
		s.nodes[id] = nd
		p := s.pos(prev)
		s.ref = append(s.ref[:p+1], append([]refT{{id, rm}}, s.ref[p+1:]...)...)
		s.structural++
		s.obs(c, "ok")
	case "del":
		x := num(1)
		if s.tree == nil || s.nodes[x] == nil {
			c.Obs("precond")
			return
		}
		s.tree.Delete(s.nodes[x])
		delete(s.nodes, x)
		p := s.pos(x)
		s.ref = append(s.ref[:p], s.ref[p+1:]...)
		delete(s.dirty, x)
		s.structural++
		s.obs(c, "ok")
	case "find":
		if s.tree == nil {
			s.tree = treelist.NewTree[*tval](nil)
		}
		i := num(1)
		res := func() (res string) {
			defer func() {
				if r := recover(); r != nil {
					res = "panic"
				}
			}()
			nd, err := s.tree.Find(i)
			if err != nil {
				return "err"
			}
			return strconv.Itoa(nd.Value().id)
		}()
		if len(s.dirty) == 0 {
			want, k := "err", 0
			for _, e := range s.ref {
				if !e.rm {
					if k == i {
						want = strconv.Itoa(e.id)
						break
					}
					k++
				}
			}
			if res != want {
				c.Oracle("Find(%d)=%s, specification (i-th live node) %s", i, res, want)
			}
			s.lookups++
			if s.liveCount() < len(s.ref)-1 {
				s.tombAtLookup++
			}
		}
		s.obs(c, res)
	case "mark":
		x, b := num(1), t[2] == "1"
		if nd := s.nodes[x]; nd != nil {
			if nd.Value().removed != b {
				s.dirty[x] = true
			}
			nd.Value().removed = b
			s.ref[s.pos(x)].rm = b
		}
		if s.tree == nil {
			c.Obs("precond")
			return
		}
		s.obs(c, "ok")
	case "updw":
		x := num(1)
		if s.tree == nil {
			c.Obs("precond")
			return
		}
		if nd := s.nodes[x]; nd != nil {
			s.tree.UpdateWeight(nd)
			// UpdateWeight recomputes every weight on the root path of x from the children:
			// exact again iff no other stale value remains below that path; keep it simple
			// and sound: only a singleton dirty set is cleared.
			if len(s.dirty) == 1 && s.dirty[x] {
				delete(s.dirty, x)
			}
		}
		s.obs(c, "ok")
	default:
		c.Obs("bad-op")
	}
}

func (s *tlSt) execQuiet(line string) {
	q := &Ctx{cmds: nullWriter(), impl: nullWriter(), orc: nullWriter()}
	q.stats.Dist = map[string]int{}
	s.exec(q, line)
}

func (s *tlSt) validOps(nextID int, raw bool) []string {
	var ops []string
	for _, e := range s.ref {
		ops = append(ops, fmt.Sprintf("ins %d %d 0", e.id, nextID), fmt.Sprintf("ins %d %d 1", e.id, nextID))
		if len(s.ref) > 1 {
			ops = append(ops, fmt.Sprintf("del %d", e.id))
		}
		if raw {
			ops = append(ops, fmt.Sprintf("mark %d %d", e.id, 1-b01(e.rm)), fmt.Sprintf("updw %d", e.id))
		} else {
			ops = append(ops, fmt.Sprintf("mark %d %d;updw %d", e.id, 1-b01(e.rm), e.id))
		}
	}
	for i := 0; i <= s.liveCount(); i++ {
		ops = append(ops, fmt.Sprintf("find %d", i))
	}
	return ops
}

func runTreeList(c *Ctx) error {
	c.stats.Rule = "op sequences on a real treelist.Tree[*tval]; non-trivial = at least 3 structural ops (InsertAfter/Delete), " +
		"at least 2 Find lookups checked against the i-th-live-node specification, at least one with >=2 tombstones present; distinct by trace hash"
	if c.Replay != nil {
		s := newTLSt()
		for _, l := range c.Replay {
			if strings.HasPrefix(l, "T ") {
				c.Trace(strings.TrimPrefix(l, "T "))
				s = newTLSt()
				continue
			}
			c.Cmd("%s", l)
			s.exec(c, l)
		}
		return nil
	}
	run := func(s *tlSt, l string) {
		for _, part := range strings.Split(l, ";") {
			c.Cmd("%s", part)
			s.exec(c, part)
		}
	}
	finish := func(s *tlSt) {
		if s.structural >= 3 && s.lookups >= 2 && s.tombAtLookup >= 1 {
			c.Nontrivial()
		}
	}
	worker := int(c.Seed % 1000)
	depth := 3
	if c.Tier == "thorough" {
		depth = 4
	}
	bases := [][]string{
		{"new 1 1", "ins 1 2 0", "ins 2 3 0"},                                                     // dummy head (removed) + 2 live
		{"new 1 1", "ins 1 2 0", "ins 1 3 1", "ins 3 4 0", "ins 2 5 0"},                           // 5 nodes, one dead position in the middle
		{"new 1 1", "ins 1 2 0", "ins 2 3 0", "ins 3 4 0", "ins 4 5 0", "ins 5 6 1", "ins 6 7 0"}, // 7 nodes appended: 3 levels
	}
	if worker < 8 {
		c.stats.Exhaustive = true
		c.stats.ExhaustiveScope = fmt.Sprintf("treelist: all sequences of %d ops (InsertAfter live/removed after every node, Delete of every node, "+
			"Find 0..live, toggle IsRemoved+UpdateWeight of every node; raw variant: toggle and UpdateWeight as separate ops) "+
			"from %d base trees of 3/5/7 nodes (thorough: 4 ops from the two smaller base trees without raw ops, 3 elsewhere); share %d/8 of the first-op index", depth, len(bases), worker)
		for bi, base := range bases {
			for _, raw := range []bool{false, true} {
				depth := 3
				if c.Tier == "thorough" && bi < 2 && !raw {
					depth = 4
				}
				count := 0
				var rec func(prefix []string)
				rec = func(prefix []string) {
					s := newTLSt()
					for _, l := range base {
						s.execQuiet(l)
					}
					for _, l := range prefix {
						for _, part := range strings.Split(l, ";") {
							s.execQuiet(part)
						}
					}
					if len(prefix) == depth {
						c.Trace(fmt.Sprintf("treelist-exh-%d-b%d-%t-%d", worker, bi, raw, count))
						count++
						s2 := newTLSt()
						for _, l := range base {
							run(s2, l)
						}
						for _, l := range prefix {
							run(s2, l)
						}
						finish(s2)
						c.Count("exhaustive-traces")
						return
					}
					ops := s.validOps(100+len(prefix), raw)
					for i, op := range ops {
						if len(prefix) == 0 && i%8 != worker {
							continue
						}
						if raw && len(prefix) == 0 && !strings.HasPrefix(op, "mark") {
							continue
						}
						rec(append(append([]string{}, prefix...), op))
					}
				}
				rec(nil)
			}
		}
	}

	r := c.Rng
	for i := 0; i < c.N; i++ {
		raw := i%5 == 4
		kind := "proto"
		if raw {
			kind = "raw"
		}
		c.Trace(fmt.Sprintf("treelist-%s-%d-%d", kind, c.Seed, i))
		s := newTLSt()
		next := 1
		run(s, "new 1 1") // RGATreeList's dummy head is a removed element
		next++
		steps := 15 + r.Intn(80)
		maxNodes := 4 + r.Intn(40)
		pick := func() int { return s.ref[r.Intn(len(s.ref))].id }
		for k := 0; k < steps; k++ {
			x := r.Intn(100)
			switch {
			case x < 35 && len(s.ref) < maxNodes:
				prev := pick()
				if r.Intn(3) == 0 {
					prev = s.ref[len(s.ref)-1].id // append, the common case
				}
				run(s, fmt.Sprintf("ins %d %d %d", prev, next, b01(r.Intn(5) == 0)))
				next++
				c.Count("op:insertAfter")
			case x < 55 && len(s.ref) > 1:
				run(s, fmt.Sprintf("del %d", s.ref[1+r.Intn(len(s.ref)-1)].id))
				c.Count("op:delete")
			case x < 75:
				run(s, fmt.Sprintf("find %d", r.Intn(s.liveCount()+2)))
				c.Count("op:find")
			default:
				id := pick()
				e := s.ref[s.pos(id)]
				run(s, fmt.Sprintf("mark %d %d", id, 1-b01(e.rm)))
				if !raw || r.Intn(2) == 0 {
					run(s, fmt.Sprintf("updw %d", id))
				}
				c.Count("op:toggleRemoved+updateWeight")
			}
		}
		finish(s)
	}
	return nil
}
