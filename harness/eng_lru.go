package main

// engine `lru`: pkg/cache.LRU (sharded) and pkg/cache.LRUWithExpires against
// Model/Lru.lean (C20, secondary part).
//
//	NEW kind size   ex      = LRUWithExpires(size, ttl 1h): one LRU, fully deterministic -> diffed
//	                shbig   = sharded LRU whose shards can hold every key used -> no eviction, diffed
//	                shsmall = sharded LRU with evictions; the shard of a key depends on a random
//	                          per-process hash seed, so hit/miss is not replayable: lines print `-`
//	A k v | G k | K k (Peek) | C k (Contains) | D k (Remove) | PG (Purge) | LEN
//
//	WIRE <AuthWebhook|SessionCount> <ttl ms>
//	                builds the backend's cache manager (server/backend/cache.New) the way backend.New
//	                does, with the named cache's TTL option set to <ttl> and the other expiring cache's
//	                to one hour, and checks that each cache expires by ITS OWN option: the entry of
//	                the named cache is served right after the Add, is gone within 25 x ttl, and the
//	                entry of the other cache is still served then. Wall-clock behaviour is not in the
//	                model (the line is answered `WIRE done` by both sides): oracle only; the static
//	                counterpart is Props/C20Wiring.lean over Generated/CacheWiring.lean.
//
// Oracle in every mode (lru_shard_spec): a Get/Peek hit returns the value of the last Add
// of that key not followed by Remove/Purge; Contains/hit never for a removed key.

import (
	"fmt"
	"strconv"
	"strings"
	"time"

	"github.com/yorkie-team/yorkie/api/types"
	"github.com/yorkie-team/yorkie/pkg/cache"
	pkgtypes "github.com/yorkie-team/yorkie/pkg/types"
	bcache "github.com/yorkie-team/yorkie/server/backend/cache"
)

func init() { register("lru", runLru) }

type lruAPI interface {
	Get(int) (int, bool)
	Add(int, int) bool
	Contains(int) bool
	Peek(int) (int, bool)
	Remove(int) bool
	Purge()
	Len() int
}

type lruSt struct {
	c          *Ctx
	l          lruAPI
	det        bool
	ref        map[int]int
	hits, miss int
	evicted    bool
}

// wire checks that the caches of the backend's cache manager expire by their own TTL option.
func wire(c *Ctx, line string) {
	t := strings.Fields(line)
	if len(t) != 3 || (t[1] != "AuthWebhook" && t[1] != "SessionCount") {
		c.Obs("bad-op")
		return
	}
	ms, _ := strconv.Atoi(t[2])
	if ms < 20 || ms > 2000 {
		c.Obs("bad-op")
		return
	}
	ttl := time.Duration(ms) * time.Millisecond
	opts := bcache.Options{AuthWebhookCacheSize: 8, AuthWebhookCacheTTL: time.Hour, SnapshotCacheSize: 8,
		ChannelSessionCountCacheSize: 8, ChannelSessionCountCacheTTL: time.Hour}
	other := "SessionCount"
	if t[1] == "AuthWebhook" {
		opts.AuthWebhookCacheTTL = ttl
	} else {
		opts.ChannelSessionCountCacheTTL = ttl
		other = "AuthWebhook"
	}
	m, err := bcache.New(opts)
	c.Obs("WIRE done")
	if err != nil {
		c.Oracle("cache.New failed: %v", err)
		return
	}
	get := func(which string) bool {
		if which == "AuthWebhook" {
			_, ok := m.AuthWebhook.Get("k")
			return ok
		}
		_, ok := m.SessionCount.Get("k")
		return ok
	}
	t0 := time.Now()
	m.AuthWebhook.Add("k", pkgtypes.Pair[int, *types.AuthWebhookResponse]{First: 200})
	m.SessionCount.Add("k", 3)
	// served right after the Add (only judged when this goroutine was not descheduled past ttl/2)
	h1, h2 := get(t[1]), get(other)
	if early := time.Since(t0); early < ttl/2 && (!h1 || !h2) {
		c.Oracle("cache manager: entry not served %s after the Add (%s hit=%v, %s hit=%v)", early, t[1], h1, other, h2)
		return
	}
	bound := 25 * ttl
	for get(t[1]) {
		if time.Since(t0) > bound {
			c.Oracle("cache manager built with %s TTL option = %s (the other expiring cache: 1h): the %s cache still serves its entry after %s – "+
				"it does not expire by its own TTL option (built from another cache's?)", t[1], ttl, t[1], time.Since(t0).Round(time.Millisecond))
			return
		}
		time.Sleep(ttl / 10)
	}
	if age := time.Since(t0); age < ttl-ttl/10 {
		c.Oracle("cache manager: the %s entry was gone after %s, before its TTL %s", t[1], age, ttl)
	}
	c.Count("wire:" + t[1] + ":expired-by-own-ttl")
	if !get(other) {
		c.Oracle("cache manager built with %s TTL option = %s and %s TTL option = 1h: the %s entry expired together with the %s entry – "+
			"the %s cache does not use its own TTL option", t[1], ttl, other, other, t[1], other)
		return
	}
	c.Count("wire:" + other + ":alive-by-own-ttl")
	c.Nontrivial()
}

func (s *lruSt) exec(line string) {
	t := strings.Fields(line)
	c := s.c
	n := func(i int) int { v, _ := strconv.Atoi(t[i]); return v }
	out := func(tag, o string) {
		if s.det {
			c.Obs("%s", o)
		} else {
			c.Obs("%s -", tag)
		}
	}
	hit := func(tag string, k, v int, ok bool) {
		if ok {
			s.hits++
			if want, in := s.ref[k]; !in || want != v {
				c.Oracle("%s %d returned %d, last Add was %v (present=%v)", tag, k, v, want, in)
			}
			out(tag, fmt.Sprintf("%s hit %d", tag, v))
		} else {
			if _, in := s.ref[k]; in {
				s.miss++
			}
			out(tag, tag+" miss")
		}
	}
	switch t[0] {
	case "NEW":
		s.ref = map[int]int{}
		s.det = t[1] != "shsmall"
		var err error
		if t[1] == "ex" {
			s.l, err = cache.NewLRUWithExpires[int, int](n(2), time.Hour, "verif")
		} else {
			s.l, err = cache.NewLRU[int, int](n(2), "verif")
		}
		if err != nil {
			c.Obs("NEW err")
			return
		}
		c.Obs("NEW")
	case "A":
		ev := s.l.Add(n(1), n(2))
		s.ref[n(1)] = n(2)
		if ev {
			s.evicted = true
		}
		out("A", fmt.Sprintf("A %v", ev))
	case "G":
		v, ok := s.l.Get(n(1))
		hit("G", n(1), v, ok)
	case "K":
		v, ok := s.l.Peek(n(1))
		hit("K", n(1), v, ok)
	case "C":
		ok := s.l.Contains(n(1))
		if _, in := s.ref[n(1)]; ok && !in {
			c.Oracle("Contains(%d) true for a key never added / removed", n(1))
		}
		out("C", fmt.Sprintf("C %v", ok))
	case "D":
		ok := s.l.Remove(n(1))
		delete(s.ref, n(1))
		out("D", fmt.Sprintf("D %v", ok))
	case "PG":
		s.l.Purge()
		s.ref = map[int]int{}
		c.Obs("PG")
	case "LEN":
		ln := s.l.Len()
		if ln > len(s.ref) {
			c.Oracle("Len()=%d exceeds the number of live keys %d", ln, len(s.ref))
		}
		out("LEN", fmt.Sprintf("LEN %d", ln))
	default:
		c.Obs("bad-op")
	}
}

func runLru(c *Ctx) error {
	c.stats.Rule = "random Add/Get/Peek/Contains/Remove/Purge programs on cache.LRU and cache.LRUWithExpires (+ per run two WIRE traces: " +
		"the backend cache manager built with distinct TTL options, each expiring cache must expire by its own); " +
		"non-trivial = at least one hit, one miss of a key that was added (eviction) or one eviction reported by Add; distinct by trace hash"
	if c.Replay != nil {
		s := &lruSt{c: c}
		for _, l := range c.Replay {
			if strings.HasPrefix(l, "T ") {
				c.Trace(strings.TrimPrefix(l, "T "))
				s = &lruSt{c: c}
				continue
			}
			c.Cmd("%s", l)
			if strings.HasPrefix(l, "WIRE") {
				wire(c, l)
				continue
			}
			if s.l == nil && !strings.HasPrefix(l, "NEW") {
				s.exec("NEW ex 0")
			}
			s.exec(l)
		}
		return nil
	}
	r := c.Rng
	for i := 0; i < c.N; i++ {
		c.Trace(fmt.Sprintf("lru-%d-%d", c.Seed, i))
		s := &lruSt{c: c}
		do := func(l string) {
			c.Cmd("%s", l)
			s.exec(l)
		}
		const keys = 12
		switch r.Intn(3) {
		case 0:
			do(fmt.Sprintf("NEW ex %d", []int{0, 1, 2, 3, 5, 8}[r.Intn(6)]))
		case 1:
			do(fmt.Sprintf("NEW shbig %d", 16*keys))
		default:
			do(fmt.Sprintf("NEW shsmall %d", []int{1, 16, 32, 48}[r.Intn(4)]))
		}
		val := 0
		for k := 10 + r.Intn(50); k > 0; k-- {
			key := r.Intn(keys)
			switch x := r.Intn(100); {
			case x < 35:
				val++
				do(fmt.Sprintf("A %d %d", key, val))
			case x < 65:
				do(fmt.Sprintf("G %d", key))
			case x < 75:
				do(fmt.Sprintf("K %d", key))
			case x < 82:
				do(fmt.Sprintf("C %d", key))
			case x < 92:
				do(fmt.Sprintf("D %d", key))
			case x < 94:
				do("PG")
			default:
				do("LEN")
			}
		}
		if s.hits > 0 && (s.miss > 0 || s.evicted) {
			c.Nontrivial()
		}
	}
	// the cache manager's wiring: each expiring cache by its own TTL option (twice per run: every
	// construction leaves the janitor goroutine of an expirable LRU behind)
	for k, which := range []string{"SessionCount", "AuthWebhook"} {
		c.Trace(fmt.Sprintf("lru-wire-%d-%d", c.Seed, k))
		l := fmt.Sprintf("WIRE %s %d", which, 100+20*r.Intn(4))
		c.Cmd("%s", l)
		wire(c, l)
	}
	return nil
}
