package main

// engine `lru`: pkg/cache.LRU (sharded) and pkg/cache.LRUWithExpires against
// Model/Lru.lean (C20, secondary part).
//
//	NEW kind size   ex      = LRUWithExpires(size, ttl 1h): one LRU, fully deterministic -> diffed
//	                shbig   = sharded LRU whose shards can hold every key used -> no eviction, diffed
//	                shsmall = sharded LRU with evictions; the shard of a key depends on a random
//	                          per-process hash seed, so hit/miss is not replayable: lines print `-`
//	A k v | G k | K k (Peek) | C k (Contains) | D k (Remove) | PG (Purge) | LEN
//
// Oracle in every mode (lru_shard_spec): a Get/Peek hit returns the value of the last Add
// of that key not followed by Remove/Purge; Contains/hit never for a removed key.

import (
	"fmt"
	"strconv"
	"strings"
	"time"

	"github.com/yorkie-team/yorkie/pkg/cache"
)

func init() { register("lru", runLru) }

type lruAPI interface {
	Get(int) (int, bool)
	Add(int, int) bool
	Contains(int) bool
	Peek(int) (int, bool)
	Remove(int) bool
	Purge()
	Len() int
}

type lruSt struct {
	c          *Ctx
	l          lruAPI
	det        bool
	ref        map[int]int
	hits, miss int
	evicted    bool
}

func (s *lruSt) exec(line string) {
	t := strings.Fields(line)
	c := s.c
	n := func(i int) int { v, _ := strconv.Atoi(t[i]); return v }
	out := func(tag, o string) {
		if s.det {
			c.Obs("%s", o)
		} else {
			c.Obs("%s -", tag)
		}
	}
	hit := func(tag string, k, v int, ok bool) {
		if ok {
			s.hits++
			if want, in := s.ref[k]; !in || want != v {
				c.Oracle("%s %d returned %d, last Add was %v (present=%v)", tag, k, v, want, in)
			}
			out(tag, fmt.Sprintf("%s hit %d", tag, v))
		} else {
			if _, in := s.ref[k]; in {
				s.miss++
			}
			out(tag, tag+" miss")
		}
	}
	switch t[0] {
	case "NEW":
		s.ref = map[int]int{}
		s.det = t[1] != "shsmall"
		var err error
		if t[1] == "ex" {
			s.l, err = cache.NewLRUWithExpires[int, int](n(2), time.Hour, "verif")
		} else {
			s.l, err = cache.NewLRU[int, int](n(2), "verif")
		}
		if err != nil {
			c.Obs("NEW err")
			return
		}
		c.Obs("NEW")
	case "A":
		ev := s.l.Add(n(1), n(2))
		s.ref[n(1)] = n(2)
		if ev {
			s.evicted = true
		}
		out("A", fmt.Sprintf("A %v", ev))
	case "G":
		v, ok := s.l.Get(n(1))
		hit("G", n(1), v, ok)
	case "K":
		v, ok := s.l.Peek(n(1))
		hit("K", n(1), v, ok)
	case "C":
		ok := s.l.Contains(n(1))
		if _, in := s.ref[n(1)]; ok && !in {
			c.Oracle("Contains(%d) true for a key never added / removed", n(1))
		}
		out("C", fmt.Sprintf("C %v", ok))
	case "D":
		ok := s.l.Remove(n(1))
		delete(s.ref, n(1))
		out("D", fmt.Sprintf("D %v", ok))
	case "PG":
		s.l.Purge()
		s.ref = map[int]int{}
		c.Obs("PG")
	case "LEN":
		ln := s.l.Len()
		if ln > len(s.ref) {
			c.Oracle("Len()=%d exceeds the number of live keys %d", ln, len(s.ref))
		}
		out("LEN", fmt.Sprintf("LEN %d", ln))
	default:
		c.Obs("bad-op")
	}
}

func runLru(c *Ctx) error {
	c.stats.Rule = "random Add/Get/Peek/Contains/Remove/Purge programs on cache.LRU and cache.LRUWithExpires; " +
		"non-trivial = at least one hit, one miss of a key that was added (eviction) or one eviction reported by Add; distinct by trace hash"
	if c.Replay != nil {
		s := &lruSt{c: c}
		for _, l := range c.Replay {
			if strings.HasPrefix(l, "T ") {
				c.Trace(strings.TrimPrefix(l, "T "))
				s = &lruSt{c: c}
				continue
			}
			c.Cmd("%s", l)
			if s.l == nil && !strings.HasPrefix(l, "NEW") {
				s.exec("NEW ex 0")
			}
			s.exec(l)
		}
		return nil
	}
	r := c.Rng
	for i := 0; i < c.N; i++ {
		c.Trace(fmt.Sprintf("lru-%d-%d", c.Seed, i))
		s := &lruSt{c: c}
		do := func(l string) {
			c.Cmd("%s", l)
			s.exec(l)
		}
		const keys = 12
		switch r.Intn(3) {
		case 0:
			do(fmt.Sprintf("NEW ex %d", []int{0, 1, 2, 3, 5, 8}[r.Intn(6)]))
		case 1:
			do(fmt.Sprintf("NEW shbig %d", 16*keys))
		default:
			do(fmt.Sprintf("NEW shsmall %d", []int{1, 16, 32, 48}[r.Intn(4)]))
		}
		val := 0
		for k := 10 + r.Intn(50); k > 0; k-- {
			key := r.Intn(keys)
			switch x := r.Intn(100); {
			case x < 35:
				val++
				do(fmt.Sprintf("A %d %d", key, val))
			case x < 65:
				do(fmt.Sprintf("G %d", key))
			case x < 75:
				do(fmt.Sprintf("K %d", key))
			case x < 82:
				do(fmt.Sprintf("C %d", key))
			case x < 92:
				do(fmt.Sprintf("D %d", key))
			case x < 94:
				do("PG")
			default:
				do("LEN")
			}
		}
		if s.hits > 0 && (s.miss > 0 || s.evicted) {
			c.Nontrivial()
		}
	}
	return nil
}
