package main

// Structural mutation of protobuf messages (protoreflect), shrinking, and the panic guard
// used by engine `pbfuzz`.

import (
	"fmt"
	"math"
	"math/rand"
	"os"
	"runtime"
	"runtime/debug"
	"sort"
	"strings"
	gotime "time"

	"google.golang.org/protobuf/encoding/prototext"
	"google.golang.org/protobuf/proto"
	"google.golang.org/protobuf/reflect/protoreflect"
)

// mutSite is one place where a message can be mutated.
type mutSite struct {
	kind  string // counter key
	inmem bool   // result is not reachable from wire bytes (nil element of a repeated field)
	apply func(r *rand.Rand)
}

// msgPool holds sub-messages of real messages by full name, to swap bodies.
type msgPool map[protoreflect.FullName][]proto.Message

func (p msgPool) add(m protoreflect.Message, depth int) {
	if depth > 12 {
		return
	}
	n := m.Descriptor().FullName()
	if len(p[n]) < 24 {
		p[n] = append(p[n], proto.Clone(m.Interface()))
	}
	m.Range(func(fd protoreflect.FieldDescriptor, v protoreflect.Value) bool {
		switch {
		case fd.IsMap():
			if fd.MapValue().Message() != nil {
				v.Map().Range(func(_ protoreflect.MapKey, mv protoreflect.Value) bool {
					p.add(mv.Message(), depth+1)
					return true
				})
			}
		case fd.IsList():
			if fd.Message() != nil {
				for i := 0; i < v.List().Len(); i++ {
					p.add(v.List().Get(i).Message(), depth+1)
				}
			}
		case fd.Message() != nil:
			p.add(v.Message(), depth+1)
		}
		return true
	})
}

func sortedMapKeys(m protoreflect.Map) []protoreflect.MapKey {
	var ks []protoreflect.MapKey
	m.Range(func(k protoreflect.MapKey, _ protoreflect.Value) bool { ks = append(ks, k); return true })
	sort.Slice(ks, func(i, j int) bool { return ks[i].String() < ks[j].String() })
	return ks
}

var interestingI64 = []int64{0, 1, -1, 2, math.MaxInt32, math.MinInt32, math.MaxInt64, math.MinInt64, 1 << 31, 1 << 40, -(1 << 40), 12, 13}

func scalarMutations(fd protoreflect.FieldDescriptor, cur protoreflect.Value, r *rand.Rand) protoreflect.Value {
	switch fd.Kind() {
	case protoreflect.BoolKind:
		return protoreflect.ValueOfBool(!cur.Bool())
	case protoreflect.EnumKind:
		vals := fd.Enum().Values()
		switch r.Intn(3) {
		case 0:
			return protoreflect.ValueOfEnum(protoreflect.EnumNumber(vals.Len() + r.Intn(100))) // out of range
		case 1:
			return protoreflect.ValueOfEnum(protoreflect.EnumNumber(-1 - r.Intn(5)))
		}
		return protoreflect.ValueOfEnum(vals.Get(r.Intn(vals.Len())).Number())
	case protoreflect.Int32Kind, protoreflect.Sint32Kind, protoreflect.Sfixed32Kind:
		x := interestingI64[r.Intn(len(interestingI64))]
		if r.Intn(3) == 0 {
			x = int64(cur.Int()) + int64(r.Intn(5)-2)
		}
		return protoreflect.ValueOfInt32(int32(x))
	case protoreflect.Int64Kind, protoreflect.Sint64Kind, protoreflect.Sfixed64Kind:
		x := interestingI64[r.Intn(len(interestingI64))]
		if r.Intn(3) == 0 {
			x = cur.Int() + int64(r.Intn(5)-2)
		}
		return protoreflect.ValueOfInt64(x)
	case protoreflect.Uint32Kind, protoreflect.Fixed32Kind:
		return protoreflect.ValueOfUint32(uint32(interestingI64[r.Intn(len(interestingI64))]))
	case protoreflect.Uint64Kind, protoreflect.Fixed64Kind:
		return protoreflect.ValueOfUint64(uint64(interestingI64[r.Intn(len(interestingI64))]))
	case protoreflect.StringKind:
		s := cur.String()
		switch r.Intn(6) {
		case 0:
			return protoreflect.ValueOfString("")
		case 1:
			return protoreflect.ValueOfString(s + s + "\U0001F600x")
		case 2:
			if len(s) > 0 {
				return protoreflect.ValueOfString(s[:r.Intn(len(s))])
			}
			return protoreflect.ValueOfString("a")
		case 3:
			return protoreflect.ValueOfString("text") // tree node type keyword
		case 4:
			return protoreflect.ValueOfString("root")
		}
		return protoreflect.ValueOfString(strings.Repeat("z", 1+r.Intn(40)))
	case protoreflect.BytesKind:
		b := append([]byte{}, cur.Bytes()...)
		switch r.Intn(7) {
		case 0:
			return protoreflect.ValueOfBytes(nil)
		case 1:
			if len(b) > 0 {
				b = b[:r.Intn(len(b))]
			}
		case 2:
			b = append(b, byte(r.Intn(256)))
		case 3:
			if len(b) > 0 {
				b[r.Intn(len(b))] ^= 1 << uint(r.Intn(8))
			}
		case 4:
			b = make([]byte, 12) // looks like an actor id
		case 5:
			b = make([]byte, r.Intn(20))
			r.Read(b)
		case 6:
			b = append(b, b...)
		}
		return protoreflect.ValueOfBytes(b)
	case protoreflect.DoubleKind:
		return protoreflect.ValueOfFloat64(math.NaN())
	case protoreflect.FloatKind:
		return protoreflect.ValueOfFloat32(float32(math.Inf(1)))
	}
	return cur
}

// collectSites enumerates mutation sites of m in a deterministic order.
func collectSites(m protoreflect.Message, pool msgPool, out *[]mutSite, depth int) {
	if depth > 14 {
		return
	}
	fds := m.Descriptor().Fields()
	for i := 0; i < fds.Len(); i++ {
		fd := fds.Get(i)
		switch {
		case fd.IsMap():
			mp := m.Get(fd).Map()
			keys := sortedMapKeys(mp)
			mm := m
			ffd := fd
			for _, k := range keys {
				k := k
				*out = append(*out, mutSite{kind: "map:delete-entry", apply: func(*rand.Rand) { mm.Mutable(ffd).Map().Clear(k) }})
				if fd.MapValue().Message() != nil {
					*out = append(*out, mutSite{kind: "map:value-emptied", apply: func(*rand.Rand) {
						mv := mm.Mutable(ffd).Map()
						mv.Set(k, mv.NewValue())
					}})
					if mp.Has(k) {
						collectSites(mp.Get(k).Message(), pool, out, depth+1)
					}
				} else {
					*out = append(*out, mutSite{kind: "map:value-scalar", apply: func(r *rand.Rand) {
						mv := mm.Mutable(ffd).Map()
						if !mv.Has(k) {
							return
						}
						mv.Set(k, scalarMutations(ffd.MapValue(), mv.Get(k), r))
					}})
				}
				if fd.MapKey().Kind() == protoreflect.StringKind {
					*out = append(*out, mutSite{kind: "map:key-rewritten", apply: func(r *rand.Rand) {
						mv := mm.Mutable(ffd).Map()
						if !mv.Has(k) {
							return
						}
						v := mv.Get(k)
						mv.Clear(k)
						ks := k.String()
						nk := []string{"", ks + "A", ks[:len(ks)/2], "AAAA\nAAAAAAAAAAAA", "!!!!", ks + "\n"}[r.Intn(6)]
						mv.Set(protoreflect.ValueOfString(nk).MapKey(), v)
					}})
				}
			}
			*out = append(*out, mutSite{kind: "map:add-entry", apply: func(r *rand.Rand) {
				mv := mm.Mutable(ffd).Map()
				var k protoreflect.MapKey
				if ffd.MapKey().Kind() == protoreflect.StringKind {
					k = protoreflect.ValueOfString([]string{"zz", "", "AAAAAAAAAAAAAAAA", "bold"}[r.Intn(4)]).MapKey()
				} else {
					return
				}
				if ffd.MapValue().Message() != nil {
					mv.Set(k, mv.NewValue())
				} else {
					mv.Set(k, scalarMutations(ffd.MapValue(), mv.NewValue(), r))
				}
			}})
		case fd.IsList():
			l := m.Get(fd).List()
			n := l.Len()
			mm, ffd := m, fd
			if n > 0 {
				*out = append(*out,
					mutSite{kind: "list:clear", apply: func(*rand.Rand) { mm.Clear(ffd) }},
					mutSite{kind: "list:drop-last", apply: func(*rand.Rand) {
						ll := mm.Mutable(ffd).List()
						if ll.Len() > 0 {
							ll.Truncate(ll.Len() - 1)
						}
					}},
					mutSite{kind: "list:drop-first", apply: func(*rand.Rand) {
						ll := mm.Mutable(ffd).List()
						for j := 1; j < ll.Len(); j++ {
							ll.Set(j-1, ll.Get(j))
						}
						if ll.Len() > 0 {
							ll.Truncate(ll.Len() - 1)
						}
					}},
					mutSite{kind: "list:duplicate", apply: func(r *rand.Rand) {
						ll := mm.Mutable(ffd).List()
						if ll.Len() == 0 {
							return
						}
						e := ll.Get(r.Intn(ll.Len()))
						if ffd.Message() != nil {
							e = protoreflect.ValueOfMessage(proto.Clone(e.Message().Interface()).ProtoReflect())
						}
						ll.Append(e)
					}},
					mutSite{kind: "list:swap", apply: func(r *rand.Rand) {
						ll := mm.Mutable(ffd).List()
						if ll.Len() < 2 {
							return
						}
						a, b := r.Intn(ll.Len()), r.Intn(ll.Len())
						va, vb := ll.Get(a), ll.Get(b)
						if ffd.Message() != nil {
							va = protoreflect.ValueOfMessage(proto.Clone(va.Message().Interface()).ProtoReflect())
							vb = protoreflect.ValueOfMessage(proto.Clone(vb.Message().Interface()).ProtoReflect())
						}
						ll.Set(a, vb)
						ll.Set(b, va)
					}},
					mutSite{kind: "list:truncate-half", apply: func(*rand.Rand) {
						ll := mm.Mutable(ffd).List()
						ll.Truncate(ll.Len() / 2)
					}},
				)
			}
			if fd.Message() != nil {
				*out = append(*out, mutSite{kind: "list:append-empty", apply: func(*rand.Rand) {
					ll := mm.Mutable(ffd).List()
					ll.Append(ll.NewElement())
				}})
				for j := 0; j < n; j++ {
					j := j
					*out = append(*out, mutSite{kind: "list:element-emptied", apply: func(*rand.Rand) {
						ll := mm.Mutable(ffd).List()
						if j < ll.Len() {
							ll.Set(j, ll.NewElement())
						}
					}})
					collectSites(l.Get(j).Message(), pool, out, depth+1)
				}
			} else if n > 0 {
				*out = append(*out, mutSite{kind: "list:scalar-element", apply: func(r *rand.Rand) {
					ll := mm.Mutable(ffd).List()
					if ll.Len() == 0 {
						return
					}
					j := r.Intn(ll.Len())
					ll.Set(j, scalarMutations(ffd, ll.Get(j), r))
				}})
			}
		case fd.Message() != nil:
			mm, ffd := m, fd
			if m.Has(fd) {
				*out = append(*out, mutSite{kind: "msg:nil-out", apply: func(*rand.Rand) { mm.Clear(ffd) }})
				*out = append(*out, mutSite{kind: "msg:emptied", apply: func(*rand.Rand) {
					mm.Set(ffd, protoreflect.ValueOfMessage(mm.NewField(ffd).Message()))
				}})
				if len(pool[fd.Message().FullName()]) > 1 {
					*out = append(*out, mutSite{kind: "msg:swapped-with-foreign", apply: func(r *rand.Rand) {
						c := pool[ffd.Message().FullName()]
						mm.Set(ffd, protoreflect.ValueOfMessage(proto.Clone(c[r.Intn(len(c))]).ProtoReflect()))
					}})
				}
				collectSites(m.Get(fd).Message(), pool, out, depth+1)
			} else {
				kind := "msg:set-empty"
				if fd.ContainingOneof() != nil {
					kind = "oneof:swap-body-empty"
				}
				*out = append(*out, mutSite{kind: kind, apply: func(*rand.Rand) {
					mm.Set(ffd, protoreflect.ValueOfMessage(mm.NewField(ffd).Message()))
				}})
				if fd.ContainingOneof() != nil && len(pool[fd.Message().FullName()]) > 0 {
					*out = append(*out, mutSite{kind: "oneof:swap-body-foreign", apply: func(r *rand.Rand) {
						c := pool[ffd.Message().FullName()]
						mm.Set(ffd, protoreflect.ValueOfMessage(proto.Clone(c[r.Intn(len(c))]).ProtoReflect()))
					}})
				}
			}
		default:
			mm, ffd := m, fd
			*out = append(*out, mutSite{kind: "scalar:" + fd.Kind().String(), apply: func(r *rand.Rand) {
				mm.Set(ffd, scalarMutations(ffd, mm.Get(ffd), r))
			}})
		}
	}
}

// mutateMessage returns a mutated clone of seed and the kinds applied.
func mutateMessage(seed proto.Message, pool msgPool, r *rand.Rand) (proto.Message, []string) {
	m := proto.Clone(seed)
	var sites []mutSite
	collectSites(m.ProtoReflect(), pool, &sites, 0)
	if len(sites) == 0 {
		return m, nil
	}
	n := 1
	switch r.Intn(6) {
	case 0:
		n = 2
	case 1:
		n = 3
	}
	var kinds []string
	for i := 0; i < n; i++ {
		s := sites[r.Intn(len(sites))]
		s.apply(r)
		kinds = append(kinds, s.kind)
	}
	return m, kinds
}

// wireNormal returns what a receiver would see: Marshal then Unmarshal into a fresh message.
func wireNormal(m proto.Message) (proto.Message, []byte, bool) {
	b, err := proto.Marshal(m)
	if err != nil {
		return nil, nil, false
	}
	out := m.ProtoReflect().New().Interface()
	if err := proto.Unmarshal(b, out); err != nil {
		return nil, b, false
	}
	return out, b, true
}

// mutateBytes is the raw byte-level mutation of a marshalled message.
func mutateBytes(b []byte, r *rand.Rand) ([]byte, string) {
	m := append([]byte{}, b...)
	if len(m) == 0 {
		return []byte{byte(r.Intn(256))}, "bytes:one-random"
	}
	switch r.Intn(8) {
	case 0:
		return m[:r.Intn(len(m))], "bytes:truncate"
	case 1:
		m[r.Intn(len(m))] ^= 1 << uint(r.Intn(8))
		return m, "bytes:bitflip"
	case 2:
		for k := 0; k < 1+r.Intn(4); k++ {
			m[r.Intn(len(m))] = byte(r.Intn(256))
		}
		return m, "bytes:replace"
	case 3:
		i := r.Intn(len(m))
		j := i + 1 + r.Intn(len(m)-i)
		return append(m[:i], m[j:]...), "bytes:cut"
	case 4:
		i := r.Intn(len(m))
		ins := make([]byte, 1+r.Intn(6))
		r.Read(ins)
		return append(m[:i], append(ins, m[i:]...)...), "bytes:insert"
	case 5:
		// a length/varint byte blown up
		i := r.Intn(len(m))
		m[i] = 0xff
		return m, "bytes:ff"
	case 6:
		i := r.Intn(len(m))
		j := i + r.Intn(len(m)-i)
		return append(m, m[i:j]...), "bytes:splice-tail"
	default:
		i := r.Intn(len(m))
		m[i] = []byte{0x00, 0x7f, 0x80, 0x01, 0x0a, 0x12}[r.Intn(6)]
		return m, "bytes:tagish"
	}
}

// ---- panic guard ----

type guardResult struct {
	panicked bool
	hang     bool
	value    string
	site     string // first yorkie frame under the panic
}

func (g guardResult) bad() bool { return g.panicked || g.hang }

func (g guardResult) sig() string {
	if g.hang {
		return "hang at " + g.site
	}
	return g.site + " :: " + g.value
}

func panicSiteOf(stack string) string {
	lines := strings.Split(stack, "\n")
	seenPanic := false
	first := ""
	for i := 0; i < len(lines); i++ {
		l := lines[i]
		if strings.HasPrefix(l, "panic(") {
			seenPanic = true
			continue
		}
		if !seenPanic {
			continue
		}
		if strings.Contains(l, "github.com/yorkie-team/yorkie/") && !strings.HasPrefix(l, "\t") {
			fn := l
			if k := strings.LastIndex(fn, "("); k > 0 {
				fn = fn[:k]
			}
			fn = strings.TrimPrefix(fn, "github.com/yorkie-team/yorkie/")
			loc := ""
			if i+1 < len(lines) {
				loc = strings.TrimSpace(lines[i+1])
				if k := strings.Index(loc, " +0x"); k > 0 {
					loc = loc[:k]
				}
				if k := strings.LastIndex(loc, "/"); k >= 0 {
					loc = loc[k+1:]
				}
			}
			fr := fn + " (" + loc + ")"
			if first == "" {
				first = fr
				// a nil ticket/vector dereference says little: add the first caller outside package time
				if !strings.HasPrefix(fn, "pkg/document/time.") {
					return first
				}
				continue
			}
			if !strings.HasPrefix(fn, "pkg/document/time.") {
				return first + " <- " + fr
			}
		}
	}
	if first != "" {
		return first
	}
	return "unknown-site"
}

// slowCalls counts calls that needed more than the first timeout period but did finish.
var slowCalls int

// guardRun runs f with recover and a timeout.
func guardRun(d gotime.Duration, f func()) guardResult {
	done := make(chan guardResult, 1)
	go func() {
		defer func() {
			if r := recover(); r != nil {
				v := fmt.Sprintf("%v", r)
				if len(v) > 160 {
					v = v[:160]
				}
				st := string(debug.Stack())
				if os.Getenv("PBFUZZ_DUMP") == "panic" {
					fmt.Fprintf(os.Stderr, "PANIC %s\n%s\n", v, st)
				}
				done <- guardResult{panicked: true, value: v, site: panicSiteOf(st)}
			}
		}()
		f()
		done <- guardResult{}
	}()
	select {
	case r := <-done:
		return r
	case <-gotime.After(d):
	}
	// not finished within d: on a loaded machine that is not yet a verdict; give the same call
	// five more periods before calling it a hang
	slowCalls++
	select {
	case r := <-done:
		return r
	case <-gotime.After(5 * d):
		// where is it stuck?  all goroutine stacks; the newest one running guardRun.func1 is ours
		buf := make([]byte, 4<<20)
		n := runtime.Stack(buf, true)
		site, val := "unknown-site", ""
		blocks := strings.Split(string(buf[:n]), "\n\n")
		for i := len(blocks) - 1; i >= 0; i-- {
			if strings.Contains(blocks[i], "main.guardRun.func1") {
				lines := strings.Split(blocks[i], "\n")
				var frames []string
				for _, l := range lines[1:] {
					if !strings.HasPrefix(l, "\t") && !strings.HasPrefix(l, "created by") {
						if k := strings.LastIndex(l, "("); k > 0 {
							l = l[:k]
						}
						frames = append(frames, l)
					}
				}
				if len(frames) > 0 {
					site = frames[0]
				}
				if len(frames) > 6 {
					frames = frames[:6]
				}
				val = "stuck in " + strings.Join(frames, " <- ")
				break
			}
		}
		return guardResult{hang: true, site: site, value: val}
	}
}

// ---- shrinking ----

// shrinkSites are the size-reducing edits tried by the shrinker.
func shrinkSites(m protoreflect.Message, out *[]func(), depth int) {
	if depth > 14 {
		return
	}
	fds := m.Descriptor().Fields()
	for i := 0; i < fds.Len(); i++ {
		fd := fds.Get(i)
		if !m.Has(fd) {
			continue
		}
		mm, ffd := m, fd
		*out = append(*out, func() { mm.Clear(ffd) })
		switch {
		case fd.IsMap():
			mp := m.Get(fd).Map()
			for _, k := range sortedMapKeys(mp) {
				k := k
				*out = append(*out, func() { mm.Mutable(ffd).Map().Clear(k) })
				if fd.MapValue().Message() != nil {
					shrinkSites(mp.Get(k).Message(), out, depth+1)
				}
			}
		case fd.IsList():
			l := m.Get(fd).List()
			for j := l.Len() - 1; j >= 0; j-- {
				j := j
				*out = append(*out, func() {
					ll := mm.Mutable(ffd).List()
					if j >= ll.Len() {
						return
					}
					for k := j + 1; k < ll.Len(); k++ {
						ll.Set(k-1, ll.Get(k))
					}
					ll.Truncate(ll.Len() - 1)
				})
			}
			if fd.Message() != nil {
				for j := 0; j < l.Len(); j++ {
					shrinkSites(l.Get(j).Message(), out, depth+1)
				}
			}
		case fd.Message() != nil:
			shrinkSites(m.Get(fd).Message(), out, depth+1)
		}
	}
}

// shrinkMessage greedily removes parts of m while fails(m) stays true.
func shrinkMessage(m proto.Message, fails func(proto.Message) bool, budget int) proto.Message {
	cur := proto.Clone(m)
	progress := true
	for progress && budget > 0 {
		progress = false
		var sites []func()
		shrinkSites(cur.ProtoReflect(), &sites, 0)
		for k := 0; k < len(sites) && budget > 0; k++ {
			cand := proto.Clone(cur)
			var cs []func()
			shrinkSites(cand.ProtoReflect(), &cs, 0)
			if k >= len(cs) {
				break
			}
			cs[k]()
			if proto.Size(cand) >= proto.Size(cur) && proto.Equal(cand, cur) {
				continue
			}
			budget--
			if fails(cand) {
				cur = cand
				progress = true
				break
			}
		}
	}
	return cur
}

func protoText(m proto.Message) string {
	s := prototext.MarshalOptions{Multiline: false}.Format(m)
	for strings.Contains(s, "  ") {
		s = strings.ReplaceAll(s, "  ", " ")
	}
	if len(s) > 1800 {
		s = s[:1800] + "…"
	}
	return s
}

func protoTextLong(m proto.Message) string {
	s := prototext.MarshalOptions{Multiline: false}.Format(m)
	for strings.Contains(s, "  ") {
		s = strings.ReplaceAll(s, "  ", " ")
	}
	return s
}
