package main

// engine `yson` (C18): pkg/document/yson Marshal / Unmarshal and the
// json.SetYSON -> yson.FromCRDT rebuild that packs.Compact and
// revisions.Restore rely on, against Model/Yson.lean + Model/YsonText.lean.
//
// Commands (see Driver/YsonEngine.lean for the literal grammar):
//   Y <literal>             one YSON value
//   D ...                   a step of the document-building stream (eng_yson_doc.go)
//   DY <replica> <literal>  the export of a built document
//
// Observation lines per value:
//   M <marshal text>                      Marshal()
//   U ok eq=<bool> re=<text|=> | U err:<msg> | U panic:<got>!<want>      Unmarshal(Marshal())
//   S <unsafe tags|->                     the harness' own classifier (must equal the model's YsonSafe analysis)
//   B ok eq=<bool> re=<text|=> | B panic:set<n>     SetYSON into document.New + FromCRDT (object roots)
//   R <rebuild tags|->

import (
	"encoding/hex"
	"fmt"
	"math"
	"regexp"
	"sort"
	"strconv"
	"strings"
	gotime "time"
	"unicode/utf16"

	"github.com/yorkie-team/yorkie/pkg/document"
	"github.com/yorkie-team/yorkie/pkg/document/crdt"
	"github.com/yorkie-team/yorkie/pkg/document/json"
	"github.com/yorkie-team/yorkie/pkg/document/presence"
	"github.com/yorkie-team/yorkie/pkg/document/yson"
)

func init() { register("yson", runYson) }

// ---------------------------------------------------------------- literal codec

func strEnc(s string) string {
	var sb strings.Builder
	first := true
	for _, r := range s {
		if !first {
			sb.WriteByte('.')
		}
		first = false
		sb.WriteString(strconv.FormatInt(int64(r), 16))
	}
	return sb.String()
}

func strDec(s string) string {
	if s == "" {
		return ""
	}
	var sb strings.Builder
	for _, h := range strings.Split(s, ".") {
		n, _ := strconv.ParseInt(h, 16, 32)
		sb.WriteRune(rune(n))
	}
	return sb.String()
}

func attrsLit(m map[string]string) string {
	keys := make([]string, 0, len(m))
	for k := range m {
		keys = append(keys, k)
	}
	sort.Strings(keys)
	var sb strings.Builder
	sb.WriteByte('{')
	for _, k := range keys {
		sb.WriteString(strEnc(k))
		sb.WriteByte('=')
		sb.WriteString(strEnc(m[k]))
		sb.WriteByte(';')
	}
	sb.WriteByte('}')
	return sb.String()
}

// treeLit prints a node in the normal form Marshal observes: a text node has
// neither attributes nor children, any other node has no value.
func treeLit(n yson.TreeNode) string {
	var sb strings.Builder
	sb.WriteByte('<')
	sb.WriteString(strEnc(n.Type))
	sb.WriteByte(';')
	if n.Type == "text" {
		sb.WriteString(strEnc(n.Value))
		sb.WriteString(";{}")
	} else {
		sb.WriteByte(';')
		sb.WriteString(attrsLit(n.Attributes))
		for _, c := range n.Children {
			sb.WriteString(treeLit(c))
		}
	}
	sb.WriteByte('>')
	return sb.String()
}

func dblLit(f float64) string {
	switch {
	case math.IsNaN(f):
		return "dN;"
	case math.IsInf(f, 1):
		return "dP;"
	case math.IsInf(f, -1):
		return "dM;"
	}
	return "d" + strEnc(fmt.Sprintf("%v", f)) + ";"
}

// litOf is the canonical literal of a Go YSON value.
func litOf(v interface{}) string {
	switch y := v.(type) {
	case nil:
		return "n"
	case bool:
		if y {
			return "t"
		}
		return "f"
	case float64:
		return dblLit(y)
	case string:
		return "s" + strEnc(y) + ";"
	case int32:
		return fmt.Sprintf("i%d;", y)
	case int64:
		return fmt.Sprintf("l%d;", y)
	case []byte:
		return "b" + hex.EncodeToString(y) + ";"
	case gotime.Time:
		return "D" + strEnc(y.Format(gotime.RFC3339Nano)) + ";"
	case yson.Counter:
		switch y.Type {
		case crdt.IntegerCnt:
			return fmt.Sprintf("ci%d;", y.Value)
		case crdt.LongCnt:
			return fmt.Sprintf("cl%d;", y.Value)
		default:
			return fmt.Sprintf("cd%d,%s;", y.Value, hex.EncodeToString(y.Registers))
		}
	case yson.Text:
		var sb strings.Builder
		sb.WriteByte('T')
		for _, n := range y.Nodes {
			sb.WriteByte('(')
			sb.WriteString(strEnc(n.Value))
			sb.WriteByte(';')
			sb.WriteString(attrsLit(n.Attributes))
			sb.WriteByte(')')
		}
		sb.WriteByte(';')
		return sb.String()
	case yson.Tree:
		return "R" + treeLit(y.Root)
	case yson.Array:
		var sb strings.Builder
		sb.WriteByte('[')
		for _, e := range y {
			sb.WriteString(litOf(e))
		}
		sb.WriteByte(']')
		return sb.String()
	case yson.Object:
		keys := make([]string, 0, len(y))
		for k := range y {
			keys = append(keys, k)
		}
		sort.Strings(keys)
		var sb strings.Builder
		sb.WriteByte('{')
		for _, k := range keys {
			sb.WriteString(strEnc(k))
			sb.WriteByte(':')
			sb.WriteString(litOf(y[k]))
		}
		sb.WriteByte('}')
		return sb.String()
	}
	panic(fmt.Sprintf("litOf: unsupported %T", v))
}

type litParser struct {
	s string
	i int
}

func (p *litParser) peek() byte {
	if p.i < len(p.s) {
		return p.s[p.i]
	}
	return 0
}

func (p *litParser) next() byte {
	b := p.peek()
	p.i++
	return b
}

func (p *litParser) takeWhile(f func(byte) bool) string {
	j := p.i
	for p.i < len(p.s) && f(p.s[p.i]) {
		p.i++
	}
	return p.s[j:p.i]
}

func isHexB(b byte) bool { return (b >= '0' && b <= '9') || (b >= 'a' && b <= 'f') }

func (p *litParser) str() string {
	return strDec(p.takeWhile(func(b byte) bool { return isHexB(b) || b == '.' }))
}

func (p *litParser) int() int64 {
	n, _ := strconv.ParseInt(p.takeWhile(func(b byte) bool { return b == '-' || (b >= '0' && b <= '9') }), 10, 64)
	return n
}

func (p *litParser) bytes() []byte {
	b, _ := hex.DecodeString(p.takeWhile(isHexB))
	return b
}

func (p *litParser) attrs() map[string]string {
	p.next() // {
	var m map[string]string
	for p.peek() != '}' && p.peek() != 0 {
		k := p.str()
		p.next()
		v := p.str()
		p.next()
		if m == nil {
			m = map[string]string{}
		}
		m[k] = v
	}
	p.next()
	return m
}

func (p *litParser) tree() yson.TreeNode {
	p.next() // <
	n := yson.TreeNode{}
	n.Type = p.str()
	p.next()
	n.Value = p.str()
	p.next()
	n.Attributes = p.attrs()
	for p.peek() == '<' {
		n.Children = append(n.Children, p.tree())
	}
	p.next() // >
	return n
}

var dateRe = regexp.MustCompile(`^(-?\d+)-(\d\d)-(\d\d)T(\d\d):(\d\d):(\d\d)(\.\d+)?(Z|[+-]\d\d:\d\d)$`)

// timeOfText rebuilds the time.Time whose RFC3339Nano form is s (also for years
// outside 0..9999, which time.Parse refuses).
func timeOfText(s string) gotime.Time {
	m := dateRe.FindStringSubmatch(s)
	if m == nil {
		panic("bad date literal " + s)
	}
	at := func(i int) int { n, _ := strconv.Atoi(m[i]); return n }
	ns := 0
	if m[7] != "" {
		f := (m[7][1:] + "000000000")[:9]
		ns, _ = strconv.Atoi(f)
	}
	loc := gotime.UTC
	if m[8] != "Z" {
		h, _ := strconv.Atoi(m[8][1:3])
		mi, _ := strconv.Atoi(m[8][4:6])
		off := h*3600 + mi*60
		if m[8][0] == '-' {
			off = -off
		}
		loc = gotime.FixedZone("", off)
	}
	return gotime.Date(at(1), gotime.Month(at(2)), at(3), at(4), at(5), at(6), ns, loc)
}

func (p *litParser) value() interface{} {
	switch p.next() {
	case 'n':
		return nil
	case 't':
		return true
	case 'f':
		return false
	case 'd':
		switch p.peek() {
		case 'N':
			p.i += 2
			return math.NaN()
		case 'P':
			p.i += 2
			return math.Inf(1)
		case 'M':
			p.i += 2
			return math.Inf(-1)
		}
		f, _ := strconv.ParseFloat(p.str(), 64)
		p.next()
		return f
	case 's':
		s := p.str()
		p.next()
		return s
	case 'i':
		n := p.int()
		p.next()
		return int32(n)
	case 'l':
		n := p.int()
		p.next()
		return n
	case 'b':
		b := p.bytes()
		p.next()
		if b == nil {
			b = []byte{}
		}
		return b
	case 'D':
		s := p.str()
		p.next()
		return timeOfText(s)
	case 'c':
		switch p.next() {
		case 'i':
			n := p.int()
			p.next()
			return yson.Counter{Type: crdt.IntegerCnt, Value: int32(n)}
		case 'l':
			n := p.int()
			p.next()
			return yson.Counter{Type: crdt.LongCnt, Value: n}
		default:
			n := p.int()
			p.next()
			b := p.bytes()
			p.next()
			return yson.Counter{Type: crdt.IntegerDedupCnt, Value: int32(n), Registers: b}
		}
	case 'T':
		t := yson.Text{Nodes: []yson.TextNode{}}
		for p.next() == '(' {
			v := p.str()
			p.next()
			a := p.attrs()
			p.next()
			t.Nodes = append(t.Nodes, yson.TextNode{Value: v, Attributes: a})
		}
		return t
	case 'R':
		return yson.Tree{Root: p.tree()}
	case '[':
		a := yson.Array{}
		for p.peek() != ']' && p.peek() != 0 {
			a = append(a, p.value())
		}
		p.next()
		return a
	case '{':
		o := yson.Object{}
		for p.peek() != '}' && p.peek() != 0 {
			k := p.str()
			p.next()
			o[k] = p.value()
		}
		p.next()
		return o
	}
	panic("bad literal at " + strconv.Itoa(p.i) + " in " + p.s)
}

func parseLit(s string) interface{} { return (&litParser{s: s}).value() }

// escText prints text as one ASCII line: printable ASCII except `\` raw, everything else \{hex}.
func escText(s string) string {
	var sb strings.Builder
	for _, r := range s {
		if r >= 0x20 && r <= 0x7e && r != '\\' {
			sb.WriteRune(r)
		} else {
			fmt.Fprintf(&sb, "\\{%x}", r)
		}
	}
	return sb.String()
}

// ---------------------------------------------------------------- classifier (mirror of YsonSafe / RebuildSafe)

// (the shapes c18-prepass-in-string and c18-dedup-empty were repaired by /repo commit 0cf3884e:
// they are generated as before and must round-trip now; a recurrence is a plain violation)
// (c18-long-precision and the panics on `type` look-alikes were repaired by the UseNumber /
// checked-assertions fix: Long values of any size must round-trip, and a panic is a plain violation)
// (c18-go-quote and c18-key-unescaped were repaired by the JSON-string-literal fix: strings with
// control characters / non-printable runes and keys with quotes, backslashes, control characters
// are generated as before and must round-trip now)
var tagOrder = []string{"c18-type-member", "c18-double-nonfinite", "c18-date-range"}

var rtagOrder = []string{"c18-rebuild-text-empty-node", "c18-rebuild-tree-root", "c18-rebuild-tree-empty-text",
	"c18-rebuild-dedup-registers"}

// knownOnce: a known finding is written to oracle.txt once per tag and run (check.py looks at the
// first 50 oracle lines of a run only); every occurrence is counted in the distribution.
var knownOnce = map[string]bool{}

func (c *Ctx) Known(tag, format string, a ...any) {
	if knownOnce[tag] {
		return
	}
	knownOnce[tag] = true
	c.Oracle("KNOWN[%s] %s", tag, fmt.Sprintf(format, a...))
}

type classifier struct{ tags map[string]bool }

func (c *classifier) qstr(s string) {}

func (c *classifier) key(s string) {}

func (c *classifier) attrs(m map[string]string) {
	for k, v := range m {
		c.qstr(k)
		c.qstr(v)
	}
}

func (c *classifier) tree(n yson.TreeNode) {
	c.qstr(n.Type)
	if n.Type == "text" {
		c.qstr(n.Value)
		return
	}
	c.attrs(n.Attributes)
	for _, ch := range n.Children {
		c.tree(ch)
	}
}

func (c *classifier) value(v interface{}, root bool) {
	switch y := v.(type) {
	case float64:
		if math.IsNaN(y) || math.IsInf(y, 0) {
			c.tags["c18-double-nonfinite"] = true
		}
	case string:
		c.qstr(y)
	case gotime.Time:
		if _, err := gotime.Parse(gotime.RFC3339Nano, y.Format(gotime.RFC3339Nano)); err != nil {
			c.tags["c18-date-range"] = true
		}
	case yson.Text:
		for _, n := range y.Nodes {
			c.qstr(n.Value)
			c.attrs(n.Attributes)
		}
	case yson.Tree:
		c.tree(y.Root)
	case yson.Array:
		for _, e := range y {
			c.value(e, false)
		}
	case yson.Object:
		if _, ok := y["type"].(string); ok && !root {
			c.tags["c18-type-member"] = true
		}
		for k, e := range y {
			c.key(k)
			c.value(e, false)
		}
	}
}

func unsafeTags(v interface{}) []string {
	c := &classifier{tags: map[string]bool{}}
	c.value(v, true)
	var out []string
	for _, t := range tagOrder {
		if c.tags[t] {
			out = append(out, t)
		}
	}
	return out
}

func treeHasEmptyText(kids []yson.TreeNode) bool {
	for _, k := range kids {
		if k.Type == "text" {
			if k.Value == "" {
				return true
			}
		} else if treeHasEmptyText(k.Children) {
			return true
		}
	}
	return false
}

func rebuildTagsInto(v interface{}, tags map[string]bool) {
	switch y := v.(type) {
	case yson.Text:
		for _, n := range y.Nodes {
			if n.Value == "" {
				tags["c18-rebuild-text-empty-node"] = true
			}
		}
	case yson.Tree:
		if (y.Root.Type == "text" && y.Root.Value != "") || (y.Root.Type != "text" && len(y.Root.Attributes) > 0) {
			tags["c18-rebuild-tree-root"] = true
		}
		if y.Root.Type != "text" && treeHasEmptyText(y.Root.Children) {
			tags["c18-rebuild-tree-empty-text"] = true
		}
	case yson.Counter:
		if y.Type == crdt.IntegerDedupCnt && len(y.Registers) != 16384 {
			tags["c18-rebuild-dedup-registers"] = true
		}
	case yson.Array:
		for _, e := range y {
			rebuildTagsInto(e, tags)
		}
	case yson.Object:
		for _, e := range y {
			rebuildTagsInto(e, tags)
		}
	}
}

func rebuildTags(v interface{}) []string {
	tags := map[string]bool{}
	rebuildTagsInto(v, tags)
	var out []string
	for _, t := range rtagOrder {
		if tags[t] {
			out = append(out, t)
		}
	}
	return out
}

func joinOrDash(l []string) string {
	if len(l) == 0 {
		return "-"
	}
	return strings.Join(l, ",")
}

// ---------------------------------------------------------------- the implementation side of one value

func marshalOf(v interface{}) (string, error) {
	switch y := v.(type) {
	case yson.Object:
		return y.Marshal()
	case yson.Array:
		return y.Marshal()
	}
	return "", fmt.Errorf("root must be object or array")
}

var convRe = regexp.MustCompile(`^interface conversion: interface \{\} is (.+), not (.+)$`)

func goTyName(s string) string {
	switch s {
	case "map[string]interface {}":
		return "map"
	case "[]interface {}":
		return "slice"
	}
	return s
}

func panicKind(r interface{}) string {
	msg := fmt.Sprint(r)
	if e, ok := r.(error); ok {
		msg = e.Error()
	}
	if m := convRe.FindStringSubmatch(msg); m != nil {
		return "panic:" + goTyName(m[1]) + "!" + goTyName(m[2])
	}
	switch {
	case strings.Contains(msg, "text node cannot have empty value"):
		return "panic:set1"
	case strings.Contains(msg, "invalid HLL register payload"):
		return "panic:set2"
	}
	return "panic:other:" + strings.ReplaceAll(msg, " ", "_")
}

// unmarshalSame runs Unmarshal into the same kind of root; outcome is "ok", "err:…" or "panic:…".
func unmarshalSame(text string, isObj bool) (back interface{}, outcome string) {
	defer func() {
		if r := recover(); r != nil {
			back, outcome = nil, panicKind(r)
		}
	}()
	var err error
	if isObj {
		var o yson.Object
		err = yson.Unmarshal(text, &o)
		back = o
	} else {
		var a yson.Array
		err = yson.Unmarshal(text, &a)
		if a == nil {
			a = yson.Array{}
		}
		back = a
	}
	if err != nil {
		return nil, "err:" + strings.ReplaceAll(err.Error(), " ", "_")
	}
	return back, "ok"
}

// rebuildOf is step 2 of packs.Compact: SetYSON into a new document, FromCRDT again.
func rebuildOf(root yson.Object) (back interface{}, outcome string) {
	defer func() {
		if r := recover(); r != nil {
			back, outcome = nil, panicKind(r)
		}
	}()
	d := document.New("c18-rebuild")
	if err := d.Update(func(r *json.Object, p *presence.Presence) error {
		r.SetYSON(root)
		return nil
	}); err != nil {
		return nil, "err:" + strings.ReplaceAll(err.Error(), " ", "_")
	}
	n, err := yson.FromCRDT(d.RootObject())
	if err != nil {
		return nil, "err:" + strings.ReplaceAll(err.Error(), " ", "_")
	}
	return n, "ok"
}

type ysonResult struct {
	text          string
	r1ok, r2ok    bool // round trip succeeded with an equal value
	tags, rtags   []string
	uOutcome      string
	isObj         bool
	parsed        interface{}
	rebuilt       interface{}
}

// checkValue prints the observation lines for v and evaluates the oracle.
// fromDoc: the value is the export of a document (then rebuild failures are findings as well).
func checkValue(c *Ctx, v interface{}, fromDoc bool) ysonResult {
	res := ysonResult{}
	lit := litOf(v)
	text, err := marshalOf(v)
	if err != nil {
		c.Obs("M err:%s", strings.ReplaceAll(err.Error(), " ", "_"))
		c.Oracle("Marshal failed: %v", err)
		return res
	}
	res.text = text
	c.Obs("M %s", escText(text))
	_, res.isObj = v.(yson.Object)

	back, outcome := unmarshalSame(text, res.isObj)
	res.uOutcome = outcome
	if outcome == "ok" {
		re, _ := marshalOf(back)
		eq := litOf(back) == lit
		res.r1ok = eq
		res.parsed = back
		reS := "="
		if re != text {
			reS = escText(re)
		}
		c.Obs("U ok eq=%v re=%s", eq, reS)
	} else {
		c.Obs("U %s", outcome)
	}
	res.tags = unsafeTags(v)
	c.Obs("S %s", joinOrDash(res.tags))

	// oracle, round trip 1 (text)
	switch {
	case res.r1ok && len(res.tags) == 0:
		c.Count("r1:ok")
	case res.r1ok:
		c.Count("r1:unsafe-but-ok") // YsonSafe is conservative here
	case len(res.tags) == 0:
		c.Oracle("Unmarshal(Marshal(v)) != v on a value the model calls safe: %s -> %s", escText(text), outcome)
	default:
		c.Count("r1:known:" + res.tags[0])
		c.Known(res.tags[0], "Unmarshal(Marshal(v)) != v: %s -> %s", clip(escText(text), 300), outcome)
	}
	if strings.HasPrefix(outcome, "panic") {
		c.Count("r1:panic")
		c.Oracle("Unmarshal panicked on user data: %s -> %s", clip(escText(text), 300), outcome)
	}

	if res.isObj {
		rb, ro := rebuildOf(v.(yson.Object))
		if ro == "ok" {
			re, _ := marshalOf(rb)
			eq := litOf(rb) == lit
			res.r2ok = eq
			res.rebuilt = rb
			reS := "="
			if re != text {
				reS = escText(re)
			}
			c.Obs("B ok eq=%v re=%s", eq, reS)
			// packs.Compact compares the two Marshal texts
			if eq != (re == text) {
				c.Oracle("literal equality and Marshal equality disagree after rebuild: %s vs %s", escText(text), escText(re))
			}
		} else {
			c.Obs("B %s", ro)
		}
		res.rtags = rebuildTags(v)
		c.Obs("R %s", joinOrDash(res.rtags))
		switch {
		case res.r2ok && len(res.rtags) == 0:
			c.Count("r2:ok")
		case res.r2ok:
			c.Count("r2:unsafe-but-ok")
		case len(res.rtags) == 0:
			c.Oracle("FromCRDT(SetYSON(v)) != v (packs.Compact compare step) on a value the model calls rebuild-safe: %s -> %s", clip(escText(text), 300), ro)
		case fromDoc:
			c.Count("r2:doc-known:" + res.rtags[0])
			c.Known(res.rtags[0], "compaction compare step fails for a reachable document: %s -> %s", clip(escText(text), 300), ro)
		default:
			c.Count("r2:literal-unsafe:" + res.rtags[0])
		}
	}
	return res
}

func clip(s string, n int) string {
	if len(s) > n {
		return s[:n] + "…"
	}
	return s
}

func utf16Len(s string) int { return len(utf16.Encode([]rune(s))) }

// ---------------------------------------------------------------- runner

type ysonSt struct {
	docs *docWorld
}

func (s *ysonSt) exec(c *Ctx, line string) {
	t := strings.Fields(line)
	switch t[0] {
	case "Y":
		if len(t) != 2 {
			c.Obs("bad-op")
			return
		}
		checkValue(c, parseLit(t[1]), false)
	case "D":
		if s.docs == nil {
			s.docs = newDocWorld()
		}
		s.docs.exec(c, t[1:])
	case "DY":
		if s.docs == nil || len(t) != 3 {
			c.Obs("bad-op")
			return
		}
		s.docs.export(c, t[1], t[2])
	default:
		c.Obs("bad-op")
	}
}

func runYson(c *Ctx) error {
	c.stats.Rule = "YSON values (generated literals: all element kinds, nested, styled text, trees with attributes, counters, awkward strings/keys, extreme numbers; " +
		"an unsafe stream concentrated on the shapes YsonSafe excludes; exports of documents built by random multi-replica edit histories through the json API). " +
		"non-trivial = the value contains at least one nested container and at least three element kinds, or is the export of a document with >= 6 accepted edits; distinct by trace hash"
	if c.Replay != nil {
		s := &ysonSt{}
		for _, l := range c.Replay {
			if strings.HasPrefix(l, "T ") {
				c.Trace(strings.TrimPrefix(l, "T "))
				s = &ysonSt{}
				continue
			}
			if c.traceID == "" {
				c.Trace("replay")
			}
			c.Cmd("%s", l)
			s.exec(c, l)
		}
		return nil
	}
	g := newYsonGen(c)
	for i := 0; i < c.N; i++ {
		s := &ysonSt{}
		switch k := i % 10; {
		case k < 5:
			c.Trace(fmt.Sprintf("yson-safe-%d-%d", c.Seed, i))
			v := g.root()
			if g.nontrivial(v) {
				c.Nontrivial()
			}
			l := "Y " + litOf(v)
			c.Cmd("%s", l)
			s.exec(c, l)
		case k < 8:
			c.Trace(fmt.Sprintf("yson-unsafe-%d-%d", c.Seed, i))
			v := g.unsafeRoot()
			if g.nontrivial(v) {
				c.Nontrivial()
			}
			l := "Y " + litOf(v)
			c.Cmd("%s", l)
			s.exec(c, l)
		default:
			c.Trace(fmt.Sprintf("yson-doc-%d-%d", c.Seed, i))
			s.docs = newDocWorld()
			s.docs.generate(c, g, s)
		}
	}
	return nil
}
