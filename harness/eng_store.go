package main

// engines `store` (random) and `storex` (small-scope exhaustive): per-call
// correspondence of mongo.ChangeStore with Model/ChangeStore.lean against a
// ground-truth change table with holes (C20).
//
// Commands (rows are `seq:actor:pres:tag`, pres in n|p|c = nil/Put/Clear):
//
//	TR row...           ground-truth table of this trace (also resets the store)
//	E lo hi k           EnsureChanges(lo,hi); the fetcher fails on its k-th call (0-based; 99 = never)
//	I row...            ReplaceOrInsert(rows)
//	X lo hi             ExpandRange{lo,hi}
//	Q lo hi             ChangesInRange(lo,hi)
//	R actor             RemoveChangesByActor(actor); the rows leave the table too
//	P lo hi row...      CreateChangeInfos: table += rows; ReplaceOrInsert(rows); ExpandRange{lo,hi}
//	V                   the store is evicted from the changeCache LRU: continue with NewChangeStore()
//	QA lo hi            ChangesInRange(f,t) for every f,t in [lo,hi], one line
//	L cmd...            look-ahead: run cmd, print its result, then restore the state
//	LA u                look-ahead over the whole alphabet of universe 1..u, one line
//
// Every result line carries the call's return value, the fetcher calls, the
// fetched ranges (read from the unexported field by reflection) and the full
// tree content, so model and implementation are compared on the complete state
// after every call.
//
// Oracle (direct, on the implementation, while the recorded preconditions of
// Props/C20.lean hold for the trace): ranges sorted/disjoint/non-adjacent; every
// cached row is the table's row; every table row inside a fetched range is
// cached; EnsureChanges+ChangesInRange == sorted restriction of the table; the
// fetcher is never asked for a cached or covered sequence number.

import (
	"fmt"
	"math"
	"reflect"
	"sort"
	"strconv"
	"strings"

	"github.com/yorkie-team/yorkie/api/types"
	"github.com/yorkie-team/yorkie/pkg/document/presence/inner"
	"github.com/yorkie-team/yorkie/server/backend/database"
	"github.com/yorkie-team/yorkie/server/backend/database/mongo"
)

func init() {
	register("store", runStore)
	register("storex", runStoreX)
}

type storeSt struct {
	c       *Ctx
	cs      *mongo.ChangeStore
	truth   map[int64]*database.ChangeInfo
	rowTab  map[string]*database.ChangeInfo // interned rows of this trace, by token
	rows0   []string                        // TR tokens, ascending seq
	actors0 []int
	trLine  string
	hist    []string // executed state-changing commands since TR
	tainted bool     // a recorded precondition was violated: oracle off, diff on
	silent  bool     // restoring after a look-ahead: no output, no oracle, no counters
	partial bool     // some EnsureChanges was served partly from cache, partly by the fetcher
}

func newStoreSt(c *Ctx) *storeSt {
	return &storeSt{c: c, cs: mongo.NewChangeStore(), truth: map[int64]*database.ChangeInfo{},
		rowTab: map[string]*database.ChangeInfo{}}
}

func (s *storeSt) row(tok string) *database.ChangeInfo {
	if r, ok := s.rowTab[tok]; ok {
		return r
	}
	p := strings.Split(tok, ":")
	seq, _ := strconv.ParseInt(p[0], 10, 64)
	tag, _ := strconv.ParseInt(p[3], 10, 64)
	r := &database.ChangeInfo{ServerSeq: seq, ActorID: types.ID(p[1]), Lamport: tag}
	switch p[2] {
	case "p":
		r.PresenceChange = &inner.Change{ChangeType: inner.Put}
	case "c":
		r.PresenceChange = &inner.Change{ChangeType: inner.Clear}
	}
	s.rowTab[tok] = r
	return r
}

func atoi64(x string) int64 { v, _ := strconv.ParseInt(x, 10, 64); return v }

// storeRanges reads the unexported `ranges []ChangeRange` field.
func storeRanges(cs *mongo.ChangeStore) [][2]int64 {
	v := reflect.ValueOf(cs).Elem().FieldByName("ranges")
	out := make([][2]int64, v.Len())
	for i := range out {
		e := v.Index(i)
		out[i] = [2]int64{e.Field(0).Int(), e.Field(1).Int()}
	}
	return out
}

// storeTree dumps the tree through the only exported reader; the bounds stay away from
// the int64 limits so that an off-by-one in the reader cannot wrap around.
func storeTree(cs *mongo.ChangeStore) []*database.ChangeInfo {
	return cs.ChangesInRange(-(1 << 62), 1<<62)
}

func showRanges(rs [][2]int64) string {
	var sb strings.Builder
	sb.WriteByte('[')
	for i, r := range rs {
		if i > 0 {
			sb.WriteByte(',')
		}
		sb.WriteString(strconv.FormatInt(r[0], 10))
		sb.WriteByte('-')
		sb.WriteString(strconv.FormatInt(r[1], 10))
	}
	sb.WriteByte(']')
	return sb.String()
}

func showRows(rows []*database.ChangeInfo) string {
	var sb strings.Builder
	sb.WriteByte('[')
	for i, r := range rows {
		if i > 0 {
			sb.WriteByte(',')
		}
		sb.WriteString(strconv.FormatInt(r.ServerSeq, 10))
		sb.WriteByte(':')
		sb.WriteString(strconv.FormatInt(r.Lamport, 10))
	}
	sb.WriteByte(']')
	return sb.String()
}

func showSeqs(rows []*database.ChangeInfo) string {
	var p []string
	for _, r := range rows {
		p = append(p, strconv.FormatInt(r.ServerSeq, 10))
	}
	return strings.Join(p, ",")
}

func (s *storeSt) showStore() string {
	return "r=" + showRanges(storeRanges(s.cs)) + " t=" + showRows(storeTree(s.cs))
}

func coveredBy(rs [][2]int64, q int64) bool {
	for _, r := range rs {
		if r[0] <= q && q <= r[1] {
			return true
		}
	}
	return false
}

// truthIn returns the table rows of [lo,hi] in ascending order (the range query of the underlying store).
func (s *storeSt) truthIn(lo, hi int64) []*database.ChangeInfo {
	var out []*database.ChangeInfo
	for q, r := range s.truth {
		if lo <= q && q <= hi {
			out = append(out, r)
		}
	}
	sort.Slice(out, func(i, j int) bool { return out[i].ServerSeq < out[j].ServerSeq })
	return out
}

func sameRows(a, b []*database.ChangeInfo) bool {
	if len(a) != len(b) {
		return false
	}
	for i := range a {
		if a[i] != b[i] {
			return false
		}
	}
	return true
}

func (s *storeSt) oracleOn() bool { return !s.silent && !s.tainted }

func (s *storeSt) oracle(format string, a ...any) { s.c.Oracle(format, a...) }

// checkInv is the invariant of Props/C20.lean evaluated on the implementation.
func (s *storeSt) checkInv(after string) {
	if !s.oracleOn() {
		return
	}
	rs := storeRanges(s.cs)
	for i, r := range rs {
		if r[0] > r[1] {
			s.oracle("after %s: empty range %d-%d", after, r[0], r[1])
		}
		if i > 0 && !(rs[i-1][1]+1 < r[0]) {
			s.oracle("after %s: ranges not sorted/disjoint/non-adjacent: %s", after, showRanges(rs))
		}
	}
	cached := map[int64]bool{}
	var prev int64 = math.MinInt64
	for i, it := range storeTree(s.cs) {
		if i > 0 && it.ServerSeq <= prev {
			s.oracle("after %s: tree not strictly ascending at %d", after, it.ServerSeq)
		}
		prev = it.ServerSeq
		cached[it.ServerSeq] = true
		if s.truth[it.ServerSeq] != it {
			s.oracle("after %s: cached row %d:%d is not the stored row", after, it.ServerSeq, it.Lamport)
		}
	}
	for q := range s.truth {
		if coveredBy(rs, q) && !cached[q] {
			s.oracle("after %s: stored row %d lies inside a fetched range %s but is not cached", after, q, showRanges(rs))
		}
	}
}

func (s *storeSt) count(k string) {
	if !s.silent {
		s.c.Count(k)
	}
}

// run executes one store command and returns its canonical result.
func (s *storeSt) run(t []string) string {
	switch {
	case t[0] == "E" && len(t) == 4:
		lo, hi, k := atoi64(t[1]), atoi64(t[2]), int(atoi64(t[3]))
		var preR [][2]int64
		preT := map[int64]bool{}
		if s.oracleOn() {
			preR = storeRanges(s.cs)
			for _, it := range storeTree(s.cs) {
				preT[it.ServerSeq] = true
			}
		}
		var calls [][2]int64
		err := s.cs.EnsureChanges(lo, hi, func(a, b int64) ([]*database.ChangeInfo, error) {
			calls = append(calls, [2]int64{a, b})
			if len(calls)-1 == k {
				return nil, fmt.Errorf("injected fetch failure")
			}
			return s.truthIn(a, b), nil
		})
		q := s.cs.ChangesInRange(lo, hi)
		st := "ok"
		if err != nil {
			st = "err"
		}
		if s.oracleOn() {
			for i, cl := range calls {
				if cl[0] > cl[1] || cl[0] < lo || cl[1] > hi {
					s.oracle("EnsureChanges(%d,%d): fetcher asked for %d-%d outside the request", lo, hi, cl[0], cl[1])
				}
				for x := cl[0]; x <= cl[1] && x-cl[0] < 4096; x++ {
					if preT[x] {
						s.oracle("EnsureChanges(%d,%d): fetcher asked for cached seq %d (call %d-%d)", lo, hi, x, cl[0], cl[1])
					}
					if coveredBy(preR, x) {
						s.oracle("EnsureChanges(%d,%d): fetcher asked for covered seq %d (call %d-%d, ranges %s)", lo, hi, x, cl[0], cl[1], showRanges(preR))
					}
					if coveredBy(calls[:i], x) {
						s.oracle("EnsureChanges(%d,%d): fetcher asked twice for seq %d", lo, hi, x)
					}
				}
			}
			if err == nil && lo <= hi {
				want := s.truthIn(lo, hi)
				if !sameRows(q, want) {
					s.oracle("EnsureChanges(%d,%d) then ChangesInRange = %s, the store holds %s", lo, hi, showRows(q), showRows(want))
				}
				known := 0
				for x := lo; x <= hi && x-lo < 4096; x++ {
					if preT[x] || coveredBy(preR, x) {
						known++
					}
				}
				if known > 0 && len(calls) > 0 {
					s.partial = true
				}
			}
		}
		if !s.silent {
			s.count(fmt.Sprintf("ensure:%s:calls=%d", st, min(len(calls), 4)))
		}
		out := fmt.Sprintf("E %d %d %d %s f=%s %s q=%s", lo, hi, k, st, showRanges(calls), s.showStore(), showRows(q))
		s.checkInv("E")
		return out
	case t[0] == "I":
		var rows []*database.ChangeInfo
		for _, tok := range t[1:] {
			r := s.row(tok)
			rows = append(rows, r)
			if s.truth[r.ServerSeq] != r && !s.tainted {
				s.tainted = true
				s.count("taint:insert-non-table-row")
			}
		}
		s.cs.ReplaceOrInsert(rows)
		out := fmt.Sprintf("I %s %s", showSeqs(rows), s.showStore())
		s.checkInv("I")
		return out
	case t[0] == "X" && len(t) == 3:
		lo, hi := atoi64(t[1]), atoi64(t[2])
		if lo <= hi && !s.tainted {
			cached := map[int64]bool{}
			for _, it := range storeTree(s.cs) {
				cached[it.ServerSeq] = true
			}
			for q := range s.truth {
				if lo <= q && q <= hi && !cached[q] {
					s.tainted = true
					s.count("taint:expand-over-uninserted-row")
					break
				}
			}
		}
		s.cs.ExpandRange(mongo.ChangeRange{From: lo, To: hi})
		out := fmt.Sprintf("X %d %d %s", lo, hi, s.showStore())
		s.checkInv("X")
		return out
	case t[0] == "Q" && len(t) == 3:
		lo, hi := atoi64(t[1]), atoi64(t[2])
		q := s.cs.ChangesInRange(lo, hi)
		if s.oracleOn() {
			s.checkQuery(lo, hi, q)
		}
		return fmt.Sprintf("Q %d %d %s", lo, hi, showRows(q))
	case t[0] == "R" && len(t) == 2:
		actor := types.ID(t[1])
		st := "ok"
		func() {
			defer func() {
				if r := recover(); r != nil {
					st = "panic"
				}
			}()
			s.cs.RemoveChangesByActor(actor)
		}()
		if st == "ok" {
			for q, r := range s.truth {
				if r.ActorID == actor && (r.PresenceChange == nil || !r.PresenceChange.IsClear()) {
					delete(s.truth, q)
				}
			}
		}
		s.count("remove:" + st)
		out := fmt.Sprintf("R %s %s %s", t[1], st, s.showStore())
		s.checkInv("R")
		return out
	case t[0] == "P" && len(t) >= 3:
		lo, hi := atoi64(t[1]), atoi64(t[2])
		var rows []*database.ChangeInfo
		for _, tok := range t[3:] {
			rows = append(rows, s.row(tok))
		}
		if !s.tainted {
			bad := false
			for q := range s.truth {
				if lo <= q && q <= hi {
					bad = true
				}
			}
			for _, r := range rows {
				if _, ok := s.truth[r.ServerSeq]; ok {
					bad = true
				}
			}
			if bad {
				s.tainted = true
				s.count("taint:push-over-existing-rows")
			}
		}
		for _, r := range rows {
			s.truth[r.ServerSeq] = r
		}
		s.cs.ReplaceOrInsert(rows)
		s.cs.ExpandRange(mongo.ChangeRange{From: lo, To: hi})
		out := fmt.Sprintf("P %d %d %s %s", lo, hi, showSeqs(rows), s.showStore())
		s.checkInv("P")
		return out
	case t[0] == "V" && len(t) == 1:
		s.cs = mongo.NewChangeStore()
		out := "V " + s.showStore()
		s.checkInv("V")
		return out
	}
	return "bad-op"
}

// checkQuery: query_sound / query_eq_truth_of_known on the implementation.
func (s *storeSt) checkQuery(lo, hi int64, q []*database.ChangeInfo) {
	for i, it := range q {
		if it.ServerSeq < lo || it.ServerSeq > hi {
			s.oracle("ChangesInRange(%d,%d) returned seq %d outside the range", lo, hi, it.ServerSeq)
		}
		if i > 0 && q[i-1].ServerSeq >= it.ServerSeq {
			s.oracle("ChangesInRange(%d,%d) not ascending", lo, hi)
		}
		if s.truth[it.ServerSeq] != it {
			s.oracle("ChangesInRange(%d,%d) returned a row %d:%d the store does not hold", lo, hi, it.ServerSeq, it.Lamport)
		}
	}
	if lo > hi || hi-lo > 4096 {
		return
	}
	rs := storeRanges(s.cs)
	cached := map[int64]bool{}
	for _, it := range storeTree(s.cs) {
		cached[it.ServerSeq] = true
	}
	for x := lo; x <= hi; x++ {
		if !cached[x] && !coveredBy(rs, x) {
			return
		}
	}
	if want := s.truthIn(lo, hi); !sameRows(q, want) {
		s.oracle("ChangesInRange(%d,%d) on a fully known range = %s, the store holds %s", lo, hi, showRows(q), showRows(want))
	}
}

func mutating(t []string) bool { return t[0] != "Q" }

// restore rebuilds store and table from the trace's history (after a look-ahead).
func (s *storeSt) restore() {
	s.cs = mongo.NewChangeStore()
	s.truth = map[int64]*database.ChangeInfo{}
	for _, tok := range s.rows0 {
		r := s.row(tok)
		s.truth[r.ServerSeq] = r
	}
	sil, tnt, par := s.silent, s.tainted, s.partial
	s.silent = true
	for _, h := range s.hist {
		s.run(strings.Fields(h))
	}
	s.silent, s.tainted, s.partial = sil, tnt, par
}

// storeAlphabet: same order as `alphabet` in Driver/ChangeStoreEngine.lean. The first
// `mut` entries are the state-changing ones used as prefix operations.
func (s *storeSt) storeAlphabet(u int) (ops []string, mut int) {
	rg := func(f func(a, b int) string) {
		for a := 1; a <= u; a++ {
			for b := a; b <= u; b++ {
				ops = append(ops, f(a, b))
			}
		}
	}
	rg(func(a, b int) string { return fmt.Sprintf("E %d %d 99", a, b) })
	rg(func(a, b int) string { return fmt.Sprintf("X %d %d", a, b) })
	for _, tok := range s.rows0 {
		ops = append(ops, "I "+tok)
	}
	for _, a := range s.actors0 {
		ops = append(ops, fmt.Sprintf("R %d", a))
	}
	mut = len(ops)
	rg(func(a, b int) string { return fmt.Sprintf("E %d %d 0", a, b) })
	rg(func(a, b int) string { return fmt.Sprintf("E %d %d 1", a, b) })
	if u > 1 {
		ops = append(ops, fmt.Sprintf("E %d 1 99", u), fmt.Sprintf("X %d 1", u))
	}
	return ops, mut
}

// exec executes one command line and prints the implementation's observation.
func (s *storeSt) exec(line string) {
	t := strings.Fields(line)
	c := s.c
	switch t[0] {
	case "TR":
		s.cs = mongo.NewChangeStore()
		s.truth = map[int64]*database.ChangeInfo{}
		s.rowTab = map[string]*database.ChangeInfo{}
		s.hist, s.tainted, s.partial = nil, false, false
		s.rows0 = append([]string(nil), t[1:]...)
		sort.SliceStable(s.rows0, func(i, j int) bool {
			return atoi64(strings.SplitN(s.rows0[i], ":", 2)[0]) < atoi64(strings.SplitN(s.rows0[j], ":", 2)[0])
		})
		seen := map[int]bool{}
		s.actors0 = nil
		for _, tok := range s.rows0 {
			r := s.row(tok)
			s.truth[r.ServerSeq] = r
			a, _ := strconv.Atoi(strings.Split(tok, ":")[1])
			if !seen[a] {
				seen[a] = true
				s.actors0 = append(s.actors0, a)
			}
		}
		sort.Ints(s.actors0)
		c.Obs("TR %d", len(t)-1)
	case "L":
		tainted := s.tainted
		out := s.run(t[1:])
		c.Obs("L %s", out)
		if mutating(t[1:]) {
			s.restore()
		}
		s.tainted = tainted
	case "LA":
		u, _ := strconv.Atoi(t[1])
		ops, _ := s.storeAlphabet(u)
		outs := make([]string, 0, len(ops))
		tainted := s.tainted
		for _, op := range ops {
			outs = append(outs, s.run(strings.Fields(op)))
			s.restore()
			s.tainted = tainted
		}
		c.Obs("LA %s", strings.Join(outs, "|"))
	case "QA":
		lo, hi := atoi64(t[1]), atoi64(t[2])
		var parts []string
		for f := lo; f <= hi; f++ {
			for g := lo; g <= hi; g++ {
				q := s.cs.ChangesInRange(f, g)
				if s.oracleOn() {
					s.checkQuery(f, g, q)
				}
				parts = append(parts, fmt.Sprintf("%d-%d=%s", f, g, showRows(q)))
			}
		}
		c.Obs("QA %s", strings.Join(parts, ";"))
	default:
		out := s.run(t)
		c.Obs("%s", out)
		if out != "bad-op" && mutating(t) {
			s.hist = append(s.hist, line)
		}
	}
}

const storeRule = "non-trivial = the trace contains a successful EnsureChanges that was served partly from " +
	"the cache (some sequence number of its range already cached or covered) and partly by the fetcher (>=1 call); " +
	"exhaustive traces: every enumerated prefix is distinct by construction; distinct by trace hash"

func storeReplay(c *Ctx) {
	s := newStoreSt(c)
	for _, l := range c.Replay {
		if strings.HasPrefix(l, "T ") {
			if s.partial {
				c.Nontrivial()
			}
			c.Trace(strings.TrimPrefix(l, "T "))
			s = newStoreSt(c)
			continue
		}
		c.Cmd("%s", l)
		s.exec(l)
	}
	if s.partial {
		c.Nontrivial()
	}
}

func runStore(c *Ctx) error {
	c.stats.Rule = "random call sequences on mongo.ChangeStore against a random ground-truth table with holes; " + storeRule
	if c.Replay != nil {
		storeReplay(c)
		return nil
	}
	r := c.Rng
	for i := 0; i < c.N; i++ {
		c.Trace(fmt.Sprintf("store-%d-%d", c.Seed, i))
		s := newStoreSt(c)
		do := func(l string) {
			c.Cmd("%s", l)
			s.exec(l)
		}
		U := []int{6, 10, 16, 30}[r.Intn(4)]
		base := 1
		if r.Intn(5) == 0 {
			base = 0
		}
		nilPres := r.Intn(10) == 0
		density := []int{35, 65, 90}[r.Intn(3)]
		tag := 100
		mkRow := func(seq int) string {
			tag++
			p := "p"
			switch x := r.Intn(100); {
			case x < 25:
				p = "c"
			case x < 35 && nilPres:
				p = "n"
			}
			return fmt.Sprintf("%d:%d:%s:%d", seq, 1+r.Intn(3), p, tag)
		}
		var rows []string
		for q := base; q <= U; q++ {
			if r.Intn(100) < density {
				rows = append(rows, mkRow(q))
			}
		}
		do("TR " + strings.Join(rows, " "))
		top := U
		rndRange := func() (int, int) {
			lo := r.Intn(top + 2)
			span := 0
			switch r.Intn(4) {
			case 0:
				span = r.Intn(2)
			case 1:
				span = r.Intn(5)
			default:
				span = r.Intn(top + 2)
			}
			hi := lo + span
			if hi > top+2 {
				hi = top + 2
			}
			if r.Intn(25) == 0 && lo != hi {
				lo, hi = hi, lo
			}
			return lo, hi
		}
		tokOf := func(ci *database.ChangeInfo) string {
			for tok, rr := range s.rowTab {
				if rr == ci {
					return tok
				}
			}
			return ""
		}
		steps := 4 + r.Intn(22)
		for k := 0; k < steps; k++ {
			var l string
			switch x := r.Intn(100); {
			case x < 32:
				lo, hi := rndRange()
				kk := 99
				if r.Intn(7) == 0 {
					kk = r.Intn(3)
				}
				l = fmt.Sprintf("E %d %d %d", lo, hi, kk)
			case x < 50:
				lo, hi := rndRange()
				var toks []string
				for _, ci := range s.truthIn(int64(lo), int64(hi)) {
					if r.Intn(10) < 7 {
						toks = append(toks, tokOf(ci))
					}
				}
				// rows are handed over in arbitrary order
				r.Shuffle(len(toks), func(a, b int) { toks[a], toks[b] = toks[b], toks[a] })
				if r.Intn(40) == 0 {
					toks = append(toks, mkRow(base+r.Intn(top+1))) // a row the table does not hold
				}
				l = strings.TrimSpace("I " + strings.Join(toks, " "))
			case x < 65:
				lo, hi := rndRange()
				if r.Intn(20) < 17 {
					// look for a range all of whose table rows are cached
					cached := map[int64]bool{}
					for _, it := range storeTree(s.cs) {
						cached[it.ServerSeq] = true
					}
					for try := 0; try < 16; try++ {
						ok := true
						for _, ci := range s.truthIn(int64(lo), int64(hi)) {
							if !cached[ci.ServerSeq] {
								ok = false
							}
						}
						if ok {
							break
						}
						lo, hi = rndRange()
					}
				}
				l = fmt.Sprintf("X %d %d", lo, hi)
			case x < 80:
				lo, hi := rndRange()
				l = fmt.Sprintf("Q %d %d", lo, hi)
			case x < 87:
				l = fmt.Sprintf("R %d", 1+r.Intn(4))
			case x < 89:
				l = "V"
			case x < 97:
				lo := top + 1
				if r.Intn(30) == 0 {
					lo = 1 + r.Intn(top)
				}
				n := 1 + r.Intn(3)
				var toks []string
				for q := lo; q < lo+n; q++ {
					if r.Intn(10) < 6 {
						toks = append(toks, mkRow(q))
					}
				}
				if lo+n-1 > top {
					top = lo + n - 1
				}
				l = strings.TrimSpace(fmt.Sprintf("P %d %d %s", lo, lo+n-1, strings.Join(toks, " ")))
			default:
				lo, hi := rndRange()
				switch r.Intn(4) {
				case 0:
					l = fmt.Sprintf("L E %d %d 99", lo, hi)
				case 1:
					l = fmt.Sprintf("L X %d %d", lo, hi)
				case 2:
					l = fmt.Sprintf("L R %d", 1+r.Intn(3))
				default:
					l = fmt.Sprintf("L Q %d %d", lo, hi)
				}
			}
			do(l)
		}
		if r.Intn(4) == 0 {
			do(fmt.Sprintf("QA 0 %d", min(top+1, 9)))
		}
		// the property's own sequence: pull a range, then read it
		lo, hi := rndRange()
		if lo > hi {
			lo, hi = hi, lo
		}
		do(fmt.Sprintf("E %d %d 99", lo, hi))
		c.Count(fmt.Sprintf("final:ranges=%d", min(len(storeRanges(s.cs)), 5)))
		if s.tainted {
			c.Count("trace:precondition-violated(oracle-off)")
		} else {
			c.Count("trace:preconditions-hold(oracle-on)")
		}
		if s.partial {
			c.Nontrivial()
		}
	}
	return nil
}

// storeScopes lists the exhaustive scopes per tier: (name, table, universe, depth).
// depth D = every sequence of at most D calls: all prefixes of D-1 state-changing calls,
// each followed by every call of the alphabet (state-changing, failing fetchers,
// inverted ranges) and by every query.
type storeScope struct {
	name  string
	table string
	u, d  int
}

func storeScopes(tier string) []storeScope {
	tabA := "1:1:p:11 2:2:p:12 4:1:c:14 6:2:p:16" // holes at 3 and 5
	tabB := "2:1:p:12 3:2:c:13 5:1:p:15"          // holes at 1, 4 and 6
	if tier == "thorough" {
		return []storeScope{
			{"A6d4", tabA, 6, 4}, {"B6d4", tabB, 6, 4},
			{"C4d5", "1:1:p:11 2:2:p:12 4:1:c:14", 4, 5},
			{"D7d3", "1:1:p:11 3:2:p:13 4:1:c:14 7:2:p:17", 7, 3},
		}
	}
	return []storeScope{{"A6d4", tabA, 6, 4}, {"B6d3", tabB, 6, 3}}
}

func runStoreX(c *Ctx) error {
	c.stats.Rule = "small-scope exhaustive call sequences on mongo.ChangeStore; " + storeRule
	if c.Replay != nil {
		storeReplay(c)
		return nil
	}
	// check.py hands every worker n/workers traces and seed*1000+k: props.d/C20.py sets
	// n = workers*workers, so c.N is the number of shards and Seed%1000 the shard index.
	W, k := c.N, int(c.Seed%1000)
	if W < 1 || k >= W {
		return fmt.Errorf("storex: shard %d of %d (props.d/C20.py must set n = workers*workers)", k, W)
	}
	c.stats.Exhaustive = true
	var names []string
	idx := 0
	for _, sc := range storeScopes(c.Tier) {
		names = append(names, fmt.Sprintf("%s(table=[%s] seqs=1..%d len<=%d)", sc.name, sc.table, sc.u, sc.d))
		probe := newStoreSt(c)
		probe.silent = true
		probe.exec0TR(sc.table)
		ops, mut := probe.storeAlphabet(sc.u)
		prefix := make([]int, 0, sc.d)
		var rec func()
		emit := func() {
			idx++
			if idx%W != k {
				return
			}
			c.Trace(fmt.Sprintf("x%s-%d", sc.name, idx))
			s := newStoreSt(c)
			do := func(l string) {
				c.Cmd("%s", l)
				s.exec(l)
			}
			do("TR " + sc.table)
			for _, p := range prefix {
				do(ops[p])
			}
			do(fmt.Sprintf("QA 0 %d", sc.u+1))
			do(fmt.Sprintf("LA %d", sc.u))
			if len(prefix) > 0 {
				c.Nontrivial()
			}
			c.Count(fmt.Sprintf("exhaustive:%s:prefix-len=%d", sc.name, len(prefix)))
			if s.tainted {
				c.Count("trace:precondition-violated(oracle-off)")
			} else {
				c.Count("trace:preconditions-hold(oracle-on)")
			}
		}
		rec = func() {
			emit()
			if len(prefix) == sc.d-1 {
				return
			}
			for p := 0; p < mut; p++ {
				prefix = append(prefix, p)
				rec()
				prefix = prefix[:len(prefix)-1]
			}
		}
		rec()
	}
	c.stats.ExhaustiveScope = fmt.Sprintf("shard %d/%d of: %s", k, W, strings.Join(names, "; "))
	return nil
}

// exec0TR initialises table and alphabet sources without writing anything.
func (s *storeSt) exec0TR(table string) {
	s.rows0 = strings.Fields(table)
	seen := map[int]bool{}
	for _, tok := range s.rows0 {
		a, _ := strconv.Atoi(strings.Split(tok, ":")[1])
		if !seen[a] {
			seen[a] = true
			s.actors0 = append(s.actors0, a)
		}
	}
	sort.Ints(s.actors0)
}
