package main

// engine `treeundo` (C14, tree part): Document.Update / Undo / Redo on a document that holds one tree, with a
// receiving second replica.
//
// The Lean model (Model/TreeUndo.lean, Driver/TreeUndoEngine.lean) is given the json-layer calls and the words
// UNDO / REDO only; it computes the forward operations, their reverses, the stacks, the undo/redo operations and what
// the receiver applies. Compared per step: the produced change (positions, contents, tickets, restore/retombstone
// spans, mode, vector), the top entries of both stacks, the stack depths, Marshal(), ToXML() and the structural dump
// (ids, tombstones, split links, cached lengths, attribute registers) of root and clone, on editor and receiver.
//
// Oracle on the implementation = C14: Undo/Redo return nil; after undoing a content edit the XML equals the XML
// recorded before that edit, after redoing it the XML recorded after it (to any depth; style undo is approximate: it
// must not fail, and once it deviated the comparison continues on the XML without attributes); clone == root; the
// stacks have the depth the history rules give (redo cleared by a new edit, bound MaxUndoRedoStackDepth); the
// receiver applies every change without error and ends with the editor's XML.

import (
	"fmt"
	"math/rand"
	"reflect"
	"regexp"
	"strings"

	"github.com/yorkie-team/yorkie/pkg/document"
	"github.com/yorkie-team/yorkie/pkg/document/change"
	"github.com/yorkie-team/yorkie/pkg/document/crdt"
	"github.com/yorkie-team/yorkie/pkg/document/json"
	"github.com/yorkie-team/yorkie/pkg/document/operations"
	"github.com/yorkie-team/yorkie/pkg/document/presence"
	"github.com/yorkie-team/yorkie/pkg/document/time"
	"github.com/yorkie-team/yorkie/pkg/index"
)

func init() { register("treeundo", runTreeUndo) }

type truEntry struct {
	before, after string
	style         bool
}

type truWorld struct {
	c        *Ctx
	ed, rc   *trReplica
	edFailed bool
	rcFailed bool
	sent     uint32 // client sequence of the last change delivered to the receiver
	srvSeq   int64
	hist     []truEntry // mirrors the undo stack (top = last)
	fut      []truEntry // mirrors the redo stack
	approx   bool       // an approximate (style) restoration deviated: compare without attributes from here on
	lean     bool       // long trace: no structural dumps
	crafted  bool       // a fabricated entry was pushed: the recorded XMLs no longer describe the stacks
	dead     bool
	undoRun  int
	maxRun   int
	redone   bool
}

var truAttrRe = regexp.MustCompile(`<([^/ >]+) [^>]*>`)

func truStrip(xml string) string { return truAttrRe.ReplaceAllString(xml, "<$1>") }

func truSpans(sp []*crdt.TreeRestoreSpan) string {
	if len(sp) == 0 {
		return "-"
	}
	var parts []string
	for _, s := range sp {
		k := "e"
		if s.IsText {
			k = "t"
		}
		parts = append(parts, fmt.Sprintf("%s~%d~%s", trID(s.ID), s.Length, k))
	}
	return strings.Join(parts, ",")
}

func truMode(m crdt.RestoreMode) string {
	switch m {
	case crdt.RestoreModeRestore:
		return "restore"
	case crdt.RestoreModeRetombstone:
		return "retombstone"
	}
	return "none"
}

// truOpShort prints a stacked operation: what it will do, without ticket and vector.
func truOpShort(op operations.Operation) string {
	switch o := op.(type) {
	case *operations.TreeEdit:
		if len(o.RestoreSpans())+len(o.RetombstoneSpans()) > 0 {
			return fmt.Sprintf("restore from=%s to=%s rs=%s ts=%s mode=%s", trPos(o.FromPos()), trPos(o.ToPos()),
				truSpans(o.RestoreSpans()), truSpans(o.RetombstoneSpans()), truMode(o.RestoreMode()))
		}
		if len(o.Contents()) == 0 && o.SplitLevel() == 0 {
			f, t := o.NormalizePos()
			if f == t {
				return fmt.Sprintf("noop idx=%d", f)
			}
		}
		return "unsupported"
	case *operations.TreeStyle:
		return fmt.Sprintf("style from=%s to=%s attrs=%s rem=%s", trPos(o.FromPos()), trPos(o.ToPos()),
			trSortedKV(o.Attributes(), ":", ","), trKeys(o.AttributesToRemove()))
	}
	return fmt.Sprintf("unsupported kind=%T", op)
}

func truTop(entry []document.HistoryOperation) string {
	if len(entry) == 0 {
		return "none"
	}
	var parts []string
	for _, h := range entry {
		if h.Op == nil {
			parts = append(parts, "presence")
			continue
		}
		parts = append(parts, truOpShort(h.Op))
	}
	return strings.Join(parts, " ; ")
}

// truSummary prints the change as it travels.
func truSummary(cn *change.Change) string {
	vv := ShowVV(cn.ID().VersionVector())
	var parts []string
	for _, op := range cn.Operations() {
		if te, ok := op.(*operations.TreeEdit); ok && len(te.RestoreSpans())+len(te.RetombstoneSpans()) > 0 {
			parts = append(parts, fmt.Sprintf("%s t=%s", truOpShort(te), encTicket(te.ExecutedAt())))
			continue
		}
		body, _ := trEncOpBody(op)
		var keep []string
		for _, tok := range strings.Fields(body) {
			if strings.HasPrefix(tok, "p=") || strings.HasPrefix(tok, "spans=") {
				continue
			}
			keep = append(keep, tok)
		}
		parts = append(parts, strings.Join(keep, " "))
	}
	return strings.Join(parts, " ; ") + " vv=" + vv
}

func truTopOp(d *document.Document) operations.Operation {
	if e := d.UndoStackTopForTest(); len(e) > 0 {
		return e[0].Op
	}
	return nil
}

func truRedoTopOp(d *document.Document) operations.Operation {
	if e := d.RedoStackTopForTest(); len(e) > 0 {
		return e[0].Op
	}
	return nil
}

func truRedoLen(d *document.Document) int {
	h := rfield(reflect.ValueOf(d).Elem(), "history")
	return rfield(h.Elem(), "redoStack").Len()
}

// symptom: the tag of a listed tree finding whose direct symptom is present on the editor or the receiver (trSymptoms of engine
// `tree`: a text node holding U+FFFD = an edit boundary cut a surrogate pair, c19-surrogate-cut).
func (w *truWorld) symptom() string {
	tw := &trWorld{c: w.c, ord: []*trReplica{w.ed}}
	if w.rc != nil {
		tw.ord = append(tw.ord, w.rc)
	}
	return tw.trSymptoms()
}

func (w *truWorld) oracle(format string, a ...any) {
	w.c.Oracle("%s%s", w.symptom(), fmt.Sprintf(format, a...))
}

func (w *truWorld) observe(rep *trReplica, failed bool) {
	c := w.c
	if failed {
		return
	}
	root := rep.doc.Marshal()
	clone := rep.doc.Root().Marshal()
	c.Cmd("M %s", rep.name)
	c.Obs("%s", root)
	c.Cmd("MC %s", rep.name)
	c.Obs("%s", clone)
	if clone != root {
		w.oracle("clone != root on %s: clone=%s root=%s", rep.name, clone, root)
	}
	rt, ct := trRootTree(rep), trCloneTree(rep)
	c.Cmd("X %s root", rep.name)
	c.Obs("%s", trXML(rt))
	c.Cmd("X %s clone", rep.name)
	c.Obs("%s", trXML(ct))
	if !w.lean {
		c.Cmd("D %s root", rep.name)
		c.Obs("%s", trDump(rt))
		c.Cmd("D %s clone", rep.name)
		c.Obs("%s", trDump(ct))
	}
}

func (w *truWorld) stacks() {
	c := w.c
	d := w.ed.doc
	u, r := d.UndoStackLenForTest(), truRedoLen(d)
	c.Cmd("H")
	c.Obs("undo=%d redo=%d utop=[%s] rtop=[%s]", u, r, truTop(d.UndoStackTopForTest()), truTop(d.RedoStackTopForTest()))
	if u != len(w.hist) || r != len(w.fut) {
		w.oracle("stack depths: undo=%d redo=%d, the history rules give undo=%d redo=%d", u, r, len(w.hist), len(w.fut))
	}
	if r > 0 != d.CanRedo() || u > 0 != d.CanUndo() {
		w.oracle("CanUndo/CanRedo disagree with the stacks: undo=%d redo=%d", u, r)
	}
}

func (w *truWorld) xml() string {
	if t := trRootTree(w.ed); t != nil {
		return t.ToXML()
	}
	return "none"
}

func (w *truWorld) seed(sa, ea, ra string, init *json.TreeNode) {
	c := w.c
	sd := document.New("doc-tree")
	sd.SetActor(NatActor(sa))
	sd.SetStatus(document.StatusAttached)
	if err := sd.Update(func(root *json.Object, p *presence.Presence) error {
		root.SetNewTree("t", *init)
		return nil
	}); err != nil {
		c.Obs("err")
		w.dead = true
		return
	}
	mk := func(name, actor string) *trReplica {
		d := document.New("doc-tree")
		d.SetActor(NatActor(actor))
		d.SetStatus(document.StatusAttached)
		wire, err := roundTrip(sd.CreateChangePack().Changes)
		if err == nil {
			err = d.ApplyChangePack(change.NewPack(d.Key(), change.NewCheckpoint(1, 0), wire, nil, nil))
		}
		if err != nil {
			return nil
		}
		return &trReplica{name: name, doc: d, actor: NatActor(actor)}
	}
	w.ed, w.rc = mk("e", ea), mk("r", ra)
	w.srvSeq = 1
	if w.ed == nil || w.rc == nil {
		c.Obs("err")
		w.dead = true
		return
	}
	c.Obs("ok")
	w.stacks()
	w.observe(w.ed, false)
	w.observe(w.rc, false)
}

func (w *truWorld) pushHist(e truEntry) {
	w.hist = append(w.hist, e)
	if len(w.hist) > document.MaxUndoRedoStackDepth {
		w.hist = w.hist[1:]
	}
}

func (w *truWorld) pushFut(e truEntry) {
	w.fut = append(w.fut, e)
	if len(w.fut) > document.MaxUndoRedoStackDepth {
		w.fut = w.fut[1:]
	}
}

func (w *truWorld) edit(cl trCall) {
	c := w.c
	if w.edFailed {
		c.Obs("skipped")
		return
	}
	d := w.ed.doc
	before := w.xml()
	nBefore := len(d.CreateChangePack().Changes)
	opBefore := truTopOp(d)
	var panicked any
	err := d.Update(func(root *json.Object, p *presence.Presence) error {
		t := root.GetTree("t")
		if t == nil {
			return fmt.Errorf("no tree")
		}
		panicked = safely(func() {
			switch cl.kind {
			case "edit":
				switch len(cl.contents) {
				case 0:
					t.Edit(cl.from, cl.to, nil, cl.sl)
				case 1:
					t.Edit(cl.from, cl.to, cl.contents[0], cl.sl)
				default:
					t.EditBulk(cl.from, cl.to, cl.contents, cl.sl)
				}
			case "style":
				t.Style(cl.from, cl.to, cl.attrs)
			case "rmstyle":
				t.RemoveStyle(cl.from, cl.to, cl.keys)
			}
		})
		if panicked != nil {
			return fmt.Errorf("json call panicked: %v", panicked)
		}
		return nil
	})
	if err != nil {
		c.Obs("err")
		w.edFailed = true
		w.oracle("Update failed (%s): %v", trEncCall(cl), err)
		return
	}
	chs := d.CreateChangePack().Changes
	if len(chs) == nBefore {
		c.Obs("ch none")
		c.Count("edit:no-change")
		return
	}
	c.Obs("ch %s", truSummary(chs[len(chs)-1]))
	after := w.xml()
	isStyle := cl.kind != "edit"
	pushed := truTopOp(d) != opBefore
	if pushed {
		w.pushHist(truEntry{before, after, isStyle})
	} else {
		c.Count("edit:no-reverse")
		if isStyle && before != after {
			// Style/RemoveStyle capture the previous attributes on the FIRST styled node only: when that node did not
			// carry the key, no reverse exists although later nodes of the range changed
			w.approx = true
			c.Count("approx:style-changed-xml-but-pushed-no-reverse")
		}
		if !isStyle {
			w.oracle("a tree edit pushed no reverse: %s", trEncCall(cl))
		}
	}
	w.fut = nil
	w.undoRun = 0
	if isStyle {
		c.Count("do:style")
	} else {
		c.Count("do:edit")
	}
	w.stacks()
	w.observe(w.ed, false)
	if strings.Contains(truTop(d.UndoStackTopForTest()), "unsupported") {
		// a reverse outside the modelled domain (merge / split / copy-reinsert): the trace ends here
		c.Count("trace:ended-at-unsupported-reverse")
		w.dead = true
	}
}

func (w *truWorld) undoRedo(isUndo bool) {
	c := w.c
	if w.edFailed {
		c.Obs("skipped")
		return
	}
	d := w.ed.doc
	word := "Redo"
	if isUndo {
		word = "Undo"
	}
	nBefore := len(d.CreateChangePack().Changes)
	otherBefore := truRedoTopOp(d)
	if !isUndo {
		otherBefore = truTopOp(d)
	}
	var err error
	if rec := safely(func() {
		if isUndo {
			err = d.Undo()
		} else {
			err = d.Redo()
		}
	}); rec != nil {
		err = fmt.Errorf("panic: %v", rec)
	}
	st := &w.hist
	if !isUndo {
		st = &w.fut
	}
	if err != nil {
		c.Obs("err")
		w.edFailed = true
		w.oracle("%s failed: %v", word, err)
		return
	}
	chs := d.CreateChangePack().Changes
	if len(chs) == nBefore {
		c.Obs("empty")
		if len(*st) != 0 {
			w.oracle("%s did nothing although the history holds %d entries", word, len(*st))
			*st = nil
		}
		c.Count("undo-redo:empty")
		return
	}
	c.Obs("ch %s", truSummary(chs[len(chs)-1]))
	got := w.xml()
	if len(*st) == 0 {
		w.oracle("%s produced a change although the history is empty", word)
	} else {
		e := (*st)[len(*st)-1]
		*st = (*st)[:len(*st)-1]
		want := e.after
		if isUndo {
			want = e.before
		}
		switch {
		case w.crafted:
			// fabricated entries changed the document outside the recorded history: only failures count from here on
		case e.style:
			if got != want {
				w.approx = true
				c.Count("approx:style-restoration-deviated")
			}
		case w.approx:
			if truStrip(got) != truStrip(want) {
				w.oracle("%s of a content edit: XML (without attributes) %s, recorded %s", word, truStrip(got), truStrip(want))
			}
		default:
			if got != want {
				w.oracle("%s of a content edit: XML %s, recorded %s", word, got, want)
			}
		}
		otherAfter := truRedoTopOp(d)
		if !isUndo {
			otherAfter = truTopOp(d)
		}
		switch {
		case otherAfter == otherBefore && e.style:
			// the reverse of a style is built from the first styled node only; when that node holds none of the keys
			// the executed reverse has no reverse itself and the entry is lost for the other stack
			c.Count("approx:style-" + strings.ToLower(word) + "-pushed-no-reverse")
		case otherAfter == otherBefore:
			w.oracle("%s of a content edit pushed no entry to the other stack", word)
		case isUndo:
			w.pushFut(e)
		default:
			w.pushHist(e)
		}
	}
	if isUndo {
		w.undoRun++
		if w.undoRun > w.maxRun {
			w.maxRun = w.undoRun
		}
		c.Count("undo")
	} else {
		w.redone = true
		w.undoRun = 0
		c.Count("redo")
	}
	if w.maxRun >= 3 && w.redone {
		c.Nontrivial()
	}
	w.stacks()
	w.observe(w.ed, false)
}

func (w *truWorld) sync() {
	c := w.c
	if w.rcFailed || w.edFailed {
		c.Obs("skipped")
		return
	}
	var fresh []*change.Change
	for _, cn := range w.ed.doc.CreateChangePack().Changes {
		if cn.ClientSeq() > w.sent {
			fresh = append(fresh, cn)
		}
	}
	wire, err := roundTrip(fresh)
	if err != nil {
		c.Obs("err at=0")
		w.rcFailed = true
		w.oracle("converter round trip failed: %v", err)
		return
	}
	for i, cn := range wire {
		w.srvSeq++
		resp := change.NewPack(w.rc.doc.Key(), change.NewCheckpoint(w.srvSeq, 0), []*change.Change{cn}, nil, nil)
		var aerr error
		if rec := safely(func() { aerr = w.rc.doc.ApplyChangePack(resp) }); rec != nil {
			aerr = fmt.Errorf("panic: %v", rec)
		}
		if aerr != nil {
			c.Obs("err at=%d", i)
			w.rcFailed = true
			w.oracle("the receiver rejected change %d (%s): %v", i, truSummary(cn), aerr)
			return
		}
		w.sent = fresh[i].ClientSeq()
	}
	c.Obs("ok n=%d", len(wire))
	c.Count("sync")
	w.observe(w.rc, false)
	if a, b := w.xml(), trRootTree(w.rc).ToXML(); a != b {
		w.oracle("after the sync the receiver holds %s, the editor %s", b, a)
	}
}

// truParseSpans reads `id~len~t|e,...` (the format truSpans prints).
func truParseSpans(s string) ([]*crdt.TreeRestoreSpan, error) {
	if s == "-" {
		return nil, nil
	}
	var out []*crdt.TreeRestoreSpan
	for _, it := range strings.Split(s, ",") {
		f := strings.Split(it, "~")
		if len(f) != 3 {
			return nil, fmt.Errorf("bad span %q", it)
		}
		q := strings.Split(f[0], ":")
		if len(q) != 4 {
			return nil, fmt.Errorf("bad span id %q", f[0])
		}
		var lam int64
		var delim uint32
		var off, ln int
		if _, err := fmt.Sscan(q[0], &lam); err != nil {
			return nil, err
		}
		if _, err := fmt.Sscan(q[1], &delim); err != nil {
			return nil, err
		}
		if _, err := fmt.Sscan(q[3], &off); err != nil {
			return nil, err
		}
		if _, err := fmt.Sscan(f[1], &ln); err != nil {
			return nil, err
		}
		sp := &crdt.TreeRestoreSpan{ID: crdt.NewTreeNodeID(time.NewTicket(lam, delim, NatActor(q[2])), off), IsText: f[2] == "t", Length: ln}
		if sp.IsText {
			sp.NodeType = index.TextNodeType
			sp.Value = strings.Repeat("x", ln) // the converter checks |Value| = Length; only recreateFromSpan reads it
		}
		out = append(out, sp)
	}
	return out, nil
}

// craft pushes a fabricated identity reverse onto the undo stack (Document.PushUndoForTest): spans that cut pieces of a
// text insertion anywhere - the shape a reverse has after concurrent edits split its nodes, which a single client never
// produces on its own (every span boundary is a piece boundary there). The following Undo / Redo run through
// isolateTextRange on the real code and through `isolate` in the model.
func (w *truWorld) craft(mode, rs, ts string) error {
	c := w.c
	if w.edFailed {
		c.Obs("skipped")
		return nil
	}
	rsp, err := truParseSpans(rs)
	if err != nil {
		return err
	}
	tsp, err := truParseSpans(ts)
	if err != nil {
		return err
	}
	t := trRootTree(w.ed)
	pos, err := t.FindPos(0)
	if err != nil {
		c.Obs("err")
		return nil
	}
	m := crdt.RestoreModeRestore
	if mode == "retombstone" {
		m = crdt.RestoreModeRetombstone
	}
	op := operations.NewRestoreTreeEdit(t.CreatedAt(), pos, pos, nil, rsp, m, tsp)
	w.ed.doc.PushUndoForTest([]document.HistoryOperation{{Op: op}})
	w.crafted = true
	w.pushHist(truEntry{style: true})
	c.Obs("ok")
	c.Count("craft")
	w.stacks()
	return nil
}

// truGenCraft picks spans over the text insertions and elements of the editor's tree.
func truGenCraft(r *rand.Rand, t *crdt.Tree) (string, string, string) {
	type ins struct {
		ca       *time.Ticket
		min, max int
	}
	var texts []*ins
	byCA := map[string]*ins{}
	var elems []*crdt.TreeNode
	index.TraverseNode(t.Root().Index, func(node *index.Node[*crdt.TreeNode], _ int) {
		n := node.Value
		if n == t.Root() {
			return
		}
		if !n.IsText() {
			elems = append(elems, n)
			return
		}
		k := encTicket(n.ID().CreatedAt)
		x := byCA[k]
		if x == nil {
			x = &ins{ca: n.ID().CreatedAt, min: n.ID().Offset, max: n.ID().Offset + n.Length()}
			byCA[k] = x
			texts = append(texts, x)
		}
		x.min = min(x.min, n.ID().Offset)
		x.max = max(x.max, n.ID().Offset+n.Length())
	})
	one := func() string {
		if len(texts) > 0 && (len(elems) == 0 || r.Intn(4) > 0) {
			x := texts[r.Intn(len(texts))]
			if x.max-x.min < 1 {
				return ""
			}
			a := x.min + r.Intn(x.max-x.min)
			b := a + 1 + r.Intn(x.max-a)
			return fmt.Sprintf("%s:%d~%d~t", encTicket(x.ca), a, b-a)
		}
		if len(elems) > 0 {
			return fmt.Sprintf("%s~0~e", trID(elems[r.Intn(len(elems))].ID()))
		}
		return ""
	}
	list := func(n int) string {
		var parts []string
		for i := 0; i < n; i++ {
			if s := one(); s != "" {
				parts = append(parts, s)
			}
		}
		if len(parts) == 0 {
			return "-"
		}
		return strings.Join(parts, ",")
	}
	mode := "restore"
	if r.Intn(2) == 0 {
		mode = "retombstone"
	}
	return mode, list(1 + r.Intn(2)), list(r.Intn(2))
}

func (w *truWorld) exec(line string) (err error) {
	f := strings.Fields(line)
	if len(f) == 0 || w.dead {
		return nil
	}
	defer func() {
		if r := recover(); r != nil {
			msg := fmt.Sprint(r)
			if len(msg) > 300 {
				msg = msg[:300]
			}
			w.c.Oracle("panic while executing %q: %s", line, msg)
			w.dead = true
		}
	}()
	switch f[0] {
	case "SEED":
		if len(f) != 5 {
			return fmt.Errorf("bad line %q", line)
		}
		init, err := trDecJ(f[4])
		if err != nil || init == nil {
			return fmt.Errorf("bad line %q", line)
		}
		w.seed(f[1], f[2], f[3], init)
	case "E":
		if len(f) != 2 || w.ed == nil {
			return fmt.Errorf("bad line %q", line)
		}
		cl, err := trDecCall(f[1])
		if err != nil {
			return err
		}
		w.edit(cl)
	case "UNDO":
		w.undoRedo(true)
	case "REDO":
		w.undoRedo(false)
	case "SYNC":
		w.sync()
	case "LEAN":
		w.lean = true
	case "CRAFT":
		if len(f) != 4 || w.ed == nil {
			return fmt.Errorf("bad line %q", line)
		}
		return w.craft(f[1], f[2], f[3])
	}
	return nil
}

// ---------------------------------------------------------------------------------------------
// generator

func truMixedInitial(r *rand.Rand) json.TreeNode {
	root := json.TreeNode{Type: "root", Children: []json.TreeNode{}}
	for i, k := 0, 1+r.Intn(3); i < k; i++ {
		p := json.TreeNode{Type: "p", Children: []json.TreeNode{}}
		if r.Intn(4) == 0 {
			p.Attributes = trGenAttrs(r)
		}
		for j, m := 0, 1+r.Intn(4); j < m; j++ {
			if j%2 == 1 && r.Intn(2) == 0 {
				b := json.TreeNode{Type: trElemTypes[1+r.Intn(2)], Children: []json.TreeNode{}}
				if r.Intn(3) > 0 {
					b.Children = append(b.Children, trText(trGenText(r)))
				}
				if r.Intn(3) == 0 {
					b.Attributes = trGenAttrs(r)
				}
				p.Children = append(p.Children, b)
			} else {
				p.Children = append(p.Children, trText(trGenText(r)))
			}
		}
		root.Children = append(root.Children, p)
	}
	return root
}

// truGenCall: the calls of engine `tree` (text insert / delete / replace inside one element, whole-element insert /
// delete / replace, styles) plus balanced ranges over mixed siblings (part of a text, inline elements, part of the
// next text) and inline elements inserted inside a text. No call merges or splits elements.
func truGenCall(r *rand.Rand, xml string) trCall {
	if r.Intn(100) < 65 {
		return trGenCall(r, xml)
	}
	toks, ok := trTokens(xml)
	if !ok {
		return trCall{kind: "nop"}
	}
	n := len(toks) - 2
	if n < 2 {
		return trGenCall(r, xml)
	}
	isTag := func(t string) bool { return strings.HasPrefix(t, "<") }
	for try := 0; try < 10; try++ {
		i := 1 + r.Intn(n-1)
		var ends []int
		depth := 0
		for j := i + 1; j <= n; j++ {
			t := toks[j]
			if strings.HasPrefix(t, "</") {
				depth--
				if depth < 0 {
					break
				}
			} else if isTag(t) {
				depth++
			}
			if depth == 0 {
				ends = append(ends, j)
			}
		}
		if r.Intn(4) == 0 || len(ends) == 0 {
			// inline element inside / next to a text
			if !isTag(toks[i]) || !isTag(toks[i+1]) {
				e := json.TreeNode{Type: trElemTypes[1+r.Intn(2)], Children: []json.TreeNode{}}
				if r.Intn(2) == 0 {
					e.Children = append(e.Children, trText(trGenText(r)))
				}
				return trCall{kind: "edit", from: i, to: i, contents: []*json.TreeNode{&e}}
			}
			continue
		}
		j := ends[r.Intn(len(ends))]
		cl := trCall{kind: "edit", from: i, to: j}
		if r.Intn(3) == 0 && (!isTag(toks[i]) || !isTag(toks[i+1])) {
			t := trText(trGenText(r))
			cl.contents = []*json.TreeNode{&t}
		}
		return cl
	}
	return trGenCall(r, xml)
}

func runTreeUndoRandom(c *Ctx) error {
	r := c.Rng
	for i := 0; i < c.N; i++ {
		c.Trace(fmt.Sprintf("treeundo-%d-%d", c.Seed, i))
		w := &truWorld{c: c}
		do := func(format string, a ...any) error {
			l := fmt.Sprintf(format, a...)
			if w.dead {
				return nil
			}
			c.Cmd("%s", l)
			return w.exec(l)
		}
		// supplementary-plane characters in one trace out of twelve (an edit boundary inside a pair: listed finding c19-surrogate-cut)
		trPoolN = len(trTextPool) - 2
		if r.Intn(12) == 0 {
			trPoolN = len(trTextPool)
			c.Count("trace:with-supplementary-characters")
		}
		long := i == 0
		var init json.TreeNode
		if r.Intn(2) == 0 {
			init = trGenInitial(r)
		} else {
			init = truMixedInitial(r)
			c.Count("trace:mixed-content")
		}
		if long {
			if err := do("LEAN"); err != nil {
				return err
			}
		}
		if err := do("SEED %s %s %s %s", ActorNat(mkActor(r, 0)), ActorNat(mkActor(r, 1)), ActorNat(mkActor(r, 2)), trEncJ(&init)); err != nil {
			return err
		}
		withRc := r.Intn(3) == 0
		if withRc {
			c.Count("trace:with-receiver")
		}
		gen := func() error {
			ct := trCloneTree(w.ed)
			if ct == nil {
				return nil
			}
			cl := truGenCall(r, ct.ToXML())
			if cl.kind == "nop" {
				return nil
			}
			return do("E %s", trEncCall(cl))
		}
		if long {
			// the depth bound: more edits than the stacks hold, then more undos than entries, then redos
			c.Count("trace:depth-bound")
			// calls are generated until more entries were PUSHED than the stacks hold (some calls push nothing)
			want := document.MaxUndoRedoStackDepth + 3 + r.Intn(4)
			pushes := 0
			for s := 0; s < 3*want && pushes < want && !w.dead && !w.edFailed; s++ {
				before := truTopOp(w.ed.doc)
				if err := gen(); err != nil {
					return err
				}
				if truTopOp(w.ed.doc) != before {
					pushes++
				}
			}
			if pushes >= want {
				c.Count("trace:depth-bound-exceeded")
			}
			for s := 0; s < document.MaxUndoRedoStackDepth+2 && !w.dead && !w.edFailed; s++ {
				if err := do("UNDO"); err != nil {
					return err
				}
			}
			for s := 0; s < document.MaxUndoRedoStackDepth+2 && !w.dead && !w.edFailed; s++ {
				if err := do("REDO"); err != nil {
					return err
				}
			}
			if err := do("SYNC"); err != nil {
				return err
			}
			continue
		}
		steps := 8 + r.Intn(22)
		for s := 0; s < steps && !w.dead && !w.edFailed; s++ {
			x := r.Intn(100)
			var err error
			switch {
			case x < 50:
				err = gen()
			case x < 55:
				// a run: undo k, redo k
				k := 3 + r.Intn(4)
				for q := 0; q < k && err == nil; q++ {
					err = do("UNDO")
				}
				for q, m := 0, r.Intn(k+1); q < m && err == nil; q++ {
					err = do("REDO")
				}
			case x < 78:
				if len(w.hist) == 0 && r.Intn(5) > 0 {
					err = gen()
				} else {
					err = do("UNDO")
				}
			case x < 92:
				if len(w.fut) == 0 && r.Intn(5) > 0 {
					err = gen()
				} else {
					err = do("REDO")
				}
			default:
				if withRc {
					err = do("SYNC")
				} else {
					err = gen()
				}
			}
			if err != nil {
				return err
			}
		}
		if !w.dead && !w.edFailed {
			// back to the beginning and forth again
			k := len(w.hist)
			for q := 0; q < k+1 && !w.edFailed; q++ {
				if err := do("UNDO"); err != nil {
					return err
				}
			}
			for q, m := 0, r.Intn(k+2); q < m && !w.edFailed; q++ {
				if err := do("REDO"); err != nil {
					return err
				}
			}
		}
		if !w.dead && !w.edFailed && r.Intn(6) == 0 {
			c.Count("trace:with-crafted-spans")
			for q, m := 0, 1+r.Intn(3); q < m && !w.edFailed; q++ {
				mode, rs, ts := truGenCraft(r, trRootTree(w.ed))
				if rs == "-" && ts == "-" {
					continue
				}
				if err := do("CRAFT %s %s %s", mode, rs, ts); err != nil {
					return err
				}
				for _, st := range []string{"UNDO", "REDO", "UNDO", "REDO"}[:2+r.Intn(3)] {
					if err := do("%s", st); err != nil {
						return err
					}
				}
			}
			withRc = true
		}
		if withRc || r.Intn(4) == 0 {
			if err := do("SYNC"); err != nil {
				return err
			}
		}
	}
	return nil
}

func runTreeUndo(c *Ctx) error {
	c.stats.Rule = "treeundo: one editing document holding one tree executes Update (text insert/delete/replace inside one " +
		"element, whole-element insert/delete/replace, balanced deletes over mixed siblings, inline elements inside text, " +
		"style/remove-style), Undo and Redo; the Lean model computes every forward operation, its reverse, both stacks and " +
		"every undo/redo operation from its own state; the produced changes, stack tops and depths, Marshal(), ToXML() and the node " +
		"structure (ids, tombstones, split links, cached lengths, attribute registers) of root and clone are compared after every " +
		"step, and on a receiving replica after each delivery; one trace in six ends with fabricated identity reverses (PushUndoForTest) whose " +
		"spans cut text pieces anywhere, so Undo/Redo run through isolateTextRange (a single client never produces such spans); non-trivial = a run of at least three consecutive undos and at least one redo"
	if c.Replay != nil {
		w := &truWorld{c: c}
		for _, l := range c.Replay {
			f := strings.Fields(l)
			if len(f) == 0 {
				continue
			}
			switch f[0] {
			case "T":
				c.Trace(strings.TrimSpace(strings.TrimPrefix(l, "T")))
				w = &truWorld{c: c}
			case "SEED", "E", "UNDO", "REDO", "SYNC", "LEAN", "CRAFT":
				if c.traceID == "" {
					c.Trace("replay")
				}
				if w.dead {
					continue
				}
				c.Cmd("%s", l)
				if err := w.exec(l); err != nil {
					return err
				}
			}
		}
		return nil
	}
	return runTreeUndoRandom(c)
}
