//go:build verif

package main

// engine `locker`: the real pkg/locker (named RWMutexes with reference counting) driven by
// 2..4 worker goroutines, one call at a time, observed at QUIESCENCE; + one free-running
// stress trace (oracle only).
//
//	NEW <nG> <nK>        fresh locker.New(), workers g0..g(nG-1), keys "k0".."k(nK-1)"   -> NEW
//	OP <g> <op> <k>      op = L (Lock) | R (RLock) | T (TryLock) | U (Unlock) | RU (RUnlock)
//	                     -> <res> | g0:<held>:<wait> g1:… | map=<k<j>=<waiters>,…|->
//	                     res = acquired | blocked | try-ok | try-failed | released |
//	                           err:no-such-lock | err:other | panic | busy | illegal
//	                     busy    = g is parked in an earlier call: not executed
//	                     illegal = misuse by the harness's own bookkeeping (U k without W.k, RU k
//	                               without R.k, L/R/T k on a key g holds): not executed (an Unlock of
//	                               an unlocked RWMutex is an unrecoverable fatal error)
//	END                  -> END map=<M> [stuck]        (stuck: some worker still parked; abandoned)
//	STRESS <seed> <n>    n holder/waiter/poller episodes on one key, free running -> STRESS done
//
// Quiescence: after a command is handed to a worker the harness loops: collect the results that
// arrived (from any worker), take a goroutine dump and look at every worker with an unfinished
// call; it counts as parked only when its goroutine is in a semaphore wait state of sync.(RW)Mutex
// below a sync.(*RWMutex) frame (so the short Locker.mu is not mistaken for the inner mutex).
// Quiescent = two consecutive looks >= 100 µs apart with the same finished results in which every
// worker is idle or parked. A goroutine that was just woken is `runnable`, not parked; all wake-ups
// happen inside the releasing call, which is itself unfinished until its result arrived.

import (
	"bytes"
	"fmt"
	"math/rand"
	"reflect"
	"runtime"
	"sort"
	"strconv"
	"strings"
	"sync"
	"sync/atomic"
	"time"
	"unsafe"

	"github.com/yorkie-team/yorkie/pkg/locker"
)

func init() { register("locker", lk2Run) }

type lk2Held struct {
	mode byte // 'W' | 'R'
	k    int
}

type lk2Call struct {
	op string
	k  int
}

type lk2Res struct {
	g   int
	ok  bool // TryLock
	err error
	pan any
}

type lk2World struct {
	c      *Ctx
	l      *locker.Locker
	nG, nK int
	keys   []string
	cmd    []chan lk2Call
	res    chan lk2Res
	goid   []uint64
	held   [][]lk2Held
	pend   []*lk2Call
	buf    []byte
	diag   string

	sawWake, sawTryFail bool
}

// lk2Goid is the id of the calling goroutine (first line of its stack: "goroutine N [").
func lk2Goid() uint64 {
	var buf [64]byte
	n := runtime.Stack(buf[:], false)
	var id uint64
	for _, ch := range buf[len("goroutine "):n] {
		if ch < '0' || ch > '9' {
			break
		}
		id = id*10 + uint64(ch-'0')
	}
	return id
}

func lk2Do(l *locker.Locker, key string, op string, r *lk2Res) {
	r.pan = safely(func() {
		switch op {
		case "L":
			l.Lock(key)
		case "R":
			l.RLock(key)
		case "T":
			r.ok = l.TryLock(key)
		case "U":
			r.err = l.Unlock(key)
		case "RU":
			r.err = l.RUnlock(key)
		}
	})
}

func lk2Worker(l *locker.Locker, g int, keys []string, in <-chan lk2Call, out chan<- lk2Res, ready chan<- uint64) {
	ready <- lk2Goid()
	for call := range in {
		r := lk2Res{g: g}
		lk2Do(l, keys[call.k], call.op, &r)
		out <- r
	}
}

func lk2New(c *Ctx, nG, nK int) *lk2World {
	w := &lk2World{c: c, l: locker.New(), nG: nG, nK: nK, res: make(chan lk2Res, 4*nG+4), buf: make([]byte, 1<<16)}
	for k := 0; k < nK; k++ {
		w.keys = append(w.keys, "k"+strconv.Itoa(k))
	}
	w.held = make([][]lk2Held, nG)
	w.pend = make([]*lk2Call, nG)
	for g := 0; g < nG; g++ {
		ch := make(chan lk2Call, 1)
		ready := make(chan uint64, 1)
		go lk2Worker(w.l, g, w.keys, ch, w.res, ready)
		w.cmd = append(w.cmd, ch)
		w.goid = append(w.goid, <-ready)
	}
	return w
}

// stop closes the command channels: idle workers exit, parked ones are abandoned.
func (w *lk2World) stop() {
	for _, ch := range w.cmd {
		close(ch)
	}
	w.cmd = nil
}

// lk2ParkedSet returns the ids of the goroutines parked inside an inner RWMutex; states (may be
// nil) receives the wait state of every goroutine.
func lk2ParkedSet(buf *[]byte, states map[uint64]string) map[uint64]bool {
	var n int
	for {
		n = runtime.Stack(*buf, true)
		if n < len(*buf) {
			break
		}
		*buf = make([]byte, 2*len(*buf))
	}
	out := map[uint64]bool{}
	for _, blk := range bytes.Split((*buf)[:n], []byte("\n\n")) {
		if !bytes.HasPrefix(blk, []byte("goroutine ")) {
			continue
		}
		hdr := blk
		if i := bytes.IndexByte(blk, '\n'); i >= 0 {
			hdr = blk[:i]
		}
		var id uint64
		for _, ch := range hdr[len("goroutine "):] {
			if ch < '0' || ch > '9' {
				break
			}
			id = id*10 + uint64(ch-'0')
		}
		i, j := bytes.IndexByte(hdr, '['), bytes.LastIndexByte(hdr, ']')
		if i < 0 || j < i {
			continue
		}
		st := string(hdr[i+1 : j])
		if states != nil {
			states[id] = st
		}
		if strings.HasPrefix(st, "sync.RWMutex.Lock") || strings.HasPrefix(st, "sync.RWMutex.RLock") ||
			strings.HasPrefix(st, "sync.Mutex.Lock") || strings.HasPrefix(st, "semacquire") {
			if bytes.Contains(blk, []byte("sync.(*RWMutex).")) {
				out[id] = true
			}
		}
	}
	return out
}

// apply books one finished call.
func (w *lk2World) apply(r lk2Res) {
	call := w.pend[r.g]
	w.pend[r.g] = nil
	if call == nil || r.pan != nil {
		return
	}
	switch call.op {
	case "L":
		w.held[r.g] = append(w.held[r.g], lk2Held{'W', call.k})
	case "R":
		w.held[r.g] = append(w.held[r.g], lk2Held{'R', call.k})
	case "T":
		if r.ok {
			w.held[r.g] = append(w.held[r.g], lk2Held{'W', call.k})
		}
	case "U", "RU":
		m := byte('W')
		if call.op == "RU" {
			m = 'R'
		}
		h := w.held[r.g]
		for i := len(h) - 1; i >= 0; i-- {
			if h[i].mode == m && h[i].k == call.k {
				w.held[r.g] = append(append([]lk2Held{}, h[:i]...), h[i+1:]...)
				break
			}
		}
	}
}

// quiesce waits until every worker is idle or parked (two consecutive looks >= 100 µs apart with
// the same finished results) and returns the results that arrived, in arrival order.
// ok=false: the 2 s bound was hit. Waiting is a Gosched spin: timers of the runtime are only
// precise to about a millisecond.
func (w *lk2World) quiesce() (got []lk2Res, ok bool) {
	start := time.Now()
	collect := func() {
		for {
			select {
			case r := <-w.res:
				got = append(got, r)
				w.apply(r)
				continue
			default:
			}
			return
		}
	}
	npend := func() int {
		n := 0
		for _, p := range w.pend {
			if p != nil {
				n++
			}
		}
		return n
	}
	// spin until d has passed since t0 or a result is waiting
	spin := func(t0 time.Time, d time.Duration) {
		for len(w.res) == 0 && time.Since(t0) < d {
			runtime.Gosched()
		}
	}
	spin(start, 40*time.Microsecond) // most calls return at once
	prevSettled, prevN, looks := false, -1, 0
	for {
		collect()
		if npend() == 0 {
			return got, true
		}
		states := map[uint64]string{}
		parked := lk2ParkedSet(&w.buf, states)
		looks++
		now := time.Now()
		settled := len(w.res) == 0 // a result may have been sent between collect and the dump
		for g, p := range w.pend {
			if p != nil && !parked[w.goid[g]] {
				settled = false
			}
		}
		if settled && prevSettled && prevN == len(got) {
			return got, true
		}
		prevSettled, prevN = settled, len(got)
		// (a look that is settled after the bound still gets its confirming look: one long stall
		// of this process must not be mistaken for a call that does not settle)
		if !settled && now.Sub(start) > 2*time.Second {
			w.diag = fmt.Sprintf("%d looks in %s;", looks, now.Sub(start).Round(time.Millisecond))
			for g, p := range w.pend {
				if p != nil {
					w.diag += fmt.Sprintf(" g%d in %s.k%d is [%s]", g, p.op, p.k, states[w.goid[g]])
				}
			}
			return got, false
		}
		if settled {
			spin(now, 110*time.Microsecond)
		} else {
			spin(now, 60*time.Microsecond)
		}
	}
}

func lk2KeyIdx(s string) int {
	n, err := strconv.Atoi(strings.TrimPrefix(s, "k"))
	if err != nil {
		return 1 << 30
	}
	return n
}

// lk2Map prints Locker.locks canonically. Locker.mu is taken (TryLock, bounded) only to order
// this read after the workers' writes, which all happen under it; at quiescence nobody holds it.
func lk2Map(l *locker.Locker) string {
	v := reflect.ValueOf(l).Elem()
	mu := (*sync.Mutex)(unsafe.Pointer(rfield(v, "mu").UnsafeAddr()))
	locked := false
	for i := 0; i < 2000 && !locked; i++ {
		if locked = mu.TryLock(); !locked {
			time.Sleep(50 * time.Microsecond)
		}
	}
	type kv struct {
		k string
		n int64
	}
	var l2 []kv
	it := rfield(v, "locks").MapRange()
	for it.Next() {
		l2 = append(l2, kv{it.Key().String(), rfield(it.Value().Elem(), "waiters").Int()})
	}
	if locked {
		mu.Unlock()
	}
	if len(l2) == 0 {
		return "-"
	}
	sort.Slice(l2, func(i, j int) bool {
		a, b := lk2KeyIdx(l2[i].k), lk2KeyIdx(l2[j].k)
		if a != b {
			return a < b
		}
		return l2[i].k < l2[j].k
	})
	var sb strings.Builder
	for i, e := range l2 {
		if i > 0 {
			sb.WriteByte(',')
		}
		fmt.Fprintf(&sb, "%s=%d", e.k, e.n)
	}
	return sb.String()
}

func (w *lk2World) tail() string {
	var sb strings.Builder
	for g := 0; g < w.nG; g++ {
		fmt.Fprintf(&sb, "g%d:", g)
		if len(w.held[g]) == 0 {
			sb.WriteByte('-')
		}
		for i, h := range w.held[g] {
			if i > 0 {
				sb.WriteByte(',')
			}
			fmt.Fprintf(&sb, "%c.k%d", h.mode, h.k)
		}
		if p := w.pend[g]; p != nil {
			fmt.Fprintf(&sb, ":%s.k%d ", p.op, p.k)
		} else {
			sb.WriteString(":- ")
		}
	}
	return sb.String() + "| map=" + lk2Map(w.l)
}

func (w *lk2World) holds(g int, mode byte, k int) bool {
	for _, h := range w.held[g] {
		if h.k == k && (mode == 0 || h.mode == mode) {
			return true
		}
	}
	return false
}

func (w *lk2World) blocked(g int) bool { return w.pend[g] != nil }

// op executes one OP line and returns its result word (the state is printed by the caller).
func (w *lk2World) op(g int, op string, k int) string {
	c := w.c
	if w.blocked(g) {
		return "busy"
	}
	switch op {
	case "U":
		if !w.holds(g, 'W', k) {
			return "illegal"
		}
	case "RU":
		if !w.holds(g, 'R', k) {
			return "illegal"
		}
	default:
		if w.holds(g, 0, k) {
			return "illegal"
		}
	}
	wasBlocked := map[int]bool{}
	for j := range w.pend {
		if w.pend[j] != nil {
			wasBlocked[j] = true
		}
	}
	w.pend[g] = &lk2Call{op, k}
	w.cmd[g] <- lk2Call{op, k}
	got, ok := w.quiesce()
	if !ok {
		c.Oracle("no quiescence within 2 s after OP %d %s %d (%s)", g, op, k, w.diag)
	}
	res, woke := "blocked", 0
	for _, r := range got {
		if r.g != g {
			if wasBlocked[r.g] {
				woke++
			}
			continue
		}
		switch {
		case r.pan != nil:
			res = "panic"
		case op == "L" || op == "R":
			res = "acquired"
		case op == "T" && r.ok:
			res = "try-ok"
		case op == "T":
			res = "try-failed"
			w.sawTryFail = true
		case r.err == nil:
			res = "released"
		case strings.Contains(r.err.Error(), "no such lock"):
			res = "err:no-such-lock"
		default:
			res = "err:other"
		}
	}
	if woke > 0 {
		w.sawWake = true
	}
	if op == "U" || op == "RU" {
		c.Count(fmt.Sprintf("wake:%d", woke))
	} else if woke > 0 {
		c.Count(fmt.Sprintf("wake-by-%s:%d", op, woke))
	}
	return res
}

// lk2Exec executes one command line (already echoed with c.Cmd) and returns the world to go on with.
func lk2Exec(c *Ctx, w *lk2World, line string) *lk2World {
	t := strings.Fields(line)
	if len(t) == 0 {
		c.Obs("bad-op")
		return w
	}
	switch t[0] {
	case "NEW":
		if len(t) != 3 {
			break
		}
		nG, e1 := strconv.Atoi(t[1])
		nK, e2 := strconv.Atoi(t[2])
		if e1 != nil || e2 != nil || nG < 1 || nG > 8 || nK < 1 || nK > 8 {
			break
		}
		if w != nil {
			w.stop()
		}
		c.Obs("NEW")
		return lk2New(c, nG, nK)
	case "OP":
		if w == nil || len(t) != 4 {
			break
		}
		g, e1 := strconv.Atoi(t[1])
		k, e2 := strconv.Atoi(t[3])
		op := t[2]
		if e1 != nil || e2 != nil || g < 0 || g >= w.nG || k < 0 || k >= w.nK ||
			(op != "L" && op != "R" && op != "T" && op != "U" && op != "RU") {
			break
		}
		res := w.op(g, op, k)
		c.Count("res:" + res)
		c.Obs("%s | %s", res, w.tail())
		return w
	case "END":
		if w == nil || len(t) != 1 {
			break
		}
		stuck := ""
		for g := range w.pend {
			if w.pend[g] != nil {
				stuck = " stuck"
			}
		}
		m := lk2Map(w.l)
		c.Obs("END map=%s%s", m, stuck)
		// nothing is left behind: with every call matched by its release (also after failed
		// TryLocks) the map is empty (Props/C16Locker.lean map_empty_when_idle)
		if stuck == "" && m != "-" {
			idle := true
			for g := range w.held {
				if len(w.held[g]) > 0 {
					idle = false
				}
			}
			if idle {
				c.Oracle("nobody holds or waits for a lock any more but the locker's map is not empty: %s (an entry was left behind)", m)
			}
		}
		w.stop()
		return nil
	case "STRESS":
		if len(t) != 3 {
			break
		}
		seed, e1 := strconv.ParseInt(t[1], 10, 64)
		n, e2 := strconv.Atoi(t[2])
		if e1 != nil || e2 != nil || n < 0 || n > 1000000 {
			break
		}
		c.Obs("STRESS done")
		lk2Stress(c, seed, n)
		return w
	}
	c.Obs("bad-op")
	return w
}

// ---------------------------------------------------------------------------------------------
// generator

func lk2Gen(c *Ctx, i int) {
	r := c.Rng
	c.Trace(fmt.Sprintf("locker-%d-%d", c.Seed, i))
	var w *lk2World
	do := func(l string) {
		c.Cmd("%s", l)
		w = lk2Exec(c, w, l)
	}
	nG, nK := 2+r.Intn(3), 1+r.Intn(2)
	do(fmt.Sprintf("NEW %d %d", nG, nK))
	c.Count(fmt.Sprintf("trace:nG=%d,nK=%d", nG, nK))
	type cand struct {
		g  int
		op string
		k  int
	}
	maxHeld := func(g int) int {
		m := -1
		for _, h := range w.held[g] {
			if h.k > m {
				m = h.k
			}
		}
		return m
	}
	// key is "hot": held by somebody or being waited for
	hot := func(k int) bool {
		for g := 0; g < nG; g++ {
			if w.holds(g, 0, k) || (w.pend[g] != nil && w.pend[g].k == k) {
				return true
			}
		}
		return false
	}
	for n := 8 + r.Intn(23); n > 0; n-- {
		var free, blk []int
		for g := 0; g < nG; g++ {
			if w.blocked(g) {
				blk = append(blk, g)
			} else {
				free = append(free, g)
			}
		}
		// ~3 %: command a blocked goroutine on purpose
		if len(blk) > 0 && r.Intn(100) < 3 {
			g := blk[r.Intn(len(blk))]
			do(fmt.Sprintf("OP %d %s %d", g, []string{"L", "R", "T", "U", "RU"}[r.Intn(5)], r.Intn(nK)))
			continue
		}
		if len(free) == 0 {
			break // cannot happen: the lock order leaves a free holder
		}
		var rel, acq, try, tryHot []cand
		for _, g := range free {
			for _, h := range w.held[g] {
				op := "U"
				if h.mode == 'R' {
					op = "RU"
				}
				rel = append(rel, cand{g, op, h.k})
			}
			mh := maxHeld(g)
			for k := 0; k < nK; k++ {
				if w.holds(g, 0, k) {
					continue
				}
				try = append(try, cand{g, "T", k})
				if hot(k) {
					tryHot = append(tryHot, cand{g, "T", k})
				}
				if k > mh {
					acq = append(acq, cand{g, "L", k}, cand{g, "R", k})
				}
			}
		}
		// releases that let a blocked call through
		var relWaited []cand
		for _, x := range rel {
			for _, b := range blk {
				if w.pend[b].k == x.k {
					relWaited = append(relWaited, x)
					break
				}
			}
		}
		var pick cand
		x := r.Intn(100)
		switch {
		case len(relWaited) > 0 && r.Intn(2) == 0:
			pick = relWaited[r.Intn(len(relWaited))]
		case x < 25 && len(try) > 0:
			if len(tryHot) > 0 && r.Intn(100) < 70 {
				pick = tryHot[r.Intn(len(tryHot))]
			} else {
				pick = try[r.Intn(len(try))]
			}
		case x < 50 && len(rel) > 0:
			pick = rel[r.Intn(len(rel))]
		case len(acq) > 0:
			pick = acq[r.Intn(len(acq))]
		case len(rel) > 0:
			pick = rel[r.Intn(len(rel))]
		case len(try) > 0:
			pick = try[r.Intn(len(try))]
		default:
			continue
		}
		do(fmt.Sprintf("OP %d %s %d", pick.g, pick.op, pick.k))
	}
	// drain
	for guard := 0; guard < 200; guard++ {
		g := -1
		busyOrHeld := false
		for j := 0; j < nG; j++ {
			if len(w.held[j]) > 0 || w.blocked(j) {
				busyOrHeld = true
			}
			if g < 0 && !w.blocked(j) && len(w.held[j]) > 0 {
				g = j
			}
		}
		if !busyOrHeld {
			break
		}
		if g < 0 {
			c.Oracle("generator: cannot drain (a goroutine is parked and no free goroutine holds a lock)")
			break
		}
		h := w.held[g][len(w.held[g])-1]
		op := "U"
		if h.mode == 'R' {
			op = "RU"
		}
		do(fmt.Sprintf("OP %d %s %d", g, op, h.k))
	}
	if w.sawWake && w.sawTryFail {
		c.Nontrivial()
	}
	do("END")
}

func lk2Run(c *Ctx) error {
	c.stats.Rule = "per trace a fresh pkg/locker.Locker, 2..4 worker goroutines and 1..2 keys; 8..30 calls (Lock/RLock/TryLock/" +
		"Unlock/RUnlock) legal by the harness's own bookkeeping (release only what is held, acquire only what is not held, " +
		"blocking acquisitions in ascending key order; ~25 % TryLock, mostly on held/contended keys; 50 % preference for the " +
		"release a parked call waits for; ~3 % commands to a parked goroutine -> busy), one call at a time, each observed at " +
		"quiescence (result, per goroutine held/waiting, the reference map Locker.locks), then drained and END; " +
		"non-trivial = at least one call was observed parked and returned later AND at least one TryLock failed; distinct by trace hash. " +
		"+ per run one free-running STRESS trace (holder/waiter(s)/TryLock-poller episodes on one key, oracle only: a holder's " +
		"Unlock never fails, never two holders, the map is empty once everybody is done – also after failed TryLocks); " +
		"the same strict oracle at every END of a scripted trace"
	if c.Replay != nil {
		var w *lk2World
		for _, l := range c.Replay {
			if strings.HasPrefix(l, "T ") {
				if w != nil {
					w.stop()
					w = nil
				}
				c.Trace(strings.TrimPrefix(l, "T "))
				continue
			}
			c.Cmd("%s", l)
			w = lk2Exec(c, w, l)
		}
		if w != nil {
			w.stop()
		}
		return nil
	}
	for i := 0; i < c.N; i++ {
		lk2Gen(c, i)
	}
	c.Trace(fmt.Sprintf("locker-stress-%d", c.Seed))
	n := 150
	if c.Tier == "thorough" {
		n = 2000
	}
	l := fmt.Sprintf("STRESS %d %d", c.Rng.Int63n(1_000_000_000), n)
	c.Cmd("%s", l)
	lk2Exec(c, nil, l)
	return nil
}

// ---------------------------------------------------------------------------------------------
// stress share (oracle only)

type lk2StressRep struct {
	c    *Ctx
	seed int64
	mu   sync.Mutex
	done map[string]bool
}

// report writes at most one oracle line per kind and flushes the streams (a later fatal error
// of the runtime could not be recovered and would lose the buffered lines).
func (s *lk2StressRep) report(kind string, ep int, format string, a ...any) {
	s.mu.Lock()
	defer s.mu.Unlock()
	if s.done[kind] {
		return
	}
	s.done[kind] = true
	s.c.Oracle("stress seed %d episode %d: %s", s.seed, ep, fmt.Sprintf(format, a...))
	_ = s.c.cmds.Flush()
	_ = s.c.impl.Flush()
	_ = s.c.orc.Flush()
}

func lk2Stress(c *Ctx, seed int64, episodes int) {
	if old := runtime.GOMAXPROCS(0); old < 4 {
		runtime.GOMAXPROCS(4)
		defer runtime.GOMAXPROCS(old)
	}
	rep := &lk2StressRep{c: c, seed: seed, done: map[string]bool{}}
	r := rand.New(rand.NewSource(seed))
	for ep := 1; ep <= episodes; ep++ {
		if !lk2Episode(c, rep, r, ep) {
			return // stuck goroutines left behind: do not pile up more
		}
	}
}

// lk2Pace: pause (ns) of the poller after a failed TryLock. Measured on 16 cores: hand-off window
// met in ~5 % of the episodes without a pause, ~40 % with 300..1000 ns.
func lk2Pace(r *rand.Rand) int { return []int{0, 300, 1000, 1000, 3000}[r.Intn(5)] }

// lk2Episode runs one holder/waiter(s)/poller episode; false = goroutines are stuck.
func lk2Episode(c *Ctx, rep *lk2StressRep, r *rand.Rand, ep int) bool {
	const key = "k0"
	l := locker.New()
	var writers, readers atomic.Int32
	enterW := func(who string) {
		if n, rd := writers.Add(1), readers.Load(); n != 1 || rd != 0 {
			rep.report("two-holders", ep, "two holders inside at once: %s entered as writer while %d other writer(s) and %d reader(s) are inside", who, n-1, rd)
		}
	}
	enterR := func(who string) {
		readers.Add(1)
		if n := writers.Load(); n != 0 {
			rep.report("two-holders", ep, "two holders inside at once: %s entered as reader while %d writer(s) are inside", who, n)
		}
	}
	unlockErr := func(who, op string, err error) {
		if err != nil {
			rep.report("unlock-err", ep, "%s holds the lock and its %s returned an error: %v", who, op, err)
		}
	}
	// waiter kinds: true = reader
	var kinds []bool
	switch r.Intn(3) {
	case 0:
		kinds = []bool{false}
	case 1:
		kinds = []bool{true}
	default:
		kinds = []bool{false, r.Intn(2) == 0}
	}
	pace := time.Duration(lk2Pace(r))
	c.Count("stress:episodes")

	l.Lock(key)
	enterW("holder")

	var released, waiterEntered atomic.Bool
	var wg sync.WaitGroup
	goids := make(chan uint64, len(kinds))
	for i, rd := range kinds {
		wg.Add(1)
		go func(i int, rd bool) {
			defer wg.Done()
			goids <- lk2Goid()
			who := fmt.Sprintf("waiter%d", i)
			if rd {
				l.RLock(key)
				waiterEntered.Store(true)
				enterR(who)
				runtime.Gosched()
				readers.Add(-1)
				unlockErr(who, "RUnlock", l.RUnlock(key))
				return
			}
			l.Lock(key)
			waiterEntered.Store(true)
			enterW(who)
			runtime.Gosched()
			writers.Add(-1)
			unlockErr(who, "Unlock", l.Unlock(key))
		}(i, rd)
	}
	var ids []uint64
	for range kinds {
		ids = append(ids, <-goids)
	}
	// all waiters parked?
	buf := make([]byte, 1<<15)
	parkedAll := false
	for deadline := time.Now().Add(2 * time.Second); ; {
		p := lk2ParkedSet(&buf, nil)
		parkedAll = true
		for _, id := range ids {
			if !p[id] {
				parkedAll = false
			}
		}
		if parkedAll || time.Now().After(deadline) {
			break
		}
		runtime.Gosched()
	}
	joined := make(chan struct{})
	go func() { wg.Wait(); close(joined) }()
	if !parkedAll {
		c.Count("stress:skipped")
		writers.Add(-1)
		unlockErr("holder", "Unlock", l.Unlock(key))
		if !waitCh(joined, 5*time.Second) {
			rep.report("stuck", ep, "stuck: a waiter did not finish within 5 s after the holder's Unlock")
			return false
		}
		return true
	}

	// poller
	var stop atomic.Bool
	var attempts, failed atomic.Int64
	var won atomic.Bool
	pollerDone := make(chan struct{})
	// 1..3 pollers: a TryLock that is tried inside the package mutex can only land after the
	// holder's Unlock section is over; several pollers make that short window likely to be met too
	nPollers := 1 + ep%3
	var pwg sync.WaitGroup
	go func() { pwg.Wait(); close(pollerDone) }()
	pwg.Add(nPollers)
	for pi := 0; pi < nPollers; pi++ {
		go func() {
			defer pwg.Done()
			for !stop.Load() {
				attempts.Add(1)
				if !l.TryLock(key) {
					failed.Add(1)
					// pace: a poller that hammers Locker.mu pushes it into starvation mode and the
					// holder's Unlock then takes a millisecond; a paced one meets the hand-off window
					for t0 := time.Now(); pace > 0 && time.Since(t0) < pace; {
					}
					continue
				}
				if released.Load() && !waiterEntered.Load() {
					won.Store(true)
				}
				enterW("poller")
				runtime.Gosched()
				writers.Add(-1)
				if err := l.Unlock(key); err != nil {
					unlockErr("poller", "Unlock", err)
					return
				}
			}
		}()
	}
	for deadline := time.Now().Add(5 * time.Second); attempts.Load() < 100 && time.Now().Before(deadline); {
		runtime.Gosched()
	}

	// the holder releases
	writers.Add(-1)
	released.Store(true)
	unlockErr("holder", "Unlock", l.Unlock(key))

	ok := waitCh(joined, 5*time.Second)
	stop.Store(true)
	if !ok {
		rep.report("stuck", ep, "stuck: a waiter did not get the lock / finish within 5 s after the holder's Unlock")
		return false
	}
	if !waitCh(pollerDone, 5*time.Second) {
		rep.report("stuck", ep, "stuck: the TryLock poller did not finish within 5 s")
		return false
	}
	if won.Load() {
		c.Count("stress:poller-won-handoff")
	}
	// everybody joined: nothing is left behind, a failed TryLock gives its reference back
	if got := lk2Map(l); got != "-" {
		rep.report("leak", ep, "entry left behind: everybody is done but the map says %s (failed TryLocks in this episode: %d)", got, failed.Load())
	}
	return true
}
