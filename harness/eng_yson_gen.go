package main

// generators of YSON literals for engine `yson` (C18)

import (
	"fmt"
	"math"
	"math/rand"
	gotime "time"

	"github.com/yorkie-team/yorkie/pkg/document"
	"github.com/yorkie-team/yorkie/pkg/document/crdt"
	"github.com/yorkie-team/yorkie/pkg/document/json"
	"github.com/yorkie-team/yorkie/pkg/document/presence"
	"github.com/yorkie-team/yorkie/pkg/document/yson"
)

type ysonGen struct {
	c     *Ctx
	r     *rand.Rand
	dedup []yson.Counter // real dedup counters (value consistent with registers)
}

func newYsonGen(c *Ctx) *ysonGen {
	g := &ysonGen{c: c, r: c.Rng}
	// a few real dedup counters: created through the API, exported by FromCRDT
	d := document.New("c18-dedup")
	_ = d.Update(func(r *json.Object, p *presence.Presence) error {
		r.SetNewDedupCounter("d0")
		c1 := r.SetNewDedupCounter("d1")
		c1.Add("alice")
		c2 := r.SetNewDedupCounter("d2")
		for i := 0; i < 40; i++ {
			c2.Add(fmt.Sprintf("user-%d", i))
		}
		return nil
	})
	root, _ := yson.FromCRDT(d.RootObject())
	for _, k := range []string{"d0", "d1", "d2"} {
		g.dedup = append(g.dedup, root.(yson.Object)[k].(yson.Counter))
	}
	return g
}

// strings that survive (awkward but safe)
var safeStrings = []string{
	"", "a", "hello world", "0", "true", "null", "a(b", "(", "((", "Int", "Counter", "int(", "text(", "Date(x", "BinData(x",
	"line\nbreak", "tab\there", "\r\n", "\b\f", "q\"uote", "back\\slash", "\\n", "\\u0041", "sl/ash", "{\"type\":\"Int\"}", "[1,2]",
	"\u00e9", "\ud55c\uae00", "\u65e5\u672c\u8a9e", "\U0001F600", "a\U0001F600b", "\u00a0", "\u2028\u2029", "\u00ad", "\ufeff", "\ufffd", "\u0378", "\ue000", "\u200b", "\U0001F468\u200d\U0001F469",
	"\u0085", "\u0080", "\ufffe", "\uffff", "\U0001FFFE", "\U00020000", "\U0002FFFF",
	"}", "{", "]", "[", ",", ":", "'", "`", "$1", "$2", "\\\"", "\"\"", " ", "  leading", "trailing  ", "<p>", "&amp;",
	"type", "value", "attrs", "children", "val", "hll", "counterType", "DedupCounter", "DedupCounter(", "Tree", "Text",
	"a very long string a very long string a very long string a very long string a very long string a very long string",
}

// keys that survive
var safeKeys = []string{
	"a", "b", "c", "k1", "k2", "key", "name", "title", "items", "value", "val", "attrs", "children", "hll", "counterType",
	"", " ", "a b", "a.b", "a/b", "a(b", "Type", "TYPE", "type2", "_type", "$type", "\u00e9", "\ud55c", "\U0001F600", "\u00a0", "\u2028", "\u007f", "\ufffd",
	"\U000e0001", "\u0080", "\u00ad",
	"{", "}", "[", ",", ":", "'", "0", "-1", "Int", "Counter", "text", "root", "null", "true",
}

var attrKeys = []string{"b", "i", "bold", "color", "href", "a b", "\u00e9", "val", "attrs", "type", "value", "\U0001F600", "\"q\"", "k\\", "a!", "a", "a\"", ""}
var attrVals = []string{"1", "true", "\"bold\"", "red", "#fff", "", "null", "http://x/y?z=1&w=2", "\u00e9", "a\nb", "{\"a\":1}", "\U0001F600", "\\"}

var nodeTypes = []string{"p", "doc", "div", "span", "b", "h1", "li", "ul", "root", "r", "tn", "code-block", "\u00e9", "TEXT", "Text", "t ext", ""}

var safeDoubles = []float64{0, 1, -1, 0.5, -0.5, 1.5, 3.14, 100, 1e20, 1e21, 1.5e22, 123456789012345680, 1e-7, 1e-5, 0.0001, 2.5e-8,
	math.MaxFloat64, math.SmallestNonzeroFloat64, -math.MaxFloat64, 9007199254740992, 9007199254740993, 4294967296, 2147483648, 1e300, 0.1, 0.2, 0.30000000000000004,
	1.7976931348623157e308, 2.2250738585072014e-308, 123.456, -1e-320, 1 << 53, 1<<63 - 1024, float64(1 << 63), 5e-324}

var safeLongs = []int64{0, 1, -1, 42, 2147483647, 2147483648, -2147483649, 1 << 53, -(1 << 53), 1<<53 - 1, 1 << 60, -(1 << 62), math.MinInt64,
	1<<63 - 1024, 1 << 54, 9007199254740994, 4611686018427387904, 1000000000000000000, -9007199254740992, 123456789012}

var unsafeLongs = []int64{9007199254740993, -9007199254740993, math.MaxInt64, math.MaxInt64 - 1, 1<<63 - 512, 1<<63 - 513, 1<<62 + 1, 9007199254740995,
	-(1<<53 + 1), 1<<53 + 3, 1<<60 + 1, 9223372036854775295, 9223372036854775296, -9223372036854775807, 18014398509481985, 1<<54 + 2}

var ints = []int32{0, 1, -1, 7, 100, math.MaxInt32, math.MinInt32, 65536, -65536}

func pick[T any](r *rand.Rand, l []T) T { return l[r.Intn(len(l))] }

func (g *ysonGen) safeString() string {
	r := g.r
	switch x := r.Intn(10); {
	case x < 1:
		if r.Intn(2) == 0 {
			return pick(r, goQuoteStrings) // repaired by the JSON-string-literal fix: must survive
		}
		return pick(r, prepassStrings) // repaired by 0cf3884e: must survive
	case x < 6:
		return pick(r, safeStrings)
	case x < 8:
		// random code points from ranges that strconv.Quote renders JSON-compatibly
		n := r.Intn(6)
		var rs []rune
		for i := 0; i < n; i++ {
			var c rune
			switch r.Intn(6) {
			case 0:
				c = rune(0x20 + r.Intn(0x5f))
			case 1:
				c = rune(0x80 + r.Intn(0x780))
			case 2:
				c = rune(0x800 + r.Intn(0xd000))
			case 3:
				c = rune(0xe000 + r.Intn(0x1fff))
			case 4:
				c = rune([]int{8, 9, 10, 12, 13}[r.Intn(5)])
			default:
				c = rune(0x1f300 + r.Intn(0x300))
			}
			rs = append(rs, c)
		}
		s := string(rs)
		if len(unsafeTags(yson.Object{"k": s})) > 0 {
			return "x"
		}
		return s
	default:
		return pick(r, safeStrings) + pick(r, safeStrings)
	}
}

func (g *ysonGen) safeStr() string {
	s := g.safeString()
	if len(unsafeTags(yson.Object{"k": s})) > 0 { // concatenations may create a wrapper pattern
		return "y"
	}
	return s
}

func (g *ysonGen) safeKey() string {
	r := g.r
	if r.Intn(8) == 0 {
		k := g.safeStr()
		if k == "type" || len(unsafeTags(yson.Object{k: nil})) > 0 {
			return "kx"
		}
		return k
	}
	if r.Intn(10) == 0 {
		if r.Intn(2) == 0 {
			return pick(r, badKeys) // repaired by the JSON-string-literal fix: must survive
		}
		return pick(r, prepassStrings)
	}
	return pick(r, safeKeys)
}

func (g *ysonGen) attrs(max int) map[string]string {
	n := g.r.Intn(max + 1)
	if n == 0 {
		if g.r.Intn(4) == 0 {
			return map[string]string{}
		}
		return nil
	}
	m := map[string]string{}
	for i := 0; i < n; i++ {
		m[pick(g.r, attrKeys)] = pick(g.r, attrVals)
	}
	return m
}

func (g *ysonGen) date() gotime.Time {
	r := g.r
	base := gotime.Date(1970+r.Intn(80), gotime.Month(1+r.Intn(12)), 1+r.Intn(28), r.Intn(24), r.Intn(60), r.Intn(60), 0, gotime.UTC)
	switch r.Intn(6) {
	case 0:
		return base.Add(gotime.Duration(r.Intn(1000)) * gotime.Millisecond)
	case 1:
		return base.Add(gotime.Duration(r.Int63n(1e9)))
	case 2:
		return base.In(gotime.FixedZone("", (r.Intn(27)-12)*3600+r.Intn(4)*900))
	case 3:
		return gotime.Date(pick(r, []int{0, 1, 999, 9999, 2000, 1600}), 2, 28+r.Intn(2), 23, 59, 59, 999999999, gotime.UTC)
	case 4:
		return gotime.UnixMilli(r.Int63n(4e12))
	}
	return base
}

func (g *ysonGen) text() yson.Text {
	t := yson.Text{Nodes: []yson.TextNode{}}
	n := g.r.Intn(4)
	for i := 0; i < n; i++ {
		v := g.safeStr()
		if v == "" {
			v = "t"
		}
		t.Nodes = append(t.Nodes, yson.TextNode{Value: v, Attributes: g.attrs(3)})
	}
	return t
}

func (g *ysonGen) treeNode(depth int) yson.TreeNode {
	r := g.r
	if depth > 0 && r.Intn(3) == 0 {
		v := g.safeStr()
		if v == "" {
			v = "x"
		}
		return yson.TreeNode{Type: "text", Value: v}
	}
	n := yson.TreeNode{Type: pick(r, nodeTypes), Attributes: g.attrs(2)}
	if r.Intn(10) == 0 {
		n.Type = g.safeStr()
		if n.Type == "text" {
			n.Type = "p"
		}
	}
	if depth < 3 {
		k := r.Intn(4)
		for i := 0; i < k; i++ {
			n.Children = append(n.Children, g.treeNode(depth+1))
		}
	}
	return n
}

func (g *ysonGen) tree() yson.Tree {
	root := g.treeNode(0)
	root.Attributes = nil // SetNewTree cannot carry root attributes (separate rebuild shape)
	return yson.Tree{Root: root}
}

// value generates a safe value.
func (g *ysonGen) value(depth int) interface{} {
	r := g.r
	x := r.Intn(100)
	if depth >= 4 && x >= 70 {
		x = r.Intn(70)
	}
	switch {
	case x < 4:
		return nil
	case x < 9:
		return r.Intn(2) == 0
	case x < 19:
		if r.Intn(3) == 0 {
			return math.Float64frombits(r.Uint64()&^(0x7ff<<52) | uint64(r.Intn(2046)+1)<<52) // random finite normal
		}
		return pick(r, safeDoubles)
	case x < 33:
		return g.safeStr()
	case x < 39:
		if r.Intn(2) == 0 {
			return int32(r.Uint32())
		}
		return pick(r, ints)
	case x < 47:
		switch r.Intn(3) {
		case 0:
			return r.Int63n(1<<53) - 1<<52
		case 1:
			return (r.Int63n(1<<20) - 1<<19) << uint(r.Intn(43)) // few significant bits: exactly representable
		}
		if r.Intn(3) == 0 {
			return pick(r, unsafeLongs) // repaired by the UseNumber fix: must survive
		}
		return pick(r, safeLongs)
	case x < 51:
		b := make([]byte, r.Intn(8))
		r.Read(b)
		return b
	case x < 56:
		return g.date()
	case x < 62:
		switch r.Intn(8) {
		case 0, 1, 2:
			return yson.Counter{Type: crdt.IntegerCnt, Value: pick(r, ints)}
		case 3, 4:
			if r.Intn(3) == 0 {
				return yson.Counter{Type: crdt.LongCnt, Value: pick(r, unsafeLongs)}
			}
			return yson.Counter{Type: crdt.LongCnt, Value: pick(r, safeLongs)}
		case 5:
			return yson.Counter{Type: crdt.LongCnt, Value: r.Int63n(1<<53) - 1<<52}
		case 6:
			if depth == 1 && r.Intn(4) == 0 {
				return pick(r, g.dedup[1:])
			}
			return yson.Counter{Type: crdt.IntegerCnt, Value: int32(r.Uint32())}
		}
		return yson.Counter{Type: crdt.IntegerCnt, Value: int32(0)}
	case x < 70:
		return g.text()
	case x < 77:
		return g.tree()
	case x < 88:
		a := yson.Array{}
		n := r.Intn(5)
		for i := 0; i < n; i++ {
			a = append(a, g.value(depth+1))
		}
		return a
	default:
		return g.object(depth + 1)
	}
}

func (g *ysonGen) object(depth int) yson.Object {
	o := yson.Object{}
	n := g.r.Intn(6)
	for i := 0; i < n; i++ {
		o[g.safeKey()] = g.value(depth)
	}
	return o
}

// root generates a safe root value (object, sometimes array).
func (g *ysonGen) root() interface{} {
	if g.r.Intn(10) == 0 {
		a := yson.Array{}
		n := g.r.Intn(6)
		for i := 0; i < n; i++ {
			a = append(a, g.value(1))
		}
		return a
	}
	o := g.object(1)
	if g.r.Intn(6) == 0 {
		o["type"] = pick(g.r, []interface{}{"Counter", "x", "Int", 1.0, nil}) // a root object may have a type member
	}
	return o
}

// ---------------------------------------------------------------- unsafe shapes

var prepassStrings = []string{")", "x)", "f(x)", "Int(5", "Int(", "Long(", "Counter(", "Text(", "Tree(", "Text()", "Tree()", "BinData(", "xDate(", "Date(",
	"a Counter(b", "(:)", "smile :)", "DedupCounter(Int(5),", "call(a, b)", "Int(1)", "Long(2))", "f(", ") (", "Text([", "Date()"}

var goQuoteStrings = []string{"\a", "\v", "\x00", "\x01", "\x1f", "\x7f", "a\x1bb", "\U000e0001", "\U000f0000", "\U0010ffff", "x\x0ey", "\U000e0020z", "\x02\x03"}

var badKeys = []string{"\"", "a\"b", "\\", "a\\", "a\\nb", "\\u0061", "\\\"", "a\nb", "\t", "\x00k", "a\":1,\"b", "\\u00e9", "\\x", "\x1f", "q\"", "\\\\"}

func (g *ysonGen) typeMemberObject() yson.Object {
	r := g.r
	ty := pick(r, []string{"Counter", "Int", "Long", "BinData", "Date", "Text", "Tree", "DedupCounter", "x", "", "text", "int", "Double", "Object"})
	o := yson.Object{"type": ty}
	vals := []interface{}{
		nil, 5.0, 1.5, -0.0, 3e9, -3e9, 1e19, 1e300, 2147483648.0, -2147483649.0, 9007199254740993.0, 0.99999999999999999, -1.5, 4294967297.5, 1e-320,
		"AAAA", "AAA=", "AAB=", "A", "AA\n==", "!!!!", "", "2020-01-01T00:00:00Z", "2020-02-30T00:00:00Z", "2020-01-01T00:00:00.5+09:00", "2020-01-01", "x",
		true, yson.Array{}, yson.Array{"x"}, yson.Array{1.0}, yson.Array{yson.Object{}}, yson.Array{yson.Object{"val": "v"}}, yson.Array{yson.Object{"val": 1.0}},
		yson.Array{yson.Object{"val": "v", "attrs": yson.Object{"a": "b"}}}, yson.Array{yson.Object{"val": "v", "attrs": yson.Object{"a": 1.0}}}, yson.Array{yson.Object{"val": "v", "attrs": "x"}},
		yson.Object{}, yson.Object{"type": "Int", "value": 5.0}, yson.Object{"type": "Long", "value": 9007199254740993.0}, yson.Object{"type": "Int"},
		yson.Object{"type": "Int", "value": "x"}, yson.Object{"type": "Double", "value": 1.0}, yson.Object{"type": 1.0}, yson.Object{"value": 1.0},
		yson.Object{"type": "p", "children": yson.Array{}}, yson.Object{"type": "p", "children": yson.Array{yson.Object{"type": "text", "value": "hi"}}},
		yson.Object{"type": "p", "children": yson.Array{"x"}}, yson.Object{"type": "p", "children": yson.Array{yson.Object{"children": yson.Array{nil}}}},
		yson.Object{"type": "p", "attrs": yson.Object{"a": "b"}, "children": "x"}, yson.Object{"type": "p", "attrs": yson.Object{"a": true}},
		yson.Object{"children": yson.Array{yson.Object{}}, "value": "v", "attrs": yson.Object{}}, yson.Object{"type": "text", "value": 1.0},
	}
	if r.Intn(8) != 0 {
		o["value"] = pick(r, vals)
	}
	if ty == "DedupCounter" || r.Intn(10) == 0 {
		if r.Intn(5) != 0 {
			o["counterType"] = pick(r, []interface{}{"Int", "Long", 1.0, "int"})
		}
		if r.Intn(5) != 0 {
			o["hll"] = pick(r, []interface{}{"AAAA", "", "!!", 1.0, "AQID"})
		}
	}
	if r.Intn(4) == 0 {
		o[g.safeKey()] = g.value(4)
		o["type"] = ty
	}
	return o
}

// container slots of a value into which a shape can be injected
type slot struct {
	obj yson.Object
	arr *yson.Array
	par func(yson.Array) // writes a grown array back into its parent
}

func collectSlots(v interface{}, set func(interface{}), out *[]slot) {
	switch y := v.(type) {
	case yson.Object:
		*out = append(*out, slot{obj: y})
		for k, e := range y {
			k := k
			collectSlots(e, func(n interface{}) { y[k] = n }, out)
		}
	case yson.Array:
		yy := y
		*out = append(*out, slot{arr: &yy, par: func(a yson.Array) { set(a) }})
		for i, e := range y {
			i := i
			collectSlots(e, func(n interface{}) { y[i] = n }, out)
		}
	}
}

// inject puts value `u` (under key `k` when the slot is an object) somewhere in root.
func (g *ysonGen) inject(root interface{}, k string, u interface{}) interface{} {
	var slots []slot
	var newRoot interface{} = root
	collectSlots(root, func(n interface{}) { newRoot = n }, &slots)
	s := slots[g.r.Intn(len(slots))]
	if s.obj != nil {
		s.obj[k] = u
	} else {
		a := append(*s.arr, u)
		s.par(a)
	}
	return newRoot
}

// unsafeRoot: a safe value with one (sometimes two) unsafe shapes injected; at most one
// of them can make the tree-level parser fail, so the outcome does not depend on Go's
// map iteration order.
func (g *ysonGen) unsafeRoot() interface{} {
	r := g.r
	root := g.root()
	n := 1
	if r.Intn(5) == 0 {
		n = 2
	}
	treeLevelUsed := false
	for i := 0; i < n; i++ {
		kind := r.Intn(17)
		if kind >= 13 {
			kind = 1 // type members are a quarter of the stream
		}
		if (kind == 1 || kind == 6) && treeLevelUsed {
			kind = 0
		}
		key := g.safeKey()
		if key == "type" {
			key = "k"
		}
		var u interface{}
		switch kind {
		case 0: // long precision
			if r.Intn(3) == 0 {
				u = yson.Counter{Type: crdt.LongCnt, Value: pick(r, unsafeLongs)}
			} else if r.Intn(3) == 0 {
				u = r.Int63()>>uint(r.Intn(8)) | 1<<54 | 1
			} else {
				u = pick(r, unsafeLongs)
			}
			g.c.Count("inject:long-precision")
		case 1: // type member
			u = g.typeMemberObject()
			treeLevelUsed = true
			g.c.Count("inject:type-member")
		case 2: // pre-pass text in a string value
			u = pick(r, prepassStrings)
			if r.Intn(3) == 0 {
				u = g.safeStr() + pick(r, prepassStrings) + g.safeStr()
			}
			g.c.Count("inject:prepass-string")
		case 3: // pre-pass text in a key
			key = pick(r, prepassStrings)
			u = g.value(4)
			g.c.Count("inject:prepass-key")
		case 4: // Go-only escapes
			u = pick(r, goQuoteStrings)
			if r.Intn(3) == 0 {
				u = "a" + pick(r, goQuoteStrings) + "\u00e9"
			}
			g.c.Count("inject:go-quote")
		case 5: // keys that would need escaping
			key = pick(r, badKeys)
			u = g.value(4)
			g.c.Count("inject:key-unescaped")
		case 6: // date outside 0..9999
			u = gotime.Date(pick(r, []int{10000, 12345, -1, -44, 99999}), 3, 4, 5, 6, 7, r.Intn(2)*500, gotime.UTC)
			treeLevelUsed = true
			g.c.Count("inject:date-range")
		case 7: // non-finite doubles
			u = pick(r, []float64{math.NaN(), math.Inf(1), math.Inf(-1)})
			g.c.Count("inject:double-nonfinite")
		case 8: // dedup counter without registers
			u = yson.Counter{Type: crdt.IntegerDedupCnt, Value: int32(r.Intn(3))}
			g.c.Count("inject:dedup-empty")
		case 9: // unsafe strings inside text / tree
			s := pick(r, append(append([]string{}, prepassStrings...), goQuoteStrings...))
			switch r.Intn(6) {
			case 0:
				u = yson.Text{Nodes: []yson.TextNode{{Value: s}}}
			case 1:
				u = yson.Text{Nodes: []yson.TextNode{{Value: "ok", Attributes: map[string]string{s: "v"}}}}
			case 2:
				u = yson.Text{Nodes: []yson.TextNode{{Value: "ok", Attributes: map[string]string{"k": s}}}}
			case 3:
				u = yson.Tree{Root: yson.TreeNode{Type: "doc", Children: []yson.TreeNode{{Type: "p", Children: []yson.TreeNode{{Type: "text", Value: s}}}}}}
			case 4:
				u = yson.Tree{Root: yson.TreeNode{Type: "doc", Children: []yson.TreeNode{{Type: s}}}}
			default:
				u = yson.Tree{Root: yson.TreeNode{Type: "doc", Children: []yson.TreeNode{{Type: "p", Attributes: map[string]string{"a": s, s: "b"}}}}}
			}
			g.c.Count("inject:string-in-text-tree")
		case 10: // rebuild-unsafe: text with empty node
			u = yson.Text{Nodes: []yson.TextNode{{Value: "a"}, {Value: "", Attributes: g.attrs(1)}, {Value: "b"}}}
			g.c.Count("inject:rebuild-text-empty-node")
		case 11: // rebuild-unsafe: tree root shapes
			switch r.Intn(3) {
			case 0:
				u = yson.Tree{Root: yson.TreeNode{Type: "doc", Attributes: map[string]string{"a": "b"}, Children: []yson.TreeNode{{Type: "p"}}}}
			case 1:
				u = yson.Tree{Root: yson.TreeNode{Type: "text", Value: "x"}}
			default:
				u = yson.Tree{Root: yson.TreeNode{Type: "text", Value: ""}}
			}
			g.c.Count("inject:rebuild-tree-root")
		default: // rebuild-unsafe with panic (only once per value)
			if treeLevelUsed {
				u = pick(r, unsafeLongs)
				break
			}
			treeLevelUsed = true
			if r.Intn(2) == 0 {
				u = yson.Tree{Root: yson.TreeNode{Type: "doc", Children: []yson.TreeNode{{Type: "p", Children: []yson.TreeNode{{Type: "text", Value: ""}}}}}}
				g.c.Count("inject:rebuild-tree-empty-text")
			} else {
				u = yson.Counter{Type: crdt.IntegerDedupCnt, Value: int32(1), Registers: []byte{1, 2, 3}}
				g.c.Count("inject:rebuild-dedup-registers")
			}
		}
		root = g.inject(root, key, u)
	}
	return root
}

// nontrivial: nested container and at least three element kinds.
func (g *ysonGen) nontrivial(v interface{}) bool {
	kinds := map[string]bool{}
	nested := false
	var walk func(v interface{}, d int)
	walk = func(v interface{}, d int) {
		kinds[fmt.Sprintf("%T", v)] = true
		switch y := v.(type) {
		case yson.Object:
			if d > 0 {
				nested = true
			}
			for _, e := range y {
				walk(e, d+1)
			}
		case yson.Array:
			if d > 0 {
				nested = true
			}
			for _, e := range y {
				walk(e, d+1)
			}
		case yson.Text, yson.Tree:
			if d > 0 {
				nested = true
			}
		}
	}
	walk(v, 0)
	for k := range kinds {
		g.c.Count("kind:" + k)
	}
	return nested && len(kinds) >= 4
}
