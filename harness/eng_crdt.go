package main

// engine `crdt`: op-fed correspondence of the JSON-like document (objects, arrays incl.
// move/set, counters) with Model/Crdt.lean, plus the C01 oracle (replicas converge,
// clone == root) on the implementation. Replicas are real document.Document values;
// the server is simulated (a log in server order, every delivery goes through the real
// protobuf converters); GC is off (no version vector is handed to ApplyChangePack).

import (
	"fmt"
	"math/rand"
	"os"
	"net/url"
	"sort"
	"strings"

	"github.com/yorkie-team/yorkie/api/converter"
	"github.com/yorkie-team/yorkie/pkg/document"
	"github.com/yorkie-team/yorkie/pkg/document/change"
	"github.com/yorkie-team/yorkie/pkg/document/crdt"
	"github.com/yorkie-team/yorkie/pkg/document/json"
	"github.com/yorkie-team/yorkie/pkg/document/operations"
	"github.com/yorkie-team/yorkie/pkg/document/presence"
	"github.com/yorkie-team/yorkie/pkg/document/time"
)

func init() {
	register("crdt", runCrdt)
	// oracle-only stream: one replica in three edits before SetActor (as a client does before
	// Attach). The observable model cannot express "value identity != execution ticket", so no
	// command lines are written; failures are classified as the known finding c01-pre-attach-edit.
	register("crdtpre", func(c *Ctx) error {
		preAttachShare = 3
		c.Mute = true
		return runCrdt(c)
	})
}

func encTicket(t *time.Ticket) string {
	if t == nil {
		return "nil"
	}
	return fmt.Sprintf("%d:%d:%s", t.Lamport(), t.Delimiter(), ActorNat(t.ActorID()))
}

func pct(s string) string { return strings.ReplaceAll(url.QueryEscape(s), "+", "%20") }

func encVal(e crdt.Element) string {
	switch v := e.(type) {
	case *crdt.Primitive:
		return "prim:" + pct(v.Marshal())
	case *crdt.Object:
		if len(v.RHTNodes()) == 0 {
			return "obj"
		}
		return "opq:" + pct(v.Marshal())
	case *crdt.Array:
		if len(v.AllRGANodes()) == 0 {
			return "arr"
		}
		return "opq:" + pct(v.Marshal())
	case *crdt.Counter:
		switch v.ValueType() {
		case crdt.IntegerCnt:
			return fmt.Sprintf("cnt:i:%d", v.Value())
		case crdt.LongCnt:
			return fmt.Sprintf("cnt:l:%d", v.Value())
		}
		return "opq:" + pct(v.Marshal())
	default:
		return "opq:" + pct(e.Marshal())
	}
}

// encOp prints an operation in the canonical form the Lean driver parses.
func encOp(op operations.Operation) string {
	switch o := op.(type) {
	case *operations.Set:
		return fmt.Sprintf("set p=%s k=%s v=%s t=%s vt=%s", encTicket(o.ParentCreatedAt()), pct(o.Key()),
			encVal(o.Value()), encTicket(o.ExecutedAt()), encTicket(o.Value().CreatedAt()))
	case *operations.Add:
		return fmt.Sprintf("add p=%s prev=%s v=%s t=%s vt=%s", encTicket(o.ParentCreatedAt()), encTicket(o.PrevCreatedAt()),
			encVal(o.Value()), encTicket(o.ExecutedAt()), encTicket(o.Value().CreatedAt()))
	case *operations.Move:
		return fmt.Sprintf("move p=%s prev=%s target=%s t=%s", encTicket(o.ParentCreatedAt()), encTicket(o.PrevCreatedAt()),
			encTicket(o.CreatedAt()), encTicket(o.ExecutedAt()))
	case *operations.Remove:
		return fmt.Sprintf("remove p=%s target=%s t=%s", encTicket(o.ParentCreatedAt()), encTicket(o.CreatedAt()),
			encTicket(o.ExecutedAt()))
	case *operations.ArraySet:
		return fmt.Sprintf("aset p=%s target=%s v=%s t=%s vt=%s", encTicket(o.ParentCreatedAt()), encTicket(o.CreatedAt()),
			encVal(o.Value()), encTicket(o.ExecutedAt()), encTicket(o.Value().CreatedAt()))
	case *operations.Increase:
		if o.Actor() != "" {
			return "unsupported kind=dedup-increase"
		}
		p := o.Value().(*crdt.Primitive)
		return fmt.Sprintf("inc p=%s d=%s t=%s", encTicket(o.ParentCreatedAt()), p.Marshal(), encTicket(o.ExecutedAt()))
	default:
		return fmt.Sprintf("unsupported kind=%T", op)
	}
}

// encID prints a change id for the model: clientSeq,lamport,actor,vv
func encID(id change.ID) string {
	return fmt.Sprintf("cs=%d lam=%d actor=%s vv=%s", id.ClientSeq(), id.Lamport(), ActorNat(id.ActorID()), ShowVV(id.VersionVector()))
}

type crdtReplica struct {
	// preAttach: the replica edits before SetActor (as a client does before Attach); SetActor then
	// rewrites only executedAt of the queued operations (known finding c01-pre-attach-edit)
	preAttach bool
	attached  bool
	name    string
	doc     *document.Document
	cpS     int64 // how far into the log this replica has pulled
	actor   time.ActorID
	pushedC uint32
}

type crdtWorld struct {
	// some pushed operation references an identity issued before SetActor
	preAttachRefs bool
	c    *Ctx
	reps []*crdtReplica
	log  []*change.Change
}

func mkActor(r *rand.Rand, k int) time.ActorID {
	var a time.ActorID
	// vary both the high and the low bytes so byte order vs. creation order differ
	switch r.Intn(3) {
	case 0:
		a[0] = byte(1 + r.Intn(200))
		a[11] = byte(k + 1)
	case 1:
		a[11] = byte(10*(k+1) + r.Intn(9))
	default:
		a[5] = byte(1 + r.Intn(250))
		a[11] = byte(k + 1)
	}
	return a
}

type jsonContainer struct {
	kind string // obj, arr, cnt
	obj  *json.Object
	arr  *json.Array
	cnt  *json.Counter
}

// containers lists every live container reachable from root, deterministically.
func containers(root *json.Object) []jsonContainer {
	var out []jsonContainer
	var walkObj func(o *json.Object)
	var walkArr func(a *json.Array)
	walkObj = func(o *json.Object) {
		out = append(out, jsonContainer{kind: "obj", obj: o})
		members := o.Object.Members()
		keys := make([]string, 0, len(members))
		for k := range members {
			keys = append(keys, k)
		}
		sort.Strings(keys)
		for _, k := range keys {
			switch members[k].(type) {
			case *crdt.Object:
				walkObj(o.GetObject(k))
			case *crdt.Array:
				walkArr(o.GetArray(k))
			case *crdt.Counter:
				out = append(out, jsonContainer{kind: "cnt", cnt: o.GetCounter(k)})
			}
		}
	}
	walkArr = func(a *json.Array) {
		out = append(out, jsonContainer{kind: "arr", arr: a})
		for i := 0; i < a.Len(); i++ {
			switch a.Get(i).(type) {
			case *crdt.Object:
				walkObj(a.GetObject(i))
			case *crdt.Array:
				walkArr(a.GetArray(i))
			case *crdt.Counter:
				out = append(out, jsonContainer{kind: "cnt", cnt: a.GetCounter(i)})
			}
		}
	}
	walkObj(root)
	return out
}

// noArraySet: the docupd stream runs GC; ArraySet anchors on the target element's ORIGINAL position
// node, which for a moved element is a dead slot that GC purges, so with GC the new value lands next to
// the element's current position and without GC at the old one (C03/C07 finding, see known_findings.json);
// the stream that checks C08 stays out of that region.
var noArraySet = false

var crdtKeys = []string{"a", "b", "c", "k1", "zz"}

// randomEdit performs one API call on a random live container; returns a description.
func randomEdit(r *rand.Rand, root *json.Object, c *Ctx) string {
	cs := containers(root)
	t := cs[r.Intn(len(cs))]
	if r.Intn(2) == 0 { // bias towards arrays so that insert/move/set meet non-trivial lists
		var arrs []jsonContainer
		for _, x := range cs {
			if x.kind == "arr" {
				arrs = append(arrs, x)
			}
		}
		if len(arrs) > 0 {
			t = arrs[r.Intn(len(arrs))]
		}
	}
	switch t.kind {
	case "obj":
		k := crdtKeys[r.Intn(len(crdtKeys))]
		switch x := r.Intn(100); {
		case x < 22:
			t.obj.SetInteger(k, r.Intn(1000))
			return "obj.setInteger"
		case x < 32:
			t.obj.SetString(k, fmt.Sprintf("s%d", r.Intn(100)))
			return "obj.setString"
		case x < 37:
			t.obj.SetBool(k, r.Intn(2) == 0)
			return "obj.setBool"
		case x < 40:
			t.obj.SetNull(k)
			return "obj.setNull"
		case x < 44:
			t.obj.SetLong(k, int64(r.Intn(1000))<<33)
			return "obj.setLong"
		case x < 56:
			t.obj.SetNewArray(k)
			return "obj.setNewArray"
		case x < 64:
			t.obj.SetNewObject(k)
			return "obj.setNewObject"
		case x < 72:
			if r.Intn(2) == 0 {
				t.obj.SetNewCounter(k, int32(r.Intn(10)))
			} else {
				t.obj.SetNewCounter(k, int64(r.Intn(10)))
			}
			return "obj.setNewCounter"
		default:
			if t.obj.Delete(k) != nil {
				return "obj.delete"
			}
			t.obj.SetInteger(k, r.Intn(1000))
			return "obj.setInteger"
		}
	case "arr":
		n := t.arr.Len()
		switch x := r.Intn(100); {
		case x < 25 || n == 0:
			switch r.Intn(6) {
			case 0:
				t.arr.AddNewArray()
				return "arr.addNewArray"
			case 1:
				t.arr.AddNewObject()
				return "arr.addNewObject"
			case 2:
				t.arr.AddNewCounter(crdt.IntegerCnt, int32(r.Intn(5)))
				return "arr.addNewCounter"
			default:
				t.arr.AddInteger(r.Intn(1000))
				return "arr.addInteger"
			}
		case x < 45:
			t.arr.InsertIntegerAfter(r.Intn(n), r.Intn(1000))
			return "arr.insertAfter"
		case x < 62:
			t.arr.Delete(r.Intn(n))
			return "arr.delete"
		case x < 76:
			if n < 2 {
				t.arr.AddInteger(r.Intn(1000))
				return "arr.addInteger"
			}
			i, j := r.Intn(n), r.Intn(n)
			if i == j {
				j = (j + 1) % n
			}
			t.arr.MoveAfterByIndex(i, j)
			return "arr.moveAfter"
		case x < 82:
			t.arr.MoveFront(t.arr.Get(r.Intn(n)).CreatedAt())
			return "arr.moveFront"
		case x < 88:
			t.arr.MoveLast(t.arr.Get(r.Intn(n)).CreatedAt())
			return "arr.moveLast"
		default:
			if noArraySet {
				t.arr.AddInteger(r.Intn(1000))
				return "arr.addInteger"
			}
			t.arr.SetInteger(r.Intn(n), r.Intn(1000))
			return "arr.setInteger"
		}
	default:
		if t.cnt.ValueType() == crdt.LongCnt {
			t.cnt.Increase(int64(r.Intn(1<<30)) << uint(r.Intn(34)))
		} else if t.cnt.ValueType() == crdt.IntegerCnt {
			t.cnt.Increase(int(int32(r.Uint32())) >> uint(r.Intn(31)))
		}
		return "cnt.increase"
	}
}

func (w *crdtWorld) newReplica(k int, actor time.ActorID, preAttach bool) *crdtReplica {
	d := document.New("doc-crdt")
	if !preAttach {
		d.SetActor(actor)
	}
	d.SetStatus(document.StatusAttached)
	rep := &crdtReplica{name: fmt.Sprintf("r%d", k), doc: d, actor: actor, preAttach: preAttach, attached: !preAttach}
	w.reps = append(w.reps, rep)
	return rep
}

func (w *crdtWorld) observe(rep *crdtReplica) {
	c := w.c
	c.Cmd("M %s", rep.name)
	root := rep.doc.Marshal()
	c.Obs("%s", root)
	if clone := rep.doc.Root().Marshal(); clone != root {
		c.Oracle("%sclone != root on %s: clone=%s root=%s", w.knownTag(), rep.name, clone, root)
	}
}

// emitChange writes the OP lines of one change for replica rep; ok is the implementation's verdict.
func (w *crdtWorld) emitChange(rep *crdtReplica, cn *change.Change, ok bool) {
	for _, op := range cn.Operations() {
		w.c.Cmd("OP %s %s", rep.name, encOp(op))
		if ok {
			w.c.Obs("ok")
		} else {
			w.c.Obs("err")
		}
	}
}

func (w *crdtWorld) localEdit(rep *crdtReplica) {
	c := w.c
	if !rep.attached {
		w.preAttachRefs = true // a change is being made before SetActor
	}
	var what string
	before := len(rep.doc.CreateChangePack().Changes)
	var err error
	if rec := safely(func() { err = w.updateOnce(rep, &what) }); rec != nil {
		err = fmt.Errorf("panic: %v", rec)
	}
	if err != nil {
		c.Oracle("%supdate failed on %s: %v", w.knownTag(), rep.name, err)
		return
	}
	chs := rep.doc.CreateChangePack().Changes
	for _, cn := range chs[before:] {
		w.emitChange(rep, cn, true)
		// C06 tie: the model predicts the change's clock from the replica's previous clock
		c.Cmd("CID %s local", rep.name)
		c.Obs("%s", showID(cn.ID()))
		w.checkClock(cn)
	}
	w.observe(rep)
}

// updateOnce performs one random Update on the replica.
func (w *crdtWorld) updateOnce(rep *crdtReplica, what *string) error {
	c := w.c
	return rep.doc.Update(func(root *json.Object, p *presence.Presence) error {
		n := 1
		if c.Rng.Intn(5) == 0 {
			n = 2 + c.Rng.Intn(2)
		}
		for i := 0; i < n; i++ {
			*what = randomEdit(c.Rng, root, c)
			c.Count("api:" + *what)
		}
		return nil
	})
}

// checkClock evaluates C06's first clause on a real change: vv[actor] == lamport.
func (w *crdtWorld) checkClock(cn *change.Change) {
	id := cn.ID()
	if v, ok := id.VersionVector().Get(id.ActorID()); !ok || v != id.Lamport() {
		w.c.Oracle(w.knownTag()+"change %d of %s: vv[actor]=%d ok=%v but lamport=%d", id.ClientSeq(), ActorNat(id.ActorID()), v, ok, id.Lamport())
	}
}

// roundTrip sends changes through the real wire converters.
func roundTrip(chs []*change.Change) ([]*change.Change, error) {
	pbs, err := converter.ToChanges(chs)
	if err != nil {
		return nil, err
	}
	return converter.FromChanges(pbs)
}

// refsInitialActor reports whether a pushed operation names an identity issued before SetActor
// (actor = InitialActorID, not the root ticket): peers never created such an identity.
func refsInitialActor(cn *change.Change) bool {
	isPre := func(t *time.Ticket) bool {
		return t != nil && t.ActorID() == time.InitialActorID && t.Lamport() > 0
	}
	for _, op := range cn.Operations() {
		switch o := op.(type) {
		case *operations.Set:
			if isPre(o.ParentCreatedAt()) {
				return true
			}
		case *operations.Add:
			if isPre(o.ParentCreatedAt()) || isPre(o.PrevCreatedAt()) {
				return true
			}
		case *operations.Move:
			if isPre(o.ParentCreatedAt()) || isPre(o.PrevCreatedAt()) || isPre(o.CreatedAt()) {
				return true
			}
		case *operations.Remove:
			if isPre(o.ParentCreatedAt()) || isPre(o.CreatedAt()) {
				return true
			}
		case *operations.ArraySet:
			if isPre(o.ParentCreatedAt()) || isPre(o.CreatedAt()) {
				return true
			}
		case *operations.Increase:
			if isPre(o.ParentCreatedAt()) {
				return true
			}
		}
	}
	return false
}

func (w *crdtWorld) sync(rep *crdtReplica) {
	c := w.c
	if !rep.attached {
		// what client.Attach does first
		rep.doc.SetActor(rep.actor)
		rep.attached = true
		c.Cmd("SETACTOR %s %s", rep.name, ActorNat(rep.actor))
		c.Obs("ok")
		c.Count("pre-attach:setactor")
	}
	pack := rep.doc.CreateChangePack()
	// push
	for _, cn := range pack.Changes {
		if cn.ClientSeq() <= rep.pushedC {
			continue
		}
		w.log = append(w.log, cn)
		rep.pushedC = cn.ClientSeq()
		if refsInitialActor(cn) {
			w.preAttachRefs = true
		}
	}
	// pull
	var pulled []*change.Change
	for _, cn := range w.log[rep.cpS:] {
		if cn.ID().ActorID() == rep.actor {
			continue
		}
		pulled = append(pulled, cn)
	}
	wire, err := roundTrip(pulled)
	if err != nil {
		c.Oracle("converter round trip failed: %v", err)
		return
	}
	head := int64(len(w.log))
	resp := change.NewPack(rep.doc.Key(), change.NewCheckpoint(head, rep.pushedC), wire, nil, nil)
	if rec := safely(func() { err = rep.doc.ApplyChangePack(resp) }); rec != nil {
		c.Oracle("%sApplyChangePack panicked on %s: %v", w.knownTag(), rep.name, rec)
		err = fmt.Errorf("panic: %v", rec)
	}
	if err != nil {
		c.Oracle("%sApplyChangePack failed on %s: %v", w.knownTag(), rep.name, err)
	}
	for _, cn := range wire {
		w.emitChange(rep, cn, err == nil)
		c.Cmd("CID %s recv %s", rep.name, encID(cn.ID()))
		c.Obs("ok")
	}
	c.Cmd("CIDQ %s", rep.name)
	c.Obs("lam=%d vv=%s", rep.doc.InternalDocument().Lamport(), ShowVV(rep.doc.VersionVector()))
	rep.cpS = head
	if len(pulled) > 0 {
		c.Count("sync:with-remote-changes")
	}
	w.observe(rep)
}

// knownTag classifies a failure: only when a pushed operation really names a pre-SetActor identity.
func (w *crdtWorld) knownTag() string {
	if w.preAttachRefs {
		return "KNOWN[c01-pre-attach-edit] "
	}
	return ""
}

func (w *crdtWorld) finish() {
	for round := 0; round < 2; round++ {
		for _, rep := range w.reps {
			w.sync(rep)
		}
	}
	first := w.reps[0].doc.Marshal()
	for _, rep := range w.reps[1:] {
		if m := rep.doc.Marshal(); m != first {
			w.c.Oracle("%sreplicas diverge after quiescence: %s=%s vs %s=%s", w.knownTag(), w.reps[0].name, first, rep.name, m)
		}
	}
}

// preAttachShare: one replica in N edits before SetActor (0 = never). Set by `-preattach N`.
var preAttachShare = 0

func runCrdt(c *Ctx) error {
	for i, a := range os.Args {
		if a == "-preattach" && i+1 < len(os.Args) {
			fmt.Sscanf(os.Args[i+1], "%d", &preAttachShare)
		}
	}
	c.stats.Rule = "random 2-4 replica histories over the object/array(move,set)/counter editing API with a simulated " +
		"server log (server order, no echo) and wire round trip per delivery, GC off; every operation of every change is " +
		"replayed by the Lean model per replica and Marshal() compared after each step; non-trivial = some replica applied " +
		"a remote change while holding unpushed local changes (a concurrent pair); distinct by trace hash"
	if c.Replay != nil && !c.ReplaySeed("crdt") && !c.ReplaySeed("crdtpre") {
		return fmt.Errorf("crdt: replay needs a `T crdt-<seed>-<i>` line (traces are regenerated from the seed)")
	}
	r := c.Rng
	for i := 0; i < c.N; i++ {
		if c.Mute {
			c.Trace(fmt.Sprintf("crdtpre-%d-%d", c.Seed, i))
		} else {
			c.Trace(fmt.Sprintf("crdt-%d-%d", c.Seed, i))
		}
		w := &crdtWorld{c: c}
		n := 2 + r.Intn(3)
		for k := 0; k < n; k++ {
			pre := preAttachShare > 0 && r.Intn(preAttachShare) == 0
			rep := w.newReplica(k, mkActor(r, k), pre)
			if pre {
				c.Cmd("R %s 0", rep.name)
				c.Count("pre-attach:replica")
			} else {
				c.Cmd("R %s %s", rep.name, ActorNat(rep.actor))
			}
			c.Obs("ok")
		}
		steps := 8 + r.Intn(34)
		for s := 0; s < steps; s++ {
			rep := w.reps[r.Intn(n)]
			if r.Intn(100) < 68 {
				w.localEdit(rep)
			} else {
				if rep.doc.HasLocalChanges() && int(rep.cpS) < len(w.log) {
					c.Nontrivial()
				}
				w.sync(rep)
			}
		}
		w.finish()
	}
	return nil
}
