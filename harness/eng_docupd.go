package main

// engine `docupd`: Document.Update with callbacks that succeed, return an error after j calls,
// panic after j calls, or are rejected by the size limit; interleaved with remote change packs
// and acknowledgements. Ties Model/Document.lean (C08) to pkg/document/document.go.
//
// "A failed update leaves the document, its pending changes AND ITS UNDO HISTORY exactly as
// before": before and after every update CanUndo/CanRedo, the depths of the two stacks and the
// `updating` flag (unexported: read through reflection, read-only) are recorded; a failed update
// must leave them unchanged (oracle) and the flag is compared with the model after every step
// (`F`). In a share of the traces a CONTROL document receives the same history minus the failed
// updates; at the end of the trace both histories are unwound and replayed (Undo*, Redo*) and
// must agree step by step: a failed update is indistinguishable from no update at all.

import (
	"fmt"
	"math/rand"
	"os"
	"reflect"
	"strings"

	"github.com/yorkie-team/yorkie/pkg/document"
	"github.com/yorkie-team/yorkie/pkg/document/change"
	"github.com/yorkie-team/yorkie/pkg/document/crdt"
	"github.com/yorkie-team/yorkie/pkg/document/json"
	"github.com/yorkie-team/yorkie/pkg/document/presence"
	"github.com/yorkie-team/yorkie/pkg/document/time"
)

func init() { register("docupd", runDocUpd) }

type updState struct {
	root, vv string
	changes  int
	cpC      uint32
	cpS      int64
	// the undo history as the API shows it, and as it is (stack depths; -1 = not observable)
	canUndo, canRedo     bool
	undoDepth, redoDepth int
	updating             string
}

// histObs reads the depths of the undo / redo stacks and the `updating` flag of a Document.
// They are unexported: reflection, read-only (Len / Uint of an unexported field are permitted).
// A field that no longer exists is reported as -1 / "unobservable" (the `F` line then differs
// from the model's, which says that this harness has to follow the code).
func histObs(d *document.Document) (undo, redo int, updating string) {
	undo, redo, updating = -1, -1, "unobservable"
	v := reflect.ValueOf(d).Elem()
	if h := v.FieldByName("history"); h.IsValid() && h.Kind() == reflect.Ptr && !h.IsNil() {
		if f := h.Elem().FieldByName("undoStack"); f.IsValid() && f.Kind() == reflect.Slice {
			undo = f.Len()
		}
		if f := h.Elem().FieldByName("redoStack"); f.IsValid() && f.Kind() == reflect.Slice {
			redo = f.Len()
		}
	}
	if f := v.FieldByName("updating"); f.IsValid() && f.Kind() == reflect.Struct {
		if x := f.FieldByName("v"); x.IsValid() && x.CanUint() {
			updating = fmt.Sprint(x.Uint() != 0)
		}
	}
	return
}

func snapUpd(d *document.Document) updState {
	p := d.CreateChangePack()
	u, r, f := histObs(d)
	return updState{root: d.Marshal(), vv: ShowVV(d.VersionVector()), changes: len(p.Changes),
		cpC: d.Checkpoint().ClientSeq, cpS: d.Checkpoint().ServerSeq,
		canUndo: d.CanUndo(), canRedo: d.CanRedo(), undoDepth: u, redoDepth: r, updating: f}
}

// histView is what two documents with the same history must agree on.
func histView(d *document.Document) string {
	u, r, f := histObs(d)
	return fmt.Sprintf("root=%s canUndo=%v canRedo=%v undoDepth=%d redoDepth=%d updating=%s locals=%d",
		d.Marshal(), d.CanUndo(), d.CanRedo(), u, r, f, len(d.CreateChangePack().Changes))
}

// unwindAgainstControl undoes and redoes the whole history of d and of the control document in
// lockstep; every difference is something a failed update left behind.
func unwindAgainstControl(c *Ctx, d, ctl *document.Document, failed int) {
	if a, b := histView(d), histView(ctl); a != b {
		c.Oracle("after %d failed update(s) the document differs from a control that never saw them: doc{%s} control{%s}", failed, a, b)
		return
	}
	step := func(what string, f func(x *document.Document) error) bool {
		var e1, e2 error
		r1 := safely(func() { e1 = f(d) })
		r2 := safely(func() { e2 = f(ctl) })
		if fmt.Sprint(e1, r1) != fmt.Sprint(e2, r2) {
			c.Oracle("%s after %d failed update(s): doc says (%v, panic=%v), the control that never saw them says (%v, panic=%v)", what, failed, e1, r1, e2, r2)
			return false
		}
		if a, b := histView(d), histView(ctl); a != b {
			c.Oracle("%s after %d failed update(s) gives a different result than on a control that never saw them: doc{%s} control{%s}", what, failed, a, b)
			return false
		}
		if e1 != nil || r1 != nil {
			// identical on both documents: not a trace of a failed update (undo itself is C14's subject)
			msg := fmt.Sprint(e1, r1)
			if len(msg) > 60 {
				msg = msg[:60]
			}
			c.Count("unwind:" + what + ":fails-on-both:" + msg)
			if os.Getenv("VERIF_DEBUG") != "" {
				fmt.Fprintf(os.Stderr, "%s: %s fails on the document and on the control alike: %v %v\n", c.traceID, what, e1, r1)
			}
			return false
		}
		return true
	}
	n := 0
	for n < 4 && d.CanUndo() {
		if !step("Undo", (*document.Document).Undo) {
			return
		}
		n++
		c.Count("unwind:undo")
	}
	for ; n > 0 && d.CanRedo(); n-- {
		if !step("Redo", (*document.Document).Redo) {
			return
		}
		c.Count("unwind:redo")
	}
}

// safely runs f and reports a panic as a value (a panic in the real code must never kill the harness).
func safely(f func()) (rec any) {
	defer func() { rec = recover() }()
	f()
	return nil
}

func observeUpd(c *Ctx, d *document.Document) {
	c.Cmd("M")
	root := d.Marshal()
	c.Obs("%s", root)
	c.Cmd("MC")
	clone := "<panic>"
	if rec := safely(func() { clone = d.Root().Marshal() }); rec != nil {
		c.Oracle("reading the clone panicked: %v", rec)
	}
	c.Obs("%s", clone)
	if clone != root {
		c.Oracle("clone != root: clone=%s root=%s", clone, root)
	}
	c.Cmd("L")
	p := d.CreateChangePack()
	c.Obs("locals=%d seq=%d", len(p.Changes), p.Checkpoint.ClientSeq)
	// between two calls the flag is down: Undo/Redo/ClearHistory do not refuse
	c.Cmd("F")
	_, _, f := histObs(d)
	c.Obs("updating=%s", f)
}

// callsOn performs k random API calls driven by seed on root.
func callsOn(seed int64, k int, root *json.Object, c *Ctx) {
	r := rand.New(rand.NewSource(seed))
	for i := 0; i < k; i++ {
		randomEdit(r, root, c)
	}
}

// docUpdStep is one scripted update of a scenario: calls made by the callback, and how it ends.
type docUpdStep struct {
	calls func(root *json.Object)
	out   string // ok | err | panic
}

// runDocUpdScenario replays a fixed, named history (regression witnesses of repaired defects).
func runDocUpdScenario(c *Ctx, name string) error {
	scenarios := map[string][]docUpdStep{
		// a callback that edits and then panics must not leave its edits in the clone
		"panic-dirty-clone": {
			{func(r *json.Object) { r.SetInteger("a", 1) }, "ok"},
			{func(r *json.Object) { r.SetInteger("b", 2) }, "panic"},
			{func(r *json.Object) { r.SetInteger("c", 3) }, "ok"},
		},
		// a clone re-created by DeepCopy after a failed update must keep the order of an array
		// that contains a moved element
		"deepcopy-moved-array": {
			{func(r *json.Object) { r.SetNewArray("l").AddInteger(1, 2, 3) }, "ok"},
			{func(r *json.Object) { r.GetArray("l").MoveAfterByIndex(2, 0) }, "ok"},
			{func(r *json.Object) { r.SetInteger("x", 1) }, "err"},
			{func(r *json.Object) { r.GetArray("l").AddInteger(4) }, "ok"},
			{func(r *json.Object) { r.GetArray("l").InsertIntegerAfter(0, 5) }, "ok"},
		},
	}
	// a panicking callback must leave the undo history usable (the `updating` flag is lowered on
	// the panic path as well): CanUndo stays true, Undo and Redo work and give the content back
	scenarios["panic-keeps-history"] = []docUpdStep{
		{func(r *json.Object) { r.SetInteger("a", 1) }, "ok"},
		{func(r *json.Object) { r.SetInteger("a", 2) }, "ok"},
		{func(r *json.Object) { r.SetInteger("b", 2) }, "panic"},
	}
	steps, ok := scenarios[name]
	if !ok {
		return fmt.Errorf("docupd: unknown scenario %q", name)
	}
	c.Trace("docupd-scn-" + name)
	c.Cmd("SCN %s", name)
	c.Obs("scenario")
	d := document.New("doc-upd")
	var a time.ActorID
	a[11] = 7
	d.SetActor(a)
	d.SetStatus(document.StatusAttached)
	for si, st := range steps {
		cp, err := d.InternalDocument().DeepCopy()
		if err != nil {
			return err
		}
		shadow := cp.ToDocument()
		before := len(shadow.CreateChangePack().Changes)
		if err := shadow.Update(func(root *json.Object, p *presence.Presence) error { st.calls(root); return nil }); err != nil {
			return err
		}
		n := 0
		for _, cn := range shadow.CreateChangePack().Changes[before:] {
			for _, op := range cn.Operations() {
				c.Cmd("BUF %s", encOp(op))
				c.Obs("ok")
				n++
			}
		}
		pre := snapUpd(d)
		safely(func() {
			_ = d.Update(func(root *json.Object, p *presence.Presence) error {
				st.calls(root)
				switch st.out {
				case "err":
					return fmt.Errorf("callback failed")
				case "panic":
					panic("callback panicked")
				}
				return nil
			})
		})
		c.Cmd("UPD %s %d", st.out, n)
		c.Obs("done")
		if st.out != "ok" {
			if post := snapUpd(d); post != pre {
				c.Oracle("failed update (%s) changed the document: before=%+v after=%+v", st.out, pre, post)
			}
		}
		observeUpd(c, d)
		if st.out != "ok" && pre.canUndo && si == len(steps)-1 {
			// (last step only: the model does not follow undo/redo)
			// the history is usable right after the failed update: Undo, then Redo, bring the content back
			var e1, e2 error
			before := d.Marshal()
			r1 := safely(func() { e1 = d.Undo() })
			mid := d.Marshal()
			r2 := safely(func() { e2 = d.Redo() })
			if e1 != nil || e2 != nil || r1 != nil || r2 != nil {
				c.Oracle("after a failed update (%s): Undo -> (%v, panic=%v), Redo -> (%v, panic=%v)", st.out, e1, r1, e2, r2)
			} else if mid == before || d.Marshal() != before {
				c.Oracle("after a failed update (%s): Undo+Redo do not work: before=%s after-undo=%s after-redo=%s", st.out, before, mid, d.Marshal())
			}
		}
	}
	c.Nontrivial()
	return nil
}

func runDocUpd(c *Ctx) error {
	c.stats.Rule = "single Document with random updates whose callback succeeds / returns an error after j calls / " +
		"panics after j calls / is rejected by the size limit, interleaved with remote change packs from a peer and " +
		"acknowledgements; the operations the callback performs are captured on a deep copy and replayed by the model; " +
		"root Marshal, clone Marshal, pending change count and the `updating` flag compared after every step; CanUndo/CanRedo and the stack " +
		"depths must survive a failed update; in 40% of the traces the history is finally unwound (Undo*, Redo*) in lockstep with a control " +
		"document that never saw the failed updates; non-trivial = trace contains a " +
		"failing or panicking callback with j >= 1 followed by a successful update; distinct by trace hash"
	r := c.Rng
	defer func() { noArraySet = false }()
	if c.Replay != nil {
		for _, l := range c.Replay {
			if strings.HasPrefix(l, "SCN ") {
				return runDocUpdScenario(c, strings.TrimPrefix(l, "SCN "))
			}
		}
		if !c.ReplaySeed("docupd") {
			return fmt.Errorf("docupd: replay needs a `SCN <name>` or a `T docupd-<seed>-<i>` line")
		}
	}
	r = c.Rng
	for i := 0; i < c.N; i++ {
		c.Trace(fmt.Sprintf("docupd-%d-%d", c.Seed, i))
		// two modes per trace: GC on (acknowledgements carry the minimum version vector) and no
		// set-by-index, or GC off with set-by-index allowed (see noArraySet)
		gcMode := r.Intn(2) == 0
		noArraySet = gcMode
		if gcMode {
			c.Count("trace:gc-on")
		} else {
			c.Count("trace:gc-off-with-arrayset")
		}
		d := document.New("doc-upd")
		d.SetActor(mkActor(r, 0))
		d.SetStatus(document.StatusAttached)
		peer := document.New("doc-upd")
		peer.SetActor(mkActor(r, 1))
		peer.SetStatus(document.StatusAttached)
		// the control: same actor, same history minus the failed updates (decided by a PRNG of its
		// own so that the main stream – and with it every generated trace – stays what it was)
		r2 := rand.New(rand.NewSource(c.Seed*1000003 + int64(i) + 17))
		var ctl *document.Document
		if r2.Intn(5) < 2 {
			ctl = document.New("doc-upd")
			ctl.SetActor(d.ActorID())
			ctl.SetStatus(document.StatusAttached)
			c.Count("trace:with-control")
		}
		failedN := 0
		var peerDelivered int
		var dDelivered int
		purged := false
		_ = purged
		sawFail, nontrivial := false, false
		steps := 6 + r.Intn(24)
		for s := 0; s < steps; s++ {
			switch x := r.Intn(100); {
			case x < 70: // local update
				k := 1 + r.Intn(3)
				seed := r.Int63()
				out := "ok"
				switch y := r.Intn(100); {
				case y < 55:
				case y < 72:
					out = "err"
				case y < 90:
					out = "panic"
				default:
					out = "rej"
				}
				j := k
				if out == "err" || out == "panic" {
					j = r.Intn(k + 1)
				}
				// capture the operations on a deep copy (same change id => same tickets)
				cp, err := d.InternalDocument().DeepCopy()
				if err != nil {
					return err
				}
				shadow := cp.ToDocument()
				before := len(shadow.CreateChangePack().Changes)
				var serr error
				func() {
					defer func() {
						if rec := recover(); rec != nil {
							serr = fmt.Errorf("shadow panicked: %v root=%s lamport=%d", rec, shadow.Marshal(), shadow.InternalDocument().Lamport())
						}
					}()
					serr = shadow.Update(func(root *json.Object, p *presence.Presence) error {
						callsOn(seed, j, root, c)
						return nil
					})
				}()
				if serr != nil {
					c.Oracle("capturing the callback's operations on a deep copy failed: %v", serr)
					break
				}
				chs := shadow.CreateChangePack().Changes
				for _, cn := range chs[before:] {
					for _, op := range cn.Operations() {
						c.Cmd("BUF %s", encOp(op))
						c.Obs("ok")
					}
				}
				pre := snapUpd(d)
				var uerr error
				panicked := false
				func() {
					defer func() {
						if rec := recover(); rec != nil {
							panicked = true
						}
					}()
					if out == "rej" {
						d.MaxSizeLimit = 1
					}
					uerr = d.Update(func(root *json.Object, p *presence.Presence) error {
						callsOn(seed, j, root, c)
						switch out {
						case "err":
							return fmt.Errorf("callback failed")
						case "panic":
							panic("callback panicked")
						}
						return nil
					})
				}()
				d.MaxSizeLimit = 0
				c.Count("update:" + out)
				if out == "rej" && j > 0 && uerr == nil {
					// nothing was produced (e.g. delete of an absent key): treat as ok
					out = "ok"
				}
				c.Cmd("UPD %s %d", out, j)
				c.Obs("done")
				if out != "ok" {
					failedN++
				} else if ctl != nil && !panicked && uerr == nil {
					if rec := safely(func() {
						uerr = ctl.Update(func(root *json.Object, p *presence.Presence) error {
							callsOn(seed, j, root, c)
							return nil
						})
					}); rec != nil || uerr != nil {
						c.Oracle("the control document failed an update the document accepted: %v %v", rec, uerr)
						ctl = nil
					}
				}
				if out != "ok" {
					if uerr == nil && !panicked {
						c.Oracle("update with outcome %s reported success", out)
					}
					if post := snapUpd(d); post != pre {
						c.Oracle("failed update (%s@%d) changed the document: before=%+v after=%+v", out, j, pre, post)
					}
					if j > 0 {
						sawFail = true
					}
				} else if panicked {
					c.Oracle("update that does not panic by construction panicked")
				} else if uerr != nil {
					c.Oracle("successful-by-construction update failed: %v", uerr)
				} else if sawFail {
					nontrivial = true
				}
			case x < 88: // remote changes from the peer
				// the peer only sets keys of the root object / bumps counters: it never anchors an
				// operation next to deleted array content, so running GC on `d` (below) stays inside
				// the region where C03's known findings cannot occur
				if err := peer.Update(func(root *json.Object, p *presence.Presence) error {
					k := crdtKeys[r.Intn(len(crdtKeys))]
					if _, isCnt := root.Object.Get(k).(*crdt.Counter); isCnt && r.Intn(2) == 0 {
						root.GetCounter(k).Increase(r.Intn(100))
					} else {
						root.SetInteger(k, r.Intn(1000))
					}
					return nil
				}); err != nil {
					return err
				}
				all := peer.CreateChangePack().Changes
				fresh := all[peerDelivered:]
				peerDelivered = len(all)
				wire, err := roundTrip(fresh)
				if err != nil {
					return err
				}
				for _, cn := range wire {
					for _, op := range cn.Operations() {
						c.Cmd("BUF %s", encOp(op))
						c.Obs("ok")
					}
				}
				resp := change.NewPack(d.Key(), d.Checkpoint().NextServerSeq(d.Checkpoint().ServerSeq+int64(len(wire))), wire, nil, nil)
				if rec := safely(func() {
					if err := d.ApplyChangePack(resp); err != nil {
						c.Oracle("ApplyChangePack failed: %v", err)
					}
				}); rec != nil {
					c.Oracle("ApplyChangePack panicked: %v", rec)
				}
				if ctl != nil {
					if wire2, err := roundTrip(fresh); err != nil {
						return err
					} else if err := ctl.ApplyChangePack(change.NewPack(ctl.Key(),
						ctl.Checkpoint().NextServerSeq(ctl.Checkpoint().ServerSeq+int64(len(wire2))), wire2, nil, nil)); err != nil {
						c.Oracle("the control document failed to apply a remote pack: %v", err)
						ctl = nil
					}
				}
				// the peer also needs d's view to stay causally sane for later edits: not required here
				c.Cmd("REM")
				c.Obs("done")
			default: // acknowledge all local changes; the peer pulls them, so GC can run on `d`
				p := d.CreateChangePack()
				n := len(p.Changes)
				var minVV time.VersionVector
				if wire, err := roundTrip(p.Changes[dDelivered:]); err == nil {
					dDelivered = 0 // all pending changes are acknowledged below
					if err := peer.ApplyChangePack(change.NewPack(peer.Key(),
						peer.Checkpoint().NextServerSeq(peer.Checkpoint().ServerSeq+int64(len(wire))), wire, nil, nil)); err != nil {
						c.Oracle("peer failed to apply the author's changes: %v", err)
					} else {
						// what the server hands out: the minimum over the attached clients' vectors
						if gcMode {
							minVV = time.MinVersionVector(d.VersionVector(), peer.VersionVector())
							c.Count("ack:with-gc-vector")
						}
					}
				}
				garbageBefore := d.GarbageLen()
				resp := change.NewPack(d.Key(), change.NewCheckpoint(d.Checkpoint().ServerSeq, p.Checkpoint.ClientSeq), nil, minVV, nil)
				if rec := safely(func() {
					if err := d.ApplyChangePack(resp); err != nil {
						c.Oracle("ack failed: %v", err)
					}
				}); rec != nil {
					c.Oracle("ack panicked: %v", rec)
				}
				if d.GarbageLen() < garbageBefore {
					c.Count("ack:purged-something")
					purged = true
				}
				if ctl != nil {
					var mv time.VersionVector
					if minVV != nil {
						mv = minVV.DeepCopy()
					}
					pc := ctl.CreateChangePack()
					if err := ctl.ApplyChangePack(change.NewPack(ctl.Key(),
						change.NewCheckpoint(ctl.Checkpoint().ServerSeq, pc.Checkpoint.ClientSeq), nil, mv, nil)); err != nil {
						c.Oracle("the control document failed an acknowledgement: %v", err)
						ctl = nil
					}
				}
				c.Cmd("ACK %d", n)
				c.Obs("done")
			}
			observeUpd(c, d)
		}
		// unwind and replay the history against the control (no model line follows: the trace ends)
		if ctl != nil {
			if failedN > 0 {
				c.Count("trace:control-compared-after-failures")
			}
			unwindAgainstControl(c, d, ctl, failedN)
		}
		if nontrivial {
			c.Nontrivial()
		}
	}
	return nil
}
