package main

// engine `json`: INTEGRATED correspondence of the json layer (pkg/document/json object.go,
// array.go, counter.go + change.Context ticket issue) with Model/Json.lean, for C07 (array /
// object / counter half) and C08 (clone == root after every update).
//
// One editing replica A and a peer B (both real document.Document values, simulated server log as
// in eng_crdt.go, every delivery through the wire converters, GC off). For A's local edits the
// command stream carries ONLY the API call (`CALL <container ticket> <kind> args`): the model
// has to issue the tickets and build the operations itself; the implementation prints `encOp` of
// every operation of the change the update produced (COMMIT line) and the clone's Marshal() after
// every call. The peer's changes reach A op-fed (`RC` + `OP` lines), so that tombstones, dead
// slots, moved elements and concurrent inserts are present when A edits.
//
// Oracle (C07 reference check): before every call a plain Go value (map / slice / int) is built
// from the visible document, the call is applied to it with plain slice / map / two's-complement
// semantics, and the clone's Marshal() after the call must print the same text.

import (
	"fmt"
	"math/rand"
	"net/url"
	"os"
	"sort"
	"strconv"
	"strings"

	"github.com/yorkie-team/yorkie/pkg/document"
	"github.com/yorkie-team/yorkie/pkg/document/change"
	"github.com/yorkie-team/yorkie/pkg/document/crdt"
	"github.com/yorkie-team/yorkie/pkg/document/json"
	"github.com/yorkie-team/yorkie/pkg/document/operations"
	"github.com/yorkie-team/yorkie/pkg/document/presence"
	"github.com/yorkie-team/yorkie/pkg/document/time"
)

func init() { register("json", runJSON) }

var jsActorCache = map[time.ActorID]string{}

// jsEncTicket is encTicket with a cache for the (big.Int) actor rendering.
func jsEncTicket(t *time.Ticket) string {
	if t == nil {
		return "nil"
	}
	a, ok := jsActorCache[t.ActorID()]
	if !ok {
		a = ActorNat(t.ActorID())
		jsActorCache[t.ActorID()] = a
	}
	return strconv.FormatInt(t.Lamport(), 10) + ":" + strconv.FormatUint(uint64(t.Delimiter()), 10) + ":" + a
}

// ---------------------------------------------------------------- plain reference value

type jsRef struct {
	kind  string // prim, obj, arr, cnt
	text  string // prim: Marshal() text
	keys  map[string]*jsRef
	elems []*jsRef
	long  bool
	val   int64
	id    string // container ticket
}

func jsBuildRef(e crdt.Element) *jsRef {
	switch v := e.(type) {
	case *crdt.Object:
		r := &jsRef{kind: "obj", id: jsEncTicket(v.CreatedAt()), keys: map[string]*jsRef{}}
		for k, m := range v.Members() {
			r.keys[k] = jsBuildRef(m)
		}
		return r
	case *crdt.Array:
		r := &jsRef{kind: "arr", id: jsEncTicket(v.CreatedAt())}
		for _, el := range v.Elements() {
			r.elems = append(r.elems, jsBuildRef(el))
		}
		return r
	case *crdt.Counter:
		r := &jsRef{kind: "cnt", id: jsEncTicket(v.CreatedAt())}
		switch x := v.Value().(type) {
		case int32:
			r.val = int64(x)
		case int64:
			r.val, r.long = x, true
		}
		return r
	default:
		return &jsRef{kind: "prim", text: e.Marshal()}
	}
}

func (r *jsRef) marshal(sb *strings.Builder) {
	switch r.kind {
	case "prim":
		sb.WriteString(r.text)
	case "cnt":
		fmt.Fprintf(sb, "%d", r.val)
	case "obj":
		ks := make([]string, 0, len(r.keys))
		for k := range r.keys {
			ks = append(ks, k)
		}
		sort.Strings(ks)
		sb.WriteByte('{')
		for i, k := range ks {
			if i > 0 {
				sb.WriteByte(',')
			}
			fmt.Fprintf(sb, "%q:", k)
			r.keys[k].marshal(sb)
		}
		sb.WriteByte('}')
	case "arr":
		sb.WriteByte('[')
		for i, e := range r.elems {
			if i > 0 {
				sb.WriteByte(',')
			}
			e.marshal(sb)
		}
		sb.WriteByte(']')
	}
}

func (r *jsRef) String() string {
	var sb strings.Builder
	r.marshal(&sb)
	return sb.String()
}

func (r *jsRef) find(id string) *jsRef {
	if r.id == id {
		return r
	}
	for _, c := range r.keys {
		if x := c.find(id); x != nil {
			return x
		}
	}
	for _, c := range r.elems {
		if x := c.find(id); x != nil {
			return x
		}
	}
	return nil
}

// jsRefVal is the plain value a `v=` argument denotes.
func jsRefVal(v string) *jsRef {
	switch {
	case v == "obj":
		return &jsRef{kind: "obj", keys: map[string]*jsRef{}}
	case v == "arr":
		return &jsRef{kind: "arr"}
	case strings.HasPrefix(v, "cnt:i:"):
		n, _ := strconv.ParseInt(v[6:], 10, 64)
		return &jsRef{kind: "cnt", val: int64(int32(n))}
	case strings.HasPrefix(v, "cnt:l:"):
		n, _ := strconv.ParseInt(v[6:], 10, 64)
		return &jsRef{kind: "cnt", val: n, long: true}
	case strings.HasPrefix(v, "prim:"):
		s, _ := url.QueryUnescape(v[5:])
		return &jsRef{kind: "prim", text: s}
	}
	return nil
}

func jsInsert(l []*jsRef, at int, x *jsRef) []*jsRef {
	out := make([]*jsRef, 0, len(l)+1)
	out = append(out, l[:at]...)
	out = append(out, x)
	return append(out, l[at:]...)
}

func jsRemove(l []*jsRef, at int) []*jsRef {
	out := make([]*jsRef, 0, len(l))
	out = append(out, l[:at]...)
	return append(out, l[at+1:]...)
}

func jsIndex(l []*jsRef, x *jsRef) int {
	for i, y := range l {
		if y == x {
			return i
		}
	}
	return -1
}

// jsApplyRef applies the call to the plain value. verdict: "ok", "noop" (call returns nil
// without effect) or "panic" (the API documents a panic: index out of bound / no such container).
func jsApplyRef(root *jsRef, id, kind string, a map[string]string) string {
	t := root.find(id)
	if t == nil {
		return "panic"
	}
	i, _ := strconv.Atoi(a["i"])
	j, _ := strconv.Atoi(a["j"])
	key, _ := url.QueryUnescape(a["k"])
	in := func(x int) bool { return x >= 0 && x < len(t.elems) }
	switch kind {
	case "obj.set":
		if t.kind != "obj" {
			return "panic"
		}
		t.keys[key] = jsRefVal(a["v"])
	case "obj.delete":
		if t.kind != "obj" {
			return "panic"
		}
		if _, ok := t.keys[key]; !ok {
			return "noop"
		}
		delete(t.keys, key)
	case "arr.add":
		if t.kind != "arr" {
			return "panic"
		}
		t.elems = append(t.elems, jsRefVal(a["v"]))
	case "arr.insertAfter":
		if t.kind != "arr" || !in(i) {
			return "panic"
		}
		t.elems = jsInsert(t.elems, i+1, jsRefVal(a["v"]))
	case "arr.delete":
		if t.kind != "arr" {
			return "panic"
		}
		if !in(i) {
			return "noop"
		}
		t.elems = jsRemove(t.elems, i)
	case "arr.moveAfter":
		if t.kind != "arr" || !in(i) || !in(j) {
			return "panic"
		}
		if i != j {
			prev, x := t.elems[i], t.elems[j]
			t.elems = jsRemove(t.elems, j)
			t.elems = jsInsert(t.elems, jsIndex(t.elems, prev)+1, x)
		}
	case "arr.moveBefore":
		if t.kind != "arr" || !in(i) || !in(j) {
			return "panic"
		}
		if i != j {
			next, x := t.elems[i], t.elems[j]
			t.elems = jsRemove(t.elems, j)
			t.elems = jsInsert(t.elems, jsIndex(t.elems, next), x)
		}
	case "arr.moveFront":
		if t.kind != "arr" || !in(i) {
			return "panic"
		}
		x := t.elems[i]
		t.elems = jsInsert(jsRemove(t.elems, i), 0, x)
	case "arr.moveLast":
		if t.kind != "arr" || !in(i) {
			return "panic"
		}
		x := t.elems[i]
		t.elems = append(jsRemove(t.elems, i), x)
	case "arr.set":
		if t.kind != "arr" || !in(i) {
			return "panic"
		}
		t.elems[i] = jsRefVal(a["v"])
	case "cnt.increase":
		if t.kind != "cnt" {
			return "panic"
		}
		d, _ := strconv.ParseInt(a["d"], 10, 64)
		if t.long {
			t.val += d // int64 wrap-around
		} else {
			t.val = int64(int32(t.val) + int32(d)) // int32 wrap-around of both operand and sum
		}
	default:
		return "panic"
	}
	return "ok"
}

// ---------------------------------------------------------------- executing a call on the real json layer

func jsArgs(toks []string) map[string]string {
	m := map[string]string{}
	for _, t := range toks {
		if i := strings.IndexByte(t, '='); i > 0 {
			m[t[:i]] = t[i+1:]
		}
	}
	return m
}

func jsFind(root *json.Object, id string) (jsonContainer, bool) {
	for _, x := range containers(root) {
		var t *time.Ticket
		switch x.kind {
		case "obj":
			t = x.obj.CreatedAt()
		case "arr":
			t = x.arr.CreatedAt()
		default:
			t = x.cnt.CreatedAt()
		}
		if jsEncTicket(t) == id {
			return x, true
		}
	}
	return jsonContainer{}, false
}

// jsPrim decodes a `prim:` argument into the Go value handed to the typed setter.
func jsPrim(v string) any {
	s, _ := url.QueryUnescape(strings.TrimPrefix(v, "prim:"))
	switch {
	case s == "null":
		return nil
	case s == "true":
		return true
	case s == "false":
		return false
	case strings.HasPrefix(s, `"`):
		u, err := strconv.Unquote(s)
		if err != nil {
			panic("harness: bad string literal " + s)
		}
		return u
	}
	n, err := strconv.ParseInt(s, 10, 64)
	if err != nil {
		panic("harness: bad primitive " + s)
	}
	return int(n)
}

// jsDo performs the call; noop reports that the API returned nil without doing anything.
func jsDo(t jsonContainer, kind string, a map[string]string) (noop bool) {
	i, _ := strconv.Atoi(a["i"])
	j, _ := strconv.Atoi(a["j"])
	key, _ := url.QueryUnescape(a["k"])
	v := a["v"]
	want := func(k string) {
		if t.kind != k {
			panic("container kind mismatch")
		}
	}
	switch kind {
	case "obj.set":
		want("obj")
		switch {
		case v == "obj":
			t.obj.SetNewObject(key)
		case v == "arr":
			t.obj.SetNewArray(key)
		case strings.HasPrefix(v, "cnt:i:"):
			n, _ := strconv.ParseInt(v[6:], 10, 64)
			t.obj.SetNewCounter(key, int32(n))
		case strings.HasPrefix(v, "cnt:l:"):
			n, _ := strconv.ParseInt(v[6:], 10, 64)
			t.obj.SetNewCounter(key, n)
		default:
			switch x := jsPrim(v).(type) {
			case nil:
				t.obj.SetNull(key)
			case bool:
				t.obj.SetBool(key, x)
			case string:
				t.obj.SetString(key, x)
			case int:
				t.obj.SetInteger(key, x)
			}
		}
	case "obj.delete":
		want("obj")
		return t.obj.Delete(key) == nil
	case "arr.add":
		want("arr")
		switch {
		case v == "obj":
			t.arr.AddNewObject()
		case v == "arr":
			t.arr.AddNewArray()
		case strings.HasPrefix(v, "cnt:i:"):
			n, _ := strconv.ParseInt(v[6:], 10, 64)
			t.arr.AddNewCounter(crdt.IntegerCnt, int32(n))
		case strings.HasPrefix(v, "cnt:l:"):
			n, _ := strconv.ParseInt(v[6:], 10, 64)
			t.arr.AddNewCounter(crdt.LongCnt, n)
		default:
			switch x := jsPrim(v).(type) {
			case nil:
				t.arr.AddNull()
			case bool:
				t.arr.AddBool(x)
			case string:
				t.arr.AddString(x)
			case int:
				t.arr.AddInteger(x)
			}
		}
	case "arr.insertAfter":
		want("arr")
		switch x := jsPrim(v).(type) {
		case string:
			t.arr.InsertStringAfter(i, x)
		case int:
			t.arr.InsertIntegerAfter(i, x)
		default:
			panic("harness: insertAfter takes an integer or a string")
		}
	case "arr.delete":
		want("arr")
		return t.arr.Delete(i) == nil
	case "arr.moveAfter":
		want("arr")
		t.arr.MoveAfterByIndex(i, j)
	case "arr.moveBefore":
		want("arr")
		t.arr.MoveBefore(t.arr.Get(i).CreatedAt(), t.arr.Get(j).CreatedAt())
	case "arr.moveFront":
		want("arr")
		t.arr.MoveFront(t.arr.Get(i).CreatedAt())
	case "arr.moveLast":
		want("arr")
		t.arr.MoveLast(t.arr.Get(i).CreatedAt())
	case "arr.set":
		want("arr")
		switch x := jsPrim(v).(type) {
		case string:
			t.arr.SetString(i, x)
		case int:
			t.arr.SetInteger(i, x)
		default:
			panic("harness: arr.set takes an integer or a string")
		}
	case "cnt.increase":
		want("cnt")
		d, _ := strconv.ParseInt(a["d"], 10, 64)
		// the Go type of the operand is part of the API (convertAssertableOperand switches on it): the
		// result must not depend on it; chosen as a function of d so that replays are deterministic
		switch uint64(d) % 3 {
		case 0:
			t.cnt.Increase(int(d))
		case 1:
			t.cnt.Increase(d)
		default:
			if int64(int32(d)) == d {
				t.cnt.Increase(int32(d))
			} else {
				t.cnt.Increase(d)
			}
		}
	default:
		panic("harness: unknown call kind " + kind)
	}
	return false
}

// ---------------------------------------------------------------- world

type jsWorld struct {
	c                *Ctx
	a, b             *document.Document
	actorA, actorB   time.ActorID
	log              []*change.Change
	cpA, cpB         int64
	pushedA, pushedB uint32

	inCall      bool   // a CALL line has been written and its observation not yet
	expectPanic bool   // the plain reference says the running call must panic
	lastCall    string // for messages
	sawDebris   bool   // some call met a tombstone or a dead slot in its array
	calls       int
	aborted     bool // the last update ended in a panic (ABORT written)
}

func jsNewDoc(actor time.ActorID) *document.Document {
	d := document.New("doc-json")
	d.SetActor(actor)
	d.SetStatus(document.StatusAttached)
	return d
}

func (w *jsWorld) init(actor time.ActorID) {
	w.actorA = actor
	w.a = jsNewDoc(actor)
	w.c.Cmd("INIT %s", ActorNat(actor))
	w.c.Obs("ok")
}

func (w *jsWorld) observe() {
	c := w.c
	c.Cmd("M")
	root := w.a.Marshal()
	clone := "<panic>"
	if rec := safely(func() { clone = w.a.Root().Marshal() }); rec != nil {
		c.Oracle("reading the clone panicked: %v", rec)
	}
	c.Obs("root=%s clone=%s", root, clone)
	if clone != root {
		c.Oracle("clone != root: clone=%s root=%s", clone, root)
	}
}

// execLine runs one line inside the updater on the clone proxy `root`.
func (w *jsWorld) execLine(root *json.Object, line string) {
	c := w.c
	toks := strings.Fields(line)
	switch toks[0] {
	case "LEN":
		t, ok := jsFind(root, toks[1])
		if !ok || t.kind != "arr" {
			c.Obs("0")
			return
		}
		n := t.arr.Len()
		c.Obs("%d", n)
		if m := len(t.arr.Array.Elements()); m != n {
			c.Oracle("Len()=%d but %d visible elements in %s", n, m, toks[1])
		}
	case "GET":
		t, ok := jsFind(root, toks[1])
		i, _ := strconv.Atoi(toks[2])
		if !ok || t.kind != "arr" {
			c.Obs("nil")
			return
		}
		e := t.arr.Get(i)
		if e == nil {
			c.Obs("nil")
		} else {
			c.Obs("%s", jsEncTicket(e.CreatedAt()))
		}
		vis := t.arr.Array.Elements()
		if (e == nil) != (i >= len(vis)) || (e != nil && vis[i] != e) {
			c.Oracle("Get(%d) of %s is not the %d-th visible element", i, toks[1], i)
		}
	case "CALL":
		id, kind, a := toks[1], toks[2], jsArgs(toks[3:])
		w.lastCall = line
		w.calls++
		c.Count("call:" + kind)
		ref := jsBuildRef(root.Object)
		verdict := jsApplyRef(ref, id, kind, a)
		t, found := jsFind(root, id)
		moved := false // arr.set on an element that has been moved (known finding)
		if found && t.kind == "arr" {
			debris := false
			for _, n := range t.arr.AllRGANodes() {
				if n.IsRemoved() {
					debris = true
				}
			}
			if debris {
				w.sawDebris = true
				c.Count("call-on-array-with-debris")
			}
			if kind == "arr.set" {
				i, _ := strconv.Atoi(a["i"])
				if e := t.arr.Get(i); e != nil {
					if p, err := t.arr.PosCreatedAt(e.CreatedAt()); err == nil && p.Compare(e.CreatedAt()) != 0 {
						moved = true
					}
				}
			}
		}
		w.inCall, w.expectPanic = true, verdict == "panic"
		if !found {
			panic("no such container")
		}
		noop := jsDo(t, kind, a)
		w.inCall = false
		got := root.Marshal()
		if noop {
			c.Obs("noop %s", got)
			c.Count("verdict:noop")
		} else {
			c.Obs("ok %s", got)
			c.Count("verdict:ok")
		}
		switch {
		case verdict == "panic":
			c.Oracle("C07 reference: %s must panic (index out of bound) but returned", line)
		case (verdict == "noop") != noop:
			c.Oracle("C07 reference: %s: reference says %s, implementation noop=%t", line, verdict, noop)
		case ref.String() != got:
			if moved {
				c.Count("known:set-on-moved-element")
				c.Oracle("KNOWN[c07-set-on-moved-element] %s: visible value %s, plain reference %s", line, got, ref.String())
			} else {
				c.Oracle("C07 reference: after %s the visible value is %s, plain reference %s", line, got, ref.String())
			}
		}
	default:
		panic("harness: unexpected line inside an update: " + line)
	}
}

// update runs one Document.Update on A whose updater executes the lines `next` yields.
func (w *jsWorld) update(next func(root *json.Object) (string, bool)) {
	c := w.c
	c.Cmd("BEGIN")
	c.Obs("ok")
	before := len(w.a.CreateChangePack().Changes)
	rootBefore := w.a.Marshal()
	w.inCall = false
	w.aborted = false
	var uerr error
	rec := safely(func() {
		uerr = w.a.Update(func(root *json.Object, p *presence.Presence) error {
			for {
				line, ok := next(root)
				if !ok {
					return nil
				}
				c.Cmd("%s", line)
				w.execLine(root, line)
			}
		})
	})
	if rec != nil {
		if strings.HasPrefix(fmt.Sprint(rec), "harness:") {
			panic(rec)
		}
		if w.inCall {
			c.Obs("panic")
			c.Count("verdict:panic")
			if !w.expectPanic {
				c.Oracle("C07 reference: %s panicked (%v) although the plain reference accepts it", w.lastCall, rec)
			}
		} else {
			c.Oracle("panic outside a call: %v", rec)
		}
		w.aborted = true
		c.Cmd("ABORT")
		c.Obs("aborted")
		// C08: a failed update is a no-op
		if m := w.a.Marshal(); m != rootBefore {
			c.Oracle("failed update changed the root: %s -> %s", rootBefore, m)
		}
		if n := len(w.a.CreateChangePack().Changes); n != before {
			c.Oracle("failed update left %d new changes", n-before)
		}
		return
	}
	if uerr != nil {
		c.Oracle("update failed: %v", uerr)
	}
	chs := w.a.CreateChangePack().Changes[before:]
	c.Cmd("COMMIT")
	var sb strings.Builder
	n := 0
	for _, cn := range chs {
		for _, op := range cn.Operations() {
			n++
			sb.WriteString(" | ")
			sb.WriteString(encOp(op))
		}
	}
	c.Obs("change %d%s", n, sb.String())
	if len(chs) > 1 {
		c.Oracle("one update produced %d changes", len(chs))
	}
}

// deliver applies remote changes to A and writes them op-fed.
func (w *jsWorld) deliver(wire []*change.Change, head int64) {
	c := w.c
	resp := change.NewPack(w.a.Key(), change.NewCheckpoint(head, w.pushedA), wire, nil, nil)
	err := w.a.ApplyChangePack(resp)
	if err != nil {
		c.Oracle("ApplyChangePack failed on A: %v", err)
	}
	for _, cn := range wire {
		c.Cmd("RC lam=%d actor=%s", cn.ID().Lamport(), ActorNat(cn.ID().ActorID()))
		c.Obs("ok")
		for _, op := range cn.Operations() {
			c.Cmd("OP %s", encOp(op))
			if err == nil {
				c.Obs("ok")
			} else {
				c.Obs("err")
			}
		}
	}
	c.Cmd("SYNCED")
	c.Obs("lamport=%d", w.a.InternalDocument().Lamport())
	w.observe()
}

func (w *jsWorld) syncA() {
	for _, cn := range w.a.CreateChangePack().Changes {
		if cn.ClientSeq() > w.pushedA {
			w.log = append(w.log, cn)
			w.pushedA = cn.ClientSeq()
		}
	}
	var pulled []*change.Change
	for _, cn := range w.log[w.cpA:] {
		if cn.ID().ActorID() != w.actorA {
			pulled = append(pulled, cn)
		}
	}
	wire, err := roundTrip(pulled)
	if err != nil {
		w.c.Oracle("converter round trip failed: %v", err)
		return
	}
	head := int64(len(w.log))
	w.deliver(wire, head)
	w.cpA = head
	if len(pulled) > 0 {
		w.c.Count("sync:A-with-remote-changes")
	}
}

func (w *jsWorld) syncB() {
	for _, cn := range w.b.CreateChangePack().Changes {
		if cn.ClientSeq() > w.pushedB {
			w.log = append(w.log, cn)
			w.pushedB = cn.ClientSeq()
		}
	}
	var pulled []*change.Change
	for _, cn := range w.log[w.cpB:] {
		if cn.ID().ActorID() != w.actorB {
			pulled = append(pulled, cn)
		}
	}
	wire, err := roundTrip(pulled)
	if err != nil {
		w.c.Oracle("converter round trip failed: %v", err)
		return
	}
	head := int64(len(w.log))
	if err := w.b.ApplyChangePack(change.NewPack(w.b.Key(), change.NewCheckpoint(head, w.pushedB), wire, nil, nil)); err != nil {
		w.c.Oracle("ApplyChangePack failed on the peer: %v", err)
	}
	w.cpB = head
}

func (w *jsWorld) peerEdit() {
	c := w.c
	err := w.b.Update(func(root *json.Object, p *presence.Presence) error {
		n := 1 + c.Rng.Intn(3)
		for i := 0; i < n; i++ {
			c.Count("peer:" + randomEdit(c.Rng, root, c))
		}
		return nil
	})
	if err != nil {
		c.Oracle("peer update failed: %v", err)
	}
}

// ---------------------------------------------------------------- generator of A's calls

func jsGenVal(r *rand.Rand, containersToo bool) string {
	x := r.Intn(100)
	if !containersToo && x >= 70 {
		x = r.Intn(70)
	}
	switch {
	case x < 40:
		return fmt.Sprintf("prim:%d", r.Intn(1000))
	case x < 52:
		return "prim:" + pct(fmt.Sprintf("%q", fmt.Sprintf("s%d", r.Intn(100))))
	case x < 58:
		return fmt.Sprintf("prim:%t", r.Intn(2) == 0)
	case x < 62:
		return "prim:null"
	case x < 70:
		return fmt.Sprintf("prim:%d", int64(1+r.Intn(1000))<<33)
	case x < 82:
		return "arr"
	case x < 90:
		return "obj"
	case x < 95:
		return fmt.Sprintf("cnt:i:%d", r.Intn(10)-3)
	default:
		return fmt.Sprintf("cnt:l:%d", int64(r.Intn(10))<<uint(r.Intn(60)))
	}
}

func jsGenIntOrString(r *rand.Rand) string {
	if r.Intn(4) == 0 {
		return "prim:" + pct(fmt.Sprintf("%q", fmt.Sprintf("s%d", r.Intn(100))))
	}
	return fmt.Sprintf("prim:%d", r.Intn(1000))
}

// jsGenCall generates one call against the current visible state of the clone.
func jsGenCall(r *rand.Rand, root *json.Object, malformed bool) string {
	cs := containers(root)
	t := cs[r.Intn(len(cs))]
	if r.Intn(3) != 0 { // bias towards arrays
		var arrs []jsonContainer
		for _, x := range cs {
			if x.kind == "arr" {
				arrs = append(arrs, x)
			}
		}
		if len(arrs) > 0 {
			t = arrs[r.Intn(len(arrs))]
		}
	}
	switch t.kind {
	case "obj":
		id := jsEncTicket(t.obj.CreatedAt())
		members := t.obj.Object.Members()
		k := crdtKeys[r.Intn(len(crdtKeys))]
		for try := 0; try < 3; try++ { // keep containers alive most of the time
			if m, ok := members[k]; ok {
				if _, prim := m.(*crdt.Primitive); !prim && r.Intn(5) != 0 {
					k = crdtKeys[r.Intn(len(crdtKeys))]
					continue
				}
			}
			break
		}
		if r.Intn(100) < 18 {
			return fmt.Sprintf("CALL %s obj.delete k=%s", id, pct(k)) // absent key: returns nil
		}
		hasArr := false
		for _, x := range cs {
			hasArr = hasArr || x.kind == "arr"
		}
		if !hasArr && r.Intn(2) == 0 {
			return fmt.Sprintf("CALL %s obj.set k=%s v=arr", id, pct(k))
		}
		return fmt.Sprintf("CALL %s obj.set k=%s v=%s", id, pct(k), jsGenVal(r, true))
	case "arr":
		id := jsEncTicket(t.arr.CreatedAt())
		n := t.arr.Len()
		idx := func() int {
			if malformed || n == 0 {
				return n + r.Intn(2)
			}
			return r.Intn(n)
		}
		x := r.Intn(100)
		if n == 0 && !malformed {
			x = 0
		}
		switch {
		case x < 22:
			return fmt.Sprintf("CALL %s arr.add v=%s", id, jsGenVal(r, true))
		case x < 40:
			return fmt.Sprintf("CALL %s arr.insertAfter i=%d v=%s", id, idx(), jsGenIntOrString(r))
		case x < 54:
			return fmt.Sprintf("CALL %s arr.delete i=%d", id, idx())
		case x < 68:
			i, j := idx(), idx()
			if malformed && r.Intn(2) == 0 && n > 0 {
				i = r.Intn(n)
			}
			return fmt.Sprintf("CALL %s arr.moveAfter i=%d j=%d", id, i, j)
		case x < 75:
			return fmt.Sprintf("CALL %s arr.moveFront i=%d", id, idx())
		case x < 82:
			return fmt.Sprintf("CALL %s arr.moveLast i=%d", id, idx())
		case x < 88:
			return fmt.Sprintf("CALL %s arr.moveBefore i=%d j=%d", id, idx(), idx())
		default:
			return fmt.Sprintf("CALL %s arr.set i=%d v=%s", id, idx(), jsGenIntOrString(r))
		}
	default:
		id := jsEncTicket(t.cnt.CreatedAt())
		var d int64
		switch r.Intn(4) {
		case 0:
			d = int64(r.Intn(20) - 10)
		case 1:
			d = int64(int32(r.Uint32())) // full int32 range: wraps an Integer counter
		case 2:
			d = int64(r.Uint64()) >> uint(r.Intn(8)) // large: truncated by an Integer counter, wraps a Long one
		default:
			d = -(int64(r.Uint64()>>1) >> uint(r.Intn(8)))
		}
		return fmt.Sprintf("CALL %s cnt.increase d=%d", id, d)
	}
}

// ---------------------------------------------------------------- replay by command lines

func jsParseTicket(s string) *time.Ticket {
	p := strings.Split(s, ":")
	if len(p) != 3 {
		panic("harness: bad ticket " + s)
	}
	l, _ := strconv.ParseInt(p[0], 10, 64)
	d, _ := strconv.ParseUint(p[1], 10, 32)
	return time.NewTicket(l, uint32(d), NatActor(p[2]))
}

func jsParseElem(v string, t *time.Ticket) crdt.Element {
	switch {
	case v == "obj":
		return crdt.NewObject(crdt.NewElementRHT(), t)
	case v == "arr":
		return crdt.NewArray(crdt.NewRGATreeList(), t)
	case strings.HasPrefix(v, "cnt:i:"):
		n, _ := strconv.ParseInt(v[6:], 10, 64)
		e, _ := crdt.NewCounter(crdt.IntegerCnt, int32(n), t)
		return e
	case strings.HasPrefix(v, "cnt:l:"):
		n, _ := strconv.ParseInt(v[6:], 10, 64)
		e, _ := crdt.NewCounter(crdt.LongCnt, n, t)
		return e
	case strings.HasPrefix(v, "prim:"):
		e, err := crdt.NewPrimitive(jsPrim(v), t)
		if err != nil {
			panic("harness: " + err.Error())
		}
		return e
	}
	panic("harness: replay cannot rebuild value " + v)
}

// jsParseOp is the inverse of encOp for the operation kinds of the JSON-like document.
func jsParseOp(toks []string) operations.Operation {
	a := jsArgs(toks[1:])
	p, t := jsParseTicket(a["p"]), jsParseTicket(a["t"])
	switch toks[0] {
	case "set":
		k, _ := url.QueryUnescape(a["k"])
		return operations.NewSet(p, k, jsParseElem(a["v"], jsParseTicket(a["vt"])), t)
	case "add":
		return operations.NewAdd(p, jsParseTicket(a["prev"]), jsParseElem(a["v"], jsParseTicket(a["vt"])), t)
	case "move":
		return operations.NewMove(p, jsParseTicket(a["prev"]), jsParseTicket(a["target"]), t)
	case "remove":
		return operations.NewRemove(p, jsParseTicket(a["target"]), t)
	case "aset":
		return operations.NewArraySet(p, jsParseTicket(a["target"]), jsParseElem(a["v"], jsParseTicket(a["vt"])), t)
	case "inc":
		d, _ := strconv.ParseInt(a["d"], 10, 64)
		var e *crdt.Primitive
		if d >= -1<<31 && d < 1<<31 {
			e, _ = crdt.NewPrimitive(int32(d), t)
		} else {
			e, _ = crdt.NewPrimitive(d, t)
		}
		return operations.NewIncrease(p, e, t)
	}
	panic("harness: replay cannot rebuild operation " + strings.Join(toks, " "))
}

func (w *jsWorld) replay(lines []string) {
	c := w.c
	pos := 0
	for pos < len(lines) {
		l := lines[pos]
		toks := strings.Fields(l)
		switch toks[0] {
		case "T":
			c.Trace(strings.TrimPrefix(l, "T "))
			*w = jsWorld{c: c}
			pos++
		case "INIT":
			w.init(NatActor(toks[1]))
			pos++
		case "BEGIN":
			pos++
			w.update(func(root *json.Object) (string, bool) {
				if pos >= len(lines) {
					return "", false
				}
				x := lines[pos]
				pos++
				if x == "COMMIT" || x == "ABORT" {
					return "", false
				}
				return x, true
			})
			// after a panic the driver wrote ABORT itself; skip the recorded terminator
			if w.aborted && pos < len(lines) && (lines[pos] == "ABORT" || lines[pos] == "COMMIT") {
				pos++
			}
			w.inCall = false
		case "RC":
			var chs []*change.Change
			var seq uint32
			for pos < len(lines) && lines[pos] != "SYNCED" {
				tk := strings.Fields(lines[pos])
				switch tk[0] {
				case "RC":
					a := jsArgs(tk[1:])
					lam, _ := strconv.ParseInt(a["lam"], 10, 64)
					actor := NatActor(a["actor"])
					seq++
					vv := time.NewVersionVector()
					vv.Set(actor, lam)
					chs = append(chs, change.New(change.NewID(seq, 0, lam, actor, vv), "", nil, nil))
				case "OP":
					last := chs[len(chs)-1]
					ops := append(append([]operations.Operation{}, last.Operations()...), jsParseOp(tk[1:]))
					chs[len(chs)-1] = change.New(last.ID(), "", ops, nil)
				default:
					panic("harness: unexpected line in a remote pack: " + lines[pos])
				}
				pos++
			}
			pos++ // SYNCED
			w.pushedA = uint32(len(w.a.CreateChangePack().Changes)) + w.a.Checkpoint().ClientSeq
			w.deliverReplay(chs)
		case "SYNCED":
			w.deliverReplay(nil)
			pos++
		case "M":
			w.observe()
			pos++
		default:
			panic("harness: cannot replay line " + l)
		}
	}
}

// deliverReplay is deliver without the trailing M (the replay file has its own M lines).
func (w *jsWorld) deliverReplay(wire []*change.Change) {
	c := w.c
	w.cpA += int64(len(wire))
	err := w.a.ApplyChangePack(change.NewPack(w.a.Key(), change.NewCheckpoint(w.cpA, w.pushedA), wire, nil, nil))
	if err != nil {
		c.Oracle("ApplyChangePack failed on A: %v", err)
	}
	for _, cn := range wire {
		c.Cmd("RC lam=%d actor=%s", cn.ID().Lamport(), ActorNat(cn.ID().ActorID()))
		c.Obs("ok")
		for _, op := range cn.Operations() {
			c.Cmd("OP %s", encOp(op))
			if err == nil {
				c.Obs("ok")
			} else {
				c.Obs("err")
			}
		}
	}
	c.Cmd("SYNCED")
	c.Obs("lamport=%d", w.a.InternalDocument().Lamport())
}

// ---------------------------------------------------------------- exhaustive small scope

// jsAlphabet lists the calls of the exhaustive scope on an array with n visible elements
// (withBefore: also MoveBefore(Get(i), Get(j)), i != j).
func jsAlphabet(id string, n int, val *int, withBefore bool) []string {
	v := func() string { *val++; return fmt.Sprintf("prim:%d", *val) }
	out := []string{fmt.Sprintf("CALL %s arr.add v=%s", id, v())}
	for i := 0; i < n; i++ {
		out = append(out, fmt.Sprintf("CALL %s arr.insertAfter i=%d v=%s", id, i, v()))
	}
	for i := 0; i < n; i++ {
		out = append(out, fmt.Sprintf("CALL %s arr.delete i=%d", id, i))
	}
	for i := 0; i < n; i++ {
		for j := 0; j < n; j++ {
			if i != j {
				out = append(out, fmt.Sprintf("CALL %s arr.moveAfter i=%d j=%d", id, i, j))
			}
		}
	}
	for i := 0; i < n; i++ {
		out = append(out, fmt.Sprintf("CALL %s arr.moveFront i=%d", id, i))
	}
	for i := 0; i < n; i++ {
		out = append(out, fmt.Sprintf("CALL %s arr.moveLast i=%d", id, i))
	}
	for i := 0; i < n; i++ {
		out = append(out, fmt.Sprintf("CALL %s arr.set i=%d v=%s", id, i, v()))
	}
	if withBefore {
		for i := 0; i < n; i++ {
			for j := 0; j < n; j++ {
				if i != j {
					out = append(out, fmt.Sprintf("CALL %s arr.moveBefore i=%d j=%d", id, i, j))
				}
			}
		}
	}
	return out
}

func jsDelta(call string) int {
	switch strings.Fields(call)[2] {
	case "arr.add", "arr.insertAfter":
		return 1
	case "arr.delete":
		return -1
	}
	return 0
}

type jsBase struct {
	name  string
	setup []string // call kinds with indices, on the array (ticket filled in)
	live  int
}

var jsBases = []jsBase{
	{"n0", nil, 0},
	{"n1", []string{"arr.add v=prim:101"}, 1},
	{"n2", []string{"arr.add v=prim:101", "arr.add v=prim:102"}, 2},
	{"n3", []string{"arr.add v=prim:101", "arr.add v=prim:102", "arr.add v=prim:103"}, 3},
	// tombstone between two live elements
	{"tomb", []string{"arr.add v=prim:101", "arr.add v=prim:102", "arr.add v=prim:103", "arr.delete i=1"}, 2},
	// dead slot (moved element's old position) in front, moved element last
	{"dead", []string{"arr.add v=prim:101", "arr.add v=prim:102", "arr.moveLast i=0"}, 2},
	// dead slot + tombstone: nodes [dead(101) tomb(102) 103 101'], and the LAST node a tombstone
	{"dead+tomb", []string{"arr.add v=prim:101", "arr.add v=prim:102", "arr.add v=prim:103", "arr.delete i=1", "arr.moveLast i=0",
		"arr.add v=prim:104", "arr.delete i=2"}, 2},
}

// exhaustive enumerates family A (withBefore=false: the seven call kinds, `depth` calls) or family B
// (withBefore=true: the same plus moveBefore, only the programs that contain a moveBefore).
func (w *jsWorld) exhaustive(worker, depth int, withBefore bool) {
	c := w.c
	actor := time.ActorID{}
	actor[11] = 7
	arrID := "1:1:7" // ticket of the array created by the first call of the first update
	count := 0
	for _, base := range jsBases {
		depth := depth
		if depth > 4 && base.live >= 3 { // 25^5 programs from a 3-element array: depth 4 there
			depth = 4
		}
		var rec func(prefix []string, n int, val int)
		rec = func(prefix []string, n int, val int) {
			if len(prefix) == depth {
				if withBefore {
					has := false
					for _, l := range prefix {
						has = has || strings.Contains(l, " arr.moveBefore ")
					}
					if !has {
						return
					}
				}
				if count%8 == worker {
					fam := "exh"
					if withBefore {
						fam = "exhB"
					}
					c.Trace(fmt.Sprintf("json-%s-%s-%d", fam, base.name, count))
					*w = jsWorld{c: c}
					w.guarded(func() {
						w.init(actor)
						setup := []string{"CALL 0:0:0 obj.set k=a v=arr"}
						for _, s := range base.setup {
							setup = append(setup, "CALL "+arrID+" "+s)
						}
						run := func(lines []string) {
							i := 0
							w.update(func(root *json.Object) (string, bool) {
								if i >= len(lines) {
									return "", false
								}
								i++
								return lines[i-1], true
							})
						}
						run(setup)
						tail := []string{"LEN " + arrID, fmt.Sprintf("GET %s %d", arrID, count%4)}
						if count/8%2 == 0 { // the whole program in one update (one change, growing delimiter)
							run(append(append([]string{}, prefix...), tail...))
						} else { // one update per call
							for k, l := range prefix {
								if k == len(prefix)-1 {
									run(append([]string{l}, tail...))
								} else {
									run([]string{l})
								}
							}
						}
						w.observe()
					})
					if w.sawDebris {
						c.Nontrivial()
					}
					c.Count("exhaustive-traces")
				}
				count++
				return
			}
			v := val
			for _, call := range jsAlphabet(arrID, n, &v, withBefore) {
				rec(append(append([]string{}, prefix...), call), n+jsDelta(call), v)
			}
		}
		rec(nil, base.live, 200)
	}
}

// guarded runs one trace body; a panic of the implementation outside a call (peer edit, remote pack,
// reading the document) is an oracle failure and ends the trace, it must not kill the harness.
func (w *jsWorld) guarded(body func()) {
	c := w.c
	if rec := safely(body); rec != nil {
		if strings.HasPrefix(fmt.Sprint(rec), "harness:") {
			panic(rec)
		}
		c.Count("implementation-panic-outside-call")
		c.Oracle("the implementation panicked outside an API call of the editor: %v", rec)
	}
}

// ---------------------------------------------------------------- entry point

func runJSON(c *Ctx) error {
	c.stats.Rule = "integrated single-author stream: editing replica A receives only API calls (the Lean model issues tickets and " +
		"builds the operations itself), a peer B injects remote changes op-fed; compared per call: clone Marshal(); per update: " +
		"canonical encoding of every operation of the produced change, root and clone Marshal(); Len()/Get(i); lamport after " +
		"every remote pack. Oracle: plain Go slice/map/two's-complement reference applied call by call. non-trivial = some call " +
		"addressed an array that contained a tombstone or a dead slot; distinct by trace hash"
	w := &jsWorld{c: c}
	if c.Replay != nil {
		// one guarded run per trace of the file
		var cur []string
		flush := func() {
			if len(cur) > 0 {
				lines := cur
				w.guarded(func() { w.replay(lines) })
			}
			cur = nil
		}
		for _, l := range c.Replay {
			if strings.HasPrefix(l, "T ") {
				flush()
			}
			cur = append(cur, l)
		}
		flush()
		return nil
	}
	worker := int(c.Seed % 1000)
	if worker < 8 {
		depth := 4
		if c.Tier == "thorough" {
			depth = 5
		}
		if d, err := strconv.Atoi(strings.TrimSpace(os.Getenv("JSON_EXH_DEPTH"))); err == nil {
			depth = d
		}
		depthB := depth - 1
		if d, err := strconv.Atoi(strings.TrimSpace(os.Getenv("JSON_EXHB_DEPTH"))); err == nil {
			depthB = d
		}
		c.stats.Exhaustive = true
		d3 := depth
		if d3 > 4 {
			d3 = 4
		}
		c.stats.ExhaustiveScope = fmt.Sprintf("json: all programs of exactly %d calls (%d from the 3-element base; hence, through their prefixes, of every length <= %d) "+
			"over {add, insertAfter i, delete i, moveAfter i j (i != j), moveFront i, moveLast i, setInteger i} with every in-range index, "+
			"started from %d base arrays: 0,1,2,3 elements; 2 live + tombstone; 2 live + dead slot; 2 live + dead slot + tombstones "+
			"(last node a tombstone); family B: all programs of exactly %d calls over the same alphabet plus moveBefore i j (i != j) that "+
			"contain at least one moveBefore, from the same bases; clone Marshal compared with model and plain reference after every call, "+
			"operations per update; share %d/8 of the programs", depth, d3, depth, len(jsBases), depthB, worker)
		w.exhaustive(worker, depth, false)
		w.exhaustive(worker, depthB, true)
	}
	r := c.Rng
	for i := 0; i < c.N; i++ {
		c.Trace(fmt.Sprintf("json-%d-%d", c.Seed, i))
		*w = jsWorld{c: c}
		w.guarded(func() {
			w.init(mkActor(r, 0))
			w.actorB = mkActor(r, 1)
			w.b = jsNewDoc(w.actorB)
			steps := 10 + r.Intn(30)
			for s := 0; s < steps; s++ {
				switch x := r.Intn(100); {
				case x < 50:
					k := 1
					if r.Intn(4) == 0 {
						k = 2 + r.Intn(3)
					}
					malformedAt := -1
					if r.Intn(25) == 0 {
						malformedAt = r.Intn(k)
					}
					i := 0
					probes := 0
					w.update(func(root *json.Object) (string, bool) {
						if i >= k {
							// after the calls: probe Len/Get of one array
							if probes < 2 {
								probes++
								var arrs []jsonContainer
								for _, x := range containers(root) {
									if x.kind == "arr" {
										arrs = append(arrs, x)
									}
								}
								if len(arrs) == 0 {
									return "", false
								}
								t := arrs[r.Intn(len(arrs))]
								id := jsEncTicket(t.arr.CreatedAt())
								if probes == 1 {
									return "LEN " + id, true
								}
								return fmt.Sprintf("GET %s %d", id, r.Intn(t.arr.Len()+2)), true
							}
							return "", false
						}
						i++
						return jsGenCall(r, root, i-1 == malformedAt), true
					})
					w.observe()
				case x < 72:
					w.peerEdit()
				case x < 86:
					w.syncA()
				default:
					w.syncB()
				}
			}
			w.syncA()
			w.syncB()
			w.syncA()
		})
		if w.sawDebris {
			c.Nontrivial()
		}
	}
	return nil
}
