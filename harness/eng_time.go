package main

// engine `time`: unit-level correspondence of pkg/document/time and
// pkg/document/change with Model/Time.lean (C06, and the VV part of C09).

import (
	"fmt"
	"strconv"
	"strings"

	"github.com/yorkie-team/yorkie/pkg/document/change"
	"github.com/yorkie-team/yorkie/pkg/document/time"
)

func init() { register("time", runTime) }

type timeSt struct {
	ids map[string]change.ID
	vvs map[string]time.VersionVector
}

func showID(id change.ID) string {
	return fmt.Sprintf("cs=%d ss=%d lam=%d actor=%s vv=%s", id.ClientSeq(), id.ServerSeq(), id.Lamport(),
		ActorNat(id.ActorID()), ShowVV(id.VersionVector()))
}

func parseVVLit(s string) time.VersionVector {
	v := time.NewVersionVector()
	body := strings.TrimSuffix(strings.TrimPrefix(s, "{"), "}")
	if body == "" {
		return v
	}
	for _, kv := range strings.Split(body, ",") {
		p := strings.Split(kv, ":")
		x, _ := strconv.ParseInt(p[1], 10, 64)
		v[NatActor(p[0])] = x
	}
	return v
}

func parseTicketLit(s string) *time.Ticket {
	p := strings.Split(s, ":")
	l, _ := strconv.ParseInt(p[0], 10, 64)
	d, _ := strconv.ParseUint(p[1], 10, 32)
	return time.NewTicket(l, uint32(d), NatActor(p[2]))
}

func (s *timeSt) exec(c *Ctx, line string) {
	t := strings.Fields(line)
	id := func(r string) change.ID { return s.ids[r].DeepCopy() }
	vv := func(r string) time.VersionVector {
		if v, ok := s.vvs[r]; ok {
			return v.DeepCopy()
		}
		return time.NewVersionVector()
	}
	b := func(x bool) string { return strconv.FormatBool(x) }
	switch t[0] {
	case "ID.init":
		x := change.InitialID().SetActor(NatActor(t[2]))
		s.ids[t[1]] = x
		c.Obs("%s", showID(x))
	case "ID.next":
		x := id(t[2]).Next()
		s.ids[t[1]] = x
		c.Obs("%s", showID(x))
	case "ID.nextp":
		x := id(t[2]).Next(true)
		s.ids[t[1]] = x
		c.Obs("%s", showID(x))
	case "ID.sync":
		x := id(t[2]).SyncClocks(id(t[3]))
		s.ids[t[1]] = x
		c.Obs("%s", showID(x))
	case "ID.synclam":
		x := id(t[2]).SyncLamport(id(t[3]))
		s.ids[t[1]] = x
		c.Obs("%s", showID(x))
	case "ID.setclocks":
		l, _ := strconv.ParseInt(t[3], 10, 64)
		x := id(t[2]).SetClocks(l, vv(t[4]))
		s.ids[t[1]] = x
		c.Obs("%s", showID(x))
	case "ID.setactor":
		x := id(t[2]).SetActor(NatActor(t[3]))
		s.ids[t[1]] = x
		c.Obs("%s", showID(x))
	case "ID.hasclocks":
		c.Obs("%s", b(id(t[1]).HasClocks()))
	case "ID.vv":
		v := id(t[2]).VersionVector()
		s.vvs[t[1]] = v
		c.Obs("%s", ShowVV(v))
	case "VV.new":
		v := parseVVLit(t[2])
		s.vvs[t[1]] = v
		c.Obs("%s", ShowVV(v))
	case "VV.set":
		v := vv(t[1])
		x, _ := strconv.ParseInt(t[3], 10, 64)
		v.Set(NatActor(t[2]), x)
		s.vvs[t[1]] = v
		c.Obs("%s", ShowVV(v))
	case "VV.unset":
		v := vv(t[1])
		v.Unset(NatActor(t[2]))
		s.vvs[t[1]] = v
		c.Obs("%s", ShowVV(v))
	case "VV.max":
		v, w := vv(t[1]), vv(t[2])
		v.Max(&w)
		s.vvs[t[1]] = v
		c.Obs("%s", ShowVV(v))
	case "VV.min":
		v, w := vv(t[1]), vv(t[2])
		v.Min(&w)
		s.vvs[t[1]] = v
		c.Obs("%s", ShowVV(v))
	case "MINVV":
		var vs []time.VersionVector
		for _, r := range t[2:] {
			vs = append(vs, vv(r))
		}
		m := time.MinVersionVector(vs...)
		// oracle (C06 clause 4): min never overstates any input
		for _, v := range vs {
			for a, x := range m {
				if x > v[a] {
					c.Oracle("minVV[%s]=%d > input %d", ActorNat(a), x, v[a])
				}
			}
		}
		s.vvs[t[1]] = m.DeepCopy()
		c.Obs("%s", ShowVV(m))
	case "VV.aoe":
		c.Obs("%s", b(vv(t[1]).AfterOrEqual(vv(t[2]))))
	case "VV.equal":
		c.Obs("%s", b(vv(t[1]).Equal(vv(t[2]))))
	case "VV.eta":
		c.Obs("%s", b(vv(t[1]).EqualToOrAfter(parseTicketLit(t[2]))))
	case "VV.maxlam":
		c.Obs("%d", vv(t[1]).MaxLamport())
	case "VV.get":
		x, ok := vv(t[1]).Get(NatActor(t[2]))
		c.Obs("%d %s", x, b(ok))
	case "TK.cmp":
		c.Obs("%d", parseTicketLit(t[1]).Compare(parseTicketLit(t[2])))
	case "TK.after":
		c.Obs("%s", b(parseTicketLit(t[1]).After(parseTicketLit(t[2]))))
	case "CP.fwd":
		a1, _ := strconv.ParseInt(t[1], 10, 64)
		a2, _ := strconv.ParseUint(t[2], 10, 32)
		b1, _ := strconv.ParseInt(t[3], 10, 64)
		b2, _ := strconv.ParseUint(t[4], 10, 32)
		r := change.NewCheckpoint(a1, uint32(a2)).Forward(change.NewCheckpoint(b1, uint32(b2)))
		c.Obs("%d,%d", r.ServerSeq, r.ClientSeq)
	case "CP.nss":
		a1, _ := strconv.ParseInt(t[1], 10, 64)
		a2, _ := strconv.ParseUint(t[2], 10, 32)
		b1, _ := strconv.ParseInt(t[3], 10, 64)
		r := change.NewCheckpoint(a1, uint32(a2)).NextServerSeq(b1)
		c.Obs("%d,%d", r.ServerSeq, r.ClientSeq)
	case "CP.scs":
		a1, _ := strconv.ParseInt(t[1], 10, 64)
		a2, _ := strconv.ParseUint(t[2], 10, 32)
		b1, _ := strconv.ParseUint(t[3], 10, 32)
		r := change.NewCheckpoint(a1, uint32(a2)).SyncClientSeq(uint32(b1))
		c.Obs("%d,%d", r.ServerSeq, r.ClientSeq)
	default:
		c.Obs("bad-op")
	}
}

func runTime(c *Ctx) error {
	c.stats.Rule = "random programs over change.ID / VersionVector / Ticket / Checkpoint registers; " +
		"non-trivial = trace contains at least one SyncClocks/SetClocks between ids of different actors and one MINVV over >=2 vectors; distinct by trace hash"
	if c.Replay != nil {
		s := &timeSt{ids: map[string]change.ID{}, vvs: map[string]time.VersionVector{}}
		for _, l := range c.Replay {
			if strings.HasPrefix(l, "T ") {
				c.Trace(strings.TrimPrefix(l, "T "))
				s = &timeSt{ids: map[string]change.ID{}, vvs: map[string]time.VersionVector{}}
				continue
			}
			c.Cmd("%s", l)
			s.exec(c, l)
		}
		return nil
	}
	r := c.Rng
	// actor pool: small naturals, large naturals (top byte set), and near-equal ones
	actors := []string{"1", "2", "3", "255", "256", "65536", "79228162514264337593543950335", "39614081257132168796771975168", "4294967296"}
	for i := 0; i < c.N; i++ {
		c.Trace(fmt.Sprintf("time-%d-%d", c.Seed, i))
		s := &timeSt{ids: map[string]change.ID{}, vvs: map[string]time.VersionVector{}}
		nID := 2 + r.Intn(4)
		var idr, vvr []string
		for k := 0; k < nID; k++ {
			name := fmt.Sprintf("i%d", k)
			l := fmt.Sprintf("ID.init %s %s", name, actors[r.Intn(len(actors))])
			c.Cmd("%s", l)
			s.exec(c, l)
			idr = append(idr, name)
		}
		pickID := func() string { return idr[r.Intn(len(idr))] }
		pickVV := func() string {
			if len(vvr) == 0 || r.Intn(4) == 0 {
				name := fmt.Sprintf("v%d", len(vvr))
				var parts []string
				used := map[string]bool{}
				for k := r.Intn(4); k > 0; k-- {
					a := actors[r.Intn(len(actors))]
					if used[a] {
						continue
					}
					used[a] = true
					parts = append(parts, fmt.Sprintf("%s:%d", a, r.Intn(12)))
				}
				l := fmt.Sprintf("VV.new %s {%s}", name, strings.Join(parts, ","))
				c.Cmd("%s", l)
				s.exec(c, l)
				vvr = append(vvr, name)
				return name
			}
			return vvr[r.Intn(len(vvr))]
		}
		tk := func() string {
			return fmt.Sprintf("%d:%d:%s", r.Intn(6), r.Intn(3), actors[r.Intn(len(actors))])
		}
		sawSync, sawMin := false, false
		steps := 8 + r.Intn(40)
		for k := 0; k < steps; k++ {
			var l string
			switch x := r.Intn(100); {
			case x < 25:
				a := pickID()
				l = fmt.Sprintf("ID.next %s %s", a, a)
			case x < 28:
				a := pickID()
				l = fmt.Sprintf("ID.nextp p%d %s", k, a)
				idr = append(idr, fmt.Sprintf("p%d", k))
			case x < 48:
				a, b := pickID(), pickID()
				l = fmt.Sprintf("ID.sync %s %s %s", a, a, b)
				if s.ids[a].ActorID() != s.ids[b].ActorID() && s.ids[b].HasClocks() {
					sawSync = true
				}
			case x < 52:
				a, b := pickID(), pickID()
				l = fmt.Sprintf("ID.synclam %s %s %s", a, a, b)
			case x < 58:
				a, v := pickID(), pickVV()
				l = fmt.Sprintf("ID.setclocks %s %s %d %s", a, a, r.Intn(20), v)
				sawSync = true
			case x < 60:
				a := pickID()
				l = fmt.Sprintf("ID.setactor %s %s %s", a, a, actors[r.Intn(len(actors))])
			case x < 62:
				l = fmt.Sprintf("ID.hasclocks %s", pickID())
			case x < 70:
				name := fmt.Sprintf("v%d", len(vvr))
				vvr = append(vvr, name)
				l = fmt.Sprintf("ID.vv %s %s", name, pickID())
			case x < 74:
				l = fmt.Sprintf("VV.max %s %s", pickVV(), pickVV())
			case x < 77:
				l = fmt.Sprintf("VV.min %s %s", pickVV(), pickVV())
			case x < 85:
				nv := 1 + r.Intn(4)
				var ws []string
				for j := 0; j < nv; j++ {
					ws = append(ws, pickVV())
				}
				name := fmt.Sprintf("v%d", len(vvr))
				vvr = append(vvr, name)
				l = fmt.Sprintf("MINVV %s %s", name, strings.Join(ws, " "))
				if nv >= 2 {
					sawMin = true
				}
			case x < 88:
				l = fmt.Sprintf("VV.aoe %s %s", pickVV(), pickVV())
			case x < 90:
				l = fmt.Sprintf("VV.equal %s %s", pickVV(), pickVV())
			case x < 93:
				l = fmt.Sprintf("VV.eta %s %s", pickVV(), tk())
			case x < 94:
				l = fmt.Sprintf("VV.maxlam %s", pickVV())
			case x < 95:
				l = fmt.Sprintf("VV.unset %s %s", pickVV(), actors[r.Intn(len(actors))])
			case x < 97:
				l = fmt.Sprintf("TK.cmp %s %s", tk(), tk())
			case x < 98:
				l = fmt.Sprintf("CP.fwd %d %d %d %d", r.Intn(5), r.Intn(5), r.Intn(5), r.Intn(5))
			case x < 99:
				l = fmt.Sprintf("CP.nss %d %d %d", r.Intn(5), r.Intn(5), r.Intn(5))
			default:
				l = fmt.Sprintf("CP.scs %d %d %d", r.Intn(5), r.Intn(5), r.Intn(5))
			}
			c.Cmd("%s", l)
			s.exec(c, l)
		}
		if sawSync && sawMin {
			c.Nontrivial()
		}
	}
	return nil
}
