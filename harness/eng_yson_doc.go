package main

// document-building stream of engine `yson` (C18): replicas edit through the
// public json API, exchange changes through protobuf via a hub that applies them
// in arrival order (what the server's BuildInternalDocForServerSeq sees); exports
// are checked like literals, plus the steps of packs.Compact and revisions.Restore.
//
// D new <n>                                 hub + n clients
// D c<i> set <path> <key> <lit>             typed setter chosen by the literal
// D c<i> del <path> <key>
// D c<i> add <path> <lit> | insafter <path> <idx> <lit> | aset <path> <idx> <lit> | adel <path> <idx> | mov <path> <prev> <target>
// D c<i> edit <path> <from> <to> <str|_> <attrs> | style <path> <from> <to> <attrs>
// D c<i> inc <path> <n> | dadd <path> <str>
// D c<i> tedit <path> <from> <to> <tnode|-> <splitLevel> | tstyle <path> <from> <to> <attrs> | trmstyle <path> <from> <to> <str,str…>
// D c<i> undo | redo | sync
// path: components joined by '/', k<str> or i<index>; "/" is the root.

import (
	"fmt"
	"strconv"
	"strings"
	gotime "time"

	"github.com/yorkie-team/yorkie/api/converter"
	api "github.com/yorkie-team/yorkie/api/yorkie/v1"
	"github.com/yorkie-team/yorkie/pkg/document"
	"github.com/yorkie-team/yorkie/pkg/document/change"
	"github.com/yorkie-team/yorkie/pkg/document/crdt"
	"github.com/yorkie-team/yorkie/pkg/document/json"
	"github.com/yorkie-team/yorkie/pkg/document/presence"
	"github.com/yorkie-team/yorkie/pkg/document/time"
	"github.com/yorkie-team/yorkie/pkg/document/yson"
)

const docKey = "c18-doc-key"

type docWorld struct {
	hub      *document.InternalDocument
	clients  []*document.Document
	log      []*api.Change // every change the hub accepted, in arrival order, as protobuf
	origin   []int         // client index of each log entry
	pulled   []int         // per client: prefix of log already seen
	accepted int
	rejected int
	broken   bool // replication itself failed (C01/C14/C15 territory): the history is abandoned
}

func newDocWorld() *docWorld { return &docWorld{} }

func (w *docWorld) reset(n int) {
	w.hub = document.NewInternalDocument(docKey)
	w.clients = nil
	w.log, w.origin, w.pulled = nil, nil, nil
	for i := 0; i < n; i++ {
		d := document.New(docKey, document.WithDisableGC())
		var a time.ActorID
		a[11] = byte(i + 1)
		d.SetActor(a)
		w.clients = append(w.clients, d)
		w.pulled = append(w.pulled, 0)
	}
}

func parsePath(p string) []string {
	if p == "/" || p == "" {
		return nil
	}
	return strings.Split(strings.TrimPrefix(p, "/"), "/")
}

// walk returns the json proxy (Object or Array) that contains the last component, and that component.
func walkTo(root *json.Object, comps []string) (interface{}, string) {
	var cur interface{} = root
	for i, comp := range comps {
		if i == len(comps)-1 {
			return cur, comp
		}
		cur = child(cur, comp, "container")
		if cur == nil {
			panic("path not found")
		}
	}
	return cur, ""
}

func child(cur interface{}, comp string, want string) interface{} {
	switch p := cur.(type) {
	case *json.Object:
		k := strDec(comp[1:])
		if comp[0] != 'k' {
			panic("index into object")
		}
		switch want {
		case "object":
			return nilIf(p.GetObject(k))
		case "array":
			return nilIf(p.GetArray(k))
		case "text":
			return nilIf(p.GetText(k))
		case "counter":
			return nilIf(p.GetCounter(k))
		case "tree":
			return nilIf(p.GetTree(k))
		}
		switch p.Object.Get(k).(type) {
		case *crdt.Object:
			return p.GetObject(k)
		case *crdt.Array:
			return p.GetArray(k)
		}
		return nil
	case *json.Array:
		if comp[0] != 'i' {
			panic("key into array")
		}
		i, _ := strconv.Atoi(comp[1:])
		switch want {
		case "object":
			return nilIf(p.GetObject(i))
		case "array":
			return nilIf(p.GetArray(i))
		case "text":
			return nilIf(p.GetText(i))
		case "counter":
			return nilIf(p.GetCounter(i))
		case "tree":
			return nilIf(p.GetTree(i))
		}
		switch p.Get(i).(type) {
		case *crdt.Object:
			return p.GetObject(i)
		case *crdt.Array:
			return p.GetArray(i)
		}
		return nil
	}
	return nil
}

func nilIf[T any](p *T) interface{} {
	if p == nil {
		return nil
	}
	return p
}

// at resolves a full path to a proxy of the wanted kind.
func at(root *json.Object, path string, want string) interface{} {
	comps := parsePath(path)
	if len(comps) == 0 {
		if want == "object" {
			return root
		}
		panic("root is an object")
	}
	parent, last := walkTo(root, comps)
	r := child(parent, last, want)
	if r == nil {
		panic("no " + want + " at " + path)
	}
	return r
}

func parseAttrsLit(s string) map[string]string { return (&litParser{s: s}).attrs() }

func setLit(o *json.Object, k string, v interface{}) {
	switch y := v.(type) {
	case nil:
		o.SetNull(k)
	case bool:
		o.SetBool(k, y)
	case int32:
		o.SetInteger(k, int(y))
	case int64:
		o.SetLong(k, y)
	case float64:
		o.SetDouble(k, y)
	case string:
		o.SetString(k, y)
	case []byte:
		o.SetBytes(k, y)
	case gotime.Time:
		o.SetDate(k, y)
	case yson.Object:
		o.SetNewObject(k, y)
	case yson.Array:
		o.SetNewArray(k, y)
	case yson.Text:
		o.SetNewText(k)
	case yson.Tree:
		o.SetNewTree(k, y.Root)
	case yson.Counter:
		if y.Type == crdt.IntegerDedupCnt {
			o.SetNewDedupCounter(k)
		} else {
			o.SetNewCounter(k, y.Value)
		}
	default:
		panic("setLit")
	}
}

func addLit(a *json.Array, v interface{}) {
	switch y := v.(type) {
	case nil:
		a.AddNull()
	case bool:
		a.AddBool(y)
	case int32:
		a.AddInteger(int(y))
	case int64:
		a.AddLong(y)
	case float64:
		a.AddDouble(y)
	case string:
		a.AddString(y)
	case []byte:
		a.AddBytes(y)
	case gotime.Time:
		a.AddDate(y)
	case yson.Object:
		a.AddNewObject()
	case yson.Array:
		a.AddNewArray()
	case yson.Text:
		a.AddNewText()
	case yson.Tree:
		a.AddNewTree(y.Root)
	case yson.Counter:
		a.AddNewCounter(y.Type, y.Value)
	default:
		panic("addLit")
	}
}

// apply runs one edit inside Update; a panic inside the json API is turned into an
// updater error, which makes Update drop the dirty clone.
func (w *docWorld) apply(ci int, f func(root *json.Object)) bool {
	d := w.clients[ci]
	err := d.Update(func(r *json.Object, p *presence.Presence) (err error) {
		defer func() {
			if x := recover(); x != nil {
				err = fmt.Errorf("rejected: %v", x)
			}
		}()
		f(r)
		return nil
	})
	return err == nil
}

func (w *docWorld) sync(c *Ctx, ci int) {
	d := w.clients[ci]
	pack := d.CreateChangePack()
	// push through protobuf
	var lastSeq uint32 = d.Checkpoint().ClientSeq
	if len(pack.Changes) > 0 {
		pbs, err := converter.ToChanges(pack.Changes)
		if err != nil {
			c.Oracle("ToChanges: %v", err)
			return
		}
		chs, err := converter.FromChanges(pbs)
		if err != nil {
			c.Oracle("FromChanges: %v", err)
			return
		}
		if _, _, err := w.hub.ApplyChanges(chs...); err != nil {
			c.Count("doc:abandoned:hub-apply-error")
			w.broken = true
			return
		}
		for _, pb := range pbs {
			w.log = append(w.log, pb)
			w.origin = append(w.origin, ci)
		}
		lastSeq = pack.Changes[len(pack.Changes)-1].ClientSeq()
	}
	// pull what others wrote
	var pbs []*api.Change
	for i := w.pulled[ci]; i < len(w.log); i++ {
		if w.origin[i] != ci {
			pbs = append(pbs, w.log[i])
		}
	}
	w.pulled[ci] = len(w.log)
	chs, err := converter.FromChanges(pbs)
	if err != nil {
		c.Oracle("FromChanges: %v", err)
		return
	}
	resp := change.NewPack(docKey, change.NewCheckpoint(int64(len(w.log)), lastSeq), chs, nil, nil)
	if err := d.ApplyChangePack(resp); err != nil {
		c.Count("doc:abandoned:client-apply-error")
		w.broken = true
	}
}

func (w *docWorld) exec(c *Ctx, t []string) {
	if len(t) == 0 {
		return
	}
	if t[0] == "new" {
		n, _ := strconv.Atoi(t[1])
		w.reset(n)
		return
	}
	if w.hub == nil || w.broken || len(t) < 2 || t[0][0] != 'c' {
		return
	}
	ci, _ := strconv.Atoi(t[0][1:])
	if ci >= len(w.clients) {
		return
	}
	atoi := func(s string) int { n, _ := strconv.Atoi(s); return n }
	ok := true
	switch t[1] {
	case "sync":
		w.sync(c, ci)
		return
	case "undo":
		if w.clients[ci].CanUndo() {
			ok = w.clients[ci].Undo() == nil
		}
	case "redo":
		if w.clients[ci].CanRedo() {
			ok = w.clients[ci].Redo() == nil
		}
	case "set":
		ok = w.apply(ci, func(r *json.Object) { setLit(at(r, t[2], "object").(*json.Object), strDec(t[3]), parseLit(t[4])) })
	case "del":
		ok = w.apply(ci, func(r *json.Object) { at(r, t[2], "object").(*json.Object).Delete(strDec(t[3])) })
	case "add":
		ok = w.apply(ci, func(r *json.Object) { addLit(at(r, t[2], "array").(*json.Array), parseLit(t[3])) })
	case "insafter":
		ok = w.apply(ci, func(r *json.Object) {
			a := at(r, t[2], "array").(*json.Array)
			switch y := parseLit(t[4]).(type) {
			case int32:
				a.InsertIntegerAfter(atoi(t[3]), int(y))
			case string:
				a.InsertStringAfter(atoi(t[3]), y)
			}
		})
	case "aset":
		ok = w.apply(ci, func(r *json.Object) {
			a := at(r, t[2], "array").(*json.Array)
			switch y := parseLit(t[4]).(type) {
			case int32:
				a.SetInteger(atoi(t[3]), int(y))
			case string:
				a.SetString(atoi(t[3]), y)
			}
		})
	case "adel":
		ok = w.apply(ci, func(r *json.Object) { at(r, t[2], "array").(*json.Array).Delete(atoi(t[3])) })
	case "mov":
		ok = w.apply(ci, func(r *json.Object) { at(r, t[2], "array").(*json.Array).MoveAfterByIndex(atoi(t[3]), atoi(t[4])) })
	case "edit":
		ok = w.apply(ci, func(r *json.Object) {
			tx := at(r, t[2], "text").(*json.Text)
			s := ""
			if t[5] != "_" {
				s = strDec(t[5])
			}
			if a := parseAttrsLit(t[6]); a != nil {
				tx.Edit(atoi(t[3]), atoi(t[4]), s, a)
			} else {
				tx.Edit(atoi(t[3]), atoi(t[4]), s)
			}
		})
	case "style":
		ok = w.apply(ci, func(r *json.Object) {
			at(r, t[2], "text").(*json.Text).Style(atoi(t[3]), atoi(t[4]), parseAttrsLit(t[5]))
		})
	case "inc":
		ok = w.apply(ci, func(r *json.Object) {
			cn := at(r, t[2], "counter").(*json.Counter)
			n, _ := strconv.ParseInt(t[3], 10, 64)
			if cn.ValueType() == crdt.LongCnt {
				cn.Increase(n)
			} else {
				cn.Increase(int(n))
			}
		})
	case "dadd":
		ok = w.apply(ci, func(r *json.Object) { at(r, t[2], "counter").(*json.Counter).Add(strDec(t[3])) })
	case "tedit":
		ok = w.apply(ci, func(r *json.Object) {
			tr := at(r, t[2], "tree").(*json.Tree)
			var content *json.TreeNode
			if t[5] != "-" {
				n := (&litParser{s: t[5]}).tree()
				content = &n
			}
			tr.Edit(atoi(t[3]), atoi(t[4]), content, atoi(t[6]))
		})
	case "tstyle":
		ok = w.apply(ci, func(r *json.Object) {
			at(r, t[2], "tree").(*json.Tree).Style(atoi(t[3]), atoi(t[4]), parseAttrsLit(t[5]))
		})
	case "trmstyle":
		ok = w.apply(ci, func(r *json.Object) {
			var ks []string
			for _, k := range strings.Split(t[5], ",") {
				ks = append(ks, strDec(k))
			}
			at(r, t[2], "tree").(*json.Tree).RemoveStyle(atoi(t[3]), atoi(t[4]), ks)
		})
	default:
		return
	}
	if ok {
		w.accepted++
		c.Count("doc:op-ok:" + t[1])
	} else {
		w.rejected++
		c.Count("doc:op-rejected:" + t[1])
	}
}

func (w *docWorld) rootOf(name string) (*crdt.Object, bool) {
	if w.hub == nil {
		return nil, false
	}
	if name == "h" {
		return w.hub.RootObject(), true
	}
	ci, err := strconv.Atoi(strings.TrimPrefix(name, "c"))
	if err != nil || ci >= len(w.clients) {
		return nil, false
	}
	return w.clients[ci].RootObject(), true
}

// export checks the YSON export of a replica; lit is the literal recorded in the trace.
func (w *docWorld) export(c *Ctx, name, lit string) {
	root, ok := w.rootOf(name)
	if !ok || w.broken {
		c.Obs("bad-op")
		return
	}
	v, err := yson.FromCRDT(root)
	if err != nil {
		c.Obs("EXPORT err")
		c.Oracle("FromCRDT failed: %v", err)
		return
	}
	if got := litOf(v); got != lit {
		c.Obs("EXPORT-DIVERGED") // a replayed trace no longer builds the recorded document
		c.Oracle("replayed document differs from the recorded export: %s vs %s", clip(got, 200), clip(lit, 200))
		return
	}
	res := checkValue(c, v, true)
	if name == "h" {
		w.restoreCheck(c, v.(yson.Object), res)
	}
}

// restoreCheck replays the steps of revisions.Create + revisions.Restore on the hub's content:
// snapshot = Marshal(FromCRDT(root)); Unmarshal; a document at the hub's state deletes
// every key and SetYSONs the parsed snapshot; its content must be the snapshot's.
func (w *docWorld) restoreCheck(c *Ctx, orig yson.Object, res ysonResult) {
	if !res.r1ok {
		return // Unmarshal failed or changed the value: already reported (known shapes) by checkValue
	}
	obj := res.parsed.(yson.Object)
	outcome := func() (out string) {
		defer func() {
			if r := recover(); r != nil {
				out = panicKind(r)
			}
		}()
		d := document.New(docKey, document.WithDisableGC())
		chs, err := converter.FromChanges(w.log)
		if err != nil {
			return "err:" + err.Error()
		}
		if err := d.ApplyChangePack(change.NewPack(docKey, change.NewCheckpoint(int64(len(w.log)), 0), chs, nil, nil)); err != nil {
			return "err:" + err.Error()
		}
		if err := d.Update(func(r *json.Object, p *presence.Presence) error {
			var keys []string
			for k := range r.Object.Members() {
				keys = append(keys, k)
			}
			for _, k := range keys {
				r.Delete(k)
			}
			r.SetYSON(obj)
			return nil
		}); err != nil {
			return "err:" + err.Error()
		}
		n, err := yson.FromCRDT(d.RootObject())
		if err != nil {
			return "err:" + err.Error()
		}
		if litOf(n) != litOf(orig) {
			t, _ := n.(yson.Object).Marshal()
			return "differs:" + clip(escText(t), 300)
		}
		return "ok"
	}()
	if outcome == "ok" {
		c.Count("restore:ok")
		return
	}
	if len(res.rtags) > 0 {
		c.Count("restore:known:" + res.rtags[0])
		c.Known(res.rtags[0], "revision restore does not reproduce the snapshot: %s", outcome)
		return
	}
	c.Oracle("revision restore does not reproduce the content at revision creation: %s -> %s", clip(escText(res.text), 300), outcome)
}

// ---------------------------------------------------------------- generation

type cont struct {
	path string
	kind string // object array text tree counter
	v    interface{}
}

func collectConts(v interface{}, path string, out *[]cont) {
	switch y := v.(type) {
	case yson.Object:
		*out = append(*out, cont{path, "object", y})
		for k, e := range y {
			collectConts(e, strings.TrimSuffix(path, "/")+"/k"+strEnc(k), out)
		}
	case yson.Array:
		*out = append(*out, cont{path, "array", y})
		for i, e := range y {
			collectConts(e, strings.TrimSuffix(path, "/")+"/i"+strconv.Itoa(i), out)
		}
	case yson.Text:
		*out = append(*out, cont{path, "text", y})
	case yson.Tree:
		*out = append(*out, cont{path, "tree", y})
	case yson.Counter:
		*out = append(*out, cont{path, "counter", y})
	}
}

// treeLayout lists, for the exported tree, index positions usable by edits.
type treeLayout struct {
	size      int
	textSpots [][2]int // [from,to] index range inside one text run
	elemSpans [][2]int // [open index, index after close] of element nodes below the root
	gaps      []int    // indexes directly inside the root (between its children)
}

func layoutOf(root yson.TreeNode) treeLayout {
	var l treeLayout
	var walk func(n yson.TreeNode, pos int, depth int) int
	walk = func(n yson.TreeNode, pos int, depth int) int {
		if n.Type == "text" {
			ln := utf16Len(n.Value)
			l.textSpots = append(l.textSpots, [2]int{pos, pos + ln})
			return pos + ln
		}
		start := pos
		if depth > 0 {
			pos++ // open tag
		}
		for _, ch := range n.Children {
			if depth == 0 {
				l.gaps = append(l.gaps, pos)
			}
			pos = walk(ch, pos, depth+1)
		}
		if depth == 0 {
			l.gaps = append(l.gaps, pos)
		}
		if depth > 0 {
			pos++ // close tag
			l.elemSpans = append(l.elemSpans, [2]int{start, pos})
		}
		return pos
	}
	l.size = walk(root, 0, 0)
	return l
}

func (w *docWorld) generate(c *Ctx, g *ysonGen, s *ysonSt) {
	r := g.r
	do := func(format string, a ...any) {
		l := fmt.Sprintf(format, a...)
		c.Cmd("%s", l)
		s.exec(c, l)
	}
	n := 1 + r.Intn(3)
	do("D new %d", n)
	steps := 8 + r.Intn(40)
	if c.Tier == "thorough" {
		steps += r.Intn(60)
	}
	docStr := func() string {
		if r.Intn(25) == 0 {
			return pick(r, prepassStrings) // what real documents contain: parentheses
		}
		return g.safeStr()
	}
	docKeyName := func() string {
		if r.Intn(40) == 0 {
			return "type"
		}
		return pick(r, []string{"a", "b", "c", "t", "tr", "arr", "o", "cnt", "k1", "title", "items", "é", "a b", "value", "attrs"})
	}
	primLit := func() string {
		switch r.Intn(9) {
		case 0:
			return "n"
		case 1:
			return litOf(r.Intn(2) == 0)
		case 2:
			return litOf(int32(r.Intn(200) - 100))
		case 3:
			if r.Intn(12) == 0 {
				return litOf(pick(r, unsafeLongs))
			}
			return litOf(pick(r, safeLongs))
		case 4:
			return litOf(pick(r, safeDoubles))
		case 5, 6:
			return litOf(docStr())
		case 7:
			b := make([]byte, r.Intn(5))
			r.Read(b)
			return litOf(b)
		}
		return litOf(gotime.UnixMilli(r.Int63n(4e12)).UTC())
	}
	treeContent := func() string {
		// a paragraph with text, sometimes attributes and an inline element
		p := yson.TreeNode{Type: pick(r, []string{"p", "h1", "li"}), Attributes: g.attrs(2)}
		k := 1 + r.Intn(2)
		for i := 0; i < k; i++ {
			if r.Intn(4) == 0 {
				p.Children = append(p.Children, yson.TreeNode{Type: "b", Children: []yson.TreeNode{{Type: "text", Value: "in"}}})
			} else {
				v := docStr()
				if v == "" {
					v = "tx"
				}
				p.Children = append(p.Children, yson.TreeNode{Type: "text", Value: v})
			}
		}
		// adjacent text nodes are not allowed side by side with elements in one edit: keep homogeneous
		allText, allElem := true, true
		for _, ch := range p.Children {
			if ch.Type == "text" {
				allElem = false
			} else {
				allText = false
			}
		}
		if !allText && !allElem {
			p.Children = p.Children[:1]
		}
		return treeLit(p)
	}
	contLit := func() string {
		switch r.Intn(7) {
		case 0:
			return "{}"
		case 1:
			return "[]"
		case 2:
			return "T;"
		case 3:
			return "R" + treeLit(yson.TreeNode{Type: "doc", Children: []yson.TreeNode{{Type: "p", Children: []yson.TreeNode{{Type: "text", Value: "ab"}}}, {Type: "p", Children: []yson.TreeNode{{Type: "text", Value: "cd"}}}}})
		case 4:
			if r.Intn(2) == 0 {
				return litOf(yson.Counter{Type: crdt.LongCnt, Value: int64(r.Intn(100))})
			}
			return litOf(yson.Counter{Type: crdt.IntegerCnt, Value: int32(r.Intn(100))})
		case 5:
			if r.Intn(6) == 0 {
				return "cd0,;"
			}
			return "R<726f6f74;;{}>"
		}
		return litOf(g.object(3)) // nested initial content through SetNewObject(k, yson.Object)
	}
	for k := 0; k < steps && !w.broken; k++ {
		ci := r.Intn(n)
		who := fmt.Sprintf("c%d", ci)
		cur, _ := yson.FromCRDT(w.clients[ci].RootObject())
		var conts []cont
		collectConts(cur, "/", &conts)
		x := r.Intn(100)
		if x < 12 && n > 1 || x < 3 {
			do("D %s sync", who)
			continue
		}
		if x < 15 {
			do("D %s %s", who, pick(r, []string{"undo", "undo", "redo"}))
			continue
		}
		ct := conts[r.Intn(len(conts))]
		if r.Intn(3) == 0 { // bias towards the richer containers
			for _, cand := range conts {
				if (cand.kind == "text" || cand.kind == "tree" || cand.kind == "array") && r.Intn(2) == 0 {
					ct = cand
					break
				}
			}
		}
		switch ct.kind {
		case "object":
			o := ct.v.(yson.Object)
			switch y := r.Intn(10); {
			case y < 4:
				do("D %s set %s %s %s", who, ct.path, strEnc(docKeyName()), primLit())
			case y < 8:
				do("D %s set %s %s %s", who, ct.path, strEnc(docKeyName()), contLit())
			default:
				key := docKeyName()
				for kk := range o {
					key = kk
					break
				}
				do("D %s del %s %s", who, ct.path, strEnc(key))
			}
		case "array":
			a := ct.v.(yson.Array)
			switch y := r.Intn(12); {
			case y < 4 || len(a) == 0:
				if r.Intn(3) == 0 {
					do("D %s add %s %s", who, ct.path, contLit())
				} else {
					do("D %s add %s %s", who, ct.path, primLit())
				}
			case y < 6:
				do("D %s insafter %s %d %s", who, ct.path, r.Intn(len(a)), pick(r, []string{litOf(int32(r.Intn(100))), litOf(docStr())}))
			case y < 8:
				do("D %s adel %s %d", who, ct.path, r.Intn(len(a)))
			case y < 10:
				do("D %s mov %s %d %d", who, ct.path, r.Intn(len(a)), r.Intn(len(a)))
			default:
				do("D %s aset %s %d %s", who, ct.path, r.Intn(len(a)), pick(r, []string{litOf(int32(r.Intn(100))), litOf(docStr())}))
			}
		case "text":
			t := ct.v.(yson.Text)
			ln := 0
			for _, nd := range t.Nodes {
				ln += utf16Len(nd.Value)
			}
			from := r.Intn(ln + 1)
			to := from + r.Intn(ln-from+1)
			switch y := r.Intn(10); {
			case y < 5 || ln == 0:
				if r.Intn(3) != 0 {
					to = from
				}
				s := docStr()
				enc := strEnc(s)
				if s == "" {
					enc = "_"
				}
				do("D %s edit %s %d %d %s %s", who, ct.path, from, to, enc, attrsLit(g.attrs(2)))
			case y < 7:
				do("D %s edit %s %d %d _ {}", who, ct.path, from, to)
			default:
				a := g.attrs(2)
				if len(a) == 0 {
					a = map[string]string{"b": "1"}
				}
				do("D %s style %s %d %d %s", who, ct.path, from, to, attrsLit(a))
			}
		case "counter":
			cn := ct.v.(yson.Counter)
			if cn.Type == crdt.IntegerDedupCnt {
				do("D %s dadd %s %s", who, ct.path, strEnc(fmt.Sprintf("u%d", r.Intn(6))))
			} else if cn.Type == crdt.LongCnt && r.Intn(6) == 0 {
				do("D %s inc %s %d", who, ct.path, int64(1)<<53+int64(r.Intn(5)))
			} else {
				do("D %s inc %s %d", who, ct.path, r.Intn(200)-50)
			}
		case "tree":
			tr := ct.v.(yson.Tree)
			l := layoutOf(tr.Root)
			switch y := r.Intn(14); {
			case y < 3 && len(l.textSpots) > 0: // insert text inside a run
				sp := pick(r, l.textSpots)
				at := sp[0] + r.Intn(sp[1]-sp[0]+1)
				v := docStr()
				if v == "" {
					v = "z"
				}
				do("D %s tedit %s %d %d %s 0", who, ct.path, at, at, treeLit(yson.TreeNode{Type: "text", Value: v}))
			case y < 5 && len(l.textSpots) > 0: // delete inside a run
				sp := pick(r, l.textSpots)
				a := sp[0] + r.Intn(sp[1]-sp[0]+1)
				b := a + r.Intn(sp[1]-a+1)
				do("D %s tedit %s %d %d - 0", who, ct.path, a, b)
			case y < 8: // insert an element between the root's children
				at := pick(r, l.gaps)
				do("D %s tedit %s %d %d %s 0", who, ct.path, at, at, treeContent())
			case y < 9 && len(l.elemSpans) > 0: // delete a whole element
				sp := pick(r, l.elemSpans)
				do("D %s tedit %s %d %d - 0", who, ct.path, sp[0], sp[1])
			case y < 10 && len(l.textSpots) > 0: // split
				sp := pick(r, l.textSpots)
				at := sp[0] + r.Intn(sp[1]-sp[0]+1)
				do("D %s tedit %s %d %d - %d", who, ct.path, at, at, 1+r.Intn(2))
			case y < 11 && len(l.textSpots) > 1: // merge across an element boundary
				i := r.Intn(len(l.textSpots) - 1)
				do("D %s tedit %s %d %d - 0", who, ct.path, l.textSpots[i][1], l.textSpots[i+1][0])
			case y < 13 && len(l.elemSpans) > 0: // style / remove style
				sp := pick(r, l.elemSpans)
				if r.Intn(3) == 0 {
					do("D %s trmstyle %s %d %d %s", who, ct.path, sp[0], sp[1], strEnc(pick(r, attrKeys)))
				} else {
					a := g.attrs(2)
					if len(a) == 0 {
						a = map[string]string{"bold": "true"}
					}
					do("D %s tstyle %s %d %d %s", who, ct.path, sp[0], sp[0]+1, attrsLit(a))
				}
			default: // arbitrary range (often rejected)
				a := r.Intn(l.size + 1)
				b := a + r.Intn(l.size-a+1)
				if r.Intn(2) == 0 {
					do("D %s tedit %s %d %d - 0", who, ct.path, a, b)
				} else {
					do("D %s tstyle %s %d %d %s", who, ct.path, a, b, attrsLit(map[string]string{"k": "v"}))
				}
			}
		}
		if r.Intn(12) == 0 { // exports in the middle of a history
			v, _ := yson.FromCRDT(w.clients[ci].RootObject())
			do("DY %s %s", who, litOf(v))
		}
	}
	for round := 0; round < 2; round++ {
		for i := 0; i < n && !w.broken; i++ {
			do("D c%d sync", i)
		}
	}
	if w.broken {
		return
	}
	hv, _ := yson.FromCRDT(w.hub.RootObject())
	hl := litOf(hv)
	do("DY h %s", hl)
	for i := 0; i < n; i++ {
		v, _ := yson.FromCRDT(w.clients[i].RootObject())
		l := litOf(v)
		if l != hl {
			c.Count("doc:replica-differs-from-hub") // convergence is C01's business; the export is still checked
		}
		do("DY c%d %s", i, l)
	}
	if w.accepted >= 6 {
		c.Nontrivial()
	}
	c.Count(fmt.Sprintf("doc:clients:%d", n))
}
