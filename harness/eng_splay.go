package main

// engine `splay`: correspondence of pkg/splay (the index tree of RGATreeSplit /
// Text) with Model/Splay.lean, plus the sequential-specification oracle (C07, tree
// half).  After every command both sides print
//   <result> | <Tree.ToTestString()> | <shape with cached weights> | cw=<CheckWeight()> len=<Len()>
// The package exports no structure accessor, so the shape is read through
// reflection (read-only) from the unexported fields left/right/weight/value.

import (
	"fmt"
	"reflect"
	"strconv"
	"strings"

	"github.com/yorkie-team/yorkie/pkg/splay"
)

func init() { register("splay", runSplay) }

type sval struct {
	id int
	n  int
}

func (v *sval) Len() int       { return v.n }
func (v *sval) String() string { return strconv.Itoa(v.id) }

type refEl struct{ id, n int }

type splaySt struct {
	tree   *splay.Tree[*sval]
	nodes  map[int]*splay.Node[*sval] // nodes linked into the tree
	ref    []refEl                    // sequential specification: in-order (id, len)
	dirty  map[int]bool               // values whose Len() changed since their weights were recomputed
	broken bool                       // DeleteRange was called outside its len-0 precondition
	dead   bool                       // a call panicked: the rest of the trace is skipped
	// statistics for the non-triviality rule
	structural, lookups, zeroAtLookup int
}

func newSplaySt() *splaySt {
	return &splaySt{tree: splay.NewTree[*sval](nil), nodes: map[int]*splay.Node[*sval]{}, dirty: map[int]bool{}}
}

func splayShape(n reflect.Value, sb *strings.Builder) {
	if n.IsNil() {
		sb.WriteByte('-')
		return
	}
	e := n.Elem()
	sb.WriteByte('(')
	splayShape(rfield(e, "left"), sb)
	id := rfield(rfield(e, "value").Elem(), "id").Int()
	fmt.Fprintf(sb, " %d:%d ", id, rfield(e, "weight").Int())
	splayShape(rfield(e, "right"), sb)
	sb.WriteByte(')')
}

func splayInorder(n reflect.Value, out *[]refEl) {
	if n.IsNil() {
		return
	}
	e := n.Elem()
	splayInorder(rfield(e, "left"), out)
	v := rfield(e, "value").Elem()
	*out = append(*out, refEl{int(rfield(v, "id").Int()), int(rfield(v, "n").Int())})
	splayInorder(rfield(e, "right"), out)
}

func (s *splaySt) pos(id int) int {
	for i, e := range s.ref {
		if e.id == id {
			return i
		}
	}
	return -1
}

func (s *splaySt) total() int {
	t := 0
	for _, e := range s.ref {
		t += e.n
	}
	return t
}

func (s *splaySt) clean() bool { return !s.broken && len(s.dirty) == 0 }

func (s *splaySt) obs(c *Ctx, res string) {
	root := rfield(reflect.ValueOf(s.tree).Elem(), "root")
	var sb strings.Builder
	splayShape(root, &sb)
	cw := s.tree.CheckWeight()
	c.Obs("%s | %s | %s | cw=%t len=%d", res, s.tree.ToTestString(), sb.String(), cw, s.tree.Len())
	// T-oracle 1: the in-order sequence is the sequential specification
	var got []refEl
	splayInorder(root, &got)
	if len(got) != len(s.ref) {
		c.Oracle("in-order has %d nodes, specification %d", len(got), len(s.ref))
	} else {
		for i := range got {
			if got[i] != s.ref[i] {
				c.Oracle("in-order[%d]=%v, specification %v", i, got[i], s.ref[i])
				break
			}
		}
	}
	// T-oracle 2: weights are exact whenever no value changed behind the tree's back
	if s.clean() {
		if !cw {
			c.Oracle("CheckWeight()=false in a state where every changed value was re-splayed")
		}
		if s.tree.Len() != s.total() {
			c.Oracle("Len()=%d, sum of live lengths %d", s.tree.Len(), s.total())
		}
	}
}

func (s *splaySt) exec(c *Ctx, line string) {
	t := strings.Fields(line)
	if s.dead {
		c.Obs("dead")
		return
	}
	defer func() {
		if r := recover(); r != nil {
			// a panic inside the pointer preconditions: the call does not do what its API says
			s.dead = true
			c.Obs("panic")
			c.Oracle("%s panicked: %v", line, r)
		}
	}()
	num := func(i int) int {
		v, _ := strconv.Atoi(t[i])
		return v
	}
	switch t[0] {
	case "insert":
		id, n := num(1), num(2)
		if s.nodes[id] != nil {
			c.Obs("precond")
			return
		}
		nd := splay.NewNode(&sval{id: id, n: n})
		rootBefore := -1
		if len(s.ref) > 0 {
			root := rfield(reflect.ValueOf(s.tree).Elem(), "root")
			rootBefore = int(rfield(rfield(root.Elem(), "value").Elem(), "id").Int())
		}
		s.tree.Insert(nd)
		s.nodes[id] = nd
		if rootBefore < 0 {
			s.ref = append(s.ref, refEl{id, n})
		} else {
			// Insert() inserts after the current ROOT (not at the end)
			p := s.pos(rootBefore)
			s.ref = append(s.ref[:p+1], append([]refEl{{id, n}}, s.ref[p+1:]...)...)
			delete(s.dirty, rootBefore)
		}
		s.structural++
		s.obs(c, "ok")
	case "ins":
		prev, id, n := num(1), num(2), num(3)
		if s.nodes[prev] == nil || s.nodes[id] != nil {
			c.Obs("precond")
			return
		}
		nd := splay.NewNode(&sval{id: id, n: n})
		s.tree.InsertAfter(s.nodes[prev], nd)
		s.nodes[id] = nd
		p := s.pos(prev)
		s.ref = append(s.ref[:p+1], append([]refEl{{id, n}}, s.ref[p+1:]...)...)
		delete(s.dirty, prev)
		s.structural++
		s.obs(c, "ok")
	case "del":
		x := num(1)
		if s.nodes[x] == nil {
			c.Obs("precond")
			return
		}
		s.tree.Delete(s.nodes[x])
		delete(s.nodes, x)
		p := s.pos(x)
		s.ref = append(s.ref[:p], s.ref[p+1:]...)
		delete(s.dirty, x)
		s.structural++
		s.obs(c, "ok")
	case "splay":
		x := num(1)
		if nd := s.nodes[x]; nd != nil {
			s.tree.Splay(nd)
			delete(s.dirty, x)
		} else {
			s.tree.Splay(splay.NewNode(&sval{id: x})) // a node that is not linked: no effect
		}
		s.obs(c, "ok")
	case "find":
		p := num(1)
		nd, off, err := s.tree.FindForText(p)
		res := ""
		switch {
		case err != nil:
			res = "err"
		case nd == nil:
			res = "nil"
			if off != 0 {
				res = fmt.Sprintf("nil:%d", off)
			}
		default:
			res = fmt.Sprintf("%d:%d", nd.Value().id, off)
			delete(s.dirty, nd.Value().id)
		}
		if s.clean() || (err == nil && nd != nil && !s.broken && len(s.dirty) == 0) {
			// specification: first node k with p <= prefix(k)+len(k); offset p-prefix(k)
			want, acc := "err", 0
			if len(s.ref) == 0 {
				want = "nil"
			}
			for _, e := range s.ref {
				if p <= acc+e.n {
					want = fmt.Sprintf("%d:%d", e.id, p-acc)
					break
				}
				acc += e.n
			}
			if res != want {
				c.Oracle("FindForText(%d)=%s, prefix-sum specification %s", p, res, want)
			}
			s.lookups++
			for _, e := range s.ref {
				if e.n == 0 {
					s.zeroAtLookup++
					break
				}
			}
		}
		s.obs(c, res)
	case "finda":
		i := num(1)
		wasClean := s.clean()
		nd, err := s.tree.FindForArray(i)
		res := ""
		switch {
		case err != nil:
			res = "err"
		case nd == nil:
			res = "nil"
		default:
			res = strconv.Itoa(nd.Value().id)
			delete(s.dirty, nd.Value().id)
		}
		if wasClean {
			want, acc := "err", 0
			if len(s.ref) == 0 {
				want = "nil"
			}
			for _, e := range s.ref {
				if i < acc+e.n {
					want = strconv.Itoa(e.id)
					break
				}
				acc += e.n
			}
			if res != want {
				c.Oracle("FindForArray(%d)=%s, prefix-sum specification %s", i, res, want)
			}
			s.lookups++
		}
		s.obs(c, res)
	case "idx":
		x := num(1)
		var got int
		if nd := s.nodes[x]; nd != nil {
			got = s.tree.IndexOf(nd)
			delete(s.dirty, x)
		} else {
			got = s.tree.IndexOf(splay.NewNode(&sval{id: x}))
		}
		if s.clean() {
			want, acc := -1, 0
			for _, e := range s.ref {
				if e.id == x {
					want = acc
					break
				}
				acc += e.n
			}
			if got != want {
				c.Oracle("IndexOf(%d)=%d, prefix-sum specification %d", x, got, want)
			}
			s.lookups++
		}
		s.obs(c, strconv.Itoa(got))
	case "setlen":
		x, n := num(1), num(2)
		if nd := s.nodes[x]; nd != nil {
			if nd.Value().n != n {
				s.dirty[x] = true
			}
			nd.Value().n = n
			s.ref[s.pos(x)].n = n
		}
		s.obs(c, "ok")
	case "updw":
		x := num(1)
		if nd := s.nodes[x]; nd != nil {
			s.tree.UpdateWeight(nd)
		}
		s.obs(c, "ok")
	case "delrange":
		l := num(1)
		lp := s.pos(l)
		if lp < 0 {
			c.Obs("precond")
			return
		}
		rp := len(s.ref)
		var rn *splay.Node[*sval]
		if t[2] != "-" {
			r := num(2)
			rp = s.pos(r)
			if rp < 0 || rp <= lp {
				c.Obs("precond")
				return
			}
			rn = s.nodes[r]
		}
		s.tree.DeleteRange(s.nodes[l], rn)
		ok := true
		for k := lp + 1; k < rp; k++ {
			if s.ref[k].n != 0 {
				ok = false
			}
		}
		if ok {
			for k := lp; k <= rp && k < len(s.ref); k++ {
				delete(s.dirty, s.ref[k].id)
			}
			c.Count("delrange:len0-precondition")
		} else {
			s.broken = true
			c.Count("delrange:outside-precondition")
		}
		s.structural++
		s.obs(c, "ok")
	default:
		c.Obs("bad-op")
	}
}

// validOps enumerates the small-scope alphabet in the current state.
func (s *splaySt) validOps(nextID int, raw bool) []string {
	var ops []string
	ids := make([]int, len(s.ref))
	for i, e := range s.ref {
		ids[i] = e.id
	}
	for _, x := range ids {
		for _, n := range []int{0, 2} {
			ops = append(ops, fmt.Sprintf("ins %d %d %d", x, nextID, n))
		}
		ops = append(ops, fmt.Sprintf("del %d", x), fmt.Sprintf("splay %d", x), fmt.Sprintf("idx %d", x))
		if raw {
			for _, n := range []int{0, 3} {
				ops = append(ops, fmt.Sprintf("setlen %d %d", x, n))
			}
		}
	}
	for p := 0; p <= s.total()+1; p++ {
		ops = append(ops, fmt.Sprintf("find %d", p))
	}
	for i := 0; i <= s.total(); i += 1 {
		ops = append(ops, fmt.Sprintf("finda %d", i))
	}
	for i := range ids {
		ops = append(ops, fmt.Sprintf("delrange %d -", ids[i]))
		for j := i + 1; j < len(ids); j++ {
			ops = append(ops, fmt.Sprintf("delrange %d %d", ids[i], ids[j]))
		}
	}
	return ops
}

func runSplay(c *Ctx) error {
	c.stats.Rule = "op sequences on a real splay.Tree[*sval]; non-trivial = at least 2 structural ops (InsertAfter/Delete/DeleteRange), " +
		"at least 2 lookups checked against the prefix-sum specification, at least one of them with a zero-length (tombstone) node present; distinct by trace hash"
	if c.Replay != nil {
		s := newSplaySt()
		for _, l := range c.Replay {
			if strings.HasPrefix(l, "T ") {
				c.Trace(strings.TrimPrefix(l, "T "))
				s = newSplaySt()
				continue
			}
			c.Cmd("%s", l)
			s.exec(c, l)
		}
		return nil
	}
	run := func(s *splaySt, l string) {
		c.Cmd("%s", l)
		s.exec(c, l)
	}
	finish := func(s *splaySt) {
		if s.structural >= 2 && s.lookups >= 2 && s.zeroAtLookup >= 1 {
			c.Nontrivial()
		}
	}

	// ---- 1. small-scope exhaustive: every op sequence of length `depth` from each base tree.
	// The enumeration is split over workers 0..7 by the index of the first op.
	worker := int(c.Seed % 1000)
	depth := 3
	if c.Tier == "thorough" {
		depth = 4
	}
	bases := [][]string{
		{"insert 1 2", "ins 1 2 0", "ins 2 3 3"},                       // right spine after splays: 1,2(tombstone),3
		{"insert 1 1", "ins 1 2 2", "ins 1 3 0", "splay 2"},            // 1,3(tombstone),2 with 2 at the root
		{"insert 1 0", "ins 1 2 2", "ins 2 3 0", "ins 3 4 1", "idx 1"}, // dummy head of len 0, zig-zig history
	}
	if worker < 8 {
		c.stats.Exhaustive = true
		c.stats.ExhaustiveScope = fmt.Sprintf("splay: all sequences of %d ops (InsertAfter len 0/2, Delete, Splay, IndexOf, FindForText 0..total+1, "+
			"FindForArray 0..total, DeleteRange all ordered pairs and open end; raw variant adds setlen 0/3 without re-splay) "+
			"from %d base trees of 3-4 nodes incl. tombstones (thorough: 4 ops from the first base tree without raw ops, 3 elsewhere); share %d/8 of the first-op index", depth, len(bases), worker)
		for bi, base := range bases {
			for _, raw := range []bool{false, true} {
				// thorough: one op more, but only for the protocol-respecting alphabet of the first base tree
				// (the full depth-4 scope is > 10^8 observation lines)
				depth := 3
				if c.Tier == "thorough" && bi == 0 && !raw {
					depth = 4
				}
				var rec func(prefix []string)
				count := 0
				rec = func(prefix []string) {
					// rebuild the state silently to enumerate the alphabet
					s := newSplaySt()
					for _, l := range base {
						s.execQuiet(l)
					}
					for _, l := range prefix {
						s.execQuiet(l)
					}
					if len(prefix) == depth {
						c.Trace(fmt.Sprintf("splay-exh-%d-b%d-%t-%d", worker, bi, raw, count))
						count++
						s2 := newSplaySt()
						for _, l := range base {
							run(s2, l)
						}
						for _, l := range prefix {
							run(s2, l)
						}
						finish(s2)
						c.Count("exhaustive-traces")
						return
					}
					ops := s.validOps(100+len(prefix), raw)
					for i, op := range ops {
						if len(prefix) == 0 && i%8 != worker {
							continue
						}
						if raw && len(prefix) == 0 && !strings.HasPrefix(op, "setlen") && !strings.HasPrefix(op, "delrange") {
							// the raw variant only adds sequences that start with a raw op
							continue
						}
						rec(append(append([]string{}, prefix...), op))
					}
				}
				rec(nil)
			}
		}
	}

	// ---- 2. random traces
	r := c.Rng
	for i := 0; i < c.N; i++ {
		raw := i%4 == 3
		kind := "proto"
		if raw {
			kind = "raw"
		}
		c.Trace(fmt.Sprintf("splay-%s-%d-%d", kind, c.Seed, i))
		s := newSplaySt()
		next := 1
		run(s, fmt.Sprintf("insert %d 0", next)) // dummy head like RGATreeSplit's initialHead
		next++
		steps := 10 + r.Intn(50)
		maxNodes := 4 + r.Intn(12)
		pick := func() int { return s.ref[r.Intn(len(s.ref))].id }
		for k := 0; k < steps; k++ {
			x := r.Intn(100)
			switch {
			case x < 25 && len(s.ref) < maxNodes:
				n := r.Intn(4)
				if r.Intn(4) == 0 {
					n = 0
				}
				run(s, fmt.Sprintf("ins %d %d %d", pick(), next, n))
				next++
				c.Count("op:insertAfter")
			case x < 32 && len(s.ref) > 1:
				// Purge: only tombstones are deleted by the CRDT, but Delete itself has no such precondition
				run(s, fmt.Sprintf("del %d", pick()))
				c.Count("op:delete")
			case x < 47:
				p := r.Intn(s.total() + 2)
				if r.Intn(3) == 0 {
					// node boundaries are the interesting positions
					acc := 0
					k := r.Intn(len(s.ref) + 1)
					for _, e := range s.ref[:k] {
						acc += e.n
					}
					p = acc
				}
				run(s, fmt.Sprintf("find %d", p))
				c.Count("op:findForText")
			case x < 52:
				run(s, fmt.Sprintf("finda %d", r.Intn(s.total()+2)))
				c.Count("op:findForArray")
			case x < 60:
				id := pick()
				if r.Intn(8) == 0 {
					id = 9999 // unlinked node
				}
				run(s, fmt.Sprintf("idx %d", id))
				c.Count("op:indexOf")
			case x < 65:
				run(s, fmt.Sprintf("splay %d", pick()))
				c.Count("op:splay")
			case x < 75:
				// SetRemovedAt / restore followed by Splay (rga_tree_split.go restore/retombstone)
				id := pick()
				n := 0
				if r.Intn(3) == 0 {
					n = 1 + r.Intn(3)
				}
				run(s, fmt.Sprintf("setlen %d %d", id, n))
				if !raw || r.Intn(2) == 0 {
					run(s, fmt.Sprintf("splay %d", id))
				}
				c.Count("op:setLen+splay")
			case x < 85 && len(s.ref) < maxNodes:
				// splitNode: the value keeps [0,k), the new node gets the rest; UpdateWeight on the fresh node; InsertAfter
				id := pick()
				e := s.ref[s.pos(id)]
				if e.n >= 2 {
					k := 1 + r.Intn(e.n-1)
					run(s, fmt.Sprintf("setlen %d %d", id, k))
					run(s, fmt.Sprintf("ins %d %d %d", id, next, e.n-k))
					next++
					c.Count("op:split")
				} else {
					run(s, fmt.Sprintf("updw %d", id))
					c.Count("op:updateWeight")
				}
			default:
				// deleteNodes + deleteIndexNodes: tombstone everything strictly between two boundaries, then DeleteRange
				if len(s.ref) < 2 {
					continue
				}
				lp := r.Intn(len(s.ref))
				rp := lp + 1 + r.Intn(len(s.ref)-lp)
				if rp > lp+1 || raw {
					skip := raw && r.Intn(3) == 0
					for k := lp + 1; k < rp && k < len(s.ref); k++ {
						if !skip && s.ref[k].n != 0 {
							run(s, fmt.Sprintf("setlen %d 0", s.ref[k].id))
						}
					}
					if rp >= len(s.ref) {
						run(s, fmt.Sprintf("delrange %d -", s.ref[lp].id))
					} else {
						run(s, fmt.Sprintf("delrange %d %d", s.ref[lp].id, s.ref[rp].id))
					}
					c.Count("op:removeRange")
				}
			}
		}
		finish(s)
	}
	return nil
}

// execQuiet applies a command to the state without writing any stream (used to
// enumerate the state-dependent alphabet of the exhaustive scope).
func (s *splaySt) execQuiet(line string) {
	q := &Ctx{cmds: nullWriter(), impl: nullWriter(), orc: nullWriter()}
	q.stats.Dist = map[string]int{}
	s.exec(q, line)
}
