// Command yk-harness drives the real yorkie packages and writes, per run,
// cmds.txt (command lines for the Lean driver), impl.txt (the implementation's
// observation lines), oracle.txt (property-oracle failures) and stats.json.
package main

import (
	"bufio"
	"crypto/sha256"
	"encoding/hex"
	"encoding/json"
	"flag"
	"fmt"
	"math/big"
	"math/rand"
	"os"
	"path/filepath"
	"sort"
	"strings"

	"github.com/yorkie-team/yorkie/pkg/document/time"
)

// Ctx is handed to every engine.
type Ctx struct {
	Rng   *rand.Rand
	Seed  int64
	N     int
	Tier  string
	Out   string
	cmds  *bufio.Writer
	impl  *bufio.Writer
	orc   *bufio.Writer
	stats Stats

	// Mute: the engine's command/observation lines are not written (oracle-only streams whose
	// behaviour the model does not express); the T lines still are, so streams stay aligned.
	Mute bool

	traceID    string
	traceLines []string
	nontrivial bool
	seen       map[string]bool
	Replay     []string // non-nil: replay these command lines instead of generating
}

// Stats is written to stats.json and ends up in the evidence file.
type Stats struct {
	Engine             string         `json:"engine"`
	Traces             int            `json:"traces"`
	Commands           int            `json:"commands"`
	DistinctNontrivial int            `json:"distinct_nontrivial"`
	OracleFailures     int            `json:"oracle_failures"`
	Dist               map[string]int `json:"distribution"`
	Samples            []string       `json:"samples"`
	Rule               string         `json:"rule"`
	Exhaustive         bool           `json:"exhaustive"`
	ExhaustiveScope    string         `json:"exhaustive_scope,omitempty"`
	Extra              map[string]any `json:"extra,omitempty"`
}

type engineFn func(c *Ctx) error

var engines = map[string]engineFn{}

func register(name string, fn engineFn) { engines[name] = fn }

// Trace starts a new trace; both sides echo the T line.
func (c *Ctx) Trace(id string) {
	c.endTrace()
	c.traceID = id
	c.traceLines = nil
	c.nontrivial = false
	fmt.Fprintf(c.cmds, "T %s\n", id)
	fmt.Fprintf(c.impl, "T %s\n", id)
	c.stats.Traces++
}

func (c *Ctx) endTrace() {
	if c.traceID == "" {
		return
	}
	if c.nontrivial {
		h := sha256.Sum256([]byte(strings.Join(c.traceLines, "\n")))
		k := hex.EncodeToString(h[:8])
		if !c.seen[k] {
			c.seen[k] = true
			c.stats.DistinctNontrivial++
		}
	}
	if len(c.stats.Samples) < 3 && len(c.traceLines) > 0 {
		s := strings.Join(c.traceLines, " ; ")
		if len(s) > 1500 {
			s = s[:1500] + "…"
		}
		c.stats.Samples = append(c.stats.Samples, s)
	}
	c.traceID = ""
}

// Cmd writes one command line (read by the Lean driver).
func (c *Ctx) Cmd(format string, a ...any) {
	l := fmt.Sprintf(format, a...)
	if !c.Mute {
		fmt.Fprintln(c.cmds, l)
	}
	c.traceLines = append(c.traceLines, l)
	c.stats.Commands++
	if i := strings.IndexByte(l, ' '); i > 0 {
		c.stats.Dist["cmd:"+l[:i]]++
	} else {
		c.stats.Dist["cmd:"+l]++
	}
}

// Obs writes one implementation observation line.
func (c *Ctx) Obs(format string, a ...any) {
	if !c.Mute {
		fmt.Fprintf(c.impl, format+"\n", a...)
	}
}

// Nontrivial marks the current trace as non-trivial by the engine's rule.
func (c *Ctx) Nontrivial() { c.nontrivial = true }

// Count bumps a distribution counter.
func (c *Ctx) Count(k string) { c.stats.Dist[k]++ }

// Oracle records a failure of the property's own oracle on the current trace.
func (c *Ctx) Oracle(format string, a ...any) {
	fmt.Fprintf(c.orc, "%s\t%s\n", c.traceID, fmt.Sprintf(format, a...))
	c.stats.OracleFailures++
}

// ReplaySeed supports engines whose traces are regenerated from the PRNG: it finds the first
// `T <prefix>-<seed>-<i>` line of the replay file and re-seeds the context so that generating
// i+1 traces reproduces that trace (all random choices come from c.Rng in sequence).
func (c *Ctx) ReplaySeed(prefix string) bool {
	for _, l := range c.Replay {
		var seed int64
		var idx int
		if n, _ := fmt.Sscanf(l, "T "+prefix+"-%d-%d", &seed, &idx); n == 2 {
			c.Seed = seed
			c.Rng = rand.New(rand.NewSource(seed))
			c.N = idx + 1
			c.Replay = nil
			return true
		}
	}
	return false
}

// ActorNat prints an actor id the way the Lean model stores it.
func ActorNat(a time.ActorID) string { return new(big.Int).SetBytes(a[:]).String() }

// NatActor is the inverse of ActorNat.
func NatActor(s string) time.ActorID {
	n, _ := new(big.Int).SetString(s, 10)
	var a time.ActorID
	b := n.Bytes()
	copy(a[12-len(b):], b)
	return a
}

// ShowVV prints a version vector canonically (sorted by actor bytes).
func ShowVV(v time.VersionVector) string {
	type kv struct {
		k *big.Int
		v int64
	}
	var l []kv
	for a, x := range v {
		l = append(l, kv{new(big.Int).SetBytes(a[:]), x})
	}
	sort.Slice(l, func(i, j int) bool { return l[i].k.Cmp(l[j].k) < 0 })
	var sb strings.Builder
	sb.WriteByte('{')
	for i, e := range l {
		if i > 0 {
			sb.WriteByte(',')
		}
		fmt.Fprintf(&sb, "%s:%d", e.k.String(), e.v)
	}
	sb.WriteByte('}')
	return sb.String()
}

func main() {
	if len(os.Args) < 2 {
		fmt.Fprintln(os.Stderr, "usage: yk-harness <engine> [-seed N] [-n N] [-tier T] [-out DIR] [-replay FILE]")
		os.Exit(2)
	}
	name := os.Args[1]
	fs := flag.NewFlagSet(name, flag.ExitOnError)
	seed := fs.Int64("seed", 0, "PRNG seed")
	n := fs.Int("n", 100, "number of traces")
	tier := fs.String("tier", "quick", "tier")
	out := fs.String("out", ".", "output directory")
	replay := fs.String("replay", "", "replay command file")
	_ = fs.Int("preattach", 0, "crdt engine: one replica in N edits before SetActor")
	_ = fs.Parse(os.Args[2:])
	fn, ok := engines[name]
	if !ok {
		fmt.Fprintf(os.Stderr, "unknown engine %s\n", name)
		os.Exit(2)
	}
	if err := os.MkdirAll(*out, 0o755); err != nil {
		panic(err)
	}
	open := func(f string) (*os.File, *bufio.Writer) {
		fh, err := os.Create(filepath.Join(*out, f))
		if err != nil {
			panic(err)
		}
		return fh, bufio.NewWriterSize(fh, 1<<20)
	}
	f1, w1 := open("cmds.txt")
	f2, w2 := open("impl.txt")
	f3, w3 := open("oracle.txt")
	c := &Ctx{Rng: rand.New(rand.NewSource(*seed)), Seed: *seed, N: *n, Tier: *tier, Out: *out,
		cmds: w1, impl: w2, orc: w3, seen: map[string]bool{}}
	c.stats.Engine = name
	c.stats.Dist = map[string]int{}
	if *replay != "" {
		b, err := os.ReadFile(*replay)
		if err != nil {
			panic(err)
		}
		for _, l := range strings.Split(string(b), "\n") {
			l = strings.TrimSpace(l)
			if l != "" && !strings.HasPrefix(l, "#") {
				c.Replay = append(c.Replay, l)
			}
		}
	}
	err := fn(c)
	c.endTrace()
	w1.Flush()
	w2.Flush()
	w3.Flush()
	f1.Close()
	f2.Close()
	f3.Close()
	sb, _ := json.MarshalIndent(c.stats, "", " ")
	_ = os.WriteFile(filepath.Join(*out, "stats.json"), sb, 0o644)
	if err != nil {
		fmt.Fprintln(os.Stderr, "engine error:", err)
		os.Exit(3)
	}
}
