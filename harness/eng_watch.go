//go:build verif

package main

// engine `watch`: request-level correspondence of the watch-stream glue
// (server/rpc/yorkie_server.go Watch / subscribeResources / watchDoc / unwatchDoc) and of the
// publish step of server/packs/pushpull.go with Model/Watch.lean (C17).
//
// A real in-process server on the memory DB; SDK clients (manual sync) attach, edit, sync and
// remove documents; unified Watch streams are opened with the raw v1connect client (several
// document resources per request, a project with MaxSubscribersPerDocument=1 for the failure
// path, unknown document ids). The batch publishers run in manual-tick mode (hook of the pubsub
// package): after every command the harness waits for the background routines of the server,
// publishes a barrier event per affected document, ticks, and waits until every established
// stream has received its barrier. Whatever DocChanged events a stream received before the
// barrier are the observation – absence is never judged by a timeout.

import (
	"context"
	"crypto/rand"
	"encoding/hex"
	"fmt"
	"net/http"
	"reflect"
	"runtime"
	"sort"
	"strconv"
	"strings"
	"sync"
	gotime "time"
	"unsafe"

	"connectrpc.com/connect"

	"github.com/yorkie-team/yorkie/api/types"
	"github.com/yorkie-team/yorkie/api/types/events"
	api "github.com/yorkie-team/yorkie/api/yorkie/v1"
	"github.com/yorkie-team/yorkie/api/yorkie/v1/v1connect"
	"github.com/yorkie-team/yorkie/client"
	"github.com/yorkie-team/yorkie/pkg/document"
	"github.com/yorkie-team/yorkie/pkg/document/json"
	"github.com/yorkie-team/yorkie/pkg/document/presence"
	"github.com/yorkie-team/yorkie/pkg/document/time"
	"github.com/yorkie-team/yorkie/pkg/key"
	"github.com/yorkie-team/yorkie/server"
	"github.com/yorkie-team/yorkie/server/backend"
	"github.com/yorkie-team/yorkie/server/backend/database"
	"github.com/yorkie-team/yorkie/server/backend/pubsub"
	"github.com/yorkie-team/yorkie/server/logging"
	"github.com/yorkie-team/yorkie/test/helper"
)

func init() { register("watch", runWatch) }

// ---------------------------------------------------------------- server

type wtSrv struct {
	svr  *server.Yorkie
	be   *backend.Backend
	db   database.Database
	wg   *sync.WaitGroup        // background routines of the backend (event publication, snapshots)
	proj map[int]*types.Project // by subscriber limit (0 = unlimited, 1)
	raw  v1connect.YorkieServiceClient
}

var wtS *wtSrv
var wtServed int

const wtRecycleEvery = 300

func wtServer() *wtSrv {
	if wtS != nil {
		wtServed++
		if wtServed%wtRecycleEvery != 0 {
			return wtS
		}
		wtS.wg.Wait()
		_ = wtS.svr.Shutdown(true)
		wtS = nil
	}
	_ = logging.SetLogLevel("fatal")
	// every batch publisher created from now on is flushed by the harness, not by the 100 ms ticker
	pubsub.VerifYield = nil
	pubsub.VerifManualTick = true
	var svr *server.Yorkie
	var lastErr error
	for attempt := 0; attempt < 20 && svr == nil; attempt++ {
		conf := helper.TestConfig()
		conf.Mongo = nil
		p1, p2 := protoFreePort(), protoFreePort()
		conf.RPC.Port = p1
		conf.Profiling.Port = p2
		conf.Backend.GatewayAddr = fmt.Sprintf("localhost:%d", p1)
		conf.Backend.RPCAddr = fmt.Sprintf("localhost:%d", p1)
		conf.Housekeeping.Interval = "1000h"
		conf.Housekeeping.CompactionMinChanges = 1 << 30
		y, err := server.New(conf)
		if err != nil {
			lastErr = err
			continue
		}
		if err := y.Start(); err != nil {
			lastErr = err
			_ = y.Shutdown(false)
			continue
		}
		svr = y
	}
	if svr == nil {
		panic(lastErr)
	}
	ctx := context.Background()
	s := &wtSrv{svr: svr, be: svr.Backend(), db: svr.Backend().DB, proj: map[int]*types.Project{}}
	bg := svUnexported(reflect.ValueOf(s.be).Elem(), "background")
	wgf := bg.Elem().FieldByName("wg")
	if !wgf.IsValid() {
		panic("background.Background has no field wg")
	}
	s.wg = (*sync.WaitGroup)(unsafe.Pointer(wgf.UnsafeAddr()))
	def, err := svr.DefaultProject(ctx)
	if err != nil {
		panic(err)
	}
	huge := int64(1) << 40
	for _, limit := range []int{0, 1} {
		pi, err := s.db.CreateProjectInfo(ctx, fmt.Sprintf("verif-watch-%d", limit), def.Owner)
		if err != nil {
			panic(err)
		}
		l := limit
		if _, err := s.db.UpdateProjectInfo(ctx, pi.ID, &types.UpdatableProjectFields{
			SnapshotThreshold: &huge, SnapshotInterval: &huge, MaxSubscribersPerDocument: &l}); err != nil {
			panic(err)
		}
		info, err := s.db.FindProjectInfoByID(ctx, pi.ID)
		if err != nil {
			panic(err)
		}
		s.proj[limit] = info.ToProject()
	}
	s.raw = v1connect.NewYorkieServiceClient(http.DefaultClient, "http://"+svr.RPCAddr())
	wtS = s
	return s
}

// ---------------------------------------------------------------- per-trace state

type wtEvent struct {
	doc       string // document id (hex)
	changed   bool
	publisher string // actor hex
	topic     string
}

type wtStream struct {
	idx    int
	client int
	docs   []int // document indices, in request order
	cancel context.CancelFunc
	events chan wtEvent
	done   chan struct{}
}

type wtDoc struct {
	id  types.ID
	ref types.DocRefKey
	key key.Key
}

type wtTrace struct {
	c       *Ctx
	s       *wtSrv
	limit   int
	nonce   string
	clients map[int]*client.Client
	reps    map[[2]int]*document.Document // (client, doc) -> replica
	docs    map[int]*wtDoc
	order   []int // documents in order of first attach
	streams map[int]*wtStream
	ctr     int
	barrier int
	bogus   string
	seen    int // pushes whose DocChanged was received by at least one established stream
}

var wtLeakSeen bool

func newWtTrace(c *Ctx, limit int) *wtTrace {
	b := make([]byte, 6)
	_, _ = rand.Read(b)
	id := make([]byte, 12)
	_, _ = rand.Read(id)
	return &wtTrace{c: c, s: wtServer(), limit: limit, nonce: hex.EncodeToString(b),
		clients: map[int]*client.Client{}, reps: map[[2]int]*document.Document{}, docs: map[int]*wtDoc{},
		streams: map[int]*wtStream{}, bogus: hex.EncodeToString(id)}
}

func (t *wtTrace) project() *types.Project { return t.s.proj[t.limit] }

func (t *wtTrace) client(i int) (*client.Client, error) {
	if cl, ok := t.clients[i]; ok {
		return cl, nil
	}
	cl, err := client.Dial(t.s.svr.RPCAddr(), client.WithAPIKey(t.project().PublicKey))
	if err != nil {
		return nil, err
	}
	if err := cl.Activate(context.Background()); err != nil {
		return nil, err
	}
	t.clients[i] = cl
	return cl, nil
}

func (t *wtTrace) clientIndex(a time.ActorID) int {
	for i, cl := range t.clients {
		if cl.ID().Compare(a) == 0 {
			return i
		}
	}
	return -1
}

func (t *wtTrace) clientIndexHex(h string) int {
	for i, cl := range t.clients {
		if cl.ID().String() == h {
			return i
		}
	}
	return -1
}

func (t *wtTrace) head(d *wtDoc) int64 {
	info, err := t.s.db.FindDocInfoByRefKey(context.Background(), d.ref)
	if err != nil {
		return -1
	}
	return info.ServerSeq
}

// ids prints the subscriber ids the PubSub lists for every document of the trace.
func (t *wtTrace) ids() string {
	var parts []string
	for _, j := range t.order {
		var l []int
		for _, a := range t.s.be.PubSub.ClientIDs(t.docs[j].ref) {
			l = append(l, t.clientIndex(a))
		}
		sort.Ints(l)
		parts = append(parts, fmt.Sprintf("d%d:[%s]", j, psJoinInts(l)))
	}
	return strings.Join(parts, " ")
}

// expectedIDs is what the harness's own bookkeeping of established streams says.
func (t *wtTrace) expectedIDs() string {
	var parts []string
	for _, j := range t.order {
		var l []int
		for _, st := range t.streams {
			for _, d := range st.docs {
				if d == j {
					l = append(l, st.client)
				}
			}
		}
		sort.Ints(l)
		parts = append(parts, fmt.Sprintf("d%d:[%s]", j, psJoinInts(l)))
	}
	return strings.Join(parts, " ")
}

// settle drains what a command left in the batch publishers of the given documents: barrier
// event, manual tick, wait until every established stream subscribed to the document has seen
// the barrier. It returns, per document, the DocChanged events each stream received before its
// barrier as "s<stream>:c<publisher>".
func (t *wtTrace) settle(docs []int) map[int][]string {
	t.s.wg.Wait() // PushPull publishes from a background routine
	got := map[int][]string{}
	type pair struct{ st, doc int }
	need := map[pair]bool{}
	for _, j := range docs {
		if _, ok := t.docs[j]; !ok {
			continue
		}
		for _, st := range t.streams {
			for _, d := range st.docs {
				if d == j {
					need[pair{st.idx, j}] = true
				}
			}
		}
	}
	t.barrier++
	bar := time.MaxActorID
	attempt := 0
	fire := func() {
		attempt++
		topic := fmt.Sprintf("bar-%s-%d-%d", t.nonce, t.barrier, attempt)
		for _, j := range docs {
			d, ok := t.docs[j]
			if !ok {
				continue
			}
			t.s.be.PubSub.Publish(context.Background(), bar, events.DocEvent{Type: events.DocWatched, Actor: bar,
				Key: d.ref, Body: events.DocEventBody{Topic: topic}})
			if subs, ok := t.s.be.PubSub.VerifDocSubs(d.ref); ok {
				subs.VerifTick()
			}
		}
	}
	fire()
	prefix := fmt.Sprintf("bar-%s-%d-", t.nonce, t.barrier)
	byID := map[string]int{}
	for j, d := range t.docs {
		byID[d.id.String()] = j
	}
	var idxs []int
	for _, st := range t.streams {
		idxs = append(idxs, st.idx)
	}
	sort.Ints(idxs)
	deadline := gotime.Now().Add(60 * gotime.Second)
	for _, k := range idxs {
		st := t.streams[k]
		// a stream that holds n subscriptions of a document sees every event of it n times: it
		// is settled for that document once n barriers of one and the same round have arrived
		want := map[int]int{}
		for p := range need {
			if p.st == k {
				for _, d := range st.docs {
					if d == p.doc {
						want[p.doc]++
					}
				}
			}
		}
		seen := map[[2]int]int{} // (doc, round) -> barriers
		done := map[int]bool{}
		for len(done) < len(want) {
			select {
			case ev := <-st.events:
				j, ok := byID[ev.doc]
				if !ok || done[j] || want[j] == 0 {
					continue
				}
				if strings.HasPrefix(ev.topic, prefix) {
					round, _ := strconv.Atoi(strings.TrimPrefix(ev.topic, prefix))
					seen[[2]int{j, round}]++
					if seen[[2]int{j, round}] >= want[j] {
						done[j] = true
					}
					continue
				}
				if ev.changed {
					got[j] = append(got[j], fmt.Sprintf("s%d:c%d", k, t.clientIndexHex(ev.publisher)))
				}
			case <-st.done:
				t.c.Oracle("watch stream s%d ended by itself", k)
				for j := range want {
					done[j] = true
				}
			case <-gotime.After(gotime.Second):
				if gotime.Now().After(deadline) {
					t.c.Oracle("stream s%d did not receive the barrier of a document within 60s", k)
					for j := range want {
						done[j] = true
					}
				} else {
					fire() // a barrier can be dropped by the 100 ms publish timeout under load
				}
			}
		}
	}
	return got
}

func (t *wtTrace) showGot(got []string) string {
	sort.SliceStable(got, func(a, b int) bool {
		x, _ := strconv.Atoi(strings.SplitN(got[a][1:], ":", 2)[0])
		y, _ := strconv.Atoi(strings.SplitN(got[b][1:], ":", 2)[0])
		return x < y
	})
	return "[" + strings.Join(got, " ") + "]"
}

func wtErrKind(err error) string {
	if err == nil {
		return "ok"
	}
	switch connect.CodeOf(err) {
	case connect.CodeResourceExhausted:
		return "err:limit"
	case connect.CodeNotFound:
		return "err:notfound"
	}
	return "err:" + connect.CodeOf(err).String()
}

func (t *wtTrace) open(k, ci int, docs []int) error {
	cl, err := t.client(ci)
	if err != nil {
		return err
	}
	var res []*api.ResourceDescriptor
	for _, j := range docs {
		id := t.bogus
		if d, ok := t.docs[j]; ok {
			id = d.id.String()
		}
		res = append(res, &api.ResourceDescriptor{Resource: &api.ResourceDescriptor_Document{
			Document: &api.DocumentDescriptor{DocumentId: id}}})
	}
	ctx, cancel := context.WithCancel(context.Background())
	req := connect.NewRequest(&api.WatchRequest{ClientId: cl.ID().String(), Resources: res})
	req.Header().Set(types.APIKeyKey, t.project().PublicKey)
	stream, err := t.s.raw.Watch(ctx, req)
	if err != nil {
		cancel()
		return err
	}
	if !stream.Receive() {
		err := stream.Err()
		cancel()
		_ = stream.Close()
		if err == nil {
			err = fmt.Errorf("stream closed before initialization")
		}
		return err
	}
	if stream.Msg().GetInitialization() == nil {
		cancel()
		_ = stream.Close()
		return fmt.Errorf("first response is not the initialization")
	}
	st := &wtStream{idx: k, client: ci, docs: docs, cancel: cancel, events: make(chan wtEvent, 1024), done: make(chan struct{})}
	go func() {
		defer close(st.done)
		for stream.Receive() {
			ev := stream.Msg().GetEvent().GetDocEvent()
			if ev == nil || ev.Event == nil {
				continue
			}
			e := wtEvent{doc: ev.DocumentId, publisher: ev.Event.Publisher,
				changed: ev.Event.Type == api.DocEventType_DOC_EVENT_TYPE_DOCUMENT_CHANGED}
			if ev.Event.Body != nil {
				e.topic = ev.Event.Body.Topic
			}
			st.events <- e
		}
		_ = stream.Close()
	}()
	t.streams[k] = st
	return nil
}

// closeStream ends a stream and waits until the server has run its deferred unwatch.
func (t *wtTrace) closeStream(k int) {
	st, ok := t.streams[k]
	if !ok {
		return
	}
	st.cancel()
	select {
	case <-st.done:
	case <-gotime.After(20 * gotime.Second):
		t.c.Oracle("stream s%d did not end within 20s after cancel", k)
	}
	delete(t.streams, k)
	wait := 20 * gotime.Second
	if wtLeakSeen {
		wait = 300 * gotime.Millisecond
	}
	deadline := gotime.Now().Add(wait)
	want := t.expectedIDs()
	for t.ids() != want && gotime.Now().Before(deadline) {
		gotime.Sleep(200 * gotime.Microsecond)
	}
	if t.ids() != want {
		wtLeakSeen = true
	}
}

func (t *wtTrace) exec(line string) {
	c := t.c
	tk := strings.Fields(line)
	ctx := context.Background()
	ci, dj := psKVI(tk, "c"), psKVI(tk, "d")
	push := func(d *wtDoc, err error) {
		if err != nil {
			c.Obs("err:%s", wtErrKind(err))
			return
		}
		got := t.settle([]int{dj})
		if len(got[dj]) > 0 {
			t.seen++
			c.Count("push:delivered")
		} else {
			c.Count("push:nobody")
		}
		c.Obs("head=%d got=%s", t.head(d), t.showGot(got[dj]))
	}
	switch tk[0] {
	case "ATTACH":
		cl, err := t.client(ci)
		if err != nil {
			c.Obs("err:%v", err)
			return
		}
		k := key.Key(fmt.Sprintf("w-%s-%d", t.nonce, dj))
		rep := document.New(k)
		if err := cl.Attach(ctx, rep); err != nil {
			c.Obs("err:%s", wtErrKind(err))
			return
		}
		t.reps[[2]int{ci, dj}] = rep
		d, ok := t.docs[dj]
		if !ok {
			info, err := t.s.db.FindDocInfoByKey(ctx, t.project().ID, k)
			if err != nil {
				c.Obs("err:%v", err)
				return
			}
			d = &wtDoc{id: info.ID, ref: types.DocRefKey{ProjectID: t.project().ID, DocID: info.ID}, key: k}
			t.docs[dj] = d
			t.order = append(t.order, dj)
		}
		push(d, nil)
	case "EDIT":
		rep := t.reps[[2]int{ci, dj}]
		if rep == nil {
			c.Obs("bad-replica")
			return
		}
		t.ctr++
		kind, v := psKV(tk, "kind"), t.ctr
		err := rep.Update(func(r *json.Object, p *presence.Presence) error {
			if kind != "pres" {
				r.SetInteger("k", v)
			}
			if kind != "ops" {
				p.Set("k", strconv.Itoa(v))
			}
			return nil
		})
		if err != nil {
			c.Obs("err:%v", err)
			return
		}
		n, ops := 0, 0
		for _, cn := range rep.CreateChangePack().Changes {
			n++
			ops += len(cn.Operations())
		}
		c.Obs("pend=%d,%d", n, ops)
	case "SYNC", "REMOVE":
		rep, cl := t.reps[[2]int{ci, dj}], t.clients[ci]
		if rep == nil || cl == nil {
			c.Obs("bad-replica")
			return
		}
		var err error
		if tk[0] == "SYNC" {
			err = cl.Sync(ctx, client.WithKey(rep.Key()))
		} else {
			err = cl.Remove(ctx, rep)
		}
		push(t.docs[dj], err)
	case "WOPEN":
		k := psKVI(tk, "s")
		var docs []int
		for _, x := range strings.Split(psKV(tk, "docs"), ",") {
			if x != "" {
				n, _ := strconv.Atoi(x)
				docs = append(docs, n)
			}
		}
		err := t.open(k, ci, docs)
		t.settle(docs)
		c.Obs("r=%s ids=%s", wtErrKind(err), t.ids())
		if t.ids() != t.expectedIDs() {
			// direct oracle of "never leak subscriptions": the PubSub lists exactly the
			// subscriptions of the established streams
			c.Oracle("after WOPEN s=%d (%s) the PubSub lists %s but the established streams hold %s", k, wtErrKind(err), t.ids(), t.expectedIDs())
			wtLeakSeen = true
		}
	case "WCLOSE":
		k := psKVI(tk, "s")
		var docs []int
		if st, ok := t.streams[k]; ok {
			docs = st.docs
		}
		t.closeStream(k)
		t.settle(docs)
		c.Obs("ids=%s", t.ids())
		if t.ids() != t.expectedIDs() {
			c.Oracle("after WCLOSE s=%d the PubSub lists %s but the established streams hold %s", k, t.ids(), t.expectedIDs())
		}
	case "END":
		var ks []int
		for k := range t.streams {
			ks = append(ks, k)
		}
		sort.Ints(ks)
		for _, k := range ks {
			t.closeStream(k)
		}
		t.s.wg.Wait()
		n := 0
		for _, j := range t.order {
			n += len(t.s.be.PubSub.ClientIDs(t.docs[j].ref))
		}
		c.Obs("end subs=%d ids=%s", n, t.ids())
		// ClientIDs is empty once the last Unsubscribe has deleted its member; the map entry
		// goes (and the process loop is told to stop) one critical section later
		wait := 20 * gotime.Second
		if wtLeakSeen {
			wait = 300 * gotime.Millisecond
		}
		deadline := gotime.Now().Add(wait)
		for _, j := range t.order {
			for {
				_, ok := t.s.be.PubSub.VerifDocSubs(t.docs[j].ref)
				if !ok {
					break
				}
				if gotime.Now().After(deadline) {
					c.Oracle("leak: document d%d still has a Subscriptions object after every stream has ended", j)
					wtLeakSeen = true
					break
				}
				gotime.Sleep(200 * gotime.Microsecond)
			}
		}
	default:
		c.Obs("bad-op")
	}
}

func (t *wtTrace) finish() {
	for _, st := range t.streams {
		st.cancel()
	}
	for _, cl := range t.clients {
		_ = cl.Close()
	}
}

// ---------------------------------------------------------------- generation

func wtGen(c *Ctx, i int) []string {
	r := c.Rng
	limit := 0
	if r.Intn(2) == 0 {
		limit = 1
	}
	lines := []string{fmt.Sprintf("CFG limit=%d", limit)}
	nc, nd := 2+r.Intn(2), 1+r.Intn(3)
	attached := map[[2]int]bool{}
	removed := map[int]bool{}
	created := map[int]bool{}
	live := map[int]bool{}
	nextStream := 0
	add := func(f string, a ...any) { lines = append(lines, fmt.Sprintf(f, a...)) }
	// every client attaches one or two documents, then some of them start watching, so that the
	// pushes that follow have somebody to tell
	for ci := 0; ci < nc; ci++ {
		for n := 1 + r.Intn(2); n > 0; n-- {
			dj := r.Intn(nd)
			if !attached[[2]int{ci, dj}] {
				add("ATTACH c=%d d=%d", ci, dj)
				attached[[2]int{ci, dj}], created[dj] = true, true
			}
		}
	}
	wopen := func(ci int) {
		// a Watch request: 1..3 resources, sometimes an unknown id, sometimes a duplicate
		var docs []string
		n := 1 + r.Intn(3)
		for len(docs) < n {
			dj := r.Intn(nd)
			if r.Intn(14) == 0 {
				dj = 99
			} else if !created[dj] {
				continue
			}
			docs = append(docs, strconv.Itoa(dj))
		}
		add("WOPEN s=%d c=%d docs=%s", nextStream, ci, strings.Join(docs, ","))
		live[nextStream] = true // the model knows whether it really is
		nextStream++
	}
	for n := 1 + r.Intn(2); n > 0; n-- {
		wopen(r.Intn(nc))
	}
	pickDoc := func(ci int) int {
		start := r.Intn(nd)
		for o := 0; o < nd; o++ {
			dj := (start + o) % nd
			if attached[[2]int{ci, dj}] && !removed[dj] {
				return dj
			}
		}
		return -1
	}
	steps := 10 + r.Intn(12)
	for k := 0; k < steps; k++ {
		ci := r.Intn(nc)
		switch x := r.Intn(100); {
		case x < 8:
			dj := r.Intn(nd)
			if !attached[[2]int{ci, dj}] && !removed[dj] {
				add("ATTACH c=%d d=%d", ci, dj)
				attached[[2]int{ci, dj}], created[dj] = true, true
			}
		case x < 55:
			if dj := pickDoc(ci); dj >= 0 {
				for n := 1 + r.Intn(2); n > 0; n-- {
					add("EDIT c=%d d=%d kind=%s", ci, dj, []string{"ops", "pres", "pres", "both"}[r.Intn(4)])
				}
				if r.Intn(4) > 0 {
					add("SYNC c=%d d=%d", ci, dj)
				}
			}
		case x < 62:
			if dj := pickDoc(ci); dj >= 0 {
				add("SYNC c=%d d=%d", ci, dj) // with or without local changes (pure pull)
			}
		case x < 80:
			if limit == 0 || r.Intn(2) == 0 {
				wopen(ci)
			}
		case x < 92:
			var ks []int
			for s := range live {
				ks = append(ks, s)
			}
			if len(ks) > 0 {
				sort.Ints(ks)
				s := ks[r.Intn(len(ks))]
				add("WCLOSE s=%d", s)
				delete(live, s)
			}
		default:
			if dj := pickDoc(ci); dj >= 0 && k > steps/2 && r.Intn(2) == 0 {
				add("REMOVE c=%d d=%d", ci, dj)
				removed[dj] = true
			}
		}
	}
	add("END")
	return lines
}

// wtFixed are the two scenarios of the seeded READMEs plus a multi-document success path.
func wtFixed() [][]string {
	return [][]string{
		{"CFG limit=1", "ATTACH c=0 d=0", "ATTACH c=0 d=1", "ATTACH c=1 d=1", "ATTACH c=2 d=0",
			"WOPEN s=0 c=1 docs=1", "WOPEN s=1 c=0 docs=0,1", "WOPEN s=2 c=0 docs=0",
			"EDIT c=2 d=0 kind=ops", "SYNC c=2 d=0", "EDIT c=2 d=0 kind=pres", "SYNC c=2 d=0", "WCLOSE s=2", "END"},
		{"CFG limit=0", "ATTACH c=0 d=0", "ATTACH c=1 d=0", "WOPEN s=0 c=0 docs=0",
			"EDIT c=1 d=0 kind=ops", "SYNC c=1 d=0", "EDIT c=1 d=0 kind=pres", "SYNC c=1 d=0",
			"EDIT c=1 d=0 kind=both", "EDIT c=1 d=0 kind=pres", "SYNC c=1 d=0", "SYNC c=1 d=0",
			"WOPEN s=1 c=1 docs=0,99", "WOPEN s=2 c=1 docs=0", "EDIT c=0 d=0 kind=pres", "SYNC c=0 d=0",
			"REMOVE c=1 d=0", "END"},
		{"CFG limit=0", "ATTACH c=0 d=0", "ATTACH c=0 d=1", "ATTACH c=1 d=0", "ATTACH c=1 d=1", "ATTACH c=2 d=1",
			"WOPEN s=0 c=0 docs=0,1", "WOPEN s=1 c=1 docs=1,0,1", "EDIT c=2 d=1 kind=pres", "SYNC c=2 d=1",
			"EDIT c=0 d=0 kind=both", "SYNC c=0 d=0", "WCLOSE s=0", "EDIT c=2 d=1 kind=ops", "SYNC c=2 d=1", "END"},
	}
}

func runWatch(c *Ctx) error {
	c.stats.Rule = "request sequences on a real server: SDK clients attach/edit/sync/remove documents, raw unified Watch streams (1-3 document resources, " +
		"subscriber limit 0 or 1, unknown ids) are opened and closed; non-trivial = at least one Watch request failed or held >= 2 documents, " +
		"and at least one accepted push was observed by an established stream of another client; distinct by trace hash"
	runTrace := func(id string, lines []string) {
		c.Trace(id)
		var t *wtTrace
		failed, multi := false, false
		g0 := runtime.NumGoroutine()
		for _, l := range lines {
			c.Cmd("%s", l)
			if strings.HasPrefix(l, "CFG") {
				if t != nil {
					t.finish()
				}
				t = newWtTrace(c, psKVI(strings.Fields(l), "limit"))
				c.Obs("cfg limit=%d", t.limit)
				continue
			}
			if t == nil {
				t = newWtTrace(c, 0)
			}
			before := len(t.streams)
			t.exec(l)
			if strings.HasPrefix(l, "WOPEN") {
				if len(t.streams) == before {
					failed = true
					c.Count("wopen:fail")
				} else {
					c.Count("wopen:ok")
					if strings.Contains(psKV(strings.Fields(l), "docs"), ",") {
						multi = true
						c.Count("wopen:multi")
					}
				}
			}
			c.Count("op:" + strings.Fields(l)[0])
		}
		if t != nil {
			t.finish()
			if (failed || multi) && t.seen > 0 {
				c.Nontrivial()
			}
		}
		// goroutine leak check: the trace closed everything it opened
		if wtServed > 1 {
			deadline := gotime.Now().Add(5 * gotime.Second)
			for runtime.NumGoroutine() > g0+25 && gotime.Now().Before(deadline) {
				gotime.Sleep(10 * gotime.Millisecond)
			}
			if g := runtime.NumGoroutine(); g > g0+25 {
				c.Oracle("leak: %d goroutines at the end of the trace, %d at its start", g, g0)
			}
		}
	}
	if c.Replay != nil {
		var cur []string
		id := "replay"
		flush := func() {
			if len(cur) > 0 {
				runTrace(id, cur)
			}
			cur = nil
		}
		for _, l := range c.Replay {
			if strings.HasPrefix(l, "T ") {
				flush()
				id = strings.TrimPrefix(l, "T ")
				continue
			}
			cur = append(cur, l)
		}
		flush()
		return nil
	}
	if c.Seed%1000 == 0 {
		for i, l := range wtFixed() {
			runTrace(fmt.Sprintf("watch-fixed-%d", i), l)
		}
	}
	for i := 0; i < c.N; i++ {
		runTrace(fmt.Sprintf("watch-%d-%d", c.Seed, i), wtGen(c, i))
	}
	return nil
}
