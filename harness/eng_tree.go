package main

// engine `tree`: op-fed correspondence of crdt.Tree with Model/Tree.lean + Model/TreeDoc.lean, the C19
// matrix (test/complex/tree_concurrency_test.go re-enumerated, extended by both sync orders and a third
// client seeded by a snapshot), and a random stream over the structure-preserving domain of C01/C07.
//
// Replicas are real document.Document values holding {"t": Tree}; the server is simulated (a log in
// server order, no echo, every delivery goes through the real protobuf converters at push time); an
// optional server copy is a real document.InternalDocument that replays every pushed change under
// OpSourceReplay (what BuildInternalDocForServerSeq does) and is the source of snapshots
// (converter.SnapshotToBytes -> Document.ApplyChangePack with pack.Snapshot). GC is off (no version
// vector is handed to ApplyChangePack).
//
// Every application of every operation is printed as `OP <replica> <side> ...` and replayed by the
// model on that side (the json-layer call on the clone sees NO version vector, Change.Execute on the
// root sees the change's vector, the server copy runs without reverse info: rev=0). M/MC compare
// Marshal(), X ToXML(), D a structural dump (post-order with depths: ids, type, value, removedAt,
// InsPrev/InsNext, MergedFrom/MergedAt/mergedInto, cached VisibleLength/TotalLength, whether the node
// answers for its id in NodeMapByID, attribute registers incl. tombstoned keys), P the result of FindPos,
// IP index -> pos -> path -> index. CASE/RUN tie the Lean table and the integrated model function
// `runCase` (the one the theorems are about) to the implementation.
//
// Streams (positional arguments after the flags, appended by check.py from props.d/C19.py `args`):
//   stream=matrix workers=W [slice=K]
//              exhaustive: every pair of the upstream matrix (1592) x {sync order 12, 21} x {snapshot after the 1st, 2nd
//              sync} = 6368 runs, followed by the supplementary real-merge family (678 pairs x 4, see trMergeExt: the
//              upstream matrix contains no merging pair). Worker k of W takes the runs with index = k (mod W); with
//              slice=K only the runs whose position in the worker's share is = VERIF_SEED (mod K) (default 1: everything)
//   stream=random [pool=bmp|all|mixed]
//              2-4 replicas, random schedules, text edits inside one element, whole-element insert/delete,
//              style / remove-style, with the C07 reference check; supplementary-plane characters in 1 trace of 5
//   stream=leantable
//              writes TreeMatrixTable.lean + the chunk lemma files into -out (no traces)
//
// Known findings are tagged KNOWN[<id>] only when the characterised defect's direct symptom is present in the trace
// (trSymptoms, the tombstone / mixed-content tests of indexPath) or, for the pinned divergent pairs of the
// real-merge family, by the `KNOWN <id>` line the generator writes into the trace (trXMergeKnown).
//
// Replay: the API-level lines (R, RS, U, S, SNAP, Q, KNOWN, CASE) carry every choice; OP/M/MC/X/D/P/IP/RUN lines of a
// trace file are outputs and are regenerated.

import (
	"fmt"
	"math/rand"
	"os"
	"path/filepath"
	"reflect"
	"regexp"
	"sort"
	"strconv"
	"strings"
	"unicode/utf16"
	"unsafe"

	"github.com/yorkie-team/yorkie/api/converter"
	"github.com/yorkie-team/yorkie/pkg/document"
	"github.com/yorkie-team/yorkie/pkg/document/change"
	"github.com/yorkie-team/yorkie/pkg/document/crdt"
	"github.com/yorkie-team/yorkie/pkg/document/json"
	"github.com/yorkie-team/yorkie/pkg/document/operations"
	"github.com/yorkie-team/yorkie/pkg/document/presence"
	"github.com/yorkie-team/yorkie/pkg/document/time"
	"github.com/yorkie-team/yorkie/pkg/index"
)

func init() { register("tree", runTree) }

// ---------------------------------------------------------------------------------------------
// encodings (parsed by Driver/TreeEngine.lean)

func trTk(t *time.Ticket) string {
	if t == nil {
		return "-"
	}
	return encTicket(t)
}

func trID(id *crdt.TreeNodeID) string {
	if id == nil || id.CreatedAt == nil {
		return "-"
	}
	return fmt.Sprintf("%s:%d", encTicket(id.CreatedAt), id.Offset)
}

func trPos(p *crdt.TreePos) string {
	if p == nil {
		return "-"
	}
	return trID(p.ParentID) + "/" + trID(p.LeftSiblingID)
}

func trAttrs(r *crdt.RHT) string {
	if r == nil {
		return "[]"
	}
	ns := r.Nodes()
	sort.Slice(ns, func(i, j int) bool { return ns[i].Key() < ns[j].Key() })
	var as []string
	for _, a := range ns {
		s := pct(a.Key()) + "=" + pct(a.Value()) + "@" + encTicket(a.UpdatedAt())
		if a.IsRemoved() {
			s += "!"
		}
		as = append(as, s)
	}
	return "[" + strings.Join(as, ";") + "]"
}

// trMergedInto reads the unexported runtime cache TreeNode.mergedInto (read-only).
func trMergedInto(n *crdt.TreeNode) *crdt.TreeNodeID {
	f := rfield(reflect.ValueOf(n).Elem(), "mergedInto")
	return *(**crdt.TreeNodeID)(unsafe.Pointer(f.UnsafeAddr()))
}

// trNodeShort: a node as it travels in an operation / snapshot (10 fields).
func trNodeShort(n *crdt.TreeNode, depth int) string {
	return fmt.Sprintf("%d,%s,%s,%s,%s,%s,%s,%s,%s,%s", depth, trID(n.ID()), pct(n.Type()), pct(n.Value), trTk(n.RemovedAt()),
		trID(n.InsPrevID), trID(n.InsNextID), trID(n.MergedFrom), trTk(n.MergedAt), trAttrs(n.Attrs))
}

func trSubtree(root *crdt.TreeNode) string {
	var parts []string
	index.TraverseNode(root.Index, func(node *index.Node[*crdt.TreeNode], depth int) {
		parts = append(parts, trNodeShort(node.Value, depth))
	})
	return strings.Join(parts, "|")
}

func trContents(cs []*crdt.TreeNode) string {
	if len(cs) == 0 {
		return "-"
	}
	var parts []string
	for _, c := range cs {
		parts = append(parts, trSubtree(c))
	}
	return strings.Join(parts, "/")
}

// trDump: the structural dump of a whole tree (14 fields per node).
func trDump(t *crdt.Tree) string {
	if t == nil {
		return "none"
	}
	var parts []string
	index.TraverseNode(t.Root().Index, func(node *index.Node[*crdt.TreeNode], depth int) {
		n := node.Value
		reg := "-"
		if _, holder := t.NodeMapByID.Floor(n.ID()); holder == n {
			reg = "r"
		}
		parts = append(parts, fmt.Sprintf("%d,%s,%s,%s,%s,%s,%s,%s,%s,%s,%d,%d,%s,%s", depth, trID(n.ID()), pct(n.Type()), pct(n.Value),
			trTk(n.RemovedAt()), trID(n.InsPrevID), trID(n.InsNextID), trID(n.MergedFrom), trTk(n.MergedAt), trID(trMergedInto(n)),
			node.VisibleLength, node.TotalLength, reg, trAttrs(n.Attrs)))
	})
	return strings.Join(parts, " ")
}

func trTickets(ts []*time.Ticket) string {
	if len(ts) == 0 {
		return "-"
	}
	var parts []string
	for _, t := range ts {
		parts = append(parts, encTicket(t))
	}
	return strings.Join(parts, ",")
}

func trSortedKV(m map[string]string, kvSep, sep string) string {
	keys := make([]string, 0, len(m))
	for k := range m {
		keys = append(keys, k)
	}
	sort.Strings(keys)
	parts := make([]string, 0, len(keys))
	for _, k := range keys {
		parts = append(parts, pct(k)+kvSep+pct(m[k]))
	}
	return strings.Join(parts, sep)
}

func trKeys(ks []string) string {
	parts := make([]string, 0, len(ks))
	for _, k := range ks {
		parts = append(parts, pct(k))
	}
	return strings.Join(parts, ",")
}

// trEncOpBody prints the part of an operation that is independent of where it executes.
func trEncOpBody(op operations.Operation) (string, bool) {
	switch o := op.(type) {
	case *operations.Set:
		if tr, ok := o.Value().(*crdt.Tree); ok && o.Key() == "t" {
			return fmt.Sprintf("new t=%s nodes=%s", encTicket(tr.CreatedAt()), trSubtree(tr.Root())), true
		}
		return fmt.Sprintf("unsupported kind=set-%T", o.Value()), false
	case *operations.TreeEdit:
		return fmt.Sprintf("edit p=%s from=%s to=%s contents=%s sl=%d t=%s st=%s spans=%d",
			encTicket(o.ParentCreatedAt()), trPos(o.FromPos()), trPos(o.ToPos()), trContents(o.Contents()), o.SplitLevel(),
			encTicket(o.ExecutedAt()), trTickets(o.SplitTickets()), len(o.RestoreSpans())+len(o.RetombstoneSpans())), true
	case *operations.TreeStyle:
		return fmt.Sprintf("style p=%s from=%s to=%s attrs=%s rem=%s t=%s",
			encTicket(o.ParentCreatedAt()), trPos(o.FromPos()), trPos(o.ToPos()), trSortedKV(o.Attributes(), ":", ","),
			trKeys(o.AttributesToRemove()), encTicket(o.ExecutedAt())), true
	default:
		return fmt.Sprintf("unsupported kind=%T", op), false
	}
}

// ---------------------------------------------------------------------------------------------
// json trees and calls in command lines

// trEncJ: pre-order items depth~type~value~k=v;k=v joined by '|'
func trEncJ(n *json.TreeNode) string {
	if n == nil {
		return "-"
	}
	var parts []string
	var walk func(x json.TreeNode, d int)
	walk = func(x json.TreeNode, d int) {
		parts = append(parts, fmt.Sprintf("%d~%s~%s~%s", d, pct(x.Type), pct(x.Value), trSortedKV(x.Attributes, "=", ";")))
		for _, c := range x.Children {
			walk(c, d+1)
		}
	}
	walk(*n, 0)
	return strings.Join(parts, "|")
}

func trDecJ(s string) (*json.TreeNode, error) {
	if s == "-" || s == "" {
		return nil, nil
	}
	type item struct {
		d int
		n *json.TreeNode
	}
	var stack []item
	var root *json.TreeNode
	var order []item
	for _, it := range strings.Split(s, "|") {
		f := strings.Split(it, "~")
		if len(f) != 4 {
			return nil, fmt.Errorf("bad json item %q", it)
		}
		d, err := strconv.Atoi(f[0])
		if err != nil {
			return nil, err
		}
		n := &json.TreeNode{Type: unpct(f[1]), Value: unpct(f[2])}
		if f[3] != "" {
			n.Attributes = map[string]string{}
			for _, kv := range strings.Split(f[3], ";") {
				p := strings.SplitN(kv, "=", 2)
				if len(p) == 2 {
					n.Attributes[unpct(p[0])] = unpct(p[1])
				}
			}
		}
		order = append(order, item{d, n})
	}
	// children are values, so attach bottom-up: process in reverse pre-order
	kids := map[*json.TreeNode][]*json.TreeNode{}
	for _, it := range order {
		for len(stack) > 0 && stack[len(stack)-1].d >= it.d {
			stack = stack[:len(stack)-1]
		}
		if len(stack) > 0 {
			p := stack[len(stack)-1].n
			kids[p] = append(kids[p], it.n)
		} else if root == nil {
			root = it.n
		}
		stack = append(stack, it)
	}
	var build func(n *json.TreeNode) json.TreeNode
	build = func(n *json.TreeNode) json.TreeNode {
		out := json.TreeNode{Type: n.Type, Value: n.Value, Attributes: n.Attributes}
		for _, k := range kids[n] {
			out.Children = append(out.Children, build(k))
		}
		return out
	}
	if root == nil {
		return nil, fmt.Errorf("empty json tree")
	}
	r := build(root)
	return &r, nil
}

// trCall is one json-layer call inside one Update.
type trCall struct {
	kind     string // new, edit, editp, style, rmstyle, nop
	from, to int
	fp, tp   []int // editp
	sl       int
	contents []*json.TreeNode
	attrs    map[string]string
	keys     []string
}

func trEncPath(p []int) string {
	var s []string
	for _, x := range p {
		s = append(s, strconv.Itoa(x))
	}
	return strings.Join(s, ".")
}

func trDecPath(s string) []int {
	var p []int
	for _, x := range strings.Split(s, ".") {
		if v, err := strconv.Atoi(x); err == nil {
			p = append(p, v)
		}
	}
	return p
}

func trEncCall(cl trCall) string {
	switch cl.kind {
	case "new":
		return "new:" + trEncJ(cl.contents[0])
	case "edit":
		var cs []string
		for _, c := range cl.contents {
			cs = append(cs, trEncJ(c))
		}
		if len(cs) == 0 {
			cs = []string{"-"}
		}
		return fmt.Sprintf("edit:%d:%d:%d:%s", cl.from, cl.to, cl.sl, strings.Join(cs, "/"))
	case "editp":
		var cs []string
		for _, c := range cl.contents {
			cs = append(cs, trEncJ(c))
		}
		if len(cs) == 0 {
			cs = []string{"-"}
		}
		return fmt.Sprintf("editp:%s:%s:%d:%s", trEncPath(cl.fp), trEncPath(cl.tp), cl.sl, strings.Join(cs, "/"))
	case "style":
		return fmt.Sprintf("style:%d:%d:%s", cl.from, cl.to, trSortedKV(cl.attrs, "=", ";"))
	case "rmstyle":
		return fmt.Sprintf("rmstyle:%d:%d:%s", cl.from, cl.to, trKeys(cl.keys))
	default:
		return "nop"
	}
}

func trDecCall(s string) (trCall, error) {
	f := strings.Split(s, ":")
	bad := fmt.Errorf("bad call %q", s)
	decCs := func(x string) ([]*json.TreeNode, error) {
		if x == "-" {
			return nil, nil
		}
		var cs []*json.TreeNode
		for _, one := range strings.Split(x, "/") {
			n, err := trDecJ(one)
			if err != nil {
				return nil, err
			}
			cs = append(cs, n)
		}
		return cs, nil
	}
	switch f[0] {
	case "nop":
		return trCall{kind: "nop"}, nil
	case "new":
		if len(f) != 2 {
			return trCall{}, bad
		}
		n, err := trDecJ(f[1])
		if err != nil || n == nil {
			return trCall{}, bad
		}
		return trCall{kind: "new", contents: []*json.TreeNode{n}}, nil
	case "edit":
		if len(f) != 5 {
			return trCall{}, bad
		}
		a, e1 := strconv.Atoi(f[1])
		b, e2 := strconv.Atoi(f[2])
		sl, e3 := strconv.Atoi(f[3])
		cs, e4 := decCs(f[4])
		if e1 != nil || e2 != nil || e3 != nil || e4 != nil {
			return trCall{}, bad
		}
		return trCall{kind: "edit", from: a, to: b, sl: sl, contents: cs}, nil
	case "editp":
		if len(f) != 5 {
			return trCall{}, bad
		}
		sl, e3 := strconv.Atoi(f[3])
		cs, e4 := decCs(f[4])
		if e3 != nil || e4 != nil {
			return trCall{}, bad
		}
		return trCall{kind: "editp", fp: trDecPath(f[1]), tp: trDecPath(f[2]), sl: sl, contents: cs}, nil
	case "style":
		if len(f) != 4 {
			return trCall{}, bad
		}
		a, e1 := strconv.Atoi(f[1])
		b, e2 := strconv.Atoi(f[2])
		if e1 != nil || e2 != nil {
			return trCall{}, bad
		}
		m := map[string]string{}
		if f[3] != "" {
			for _, kv := range strings.Split(f[3], ";") {
				p := strings.SplitN(kv, "=", 2)
				if len(p) == 2 {
					m[unpct(p[0])] = unpct(p[1])
				}
			}
		}
		return trCall{kind: "style", from: a, to: b, attrs: m}, nil
	case "rmstyle":
		if len(f) != 4 {
			return trCall{}, bad
		}
		a, e1 := strconv.Atoi(f[1])
		b, e2 := strconv.Atoi(f[2])
		if e1 != nil || e2 != nil {
			return trCall{}, bad
		}
		var ks []string
		if f[3] != "" {
			for _, k := range strings.Split(f[3], ",") {
				ks = append(ks, unpct(k))
			}
		}
		return trCall{kind: "rmstyle", from: a, to: b, keys: ks}, nil
	}
	return trCall{}, bad
}

// ---------------------------------------------------------------------------------------------
// world

type trReplica struct {
	name    string
	doc     *document.Document         // editor / passive client
	srv     *document.InternalDocument // server copy (replay)
	actor   time.ActorID
	cpS     int64
	pushedC uint32
	failed  bool // an operation failed here: the Go tree is partially mutated, stop comparing
}

type trWorld struct {
	c    *Ctx
	reps map[string]*trReplica
	ord  []*trReplica
	log  []*change.Change
	dead bool
	// per-replica summary of the changes it produced (RUN line)
	produced map[string][]string
	// soft: oracle failures are counted and listed in the evidence instead of being reported (exploration beyond
	// the property's fixed quantifier; the correspondence with the model is enforced as everywhere)
	soft     bool
	softHits []string
	// knownTag, when set, replaces the symptom tags: the run is one of the pinned, named divergent pairs
	knownTag string
}

func newTrWorld(c *Ctx) *trWorld {
	return &trWorld{c: c, reps: map[string]*trReplica{}, produced: map[string][]string{}}
}

func trRootTree(rep *trReplica) *crdt.Tree {
	var obj *crdt.Object
	if rep.srv != nil {
		obj = rep.srv.RootObject()
	} else {
		obj = rep.doc.RootObject()
	}
	if e := obj.Get("t"); e != nil {
		if t, ok := e.(*crdt.Tree); ok {
			return t
		}
	}
	return nil
}

func trCloneTree(rep *trReplica) *crdt.Tree {
	if rep.doc == nil {
		return nil
	}
	if t := rep.doc.Root().GetTree("t"); t != nil {
		return t.Tree
	}
	return nil
}

func trXML(t *crdt.Tree) string {
	if t == nil {
		return "none"
	}
	return pct(t.ToXML())
}

func (w *trWorld) observe(rep *trReplica) {
	c := w.c
	if rep.failed {
		return
	}
	if rep.srv != nil {
		c.Cmd("M %s", rep.name)
		c.Obs("%s", rep.srv.Marshal())
		rt := trRootTree(rep)
		c.Cmd("X %s root", rep.name)
		c.Obs("%s", trXML(rt))
		c.Cmd("D %s root", rep.name)
		c.Obs("%s", trDump(rt))
		return
	}
	root := rep.doc.Marshal()
	clone := rep.doc.Root().Marshal()
	c.Cmd("M %s", rep.name)
	c.Obs("%s", root)
	c.Cmd("MC %s", rep.name)
	c.Obs("%s", clone)
	if clone != root {
		w.oracle("clone != root on %s: clone=%s root=%s", rep.name, clone, root)
	}
	rt, ct := trRootTree(rep), trCloneTree(rep)
	xr, xc := trXML(rt), trXML(ct)
	c.Cmd("X %s root", rep.name)
	c.Obs("%s", xr)
	c.Cmd("X %s clone", rep.name)
	c.Obs("%s", xc)
	if xr != xc {
		w.oracle("clone XML != root XML on %s: clone=%s root=%s", rep.name, xc, xr)
	}
	dr, dc := trDump(rt), trDump(ct)
	c.Cmd("D %s root", rep.name)
	c.Obs("%s", dr)
	c.Cmd("D %s clone", rep.name)
	c.Obs("%s", dc)
	if dr != dc {
		c.Count("observe:clone-root-structure-differs")
	}
}

// emitChange prints the OP lines of one change on an editor/passive replica.
func (w *trWorld) emitChange(rep *trReplica, cn *change.Change, localJSON bool, ok bool) {
	verdict := "ok"
	if !ok {
		verdict = "err"
	}
	vv := ShowVV(cn.ID().VersionVector())
	for _, op := range cn.Operations() {
		body, sup := trEncOpBody(op)
		cvv := vv
		if localJSON {
			cvv = "-"
		}
		v := verdict
		if !sup {
			v = "unsupported"
		} else if te, isEdit := op.(*operations.TreeEdit); isEdit && len(te.RestoreSpans())+len(te.RetombstoneSpans()) > 0 {
			v = "unsupported"
		}
		w.c.Cmd("OP %s clone %s vv=%s rev=1", rep.name, body, cvv)
		w.c.Obs("%s", v)
		w.c.Cmd("OP %s root %s vv=%s rev=1", rep.name, body, vv)
		w.c.Obs("%s", v)
		switch o := op.(type) {
		case *operations.TreeEdit:
			w.c.Count("op:tree-edit")
			if o.SplitLevel() > 0 {
				w.c.Count("op:tree-edit-split")
			}
		case *operations.TreeStyle:
			w.c.Count("op:tree-style")
		}
	}
}

func (w *trWorld) summary(cn *change.Change) string {
	var parts []string
	for _, op := range cn.Operations() {
		body, _ := trEncOpBody(op)
		// drop the p= token and spans: the RUN line carries the change-level view
		var keep []string
		for _, tok := range strings.Fields(body) {
			if strings.HasPrefix(tok, "p=") || strings.HasPrefix(tok, "spans=") {
				continue
			}
			keep = append(keep, tok)
		}
		parts = append(parts, strings.Join(keep, " "))
	}
	return strings.Join(parts, " ; ") + " vv=" + ShowVV(cn.ID().VersionVector())
}

// update runs one document.Update with one json-layer call.
func (w *trWorld) update(rep *trReplica, cl trCall) {
	c := w.c
	if rep.doc == nil || rep.failed {
		return
	}
	before := len(rep.doc.CreateChangePack().Changes)
	var refBefore string
	var refOK bool
	var panicked any
	err := rep.doc.Update(func(root *json.Object, p *presence.Presence) error {
		if cl.kind == "new" {
			root.SetNewTree("t", *cl.contents[0])
			c.Count("api:new")
			return nil
		}
		if cl.kind == "nop" {
			c.Count("api:nop")
			return nil
		}
		t := root.GetTree("t")
		if t == nil {
			c.Count("api:skipped-no-tree")
			return nil
		}
		n := t.Len()
		switch cl.kind {
		case "edit", "style", "rmstyle":
			if cl.from < 0 || cl.from > cl.to || cl.to > n {
				c.Count("api:skipped-out-of-range")
				return nil
			}
			// FindPos (index -> position) and index -> path -> index on the clone
			fp, e1 := t.Tree.FindPos(cl.from)
			tp, e2 := t.Tree.FindPos(cl.to)
			c.Cmd("P %s %d %d", rep.name, cl.from, cl.to)
			if e1 != nil || e2 != nil {
				c.Obs("from=err to=err")
			} else {
				c.Obs("from=%s to=%s", trPos(fp), trPos(tp))
			}
			w.indexPath(rep, t.Tree, cl.from)
			if cl.to != cl.from {
				w.indexPath(rep, t.Tree, cl.to)
			}
		}
		refBefore = t.ToXML()
		panicked = safely(func() {
			switch cl.kind {
			case "edit":
				switch len(cl.contents) {
				case 0:
					t.Edit(cl.from, cl.to, nil, cl.sl)
				case 1:
					t.Edit(cl.from, cl.to, cl.contents[0], cl.sl)
				default:
					t.EditBulk(cl.from, cl.to, cl.contents, cl.sl)
				}
				c.Count("api:edit")
			case "editp":
				switch len(cl.contents) {
				case 0:
					t.EditByPath(cl.fp, cl.tp, nil, cl.sl)
				case 1:
					t.EditByPath(cl.fp, cl.tp, cl.contents[0], cl.sl)
				default:
					t.EditBulkByPath(cl.fp, cl.tp, cl.contents, cl.sl)
				}
				c.Count("api:edit-by-path")
			case "style":
				t.Style(cl.from, cl.to, cl.attrs)
				c.Count("api:style")
			case "rmstyle":
				t.RemoveStyle(cl.from, cl.to, cl.keys)
				c.Count("api:remove-style")
			}
		})
		if panicked != nil {
			return fmt.Errorf("json call panicked: %v", panicked)
		}
		// C07 reference: the visible XML after a local call equals a plain reference edit
		if exp, ok := trReference(refBefore, cl); ok {
			refOK = true
			if got := t.ToXML(); got != exp {
				// (an index right after an element and right before a text used to be tagged c19-findpos-after-element here;
				// repaired by hooks/fix-c19-findpos-after-element.patch, 74247a0f: a recurrence is a plain violation)
				tag := w.trSymptoms()
				if trArg("orc", "") != "c01" { // the single-replica reference check is C07's statement, not C01's
					c.Oracle("%sC07 %s on %s: before=%s after=%s expected=%s", tag, trEncCall(cl), rep.name, refBefore, got, exp)
				}
			}
		}
		return nil
	})
	if refOK {
		c.Count("api:reference-checked")
	}
	if err != nil {
		c.Oracle("%supdate failed on %s (%s): %v", w.trSymptoms(), rep.name, trEncCall(cl), err)
		rep.failed = true
		return
	}
	chs := rep.doc.CreateChangePack().Changes
	for _, cn := range chs[before:] {
		w.emitChange(rep, cn, true, true)
		if cl.kind != "new" {
			w.produced[rep.name] = append(w.produced[rep.name], w.summary(cn))
		}
	}
	w.observe(rep)
}

// indexPath: index -> index.TreePos -> path -> index on the given tree (C07 conversions).
func (w *trWorld) indexPath(rep *trReplica, t *crdt.Tree, idx int) {
	c := w.c
	c.Cmd("IP %s %d", rep.name, idx)
	out := "err"
	if rec := safely(func() {
		tp, err := t.IndexTree.FindTreePos(idx)
		if err != nil {
			return
		}
		path, err := t.IndexTree.TreePosToPath(tp)
		if err != nil {
			return
		}
		back, err := t.IndexTree.PathToIndex(path)
		if err != nil {
			return
		}
		out = fmt.Sprintf("path=%s back=%d", trEncPath(path), back)
		if back != idx {
			tag := ""
			if tp.Node.IsText() && tp.Node.Parent != nil {
				// (a tombstoned left sibling used to be tagged c19-path-tombstone here: TreePosToPath took the raw child offset
				// into the tombstone-filtered child list; repaired, hooks/fix-c19-path-tombstone.patch, c7104fed)
				// upstream TODO in TreePosToPath/PathToTreePos: a parent holding text AND elements: the path's last
				// component is a character offset one way and a child offset the other way
				if !tp.Node.Parent.HasTextChild() {
					tag = "KNOWN[c19-path-mixed-content] "
				}
			}
			if tag == "" {
				tag = w.trSymptoms()
			}
			if trArg("orc", "") != "c01" {
				c.Oracle("%sC07 index<->path on %s: index %d -> path %s -> index %d", tag, rep.name, idx, trEncPath(path), back)
			}
		}
	}); rec != nil {
		out = "err"
	}
	c.Obs("%s", out)
}

func (w *trWorld) sync(rep *trReplica) {
	c := w.c
	if rep.doc == nil || rep.failed {
		return
	}
	pack := rep.doc.CreateChangePack()
	var fresh []*change.Change
	for _, cn := range pack.Changes {
		if cn.ClientSeq() > rep.pushedC {
			fresh = append(fresh, cn)
		}
	}
	pushed, err := roundTrip(fresh)
	if err != nil {
		c.Oracle("converter round trip failed: %v", err)
		return
	}
	for _, cn := range pushed {
		w.log = append(w.log, cn)
		rep.pushedC = cn.ClientSeq()
	}
	// the server copies replay what was pushed (OpSourceReplay), each from its own decoded copy
	for _, s := range w.ord {
		if s.srv == nil || len(fresh) == 0 || s.failed {
			continue
		}
		mine, err := roundTrip(fresh)
		if err != nil {
			c.Oracle("converter round trip failed: %v", err)
			return
		}
		for _, cn := range mine {
			var aerr error
			if rec := safely(func() { _, _, aerr = s.srv.ApplyChangesForReplay(cn) }); rec != nil {
				aerr = fmt.Errorf("panic: %v", rec)
			}
			verdict := "ok"
			if aerr != nil {
				verdict = "err"
				w.oracle("server replay failed on %s: %v", s.name, aerr)
				s.failed = true
			}
			vv := ShowVV(cn.ID().VersionVector())
			for _, op := range cn.Operations() {
				body, sup := trEncOpBody(op)
				v := verdict
				if !sup {
					v = "unsupported"
				}
				c.Cmd("OP %s root %s vv=%s rev=0", s.name, body, vv)
				c.Obs("%s", v)
			}
		}
		w.observe(s)
	}
	var pulled []*change.Change
	for _, cn := range w.log[rep.cpS:] {
		if cn.ID().ActorID() == rep.actor {
			continue
		}
		pulled = append(pulled, cn)
	}
	wire, err := roundTrip(pulled)
	if err != nil {
		c.Oracle("converter round trip failed: %v", err)
		return
	}
	head := int64(len(w.log))
	// one pack per change (Document.applyChanges loops over the changes of a pack in the same way): a failing
	// change is then known, the ones before it were applied, the ones after it are not delivered
	applied := 0
	for i, cn := range wire {
		resp := change.NewPack(rep.doc.Key(), change.NewCheckpoint(rep.cpS+int64(i)+1, rep.pushedC), []*change.Change{cn}, nil, nil)
		var aerr error
		if rec := safely(func() { aerr = rep.doc.ApplyChangePack(resp) }); rec != nil {
			aerr = fmt.Errorf("panic: %v", rec)
		}
		w.emitChange(rep, cn, false, aerr == nil)
		if aerr != nil {
			w.oracle("ApplyChangePack failed on %s: %v", rep.name, aerr)
			rep.failed = true
			break
		}
		applied++
	}
	if len(wire) == 0 {
		_ = rep.doc.ApplyChangePack(change.NewPack(rep.doc.Key(), change.NewCheckpoint(head, rep.pushedC), nil, nil, nil))
	}
	rep.cpS = head
	if applied > 0 {
		c.Count("sync:with-remote-changes")
	}
	w.observe(rep)
}

// snapshot seeds dst (a document) from src (a server copy) through the snapshot codec.
func (w *trWorld) snapshot(src, dst *trReplica) {
	c := w.c
	if src.srv == nil || dst.doc == nil || src.failed || dst.failed {
		c.Obs("skipped")
		return
	}
	snap, err := converter.SnapshotToBytes(src.srv.RootObject(), src.srv.AllPresences())
	if err != nil {
		c.Oracle("SnapshotToBytes failed: %v", err)
		c.Obs("err")
		dst.failed = true
		return
	}
	head := int64(len(w.log))
	pack := change.NewPack(dst.doc.Key(), change.NewCheckpoint(head, dst.pushedC), nil, src.srv.VersionVector().DeepCopy(), snap)
	var aerr error
	if rec := safely(func() { aerr = dst.doc.ApplyChangePack(pack) }); rec != nil {
		aerr = fmt.Errorf("panic: %v", rec)
	}
	if aerr != nil {
		c.Oracle("snapshot ApplyChangePack failed on %s: %v", dst.name, aerr)
		c.Obs("err")
		dst.failed = true
		return
	}
	dst.cpS = head
	c.Obs("ok")
	c.Count("snapshot:taken")
	w.observe(dst)
}

func (w *trWorld) converged() {
	var docs []*trReplica
	for _, r := range w.ord {
		if !r.failed {
			docs = append(docs, r)
		}
	}
	if len(docs) == 0 {
		return
	}
	mar := func(r *trReplica) string {
		if r.srv != nil {
			return r.srv.Marshal()
		}
		return r.doc.Marshal()
	}
	// Tree.Len() (the root's cached VisibleLength) is part of what the user sees: it must be the size of the XML
	for _, rep := range docs {
		if t := trRootTree(rep); t != nil {
			if toks, ok := trTokens(t.ToXML()); ok && t.Root().Index.VisibleLength != len(toks)-2 {
				w.oracle("Len() = %d on %s but its XML has size %d: %s", t.Root().Index.VisibleLength, rep.name, len(toks)-2, t.ToXML())
			}
		}
	}
	first := mar(docs[0])
	fx := trXML(trRootTree(docs[0]))
	fd := trDump(trRootTree(docs[0]))
	for _, rep := range docs[1:] {
		if m := mar(rep); m != first {
			w.oracle("replicas diverge after quiescence: %s=%s vs %s=%s", docs[0].name, first, rep.name, m)
		} else if x := trXML(trRootTree(rep)); x != fx {
			w.oracle("replicas diverge (XML) after quiescence: %s=%s vs %s=%s", docs[0].name, fx, rep.name, x)
		} else if d := trDump(trRootTree(rep)); d != fd {
			w.c.Count("quiescent:structure-differs")
		}
	}
}

func (w *trWorld) exec(line string) (err error) {
	f := strings.Fields(line)
	if len(f) == 0 || w.dead {
		return nil
	}
	defer func() {
		if r := recover(); r != nil {
			msg := fmt.Sprint(r)
			if len(msg) > 300 {
				msg = msg[:300]
			}
			w.c.Oracle("panic while executing %q: %s", line, msg)
			w.dead = true
		}
	}()
	rep := func(i int) (*trReplica, error) {
		if len(f) <= i || w.reps[f[i]] == nil {
			return nil, fmt.Errorf("unknown replica in %q", line)
		}
		return w.reps[f[i]], nil
	}
	switch f[0] {
	case "R":
		if len(f) != 3 {
			return fmt.Errorf("bad line %q", line)
		}
		actor := NatActor(f[2])
		d := document.New("doc-tree")
		d.SetActor(actor)
		d.SetStatus(document.StatusAttached)
		r := &trReplica{name: f[1], doc: d, actor: actor}
		w.reps[f[1]] = r
		w.ord = append(w.ord, r)
		w.c.Obs("ok")
	case "RS":
		if len(f) != 2 {
			return fmt.Errorf("bad line %q", line)
		}
		r := &trReplica{name: f[1], srv: document.NewInternalDocument("doc-tree")}
		w.reps[f[1]] = r
		w.ord = append(w.ord, r)
		w.c.Obs("ok")
	case "U":
		r, err := rep(1)
		if err != nil {
			return err
		}
		if len(f) != 3 {
			return fmt.Errorf("bad line %q", line)
		}
		cl, err := trDecCall(f[2])
		if err != nil {
			return err
		}
		w.update(r, cl)
	case "S":
		r, err := rep(1)
		if err != nil {
			return err
		}
		if r.doc != nil && r.doc.HasLocalChanges() && int(r.cpS) < len(w.log) {
			w.c.Nontrivial()
		}
		w.sync(r)
	case "SNAP":
		src, err := rep(1)
		if err != nil {
			return err
		}
		dst, err := rep(2)
		if err != nil {
			return err
		}
		w.snapshot(src, dst)
	case "Q":
		w.converged()
	case "KNOWN":
		if len(f) == 2 {
			w.knownTag = "KNOWN[" + f[1] + "] "
		}
	}
	return nil
}

// ---------------------------------------------------------------------------------------------
// known findings: each tag is attached only when the direct symptom of the characterised defect is present

// trSymptoms inspects the trees of every replica.
//
//	c19-surrogate-cut         a text node holding U+FFFD (no generated content contains it): an edit boundary between the two
//	                          UTF-16 units of one supplementary-plane character made SplitText cut the pair, and both halves
//	                          were re-decoded to U+FFFD for good (the tree counterpart of TextValue.Split)
//
// (c19-surrogate - SplitText stored a RUNE count as the left half's cached length - is repaired,
// hooks/fix-c19-splittext-utf16-length.patch, 0e18e1d8: a text node whose cached length differs from its UTF-16 length, or an Update
// failing with `split offset out of range`, is a plain violation now)
//
// (c19-stale-visible-length - a root whose cached VisibleLength differs from the size of its own visible XML after SplitElement of
// a tombstoned element - is repaired, hooks/fix-c19-split-tombstoned-visible-length.patch, 7d079773: a recurrence is a plain violation)
func (w *trWorld) trSymptoms() string {
	surrogate := false
	scan := func(t *crdt.Tree) {
		if t == nil {
			return
		}
		index.TraverseNode(t.Root().Index, func(node *index.Node[*crdt.TreeNode], _ int) {
			if node.IsText() && strings.ContainsRune(node.Value.Value, 0xFFFD) {
				surrogate = true
			}
		})
	}
	for _, r := range w.ord {
		_ = safely(func() {
			scan(trRootTree(r))
			if r.doc != nil && !r.failed {
				scan(trCloneTree(r))
			}
		})
	}
	if surrogate {
		return "KNOWN[c19-surrogate-cut] "
	}
	return ""
}

// oracle reports a failure of the property's oracle, tagged when a listed defect's symptom is present.
func (w *trWorld) oracle(format string, a ...any) {
	if w.soft {
		w.softHits = append(w.softHits, w.trSymptoms()+fmt.Sprintf(format, a...))
		return
	}
	if w.knownTag != "" {
		w.c.Oracle("%s%s", w.knownTag, fmt.Sprintf(format, a...))
		return
	}
	w.c.Oracle("%s%s", w.trSymptoms(), fmt.Sprintf(format, a...))
}

func trHasSupplementary(s string) bool {
	for _, r := range s {
		if r > 0xFFFF {
			return true
		}
	}
	return false
}

// ---------------------------------------------------------------------------------------------
// C07 reference: a plain XML-token edit for structure-preserving local calls

// trTokens splits the XML of a tree whose text contains no '<' into index tokens: one per tag, one
// per UTF-16 code unit of text (a supplementary character is two tokens of the same rune).
func trTokens(xml string) ([]string, bool) {
	var toks []string
	for i := 0; i < len(xml); {
		if xml[i] == '<' {
			j := strings.IndexByte(xml[i:], '>')
			if j < 0 {
				return nil, false
			}
			toks = append(toks, xml[i:i+j+1])
			i += j + 1
			continue
		}
		j := strings.IndexByte(xml[i:], '<')
		if j < 0 {
			return nil, false
		}
		for k, r := range xml[i : i+j] {
			if r > 0xFFFF {
				// the two halves of one pair carry the pair's byte position, so halves of different pairs never join
				id := strconv.Itoa(i+k) + ":" + string(r)
				toks = append(toks, "\x00hi"+id, "\x00lo"+id)
			} else {
				toks = append(toks, string(r))
			}
		}
		i += j
	}
	return toks, true
}

func trJoinTokens(toks []string) (string, bool) {
	var sb strings.Builder
	for i := 0; i < len(toks); i++ {
		t := toks[i]
		if strings.HasPrefix(t, "\x00hi") {
			if i+1 >= len(toks) || toks[i+1] != "\x00lo"+t[3:] {
				return "", false // half a surrogate pair survives: out of the reference's domain
			}
			sb.WriteString(t[strings.IndexByte(t, ':')+1:])
			i++
			continue
		}
		if strings.HasPrefix(t, "\x00lo") {
			return "", false
		}
		sb.WriteString(t)
	}
	return sb.String(), true
}

func trJXML(n json.TreeNode) string {
	if n.Type == index.TextNodeType {
		return n.Value
	}
	keys := make([]string, 0, len(n.Attributes))
	for k := range n.Attributes {
		keys = append(keys, k)
	}
	sort.Strings(keys)
	var sb strings.Builder
	sb.WriteString("<" + n.Type)
	for _, k := range keys {
		sb.WriteString(fmt.Sprintf(` %s="%s"`, k, crdt.EscapeString(n.Attributes[k])))
	}
	sb.WriteString(">")
	for _, c := range n.Children {
		sb.WriteString(trJXML(c))
	}
	sb.WriteString("</" + n.Type + ">")
	return sb.String()
}

// trReference computes the expected XML of a local index-based Edit whose removed range is balanced
// (structure preserving): tokens [from+1, to+1) of the document (token 0 is the root's open tag) are
// replaced by the content. Returns ok=false outside its domain.
func trReference(before string, cl trCall) (string, bool) {
	if cl.kind != "edit" || cl.sl != 0 {
		return "", false
	}
	toks, ok := trTokens(before)
	if !ok || cl.to+1 >= len(toks) {
		return "", false
	}
	depth := 0
	for _, t := range toks[cl.from+1 : cl.to+1] {
		if strings.HasPrefix(t, "</") {
			depth--
			if depth < 0 {
				return "", false
			}
		} else if strings.HasPrefix(t, "<") {
			depth++
		}
	}
	if depth != 0 {
		return "", false
	}
	var ins []string
	for _, cnt := range cl.contents {
		if cnt == nil {
			continue
		}
		it, ok := trTokens("<x>" + trJXML(*cnt) + "</x>")
		if !ok || len(it) < 2 {
			return "", false
		}
		ins = append(ins, it[1:len(it)-1]...)
	}
	// text may only be inserted next to text or inside an element that holds text only where the tree allows it:
	// the reference does not judge validity, the generator only produces valid placements
	out := append(append(append([]string{}, toks[:cl.from+1]...), ins...), toks[cl.to+1:]...)
	return trJoinTokens(out)
}

// ---------------------------------------------------------------------------------------------
// the matrix of test/complex/tree_concurrency_test.go

const (
	trRangeFront = iota + 1
	trRangeMiddle
	trRangeBack
	trRangeAll
	trRangeOneQuarter
	trRangeThreeQuarter
)

type trRange3 struct{ from, mid, to int }
type trTwoRanges struct {
	r    [2]trRange3
	desc string
}

func trMk2(f1, m1, t1, f2, m2, t2 int, desc string) trTwoRanges {
	return trTwoRanges{[2]trRange3{{f1, m1, t1}, {f2, m2, t2}}, desc}
}

// getRange of the upstream test
func trGetRange(rs trTwoRanges, sel, user int) (int, int) {
	iv := rs.r[user]
	switch sel {
	case trRangeFront:
		return iv.from, iv.from
	case trRangeMiddle:
		return iv.mid, iv.mid
	case trRangeBack:
		return iv.to, iv.to
	case trRangeAll:
		return iv.from, iv.to
	case trRangeOneQuarter:
		p := (iv.from + iv.mid + 1) / 2
		return p, p
	case trRangeThreeQuarter:
		p := (iv.mid + iv.to) / 2
		return p, p
	}
	return -1, -1
}

// parseSimpleXML of the upstream test, verbatim semantics: one entry per BYTE index of the string (the
// inner i++ does not move the range loop variable), entry i being the whole tag when s[i] == '<'.
func trParseSimpleXML(s string) []string {
	var res []string
	for i := range len(s) {
		current := ""
		if s[i] == '<' {
			for i < len(s) && s[i] != '>' {
				current += string(s[i])
				i++
			}
			current += string(s[i])
		} else {
			current += string(s[i])
		}
		res = append(res, current)
	}
	return res
}

// getMergeRange of the upstream test
func trGetMergeRange(xml string, from, to int) (int, int) {
	content := trParseSimpleXML(xml)
	st, ed := -1, -1
	for i := from + 1; i <= to; i++ {
		if st == -1 && len(content[i]) >= 2 && content[i][0] == '<' && content[i][1] == '/' {
			st = i - 1
		}
		if len(content[i]) >= 2 && content[i][0] == '<' && content[i][1] != '/' {
			ed = i
		}
	}
	return st, ed
}

type trOpDef struct {
	kind    string // edit, merge, split, style, rmstyle
	sel     int
	content *json.TreeNode
	sl      int
	key     string
	val     string
	desc    string
}

type trFamily struct {
	name   string
	init   json.TreeNode
	xml    string
	ranges []trTwoRanges
	ops1   []trOpDef
	ops2   []trOpDef
}

func trText(v string) json.TreeNode { return json.TreeNode{Type: "text", Value: v} }
func trP(children ...json.TreeNode) json.TreeNode {
	return json.TreeNode{Type: "p", Children: children}
}
func trPI(children ...json.TreeNode) json.TreeNode {
	return json.TreeNode{Type: "p", Children: children, Attributes: map[string]string{"italic": "true"}}
}
func trPR(children ...json.TreeNode) json.TreeNode {
	return json.TreeNode{Type: "p", Children: children, Attributes: map[string]string{"color": "red"}}
}

func trFamilies() []trFamily {
	e := func(sel int, kind string, content *json.TreeNode, sl int, desc string) trOpDef {
		return trOpDef{kind: kind, sel: sel, content: content, sl: sl, desc: desc}
	}
	st := func(kind, key, val, desc string) trOpDef {
		return trOpDef{kind: kind, sel: trRangeAll, key: key, val: val, desc: desc}
	}
	var fams []trFamily

	// TestTreeConcurrencyEditEdit
	{
		editOps := func(text, elem *json.TreeNode) []trOpDef {
			return []trOpDef{
				e(trRangeFront, "edit", text, 0, "insertTextFront"),
				e(trRangeMiddle, "edit", text, 0, "insertTextMiddle"),
				e(trRangeBack, "edit", text, 0, "insertTextBack"),
				e(trRangeAll, "edit", text, 0, "replaceText"),
				e(trRangeFront, "edit", elem, 0, "insertElementFront"),
				e(trRangeMiddle, "edit", elem, 0, "insertElementMiddle"),
				e(trRangeBack, "edit", elem, 0, "insertElementBack"),
				e(trRangeAll, "edit", elem, 0, "replaceElement"),
				e(trRangeAll, "edit", nil, 0, "delete"),
				e(trRangeAll, "merge", nil, 0, "merge"),
			}
		}
		t1, t2 := trText("A"), trText("B")
		e1, e2 := json.TreeNode{Type: "b", Children: []json.TreeNode{}}, json.TreeNode{Type: "i", Children: []json.TreeNode{}}
		fams = append(fams, trFamily{
			name: "edit-edit",
			init: json.TreeNode{Type: "root", Children: []json.TreeNode{trP(trText("abc")), trP(trText("def")), trP(trText("ghi"))}},
			xml:  `<root><p>abc</p><p>def</p><p>ghi</p></root>`,
			ranges: []trTwoRanges{
				trMk2(0, 5, 10, 5, 10, 15, "intersect-element"),
				trMk2(1, 2, 3, 2, 3, 4, "intersect-text"),
				trMk2(0, 5, 15, 5, 5, 10, "contain-element"),
				trMk2(1, 2, 4, 2, 2, 3, "contain-text"),
				trMk2(0, 5, 15, 6, 7, 9, "contain-mixed-type"),
				trMk2(0, 5, 5, 5, 5, 10, "side-by-side-element"),
				trMk2(1, 1, 2, 2, 3, 4, "side-by-side-text"),
				trMk2(0, 5, 10, 0, 5, 10, "equal-element"),
				trMk2(1, 2, 4, 1, 2, 4, "equal-text"),
			},
			ops1: editOps(&t1, &e1), ops2: editOps(&t2, &e2),
		})
	}
	// TestTreeConcurrencySplitSplit
	{
		ops := []trOpDef{
			e(trRangeFront, "split", nil, 1, "split-front-1"),
			e(trRangeOneQuarter, "split", nil, 1, "split-one-quarter-1"),
			e(trRangeThreeQuarter, "split", nil, 1, "split-three-quarter-1"),
			e(trRangeBack, "split", nil, 1, "split-back-1"),
			e(trRangeFront, "split", nil, 2, "split-front-2"),
			e(trRangeOneQuarter, "split", nil, 2, "split-one-quarter-2"),
			e(trRangeThreeQuarter, "split", nil, 2, "split-three-quarter-2"),
			e(trRangeBack, "split", nil, 2, "split-back-2"),
		}
		fams = append(fams, trFamily{
			name: "split-split",
			init: json.TreeNode{Type: "root", Children: []json.TreeNode{
				trP(trP(trP(trP(trText("abcd")), trP(trText("efgh"))), trP(trText("ijkl")))),
			}},
			xml: `<root><p><p><p><p>abcd</p><p>efgh</p></p><p>ijkl</p></p></p></root>`,
			ranges: []trTwoRanges{
				trMk2(3, 6, 9, 3, 6, 9, "equal-single"),
				trMk2(3, 9, 15, 3, 9, 15, "equal-multiple"),
				trMk2(3, 9, 15, 9, 12, 15, "A contains B same level"),
				trMk2(2, 16, 22, 9, 12, 15, "A contains B multiple level"),
				trMk2(3, 6, 9, 9, 12, 15, "B is next to A"),
			},
			ops1: ops, ops2: ops,
		})
	}
	// TestTreeConcurrencySplitEdit
	{
		content := json.TreeNode{Type: "i", Children: []json.TreeNode{}}
		fams = append(fams, trFamily{
			name: "split-edit",
			init: json.TreeNode{Type: "root", Children: []json.TreeNode{
				trP(trPI(trPI(trText("abcd")), trPI(trText("efgh"))), trPI(trText("ijkl"))),
			}},
			xml: `<root><p><p italic="true"><p italic="true">abcd</p><p italic="true">efgh</p></p><p italic="true">ijkl</p></p></root>`,
			ranges: []trTwoRanges{
				trMk2(2, 5, 8, 2, 5, 8, "equal"),
				trMk2(2, 5, 8, 4, 5, 6, "A contains B"),
				trMk2(2, 5, 8, 2, 8, 14, "B contains A"),
				trMk2(2, 5, 8, 3, 4, 5, "left node(text)"),
				trMk2(2, 5, 8, 5, 6, 7, "right node(text)"),
				trMk2(2, 8, 14, 2, 5, 8, "left node(element)"),
				trMk2(2, 8, 14, 8, 11, 14, "right node(element)"),
				trMk2(2, 5, 8, 8, 11, 14, "A -> B"),
				trMk2(8, 11, 14, 2, 5, 8, "B -> A"),
			},
			ops1: []trOpDef{
				e(trRangeMiddle, "split", nil, 1, "split-1"),
				e(trRangeMiddle, "split", nil, 2, "split-2"),
			},
			ops2: []trOpDef{
				e(trRangeFront, "edit", &content, 0, "insertFront"),
				e(trRangeMiddle, "edit", &content, 0, "insertMiddle"),
				e(trRangeBack, "edit", &content, 0, "insertBack"),
				e(trRangeAll, "edit", &content, 0, "replace"),
				e(trRangeAll, "edit", nil, 0, "delete"),
				e(trRangeAll, "merge", nil, 0, "merge"),
				st("style", "bold", "aa", "style"),
				st("rmstyle", "italic", "", "remove-style"),
			},
		})
	}
	// TestTreeConcurrencyStyleStyle
	{
		ops := []trOpDef{
			st("rmstyle", "bold", "", "remove-bold"),
			st("style", "bold", "aa", "set-bold-aa"),
			st("style", "bold", "bb", "set-bold-bb"),
			st("rmstyle", "italic", "", "remove-italic"),
			st("style", "italic", "aa", "set-italic-aa"),
			st("style", "italic", "bb", "set-italic-bb"),
		}
		fams = append(fams, trFamily{
			name: "style-style",
			init: json.TreeNode{Type: "root", Children: []json.TreeNode{trP(trText("a")), trP(trText("b")), trP(trText("c"))}},
			xml:  `<root><p>a</p><p>b</p><p>c</p></root>`,
			ranges: []trTwoRanges{
				trMk2(3, -1, 6, 3, -1, 6, "equal"),
				trMk2(0, -1, 9, 3, -1, 6, "contain"),
				trMk2(0, -1, 6, 3, -1, 9, "intersect"),
				trMk2(0, -1, 3, 3, -1, 6, "side-by-side"),
			},
			ops1: ops, ops2: ops,
		})
	}
	// TestTreeConcurrencyEditStyle
	{
		content := json.TreeNode{Type: "p", Attributes: map[string]string{"italic": "true", "color": "blue"},
			Children: []json.TreeNode{trText("d")}}
		fams = append(fams, trFamily{
			name: "edit-style",
			init: json.TreeNode{Type: "root", Children: []json.TreeNode{trPR(trText("a")), trPR(trText("b")), trPR(trText("c"))}},
			xml:  `<root><p color="red">a</p><p color="red">b</p><p color="red">c</p></root>`,
			ranges: []trTwoRanges{
				trMk2(3, 3, 6, 3, -1, 6, "equal"),
				trMk2(0, 3, 9, 0, 3, 9, "equal multiple"),
				trMk2(0, 3, 9, 3, -1, 6, "A contains B"),
				trMk2(3, 3, 6, 0, -1, 9, "B contains A"),
				trMk2(0, 3, 6, 3, -1, 9, "intersect"),
				trMk2(0, 3, 3, 3, -1, 6, "A -> B"),
				trMk2(3, 3, 6, 0, -1, 3, "B -> A"),
			},
			ops1: []trOpDef{
				e(trRangeFront, "edit", &content, 0, "insertFront"),
				e(trRangeMiddle, "edit", &content, 0, "insertMiddle"),
				e(trRangeBack, "edit", &content, 0, "insertBack"),
				e(trRangeAll, "edit", nil, 0, "delete"),
				e(trRangeAll, "edit", &content, 0, "replace"),
				e(trRangeAll, "merge", nil, 0, "merge"),
			},
			ops2: []trOpDef{
				st("rmstyle", "color", "", "remove-color"),
				st("style", "bold", "aa", "set-bold-aa"),
			},
		})
	}
	return fams
}

// trResolve turns an upstream operation + user + ranges into the json-layer call it makes on a tree
// whose XML is xml (the `run` methods of the upstream test).
func trResolve(op trOpDef, user int, rs trTwoRanges, xml string) trCall {
	from, to := trGetRange(rs, op.sel, user)
	var cs []*json.TreeNode
	if op.content != nil {
		cs = []*json.TreeNode{op.content}
	}
	switch op.kind {
	case "edit", "split":
		return trCall{kind: "edit", from: from, to: to, sl: op.sl, contents: cs}
	case "merge":
		mf, mt := trGetMergeRange(xml, from, to)
		if mf != -1 && mt != -1 && mf < mt {
			return trCall{kind: "edit", from: mf, to: mt, sl: op.sl, contents: cs}
		}
		return trCall{kind: "nop"}
	case "style":
		return trCall{kind: "style", from: from, to: to, attrs: map[string]string{op.key: op.val}}
	case "rmstyle":
		return trCall{kind: "rmstyle", from: from, to: to, keys: []string{op.key}}
	}
	return trCall{kind: "nop"}
}

type trCase struct {
	idx    int
	fam    int
	ri     int
	i1, i2 int
	name   string
	c1, c2 trCall
}

func trMatrix() ([]trFamily, []trCase) {
	fams := trFamilies()
	var cases []trCase
	for fi, f := range fams {
		for ri, rs := range f.ranges {
			for i1, op1 := range f.ops1 {
				for i2, op2 := range f.ops2 {
					cases = append(cases, trCase{
						idx: len(cases), fam: fi, ri: ri, i1: i1, i2: i2,
						name: fmt.Sprintf("%s-%s(%s,%s)", f.name, rs.desc, op1.desc, op2.desc),
						c1:   trResolve(op1, 0, rs, f.xml), c2: trResolve(op2, 1, rs, f.xml),
					})
				}
			}
		}
	}
	return fams, cases
}

// trMergeExt: a supplementary family with REAL merges. The "merge" operations of the upstream matrix never merge
// (getMergeRange indexes the XML by byte: they resolve to no-ops or to plain deletions; no row ever sets MergedFrom), so
// the merge machinery (moved children, forwarding pointers, redirected positions) is exercised here: every merge of
// <root><p>abc</p><p>def</p><p>ghi</p></root> below against every single-step edit, split and style.
// These pairs are outside the property's fixed quantifier (upstream does not declare them convergent): they are run op-fed
// against the model (correspondence enforced) with the same oracles; the pairs that diverge on the pinned tree are pinned by
// name (trXMergeKnown, known finding c19-x-merge), any other failure is a violation.
func trMergeExt(base int) (trFamily, []trCase) {
	fam := trFamily{
		name: "x-merge",
		init: json.TreeNode{Type: "root", Children: []json.TreeNode{trP(trText("abc")), trP(trText("def")), trP(trText("ghi"))}},
		xml:  `<root><p>abc</p><p>def</p><p>ghi</p></root>`,
	}
	type named struct {
		name string
		cl   trCall
	}
	del := func(a, b int) trCall { return trCall{kind: "edit", from: a, to: b} }
	merges := []named{
		{"merge(3,7)", del(3, 7)}, {"merge(4,6)", del(4, 6)}, {"merge(3,12)", del(3, 12)},
		{"merge(8,12)", del(8, 12)}, {"merge(0,2)", del(0, 2)}, {"merge(4,11)", del(4, 11)},
	}
	var others []named
	for i := 0; i <= 15; i++ {
		t, e := trText("X"), json.TreeNode{Type: "i", Children: []json.TreeNode{}}
		if i != 0 && i != 5 && i != 10 && i != 15 { // text only inside a paragraph
			others = append(others, named{fmt.Sprintf("insText(%d)", i), trCall{kind: "edit", from: i, to: i, contents: []*json.TreeNode{&t}}})
		}
		others = append(others, named{fmt.Sprintf("insElem(%d)", i), trCall{kind: "edit", from: i, to: i, contents: []*json.TreeNode{&e}}})
	}
	for _, r := range [][2]int{{1, 2}, {2, 3}, {3, 4}, {6, 7}, {7, 8}, {8, 9}, {11, 12}, {12, 13}, {13, 14}, {0, 5}, {5, 10}, {10, 15}, {0, 15}} {
		others = append(others, named{fmt.Sprintf("delete(%d,%d)", r[0], r[1]), del(r[0], r[1])})
	}
	others = append(others, merges...)
	for _, r := range [][2]int{{0, 15}, {5, 10}} {
		others = append(others,
			named{fmt.Sprintf("style(%d,%d)", r[0], r[1]), trCall{kind: "style", from: r[0], to: r[1], attrs: map[string]string{"bold": "aa"}}},
			named{fmt.Sprintf("rmstyle(%d,%d)", r[0], r[1]), trCall{kind: "rmstyle", from: r[0], to: r[1], keys: []string{"bold"}}})
	}
	for _, i := range []int{2, 6, 7, 8, 9, 12} {
		others = append(others, named{fmt.Sprintf("split1(%d)", i), trCall{kind: "edit", from: i, to: i, sl: 1}})
	}
	var cases []trCase
	for _, m := range merges {
		for _, o := range others {
			// both role assignments: the merge as the earlier (d1) and as the later (d2) of the two tickets
			cases = append(cases, trCase{idx: base + len(cases), fam: -1, name: fmt.Sprintf("x-merge(%s,%s)", m.name, o.name), c1: m.cl, c2: o.cl})
			if m.name != o.name {
				cases = append(cases, trCase{idx: base + len(cases), fam: -1, name: fmt.Sprintf("x-merge(%s,%s)", o.name, m.name), c1: o.cl, c2: m.cl})
			}
		}
	}
	return fam, cases
}

// trSourceTie compares the harness' re-enumeration of the matrix with the upstream source text
// ($VERIF_REPO/test/complex/tree_concurrency_test.go): per test function the initialXML literal, every
// makeTwoRanges(...) literal and every editOperationType{...}/styleOperationType{...} literal, in source order.
// A changed upstream matrix is reported as an oracle failure (the Lean table is tied to the harness' enumeration
// by the CASE lines, so the chain source -> harness -> table is closed). Content literals and the bodies of
// getRange/getMergeRange/run are not compared (they are re-implemented by reading).
func trSourceTie(c *Ctx, fams []trFamily) {
	repo := os.Getenv("VERIF_REPO")
	if repo == "" {
		repo = "/repo"
	}
	c.Trace("c19-source-tie")
	b, err := os.ReadFile(filepath.Join(repo, "test", "complex", "tree_concurrency_test.go"))
	if err != nil {
		c.Oracle("matrix source not readable: %v", err)
		return
	}
	src := string(b)
	funcs := []string{"EditEdit", "SplitSplit", "SplitEdit", "StyleStyle", "EditStyle"}
	selName := map[int]string{trRangeFront: "RangeFront", trRangeMiddle: "RangeMiddle", trRangeBack: "RangeBack", trRangeAll: "RangeAll",
		trRangeOneQuarter: "RangeOneQuarter", trRangeThreeQuarter: "RangeThreeQuarter"}
	opName := map[string]string{"edit": "EditUpdate", "merge": "MergeUpdate", "split": "SplitUpdate", "style": "StyleSet", "rmstyle": "StyleRemove"}
	reRange := regexp.MustCompile("makeTwoRanges\\((-?\\d+), (-?\\d+), (-?\\d+), (-?\\d+), (-?\\d+), (-?\\d+), `([^`]*)`\\)")
	reOp := regexp.MustCompile("(editOperationType\\{(Range\\w+), (\\w+), (\\w+), (\\d+), [`\"]([^`\"]*)[`\"]\\})|(styleOperationType\\{(Range\\w+), (Style\\w+), \"([^\"]*)\", \"([^\"]*)\", `([^`]*)`\\})")
	reXML := regexp.MustCompile("initialXML := `([^`]*)`")
	for fi, fn := range funcs {
		start := strings.Index(src, "func TestTreeConcurrency"+fn+"(")
		if start < 0 {
			c.Oracle("matrix source: TestTreeConcurrency%s not found", fn)
			continue
		}
		end := strings.Index(src[start+1:], "\nfunc ")
		body := src[start:]
		if end >= 0 {
			body = src[start : start+1+end]
		}
		f := fams[fi]
		if m := reXML.FindStringSubmatch(body); m == nil || m[1] != f.xml {
			c.Oracle("matrix source: initialXML of %s changed", fn)
		}
		var got []string
		for _, m := range reRange.FindAllStringSubmatch(body, -1) {
			got = append(got, strings.Join(m[1:], ","))
		}
		var want []string
		for _, r := range f.ranges {
			want = append(want, fmt.Sprintf("%d,%d,%d,%d,%d,%d,%s", r.r[0].from, r.r[0].mid, r.r[0].to, r.r[1].from, r.r[1].mid, r.r[1].to, r.desc))
		}
		if strings.Join(got, ";") != strings.Join(want, ";") {
			c.Oracle("matrix source: ranges of %s changed: source=%v harness=%v", fn, got, want)
		}
		got = nil
		for _, m := range reOp.FindAllStringSubmatch(body, -1) {
			if m[1] != "" {
				got = append(got, fmt.Sprintf("%s,%s,nil=%t,%s,%s", m[2], m[3], m[4] == "nil", m[5], m[6]))
			} else {
				got = append(got, fmt.Sprintf("%s,%s,%s,%s,%s", m[8], m[9], m[10], m[11], m[12]))
			}
		}
		enc := func(o trOpDef) string {
			if o.kind == "style" || o.kind == "rmstyle" {
				return fmt.Sprintf("%s,%s,%s,%s,%s", selName[o.sel], opName[o.kind], o.key, o.val, o.desc)
			}
			return fmt.Sprintf("%s,%s,nil=%t,%d,%s", selName[o.sel], opName[o.kind], o.content == nil, o.sl, o.desc)
		}
		want = nil
		for _, o := range f.ops1 {
			want = append(want, enc(o))
		}
		same12 := len(f.ops1) == len(f.ops2)
		for i := range f.ops2 {
			if !same12 || enc(f.ops1[i]) != enc(f.ops2[i]) {
				same12 = false
			}
		}
		// upstream declares ONE operation list when both users draw from the same one (split-split, style-style)
		if !same12 || fn == "EditEdit" {
			for _, o := range f.ops2 {
				want = append(want, enc(o))
			}
		}
		if strings.Join(got, ";") != strings.Join(want, ";") {
			c.Oracle("matrix source: operations of %s changed: source=%v harness=%v", fn, got, want)
		}
	}
	c.Count("matrix:source-tie-checked")
}

func trCaseLine(fams []trFamily, cs trCase) string {
	return fmt.Sprintf("case %d init=%s c1=%s c2=%s", cs.idx, trEncJ(&fams[cs.fam].init), trEncCall(cs.c1), trEncCall(cs.c2))
}

// runMatrixCase executes one (pair, sync order, snapshot point).
func runMatrixCase(c *Ctx, fams []trFamily, cs trCase, order12 bool, snapAt int) error {
	ord := "21"
	if order12 {
		ord = "12"
	}
	c.Trace(fmt.Sprintf("c19-%d-%s-%d", cs.idx, ord, snapAt))
	w := newTrWorld(c)
	do := func(format string, a ...any) error {
		l := fmt.Sprintf(format, a...)
		c.Cmd("%s", l)
		return w.exec(l)
	}
	ext := cs.fam < 0 // supplementary family: fams has exactly one entry, no row in the Lean table
	fam := fams[0]
	if !ext {
		fam = fams[cs.fam]
		c.Cmd("CASE %d", cs.idx)
		c.Obs("%s", trCaseLine(fams, cs))
	}
	c.Cmd("# %s", strings.ReplaceAll(cs.name, "\n", " "))
	if ext && trXMergeKnown[cs.name] {
		// a pinned, named divergent pair: the line travels with the trace so that a replay classifies it the same way
		if err := do("KNOWN c19-x-merge"); err != nil {
			return err
		}
	}
	steps := []string{"R d1 1", "R d2 2", "RS srv", "R d3 3",
		"U d1 " + trEncCall(trCall{kind: "new", contents: []*json.TreeNode{&fam.init}}),
		"S d1", "S d2"}
	for _, s := range steps {
		if err := do("%s", s); err != nil {
			return err
		}
	}
	if x := trCloneTree(w.reps["d1"]); x == nil || x.ToXML() != fam.xml {
		c.Oracle("initial XML differs from the upstream test's initialXML")
	}
	if err := do("U d1 %s", trEncCall(cs.c1)); err != nil {
		return err
	}
	if err := do("U d2 %s", trEncCall(cs.c2)); err != nil {
		return err
	}
	a, b := "d1", "d2"
	if !order12 {
		a, b = "d2", "d1"
	}
	if err := do("S %s", a); err != nil {
		return err
	}
	if snapAt == 1 {
		if err := do("SNAP srv d3"); err != nil {
			return err
		}
	}
	if err := do("S %s", b); err != nil {
		return err
	}
	if snapAt == 2 {
		if err := do("SNAP srv d3"); err != nil {
			return err
		}
	}
	if err := do("S %s", a); err != nil {
		return err
	}
	if err := do("S d3"); err != nil {
		return err
	}
	if err := do("Q"); err != nil {
		return err
	}
	if cs.c1.kind != "nop" && cs.c2.kind != "nop" {
		c.Nontrivial()
	}
	// did a merge move children in this run? (MergedFrom is stamped on every moved child)
	merged := false
	if t := trRootTree(w.reps["d1"]); t != nil && !w.reps["d1"].failed {
		index.TraverseNode(t.Root().Index, func(node *index.Node[*crdt.TreeNode], _ int) {
			if node.Value.MergedFrom != nil {
				merged = true
			}
		})
	}
	if merged && ext {
		c.Count("x-merge:runs-with-a-real-merge")
	} else if merged {
		c.Count("matrix:runs-with-a-real-merge")
	}
	if ext {
		c.Count("x-merge:runs")
		if w.knownTag != "" {
			c.Count("x-merge:runs-of-pinned-divergent-pairs")
			d1, d2 := w.reps["d1"], w.reps["d2"]
			if order12 && snapAt == 1 && !d1.failed && !d2.failed {
				trExtFindings = append(trExtFindings, fmt.Sprintf("%s :: d1=%s d2=%s", cs.name, trRootTree(d1).ToXML(), trRootTree(d2).ToXML()))
			}
		}
		return nil
	}
	// the integrated model function of the theorems, on this table row
	c.Cmd("RUN %d %s %d", cs.idx, ord, snapAt)
	one := func(name string) string {
		p := w.produced[name]
		if len(p) == 0 {
			return "none"
		}
		return strings.Join(p, " ;; ")
	}
	c.Obs("ch1 %s", one("d1"))
	c.Obs("ch2 %s", one("d2"))
	for _, n := range []string{"d1", "d2", "d3"} {
		r := w.reps[n]
		if r.failed {
			c.Obs("%s failed", n)
			continue
		}
		c.Obs("%s root=%s clone=%s", n, trXML(trRootTree(r)), trXML(trCloneTree(r)))
	}
	if s := w.reps["srv"]; s.failed {
		c.Obs("srv failed")
	} else {
		c.Obs("srv root=%s", trXML(trRootTree(s)))
	}
	return nil
}

// ---------------------------------------------------------------------------------------------
// Lean table

func trLeanCodes(s string) string {
	var parts []string
	for _, r := range s {
		parts = append(parts, strconv.Itoa(int(r)))
	}
	return "[" + strings.Join(parts, ",") + "]"
}

func trLeanUnits(s string) string {
	var parts []string
	for _, u := range utf16.Encode([]rune(s)) {
		parts = append(parts, strconv.Itoa(int(u)))
	}
	return "[" + strings.Join(parts, ",") + "]"
}

func trLeanJ(n *json.TreeNode) string {
	var items []string
	var walk func(x json.TreeNode, d int)
	walk = func(x json.TreeNode, d int) {
		keys := make([]string, 0, len(x.Attributes))
		for k := range x.Attributes {
			keys = append(keys, k)
		}
		sort.Strings(keys)
		var as []string
		for _, k := range keys {
			as = append(as, fmt.Sprintf("(%s,%s)", trLeanCodes(k), trLeanCodes(x.Attributes[k])))
		}
		items = append(items, fmt.Sprintf("⟨%d,%s,%s,[%s]⟩", d, trLeanCodes(x.Type), trLeanUnits(x.Value), strings.Join(as, ",")))
		for _, c := range x.Children {
			walk(c, d+1)
		}
	}
	walk(*n, 0)
	return "[" + strings.Join(items, ",") + "]"
}

func trLeanCall(cl trCall) string {
	switch cl.kind {
	case "edit":
		var cs []string
		for _, c := range cl.contents {
			cs = append(cs, trLeanJ(c))
		}
		return fmt.Sprintf(".edit %d %d [%s] %d", cl.from, cl.to, strings.Join(cs, ","), cl.sl)
	case "style":
		keys := make([]string, 0, len(cl.attrs))
		for k := range cl.attrs {
			keys = append(keys, k)
		}
		sort.Strings(keys)
		var as []string
		for _, k := range keys {
			as = append(as, fmt.Sprintf("(%s,%s)", trLeanCodes(k), trLeanCodes(cl.attrs[k])))
		}
		return fmt.Sprintf(".style %d %d [%s]", cl.from, cl.to, strings.Join(as, ","))
	case "rmstyle":
		var ks []string
		for _, k := range cl.keys {
			ks = append(ks, trLeanCodes(k))
		}
		return fmt.Sprintf(".removeStyle %d %d [%s]", cl.from, cl.to, strings.Join(ks, ","))
	}
	return ".nop"
}

const trChunk = 25

// rows per kernel-evaluated declaration inside a chunk file (peak memory about 0.5 GB + 0.4 GB per row)
const trPart = 5

// oracle failures of the supplementary family (also listed in stats.extra)
var trExtFindings []string

// trXMergeKnown pins, by name, the pairs of the supplementary real-merge family that diverge on the pinned tree
// (35 of 678; known finding c19-x-merge). A divergence on any other pair of the family is a violation.
var trXMergeKnown = map[string]bool{
	"x-merge(delete(5,10),merge(3,7))":   true,
	"x-merge(merge(3,7),merge(3,12))":    true,
	"x-merge(merge(3,12),merge(3,7))":    true,
	"x-merge(merge(3,7),merge(0,2))":     true,
	"x-merge(merge(0,2),merge(3,7))":     true,
	"x-merge(merge(3,7),merge(4,11))":    true,
	"x-merge(merge(4,11),merge(3,7))":    true,
	"x-merge(merge(3,7),split1(6))":      true,
	"x-merge(split1(6),merge(3,7))":      true,
	"x-merge(delete(5,10),merge(4,6))":   true,
	"x-merge(merge(4,6),merge(3,12))":    true,
	"x-merge(merge(3,12),merge(4,6))":    true,
	"x-merge(merge(4,6),merge(0,2))":     true,
	"x-merge(merge(0,2),merge(4,6))":     true,
	"x-merge(merge(4,6),merge(4,11))":    true,
	"x-merge(merge(4,11),merge(4,6))":    true,
	"x-merge(delete(10,15),merge(3,12))": true,
	"x-merge(merge(3,12),merge(0,2))":    true,
	"x-merge(merge(0,2),merge(3,12))":    true,
	"x-merge(delete(10,15),merge(8,12))": true,
	"x-merge(merge(8,12),merge(4,11))":   true,
	"x-merge(merge(4,11),merge(8,12))":   true,
	"x-merge(merge(8,12),split1(8))":     true,
	"x-merge(split1(8),merge(8,12))":     true,
	"x-merge(merge(8,12),split1(9))":     true,
	"x-merge(split1(9),merge(8,12))":     true,
	"x-merge(merge(0,2),delete(0,5))":    true,
	"x-merge(delete(0,5),merge(0,2))":    true,
	"x-merge(merge(0,2),delete(0,15))":   true,
	"x-merge(delete(0,15),merge(0,2))":   true,
	"x-merge(merge(0,2),merge(4,11))":    true,
	"x-merge(merge(4,11),merge(0,2))":    true,
	"x-merge(merge(0,2),split1(2))":      true,
	"x-merge(split1(2),merge(0,2))":      true,
	"x-merge(delete(10,15),merge(4,11))": true,
}

// writeLeanTable writes the matrix as Lean source: the table (Model/TreeMatrixTable.lean) and one lemma
// file per chunk of trChunk rows (Lemmas/TreeMatrixENN.lean: convergesExt on every row), plus Lemmas/TreeMatrixAll.lean.
func writeLeanTable(c *Ctx) error {
	fams, cases := trMatrix()
	var sb strings.Builder
	sb.WriteString("/- GENERATED by `yk-harness tree stream=leantable` from the matrix definitions of harness/eng_tree.go\n")
	sb.WriteString("   (a re-enumeration of test/complex/tree_concurrency_test.go). Do not edit: the driver prints every row\n")
	sb.WriteString("   (`CASE <idx>`) and check.py compares it with the row the harness enumerates, so a change on either\n")
	sb.WriteString("   side breaks the correspondence. -/\n")
	sb.WriteString("import YorkieModel.Model.TreeDoc\nnamespace Yorkie.Tree.Matrix\nopen Yorkie Yorkie.Tree\n\n")
	for fi, f := range fams {
		sb.WriteString(fmt.Sprintf("/-- %s: %s -/\ndef fam%d : List JItem := %s\n\n", f.name, f.xml, fi, trLeanJ(&f.init)))
	}
	nch := (len(cases) + trChunk - 1) / trChunk
	for k := 0; k < nch; k++ {
		sb.WriteString(fmt.Sprintf("def chunk%02d : List Case := [\n", k))
		hi := min(len(cases), (k+1)*trChunk)
		for i := k * trChunk; i < hi; i++ {
			cs := cases[i]
			sep := ","
			if i == hi-1 {
				sep = ""
			}
			sb.WriteString(fmt.Sprintf("  ⟨%d, fam%d, %s, %s⟩%s  -- %s\n", cs.idx, cs.fam, trLeanCall(cs.c1), trLeanCall(cs.c2), sep, cs.name))
		}
		sb.WriteString("]\n\n")
	}
	sb.WriteString("def chunks : List (List Case) := [")
	for k := 0; k < nch; k++ {
		if k > 0 {
			sb.WriteString(", ")
		}
		sb.WriteString(fmt.Sprintf("chunk%02d", k))
	}
	sb.WriteString("]\n\n/-- the whole matrix, in upstream enumeration order -/\ndef matrix : List Case := chunks.flatten\n\n")
	// family boundaries
	start := 0
	for fi, f := range fams {
		n := len(f.ranges) * len(f.ops1) * len(f.ops2)
		sb.WriteString(fmt.Sprintf("/-- rows [%d, %d) are family %d (%s) -/\ndef famStart%d : Nat := %d\n", start, start+n, fi, f.name, fi, start))
		start += n
	}
	sb.WriteString(fmt.Sprintf("def size : Nat := %d\n\nend Yorkie.Tree.Matrix\n", len(cases)))
	if err := os.WriteFile(filepath.Join(c.Out, "TreeMatrixTable.lean"), []byte(sb.String()), 0o644); err != nil {
		return err
	}
	// one lemma file per chunk and per statement, so that lake builds them in parallel and none takes long
	hdr := "/- GENERATED by `yk-harness tree stream=leantable` together with Model/TreeMatrixTable.lean. -/\n" +
		"import YorkieModel.Model.TreeMatrixTable\nnamespace Yorkie.Tree.Matrix\nopen Yorkie Yorkie.Tree\n\n"
	// The kernel keeps everything it evaluated until the declaration is finished (about 0.4 GB per row), so a chunk is
	// proved in parts of trPart rows (memory is released between declarations) and the parts are glued by a lemma.
	parts := "/- GENERATED by `yk-harness tree stream=leantable`. -/\nnamespace Yorkie.Tree.Matrix\n\n" +
		"/-- a list property holds when it holds on the first `n` elements and on the rest -/\n" +
		"theorem forall_mem_of_parts {α : Type} {p : α → Prop} (l : List α) (n : Nat)\n" +
		"    (h1 : ∀ c ∈ l.take n, p c) (h2 : ∀ c ∈ l.drop n, p c) : ∀ c ∈ l, p c := by\n" +
		"  intro c hc\n  rw [← List.take_append_drop n l, List.mem_append] at hc\n  exact hc.elim (h1 c) (h2 c)\n\nend Yorkie.Tree.Matrix\n"
	if err := os.WriteFile(filepath.Join(c.Out, "TreeMatrixParts.lean"), []byte(parts), 0o644); err != nil {
		return err
	}
	hdr = strings.Replace(hdr, "import YorkieModel.Model.TreeMatrixTable\n", "import YorkieModel.Model.TreeMatrixTable\nimport YorkieModel.Lemmas.TreeMatrixParts\n", 1)
	var imports, enames []string
	for k := 0; k < nch; k++ {
		ef := fmt.Sprintf("TreeMatrixE%02d", k)
		lo, hi := k*trChunk, min(len(cases), (k+1)*trChunk)
		var sb2 strings.Builder
		sb2.WriteString(hdr)
		sb2.WriteString(fmt.Sprintf("/-! rows [%d, %d): the two editors converge with clone = root, the server replay in both sync orders and the\n"+
			"    snapshot-seeded third client (snapshot after the first / second sync) agree with them (kernel evaluation) -/\n\n", lo, hi))
		np := (hi - lo + trPart - 1) / trPart
		rest := fmt.Sprintf("chunk%02d", k)
		glue := ""
		for j := 0; j < np; j++ {
			last := j == np-1
			piece := fmt.Sprintf("(%s).take %d", rest, trPart)
			if last {
				piece = rest
			}
			sb2.WriteString(fmt.Sprintf("set_option maxRecDepth 100000 in\ntheorem ext%02d_%d : ∀ c ∈ %s, convergesExt c = true := by decide +kernel\n\n", k, j, piece))
			if last {
				glue += fmt.Sprintf("ext%02d_%d", k, j) + strings.Repeat(")", np-1)
			} else {
				glue += fmt.Sprintf("forall_mem_of_parts _ %d ext%02d_%d (", trPart, k, j)
				rest = fmt.Sprintf("(%s).drop %d", rest, trPart)
			}
		}
		sb2.WriteString(fmt.Sprintf("theorem ext%02d : ∀ c ∈ chunk%02d, convergesExt c = true :=\n  %s\n\nend Yorkie.Tree.Matrix\n", k, k, glue))
		if err := os.WriteFile(filepath.Join(c.Out, ef+".lean"), []byte(sb2.String()), 0o644); err != nil {
			return err
		}
		imports = append(imports, "import YorkieModel.Lemmas."+ef)
		enames = append(enames, fmt.Sprintf("ext%02d", k))
	}
	var ab strings.Builder
	ab.WriteString("/- GENERATED by `yk-harness tree stream=leantable`: assembles the per-chunk kernel evaluations. -/\n")
	ab.WriteString(strings.Join(imports, "\n") + "\nnamespace Yorkie.Tree.Matrix\nopen Yorkie Yorkie.Tree\n\n")
	ab.WriteString("theorem chunks_converge_ext : ∀ ch ∈ chunks, ∀ c ∈ ch, convergesExt c = true := by\n  unfold chunks\n  simp only [List.forall_mem_cons]\n")
	ab.WriteString("  refine ⟨" + strings.Join(enames, ", ") + ", ?_⟩\n  intro ch h; cases h\n\n")
	ab.WriteString("end Yorkie.Tree.Matrix\n")
	if err := os.WriteFile(filepath.Join(c.Out, "TreeMatrixAll.lean"), []byte(ab.String()), 0o644); err != nil {
		return err
	}
	c.stats.Extra = map[string]any{"rows": len(cases), "chunks": nch}
	return nil
}

// ---------------------------------------------------------------------------------------------
// random stream (structure-preserving domain)

var trTextPool = []string{"a", "b", "c", "d", "x", "y", "z", "A", "Z", "0", "7", " ", "\"", "\\", "é", "한", "€", "😀", "𝄞"}
var trElemTypes = []string{"p", "b", "i", "li"}
var trAttrKeys = []string{"bold", "italic", "c", "a\"k"}
var trAttrVals = []string{"1", "aa", "bb", "x\"y", ""}

// trPoolN is the number of entries of trTextPool in use: the last two are supplementary-plane characters
var trPoolN = len(trTextPool)

func trGenText(r *rand.Rand) string {
	n := 1 + r.Intn(4)
	var sb strings.Builder
	for i := 0; i < n; i++ {
		sb.WriteString(trTextPool[r.Intn(trPoolN)])
	}
	return sb.String()
}

func trGenAttrs(r *rand.Rand) map[string]string {
	m := map[string]string{}
	for i, n := 0, 1+r.Intn(2); i < n; i++ {
		m[trAttrKeys[r.Intn(len(trAttrKeys))]] = trAttrVals[r.Intn(len(trAttrVals))]
	}
	return m
}

func trGenElem(r *rand.Rand, depth int) json.TreeNode {
	n := json.TreeNode{Type: trElemTypes[r.Intn(len(trElemTypes))], Children: []json.TreeNode{}}
	if r.Intn(3) == 0 {
		n.Attributes = trGenAttrs(r)
	}
	switch {
	case depth > 0 && r.Intn(3) == 0:
		for i, k := 0, 1+r.Intn(2); i < k; i++ {
			n.Children = append(n.Children, trGenElem(r, depth-1))
		}
	case r.Intn(4) > 0:
		n.Children = append(n.Children, trText(trGenText(r)))
	}
	return n
}

// trSlots classifies every index 0..len of the visible XML: inside text (between two code units or at
// a text boundary inside an element holding text), or between elements.
type trSlotInfo struct {
	textOK []bool // a text node may be inserted at this index
	elemOK []bool // an element may be inserted at this index
	toks   []string
}

func trSlots(xml string) (trSlotInfo, bool) {
	toks, ok := trTokens(xml)
	if !ok {
		return trSlotInfo{}, false
	}
	n := len(toks) - 2 // indices 0..n
	info := trSlotInfo{textOK: make([]bool, n+1), elemOK: make([]bool, n+1), toks: toks}
	isTag := func(t string) bool { return strings.HasPrefix(t, "<") }
	depth := 0
	for i := 0; i <= n; i++ {
		left, right := toks[i], toks[i+1] // tokens around index i
		if i > 0 {
			if strings.HasPrefix(left, "</") {
				depth--
			} else if isTag(left) {
				depth++
			}
		}
		lt, rt := !isTag(left), !isTag(right)
		// text: next to text, or inside an empty element (not directly under the root)
		if (lt || rt) || (depth >= 1 && isTag(left) && !strings.HasPrefix(left, "</") && strings.HasPrefix(right, "</")) {
			info.textOK[i] = true
		}
		// element: between tags only (never inside text), anywhere but next to text
		if !lt && !rt {
			info.elemOK[i] = true
		}
	}
	return info, true
}

// trGenCall generates one structure-preserving call against the visible XML of the acting replica.
func trGenCall(r *rand.Rand, xml string) trCall {
	info, ok := trSlots(xml)
	if !ok {
		return trCall{kind: "nop"}
	}
	n := len(info.textOK) - 1
	isTag := func(t string) bool { return strings.HasPrefix(t, "<") }
	pick := func(ok []bool) int {
		var c []int
		for i, b := range ok {
			if b {
				c = append(c, i)
			}
		}
		if len(c) == 0 {
			return -1
		}
		return c[r.Intn(len(c))]
	}
	// balanced ranges starting at i: all j > i such that tokens (i, j] are balanced and never dip below 0
	balancedEnds := func(i int, textOnly bool) []int {
		var ends []int
		depth := 0
		for j := i + 1; j <= n; j++ {
			t := info.toks[j]
			if strings.HasPrefix(t, "</") {
				depth--
				if depth < 0 {
					break
				}
			} else if isTag(t) {
				if textOnly {
					break
				}
				depth++
			}
			if depth == 0 {
				ends = append(ends, j)
			}
		}
		return ends
	}
	x := r.Intn(100)
	switch {
	case x < 30: // text insert
		if i := pick(info.textOK); i >= 0 {
			t := trText(trGenText(r))
			return trCall{kind: "edit", from: i, to: i, contents: []*json.TreeNode{&t}}
		}
	case x < 45: // text delete / replace inside one element
		for try := 0; try < 8; try++ {
			i := r.Intn(n + 1)
			ends := balancedEnds(i, true)
			if len(ends) == 0 {
				continue
			}
			j := ends[r.Intn(len(ends))]
			cl := trCall{kind: "edit", from: i, to: j}
			if r.Intn(3) == 0 {
				t := trText(trGenText(r))
				cl.contents = []*json.TreeNode{&t}
			}
			return cl
		}
	case x < 62: // element insert
		if i := pick(info.elemOK); i >= 0 {
			e := trGenElem(r, 1)
			cl := trCall{kind: "edit", from: i, to: i, contents: []*json.TreeNode{&e}}
			if r.Intn(6) == 0 {
				e2 := trGenElem(r, 0)
				cl.contents = append(cl.contents, &e2)
			}
			return cl
		}
	case x < 77: // whole-element delete / replace
		for try := 0; try < 8; try++ {
			i := pick(info.elemOK)
			if i < 0 {
				break
			}
			ends := balancedEnds(i, false)
			var good []int
			for _, j := range ends {
				if info.elemOK[j] {
					good = append(good, j)
				}
			}
			if len(good) == 0 {
				continue
			}
			j := good[r.Intn(min(len(good), 2))]
			cl := trCall{kind: "edit", from: i, to: j}
			if r.Intn(4) == 0 {
				e := trGenElem(r, 0)
				cl.contents = []*json.TreeNode{&e}
			}
			return cl
		}
	case x < 90: // style
		i := r.Intn(n + 1)
		j := i + r.Intn(n-i+1)
		return trCall{kind: "style", from: i, to: j, attrs: trGenAttrs(r)}
	default: // remove style
		i := r.Intn(n + 1)
		j := i + r.Intn(n-i+1)
		return trCall{kind: "rmstyle", from: i, to: j, keys: []string{trAttrKeys[r.Intn(len(trAttrKeys))]}}
	}
	return trCall{kind: "nop"}
}

func trGenInitial(r *rand.Rand) json.TreeNode {
	root := json.TreeNode{Type: "root", Children: []json.TreeNode{}}
	for i, k := 0, 1+r.Intn(3); i < k; i++ {
		root.Children = append(root.Children, trGenElem(r, 1))
	}
	return root
}

func runTreeRandom(c *Ctx) error {
	r := c.Rng
	pool := trArg("pool", "mixed")
	for i := 0; i < c.N; i++ {
		c.Trace(fmt.Sprintf("tree-%d-%d", c.Seed, i))
		w := newTrWorld(c)
		do := func(format string, a ...any) error {
			l := fmt.Sprintf(format, a...)
			c.Cmd("%s", l)
			return w.exec(l)
		}
		// supplementary-plane characters in one trace out of five (an edit boundary inside a pair: listed finding c19-surrogate-cut)
		trPoolN = len(trTextPool) - 2
		if pool == "all" || (pool == "mixed" && r.Intn(5) == 0) {
			trPoolN = len(trTextPool)
			c.Count("trace:with-supplementary-characters")
		}
		n := 2 + r.Intn(3)
		syncP := make([]int, n)
		for k := 0; k < n; k++ {
			if err := do("R r%d %s", k, ActorNat(mkActor(r, k))); err != nil {
				return err
			}
			syncP[k] = []int{6, 15, 30, 45}[r.Intn(4)]
		}
		withSrv := r.Intn(3) == 0
		if withSrv {
			if err := do("RS srv"); err != nil {
				return err
			}
		}
		init := trGenInitial(r)
		if err := do("U r0 %s", trEncCall(trCall{kind: "new", contents: []*json.TreeNode{&init}})); err != nil {
			return err
		}
		for k := 0; k < n; k++ {
			if err := do("S r%d", k); err != nil {
				return err
			}
		}
		steps := 6 + r.Intn(20)
		for s := 0; s < steps; s++ {
			k := r.Intn(n)
			rep := w.reps[fmt.Sprintf("r%d", k)]
			if rep.failed {
				continue
			}
			if r.Intn(100) < syncP[k] {
				if err := do("S r%d", k); err != nil {
					return err
				}
				continue
			}
			ct := trCloneTree(rep)
			if ct == nil {
				continue
			}
			cl := trGenCall(r, ct.ToXML())
			if cl.kind == "nop" {
				continue
			}
			if err := do("U r%d %s", k, trEncCall(cl)); err != nil {
				return err
			}
		}
		for round := 0; round < 2; round++ {
			for k := 0; k < n; k++ {
				if err := do("S r%d", k); err != nil {
					return err
				}
			}
		}
		if withSrv && r.Intn(2) == 0 {
			if err := do("R late 77"); err != nil {
				return err
			}
			if err := do("SNAP srv late"); err != nil {
				return err
			}
		}
		if err := do("Q"); err != nil {
			return err
		}
	}
	return nil
}

// ---------------------------------------------------------------------------------------------

// trArg reads a positional `key=value` argument (check.py appends the engine's `args` after the flags).
func trArg(key, def string) string {
	for _, a := range os.Args[2:] {
		if strings.HasPrefix(a, key+"=") {
			return strings.TrimPrefix(a, key+"=")
		}
	}
	return def
}

func trStream() string { return trArg("stream", "matrix") }

func runTree(c *Ctx) error {
	c.stats.Rule = "tree: every operation of every change is replayed by the Lean model on the clone and on the root of the " +
		"receiving replica (and on the server's replay copy); Marshal(), ToXML(), the node structure (ids, tombstones, " +
		"InsPrev/InsNext, MergedFrom/MergedAt/mergedInto, cached lengths, NodeMapByID registration, attribute registers), FindPos and " +
		"index<->path conversions are compared; matrix stream: the upstream C19 matrix x both sync orders x a third client seeded by a " +
		"snapshot after the first / second sync, plus the integrated model function runCase on the same table row; random stream: " +
		"2-4 replicas over text edits inside one element, whole-element insert/delete, style/remove-style with the C07 reference " +
		"check; non-trivial = both clients made a change (matrix) / some replica applied a remote change while holding unpushed " +
		"local changes (random)"
	if c.Replay != nil {
		w := newTrWorld(c)
		fams, cases := trMatrix()
		for _, l := range c.Replay {
			f := strings.Fields(l)
			switch f[0] {
			case "T":
				c.Trace(strings.TrimSpace(strings.TrimPrefix(l, "T")))
				w = newTrWorld(c)
			case "R", "RS", "U", "S", "SNAP", "Q", "KNOWN":
				if c.traceID == "" {
					c.Trace("replay")
				}
				c.Cmd("%s", l)
				if err := w.exec(l); err != nil {
					return err
				}
			case "CASE":
				if c.traceID == "" {
					c.Trace("replay")
				}
				c.Cmd("%s", l)
				if idx, err := strconv.Atoi(f[1]); err == nil && idx >= 0 && idx < len(cases) {
					c.Obs("%s", trCaseLine(fams, cases[idx]))
				} else {
					c.Obs("case ? out of range")
				}
			default:
				// OP/M/MC/X/D/P/IP/RUN lines are outputs of the execution; they are regenerated, not replayed
				// (RUN needs the whole scenario: it is re-emitted only by the matrix generator)
			}
		}
		return nil
	}
	switch trStream() {
	case "leantable":
		return writeLeanTable(c)
	case "random":
		return runTreeRandom(c)
	}
	// matrix
	fams, cases := trMatrix()
	worker := int(c.Seed%1000) % 500
	verifSeed := int(c.Seed / 1000)
	workers, _ := strconv.Atoi(trArg("workers", "1")) // must equal the `workers` of props.d/C19.py
	if workers < 1 {
		workers = 1
	}
	slice, _ := strconv.Atoi(trArg("slice", "1"))
	if slice < 1 {
		slice = 1
	}
	c.stats.Exhaustive = true
	c.stats.ExhaustiveScope = fmt.Sprintf("tree matrix: %d pairs (edit-edit 900, split-split 320, split-edit 144, style-style 144, edit-style 84) "+
		"x sync order {12,21} x snapshot point {1,2}; this worker %d/%d; slice 1/%d of the runs (rotating with VERIF_SEED=%d)",
		len(cases), worker, workers, slice, verifSeed)
	if worker == 0 {
		trSourceTie(c, fams)
	}
	run := 0
	for _, cs := range cases {
		for _, order12 := range []bool{true, false} {
			for _, snapAt := range []int{1, 2} {
				k := run
				run++
				if k%workers != worker {
					continue
				}
				if (k/workers)%slice != verifSeed%slice {
					continue
				}
				if err := runMatrixCase(c, fams, cs, order12, snapAt); err != nil {
					return err
				}
				c.Count("matrix:runs")
			}
		}
	}
	xfam, xcases := trMergeExt(len(cases))
	for _, cs := range xcases {
		for _, order12 := range []bool{true, false} {
			for _, snapAt := range []int{1, 2} {
				k := run
				run++
				if k%workers != worker || (k/workers)%slice != verifSeed%slice {
					continue
				}
				if err := runMatrixCase(c, []trFamily{xfam}, cs, order12, snapAt); err != nil {
					return err
				}
			}
		}
	}
	c.stats.Extra = map[string]any{"x_merge_pairs": len(xcases), "x_merge_pinned_divergent": len(trXMergeKnown), "x_merge_divergent_outcomes": trExtFindings}
	return nil
}
