package main

// engines `compact` (C10) and `faults` (C05): both extend the `proto` engine (same in-process
// server, same raw-RPC commands and observation lines, Lean side Driver/ProtoEngine.lean `X`).
//
// New commands
//   CP k<key> force=<0|1>                              svr.CompactDocument(ctx, key, force)
//   FLT call=<DB method> nth=<n> when=<before|after>   arm ONE fault in the proxy around Backend.DB; it
//                                                      fires inside the next ATT/PP/DET/REM and is disarmed
//                                                      when that request returns
//
// compact: (a) raw-RPC streams: every prefix of a base history (= every quiescent point), then
//              `CP force=0` (and `force=1` when refused), then one of six stale/fresh follow-up mixes,
//              compared line by line with the model; (b) `cdoc-*` traces (oracle-only): REAL clients
//              and REAL documents edited with randomEdit; content received by a fresh attacher after
//              compaction == content before.
// faults:  (a) raw-RPC: every request of a base history x every storage call x before/after (+ lost
//              response), then the retry of the identical line, optionally a further edit, and a
//              quiescent round – compared with the model's faulty step; (b) `rdoc-*` traces
//              (oracle-only): REAL clients with a counter and an array, faults under Sync, automatic
//              resend by the client; counters against the fault-free twin, convergence.
//
// Extra positional arguments: part=raw|docs|all (default all), orc=… (as in proto).

import (
	"context"
	"encoding/json"
	"errors"
	"fmt"
	"math"
	"math/rand"
	"os"
	"sort"
	"strconv"
	"strings"
	"sync"

	"github.com/yorkie-team/yorkie/api/converter"
	"github.com/yorkie-team/yorkie/api/types"
	"github.com/yorkie-team/yorkie/client"
	"github.com/yorkie-team/yorkie/pkg/document"
	"github.com/yorkie-team/yorkie/pkg/document/change"
	yjson "github.com/yorkie-team/yorkie/pkg/document/json"
	"github.com/yorkie-team/yorkie/pkg/document/presence"
	"github.com/yorkie-team/yorkie/pkg/document/time"
	"github.com/yorkie-team/yorkie/pkg/key"
	"github.com/yorkie-team/yorkie/server/backend/database"
	"github.com/yorkie-team/yorkie/server/documents"
	"github.com/yorkie-team/yorkie/server/packs"
)

func init() {
	register("compact", runCompact)
	register("faults", runFaults)
}

// ---------------------------------------------------------------- fault-injecting proxy

const faultMsg = "verif injected fault"

type faultReport struct {
	armed bool
	call  string
	nth   int
	after bool
	count int  // calls of `call` seen while armed
	fired bool // the nth call happened and the injected error was returned
}

// faultDB wraps the server's database.Database (exported field Backend.DB).  Only the methods that
// the four document handlers and packs.PushPull call are intercepted.
type faultDB struct {
	database.Database
	mu  sync.Mutex
	rep faultReport
}

func (f *faultDB) arm(call string, nth int, after bool) {
	f.mu.Lock()
	defer f.mu.Unlock()
	f.rep = faultReport{armed: true, call: call, nth: nth, after: after}
}

func (f *faultDB) disarm() faultReport {
	f.mu.Lock()
	defer f.mu.Unlock()
	r := f.rep
	f.rep = faultReport{}
	return r
}

// hit reports whether this call is the armed one, and whether the fault comes after the effect.
func (f *faultDB) hit(method string) (bool, bool) {
	f.mu.Lock()
	defer f.mu.Unlock()
	if !f.rep.armed || f.rep.call != method {
		return false, false
	}
	f.rep.count++
	if f.rep.count != f.rep.nth {
		return false, false
	}
	return true, f.rep.after
}

func (f *faultDB) fire() error {
	f.mu.Lock()
	f.rep.fired = true
	f.mu.Unlock()
	return errors.New(faultMsg)
}

func (f *faultDB) FindClientInfoByRefKey(ctx context.Context, k types.ClientRefKey, skip ...bool) (*database.ClientInfo, error) {
	hit, after := f.hit("FindClientInfoByRefKey")
	if hit && !after {
		return nil, f.fire()
	}
	r, err := f.Database.FindClientInfoByRefKey(ctx, k, skip...)
	if hit && err == nil {
		return nil, f.fire()
	}
	return r, err
}

func (f *faultDB) FindDocInfoByRefKey(ctx context.Context, k types.DocRefKey) (*database.DocInfo, error) {
	hit, after := f.hit("FindDocInfoByRefKey")
	if hit && !after {
		return nil, f.fire()
	}
	r, err := f.Database.FindDocInfoByRefKey(ctx, k)
	if hit && err == nil {
		return nil, f.fire()
	}
	return r, err
}

func (f *faultDB) FindOrCreateDocInfo(ctx context.Context, ck types.ClientRefKey, dk key.Key, dp bool) (*database.DocInfo, error) {
	hit, after := f.hit("FindOrCreateDocInfo")
	if hit && !after {
		return nil, f.fire()
	}
	r, err := f.Database.FindOrCreateDocInfo(ctx, ck, dk, dp)
	if hit && err == nil {
		return nil, f.fire()
	}
	return r, err
}

func (f *faultDB) TryAttaching(ctx context.Context, ck types.ClientRefKey, d types.ID) (*database.ClientInfo, error) {
	hit, after := f.hit("TryAttaching")
	if hit && !after {
		return nil, f.fire()
	}
	r, err := f.Database.TryAttaching(ctx, ck, d)
	if hit && err == nil {
		return nil, f.fire()
	}
	return r, err
}

func (f *faultDB) CreateChangeInfos(ctx context.Context, k types.DocRefKey, cp change.Checkpoint,
	chs []*database.ChangeInfo, rm bool) (*database.DocInfo, change.Checkpoint, error) {
	hit, after := f.hit("CreateChangeInfos")
	if hit && !after {
		return nil, change.InitialCheckpoint, f.fire()
	}
	r, c2, err := f.Database.CreateChangeInfos(ctx, k, cp, chs, rm)
	if hit && err == nil {
		return nil, change.InitialCheckpoint, f.fire()
	}
	return r, c2, err
}

func (f *faultDB) FindChangeInfosBetweenServerSeqs(ctx context.Context, k types.DocRefKey, from, to int64) ([]*database.ChangeInfo, error) {
	hit, after := f.hit("FindChangeInfosBetweenServerSeqs")
	if hit && !after {
		return nil, f.fire()
	}
	r, err := f.Database.FindChangeInfosBetweenServerSeqs(ctx, k, from, to)
	if hit && err == nil {
		return nil, f.fire()
	}
	return r, err
}

func (f *faultDB) UpdateMinVersionVector(ctx context.Context, ci *database.ClientInfo, k types.DocRefKey,
	v time.VersionVector) (time.VersionVector, error) {
	hit, after := f.hit("UpdateMinVersionVector")
	if hit && !after {
		return nil, f.fire()
	}
	r, err := f.Database.UpdateMinVersionVector(ctx, ci, k, v)
	if hit && err == nil {
		return nil, f.fire()
	}
	return r, err
}

func (f *faultDB) UpdateClientInfoAfterPushPull(ctx context.Context, ci *database.ClientInfo, di *database.DocInfo) error {
	hit, after := f.hit("UpdateClientInfoAfterPushPull")
	if hit && !after {
		return f.fire()
	}
	err := f.Database.UpdateClientInfoAfterPushPull(ctx, ci, di)
	if hit && err == nil {
		return f.fire()
	}
	return err
}

// fault points of one request, in call order (Model/ServerFault.lean header)
type faultPoint struct {
	call string
	nth  int
}

func faultPointsOf(kind string) []faultPoint {
	if kind == "ATT" {
		return []faultPoint{{"FindClientInfoByRefKey", 1}, {"FindOrCreateDocInfo", 1}, {"TryAttaching", 1},
			{"FindDocInfoByRefKey", 1}, {"CreateChangeInfos", 1}, {"FindChangeInfosBetweenServerSeqs", 1},
			{"UpdateMinVersionVector", 1}, {"UpdateClientInfoAfterPushPull", 1}}
	}
	return []faultPoint{{"FindClientInfoByRefKey", 1}, {"FindDocInfoByRefKey", 1}, {"FindDocInfoByRefKey", 2},
		{"CreateChangeInfos", 1}, {"FindChangeInfosBetweenServerSeqs", 1},
		{"UpdateMinVersionVector", 1}, {"UpdateClientInfoAfterPushPull", 1}}
}

// inWindow: the fault left "changes committed, client checkpoint not persisted":
// CreateChangeInfos:after … UpdateClientInfoAfterPushPull:before
func (r faultReport) inWindow() bool {
	if !r.fired {
		return false
	}
	switch r.call {
	case "CreateChangeInfos":
		return r.after
	case "FindChangeInfosBetweenServerSeqs", "UpdateMinVersionVector":
		return true
	case "UpdateClientInfoAfterPushPull":
		return !r.after
	}
	return false
}

func (t *protoTrace) execFLT(c *Ctx, toks []string) string {
	nth, _ := strconv.Atoi(protoArg(toks, "nth"))
	t.s.flt.arm(protoArg(toks, "call"), nth, protoArg(toks, "when") == "after")
	return "FLT ok"
}

// ---------------------------------------------------------------- oracles

func o10(c *Ctx, f string, a ...any) {
	if protoOrcOn("c10") {
		c.Oracle(f, a...)
	}
}

func o05(c *Ctx, f string, a ...any) {
	if protoOrcOn("c05") {
		c.Oracle(f, a...)
	}
}

func (t *protoTrace) keyDoc(k int) (*database.DocInfo, int) {
	info, err := t.s.db.FindDocInfoByKey(context.Background(), t.s.proj[t.proj].ID, key.Key(t.keyStr(k)))
	if err != nil {
		return nil, -1
	}
	for i, d := range t.docs {
		if d == info.ID {
			return info, i
		}
	}
	return info, -1
}

// rowsOf: the stored log as "serverSeq:actor:clientSeq:tag:kind" strings.
func (t *protoTrace) rowsOf(ref types.DocRefKey) []string {
	rows, _ := t.s.db.FindChangeInfosBetweenServerSeqs(context.Background(), ref, 1, math.MaxInt64)
	var rs []string
	for _, r := range rows {
		a, _ := time.ActorIDFromHex(r.ActorID.String())
		rs = append(rs, fmt.Sprintf("%d:%s:%d:%s:%s", r.ServerSeq, t.actorName(a), r.ClientSeq, protoTag(r.Message),
			protoKind(len(r.Operations) > 0, r.PresenceChange != nil)))
	}
	return rs
}

func compactErrKind(err error) string {
	switch {
	case err == nil:
		return ""
	case errors.Is(err, packs.ErrDocumentAttached):
		return "documentAttached"
	case errors.Is(err, database.ErrDocumentNotFound):
		return "documentNotFound"
	case strings.Contains(err.Error(), "content mismatch after rebuild"):
		return "contentMismatch"
	case strings.Contains(err.Error(), "invalid changes size"):
		return "invalidSize"
	}
	m := err.Error()
	if len(m) > 100 {
		m = m[:100]
	}
	return "other:" + strings.ReplaceAll(m, " ", "_")
}

// compact: Yorkie.CompactDocument works on the default project; for the RemoveOnDetach project the same
// three steps (exclusive document lock, lookup by key, packs.Compact) are done here.
func (t *protoTrace) compact(ctx context.Context, k key.Key, force bool) error {
	if t.proj == 0 {
		return t.s.svr.CompactDocument(ctx, k, force)
	}
	be := t.s.svr.Backend()
	project := t.s.proj[t.proj]
	locker := be.Lockers.Locker(packs.DocKey(project.ID, k))
	defer locker.Unlock()
	docInfo, err := documents.FindDocInfoByKey(ctx, be, project, k)
	if err != nil {
		return err
	}
	return packs.Compact(ctx, be, project.ID, docInfo, force)
}

func (t *protoTrace) execCP(c *Ctx, toks []string) string {
	ctx := context.Background()
	k := protoRef(toks[1])
	force := protoArg(toks, "force") == "1"
	before, di := t.keyDoc(k)
	var dumpBefore string
	held := false
	if before != nil && di >= 0 {
		dumpBefore = t.showLog(di)
		held, _ = t.s.db.IsDocumentAttachedOrAttaching(ctx, t.docRef(di), "")
	}
	err := t.compact(ctx, key.Key(t.keyStr(k)), force)
	kind := compactErrKind(err)
	c.Count("c10:CP:" + map[bool]string{true: "ok", false: kind}[kind == ""] + map[bool]string{true: ":force", false: ""}[force])
	if before == nil || di < 0 {
		if kind != "documentNotFound" {
			o10(c, "CP k%d: no live document has this key but the result is %q", k, kind)
		}
		return "C err=" + kind
	}
	after, err2 := t.s.db.FindDocInfoByRefKey(ctx, t.docRef(di))
	if err2 != nil {
		o10(c, "CP k%d: document d%d vanished", k, di)
		return "C err=" + kind
	}
	dumpAfter := t.showLog(di)
	refused := kind == "documentAttached"
	if refused != (held && !force) {
		o10(c, "CP k%d force=%v: held=%v but result %q (compaction must be refused iff the document is attached/attaching and not forced)",
			k, force, held, kind)
	}
	if kind != "" {
		if dumpAfter != dumpBefore {
			o10(c, "CP k%d failed with %s but the stored state changed: %s -> %s", k, kind, dumpBefore, dumpAfter)
		}
		return "C err=" + kind
	}
	// success
	if after.Epoch != before.Epoch+1 {
		o10(c, "CP k%d ok: epoch %d -> %d (must increase by exactly one)", k, before.Epoch, after.Epoch)
	}
	rows := t.rowsOf(t.docRef(di))
	if len(rows) > 1 || int64(len(rows)) != after.ServerSeq {
		o10(c, "CP k%d ok: %d rows, serverSeq %d (must be one change with serverSeq 1, or none with 0)", k, len(rows), after.ServerSeq)
	}
	if i := strings.Index(dumpAfter, " vv=["); i < 0 || !strings.HasPrefix(dumpAfter[i:], " vv=[] ") {
		o10(c, "CP k%d ok: version-vector rows of the old generation survive: %s", k, dumpAfter)
	}
	cl := func(s string) string {
		if i := strings.Index(s, " clients=["); i >= 0 {
			return s[i:]
		}
		return s
	}
	if cl(dumpBefore) != cl(dumpAfter) {
		o10(c, "CP k%d ok: client rows changed: %s -> %s", k, cl(dumpBefore), cl(dumpAfter))
	}
	if !after.RemovedAt.Equal(before.RemovedAt) || after.DisablePresence != before.DisablePresence {
		o10(c, "CP k%d ok: removed/disablePresence changed", k)
	}
	if t.epochs == nil {
		t.epochs = map[int]int64{}
	}
	t.epochs[di] = after.Epoch
	return "C ok"
}

// logOracles10: the log is serverSeq 1..N with head N also after compactions.
func (t *protoTrace) logOracles10(c *Ctx, di int) {
	if !protoOrcOn("c10") || di < 0 || di >= len(t.docs) {
		return
	}
	ctx := context.Background()
	info, err := t.s.db.FindDocInfoByRefKey(ctx, t.docRef(di))
	if err != nil {
		return
	}
	rows, _ := t.s.db.FindChangeInfosBetweenServerSeqs(ctx, t.docRef(di), 1, math.MaxInt64)
	for i, r := range rows {
		if r.ServerSeq != int64(i+1) {
			o10(c, "d%d: log row %d has serverSeq %d (gap or duplicate)", di, i, r.ServerSeq)
			break
		}
	}
	if int64(len(rows)) != info.ServerSeq {
		o10(c, "d%d: %d rows but document serverSeq %d", di, len(rows), info.ServerSeq)
	}
}

type pre10State struct {
	on     bool
	stale  bool
	status string
	rows   []string
	head   int64
	epoch  int64
	dp     bool
}

func (t *protoTrace) pre10(ci, di int) pre10State {
	p := pre10State{}
	if !protoOrcOn("c10") || di < 0 || di >= len(t.docs) {
		return p
	}
	ctx := context.Background()
	info, err := t.s.db.FindDocInfoByRefKey(ctx, t.docRef(di))
	if err != nil {
		return p
	}
	p.on = true
	p.rows = t.rowsOf(t.docRef(di))
	p.head, p.epoch, p.dp = info.ServerSeq, info.Epoch, info.DisablePresence
	if ci >= 0 && ci < len(t.cids) {
		if cinfo, err := t.s.db.FindClientInfoByRefKey(ctx,
			types.ClientRefKey{ProjectID: t.s.proj[t.proj].ID, ClientID: types.ID(t.cids[ci])}); err == nil {
			if d := cinfo.Documents[t.docs[di]]; d != nil && cinfo.Status == database.ClientActivated {
				p.status = d.Status
				p.stale = (d.Status == database.DocumentAttached || d.Status == database.DocumentAttaching) && d.Epoch != info.Epoch
			}
		}
	}
	return p
}

// post10: C10 oracles for one request (after the C04/C11 ones).
func (t *protoTrace) post10(c *Ctx, kind string, ci, di int, p pre10State, r *protoResp, toks []string) {
	if !protoOrcOn("c10") {
		return
	}
	ctx := context.Background()
	if t.epochs == nil {
		t.epochs = map[int]int64{}
	}
	// nothing but a compaction changes an epoch
	for i := range t.docs {
		info, err := t.s.db.FindDocInfoByRefKey(ctx, t.docRef(i))
		if err != nil {
			continue
		}
		if old, ok := t.epochs[i]; ok && old != info.Epoch {
			o10(c, "%s by c%d changed the epoch of d%d: %d -> %d", kind, ci, i, old, info.Epoch)
		}
		t.epochs[i] = info.Epoch
	}
	if !p.on || di < 0 || di >= len(t.docs) {
		return
	}
	rows := t.rowsOf(t.docRef(di))
	if p.stale {
		c.Count("c10:stale:" + kind + ":" + map[bool]string{true: "ok", false: r.err}[r.err == ""])
		if strings.Join(rows, ";") != strings.Join(p.rows, ";") {
			o10(c, "%s by stale client c%d (old epoch) changed the log of d%d: [%s] -> [%s]", kind, ci, di,
				strings.Join(p.rows, ";"), strings.Join(rows, ";"))
		}
		switch kind {
		case "PP":
			if r.err == "" {
				if protoArg(toks, "pushonly") == "1" {
					o10(c, "push-only PP by stale client c%d on d%d is answered ok (cp=%d,%d) instead of ErrEpochMismatch",
						ci, di, r.cp.ServerSeq, r.cp.ClientSeq)
				} else {
					o10(c, "PP by stale client c%d on d%d is answered ok instead of ErrEpochMismatch", ci, di)
				}
			} else if r.err != "epochMismatch" && r.err != "invalidClientSeq" {
				o10(c, "PP by stale client c%d on d%d: %s instead of ErrEpochMismatch", ci, di, r.err)
			}
		case "DET", "REM":
			if r.err != "" && r.err != "invalidClientSeq" {
				o10(c, "%s by stale client c%d on d%d failed with %s (a stale detach/remove must succeed)", kind, ci, di, r.err)
			}
			if r.err == "" {
				if st := t.storedStatus(ci, di); st == database.DocumentAttached || st == database.DocumentAttaching {
					o10(c, "%s by stale client c%d on d%d ok but the attachment is still %q", kind, ci, di, st)
				}
				if t.hasVVRow(di, ci) {
					o10(c, "%s by stale client c%d on d%d ok but its version-vector row is still there", kind, ci, di)
				}
			}
		}
	}
	// an attach with a fresh Document is answered from the current generation: every stored row
	// (other actors), in order, and the checkpoint is the head
	if kind == "ATT" && r.err == "" && protoArg(toks, "cp") == "0,0" && !p.dp && !r.snap && !t.forged[di] {
		me := fmt.Sprintf("c%d", ci)
		var want, got []string
		for _, x := range p.rows {
			f := strings.Split(x, ":")
			if f[1] != me {
				want = append(want, strings.Join(f[:3], ":"))
			}
		}
		for _, ch := range r.changes {
			a := t.actorName(ch.ID().ActorID())
			if a != me {
				got = append(got, fmt.Sprintf("%d:%s:%d", ch.ServerSeq(), a, ch.ClientSeq()))
			}
		}
		if strings.Join(want, ";") != strings.Join(got, ";") {
			o10(c, "ATT c%d d%d (epoch %d): received %v but the stored generation is %v", ci, di, p.epoch, got, want)
		}
		if h := t.head(di); r.cp.ServerSeq != h {
			o10(c, "ATT c%d d%d: response checkpoint serverSeq %d, head %d", ci, di, r.cp.ServerSeq, h)
		}
		if p.epoch > 0 {
			c.Count("c10:fresh-attach-after-compaction")
		}
	}
}

// ---------------------------------------------------------------- line-level client tracker

// simView: what an honest client knows about one attachment, reconstructed from command lines and
// responses (used to build follow-up requests after a replayed prefix).
type simView struct {
	ci, di, key int
	open        bool
	cp          change.Checkpoint
	next        uint32 // next clientSeq to use
	unacked     string // chg= list sent but not acknowledged ("" = none)
	lam         int64
	nogc        bool
}

type simTracker struct {
	views  map[[2]int]*simView // (client, key)
	active map[int]bool
	nACT   int
}

func newSimTracker() *simTracker { return &simTracker{views: map[[2]int]*simView{}, active: map[int]bool{}} }

func maxClientSeq(chg string) (uint32, int64) {
	var m uint32
	var lam int64
	if chg == "" || chg == "-" {
		return 0, 0
	}
	for _, one := range strings.Split(chg, ",") {
		p := strings.Split(one, ":")
		if len(p) < 4 {
			continue
		}
		cs, _ := strconv.ParseUint(p[0], 10, 32)
		l, _ := strconv.ParseInt(p[1], 10, 64)
		if uint32(cs) > m {
			m = uint32(cs)
		}
		if l > lam {
			lam = l
		}
	}
	return m, lam
}

// unackedOf keeps the changes of `chg` with clientSeq > acked.
func unackedOf(chg string, acked uint32) string {
	if chg == "" || chg == "-" {
		return ""
	}
	var keep []string
	for _, one := range strings.Split(chg, ",") {
		p := strings.Split(one, ":")
		cs, _ := strconv.ParseUint(p[0], 10, 32)
		if uint32(cs) > acked {
			keep = append(keep, one)
		}
	}
	return strings.Join(keep, ",")
}

func (st *simTracker) observe(line string, r *protoResp, keyOfDoc func(int) int) {
	toks := strings.Fields(line)
	if len(toks) == 0 || r == nil {
		return
	}
	switch toks[0] {
	case "ACT":
		if r.err == "" {
			st.active[r.client] = true
		}
		st.nACT++
	case "DEACT":
		if r.err == "" {
			ci := protoRef(toks[1])
			st.active[ci] = false
			for k, v := range st.views {
				if k[0] == ci {
					v.open = false
				}
			}
		}
	case "ATT":
		ci, k := protoRef(toks[1]), protoRef(toks[2])
		if r.err != "" {
			return
		}
		m, lam := maxClientSeq(protoArg(toks, "chg"))
		v := &simView{ci: ci, di: r.doc, key: k, open: true, cp: r.cp, next: m + 1, lam: lam, nogc: protoArg(toks, "nogc") == "1"}
		if v.next == 0 {
			v.next = 1
		}
		v.unacked = unackedOf(protoArg(toks, "chg"), r.cp.ClientSeq)
		if r.removed {
			v.open = false
		}
		st.views[[2]int{ci, k}] = v
	case "PP", "DET", "REM":
		ci, di := protoRef(toks[1]), protoRef(toks[2])
		if di < 0 {
			return
		}
		v := st.views[[2]int{ci, keyOfDoc(di)}]
		if v == nil || v.di != di {
			return
		}
		chg := protoArg(toks, "chg")
		m, lam := maxClientSeq(chg)
		if m+1 > v.next {
			v.next = m + 1
		}
		if lam > v.lam {
			v.lam = lam
		}
		if r.err != "" || protoArg(toks, "lost") == "1" {
			if u := unackedOf(chg, v.cp.ClientSeq); u != "" {
				v.unacked = u
			}
			return
		}
		v.cp = r.cp
		v.unacked = unackedOf(chg, r.cp.ClientSeq)
		for _, ch := range r.changes {
			if ch.ID().Lamport() > v.lam {
				v.lam = ch.ID().Lamport()
			}
		}
		if toks[0] != "PP" || r.removed {
			v.open = false
		}
	}
}

func (st *simTracker) sorted() []*simView {
	var l []*simView
	for _, v := range st.views {
		l = append(l, v)
	}
	sort.Slice(l, func(i, j int) bool {
		if l[i].ci != l[j].ci {
			return l[i].ci < l[j].ci
		}
		return l[i].key < l[j].key
	})
	return l
}

// xRun: protoRun + tracker
type xRun struct {
	*protoRun
	st      *simTracker
	lastObs string
}

func newXRun(c *Ctx, s *protoSrv) *xRun {
	return &xRun{protoRun: &protoRun{c: c, t: newProtoTrace(s)}, st: newSimTracker()}
}

func (x *xRun) do(line string) *protoResp {
	l2, obs := x.t.exec(x.c, line)
	x.c.Cmd("%s", l2)
	x.c.Obs("%s", obs)
	x.lastObs = obs
	r := x.t.last
	if r == nil {
		return &protoResp{err: "none"}
	}
	if r.err == "" {
		x.ok = true
	} else {
		x.no = true
	}
	x.st.observe(line, r, func(di int) int {
		if di >= 0 && di < len(x.t.dkey) {
			return x.t.dkey[di]
		}
		return -1
	})
	return r
}

// dumps: the stored state of every document of the trace (log, head, epoch, vv rows, client rows)
func (x *xRun) dumps() []string {
	var out []string
	for i := range x.t.docs {
		out = append(out, x.t.showLog(i))
	}
	return out
}

// pendingOf: the chg= list an honest client sends now: its unacknowledged changes, plus `extra` new edits.
func (v *simView) chg(extra int, kind string, tag *int) string {
	parts := []string{}
	if v.unacked != "" {
		parts = append(parts, v.unacked)
	}
	for i := 0; i < extra; i++ {
		*tag++
		lam := int64(0)
		if kind != "pres" {
			v.lam++
			lam = v.lam
		}
		parts = append(parts, fmt.Sprintf("%d:%d:%s:%d", v.next, lam, kind, *tag))
		v.next++
	}
	if len(parts) == 0 {
		return "-"
	}
	return strings.Join(parts, ",")
}

func (v *simView) vv() string {
	if v.lam == 0 {
		return "{}"
	}
	return fmt.Sprintf("{c%d:%d}", v.ci, v.lam)
}

func (v *simView) opts() string {
	if v.nogc {
		return " nogc=1"
	}
	return ""
}

// baseHistory runs one (short) honest schedule as its own trace and returns its request lines.
func baseHistory(c *Ctx, id string, maxSteps int) []string {
	c.Trace(id)
	protoMaxSteps = maxSteps
	protoSchedule(c, protoServer(), false)
	protoMaxSteps = 0
	var lines []string
	for _, l := range c.traceLines {
		if !strings.HasPrefix(l, "LOG ") {
			lines = append(lines, l)
		}
	}
	return lines
}

func isDocRequest(l string) bool {
	return strings.HasPrefix(l, "ATT ") || strings.HasPrefix(l, "PP ") || strings.HasPrefix(l, "DET ") || strings.HasPrefix(l, "REM ")
}

func xPart() string {
	for _, a := range os.Args[2:] {
		if strings.HasPrefix(a, "part=") {
			return a[5:]
		}
	}
	return "all"
}

func xReplay(c *Ctx) {
	var x *xRun
	for _, l := range c.Replay {
		if strings.HasPrefix(l, "T ") {
			if x != nil && x.ok && x.no {
				c.Nontrivial()
			}
			c.Trace(strings.TrimPrefix(l, "T "))
			x = newXRun(c, protoServer())
			continue
		}
		if x == nil {
			c.Trace("replay")
			x = newXRun(c, protoServer())
		}
		x.do(l)
	}
}

// docReplay: `T cdoc-<seed>-<i>` / `T rdoc-<seed>-<i>` traces are regenerated from their own PRNG.
func docReplay(c *Ctx, prefix string, one func(c *Ctx, seed int64, i int)) bool {
	found := false
	for _, l := range c.Replay {
		var seed int64
		var idx int
		if n, _ := fmt.Sscanf(l, "T "+prefix+"-%d-%d", &seed, &idx); n == 2 {
			one(c, seed, idx)
			found = true
		}
	}
	return found
}

// ---------------------------------------------------------------- engine compact

func runCompact(c *Ctx) error {
	c.stats.Rule = "compact: a raw trace is non-trivial when a compaction succeeded and afterwards at least one request of a " +
		"stale client (old epoch) and one fresh attach were answered; a cdoc trace when the compaction succeeded on a " +
		"document with at least 3 content edits and the fresh attacher's content was compared; distinct by trace hash"
	protoServer()
	protoParseOpts(c)
	if c.Replay != nil {
		if !docReplay(c, "cdoc", cdocTrace) {
			xReplay(c)
		}
		return nil
	}
	part := xPart()
	for i := 0; i < c.N; i++ {
		if part == "all" || part == "raw" {
			base := baseHistory(c, fmt.Sprintf("cbase-%d-%d", c.Seed, i), 12)
			compactVariants(c, base, i)
			c.Trace(fmt.Sprintf("crand-%d-%d", c.Seed, i))
			compactRandom(c)
		}
		if (part == "all" || part == "docs") && i%3 == 0 {
			cdocTrace(c, c.Seed, i)
		}
	}
	return nil
}

// compactFollowUps: after a compaction attempt, one of six mixes of stale syncs (with/without unsent
// edits, push-only), stale detach/remove, fresh attaches and a second compaction.
func compactFollowUps(x *xRun, mix int, k int, tag *int) (staleAnswered, freshAttached bool) {
	r := x.c.Rng
	views := x.st.sorted()
	var holders []*simView
	for _, v := range views {
		if v.open && v.key == k && x.st.active[v.ci] {
			holders = append(holders, v)
		}
	}
	stale := func(v *simView, what int) {
		d := fmt.Sprintf("d%d", v.di)
		cp := fmt.Sprintf("%d,%d", v.cp.ServerSeq, v.cp.ClientSeq)
		var res *protoResp
		switch what {
		case 0: // sync, nothing new
			res = x.do(fmt.Sprintf("PP c%d %s cp=%s chg=%s vv=%s%s", v.ci, d, cp, v.chg(0, "ops", tag), v.vv(), v.opts()))
		case 1: // sync with unsent edits
			res = x.do(fmt.Sprintf("PP c%d %s cp=%s chg=%s vv=%s%s", v.ci, d, cp, v.chg(1+r.Intn(2), "ops", tag), v.vv(), v.opts()))
		case 2: // push-only sync with an unsent edit
			res = x.do(fmt.Sprintf("PP c%d %s cp=%s chg=%s vv=%s pushonly=1%s", v.ci, d, cp, v.chg(1, "ops", tag), v.vv(), v.opts()))
		case 3: // detach (SDK adds the presence-clear change)
			res = x.do(fmt.Sprintf("DET c%d %s cp=%s chg=%s vv=%s", v.ci, d, cp, v.chg(1, "pres", tag), v.vv()))
		case 4: // detach carrying an unsent edit
			res = x.do(fmt.Sprintf("DET c%d %s cp=%s chg=%s vv=%s", v.ci, d, cp, v.chg(1, "ops", tag), v.vv()))
		default: // remove
			res = x.do(fmt.Sprintf("REM c%d %s cp=%s chg=%s vv=%s rm=1", v.ci, d, cp, v.chg(0, "ops", tag), v.vv()))
		}
		if res != nil && res.err != "none" {
			staleAnswered = true
		}
	}
	fresh := func(withEdit bool) *simView {
		res := x.do("ACT")
		if res.err != "" {
			return nil
		}
		ci := res.client
		*tag++
		chg := fmt.Sprintf("1:0:pres:%d", *tag)
		vv := "{}"
		if withEdit {
			*tag++
			chg += fmt.Sprintf(",2:1:ops:%d", *tag)
			vv = fmt.Sprintf("{c%d:1}", ci)
		}
		a := x.do(fmt.Sprintf("ATT c%d k%d cp=0,0 chg=%s vv=%s", ci, k, chg, vv))
		if a.err == "" {
			freshAttached = true
		}
		return x.st.views[[2]int{ci, k}]
	}
	switch mix {
	case 0: // every holder syncs without and then with unsent edits, then a fresh attach
		for _, v := range holders {
			stale(v, 0)
			stale(v, 1)
		}
		fresh(false)
	case 1: // fresh attach first, then stale syncs, then stale detaches, then another fresh attach
		fresh(true)
		for _, v := range holders {
			stale(v, 1)
		}
		for _, v := range holders {
			stale(v, 3+r.Intn(2))
		}
		fresh(false)
	case 2: // push-only syncs and removes
		for _, v := range holders {
			stale(v, 2)
			stale(v, 0)
		}
		fresh(false)
		for _, v := range holders {
			stale(v, 5)
		}
		fresh(false)
	case 3: // stale detach immediately, the same client re-attaches with a fresh Document
		for _, v := range holders {
			stale(v, 3)
			*tag++
			a := x.do(fmt.Sprintf("ATT c%d k%d cp=0,0 chg=1:0:pres:%d vv={}", v.ci, k, *tag))
			if a.err == "" {
				freshAttached = true
			}
		}
		fresh(true)
	case 4: // fresh clients work in the new generation, compaction again, stale clients of both generations
		f1 := fresh(true)
		if f1 != nil && f1.open {
			x.do(fmt.Sprintf("PP c%d d%d cp=%d,%d chg=%s vv=%s", f1.ci, f1.di, f1.cp.ServerSeq, f1.cp.ClientSeq, f1.chg(1, "ops", tag), f1.vv()))
		}
		x.do(fmt.Sprintf("CP k%d force=0", k))
		x.do(fmt.Sprintf("CP k%d force=1", k))
		for _, v := range holders {
			stale(v, r.Intn(3))
		}
		if f1 != nil && f1.open {
			stale(f1, 1)
			stale(f1, 3)
		}
		fresh(false)
	default: // random mix
		n := 3 + r.Intn(5)
		for i := 0; i < n; i++ {
			if len(holders) > 0 && r.Intn(3) != 0 {
				v := holders[r.Intn(len(holders))]
				if v.open {
					stale(v, r.Intn(6))
					continue
				}
			}
			fresh(r.Intn(2) == 0)
		}
	}
	return
}

// compactVariants: for EVERY prefix of the base history (every quiescent point): compaction
// (normal, then forced when refused) followed by one of the six follow-up mixes.
func compactVariants(c *Ctx, base []string, bi int) {
	tag := 100000
	for cut := 1; cut <= len(base); cut++ {
		if cut < len(base) && !isDocRequest(base[cut-1]) && !strings.HasPrefix(base[cut-1], "DEACT") {
			continue
		}
		c.Trace(fmt.Sprintf("cvar-%d-%d-%d", c.Seed, bi, cut))
		x := newXRun(c, protoServer())
		for _, l := range base[:cut] {
			x.do(l)
		}
		// the keys in use
		keys := map[int]bool{}
		for _, v := range x.st.views {
			keys[v.key] = true
		}
		var ks []int
		for k := range keys {
			ks = append(ks, k)
		}
		sort.Ints(ks)
		if len(ks) == 0 {
			x.do("CP k0 force=0") // no such document
			x.finish()
			continue
		}
		k := ks[c.Rng.Intn(len(ks))]
		compacted := false
		if c.Rng.Intn(3) == 0 {
			// everybody detaches first (the SDK's presence-clear change rides along): normal compaction succeeds
			for _, v := range x.st.sorted() {
				if v.open && v.key == k && x.st.active[v.ci] {
					x.do(fmt.Sprintf("DET c%d d%d cp=%d,%d chg=%s vv=%s", v.ci, v.di, v.cp.ServerSeq, v.cp.ClientSeq, v.chg(1, "pres", &tag), v.vv()))
				}
			}
		}
		x.do(fmt.Sprintf("CP k%d force=0", k))
		if x.lastObs == "C ok" {
			compacted = true
		} else if x.lastObs == "C err=documentAttached" {
			if c.Rng.Intn(8) != 0 {
				x.do(fmt.Sprintf("CP k%d force=1", k))
				compacted = x.lastObs == "C ok"
			}
		}
		sa, fa := compactFollowUps(x, (cut+bi)%6, k, &tag)
		x.finish()
		if compacted && fa {
			if sa {
				c.Nontrivial()
			}
			c.Count("c10:variant-compacted-and-fresh-attach")
		}
	}
}

// compactRandom: a longer random history in which compactions happen anywhere.
func compactRandom(c *Ctx) {
	r := c.Rng
	x := newXRun(c, protoServer())
	if r.Intn(6) == 0 {
		x.do("CFG rod=1")
	}
	tag := 200000
	nKeys := 1 + r.Intn(2)
	n := 2 + r.Intn(3)
	for i := 0; i < n; i++ {
		x.do("ACT")
	}
	compacted, sa, fa := false, false, false
	steps := 15 + r.Intn(30)
	for s := 0; s < steps; s++ {
		k := r.Intn(nKeys)
		switch y := r.Intn(100); {
		case y < 12:
			force := r.Intn(2)
			x.do(fmt.Sprintf("CP k%d force=%d", k, force))
			if x.lastObs == "C ok" {
				compacted = true
			}
		case y < 16:
			x.do("ACT")
		default:
			// pick a client
			var act []int
			for ci, a := range x.st.active {
				if a {
					act = append(act, ci)
				}
			}
			sort.Ints(act)
			if len(act) == 0 {
				x.do("ACT")
				continue
			}
			ci := act[r.Intn(len(act))]
			v := x.st.views[[2]int{ci, k}]
			if v == nil || !v.open {
				tag++
				chg := fmt.Sprintf("1:0:pres:%d", tag)
				vv := "{}"
				if r.Intn(3) == 0 {
					tag++
					chg += fmt.Sprintf(",2:1:ops:%d", tag)
					vv = fmt.Sprintf("{c%d:1}", ci)
				}
				extra := ""
				if r.Intn(8) == 0 {
					extra = " nogc=1"
				}
				a := x.do(fmt.Sprintf("ATT c%d k%d cp=0,0 chg=%s vv=%s%s", ci, k, chg, vv, extra))
				if a.err == "" && compacted {
					fa = true
				}
				continue
			}
			d := fmt.Sprintf("d%d", v.di)
			cp := fmt.Sprintf("%d,%d", v.cp.ServerSeq, v.cp.ClientSeq)
			var res *protoResp
			switch z := r.Intn(100); {
			case z < 60:
				extra := v.opts()
				if r.Intn(7) == 0 {
					extra += " pushonly=1"
				}
				if r.Intn(10) == 0 {
					extra += " lost=1"
				}
				res = x.do(fmt.Sprintf("PP c%d %s cp=%s chg=%s vv=%s%s", ci, d, cp, v.chg(r.Intn(3), []string{"ops", "ops", "pres", "both"}[r.Intn(4)], &tag), v.vv(), extra))
			case z < 80:
				res = x.do(fmt.Sprintf("DET c%d %s cp=%s chg=%s vv=%s", ci, d, cp, v.chg(1, "pres", &tag), v.vv()))
			case z < 88:
				res = x.do(fmt.Sprintf("REM c%d %s cp=%s chg=%s vv=%s rm=1", ci, d, cp, v.chg(0, "ops", &tag), v.vv()))
			case z < 94:
				res = x.do(fmt.Sprintf("DEACT c%d", ci))
			default: // crafted checkpoint
				res = x.do(fmt.Sprintf("PP c%d %s cp=%d,%d chg=- vv={}", ci, d, v.cp.ServerSeq+int64(r.Intn(3)), v.cp.ClientSeq))
			}
			if res != nil && res.err == "epochMismatch" {
				sa = true
			}
		}
	}
	x.finish()
	if compacted && sa && fa {
		c.Nontrivial()
	}
}

// ---------------------------------------------------------------- real documents (content half of C10)

type realCli struct {
	cli *client.Client
	doc *document.Document
}

func realAttach(s *protoSrv, k string, opts ...interface{}) (*realCli, error) {
	ctx := context.Background()
	cli, err := client.Dial(s.svr.RPCAddr())
	if err != nil {
		return nil, err
	}
	if err := cli.Activate(ctx); err != nil {
		return nil, err
	}
	d := document.New(key.Key(k))
	if err := cli.Attach(ctx, d, opts...); err != nil {
		_ = cli.Close()
		return nil, err
	}
	return &realCli{cli: cli, doc: d}, nil
}

func (r *realCli) close() {
	_ = r.cli.Deactivate(context.Background())
	_ = r.cli.Close()
}

func (r *realCli) drop() { _ = r.cli.Close() }

func docEpoch(s *protoSrv, k string) (*database.DocInfo, []*database.ChangeInfo) {
	ctx := context.Background()
	info, err := s.db.FindDocInfoByKey(ctx, s.proj[0].ID, key.Key(k))
	if err != nil {
		return nil, nil
	}
	rows, _ := s.db.FindChangeInfosBetweenServerSeqs(ctx, info.RefKey(), 1, math.MaxInt64)
	return info, rows
}

// probe: what a fresh attacher receives right now (attach, read, detach).
func probeContent(s *protoSrv, k string) (string, error) {
	p, err := realAttach(s, k)
	if err != nil {
		return "", err
	}
	m := p.doc.Marshal()
	if err := p.cli.Detach(context.Background(), p.doc); err != nil {
		p.drop()
		return m, err
	}
	p.close()
	return m, nil
}

func cdocTrace(c *Ctx, seed int64, i int) {
	c.Trace(fmt.Sprintf("cdoc-%d-%d", seed, i))
	c.Mute = true
	defer func() { c.Mute = false }()
	r := rand.New(rand.NewSource(seed*1000003 + int64(i)))
	s := protoServer()
	ctx := context.Background()
	t := newProtoTrace(s)
	k := "cdoc-" + t.nonce
	c.Cmd("CDOC seed=%d i=%d", seed, i)
	n := 2 + r.Intn(2)
	var cl []*realCli
	defer func() {
		for _, x := range cl {
			x.drop()
		}
	}()
	for j := 0; j < n; j++ {
		x, err := realAttach(s, k)
		if err != nil {
			c.Count("cdoc:setup-failed")
			return
		}
		cl = append(cl, x)
	}
	edits := 0
	edit := func(x *realCli) {
		err := x.doc.Update(func(root *yjson.Object, p *presence.Presence) error {
			c.Count("cdoc:edit:" + randomEdit(r, root, c))
			return nil
		})
		if err == nil {
			edits++
		}
	}
	quiesce := func(xs []*realCli) bool {
		for round := 0; round < 2; round++ {
			for _, x := range xs {
				if err := x.cli.Sync(ctx); err != nil {
					return false
				}
			}
		}
		for _, x := range xs[1:] {
			if x.doc.Marshal() != xs[0].doc.Marshal() {
				return false
			}
		}
		return true
	}
	generations := 1 + r.Intn(2)
	for g := 0; g < generations; g++ {
		steps := 6 + r.Intn(16)
		for st := 0; st < steps; st++ {
			x := cl[r.Intn(len(cl))]
			if r.Intn(10) < 6 {
				edit(x)
			} else if err := x.cli.Sync(ctx); err != nil {
				c.Count("cdoc:pre-sync-error")
				return
			}
		}
		if !quiesce(cl) {
			// not C10's subject (C01/C03 known defects under GC): the precondition "history" is a converged one
			c.Count("cdoc:skipped-not-converged-before")
			return
		}
		// who stays attached (stale after a forced compaction)
		var stay, leave []*realCli
		for _, x := range cl {
			if r.Intn(2) == 0 {
				stay = append(stay, x)
			} else {
				leave = append(leave, x)
			}
		}
		for _, x := range leave {
			if err := x.cli.Detach(ctx, x.doc); err != nil {
				o10(c, "cdoc: detach before compaction failed: %v", err)
				return
			}
			x.close()
		}
		before, err := probeContent(s, k)
		if err != nil {
			c.Count("cdoc:probe-failed")
			return
		}
		if len(stay) > 0 && stay[0].doc.Marshal() != before {
			// the server's own rebuild already differs from the replicas (C02/C03 region) – not C10
			if err := stay[0].cli.Sync(ctx); err != nil || stay[0].doc.Marshal() != before {
				c.Count("cdoc:skipped-server-differs-before")
				return
			}
		}
		info0, rows0 := docEpoch(s, k)
		if info0 == nil {
			return
		}
		held, _ := s.db.IsDocumentAttachedOrAttaching(ctx, info0.RefKey(), "")
		if held != (len(stay) > 0) {
			o10(c, "cdoc: %d clients stay attached but IsDocumentAttachedOrAttaching=%v", len(stay), held)
		}
		err = s.svr.CompactDocument(ctx, key.Key(k), false)
		if len(stay) > 0 {
			if compactErrKind(err) != "documentAttached" {
				o10(c, "cdoc: normal compaction with %d attached clients: %q (must be refused)", len(stay), compactErrKind(err))
				return
			}
			if i1, r1 := docEpoch(s, k); i1.Epoch != info0.Epoch || len(r1) != len(rows0) {
				o10(c, "cdoc: refused compaction changed epoch/log")
			}
			c.Count("cdoc:refused-then-forced")
			err = s.svr.CompactDocument(ctx, key.Key(k), true)
		}
		if err != nil {
			o10(c, "cdoc: compaction of a converged document failed: %s (content before: %s)", compactErrKind(err), before)
			return
		}
		c.Count("cdoc:compacted")
		info1, rows1 := docEpoch(s, k)
		if info1.Epoch != info0.Epoch+1 {
			o10(c, "cdoc: epoch %d -> %d after a successful compaction", info0.Epoch, info1.Epoch)
		}
		if len(rows1) > 1 || int64(len(rows1)) != info1.ServerSeq {
			o10(c, "cdoc: %d rows / serverSeq %d after compaction", len(rows1), info1.ServerSeq)
		}
		// stale clients: with and without unsent edits
		for j, x := range stay {
			if j%2 == 0 {
				edit(x)
				c.Count("cdoc:stale-sync-with-unsent-edit")
			} else {
				c.Count("cdoc:stale-sync-without-edit")
			}
			if r.Intn(4) == 0 {
				c.Count("cdoc:stale-pushonly-sync")
				if err := x.cli.Sync(ctx, client.WithKey(x.doc.Key()).WithPushOnly()); err == nil {
					o10(c, "cdoc: push-only sync of a stale client after compaction returned nil (want ErrEpochMismatch); local changes pending: %v",
						x.doc.HasLocalChanges())
				} else if converter.ErrorCodeOf(err) != "ErrEpochMismatch" {
					o10(c, "cdoc: push-only sync of a stale client after compaction: %v", err)
				}
				if _, r2 := docEpoch(s, k); len(r2) != len(rows1) {
					o10(c, "cdoc: stale push-only sync added rows: %d -> %d", len(rows1), len(r2))
				}
			}
			err := x.cli.Sync(ctx)
			if err == nil || converter.ErrorCodeOf(err) != "ErrEpochMismatch" {
				o10(c, "cdoc: sync of a stale client after compaction: %v (want ErrEpochMismatch)", err)
			}
			if _, r2 := docEpoch(s, k); len(r2) != len(rows1) {
				o10(c, "cdoc: stale sync added rows: %d -> %d", len(rows1), len(r2))
			}
		}
		// a fresh attach yields exactly the compacted content == content before
		after, err := probeContent(s, k)
		if err != nil {
			o10(c, "cdoc: fresh attach after compaction failed: %v", err)
			return
		}
		if after != before {
			o10(c, "cdoc: content received by a fresh attacher changed by compaction: before %s after %s", before, after)
		}
		if edits >= 3 {
			c.Nontrivial()
		}
		for _, x := range stay {
			if err := x.cli.Detach(ctx, x.doc); err != nil {
				o10(c, "cdoc: detach of a stale client failed: %v", err)
			}
			x.close()
		}
		if again, _ := probeContent(s, k); again != before {
			o10(c, "cdoc: content changed after the stale clients detached: before %s after %s", before, again)
		}
		// (an empty root rebuilds to NO change: the new generation then starts with an empty log)
		if _, r3 := docEpoch(s, k); before != "{}" && (len(r3) == 0 || r3[0].ActorID.String() != time.InitialActorID.String()) {
			o10(c, "cdoc: first row of the new generation is not the compacted change (content %s)", before)
		}
		if before == "{}" {
			c.Count("cdoc:compacted-empty-document")
		}
		// the next generation: fresh clients continue on the compacted document
		cl = nil
		for j := 0; j < 2; j++ {
			x, err := realAttach(s, k)
			if err != nil {
				o10(c, "cdoc: attach in the new generation failed: %v", err)
				return
			}
			if x.doc.Marshal() != before {
				o10(c, "cdoc: second fresh attacher differs: %s vs %s", x.doc.Marshal(), before)
			}
			cl = append(cl, x)
		}
	}
	// the new generation works: edits converge
	for st := 0; st < 4; st++ {
		edit(cl[st%2])
	}
	if !quiesce(cl) {
		c.Count("cdoc:post-generation-not-converged")
	}
	for _, x := range cl {
		_ = x.cli.Detach(ctx, x.doc)
		x.close()
	}
	cl = nil
}

// ---------------------------------------------------------------- engine faults

func runFaults(c *Ctx) error {
	c.stats.Rule = "faults: a raw trace is non-trivial when the armed fault fired inside a request that carried at least one " +
		"pushable change and the identical retry was answered; an rdoc trace when at least one fault fired under a Sync " +
		"with local changes and the replicas were compared after the quiescent round; distinct by trace hash"
	protoServer()
	protoParseOpts(c)
	if c.Replay != nil {
		if !docReplay(c, "rdoc", rdocTrace) {
			xReplay(c)
		}
		return nil
	}
	part := xPart()
	for i := 0; i < c.N; i++ {
		if part == "all" || part == "raw" {
			base := baseHistory(c, fmt.Sprintf("fbase-%d-%d", c.Seed, i), 9)
			faultVariants(c, base, i)
		}
		if part == "all" || part == "docs" {
			rdocTrace(c, c.Seed, i)
		}
	}
	return nil
}

type dupKey struct {
	client, att int
	cs          uint32
}

// dupOracle: each (writer attachment, clientSeq) at most once in the stored log.
func (t *protoTrace) dupRows(di int) []string {
	rows, _ := t.s.db.FindChangeInfosBetweenServerSeqs(context.Background(), t.docRef(di), 1, math.MaxInt64)
	seen := map[dupKey]int64{}
	var out []string
	for _, r := range rows {
		w, ok := t.writer[di][r.ServerSeq]
		if !ok || w.client < 0 || !w.honest {
			continue
		}
		k := dupKey{w.client, w.att, r.ClientSeq}
		if first, dup := seen[k]; dup {
			out = append(out, fmt.Sprintf("c%d attachment %d clientSeq %d stored at serverSeq %d and %d", w.client, w.att, r.ClientSeq, first, r.ServerSeq))
		} else {
			seen[k] = r.ServerSeq
		}
	}
	return out
}

// logOracles05 (at every LOG): each (writer attachment, clientSeq) at most once in the stored log.  A
// duplicate is the listed finding only when a fault of this trace fired exactly in the window
// "changes committed, checkpoint not persisted" under a request that carried changes.
func (t *protoTrace) logOracles05(c *Ctx, di int) {
	if !protoOrcOn("c05") || di < 0 || di >= len(t.docs) {
		return
	}
	for _, dup := range t.dupRows(di) {
		if t.window {
			o05(c, "KNOWN[c05-lost-checkpoint-window] d%d: %s (a fault left the changes committed and the client checkpoint not persisted; the resend was stored again)", di, dup)
		} else {
			o05(c, "d%d: %s", di, dup)
		}
	}
}

// faultVariants: every request of the base history x every storage call x before/after (+ response
// loss); then the identical retry, compared with the fault-free twin (the same prefix and the request
// once, no fault); optionally a further edit; a quiescent round; LOG.
func faultVariants(c *Ctx, base []string, bi int) {
	tag := 300000
	for ri, line := range base {
		if !isDocRequest(line) {
			continue
		}
		toks := strings.Fields(line)
		kind := toks[0]
		ci := protoRef(toks[1])
		// the fault-free twin
		c.Trace(fmt.Sprintf("ftwin-%d-%d-%d", c.Seed, bi, ri))
		tw := newXRun(c, protoServer())
		for _, l := range base[:ri] {
			tw.do(l)
		}
		twinPre := strings.Join(tw.dumps(), "\n")
		twinResp := tw.do(line)
		twinDumps := tw.dumps()
		tw.finish()
		pushed := false
		if cs, _ := maxClientSeq(protoArg(toks, "chg")); cs > 0 {
			pushed = true
		}
		pts := faultPointsOf(kind)
		for pi := 0; pi <= 2*len(pts); pi++ {
			flt := "lost"
			if pi < 2*len(pts) {
				flt = fmt.Sprintf("FLT call=%s nth=%d when=%s", pts[pi/2].call, pts[pi/2].nth, []string{"before", "after"}[pi%2])
			}
			c.Trace(fmt.Sprintf("fvar-%d-%d-%d-%d", c.Seed, bi, ri, pi))
			x := newXRun(c, protoServer())
			for _, l := range base[:ri] {
				x.do(l)
			}
			// clients.Deactivate ranges over a Go map: a failing DEACT of the prefix may have detached other
			// documents than in the twin run; then the twin is not this run's twin
			sameStart := strings.Join(x.dumps(), "\n") == twinPre
			if !sameStart {
				c.Count("c05:prefix-differs-from-twin(map-order)")
			}
			var rep faultReport
			var first *protoResp
			if flt == "lost" {
				l := line
				if !strings.Contains(l, " lost=1") {
					l += " lost=1"
				}
				first = x.do(l)
			} else {
				x.do(flt)
				first = x.do(line)
				rep = x.t.fault
			}
			happened := rep.fired || flt == "lost"
			c.Count("c05:fault:" + map[bool]string{true: "fired", false: "not-reached"}[happened])
			window := rep.inWindow() && pushed
			if window {
				c.Count("c05:window")
			}
			if rep.fired && first.err != "internal" {
				o05(c, "fault %s fired but the request was answered %q", flt, first.err)
			}
			if !happened && sameStart && first.err != twinResp.err {
				o05(c, "fault %s was not reached but the request was answered %q (fault-free twin: %q)", flt, first.err, twinResp.err)
			}
			// the identical retry
			retry := x.do(line)
			di := -1
			if kind == "ATT" {
				if retry.err == "" {
					di = retry.doc
				}
			} else {
				di = protoRef(toks[2])
			}
			if happened && sameStart && retry.err != "" && twinResp.err == "" {
				c.Count("c05:retry-refused:" + kind + ":" + retry.err)
				if kind == "PP" {
					o05(c, "retry of %q after %s is refused with %s (fault-free twin: ok)", line, flt, retry.err)
				}
			}
			// state after fault + retry == state after the fault-free request
			got := x.dumps()
			if sameStart && strings.Join(got, "\n") != strings.Join(twinDumps, "\n") {
				msg := fmt.Sprintf("after %s + retry of %q the stored state differs from the fault-free twin: %v vs %v", flt, line, got, twinDumps)
				if window {
					msg = "KNOWN[c05-lost-checkpoint-window] " + msg
				}
				o05(c, "%s", msg)
			}
			// optionally a further edit by the same client
			if di >= 0 && di < len(x.t.dkey) && c.Rng.Intn(2) == 0 {
				if v := x.st.views[[2]int{ci, x.t.dkey[di]}]; v != nil && v.open && v.di == di {
					x.do(fmt.Sprintf("PP c%d d%d cp=%d,%d chg=%s vv=%s%s", ci, di, v.cp.ServerSeq, v.cp.ClientSeq, v.chg(1, "ops", &tag), v.vv(), v.opts()))
				}
			}
			// quiescent round: everybody pulls twice
			for round := 0; round < 2; round++ {
				for _, v := range x.st.sorted() {
					if v.open && x.st.active[v.ci] {
						x.do(fmt.Sprintf("PP c%d d%d cp=%d,%d chg=%s vv=%s%s", v.ci, v.di, v.cp.ServerSeq, v.cp.ClientSeq, v.chg(0, "ops", &tag), v.vv(), v.opts()))
					}
				}
			}
			// oracles on the stored logs
			for d := range x.t.docs {
				if info, err := x.t.s.db.FindDocInfoByRefKey(context.Background(), x.t.docRef(d)); err != nil || info.DisablePresence {
					continue
				}
				// convergence in delivery terms: every open well-behaved client has been sent exactly the
				// other actors' rows
				for k2, tr := range x.t.track {
					if k2[1] != d || !tr.open || !tr.ok || x.t.forged[d] || x.t.removed[d] {
						continue
					}
					v := x.st.views[[2]int{k2[0], x.t.dkey[d]}]
					if v == nil || !v.open || v.di != d || !x.st.active[k2[0]] {
						continue
					}
					// a lifecycle request whose LAST write committed before the error has happened on the server
					// (the client was answered with an error and still thinks it holds the document): not a sync
					if x.t.storedStatus(k2[0], d) != database.DocumentAttached {
						c.Count("c05:lifecycle-step-committed-under-error")
						continue
					}
					me := fmt.Sprintf("c%d", k2[0])
					var want, have []string
					for _, row := range x.t.rowsOf(x.t.docRef(d)) {
						f := strings.Split(row, ":")
						if f[1] != me {
							want = append(want, f[1]+":"+f[2]+":"+f[0])
						}
					}
					for _, a := range tr.applied {
						if !strings.HasPrefix(a, me+":") {
							have = append(have, a)
						}
					}
					if strings.Join(want, ";") != strings.Join(have, ";") {
						msg := fmt.Sprintf("d%d: after the quiescent round c%d holds %v but the log (other actors) is %v (%s + retry)", d, k2[0], have, want, flt)
						if window {
							msg = "KNOWN[c05-lost-checkpoint-window] " + msg
						}
						o05(c, "%s", msg)
					}
				}
			}
			x.finish()
			if happened && pushed {
				c.Nontrivial()
			}
		}
	}
}

// ---------------------------------------------------------------- real clients under faults (counter twin)

func rdocTrace(c *Ctx, seed int64, i int) {
	c.Trace(fmt.Sprintf("rdoc-%d-%d", seed, i))
	c.Mute = true
	defer func() { c.Mute = false }()
	r := rand.New(rand.NewSource(seed*2000003 + int64(i)))
	s := protoServer()
	ctx := context.Background()
	t := newProtoTrace(s)
	k := "rdoc-" + t.nonce
	c.Cmd("RDOC seed=%d i=%d", seed, i)
	var cl []*realCli
	defer func() {
		s.flt.disarm()
		for _, x := range cl {
			x.drop()
		}
	}()
	for j := 0; j < 2; j++ {
		x, err := realAttach(s, k)
		if err != nil {
			c.Count("rdoc:setup-failed")
			return
		}
		cl = append(cl, x)
	}
	if err := cl[0].doc.Update(func(root *yjson.Object, p *presence.Presence) error {
		root.SetNewCounter("n", int32(0))
		root.SetNewArray("a")
		return nil
	}); err != nil {
		return
	}
	for round := 0; round < 2; round++ {
		for _, x := range cl {
			if err := x.cli.Sync(ctx); err != nil {
				c.Count("rdoc:setup-failed")
				return
			}
		}
	}
	// the fault-free twin: the same edits, no faults – its counter is the sum, its array the multiset
	total := int64(0)
	var elems []int
	pts := faultPointsOf("PP")
	window, firedWithChanges := false, false
	steps := 4 + r.Intn(8)
	for st := 0; st < steps; st++ {
		x := cl[r.Intn(2)]
		nEd := r.Intn(3)
		for e := 0; e < nEd; e++ {
			if r.Intn(2) == 0 {
				v := 1 + r.Intn(9)
				_ = x.doc.Update(func(root *yjson.Object, p *presence.Presence) error {
					root.GetCounter("n").Increase(v)
					return nil
				})
				total += int64(v)
			} else {
				v := 100*st + e
				_ = x.doc.Update(func(root *yjson.Object, p *presence.Presence) error {
					root.GetArray("a").AddInteger(v)
					return nil
				})
				elems = append(elems, v)
			}
		}
		hadChanges := x.doc.HasLocalChanges()
		if r.Intn(10) < 7 {
			pt := pts[r.Intn(len(pts))]
			after := r.Intn(2) == 1
			s.flt.arm(pt.call, pt.nth, after)
			err := x.cli.Sync(ctx)
			rep := s.flt.disarm()
			c.Cmd("SYNC-FLT c%d call=%s nth=%d when=%v fired=%v changes=%v", indexOfCli(cl, x), pt.call, pt.nth, after, rep.fired, hadChanges)
			c.Count("rdoc:fault:" + map[bool]string{true: "fired", false: "not-reached"}[rep.fired])
			if rep.fired {
				if err == nil {
					o05(c, "rdoc: fault %s#%d fired but Sync returned nil", pt.call, pt.nth)
				}
				if hadChanges {
					firedWithChanges = true
					if rep.inWindow() {
						window = true
					}
				}
				// the real client keeps its changes and resends them
				if err := x.cli.Sync(ctx); err != nil {
					o05(c, "rdoc: retry after fault %s#%d (after=%v) failed: %v", pt.call, pt.nth, after, err)
				}
			} else if err != nil {
				o05(c, "rdoc: Sync failed without a fired fault: %v", err)
			}
		} else if err := x.cli.Sync(ctx); err != nil {
			o05(c, "rdoc: Sync failed: %v", err)
		}
	}
	for round := 0; round < 2; round++ {
		for _, x := range cl {
			if err := x.cli.Sync(ctx); err != nil {
				o05(c, "rdoc: quiescent sync failed: %v", err)
			}
		}
	}
	tagIt := func(msg string) string {
		if window {
			return "KNOWN[c05-lost-checkpoint-window] " + msg
		}
		return msg
	}
	m0, m1 := cl[0].doc.Marshal(), cl[1].doc.Marshal()
	if m0 != m1 {
		o05(c, "%s", tagIt(fmt.Sprintf("rdoc: replicas differ after the quiescent round: %s vs %s", m0, m1)))
	}
	sort.Ints(elems)
	for j, x := range cl {
		var got struct {
			N int64 `json:"n"`
			A []int `json:"a"`
		}
		if err := json.Unmarshal([]byte(x.doc.Marshal()), &got); err != nil {
			continue
		}
		sort.Ints(got.A)
		if got.N != total {
			o05(c, "%s", tagIt(fmt.Sprintf("rdoc: counter of replica %d is %d, fault-free twin %d", j, got.N, total)))
		}
		if fmt.Sprint(got.A) != fmt.Sprint(elems) && !(len(got.A) == 0 && len(elems) == 0) {
			o05(c, "%s", tagIt(fmt.Sprintf("rdoc: array of replica %d is %v, fault-free twin %v", j, got.A, elems)))
		}
	}
	// the stored log: each (actor, clientSeq) once (one attachment per client in this stream)
	if info, rows := docEpoch(s, k); info != nil {
		seen := map[string]int64{}
		for _, row := range rows {
			kk := fmt.Sprintf("%s:%d", row.ActorID, row.ClientSeq)
			if first, dup := seen[kk]; dup {
				o05(c, "%s", tagIt(fmt.Sprintf("rdoc: (actor, clientSeq=%d) stored at serverSeq %d and %d", row.ClientSeq, first, row.ServerSeq)))
			} else {
				seen[kk] = row.ServerSeq
			}
		}
	}
	if firedWithChanges {
		c.Nontrivial()
	}
	for _, x := range cl {
		_ = x.cli.Detach(ctx, x.doc)
		x.close()
	}
	cl = nil
}

func indexOfCli(cl []*realCli, x *realCli) int {
	for i, y := range cl {
		if y == x {
			return i
		}
	}
	return -1
}
