package main

// engine `srv`: the INTEGRATED tie. Real client.Client values (Dial, Activate, Attach with manual
// sync, Sync, Detach, Deactivate) talk to the real in-process server (memory DB) of a fresh project
// per trace whose SnapshotThreshold / SnapshotInterval are drawn from {1,2,3,5,500}. Every
// AttachDocument / PushPullChanges / DetachDocument request and response is captured on the clients'
// HTTP transport (the SDK builds `&http.Client{}`, i.e. http.DefaultTransport, which the harness wraps)
// and decoded with the real converters. The captured traffic is replayed by Driver/SrvEngine.lean:
//
//   - Model/Server.lean predicts the response (checkpoint, returned changes, snapshot flag, version
//     vector, removed) and the stored rows (log, head, client checkpoints, versionvectors rows);
//   - Model/ServerSnap.lean predicts the snapshot table, the snapshot-cache entry and the vector of a
//     snapshot response (the server document's clock depends on where the rebuild started);
//   - Model/Time.lean predicts the id of every local change and the replica's clock after every applied
//     change / snapshot, and the request pack the replica must have built;
//   - Model/Crdt.lean (objects/arrays/counters) or Model/Text.lean ({"t": Text}) replays the content of
//     every replica op by op; a snapshot-fed replica continues on the model's fold of the server log.
//
// Oracles on the real state (oracle.txt): C06 clauses on the stored log and the versionvectors rows,
// C01 convergence + no sync error, C02 snapshot-fed == change-fed == BuildInternalDocForServerSeq
// (cold / warm / evicted cache, random serverSeq), C20 "the cache hands out deep copies", C03 GC-on
// replicas == GC-off twin (fold of the stored log without GC), C04 a change-fed attach delivers every stored
// operation, C12 presence registers (all replicas and the server's document agree with "last presence change of
// every attached participant"; a presenceless document stores and shows no presence), C11 (de)activation.
//
// Presence (C12): part of the clients attach with client.WithPresence(data), part without, part with
// client.WithDisablePresence(); the first attacher fixes the document's setting and later attachers pass the
// OTHER value with probability 1/5; updates call p.Set / p.Delete / p.Clear. Every presence change is written as
// a `PO` line and every map as a `PQ` line for Driver/PresenceEngine.lean (embedded in SrvEngine); the map of a
// snapshot-fed replica is the model's fold of the stored presence changes (`PSNAP`).
//
// Lost responses (C05): `! lostsync r2` lets the HTTP tap drop the answer of a PushPullChanges AFTER the server has
// processed the request: the SDK call fails, the replica keeps its checkpoint and its local changes, the server
// model has run the request completely (`lost=1`), and the next sync of the replica is a retry whose pack carries
// changes that are already stored – answered with changes (own-change filter) or, at the low thresholds most traces
// use, with a snapshot. Oracles: every (attachment, clientSeq) is stored once, the reserved root counter reflects
// every stored increase once, convergence after the retry. (Attach / Detach responses are not dropped: the SDK
// cannot retry them – the server refuses the second call, Props/C05 lifecycle_retry_refused_witness.)
//
// Every step is first written as an API-level line (`! attach c1 dp=0 pres=k=v`, `! edit r2 <seed>`, `! sync r2`,
// `! probe <seed>` …; the driver ignores them) and then executed from that line, so a trace file is replayed by
// executing its `!` lines (corpus witnesses are such scripts); a file with only a `T srv-<seed>-<i>` line is
// regenerated from the PRNG. Client ids are server-chosen ObjectIDs: only their creation ORDER is reproducible
// (it is what the code compares).
//
// Two streams (cfg gc=): gc=0 every Document has document.WithDisableGC() and the server runs with
// SnapshotDisableGC: all clients edit freely (arrays with move/delete/set, or a Text field). gc=1 GC on
// everywhere with the peer-restricted generator of eng_docupd.go: one author (c0) edits objects, counters and
// insert-only arrays, the peers only set reserved root keys / bump a root counter, so the stream stays outside
// the known C02/C03 defect regions (anchoring next to deleted array content, un-tombstoned LWW losers).
// Attachments with client.WithDisableGC() are restricted to the workload the option documents (root primitives
// + counter; no text) in both streams.
//
// Arguments (after the standard flags): orc=c06|c01|c02|c03|c04|c08|c11|c12|c20|all selects whose oracle lines
// are written (every line starts with its property label); known=1 prints the KNOWN[...] tags of the findings
// this engine discovered (see svTag* below) – off until they are listed in known_findings.json.

import (
	"bytes"
	"compress/gzip"
	"context"
	"crypto/rand"
	"encoding/hex"
	"fmt"
	"io"
	"math"
	"math/big"
	mrand "math/rand"
	"net/http"
	"os"
	"reflect"
	"regexp"
	"sort"
	"strconv"
	"strings"
	"sync"
	"unsafe"

	memdb "github.com/hashicorp/go-memdb"
	"go.uber.org/zap"
	"google.golang.org/protobuf/proto"

	"github.com/yorkie-team/yorkie/api/converter"
	"github.com/yorkie-team/yorkie/api/types"
	api "github.com/yorkie-team/yorkie/api/yorkie/v1"
	"github.com/yorkie-team/yorkie/client"
	"github.com/yorkie-team/yorkie/pkg/document"
	"github.com/yorkie-team/yorkie/pkg/document/change"
	"github.com/yorkie-team/yorkie/pkg/document/crdt"
	"github.com/yorkie-team/yorkie/pkg/document/json"
	"github.com/yorkie-team/yorkie/pkg/document/operations"
	"github.com/yorkie-team/yorkie/pkg/document/presence"
	"github.com/yorkie-team/yorkie/pkg/document/time"
	"github.com/yorkie-team/yorkie/pkg/key"
	"github.com/yorkie-team/yorkie/server"
	"github.com/yorkie-team/yorkie/server/backend"
	"github.com/yorkie-team/yorkie/server/backend/database"
	"github.com/yorkie-team/yorkie/server/logging"
	"github.com/yorkie-team/yorkie/server/packs"
	"github.com/yorkie-team/yorkie/test/helper"
)

func init() { register("srv", runSrv) }

// ---------------------------------------------------------------- traffic capture

type svCapture struct {
	method string
	req    *change.Pack
	res    *change.Pack
	nogc   bool
	po     bool
	reqDP  bool // AttachDocumentRequest.DisablePresence
	resDP  bool // AttachDocumentResponse.DisablePresence (the persisted value)
	bad    string
}

// svTap wraps http.DefaultTransport: the SDK client's `&http.Client{}` has no transport of its own.
type svTap struct {
	base http.RoundTripper
	mu   sync.Mutex
	caps []svCapture
	// dropNext: the response of the next PushPullChanges is captured and then LOST on its way back (the SDK call
	// fails with a transport error after the server has processed the request completely)
	dropNext bool
}

var errSvResponseLost = fmt.Errorf("verif: response lost")

var svTapInst *svTap

func svInstallTap() *svTap {
	if svTapInst == nil {
		svTapInst = &svTap{base: http.DefaultTransport}
		http.DefaultTransport = svTapInst
	}
	return svTapInst
}

func svDecodeBody(b []byte, enc string) ([]byte, error) {
	if enc == "" || enc == "identity" {
		return b, nil
	}
	if enc != "gzip" {
		return nil, fmt.Errorf("content-encoding %q", enc)
	}
	zr, err := gzip.NewReader(bytes.NewReader(b))
	if err != nil {
		return nil, err
	}
	defer zr.Close()
	return io.ReadAll(zr)
}

func (t *svTap) RoundTrip(r *http.Request) (*http.Response, error) {
	i := strings.LastIndexByte(r.URL.Path, '/')
	m := r.URL.Path[i+1:]
	if !strings.Contains(r.URL.Path, "yorkie.v1.YorkieService") ||
		(m != "AttachDocument" && m != "PushPullChanges" && m != "DetachDocument" && m != "RemoveDocument") {
		return t.base.RoundTrip(r)
	}
	var body []byte
	if r.Body != nil {
		body, _ = io.ReadAll(r.Body)
		_ = r.Body.Close()
		r.Body = io.NopCloser(bytes.NewReader(body))
	}
	resp, err := t.base.RoundTrip(r)
	if err != nil {
		return resp, err
	}
	rb, _ := io.ReadAll(resp.Body)
	_ = resp.Body.Close()
	resp.Body = io.NopCloser(bytes.NewReader(rb))
	cp := svCapture{method: m}
	fail := func(f string, a ...any) {
		if cp.bad == "" {
			cp.bad = fmt.Sprintf(f, a...)
		}
	}
	if !strings.HasPrefix(r.Header.Get("Content-Type"), "application/proto") {
		fail("request content-type %q", r.Header.Get("Content-Type"))
	}
	raw, e := svDecodeBody(body, r.Header.Get("Content-Encoding"))
	if e != nil {
		fail("request body: %v", e)
	}
	var reqPB, resPB *api.ChangePack
	switch m {
	case "AttachDocument":
		var x api.AttachDocumentRequest
		if e := proto.Unmarshal(raw, &x); e != nil {
			fail("request: %v", e)
		}
		reqPB, cp.nogc, cp.reqDP = x.ChangePack, x.DisableGc, x.DisablePresence
	case "PushPullChanges":
		var x api.PushPullChangesRequest
		if e := proto.Unmarshal(raw, &x); e != nil {
			fail("request: %v", e)
		}
		reqPB, cp.nogc, cp.po = x.ChangePack, x.DisableGc, x.PushOnly
	case "DetachDocument":
		var x api.DetachDocumentRequest
		if e := proto.Unmarshal(raw, &x); e != nil {
			fail("request: %v", e)
		}
		reqPB = x.ChangePack
	case "RemoveDocument":
		var x api.RemoveDocumentRequest
		if e := proto.Unmarshal(raw, &x); e != nil {
			fail("request: %v", e)
		}
		reqPB = x.ChangePack
	}
	if reqPB != nil {
		if p, e := converter.FromChangePack(reqPB); e != nil {
			fail("request pack: %v", e)
		} else {
			cp.req = p
		}
	}
	if resp.StatusCode == http.StatusOK {
		raw, e := svDecodeBody(rb, resp.Header.Get("Content-Encoding"))
		if e != nil {
			fail("response body: %v", e)
		}
		switch m {
		case "AttachDocument":
			var x api.AttachDocumentResponse
			if e := proto.Unmarshal(raw, &x); e != nil {
				fail("response: %v", e)
			}
			resPB, cp.resDP = x.ChangePack, x.DisablePresence
		case "PushPullChanges":
			var x api.PushPullChangesResponse
			if e := proto.Unmarshal(raw, &x); e != nil {
				fail("response: %v", e)
			}
			resPB = x.ChangePack
		case "DetachDocument":
			var x api.DetachDocumentResponse
			if e := proto.Unmarshal(raw, &x); e != nil {
				fail("response: %v", e)
			}
			resPB = x.ChangePack
		case "RemoveDocument":
			var x api.RemoveDocumentResponse
			if e := proto.Unmarshal(raw, &x); e != nil {
				fail("response: %v", e)
			}
			resPB = x.ChangePack
		}
		if resPB != nil {
			if p, e := converter.FromChangePack(resPB); e != nil {
				fail("response pack: %v", e)
			} else {
				cp.res = p
			}
		}
	}
	t.mu.Lock()
	t.caps = append(t.caps, cp)
	drop := t.dropNext && m == "PushPullChanges"
	if drop {
		t.dropNext = false
	}
	t.mu.Unlock()
	if drop {
		_ = resp.Body.Close()
		return nil, errSvResponseLost
	}
	return resp, nil
}

func (t *svTap) take() []svCapture {
	t.mu.Lock()
	defer t.mu.Unlock()
	c := t.caps
	t.caps = nil
	return c
}

// ---------------------------------------------------------------- server

type svSrv struct {
	svr   *server.Yorkie
	be    *backend.Backend
	db    database.Database
	mdb   *memdb.MemDB
	wg    *sync.WaitGroup // Background.wg (unexported): drained between steps
	owner types.ID
	addr  string
	tap   *svTap
	nonce string
	projN int
}

var svS *svSrv
var svServed int

// the memory DB keeps every project, client, document and change of every trace
const svRecycleEvery = 400

func svUnexported(v reflect.Value, name string) reflect.Value {
	f := v.FieldByName(name)
	if !f.IsValid() {
		panic("no field " + name + " in " + v.Type().String())
	}
	return reflect.NewAt(f.Type(), unsafe.Pointer(f.UnsafeAddr())).Elem()
}

func svServer() *svSrv {
	if svS != nil {
		svServed++
		if svServed%svRecycleEvery != 0 {
			return svS
		}
		svS.wait()
		_ = svS.svr.Shutdown(true)
		svS = nil
	}
	_ = logging.SetLogLevel("error")
	var svr *server.Yorkie
	var lastErr error
	for attempt := 0; attempt < 20 && svr == nil; attempt++ {
		conf := helper.TestConfig()
		conf.Mongo = nil
		p1, p2 := protoFreePort(), protoFreePort()
		conf.RPC.Port = p1
		conf.Profiling.Port = p2
		conf.Backend.GatewayAddr = fmt.Sprintf("localhost:%d", p1)
		conf.Backend.RPCAddr = fmt.Sprintf("localhost:%d", p1)
		conf.Housekeeping.Interval = "1000h"
		conf.Housekeeping.CompactionMinChanges = 1 << 30
		y, err := server.New(conf)
		if err != nil {
			lastErr = err
			continue
		}
		if err := y.Start(); err != nil {
			lastErr = err
			_ = y.Shutdown(false)
			continue
		}
		svr = y
	}
	if svr == nil {
		panic(lastErr)
	}
	s := &svSrv{svr: svr, be: svr.Backend(), db: svr.Backend().DB, addr: svr.RPCAddr(), tap: svInstallTap()}
	def, err := svr.DefaultProject(context.Background())
	if err != nil {
		panic(err)
	}
	s.owner = def.Owner
	dv := reflect.ValueOf(s.db)
	if dv.Kind() == reflect.Ptr {
		dv = dv.Elem()
	}
	s.mdb = svUnexported(dv, "db").Interface().(*memdb.MemDB)
	bg := svUnexported(reflect.ValueOf(s.be).Elem(), "background") // *background.Background
	wgf := bg.Elem().FieldByName("wg")
	if !wgf.IsValid() {
		panic("background.Background has no field wg")
	}
	s.wg = (*sync.WaitGroup)(unsafe.Pointer(wgf.UnsafeAddr()))
	b := make([]byte, 5)
	_, _ = rand.Read(b)
	s.nonce = hex.EncodeToString(b)
	svS = s
	return s
}

// wait blocks until every background routine (event publication, storeSnapshot) has finished; no
// request is in flight when it is called, so nothing is added to the WaitGroup concurrently.
func (s *svSrv) wait() { s.wg.Wait() }

// ---------------------------------------------------------------- per-trace state

// Tags of listed known findings (known_findings.json). Empty = the oracle line is written untagged
// (a candidate violation). A tag is only ever printed when the finding's precise predicate holds:
//
//	svTagSnapVV: the replica applied a snapshot response whose version vector does not cover the log
//	             prefix the snapshot contains (stored snapshot written while no versionvectors row existed);
//	(svTagDeactNoChange – Deactivate of a client without a stored change at or below its checkpoint failed with
//	             ErrChangeNotFound – is gone: repaired by hooks/fix-c11-deactivate-without-own-change.patch; the
//	             situation is still counted (srv:deactivate-without-own-change) and a failure is a plain violation.)
//	svTagDpPending: a client attached WITHOUT client.WithDisablePresence() to a presenceless document: the server
//	             strips its initial presence change and never acknowledges it, so it stays in localChanges, is
//	             re-sent with every request and re-applied to the client's own map after a snapshot response;
//	svTagInitLost: the first presence update after an Attach that passed initial presence data drops that data
//	             (presence.Initialize replaces the proxy's map but not the entry of the clone's presence map).
//
// `known=1` on the command line switches the tags on (props.d passes it once the findings are listed).
var svTagSnapVV = ""
var svTagDpPending = ""
var svTagInitLost = ""

// svTagReattachOwn: a change-fed attach response omits stored operations of the requester's OWN actor: the pull
//
//	filter (`clientInfo.ID == ActorID && cpAfterPush.ClientSeq >= ClientSeq`) compares client sequence
//	numbers of the NEW Document with those of the client's previous attachment.
var svTagReattachOwn = ""

// svTagOwnStaleClear: a change-fed attach response hands the client the presence clear of its own previous
//
//	attachment; the new Document applies it AFTER its own new initial presence, so the participant is
//	missing from its own map (until its next presence update) while every peer shows it.
var svTagOwnStaleClear = ""

// svKnownListed: flip to true once the six findings are listed in known_findings.json (then the tags are printed
// without `known=1`, also under `check.py --replay`, which passes no engine arguments).
const svKnownListed = true

func svParseArgs() {
	args := os.Args[2:]
	if svKnownListed {
		args = append([]string{"known=1"}, args...)
	}
	for _, a := range args {
		if strings.HasPrefix(a, "orc=") {
			svOrc = a[4:]
		}
		if a == "known=1" {
			svTagSnapVV = "c06-snapshot-vector-dropped"
			svTagDpPending = "c12-stripped-initial-presence-pending"
			svTagInitLost = "" // fixed in /repo ed1c9aca: a recurrence is a plain violation
			svTagReattachOwn = "c04-reattach-own-change-filtered"
			svTagOwnStaleClear = "c12-reattach-own-stale-clear"
		}
	}
}

// svOrc: which property's oracle lines are written (`orc=c06`, default all). Every line starts with the
// property it belongs to (`C06 …`, `C06/C11 …`); lines without such a label (harness problems, panics) are
// always written.
var svOrc = "all"

var svLabelRe = regexp.MustCompile(`^(?:KNOWN\[[^\]]*\] )?((?:C\d\d)(?:/C\d\d)*)\b`)

func svOracle(c *Ctx, format string, a ...any) {
	msg := fmt.Sprintf(format, a...)
	if svOrc != "all" {
		if m := svLabelRe.FindStringSubmatch(msg); m != nil {
			hit := false
			for _, l := range strings.Split(m[1], "/") {
				if strings.EqualFold(l, svOrc) {
					hit = true
				}
			}
			if !hit {
				c.Count("oracle-line-of-another-property:" + m[1])
				return
			}
		}
	}
	c.Oracle("%s", msg)
}

func svTag(t string) string {
	if t == "" {
		return ""
	}
	return "KNOWN[" + t + "] "
}

type svClient struct {
	name   string
	cli    *client.Client
	actor  time.ActorID
	active bool
	nogc   bool // attaches with client.WithDisableGC()
	rep    *svReplica
	// presence register of this participant: the payload of its last own presence change (C12: that is what
	// everybody must see while it is attached); every payload is checked against the API call that made it
	presOn   bool
	presData map[string]string
	// what the clone's presence map of the current Document holds for the own actor (the next Set / Delete
	// starts from it): empty after Attach, the last put afterwards, untouched by Clear, re-copied from the
	// document's own map when a snapshot drops the clone
	cloneData map[string]string
	pseq      int // presence changes made so far
	stored    int // changes of this actor stored in the document's log
}

type svReplica struct {
	name    string
	cl      *svClient
	doc     *document.Document
	nogc    bool
	live    bool
	docDP   bool   // the attach response said the document is presenceless
	reqDP   bool   // the client attached with client.WithDisablePresence()
	emitted uint32 // clientSeq of the last local change already written to the trace
	// the clone still holds an empty entry for the own actor although Attach initialised non-empty data
	// (predicate of svTagInitLost; cleared by the first presence update and by a snapshot, which drops the clone)
	initStale bool
	exp       *svPresExpect
	initData  presence.Data // what Attach initialised
	// C06: what this replica has applied (remote changes, snapshot prefix) / created
	appliedLam int64
	appliedVV  time.VersionVector
	ownLam     int64
	snapFed    bool
	shortSnap  bool // predicate of svTagSnapVV
	gone       bool // the client learnt that the document is removed (Document status removed, attachment dropped)
	missedOwn  bool // predicate of svTagReattachOwn
	ownStale   bool // predicate of svTagOwnStaleClear
	syncP      int
}

type svWorld struct {
	c      *Ctx
	s      *svSrv
	proj   *types.Project
	docKey key.Key
	ref    types.DocRefKey
	hasDoc bool
	thr    int64
	itv    int64
	gc     bool
	text   bool
	docDP  bool // the document was created presenceless (first attach)
	dpSet  bool

	clients []*svClient
	reps    []*svReplica
	head    int64                      // rows of the log already fed to the model (SOP) and to the twin
	logged  int                        // rows covered by the last LOG line
	twin    *document.InternalDocument // GC-off fold of the stored log (change-fed twin)
	twinBad bool

	seenTicket map[string]bool      // (lamport, actor) of stored clock-carrying rows
	lastLam    map[string]int64     // per actor: lamport of its last stored clock-carrying row
	maxLamAt   []int64              // maxLamAt[i] = greatest lamport among rows 1..i+1
	vvAt       []time.VersionVector // vvAt[i] = pointwise maximum of the vectors of rows 1..i+1
	pseqAt     map[int64]int        // serverSeq -> index of the row's presence change among its actor's
	pseqOf     map[string]int       // actor -> stored presence changes so far

	dead bool
	// a replica missed its own earlier operations (svTagReattachOwn): generated traces end at the next step
	missedStop bool
	scripted   bool
	// C05: every (attachment, clientSeq) is stored once; the reserved root counter reflects every stored increase once
	seenCS  map[string]bool
	pcDelta map[string]int64 // "<replica>:<clientSeq>" -> sum of the increases of the root counter in that change
	pcSum   int64            // sum over the stored rows
	// C11 Remove: the document was removed by a peer; removedHead = head right after the removing request
	removed      bool
	removedHead  int64
	sawLost      bool
	sawRetry     bool
	sawRetrySnap bool
	sawReatt     bool
	sawHit       bool
	sawAhead     bool
	sawSnap      bool
	sawConc      bool
}

func svB(x bool) string {
	if x {
		return "1"
	}
	return "0"
}

func (w *svWorld) ctx() context.Context { return context.Background() }

func (w *svWorld) enc(op operations.Operation, cn *change.Change) string {
	if w.text {
		return encTextOp(op, ShowVV(cn.ID().VersionVector()))
	}
	return encOp(op)
}

func svHasClocks(lam int64, vv time.VersionVector) bool { return len(vv) > 0 && lam != 0 }

func (w *svWorld) liveReps() []*svReplica {
	var out []*svReplica
	for _, cl := range w.clients {
		if cl.rep != nil && cl.rep.live {
			out = append(out, cl.rep)
		}
	}
	return out
}

func (w *svWorld) client(name string) *svClient {
	for _, cl := range w.clients {
		if cl.name == name {
			return cl
		}
	}
	return nil
}

func (w *svWorld) replica(name string) *svReplica {
	for _, rep := range w.reps {
		if rep.name == name {
			return rep
		}
	}
	return nil
}

func svShowPresences(all map[string]presence.Data) string {
	type kv struct {
		k *big.Int
		v string
	}
	var l []kv
	for hex, data := range all {
		a, err := time.ActorIDFromHex(hex)
		if err != nil {
			continue
		}
		l = append(l, kv{new(big.Int).SetBytes(a[:]), prShowData(data)})
	}
	sort.Slice(l, func(i, j int) bool { return l[i].k.Cmp(l[j].k) < 0 })
	parts := make([]string, len(l))
	for i, e := range l {
		parts[i] = e.k.String() + ":" + e.v
	}
	return "{" + strings.Join(parts, ";") + "}"
}

// ---------------------------------------------------------------- emission

// emitLocal writes the lines of one new local change of rep.
func (w *svWorld) emitLocal(rep *svReplica, cn *change.Change) {
	c := w.c
	if pc := rep.doc.RootObject().Get(svCounterKey); pc != nil && !w.text {
		for _, op := range cn.Operations() {
			if inc, ok := op.(*operations.Increase); ok && inc.ParentCreatedAt().Compare(pc.CreatedAt()) == 0 {
				if p, ok := inc.Value().(*crdt.Primitive); ok {
					var d int64
					switch v := p.Value().(type) {
					case int32:
						d = int64(v)
					case int64:
						d = v
					case int:
						d = int64(v)
					}
					w.pcDelta[fmt.Sprintf("%s:%d", rep.name, cn.ClientSeq())] += d
				}
			}
		}
	}
	for _, op := range cn.Operations() {
		c.Cmd("OP %s %s", rep.name, w.enc(op, cn))
		c.Obs("ok")
	}
	if pc := cn.PresenceChange(); pc != nil {
		c.Cmd("PO %s local %s %d %s", rep.name, ActorNat(rep.cl.actor), rep.cl.pseq, prShowChange(pc))
		c.Obs("ok")
		rep.cl.pseq++
		c.Count("presence:local-" + string(pc.ChangeType))
	}
	if len(cn.Operations()) > 0 {
		c.Cmd("CID %s local", rep.name)
	} else {
		c.Cmd("CID %s localp", rep.name)
	}
	id := cn.ID()
	c.Obs("%s", showID(id))
	rep.emitted = cn.ClientSeq()
	if svHasClocks(id.Lamport(), id.VersionVector()) {
		tag := ""
		if rep.shortSnap {
			tag = svTag(svTagSnapVV)
		}
		if v, ok := id.VersionVector().Get(id.ActorID()); !ok || v != id.Lamport() {
			svOracle(c, "C06 local change %d of %s: vv[actor]=%d present=%v but lamport=%d", id.ClientSeq(), rep.name, v, ok, id.Lamport())
		}
		if id.Lamport() <= rep.appliedLam {
			svOracle(c, "C06 local change %d of %s has lamport %d although the replica had applied a change with lamport %d before",
				id.ClientSeq(), rep.name, id.Lamport(), rep.appliedLam)
		}
		if id.Lamport() <= rep.ownLam {
			svOracle(c, "C06 local change %d of %s has lamport %d, not above its previous change (%d)", id.ClientSeq(), rep.name, id.Lamport(), rep.ownLam)
		}
		if !rep.nogc {
			if k, ok := svLE(rep.appliedVV, id.VersionVector()); !ok {
				svOracle(c, "%sC06 local change %d of %s has vv[%s]=%d although the replica had applied changes up to %d of that actor (change_causal)",
					tag, id.ClientSeq(), rep.name, ActorNat(k), id.VersionVector()[k], rep.appliedVV[k])
			}
		}
		rep.ownLam = id.Lamport()
	}
}

// svPresExpect: what the API call about to create local changes must do to the participant's presence.
type svPresExpect struct {
	what     string
	none     bool // no presence change at all
	clearIf  bool // a clear is required if the participant is present, optional otherwise (Detach)
	clear    bool
	data     map[string]string // put with exactly this data
	fromZero map[string]string // the payload the call yields from an EMPTY register (predicate of svTagInitLost)
}

func svSameData(a, b map[string]string) bool {
	if len(a) != len(b) {
		return false
	}
	for k, v := range a {
		if w, ok := b[k]; !ok || w != v {
			return false
		}
	}
	return true
}

func svCopyData(m map[string]string) map[string]string {
	out := map[string]string{}
	for k, v := range m {
		out[k] = v
	}
	return out
}

// checkPresence compares the presence changes among the new local changes with what the API call must
// produce (C12: per-actor last-writer register), then lets the register follow the actual payloads.
func (w *svWorld) checkPresence(rep *svReplica, got []*presence.Change) {
	c := w.c
	cl := rep.cl
	exp := rep.exp
	rep.exp = nil
	show := func() string {
		var parts []string
		for _, pc := range got {
			parts = append(parts, prShowChange(pc))
		}
		return "[" + strings.Join(parts, ";") + "]"
	}
	switch {
	case exp == nil || exp.none:
		if len(got) > 0 {
			what := "an update without presence call"
			if exp != nil {
				what = exp.what
			}
			svOracle(c, "C12 %s on %s produced presence changes %s", what, rep.name, show())
		}
	case exp.clearIf:
		if len(got) > 1 || (len(got) == 1 && !got[0].IsClear()) || (len(got) == 0 && cl.presOn && !rep.docDP) {
			svOracle(c, "C12 %s on %s (participant present=%v, presence %s) produced presence changes %s, expected a clear", exp.what, rep.name,
				cl.presOn, prShowData(cl.presData), show())
		}
	case exp.clear:
		if len(got) != 1 || !got[0].IsClear() {
			svOracle(c, "C12 %s on %s produced presence changes %s, expected a clear", exp.what, rep.name, show())
		}
	default:
		if len(got) != 1 || got[0].IsClear() || !svSameData(got[0].Presence, exp.data) {
			tag := ""
			if rep.initStale && len(got) == 1 && !got[0].IsClear() && exp.fromZero != nil && svSameData(got[0].Presence, exp.fromZero) {
				tag = svTag(svTagInitLost)
				c.Count("presence:initial-data-lost")
			}
			if rep.ownStale && len(got) == 1 && !got[0].IsClear() && exp.fromZero != nil && svSameData(got[0].Presence, exp.fromZero) {
				// consequence of the own stale clear (c12-reattach-own-stale-clear): the participant's entry is gone
				// from its own map, so its next update starts from an empty register
				tag = svTag(svTagOwnStaleClear)
				c.Count("presence:update-after-own-stale-clear-starts-from-nothing")
			}
			svOracle(c, "%sC12 %s on %s (presence before: %s) produced presence changes %s, expected put %s", tag, exp.what, rep.name,
				prShowData(cl.presData), show(), prShowData(exp.data))
		}
	}
	for _, pc := range got {
		if pc.IsClear() {
			// the proxy empties the document's entry (since the presence-proxy repair): the next Set starts from nothing
			cl.presOn = false
			cl.cloneData = map[string]string{}
		} else {
			cl.presOn, cl.presData = true, svCopyData(pc.Presence)
			cl.cloneData = svCopyData(pc.Presence) // Initialize fills the entry the clone keeps (since the repair)
			if !(exp != nil && exp.what == "Attach") {
				rep.initStale = false
				rep.ownStale = false
			}
		}
	}
}

func (w *svWorld) flushLocals(rep *svReplica, chs []*change.Change) {
	var got []*presence.Change
	var fresh []*change.Change
	for _, cn := range chs {
		if cn.ClientSeq() > rep.emitted {
			fresh = append(fresh, cn)
			if pc := cn.PresenceChange(); pc != nil {
				got = append(got, pc)
			}
		}
	}
	w.checkPresence(rep, got)
	for _, cn := range fresh {
		w.emitLocal(rep, cn)
	}
}

func svChg(chs []*change.Change) string {
	if len(chs) == 0 {
		return "-"
	}
	parts := make([]string, len(chs))
	for i, cn := range chs {
		parts[i] = fmt.Sprintf("%d/%d/%s/%s", cn.ClientSeq(), cn.ID().Lamport(),
			protoKind(len(cn.Operations()) > 0, cn.PresenceChange() != nil), ShowVV(cn.ID().VersionVector()))
	}
	return strings.Join(parts, "|")
}

func svShowResp(p *change.Pack) string {
	rows := make([]string, len(p.Changes))
	for i, ch := range p.Changes {
		rows[i] = fmt.Sprintf("%s:%d:%d:%s", ActorNat(ch.ID().ActorID()), ch.ClientSeq(), ch.ServerSeq(),
			protoKind(len(ch.Operations()) > 0, ch.PresenceChange() != nil))
	}
	return fmt.Sprintf("R cp=%d,%d changes=[%s] snap=%s vv=%s removed=%s req=ok", p.Checkpoint.ServerSeq, p.Checkpoint.ClientSeq,
		strings.Join(rows, ";"), svB(len(p.Snapshot) > 0), ShowVV(p.VersionVector), svB(p.IsRemoved))
}

// vvRows reads the versionvectors rows of the document (no exported reader exists).
func (w *svWorld) vvRows() map[time.ActorID]time.VersionVector {
	out := map[time.ActorID]time.VersionVector{}
	if !w.hasDoc {
		return out
	}
	txn := w.s.mdb.Txn(false)
	defer txn.Abort()
	it, err := txn.Get("versionvectors", "doc_id", w.ref.DocID.String())
	if err != nil {
		return out
	}
	for raw := it.Next(); raw != nil; raw = it.Next() {
		vi := raw.(*database.VersionVectorInfo)
		a, err := time.ActorIDFromHex(vi.ClientID.String())
		if err != nil {
			continue
		}
		out[a] = vi.VersionVector
	}
	return out
}

func svSortedActors[T any](m map[time.ActorID]T) []time.ActorID {
	ks := make([]time.ActorID, 0, len(m))
	for k := range m {
		ks = append(ks, k)
	}
	sort.Slice(ks, func(i, j int) bool { return bytes.Compare(ks[i][:], ks[j][:]) < 0 })
	return ks
}

func (w *svWorld) showLog(full bool) string {
	ctx := w.ctx()
	if !w.hasDoc {
		return "L none"
	}
	info, err := w.s.db.FindDocInfoByRefKey(ctx, w.ref)
	if err != nil {
		return "L none"
	}
	rows, _ := w.s.db.FindChangeInfosBetweenServerSeqs(ctx, w.ref, 1, math.MaxInt64)
	from := w.logged
	if full {
		from = 0
	}
	var rs []string
	for _, r := range rows[min(from, len(rows)):] {
		a, _ := time.ActorIDFromHex(r.ActorID.String())
		rs = append(rs, fmt.Sprintf("%d:%s:%d:%d:%s:%s", r.ServerSeq, ActorNat(a), r.ClientSeq, r.Lamport,
			protoKind(len(r.Operations) > 0, r.PresenceChange != nil), ShowVV(r.VersionVector)))
	}
	vr := w.vvRows()
	var vss, cls, act []string
	for _, a := range svSortedActors(vr) {
		vss = append(vss, ActorNat(a)+":"+ShowVV(vr[a]))
	}
	byActor := map[time.ActorID]*svClient{}
	for _, cl := range w.clients {
		if cl.actor != (time.ActorID{}) {
			byActor[cl.actor] = cl
		}
	}
	for _, a := range svSortedActors(byActor) {
		ci, err := w.s.db.FindClientInfoByRefKey(ctx, types.ClientRefKey{ProjectID: w.ref.ProjectID, ClientID: types.IDFromActorID(a)})
		if err != nil {
			continue
		}
		act = append(act, fmt.Sprintf("%s:%s", ActorNat(a), svB(ci.Status == database.ClientActivated)))
		if d := ci.Documents[w.ref.DocID]; d != nil {
			st := d.Status
			if st == "" {
				st = "none"
			}
			cls = append(cls, fmt.Sprintf("%s:%s:%d:%d", ActorNat(a), st, d.ServerSeq, d.ClientSeq))
		}
	}
	// snapshot table through the same reader the server uses
	var sn []string
	for seq := int64(math.MaxInt64); seq >= 0; {
		si, err := w.s.db.FindClosestSnapshotInfo(ctx, w.ref, seq, false)
		if err != nil || si.ID == "" {
			break
		}
		sn = append([]string{fmt.Sprintf("%d:%d:%s", si.ServerSeq, si.Lamport, ShowVV(si.VersionVector))}, sn...)
		seq = si.ServerSeq - 1
	}
	cache := "-"
	if d, ok := w.s.be.Cache.Snapshot.Peek(w.ref); ok && d != nil {
		cache = fmt.Sprintf("%d:%d:%s", d.Checkpoint().ServerSeq, d.Lamport(), ShowVV(d.VersionVector()))
	}
	if !full {
		w.logged = len(rows)
	}
	return fmt.Sprintf("L seq=%d n=%d removed=%s dp=%s rows=[%s] vv=[%s] clients=[%s] act=[%s] snaps=[%s] cache=%s",
		info.ServerSeq, len(rows), svB(!info.RemovedAt.IsZero()), svB(info.DisablePresence), strings.Join(rs, ";"),
		strings.Join(vss, ";"), strings.Join(cls, ";"), strings.Join(act, ","), strings.Join(sn, ";"), cache)
}

func svMaxVV(a, b time.VersionVector) time.VersionVector {
	out := time.NewVersionVector()
	for k, v := range a {
		out[k] = v
	}
	for k, v := range b {
		if v > out[k] {
			out[k] = v
		}
	}
	return out
}

// afterStore feeds the rows stored since the last call to the model's server fold (SOP / SPO) and to
// the GC-off twin, evaluates the C06 / C12 clauses on them, and writes the LOG line.
func (w *svWorld) afterStore() {
	c := w.c
	if !w.hasDoc {
		return
	}
	chs, err := w.s.db.FindChangesBetweenServerSeqs(w.ctx(), w.ref, w.head+1, math.MaxInt64)
	if err != nil {
		svOracle(c, "reading the stored changes failed: %v", err)
		return
	}
	for _, cn := range chs {
		ss := cn.ServerSeq()
		if ss != w.head+1 {
			svOracle(c, "C04 stored row has serverSeq %d, expected %d", ss, w.head+1)
		}
		if w.removed && ss > w.removedHead {
			svOracle(c, "C11 row %d (actor %s, clientSeq %d) was stored in a document that had been removed at head %d", ss, ActorNat(cn.ID().ActorID()), cn.ClientSeq(), w.removedHead)
		}
		w.head = ss
		verdict := "ok"
		if w.twin == nil {
			w.twin = document.NewInternalDocument(w.docKey)
		}
		if !w.twinBad {
			if err := w.twin.ApplyChangePack(change.NewPack(w.docKey, change.InitialCheckpoint.NextServerSeq(ss),
				[]*change.Change{cn}, nil, nil), true); err != nil {
				verdict = "err"
				w.twinBad = true
				svOracle(c, "C01 the GC-off fold of the stored log rejects row %d: %v", ss, err)
			}
		}
		for _, op := range cn.Operations() {
			c.Cmd("SOP %d %s", ss, w.enc(op, cn))
			c.Obs("%s", verdict)
		}
		id := cn.ID()
		an := ActorNat(id.ActorID())
		for _, cl := range w.clients {
			if cl.actor == id.ActorID() {
				cl.stored++
				if cl.rep != nil {
					// C05: a retried pack must not store a change again
					k := fmt.Sprintf("%s:%d", cl.rep.name, cn.ClientSeq())
					if w.seenCS[k] {
						svOracle(c, "C05/C04 change clientSeq %d of %s (%s) is stored a second time (row %d)", cn.ClientSeq(), cl.rep.name, cl.name, ss)
					}
					w.seenCS[k] = true
					if len(cn.Operations()) > 0 { // not the server-built presence clear of a Deactivate (it re-uses the next clientSeq)
						w.pcSum += w.pcDelta[k]
					}
				}
			}
		}
		if pc := cn.PresenceChange(); pc != nil {
			n := w.pseqOf[an]
			w.pseqOf[an] = n + 1
			w.pseqAt[ss] = n
			c.Cmd("SPO %d %s %d %s", ss, an, n, prShowChange(pc))
			c.Obs("ok")
			if w.docDP {
				svOracle(c, "C12/C04 presenceless document stores a presence change in row %d (%s of %s)", ss, prShowChange(pc), an)
			}
		} else if len(cn.Operations()) == 0 {
			svOracle(c, "C12 stored row %d carries neither operations nor presence", ss)
		}
		// C06 on the stored row
		prevMax := int64(0)
		prevVV := time.NewVersionVector()
		if n := len(w.maxLamAt); n > 0 {
			prevMax, prevVV = w.maxLamAt[n-1], w.vvAt[n-1]
		}
		w.maxLamAt = append(w.maxLamAt, max(prevMax, id.Lamport()))
		w.vvAt = append(w.vvAt, svMaxVV(prevVV, id.VersionVector()))
		if !svHasClocks(id.Lamport(), id.VersionVector()) {
			if len(cn.Operations()) > 0 {
				svOracle(c, "C06 stored row %d carries operations but no clock", ss)
			}
			continue
		}
		if v, ok := id.VersionVector().Get(id.ActorID()); !ok || v != id.Lamport() {
			svOracle(c, "C06 stored row %d of %s: vv[actor]=%d present=%v but lamport=%d", ss, an, v, ok, id.Lamport())
		}
		k := fmt.Sprintf("%d@%s", id.Lamport(), an)
		if w.seenTicket[k] {
			svOracle(c, "C06 (lamport, actor) = (%d, %s) stored twice (row %d)", id.Lamport(), an, ss)
		}
		w.seenTicket[k] = true
		if last, ok := w.lastLam[an]; ok && id.Lamport() <= last {
			svOracle(c, "C06 row %d of %s has lamport %d after %d in log order", ss, an, id.Lamport(), last)
		}
		w.lastLam[an] = id.Lamport()
	}
	c.Cmd("LOG")
	c.Obs("%s", w.showLog(false))
}

func svLE(a, b time.VersionVector) (time.ActorID, bool) {
	for _, k := range svSortedActors(a) {
		if a[k] > b[k] {
			return k, false
		}
	}
	return time.ActorID{}, true
}

// rowOracles: C06 clauses about the versionvectors rows, after a successful request of rep.
func (w *svWorld) rowOracles(what string, rep *svReplica, res *change.Pack) {
	c := w.c
	rows := w.vvRows()
	for _, cl := range w.clients {
		_, has := rows[cl.actor]
		want := cl.rep != nil && cl.rep.live && !cl.rep.nogc
		if has != want {
			svOracle(c, "C06/C11 after %s: client %s attached-with-GC=%v but versionvectors row present=%v", what, cl.name, want, has)
		}
		if has && cl.rep != nil && cl.rep.live {
			if k, ok := svLE(rows[cl.actor], cl.rep.doc.VersionVector()); !ok {
				svOracle(c, "C06 after %s: row of %s has %s=%d but the client's own vector has %d", what, cl.name, ActorNat(k),
					rows[cl.actor][k], cl.rep.doc.VersionVector()[k])
			}
		}
	}
	if res != nil && rep != nil && !rep.nogc && len(res.Snapshot) == 0 {
		for _, a := range svSortedActors(rows) {
			if k, ok := svLE(res.VersionVector, rows[a]); !ok {
				svOracle(c, "C06 after %s: response minVV has %s=%d but the row of %s has %d", what, ActorNat(k), res.VersionVector[k],
					ActorNat(a), rows[a][k])
			}
		}
	}
}

// ---------------------------------------------------------------- requests

// request runs one SDK call that performs exactly one document RPC and writes all its lines.
func (w *svWorld) request(kind string, rep *svReplica, call func() error) bool {
	return w.requestL(kind, rep, false, call)
}

// requestL: lost = the tap drops the response after the server produced it (PushPullChanges only).
func (w *svWorld) requestL(kind string, rep *svReplica, lost bool, call func() error) bool {
	c := w.c
	w.s.tap.take()
	// C05 statistics: what does the server hold of this replica's changes before the request?
	storedCS := uint32(0)
	if w.hasDoc && kind != "ATT" {
		if ci, e := w.s.db.FindClientInfoByRefKey(w.ctx(), types.ClientRefKey{ProjectID: w.ref.ProjectID, ClientID: types.IDFromActorID(rep.cl.actor)}); e == nil {
			storedCS = ci.Checkpoint(w.ref.DocID).ClientSeq
		}
	}
	if lost {
		w.s.tap.mu.Lock()
		w.s.tap.dropNext = true
		w.s.tap.mu.Unlock()
	}
	backlog := w.head
	hadLocal := rep.doc.HasLocalChanges()
	garbage := rep.doc.GarbageLen()
	err := call()
	w.s.wait()
	caps := w.s.tap.take()
	if len(caps) != 1 || caps[0].req == nil || caps[0].bad != "" {
		svOracle(c, "harness: %s of %s: captured %d requests (err=%v, %+v)", kind, rep.name, len(caps), err, caps)
		w.dead = true
		return false
	}
	cp := caps[0]
	if !w.hasDoc {
		if info, e := w.s.db.FindDocInfoByKey(w.ctx(), w.proj.ID, w.docKey); e == nil {
			w.ref = types.DocRefKey{ProjectID: w.proj.ID, DocID: info.ID}
			w.hasDoc = true
		}
	}
	w.flushLocals(rep, cp.req.Changes)
	extra := ""
	if cp.po {
		extra += " po=1"
		c.Count("srv:push-only")
	}
	if kind == "ATT" {
		extra += " dp=" + svB(cp.reqDP)
	}
	if lost {
		extra += " lost=1"
	}
	if cp.req.IsRemoved {
		extra += " rm=1"
	}
	nStored, nNew := 0, 0
	for _, cn := range cp.req.Changes {
		if cn.ClientSeq() <= storedCS {
			nStored++
		} else {
			nNew++
		}
	}
	c.Cmd("%s %s %s cp=%d,%d chg=%s vv=%s nogc=%s%s", kind, rep.cl.name, rep.name, cp.req.Checkpoint.ServerSeq,
		cp.req.Checkpoint.ClientSeq, svChg(cp.req.Changes), ShowVV(cp.req.VersionVector), svB(cp.nogc), extra)
	if cp.res == nil {
		c.Obs("R err=%s", protoErrKind(err))
		svOracle(c, "C01 %s of %s (%s) was rejected: %v", kind, rep.name, rep.cl.name, err)
		w.afterStore()
		w.dead = true
		return false
	}
	c.Count("srv:" + kind)
	c.Obs("%s", svShowResp(cp.res))
	// C11: after Remove every later response to any client carries the removed flag (whatever kind of answer)
	if (w.removed || kind == "REM") && !cp.res.IsRemoved {
		how := "changes"
		if len(cp.res.Snapshot) > 0 {
			how = "a snapshot"
		} else if len(cp.res.Changes) == 0 {
			how = "nothing to pull"
		}
		svOracle(c, "C11 response to %s (%s of %s), a holder of a removed document, lacks the removed flag (answer carries %s)", rep.cl.name, kind, rep.name, how)
	}
	if nStored > 0 {
		// a retry: the pack carries changes an earlier request (whose response was lost) has stored already
		w.sawRetry = true
		how := "with-changes"
		if len(cp.res.Snapshot) > 0 {
			how = "with-snapshot"
			w.sawRetrySnap = true
		} else if cp.po {
			how = "push-only"
		}
		what := "stored-only"
		if nNew > 0 {
			what = "stored+new"
		}
		c.Count("retry:answered-" + how)
		c.Count("retry:carrying-" + what)
		c.Count("retry:answered-" + how + ",carrying-" + what)
	}
	if lost {
		// the server is done with the request; the client never saw the answer: nothing applied, nothing acknowledged
		c.Count("srv:response-lost")
		w.sawLost = true
		if err == nil {
			svOracle(c, "harness: the response of %s was dropped but Sync returned no error", rep.name)
		}
		w.afterStore()
		w.observe(rep)
		return true
	}
	rep.live = kind != "DET" && kind != "REM"
	if w.removed || kind == "REM" {
		// The document is gone. What the client makes of the answer (a holder's unsent edits were discarded by the
		// server, a snapshot may contain them all the same) is no longer compared line by line; the lifecycle is.
		if w.removed {
			how := "changes"
			if len(cp.res.Snapshot) > 0 {
				how = "snapshot"
			} else if len(cp.res.Changes) == 0 {
				how = "nothing"
			}
			c.Count("remove:holder-sync-answered-with-" + how)
		}
		w.afterStore()
		if kind == "REM" && err == nil {
			w.removed, w.removedHead = true, w.head
		}
		if err != nil {
			svOracle(c, "C11 %s of %s on a removed document: the client failed to apply the response: %v", kind, rep.name, err)
			w.dead = true
			return false
		}
		if rep.doc.Status() != document.StatusRemoved || rep.doc.IsAttached() {
			svOracle(c, "C11 client %s still reports the document attached (status %v) after syncing a removed document (%s of %s)", rep.cl.name, rep.doc.Status(), kind, rep.name)
		}
		rep.gone = true
		w.rowOracles(kind+" "+rep.name, nil, nil)
		return true
	}
	if kind == "ATT" {
		rep.docDP = cp.resDP
		if !w.dpSet {
			w.docDP, w.dpSet = cp.resDP, true
		} else if cp.resDP != w.docDP {
			svOracle(c, "C12 attach response says disable_presence=%v but the document was created with %v", cp.resDP, w.docDP)
		}
		if cp.reqDP != cp.resDP {
			c.Count("presence:attach-with-the-other-setting")
		}
		if rep.docDP {
			rep.cl.presOn, rep.cl.presData = false, map[string]string{}
			rep.initStale = false
		}
	}
	w.afterStore()
	// what the replica applied
	res := cp.res
	verdict := "ok"
	if err != nil {
		// the client stopped in the middle of the response: which operations it executed is not observable
		// change by change, so nothing more is replayed for this trace (the oracle line is the record)
		w.dead = true
		tag := ""
		if rep.missedOwn {
			tag = svTag(svTagReattachOwn)
		} else if kind == "ATT" && len(res.Snapshot) == 0 && w.ownOpsMissing(rep, res, backlog) {
			tag = svTag(svTagReattachOwn)
			c.Count("srv:reattach-own-change-filtered")
		}
		msg := err.Error()
		if len(msg) > 300 {
			msg = msg[:300]
		}
		svOracle(c, "%sC01 %s of %s: the client failed to apply the response: %s", tag, kind, rep.name, msg)
		return false
	}
	if len(res.Snapshot) > 0 {
		c.Count("srv:snapshot-response")
		if kind == "ATT" {
			c.Count("srv:snapshot-fed-attach")
		}
		if hadLocal {
			c.Count("srv:snapshot-response-with-own-changes")
		}
		w.sawSnap = true
		rep.snapFed = true
		rep.initStale = false // ApplyChangePack dropped the clone: it is re-copied from the root
		rep.cl.cloneData = map[string]string{}
		if rep.cl.presOn {
			rep.cl.cloneData = svCopyData(rep.cl.presData)
		}
		c.Cmd("CID %s snap lam=%d vv=%s", rep.name, res.VersionVector.MaxLamport(), ShowVV(res.VersionVector))
		c.Obs("ok")
		c.Cmd("MSNAP %s %d", rep.name, res.Checkpoint.ServerSeq)
		c.Obs("%s", rep.doc.Marshal())
		c.Cmd("PSNAP %s %d", rep.name, res.Checkpoint.ServerSeq)
		c.Obs("%s", svShowPresences(rep.doc.AllPresences()))
		if n := int(res.Checkpoint.ServerSeq); n >= 1 && n <= len(w.maxLamAt) {
			rep.appliedLam = max(rep.appliedLam, w.maxLamAt[n-1])
			rep.appliedVV = svMaxVV(rep.appliedVV, w.vvAt[n-1])
			// C06 (setClocks_dominates at system level): the vector handed out with a snapshot covers
			// every change the snapshot contains
			if !rep.nogc {
				if k, ok := svLE(w.vvAt[n-1], res.VersionVector); !ok {
					rep.shortSnap = true
					c.Count("srv:snapshot-vector-short")
					svOracle(c, "%sC06/C02 snapshot response for %s at serverSeq %d: its vector has %s=%d but the snapshot contains a change of that actor with lamport %d",
						svTag(svTagSnapVV), rep.name, n, ActorNat(k), res.VersionVector[k], w.vvAt[n-1][k])
				}
			}
		}
		for _, cn := range rep.doc.CreateChangePack().Changes {
			if len(cn.Operations()) > 0 {
				svOracle(c, "harness: %s keeps a local change with operations after a snapshot response", rep.name)
			}
		}
	} else {
		if kind == "ATT" {
			// C04: a new Document must be handed every stored operation up to the response checkpoint,
			// the requester's own ones from an earlier attachment included
			got := map[int64]bool{}
			for _, cn := range res.Changes {
				got[cn.ServerSeq()] = true
			}
			if all, e := w.s.db.FindChangesBetweenServerSeqs(w.ctx(), w.ref, 1, res.Checkpoint.ServerSeq); e == nil {
				for _, cn := range all {
					if cn.ServerSeq() <= backlog && !got[cn.ServerSeq()] && len(cn.Operations()) > 0 {
						own := cn.ID().ActorID() == rep.cl.actor
						tag := ""
						if own {
							tag = svTag(svTagReattachOwn)
							rep.missedOwn = true
							c.Count("srv:reattach-own-change-filtered")
						}
						svOracle(c, "%sC04/C01 change-fed attach of %s (%s) up to serverSeq %d did not deliver stored row %d (actor %s, clientSeq %d, own=%v)",
							tag, rep.name, rep.cl.name, res.Checkpoint.ServerSeq, cn.ServerSeq(), ActorNat(cn.ID().ActorID()), cn.ClientSeq(), own)
					}
				}
			}
		}
		if rep.missedOwn {
			// From here on the replica re-issues lamports (and tickets) its actor has already used: the stored
			// document itself becomes ill-formed (duplicate tickets). The finding is recorded; the random
			// stream stops here, the scripted witness (corpus/C04) goes on to show the divergence.
			w.missedStop = true
		}
		if len(res.Changes) > 0 {
			c.Count("srv:change-response")
			if hadLocal {
				w.sawConc = true
			}
		}
		for _, cn := range res.Changes {
			for _, op := range cn.Operations() {
				c.Cmd("OP %s %s", rep.name, w.enc(op, cn))
				c.Obs("%s", verdict)
			}
			if pc := cn.PresenceChange(); pc != nil {
				c.Cmd("PO %s recv %s %d %s", rep.name, ActorNat(cn.ID().ActorID()), w.pseqAt[cn.ServerSeq()], prShowChange(pc))
				c.Obs("ok")
				if kind == "ATT" && cn.ID().ActorID() == rep.cl.actor && pc.IsClear() && rep.cl.presOn {
					rep.ownStale = true
					rep.cl.cloneData = map[string]string{} // the stale clear deleted the own entry: the next Set / Delete starts from nothing
					c.Count("presence:reattach-applies-own-stale-clear")
				}
			}
			c.Cmd("CID %s recv %s", rep.name, encID(cn.ID()))
			c.Obs("ok")
			rep.appliedLam = max(rep.appliedLam, cn.ID().Lamport())
			rep.appliedVV = svMaxVV(rep.appliedVV, cn.ID().VersionVector())
		}
	}
	if rep.doc.GarbageLen() < garbage {
		c.Count("srv:replica-purged-garbage")
	}
	w.observe(rep)
	if err == nil {
		w.rowOracles(kind+" "+rep.name, rep, res)
	}
	return err == nil
}

// ownOpsMissing: the change-fed attach response omits a stored row of the requester's own actor that
// carries operations (predicate of svTagReattachOwn).
func (w *svWorld) ownOpsMissing(rep *svReplica, res *change.Pack, backlog int64) bool {
	got := map[int64]bool{}
	for _, cn := range res.Changes {
		got[cn.ServerSeq()] = true
	}
	all, e := w.s.db.FindChangesBetweenServerSeqs(w.ctx(), w.ref, 1, res.Checkpoint.ServerSeq)
	if e != nil {
		return false
	}
	for _, cn := range all {
		if cn.ServerSeq() <= backlog && !got[cn.ServerSeq()] && len(cn.Operations()) > 0 && cn.ID().ActorID() == rep.cl.actor {
			return true
		}
	}
	return false
}

func (w *svWorld) observe(rep *svReplica) {
	c := w.c
	id := rep.doc.InternalDocument()
	c.Cmd("CIDQ %s", rep.name)
	c.Obs("lam=%d vv=%s cp=%d,%d pend=%d", id.Lamport(), ShowVV(rep.doc.VersionVector()), rep.doc.Checkpoint().ServerSeq,
		rep.doc.Checkpoint().ClientSeq, len(rep.doc.CreateChangePack().Changes))
	c.Cmd("M %s", rep.name)
	root := rep.doc.Marshal()
	c.Obs("%s", root)
	if clone := rep.doc.Root().Marshal(); clone != root {
		tag := ""
		if rep.shortSnap {
			tag = svTag(svTagSnapVV)
		} else if rep.missedOwn {
			tag = svTag(svTagReattachOwn)
		}
		svOracle(c, "%sC08/C02 clone != root on %s: clone=%s root=%s", tag, rep.name, clone, root)
	}
	c.Cmd("PQ %s", rep.name)
	c.Obs("%s", svShowPresences(rep.doc.AllPresences()))
}

func (w *svWorld) newClient(nogc bool) *svClient {
	cli, err := client.Dial(w.s.addr, client.WithAPIKey(w.proj.PublicKey), client.WithLogger(zap.NewNop()))
	if err != nil {
		panic(err)
	}
	cl := &svClient{name: fmt.Sprintf("c%d", len(w.clients)), cli: cli, nogc: nogc, presData: map[string]string{}, cloneData: map[string]string{}}
	w.clients = append(w.clients, cl)
	return cl
}

func (w *svWorld) activate(cl *svClient) {
	c := w.c
	err := cl.cli.Activate(w.ctx())
	if err != nil {
		svOracle(c, "C11 Activate of %s failed: %v", cl.name, err)
		w.dead = true
		return
	}
	cl.actor = cl.cli.ID()
	cl.active = true
	c.Cmd("ACT %s actor=%s", cl.name, ActorNat(cl.actor))
	c.Obs("R client=%s", ActorNat(cl.actor))
	for _, o := range w.clients {
		if o != cl && o.actor != (time.ActorID{}) && bytes.Compare(o.actor[:], cl.actor[:]) >= 0 {
			c.Count("srv:client-id-not-monotone")
		}
	}
}

func svParseData(s string) map[string]string {
	m := map[string]string{}
	if s == "-" || s == "" {
		return m
	}
	for _, kv := range strings.Split(s, ",") {
		if p := strings.SplitN(kv, "=", 2); len(p) == 2 {
			m[p[0]] = p[1]
		}
	}
	return m
}

// attach: dp = the client passes client.WithDisablePresence(); pres = "none" (no WithPresence) or data.
func (w *svWorld) attach(cl *svClient, dp bool, pres string) *svReplica {
	c := w.c
	var dopts []document.Option
	if !w.gc {
		dopts = append(dopts, document.WithDisableGC())
	}
	rep := &svReplica{name: fmt.Sprintf("r%d", len(w.reps)), cl: cl, doc: document.New(w.docKey, dopts...), nogc: cl.nogc,
		appliedVV: time.NewVersionVector()}
	w.reps = append(w.reps, rep)
	if cl.rep != nil {
		c.Count("srv:re-attach-with-new-document")
		w.sawReatt = true
	}
	cl.rep = rep
	c.Cmd("R %s %s nogc=%s", rep.name, cl.name, svB(rep.nogc))
	c.Obs("ok")
	var aopts []interface{}
	if rep.nogc {
		aopts = append(aopts, client.WithDisableGC())
		c.Count("srv:attach-with-disable-gc")
	}
	// C12: Attach initialises the participant's presence unless it opted out
	cl.presOn, cl.presData, cl.cloneData = false, map[string]string{}, map[string]string{}
	rep.reqDP = dp
	if dp {
		aopts = append(aopts, client.WithDisablePresence())
		c.Count("presence:attach-opted-out")
		rep.exp = &svPresExpect{what: "Attach", none: true}
	} else {
		init := map[string]string{}
		if pres != "none" {
			init = svParseData(pres)
			aopts = append(aopts, client.WithPresence(presence.Data(svParseData(pres))))
			c.Count("presence:attach-with-initial-presence")
		} else {
			c.Count("presence:attach-without-presence")
		}
		rep.exp = &svPresExpect{what: "Attach", data: init}
		rep.initStale = false // fixed: property=C12 Initialize fills the clone's entry; a recurrence is a plain violation
		rep.initData = presence.Data(svCopyData(init))
	}
	backlog := w.head
	ok := w.request("ATT", rep, func() error { return cl.cli.Attach(w.ctx(), rep.doc, aopts...) })
	if ok && backlog > 0 {
		c.Count("srv:late-attach")
	}
	return rep
}

func (w *svWorld) sync(rep *svReplica) bool {
	return w.request("PP", rep, func() error { return rep.cl.cli.Sync(w.ctx(), client.WithKey(w.docKey)) })
}

// remove: Client.Remove – the document is removed for everybody (C11).
func (w *svWorld) remove(rep *svReplica) bool {
	return w.request("REM", rep, func() error { return rep.cl.cli.Remove(w.ctx(), rep.doc) })
}

// lostSync: a Sync whose response is lost after the server processed the request (C05).
func (w *svWorld) lostSync(rep *svReplica) bool {
	return w.requestL("PP", rep, true, func() error { return rep.cl.cli.Sync(w.ctx(), client.WithKey(w.docKey)) })
}

func (w *svWorld) pushOnly(rep *svReplica) bool {
	return w.request("PP", rep, func() error { return rep.cl.cli.Sync(w.ctx(), client.WithKey(w.docKey).WithPushOnly()) })
}

func (w *svWorld) detach(rep *svReplica) bool {
	// C12: a detached participant is gone, whatever its data was
	rep.exp = &svPresExpect{what: "Detach", clearIf: true}
	ok := w.request("DET", rep, func() error { return rep.cl.cli.Detach(w.ctx(), rep.doc) })
	rep.cl.presOn, rep.cl.presData = false, map[string]string{}
	return ok
}

func (w *svWorld) deactivate(cl *svClient) {
	c := w.c
	// the situation that used to block Deactivate (ErrChangeNotFound, repaired): attached, and no stored row of
	// this actor at or below the serverSeq of its stored checkpoint (what clusterServer.DetachDocument asks
	// FindLatestChangeInfoByActor for) – presenceless document, attacher that opted out, push-only syncs only
	neverStored := false
	if cl.rep != nil && cl.rep.live && w.hasDoc {
		neverStored = true
		if ci, e := w.s.db.FindClientInfoByRefKey(w.ctx(), types.ClientRefKey{ProjectID: w.ref.ProjectID, ClientID: types.IDFromActorID(cl.actor)}); e == nil {
			cpS := ci.Checkpoint(w.ref.DocID).ServerSeq
			if rows, e := w.s.db.FindChangeInfosBetweenServerSeqs(w.ctx(), w.ref, 1, cpS); e == nil {
				for _, r := range rows {
					if r.ActorID == types.IDFromActorID(cl.actor) {
						neverStored = false
					}
				}
			}
		}
	}
	holdsRemoved := w.removed && cl.rep != nil && cl.rep.live
	if holdsRemoved {
		c.Count("remove:deactivate-of-a-holder-of-the-removed-document")
	}
	err := cl.cli.Deactivate(w.ctx())
	w.s.wait()
	c.Cmd("DEACT %s", cl.name)
	if err != nil {
		c.Obs("R err=%s", protoErrKind(err))
		svOracle(c, "C11 Deactivate of %s failed (attached without an own change at or below its checkpoint: %v): %v", cl.name, neverStored, err)
		w.afterStore()
		w.dead = true
		return
	} else {
		c.Obs("R ok")
		c.Count("srv:deactivate")
		if neverStored {
			c.Count("srv:deactivate-without-own-change")
		}
		if cl.rep != nil && cl.rep.live {
			c.Count("srv:deactivate-while-attached")
		}
	}
	cl.active = false
	cl.presOn, cl.presData = false, map[string]string{}
	if cl.rep != nil {
		cl.rep.live = false
	}
	w.afterStore()
	if err == nil {
		w.rowOracles("DEACT "+cl.name, nil, nil)
	}
}

// ---------------------------------------------------------------- edits

var svPeerKeys = []string{"p0", "p1", "p2"}
var svNogcKeys = []string{"n0", "n1"}
var svPresKeys = []string{"k", "cursor", "sel"}

const svCounterKey = "pc"

// svRootEdit: the workload of a restricted participant: set a reserved root key or bump the root counter.
func svRootEdit(r *mrand.Rand, root *json.Object, keys []string) string {
	if _, isCnt := root.Object.Get(svCounterKey).(*crdt.Counter); isCnt && r.Intn(3) == 0 {
		root.GetCounter(svCounterKey).Increase(r.Intn(100))
		return "root.increase"
	}
	k := keys[r.Intn(len(keys))]
	if r.Intn(4) == 0 {
		root.SetString(k, fmt.Sprintf("s%d", r.Intn(100)))
		return "root.setString"
	}
	root.SetInteger(k, r.Intn(1000))
	return "root.setInteger"
}

// svAuthorEdit: the author of the GC-on stream: objects and counters freely, arrays insert-only.
func svAuthorEdit(r *mrand.Rand, root *json.Object) string {
	cs := containers(root)
	t := cs[r.Intn(len(cs))]
	switch t.kind {
	case "obj":
		k := crdtKeys[r.Intn(len(crdtKeys))]
		switch x := r.Intn(100); {
		case x < 25:
			t.obj.SetInteger(k, r.Intn(1000))
			return "obj.setInteger"
		case x < 35:
			t.obj.SetString(k, fmt.Sprintf("s%d", r.Intn(100)))
			return "obj.setString"
		case x < 40:
			t.obj.SetBool(k, r.Intn(2) == 0)
			return "obj.setBool"
		case x < 55:
			t.obj.SetNewArray(k)
			return "obj.setNewArray"
		case x < 65:
			t.obj.SetNewObject(k)
			return "obj.setNewObject"
		case x < 72:
			t.obj.SetNewCounter(k, int32(r.Intn(10)))
			return "obj.setNewCounter"
		default:
			if t.obj.Delete(k) != nil {
				return "obj.delete"
			}
			t.obj.SetInteger(k, r.Intn(1000))
			return "obj.setInteger"
		}
	case "arr":
		n := t.arr.Len()
		switch x := r.Intn(100); {
		case x < 50 || n == 0:
			switch r.Intn(6) {
			case 0:
				t.arr.AddNewArray()
				return "arr.addNewArray"
			case 1:
				t.arr.AddNewObject()
				return "arr.addNewObject"
			case 2:
				t.arr.AddNewCounter(crdt.IntegerCnt, int32(r.Intn(5)))
				return "arr.addNewCounter"
			default:
				t.arr.AddInteger(r.Intn(1000))
				return "arr.addInteger"
			}
		default:
			t.arr.InsertIntegerAfter(r.Intn(n), r.Intn(1000))
			return "arr.insertAfter"
		}
	default:
		if t.cnt.ValueType() == crdt.LongCnt {
			t.cnt.Increase(int64(r.Intn(1 << 20)))
		} else {
			t.cnt.Increase(r.Intn(1000) - 500)
		}
		return "cnt.increase"
	}
}

func svTextEdit(r *mrand.Rand, root *json.Object) string {
	t := root.GetText("t")
	if t == nil {
		return "text.absent"
	}
	n := t.TreeByIndex().Len()
	cl, _ := genCall(r, n)
	if cl.from < 0 || cl.from > cl.to || cl.to > n {
		return "text.skipped"
	}
	switch cl.kind {
	case "edit":
		if cl.attrs != nil {
			t.Edit(cl.from, cl.to, cl.content, cl.attrs)
		} else {
			t.Edit(cl.from, cl.to, cl.content)
		}
		return "text.edit"
	default:
		t.Style(cl.from, cl.to, cl.attrs)
		return "text.style"
	}
}

// presenceEdit makes one presence call and records what it must produce.
func (w *svWorld) presenceEdit(r *mrand.Rand, rep *svReplica, p *presence.Presence) string {
	cl := rep.cl
	// While the participant is present the spec is its register; after p.Clear() it is empty (cloneData).
	prev := svCopyData(cl.cloneData)
	if cl.presOn {
		prev = svCopyData(cl.presData)
	}
	zero := svCopyData(cl.cloneData) // what the code computes: it starts from the clone's entry
	what := ""
	exp := &svPresExpect{}
	switch x := r.Intn(100); {
	case x < 70:
		k, v := svPresKeys[r.Intn(len(svPresKeys))], fmt.Sprintf("v%d", r.Intn(50))
		p.Set(k, v)
		prev[k], zero[k] = v, v
		exp.data, exp.fromZero = prev, zero
		what = "presence.set"
	case x < 90:
		k := svPresKeys[r.Intn(len(svPresKeys))]
		p.Delete(k)
		delete(prev, k)
		delete(zero, k)
		exp.data, exp.fromZero = prev, zero
		what = "presence.delete"
	default:
		p.Clear()
		exp.clear = true
		what = "presence.clear"
	}
	exp.what = what
	if rep.docDP {
		exp = &svPresExpect{what: what + " on a presenceless document", none: true}
	}
	rep.exp = exp
	return what
}

// edit performs one Update on rep according to its role in the stream; every choice comes from seed.
func (w *svWorld) edit(rep *svReplica, seed int64) {
	c := w.c
	r := mrand.New(mrand.NewSource(seed))
	mode := r.Intn(100) // < 70 content, < 85 presence, else both
	if rep.nogc && w.text {
		mode = 75 // a DisableGC attachment does not edit text (documented restriction); presence only
	}
	before := len(rep.doc.CreateChangePack().Changes)
	err := rep.doc.Update(func(root *json.Object, p *presence.Presence) error {
		if mode >= 70 {
			c.Count("edit:" + w.presenceEdit(r, rep, p))
		}
		if mode >= 70 && mode < 85 {
			return nil
		}
		n := 1
		if r.Intn(5) == 0 {
			n = 2 + r.Intn(2)
		}
		for i := 0; i < n; i++ {
			var what string
			switch {
			case rep.nogc:
				what = "nogc:" + svRootEdit(r, root, svNogcKeys)
			case w.text:
				what = svTextEdit(r, root)
			case !w.gc:
				what = "free:" + randomEdit(r, root, c)
			case rep.cl == w.clients[0]:
				what = "author:" + svAuthorEdit(r, root)
			default:
				what = "peer:" + svRootEdit(r, root, svPeerKeys)
			}
			c.Count("edit:" + what)
		}
		return nil
	})
	if err != nil {
		svOracle(c, "C08 Update failed on %s: %v", rep.name, err)
		w.dead = true
		return
	}
	w.flushLocals(rep, rep.doc.CreateChangePack().Changes[before:])
	w.observe(rep)
}

// seedDoc: the first replica creates what everybody shares.
func (w *svWorld) seedDoc(rep *svReplica, seed int64) {
	r := mrand.New(mrand.NewSource(seed))
	before := len(rep.doc.CreateChangePack().Changes)
	err := rep.doc.Update(func(root *json.Object, p *presence.Presence) error {
		if w.text {
			root.SetNewText("t")
			if r.Intn(3) > 0 {
				root.GetText("t").Edit(0, 0, genContent(r)+genContent(r))
			}
			return nil
		}
		root.SetNewCounter(svCounterKey, int32(0))
		if r.Intn(2) == 0 {
			root.SetNewArray("a")
		}
		return nil
	})
	if err != nil {
		svOracle(w.c, "C08 Update failed on %s: %v", rep.name, err)
		w.dead = true
		return
	}
	w.flushLocals(rep, rep.doc.CreateChangePack().Changes[before:])
	w.observe(rep)
}

// ---------------------------------------------------------------- C02 / C20 / C12 probes

func (w *svWorld) twinAt(seq int64) (string, bool) {
	if seq == w.head && w.twin != nil && !w.twinBad {
		return w.twin.Marshal(), true
	}
	d := document.NewInternalDocument(w.docKey)
	if seq > 0 {
		chs, err := w.s.db.FindChangesBetweenServerSeqs(w.ctx(), w.ref, 1, seq)
		if err != nil {
			return "", false
		}
		if err := d.ApplyChangePack(change.NewPack(w.docKey, change.InitialCheckpoint.NextServerSeq(seq), chs, nil, nil), true); err != nil {
			return "", false
		}
	}
	return d.Marshal(), true
}

// build calls packs.BuildInternalDocForServerSeq; mode: cold (whole cache purged), evict (this
// document's entry removed), warm (cache left as the server left it).
func (w *svWorld) build(seq int64, mode string) *document.InternalDocument {
	c := w.c
	switch mode {
	case "cold":
		w.s.be.Cache.Snapshot.Purge()
	case "evict":
		w.s.be.Cache.Snapshot.Remove(w.ref)
	}
	if d, ok := w.s.be.Cache.Snapshot.Peek(w.ref); ok && d != nil {
		if seq >= d.Checkpoint().ServerSeq {
			c.Count("build:cache-hit")
			w.sawHit = true
		} else {
			c.Count("build:cache-ahead-of-request")
			w.sawAhead = true
		}
	} else {
		c.Count("build:cache-miss")
	}
	info, err := w.s.db.FindDocInfoByRefKey(w.ctx(), w.ref)
	if err != nil {
		svOracle(c, "harness: document lookup failed: %v", err)
		return nil
	}
	d, err := packs.BuildInternalDocForServerSeq(w.ctx(), w.s.be, info, seq)
	m := "cold"
	if mode == "warm" {
		m = "warm"
	}
	c.Cmd("BUILD seq=%d mode=%s", seq, m)
	if err != nil {
		c.Obs("B err")
		c.Obs("-")
		c.Obs("-")
		svOracle(c, "C02 BuildInternalDocForServerSeq(%d, %s) failed: %v", seq, mode, err)
		return nil
	}
	c.Obs("B ss=%d lam=%d vv=%s", d.Checkpoint().ServerSeq, d.Lamport(), ShowVV(d.VersionVector()))
	got := d.Marshal()
	c.Obs("%s", got)
	c.Obs("%s", svShowPresences(d.AllPresences()))
	if want, ok := w.twinAt(seq); ok && want != got {
		svOracle(c, "C02/C20 BuildInternalDocForServerSeq(%d) with the cache %s = %s but the change-fed fold of the log is %s", seq, mode, got, want)
	}
	if w.docDP && len(d.AllPresences()) > 0 {
		svOracle(c, "C12 the server's document of a presenceless document has presences %s", svShowPresences(d.AllPresences()))
	}
	return d
}

// probe: at a quiescent point. Convergence (C01), snapshot-fed == change-fed == rebuild (C02),
// GC-on == GC-off twin (C03), deep copies out of the cache (C20), presence registers (C12).
func (w *svWorld) probe(seed int64) {
	c := w.c
	r := mrand.New(mrand.NewSource(seed))
	reps := w.liveReps()
	for round := 0; round < 2; round++ {
		for _, rep := range reps {
			if w.dead || !w.sync(rep) {
				return
			}
		}
	}
	c.Count("probe:quiescent")
	want, twinOK := w.twinAt(w.head)
	// C12 reference: one register per attached participant
	ref := map[string]presence.Data{}
	if !w.docDP {
		for _, cl := range w.clients {
			if cl.rep != nil && cl.rep.live && cl.presOn {
				ref[cl.actor.String()] = presence.Data(cl.presData)
			}
		}
	}
	wantP := svShowPresences(ref)
	c05 := ""
	if w.sawLost {
		c05 = "/C05" // convergence after a retry is C05's business too
	}
	for _, rep := range reps {
		m := rep.doc.Marshal()
		if twinOK && m != want {
			kind := "C01" + c05
			tag := ""
			if rep.missedOwn {
				tag = svTag(svTagReattachOwn)
			}
			switch {
			case rep.snapFed:
				kind = "C01/C02" + c05 + " (snapshot-fed replica)"
			case w.gc:
				kind = "C01/C03" + c05 + " (GC-on replica vs GC-off twin)"
			}
			svOracle(c, "%s%s after quiescence %s=%s but the change-fed GC-off fold of the log is %s", tag, kind, rep.name, m, want)
		}
		if m != reps[0].doc.Marshal() {
			tag := ""
			if rep.missedOwn || reps[0].missedOwn {
				tag = svTag(svTagReattachOwn)
			}
			svOracle(c, "%sC01%s replicas diverge after quiescence: %s=%s vs %s=%s", tag, c05, reps[0].name, reps[0].doc.Marshal(), rep.name, m)
		}
		// C05: the reserved root counter reflects every stored increase exactly once (a retried change that is
		// applied twice shows here even when the peers agree among themselves)
		if cnt, ok := rep.doc.RootObject().Get(svCounterKey).(*crdt.Counter); ok && !w.text {
			// the counter is an int32 one: sums wrap the way Counter.Increase wraps them
			if got := fmt.Sprint(cnt.Value()); got != fmt.Sprint(int32(w.pcSum)) {
				tag := ""
				if rep.missedOwn {
					tag = svTag(svTagReattachOwn)
				}
				svOracle(c, "%sC05/C01 after quiescence counter %q on %s is %s but the increases stored in the log, once each, sum to %d", tag, svCounterKey, rep.name, got, int32(w.pcSum))
			}
		}
		if p := svShowPresences(rep.doc.AllPresences()); p != wantP {
			tag := ""
			if w.docDP && !rep.reqDP && p == svShowPresences(map[string]presence.Data{rep.cl.actor.String(): rep.initData}) {
				tag = svTag(svTagDpPending)
				c.Count("presence:stripped-initial-change-reapplied")
			}
			if rep.ownStale {
				less := map[string]presence.Data{}
				for k, v := range ref {
					if k != rep.cl.actor.String() {
						less[k] = v
					}
				}
				if p == svShowPresences(less) {
					tag = svTag(svTagOwnStaleClear)
				}
			}
			svOracle(c, "%sC12 after quiescence %s has presences %s; attached participants and their last presence are %s", tag, rep.name, p, wantP)
		}
	}
	if !w.hasDoc || w.head == 0 {
		return
	}
	// rebuilds at the head and at a random earlier point: cold / evicted / warm, warm again (hit), after a
	// throw-away mutation, with the cached document moved ahead of the request
	seqs := []int64{w.head, r.Int63n(w.head + 1)}
	for _, seq := range seqs {
		d1 := w.build(seq, []string{"cold", "evict", "warm"}[r.Intn(3)])
		d2 := w.build(seq, "warm")
		if d1 == nil || d2 == nil {
			return
		}
		if seq == w.head {
			if p := svShowPresences(d1.AllPresences()); p != wantP {
				svOracle(c, "C12 after quiescence the server's document has presences %s; attached participants and their last presence are %s", p, wantP)
			}
		}
		// C20: the two results and the cache entry share no state. The LAST result is the one to mutate: if the
		// function handed out the cached pointer, it is that one the cache still holds.
		before := d1.Marshal()
		beforeP := svShowPresences(d1.AllPresences())
		if d2.Marshal() != before {
			svOracle(c, "C02/C20 two consecutive BuildInternalDocForServerSeq(%d) differ: %s vs %s", seq, before, d2.Marshal())
		}
		d2.SetActor(time.MaxActorID)
		d2.SetStatus(document.StatusAttached)
		if err := d2.ToDocument().Update(func(root *json.Object, p *presence.Presence) error {
			root.SetString("zz-probe", "mutated")
			if t := root.GetText("t"); t != nil {
				t.Edit(0, 0, "#")
			}
			p.Set("probe", "mutated")
			return nil
		}); err != nil {
			svOracle(c, "harness: mutating a rebuilt document failed: %v", err)
			return
		}
		if d2.Marshal() == before {
			svOracle(c, "harness: the throw-away mutation did not change the rebuilt document")
		}
		if d1.Marshal() != before || svShowPresences(d1.AllPresences()) != beforeP {
			svOracle(c, "C20 two results of BuildInternalDocForServerSeq(%d) share state: mutating the second changed the first to %s %s", seq,
				d1.Marshal(), svShowPresences(d1.AllPresences()))
		}
		if d3 := w.build(seq, "warm"); d3 != nil && (d3.Marshal() != before || svShowPresences(d3.AllPresences()) != beforeP) {
			svOracle(c, "C20 mutating a document returned by BuildInternalDocForServerSeq(%d) changed what the cache hands out next: %s %s", seq, d3.Marshal(),
				svShowPresences(d3.AllPresences()))
		}
		if seq < w.head {
			up := seq + 1 + r.Int63n(w.head-seq)
			w.build(up, "warm")  // moves the cached document forward
			w.build(seq, "warm") // the cache is now ahead: reload from the closest stored snapshot
		}
	}
	c.Count("probe:rebuilds")
}

// ---------------------------------------------------------------- API-level lines

func svArg(toks []string, k string) string {
	for _, x := range toks {
		if strings.HasPrefix(x, k+"=") {
			return x[len(k)+1:]
		}
	}
	return ""
}

// do writes one API-level line (`! …`, ignored by the driver) and executes it.
func (w *svWorld) stopped() bool { return w.dead || (w.missedStop && !w.scripted) }

func (w *svWorld) do(format string, a ...any) {
	if w.stopped() {
		return
	}
	line := fmt.Sprintf(format, a...)
	w.c.Cmd("%s", line)
	w.exec(line)
}

func (w *svWorld) exec(line string) {
	c := w.c
	toks := strings.Fields(line)
	if len(toks) < 2 || toks[0] != "!" {
		return
	}
	num := func(s string) int64 {
		n, _ := strconv.ParseInt(s, 10, 64)
		return n
	}
	needRep := func() *svReplica {
		if len(toks) < 3 || w.replica(toks[2]) == nil {
			svOracle(c, "harness: unknown replica in %q", line)
			w.dead = true
			return nil
		}
		return w.replica(toks[2])
	}
	needClient := func() *svClient {
		if len(toks) < 3 || w.client(toks[2]) == nil {
			svOracle(c, "harness: unknown client in %q", line)
			w.dead = true
			return nil
		}
		return w.client(toks[2])
	}
	switch toks[1] {
	case "cfg":
		w.thr, w.itv = num(svArg(toks, "thr")), num(svArg(toks, "int"))
		w.gc = svArg(toks, "gc") == "1"
		w.text = svArg(toks, "content") == "text"
		ctx := w.ctx()
		w.s.projN++
		pi, err := w.s.db.CreateProjectInfo(ctx, fmt.Sprintf("sv-%s-%d", w.s.nonce, w.s.projN), w.s.owner)
		if err != nil {
			panic(err)
		}
		f := false
		if _, err := w.s.db.UpdateProjectInfo(ctx, pi.ID, &types.UpdatableProjectFields{SnapshotThreshold: &w.thr,
			SnapshotInterval: &w.itv, AutoRevisionEnabled: &f, RemoveOnDetach: &f}); err != nil {
			panic(err)
		}
		pi, err = w.s.db.FindProjectInfoByID(ctx, pi.ID)
		if err != nil {
			panic(err)
		}
		w.proj = pi.ToProject()
		w.docKey = key.Key(fmt.Sprintf("sv-%s-%d", w.s.nonce, w.s.projN))
		w.s.be.Config.SnapshotDisableGC = !w.gc
		c.Cmd("CFG thr=%d int=%d content=%s gc=%s", w.thr, w.itv, svArg(toks, "content"), svB(w.gc))
		c.Obs("CFG ok")
		c.Count(fmt.Sprintf("cfg:threshold=%d", w.thr))
		c.Count(fmt.Sprintf("cfg:interval=%d", w.itv))
		c.Count("cfg:content=" + svArg(toks, "content") + ",gc=" + svB(w.gc))
	case "client":
		if w.proj == nil {
			svOracle(c, "harness: %q before cfg", line)
			w.dead = true
			return
		}
		w.activate(w.newClient(svArg(toks, "nogc") == "1"))
	case "attach":
		if cl := needClient(); cl != nil {
			if !cl.active || (cl.rep != nil && cl.rep.live) {
				svOracle(c, "harness: %q: client not idle", line)
				w.dead = true
				return
			}
			pres := svArg(toks, "pres")
			if pres == "" {
				pres = "none"
			}
			w.attach(cl, svArg(toks, "dp") == "1", pres)
		}
	case "seed":
		if rep := needRep(); rep != nil && len(toks) > 3 {
			w.seedDoc(rep, num(toks[3]))
		}
	case "edit":
		if rep := needRep(); rep != nil && len(toks) > 3 && rep.live && !rep.gone {
			w.edit(rep, num(toks[3]))
		}
	case "sync":
		if rep := needRep(); rep != nil && rep.live && !rep.gone {
			w.sync(rep)
		}
	case "pushonly":
		if rep := needRep(); rep != nil && rep.live && !rep.gone {
			w.pushOnly(rep)
		}
	case "lostsync":
		if rep := needRep(); rep != nil && rep.live && !rep.gone {
			w.lostSync(rep)
		}
	case "remove":
		if rep := needRep(); rep != nil && rep.live && !w.removed {
			w.remove(rep)
		}
	case "detach":
		if rep := needRep(); rep != nil && rep.live && !rep.gone {
			w.detach(rep)
		}
	case "deact":
		if cl := needClient(); cl != nil && cl.active {
			w.deactivate(cl)
		}
	case "probe":
		if len(toks) > 2 && !w.removed {
			w.probe(num(toks[2]))
		}
	case "logf":
		c.Cmd("LOGF")
		c.Obs("%s", w.showLog(true))
	default:
		svOracle(c, "harness: unknown API line %q", line)
		w.dead = true
	}
}

// ---------------------------------------------------------------- generator

func (w *svWorld) idleClients() []*svClient {
	var out []*svClient
	for _, cl := range w.clients {
		if cl.active && (cl.rep == nil || !cl.rep.live) {
			out = append(out, cl)
		}
	}
	return out
}

func svGenData(r *mrand.Rand) string {
	var parts []string
	for _, k := range svPresKeys {
		if r.Intn(2) == 0 {
			parts = append(parts, fmt.Sprintf("%s=i%d", k, r.Intn(20)))
		}
	}
	if len(parts) == 0 {
		return "-"
	}
	return strings.Join(parts, ",")
}

// generate writes and executes one random trace; every decision of the schedule comes from c.Rng, every
// decision inside an edit / probe from the seed written into its line.
func (w *svWorld) generate() {
	c := w.c
	r := c.Rng
	vals := []int64{1, 2, 3, 5, 500}
	thr, itv := vals[r.Intn(5)], vals[r.Intn(5)]
	gc := r.Intn(100) < 40
	content := "json"
	if !gc && r.Intn(3) == 0 {
		content = "text"
	}
	docDP := r.Intn(6) == 0
	w.do("! cfg thr=%d int=%d gc=%s content=%s", thr, itv, svB(gc), content)
	genAttach := func(cl *svClient) {
		dp := docDP
		if r.Intn(5) == 0 {
			dp = !dp // attaches with the OTHER value than the one the document was created with
		}
		pres := "none"
		if r.Intn(2) == 0 {
			pres = svGenData(r)
		}
		w.do("! attach %s dp=%s pres=%s", cl.name, svB(dp), pres)
		if cl.rep != nil {
			cl.rep.syncP = []int{6, 14, 30, 45}[r.Intn(4)]
		}
	}
	n := 2 + r.Intn(4)
	for k := 0; k < n; k++ {
		w.do("! client nogc=%s", svB(k > 0 && r.Intn(5) == 0))
	}
	if w.stopped() {
		return
	}
	// the first attacher fixes the document's presence setting
	w.do("! attach c0 dp=%s pres=%s", svB(docDP), []string{"none", svGenData(r)}[r.Intn(2)])
	if w.stopped() {
		return
	}
	w.clients[0].rep.syncP = 30
	w.do("! seed r0 %d", r.Int63())
	w.do("! sync r0")
	for _, cl := range w.clients[1:] {
		if r.Intn(2) == 0 {
			genAttach(cl)
		}
	}
	steps := 10 + r.Intn(36)
	for s := 0; s < steps && !w.stopped(); s++ {
		live := w.liveReps()
		idle := w.idleClients()
		x := r.Intn(100)
		switch {
		case len(live) == 0 || (x < 6 && len(idle) > 0):
			if len(idle) == 0 {
				w.do("! client nogc=%s", svB(r.Intn(5) == 0))
				continue
			}
			genAttach(idle[r.Intn(len(idle))])
		case x < 11 && len(live) > 1:
			w.do("! detach %s", live[r.Intn(len(live))].name)
		case x < 14 && len(w.clients) < 8:
			// a client goes away for good (its document, if attached, is detached by the server); a new one appears
			var cand []*svClient
			for _, cl := range w.clients[1:] {
				if cl.active {
					cand = append(cand, cl)
				}
			}
			if len(cand) == 0 {
				continue
			}
			w.do("! deact %s", cand[r.Intn(len(cand))].name)
			w.do("! client nogc=%s", svB(r.Intn(5) == 0))
		case x < 20 && len(live) > 1:
			// one replica holds unsent edits while its peers edit and sync repeatedly
			h := live[r.Intn(len(live))]
			w.do("! edit %s %d", h.name, r.Int63())
			c.Count("schedule:holder-burst")
			if r.Intn(3) == 0 {
				// … and the response of its sync is lost: its edits are stored, it does not know, its peers push on
				// (often past the snapshot threshold), it may edit further, and its next sync is the retry
				w.do("! lostsync %s", h.name)
				c.Count("schedule:lost-response-then-peers-push")
			}
			for round, rounds := 0, 2+r.Intn(2); round < rounds; round++ {
				for _, p := range live {
					if p != h {
						if r.Intn(2) == 0 {
							w.do("! edit %s %d", p.name, r.Int63())
						}
						w.do("! sync %s", p.name)
					}
				}
				if r.Intn(2) == 0 {
					w.do("! edit %s %d", h.name, r.Int63())
				}
			}
			w.do("! sync %s", h.name)
		case x < 26:
			w.do("! probe %d", r.Int63())
		default:
			rep := live[r.Intn(len(live))]
			if r.Intn(100) < rep.syncP {
				switch y := r.Intn(24); {
				case y < 2:
					w.do("! pushonly %s", rep.name)
				case y < 5:
					w.do("! lostsync %s", rep.name)
				default:
					w.do("! sync %s", rep.name)
				}
			} else {
				w.do("! edit %s %d", rep.name, r.Int63())
			}
		}
	}
	// C11 epilogue in a share of the traces: a peer removes the document while other holders lag behind (at the low
	// thresholds their next sync is answered with a snapshot), they sync or not, and are then deactivated
	if live := w.liveReps(); !w.stopped() && len(live) >= 2 && r.Intn(8) == 0 {
		c.Count("schedule:remove-epilogue")
		rm := live[r.Intn(len(live))]
		for i, n := 0, 1+r.Intn(4); i < n; i++ {
			w.do("! edit %s %d", rm.name, r.Int63())
			w.do("! sync %s", rm.name)
		}
		w.do("! remove %s", rm.name)
		for _, h := range live {
			if h == rm {
				continue
			}
			if r.Intn(2) == 0 {
				w.do("! edit %s %d", h.name, r.Int63())
			}
			if r.Intn(4) != 0 {
				w.do("! sync %s", h.name)
				if r.Intn(3) == 0 {
					w.do("! sync %s", h.name) // the SDK has dropped the attachment: nothing happens
				}
			}
			if r.Intn(3) != 0 {
				w.do("! deact %s", h.cl.name)
			}
		}
		if r.Intn(2) == 0 {
			w.do("! deact %s", rm.cl.name)
		}
		w.do("! logf")
		return
	}
	// final quiescence with at least two attached replicas, often a late attacher among them
	for !w.stopped() && (len(w.liveReps()) < 2 || r.Intn(2) == 0) {
		idle := w.idleClients()
		if len(idle) == 0 {
			if len(w.liveReps()) >= 2 {
				break
			}
			w.do("! client nogc=0")
			continue
		}
		genAttach(idle[r.Intn(len(idle))])
	}
	w.do("! probe %d", r.Int63())
	w.do("! logf")
}

func (w *svWorld) finish() {
	c := w.c
	if w.sawSnap {
		c.Count("trace:with-snapshot-response")
	}
	for _, rep := range w.reps {
		if rep.snapFed {
			c.Count("trace:with-snapshot-fed-replica")
			break
		}
	}
	if w.docDP {
		c.Count("trace:presenceless-document")
	}
	if w.sawReatt {
		c.Count("trace:with-re-attach-of-a-client")
	}
	if w.sawHit {
		c.Count("trace:with-cache-hit-rebuild")
	}
	if w.sawAhead {
		c.Count("trace:with-rebuild-behind-the-cached-document")
	}
	if w.sawLost {
		c.Count("trace:with-lost-response")
	}
	if w.sawRetry {
		c.Count("trace:with-retry")
	}
	if w.sawRetrySnap {
		c.Count("trace:with-retry-answered-with-snapshot")
	}
	if w.sawSnap && w.sawConc {
		c.Nontrivial()
	}
	for _, cl := range w.clients {
		if cl.active {
			_ = cl.cli.Deactivate(w.ctx())
		}
		_ = cl.cli.Close()
	}
	w.s.wait()
	if w.hasDoc {
		w.s.be.Cache.Snapshot.Remove(w.ref)
	}
}

func newSvWorld(c *Ctx) *svWorld {
	return &svWorld{c: c, s: svServer(), seenTicket: map[string]bool{}, lastLam: map[string]int64{},
		pseqAt: map[int64]int{}, pseqOf: map[string]int{}, seenCS: map[string]bool{}, pcDelta: map[string]int64{}}
}

func (w *svWorld) guarded(f func()) {
	defer func() {
		if rec := recover(); rec != nil {
			msg := fmt.Sprint(rec)
			if len(msg) > 400 {
				msg = msg[:400]
			}
			svOracle(w.c, "panic in trace: %s", msg)
			w.dead = true
		}
	}()
	f()
}

func runSrv(c *Ctx) error {
	svParseArgs()
	c.stats.Rule = "real client.Client values against the real in-process server (memory DB), fresh project per trace with " +
		"SnapshotThreshold/SnapshotInterval in {1,2,3,5,500}; 2-8 clients, offline stretches, holders of unsent edits, detach + " +
		"re-attach with a new Document, late attachers, deactivation while attached, client.WithDisableGC attachments, presence " +
		"(initial presence, Set/Delete/Clear, presenceless documents, attachers with the other setting); every captured " +
		"request/response pack, the stored rows (log, versionvectors, client checkpoints, snapshot table, snapshot cache), every " +
		"change id, every replica clock, every replica's Marshal() and presence map are predicted by the Lean models; " +
		"non-trivial = the trace contains a snapshot response and a sync that delivered remote changes to a replica holding " +
		"unsent local changes; distinct by trace hash"
	if c.Replay != nil {
		scripted := false
		for _, l := range c.Replay {
			if strings.HasPrefix(l, "! ") {
				scripted = true
			}
		}
		if scripted {
			// a trace file is replayed by executing its API-level lines; everything else is re-emitted
			var w *svWorld
			for _, l := range c.Replay {
				switch {
				case strings.HasPrefix(l, "T "):
					if w != nil {
						w.finish()
					}
					c.Trace(strings.TrimSpace(strings.TrimPrefix(l, "T ")))
					w = newSvWorld(c)
				case strings.HasPrefix(l, "! "):
					if w == nil {
						c.Trace("replay")
						w = newSvWorld(c)
					}
					w.scripted = true
					line := l
					w.guarded(func() { w.do("%s", line) })
				}
			}
			if w != nil {
				w.finish()
			}
			return nil
		}
		if !c.ReplaySeed("srv") {
			return fmt.Errorf("srv: replay needs `! …` API lines or a `T srv-<seed>-<i>` line")
		}
	}
	for i := 0; i < c.N; i++ {
		c.Trace(fmt.Sprintf("srv-%d-%d", c.Seed, i))
		w := newSvWorld(c)
		w.guarded(w.generate)
		w.finish()
	}
	return nil
}
