//go:build verif

package main

// engine `locks` (C16): a real in-process server on the memory DB under
// free-running parallel load of N clients x M documents (attach, edit, sync,
// detach, remove, deactivate, a realtime watcher) together with compaction,
// housekeeping entry points and background snapshotting. The lock recorder
// (server/backend/sync, build tag verif) reports every lock boundary; the
// engine injects random yields there, mirrors the lock table, checks the
// documented order doc -> pull -> attachment -> push on the fly, and after the
// run prints the set of distinct per-request acquisition sequences as
// `SEQ <handler> <+Class:Mode|-Class> …` command lines. The Lean driver engine
// answers for each whether it is an instance of the script extracted from the
// source for that handler (Generated/Locks.lean) and whether it respects the
// order; the Go side prints its own verdict; check.py diffs the two.
//
// `REPRO cluster-detach` forces the interleaving SDK PushPull / cluster
// DetachDocument / compaction on one client and one document at the lock
// boundaries and reports whether the three requests deadlock; the Lean side
// predicts the same from the extracted scripts by exhaustive search of the
// lock-table model.
//
// `REPRO last-detachers a=<detach|deactivate> b=<detach|deactivate>` runs, on a second
// project with RemoveOnDetach and WITHOUT an attachment limit, the two last holders of a
// document leaving it at the same time (SDK DetachDocument, or DeactivateClient = cluster
// DetachDocument). The first request is held at the yield point "push.before" of
// server/packs (its decision "is anyone else attached?" is taken, nothing stored yet) until
// the second one either stands at the doc.attachment lock (the decision and the PushPull
// that stores it are atomic) or has reached "push.before" as well (they are not). Oracle:
// once nobody holds the document it has been removed. The Lean side predicts the
// observation from the extracted condition of the doc.attachment acquisition of the two
// handlers (Generated/Locks.lean `Site.cond`).

import (
	"context"
	"fmt"
	"math/rand"
	"net"
	"os"
	"path/filepath"
	"regexp"
	"runtime"
	"sort"
	"strconv"
	"strings"
	gosync "sync"
	"sync/atomic"
	gotime "time"

	"github.com/yorkie-team/yorkie/admin"
	"github.com/yorkie-team/yorkie/api/types"
	"github.com/yorkie-team/yorkie/client"
	"github.com/yorkie-team/yorkie/pkg/document"
	"github.com/yorkie-team/yorkie/pkg/document/json"
	"github.com/yorkie-team/yorkie/pkg/document/presence"
	"github.com/yorkie-team/yorkie/pkg/document/yson"
	"github.com/yorkie-team/yorkie/pkg/key"
	"github.com/yorkie-team/yorkie/server"
	"github.com/yorkie-team/yorkie/server/backend/database"
	lsync "github.com/yorkie-team/yorkie/server/backend/sync"
	"github.com/yorkie-team/yorkie/server/clients"
	"github.com/yorkie-team/yorkie/server/documents"
	"github.com/yorkie-team/yorkie/server/logging"
	"github.com/yorkie-team/yorkie/server/packs"
	"github.com/yorkie-team/yorkie/test/helper"
)

func init() { register("locks", runLocks) }

// ---------------------------------------------------------------- classes

// longest prefix first
var lockPrefixes = []struct{ cls, prefix string }{
	{"statsRefreshKey", "housekeeping/project-stats-refresh"},
	{"deactivationKey", "housekeeping/deactivation"},
	{"compactionKey", "housekeeping/compaction"},
	{"DocWatchStreamKey", "doc-watchstream-"},
	{"DocAttachmentKey", "doc-attachment-"},
	{"DocPushKey", "doc-push-"},
	{"DocPullKey", "doc-pull-"},
	{"SnapshotKey", "snapshot-"},
	{"DocKey", "doc-"},
}

// same table as Model/Locks.lean `rankTable` (a difference shows up as a
// mismatch between the two verdict streams)
var lockRank = map[string]int{
	"deactivationKey": 1, "compactionKey": 2, "statsRefreshKey": 3, "DocWatchStreamKey": 4, "SnapshotKey": 5,
	"DocKey": 10, "DocPullKey": 20, "DocAttachmentKey": 30, "DocPushKey": 40,
}

func lockClass(k string) string {
	for _, p := range lockPrefixes {
		if strings.HasPrefix(k, p.prefix) {
			return p.cls
		}
	}
	return "?" + k
}

// the prefix table is checked against the real key constructors
func checkLockClasses() error {
	a := NatActor("1")
	ref := types.DocRefKey{ProjectID: "000000000000000000000000", DocID: "000000000000000000000001"}
	for _, x := range []struct{ got, want string }{
		{lockClass(packs.DocKey("000000000000000000000000", "some-doc").String()), "DocKey"},
		{lockClass(packs.DocPullKey(a, "some-doc").String()), "DocPullKey"},
		{lockClass(packs.DocPushKey(ref).String()), "DocPushKey"},
		{lockClass(packs.SnapshotKey("000000000000000000000000", "some-doc").String()), "SnapshotKey"},
		{lockClass(documents.DocAttachmentKey(ref).String()), "DocAttachmentKey"},
		{lockClass(documents.DocWatchStreamKey(a, "some-doc").String()), "DocWatchStreamKey"},
	} {
		if x.got != x.want {
			return fmt.Errorf("lock key prefix table out of date: %s classified as %s", x.want, x.got)
		}
	}
	return nil
}

// ---------------------------------------------------------------- recorder

type heldLock struct{ cls, key, mode string }

type gState struct {
	handler      string
	held         []heldLock
	seg          []string
	waitingSince gotime.Time
	waitingFor   string
}

type lockViolation struct{ handler, held, wanted, seq string }

type recorder struct {
	mu        gosync.Mutex
	gs        map[uint64]*gState
	seqs      map[string]int
	viols     []lockViolation
	holders   map[string]int
	events    int
	contended int
	yields    int
	failedTry int
	unknown   int
	rng       *rand.Rand
	yieldP    float64
	orch      lockOrch
}

// lockOrch is told about every lock boundary (after the recorder's own bookkeeping, outside
// its mutex); used by the forced interleavings.
type lockOrch interface {
	at(handler, cls, mode, phase string, nHeld int)
}

func newRecorder(seed int64, yieldP float64) *recorder {
	return &recorder{gs: map[uint64]*gState{}, seqs: map[string]int{}, holders: map[string]int{},
		rng: rand.New(rand.NewSource(seed)), yieldP: yieldP}
}

var activeRecorder atomic.Pointer[recorder]

var (
	reHandler = regexp.MustCompile(`server/rpc\.\(\*(yorkieServer|adminServer|clusterServer)\)\.[A-Z][A-Za-z0-9]*$`)
	reServer  = regexp.MustCompile(`yorkie/server(/[a-z/]+)?\.`)
	reClosure = regexp.MustCompile(`\.func(\d+)$`)
)

// handlerFromStack names the request this goroutine is serving: the outermost
// exported RPC handler method on the stack, else the outermost frame of a server
// package. The name is normalised to factgen's naming.
func handlerFromStack() string {
	pcs := make([]uintptr, 96)
	n := runtime.Callers(4, pcs)
	frames := runtime.CallersFrames(pcs[:n])
	handler, outer := "", ""
	for {
		f, more := frames.Next()
		fn := f.Function
		if strings.Contains(fn, "github.com/yorkie-team/yorkie/server") && !strings.Contains(fn, "/server/backend/") &&
			!strings.Contains(fn, "/interceptors") {
			if reHandler.MatchString(fn) {
				handler = fn
			}
			if reServer.MatchString(fn) {
				outer = fn
			}
		}
		if !more {
			break
		}
	}
	pick := handler
	if pick == "" {
		pick = outer
	}
	if pick == "" {
		return "unknown"
	}
	pick = strings.TrimPrefix(pick, "github.com/yorkie-team/yorkie/")
	pick = strings.ReplaceAll(pick, "(*", "")
	pick = strings.ReplaceAll(pick, ")", "")
	pick = reClosure.ReplaceAllString(pick, "$$go$1")
	if strings.ContainsAny(pick, " \t") {
		return "unknown"
	}
	return pick
}

func (r *recorder) event(gid uint64, k, mode, phase string) {
	cls := lockClass(k)
	r.mu.Lock()
	r.events++
	g := r.gs[gid]
	if g == nil {
		g = &gState{}
		r.gs[gid] = g
	}
	nHeld := len(g.held)
	switch phase {
	case "acquire-begin":
		if len(g.held) == 0 && g.handler == "" {
			g.handler = handlerFromStack()
		}
		g.waitingSince = gotime.Now()
		g.waitingFor = cls + ":" + mode
		if r.holders[k] > 0 {
			r.contended++
		}
	case "acquired":
		if g.handler == "" {
			// the acquisition began before this recorder was installed
			g.handler = handlerFromStack()
		}
		g.waitingSince = gotime.Time{}
		if mode != "T" {
			for _, h := range g.held {
				rh, ok1 := lockRank[h.cls]
				rw, ok2 := lockRank[cls]
				if !ok1 || !ok2 || !(rh < rw) {
					r.viols = append(r.viols, lockViolation{g.handler, h.cls, cls, strings.Join(g.seg, " ")})
				}
			}
		}
		g.held = append(g.held, heldLock{cls, k, mode})
		g.seg = append(g.seg, "+"+cls+":"+mode)
		r.holders[k]++
	case "failed":
		g.waitingSince = gotime.Time{}
		r.failedTry++
		if len(g.held) == 0 {
			delete(r.gs, gid)
		}
	case "released":
		found := false
		for i := len(g.held) - 1; i >= 0; i-- {
			if g.held[i].key == k {
				g.held = append(g.held[:i], g.held[i+1:]...)
				found = true
				break
			}
		}
		if !found {
			// acquired before this recorder was installed (previous trace): not part of this run
			if len(g.held) == 0 {
				delete(r.gs, gid)
			}
			break
		}
		g.seg = append(g.seg, "-"+cls)
		r.holders[k]--
		if r.holders[k] <= 0 {
			delete(r.holders, k)
		}
		if len(g.held) == 0 {
			r.seqs[g.handler+" "+strings.Join(g.seg, " ")]++
			delete(r.gs, gid)
		}
	}
	handler := g.handler
	doYield := r.yieldP > 0 && r.rng.Float64() < r.yieldP
	sleep := 0
	if doYield {
		r.yields++
		if r.rng.Intn(4) == 0 {
			sleep = 20 + r.rng.Intn(300)
		}
	}
	orch := r.orch
	r.mu.Unlock()
	if orch != nil {
		orch.at(handler, cls, mode, phase, nHeld)
	}
	if doYield {
		if sleep > 0 {
			gotime.Sleep(gotime.Duration(sleep) * gotime.Microsecond)
		} else {
			runtime.Gosched()
		}
	}
}

// blocked returns the goroutines that have been waiting for a lock for longer than d.
func (r *recorder) blocked(d gotime.Duration) []string {
	r.mu.Lock()
	defer r.mu.Unlock()
	var res []string
	now := gotime.Now()
	for _, g := range r.gs {
		if !g.waitingSince.IsZero() && now.Sub(g.waitingSince) > d {
			var hs []string
			for _, h := range g.held {
				hs = append(hs, h.cls+":"+h.mode)
			}
			res = append(res, fmt.Sprintf("%s:holds=%s:wants=%s", g.handler, strings.Join(hs, ","), g.waitingFor))
		}
	}
	sort.Strings(res)
	return res
}

func dumpGoroutines(path string) {
	buf := make([]byte, 8<<20)
	n := runtime.Stack(buf, true)
	_ = os.WriteFile(path, buf[:n], 0o644)
}

// seqVerdict is the Go-side check of one observed sequence: first blocking
// acquisition that is not strictly above everything held.
func seqVerdict(ops []string) string {
	var held []string
	for _, op := range ops {
		if strings.HasPrefix(op, "+") {
			p := strings.SplitN(op[1:], ":", 2)
			cls, mode := p[0], p[1]
			if _, ok := lockRank[cls]; !ok {
				return "unranked:" + cls
			}
			if mode != "T" {
				// most recently acquired first, like the model's held list
				for i := len(held) - 1; i >= 0; i-- {
					rh, ok1 := lockRank[held[i]]
					rw, ok2 := lockRank[cls]
					if !ok1 || !ok2 || !(rh < rw) {
						return "inverted:" + held[i] + ">" + cls
					}
				}
			}
			held = append(held, cls)
		} else if strings.HasPrefix(op, "-") {
			for i := len(held) - 1; i >= 0; i-- {
				if held[i] == op[1:] {
					held = append(held[:i], held[i+1:]...)
					break
				}
			}
		}
	}
	return "ordered"
}

// ---------------------------------------------------------------- server

type locksEng struct {
	c       *Ctx
	adm     *admin.Client
	svr     *server.Yorkie
	addr    string
	project *types.Project
	bound   gotime.Duration
	nClient int64
	wedged  bool // a request never returned: the server cannot be used (or shut down) any more
	rod     *types.Project // second project: RemoveOnDetach, no attachment limit (created on first use)
}

func freePort() int {
	l, err := net.Listen("tcp", "127.0.0.1:0")
	if err != nil {
		panic(err)
	}
	defer l.Close()
	return l.Addr().(*net.TCPAddr).Port
}

func (e *locksEng) start() error {
	if err := logging.SetLogLevel("error"); err != nil {
		return err
	}
	// the ports are picked by asking the kernel for a free one; another process may grab it
	// before the server listens, so retry with fresh ports
	var svr *server.Yorkie
	var err error
	for attempt := 0; attempt < 8; attempt++ {
		conf := helper.TestConfig()
		conf.Mongo = nil
		conf.RPC.Port = freePort()
		conf.Profiling.Port = freePort()
		conf.Backend.GatewayAddr = fmt.Sprintf("localhost:%d", conf.RPC.Port)
		conf.Backend.RPCAddr = fmt.Sprintf("localhost:%d", conf.RPC.Port)
		conf.Housekeeping.Interval = "200ms"
		conf.Housekeeping.CompactionMinChanges = 5
		if svr, err = server.New(conf); err != nil {
			return err
		}
		if err = svr.Start(); err == nil {
			break
		}
		failed, sd := svr, make(chan struct{})
		go func() { _ = failed.Shutdown(false); close(sd) }()
		waitCh(sd, 5*gotime.Second)
		if !strings.Contains(err.Error(), "address already in use") {
			return err
		}
		gotime.Sleep(gotime.Duration(50*(attempt+1)) * gotime.Millisecond)
	}
	if err != nil {
		return err
	}
	e.svr = svr
	e.addr = svr.RPCAddr()
	ctx := context.Background()
	adm, err := admin.Dial(e.addr, admin.WithInsecure(true))
	if err != nil {
		return err
	}
	e.adm = adm
	if _, err := adm.LogIn(ctx, server.DefaultAdminUser, server.DefaultAdminPassword); err != nil {
		return err
	}
	p, err := svr.DefaultProject(ctx)
	if err != nil {
		return err
	}
	interval, threshold, maxAtt := int64(6), int64(8), 64
	if _, err := adm.UpdateProject(ctx, p.ID.String(), &types.UpdatableProjectFields{
		SnapshotInterval: &interval, SnapshotThreshold: &threshold, MaxAttachmentsPerDocument: &maxAtt,
	}); err != nil {
		return err
	}
	e.project, err = svr.DefaultProject(ctx)
	return err
}

func (e *locksEng) newClient(ctx context.Context) (*client.Client, error) {
	n := atomic.AddInt64(&e.nClient, 1)
	_ = n
	cli, err := client.Dial(e.addr)
	if err != nil {
		return nil, err
	}
	if err := cli.Activate(ctx); err != nil {
		return nil, err
	}
	return cli, nil
}

func errKind(err error) string {
	if err == nil {
		return "ok"
	}
	s := err.Error()
	for _, k := range []string{"ErrEpochMismatch", "ErrDocumentAttached", "document is attached", "ErrDocumentNotAttached", "ErrClientNotActivated",
		"ErrDocumentRemoved", "ErrDocumentNotFound", "ErrClientNotFound", "ErrAttachmentLimitExceeded", "deadline", "canceled", "not attached", "not detached"} {
		if strings.Contains(s, k) {
			return "err:" + strings.ReplaceAll(k, " ", "-")
		}
	}
	return "err:other"
}

// ---------------------------------------------------------------- load

type loadClient struct {
	id     int
	cli    *client.Client
	docs   map[int]*document.Document
	rng    *rand.Rand
	opName atomic.Value
	opT0   atomic.Int64
	done   atomic.Bool
}

func (e *locksEng) load(line string) {
	c := e.c
	t := strings.Fields(line)
	get := func(k string, d int) int {
		for _, x := range t[1:] {
			if strings.HasPrefix(x, k+"=") {
				v, _ := strconv.Atoi(x[len(k)+1:])
				return v
			}
		}
		return d
	}
	nC, nD, nOps, seed := get("clients", 4), get("docs", 2), get("ops", 30), get("seed", 0)
	yieldPct := get("yield", 30)
	tag := fmt.Sprintf("%d-%d-%d", os.Getpid(), e.c.stats.Traces, seed)
	docKey := func(j int) key.Key { return key.Key(fmt.Sprintf("c16-%s-d%d", tag, j)) }

	rec := newRecorder(int64(seed), float64(yieldPct)/100)
	activeRecorder.Store(rec)
	ctx, cancel := context.WithCancel(context.Background())
	defer cancel()
	be := e.svr.Backend()

	var failures []string
	var fmu gosync.Mutex
	fail := func(format string, a ...any) {
		fmu.Lock()
		failures = append(failures, fmt.Sprintf(format, a...))
		fmu.Unlock()
	}
	var cmu gosync.Mutex
	count := func(k string) {
		cmu.Lock()
		c.Count(k)
		cmu.Unlock()
	}

	lcs := make([]*loadClient, nC)
	for i := range lcs {
		lcs[i] = &loadClient{id: i, docs: map[int]*document.Document{}, rng: rand.New(rand.NewSource(int64(seed)*1000 + int64(i)))}
	}
	// pseudo clients for the background operations and the watcher, so the watchdog sees them too
	sysLC, watchLC := &loadClient{id: -1}, &loadClient{id: -2}
	watched := append(append([]*loadClient{}, lcs...), sysLC, watchLC)
	// a read-only realtime watcher on every document (Watch RPC, pub/sub, sync loop)
	var watcher *client.Client
	watchDocs := map[int]*document.Document{}

	// watchdog: every request must return within the bound
	var stopWD atomic.Bool
	var wdFired atomic.Bool
	wdDone := make(chan struct{})
	go func() {
		defer close(wdDone)
		for !stopWD.Load() {
			gotime.Sleep(200 * gotime.Millisecond)
			now := gotime.Now().UnixNano()
			for _, lc := range watched {
				t0 := lc.opT0.Load()
				if t0 != 0 && gotime.Duration(now-t0) > e.bound && !wdFired.Load() {
					wdFired.Store(true)
					p := filepath.Join(c.Out, "goroutines-"+tag+".txt")
					dumpGoroutines(p)
					fail("request did not finish within %s: client %d op %v; blocked at locks: %v; goroutine dump %s",
						e.bound, lc.id, lc.opName.Load(), rec.blocked(e.bound/2), p)
					cancel()
				}
			}
		}
	}()

	timed := func(lc *loadClient, name string, f func() error) error {
		lc.opName.Store(name)
		lc.opT0.Store(gotime.Now().UnixNano())
		err := f()
		lc.opT0.Store(0)
		count("op:" + name + ":" + errKind(err))
		return err
	}

	timedQuiet := func(lc *loadClient, name string, f func() error) error {
		lc.opName.Store(name)
		lc.opT0.Store(gotime.Now().UnixNano())
		err := f()
		lc.opT0.Store(0)
		return err
	}

	edit := func(lc *loadClient, d *document.Document) {
		k := fmt.Sprintf("k%d", lc.rng.Intn(4))
		v := lc.rng.Intn(1000)
		_ = d.Update(func(root *json.Object, p *presence.Presence) error {
			if lc.rng.Intn(3) == 0 {
				root.SetString(k, fmt.Sprintf("s%d-%d", lc.id, v))
			} else {
				root.SetInteger(k, v)
			}
			return nil
		})
		count("op:edit:ok")
	}

	runClient := func(lc *loadClient) {
		defer lc.done.Store(true)
		var err error
		if err = timed(lc, "activate", func() error { lc.cli, err = e.newClient(ctx); return err }); err != nil {
			fail("client %d cannot activate: %v", lc.id, err)
			return
		}
		rmN := 0
		for n := 0; n < nOps && ctx.Err() == nil; n++ {
			x := lc.rng.Intn(100)
			j := lc.rng.Intn(nD)
			d, attached := lc.docs[j]
			switch {
			case !attached && x < 60:
				nd := document.New(docKey(j))
				if err := timed(lc, "attach", func() error { return lc.cli.Attach(ctx, nd) }); err == nil {
					lc.docs[j] = nd
				}
			case attached && x < 45:
				edit(lc, d)
			case x < 80:
				if err := timed(lc, "sync", func() error { return lc.cli.Sync(ctx) }); err != nil && ctx.Err() == nil {
					// e.g. epoch mismatch after a compaction: the client has to detach and re-attach
					for jj, dd := range lc.docs {
						_ = timed(lc, "detach-after-error", func() error { return lc.cli.Detach(ctx, dd) })
						delete(lc.docs, jj)
					}
				}
			case attached && x < 88:
				_ = timed(lc, "detach", func() error { return lc.cli.Detach(ctx, d) })
				delete(lc.docs, j)
			case x < 92:
				// a document of its own: attach, edit, sync, remove
				rmN++
				nd := document.New(key.Key(fmt.Sprintf("c16-%s-rm%d-%d", tag, lc.id, rmN)))
				if err := timed(lc, "attach", func() error { return lc.cli.Attach(ctx, nd) }); err == nil {
					edit(lc, nd)
					_ = timed(lc, "sync", func() error { return lc.cli.Sync(ctx) })
					_ = timed(lc, "remove", func() error { return lc.cli.Remove(ctx, nd) })
				}
			case x < 96:
				// deactivate (the server detaches every attached document), then come back as a new client
				_ = timed(lc, "deactivate", func() error { return lc.cli.Deactivate(ctx) })
				_ = lc.cli.Close()
				lc.docs = map[int]*document.Document{}
				if err = timed(lc, "activate", func() error { lc.cli, err = e.newClient(ctx); return err }); err != nil {
					fail("client %d cannot re-activate: %v", lc.id, err)
					return
				}
			default:
				if attached {
					edit(lc, d)
				}
			}
		}
	}

	// background: compaction of single documents, the housekeeping entry points
	var stopSys atomic.Bool
	sysDone := make(chan struct{})
	go func() {
		defer close(sysDone)
		r := rand.New(rand.NewSource(int64(seed) + 77))
		admN, admLive := 0, []string{}
		for !stopSys.Load() && ctx.Err() == nil {
			switch r.Intn(6) {
			case 4:
				// admin API on documents of its own: create, update root, remove
				if len(admLive) == 0 || r.Intn(2) == 0 {
					admN++
					k := fmt.Sprintf("c16-%s-adm%d", tag, admN)
					err := timedQuiet(sysLC, "admin-create", func() (err error) {
						_, err = e.adm.CreateDocument(ctx, "default", k, yson.Object{"a": int32(admN)})
						return
					})
					count("sys:admin-create:" + errKind(err))
					if err == nil {
						admLive = append(admLive, k)
					}
				} else {
					k := admLive[r.Intn(len(admLive))]
					err := timedQuiet(sysLC, "admin-update", func() (err error) {
						_, err = e.adm.UpdateDocument(ctx, "default", key.Key(k), fmt.Sprintf(`{"a": Int(%d)}`, r.Intn(100)), "")
						return
					})
					count("sys:admin-update:" + errKind(err))
				}
			case 5:
				if len(admLive) > 0 {
					k := admLive[0]
					admLive = admLive[1:]
					err := timedQuiet(sysLC, "admin-remove", func() error { return e.adm.RemoveDocument(ctx, "default", k, true) })
					count("sys:admin-remove:" + errKind(err))
				}
			case 0, 1:
				err := timedQuiet(sysLC, "sys-compact", func() error { return e.svr.CompactDocument(ctx, docKey(r.Intn(nD)), false) })
				count("sys:compact:" + errKind(err))
			case 2:
				n := 0
				err := timedQuiet(sysLC, "sys-housekeeping-compaction", func() (err error) {
					_, _, _, n, err = documents.CompactDocuments(ctx, be, 10, 1, 0, database.ZeroID)
					return
				})
				count("sys:housekeeping-compaction:" + errKind(err))
				if n > 0 {
					count("sys:housekeeping-compacted")
				}
			case 3:
				err := timedQuiet(sysLC, "sys-housekeeping-deactivation", func() (err error) {
					_, _, _, err = clients.DeactivateInactives(ctx, be, 10, 2, database.ZeroID)
					return
				})
				count("sys:housekeeping-deactivation:" + errKind(err))
			}
			gotime.Sleep(gotime.Duration(2+r.Intn(10)) * gotime.Millisecond)
		}
	}()

	// start
	var err error
	if watcher, err = e.newClient(ctx); err == nil {
		for j := 0; j < nD; j++ {
			wd := document.New(docKey(j))
			if err := timedQuiet(watchLC, "watcher-attach", func() error { return watcher.Attach(ctx, wd, client.WithRealtimeSync()) }); err == nil {
				watchDocs[j] = wd
			} else {
				fail("watcher cannot attach: %v", err)
			}
		}
	} else {
		fail("watcher cannot activate: %v", err)
	}
	var wg gosync.WaitGroup
	for _, lc := range lcs {
		wg.Add(1)
		go func(lc *loadClient) { defer wg.Done(); runClient(lc) }(lc)
	}
	wg.Wait()
	stopSys.Store(true)
	if !waitCh(sysDone, 2*e.bound) && !wdFired.Load() {
		wdFired.Store(true)
		p := filepath.Join(c.Out, "goroutines-"+tag+".txt")
		dumpGoroutines(p)
		fail("background operation %v did not finish within %s; blocked at locks: %v; goroutine dump %s",
			sysLC.opName.Load(), 2*e.bound, rec.blocked(e.bound/2), p)
	}

	// ---- quiescence, convergence (C01 oracle) and log shape (C04 oracle)
	if !wdFired.Load() {
		sys := watchLC
		lcsAll := append([]*loadClient{}, lcs...)
		for round := 0; round < 2; round++ {
			for _, lc := range lcsAll {
				if lc.cli != nil && lc.cli.IsActive() && len(lc.docs) > 0 {
					if err := timed(lc, "final-sync", func() error { return lc.cli.Sync(ctx) }); err != nil {
						for jj, dd := range lc.docs {
							_ = lc.cli.Detach(ctx, dd)
							delete(lc.docs, jj)
						}
					}
				}
			}
			if watcher != nil {
				_ = timed(sys, "final-sync-watcher", func() error { return watcher.Sync(ctx) })
			}
		}
		for j := 0; j < nD; j++ {
			views := map[string][]string{}
			for _, lc := range lcs {
				if d, ok := lc.docs[j]; ok {
					views[d.Marshal()] = append(views[d.Marshal()], fmt.Sprintf("c%d", lc.id))
				}
			}
			if wd, ok := watchDocs[j]; ok && watcher != nil {
				views[wd.Marshal()] = append(views[wd.Marshal()], "watcher")
			}
			if len(views) > 1 {
				fail("replicas of document %d differ after a final sync: %v", j, views)
			}
			if len(views) > 0 {
				count("converged-docs")
			}
			// log shape
			info, err := documents.FindDocInfoByKey(ctx, be, e.project, docKey(j))
			if err != nil {
				continue
			}
			infos, err := be.DB.FindChangeInfosBetweenServerSeqs(ctx, info.RefKey(), 1, info.ServerSeq)
			if err != nil {
				fail("cannot read change log of document %d: %v", j, err)
				continue
			}
			lastByActor := map[types.ID]uint32{}
			for i, ci := range infos {
				if i > 0 && ci.ServerSeq != infos[i-1].ServerSeq+1 {
					fail("change log of document %d has a gap or duplicate: serverSeq %d follows %d", j, ci.ServerSeq, infos[i-1].ServerSeq)
					break
				}
				// clientSeq restarts at 1 when the client re-attaches with a new local document
				if last, ok := lastByActor[ci.ActorID]; ok && ci.ClientSeq <= last && ci.ClientSeq != 1 {
					fail("change log of document %d: actor %s clientSeq %d stored after %d", j, ci.ActorID, ci.ClientSeq, last)
					break
				}
				lastByActor[ci.ActorID] = ci.ClientSeq
			}
			if len(infos) > 0 {
				if infos[len(infos)-1].ServerSeq != info.ServerSeq {
					fail("change log of document %d ends at serverSeq %d but the document is at %d", j, infos[len(infos)-1].ServerSeq, info.ServerSeq)
				}
				if infos[0].ServerSeq != 1 {
					fail("change log of document %d starts at serverSeq %d", j, infos[0].ServerSeq)
				}
				count("log-checked-docs")
			}
		}
		// cleanup = more load: deactivation detaches whatever is still attached
		for _, lc := range lcs {
			if lc.cli != nil && lc.cli.IsActive() {
				_ = timed(lc, "deactivate", func() error { return lc.cli.Deactivate(ctx) })
				_ = lc.cli.Close()
			}
		}
		if watcher != nil {
			_ = timed(sys, "deactivate", func() error { return watcher.Deactivate(ctx) })
			_ = watcher.Close()
		}
		// let background goroutines (snapshots, async work) drain
		for k := 0; k < 100; k++ {
			rec.mu.Lock()
			n := len(rec.gs)
			rec.mu.Unlock()
			if n == 0 {
				break
			}
			gotime.Sleep(10 * gotime.Millisecond)
		}
	}
	stopWD.Store(true)
	<-wdDone
	if wdFired.Load() {
		e.wedged = true
	}
	if b := rec.blocked(e.bound); len(b) > 0 {
		fail("goroutines still waiting for a lock after %s: %v", e.bound, b)
	}

	// ---- report
	rec.mu.Lock()
	if os.Getenv("VERIF_DEBUG") != "" {
		for gid, g := range rec.gs {
			fmt.Fprintf(os.Stderr, "leftover g%d handler=%s held=%v seg=%v waiting=%v\n", gid, g.handler, g.held, g.seg, g.waitingFor)
		}
	}
	seqs := make([]string, 0, len(rec.seqs))
	for s, n := range rec.seqs {
		seqs = append(seqs, s)
		c.stats.Dist["seq-instances"] += n
	}
	viols := append([]lockViolation(nil), rec.viols...)
	c.stats.Dist["lock-events"] += rec.events
	c.stats.Dist["contended-acquisitions"] += rec.contended
	c.stats.Dist["yields-injected"] += rec.yields
	c.stats.Dist["trylock-failed"] += rec.failedTry
	contended := rec.contended
	rec.mu.Unlock()
	sort.Strings(seqs)
	c.Obs("LOAD-DONE")
	for _, f := range failures {
		c.Oracle("%s", f)
	}
	seenV := map[string]bool{}
	for _, v := range viols {
		k := v.handler + " " + v.held + ">" + v.wanted
		if seenV[k] {
			continue
		}
		seenV[k] = true
		if v.handler == "server/rpc.clusterServer.DetachDocument" && v.held == "DocPullKey" && v.wanted == "DocKey" {
			c.Oracle("KNOWN[c16-cluster-detach-order] observed acquisition violates doc -> pull -> attachment -> push: handler=%s acquires %s while holding %s (after %s)",
				v.handler, v.wanted, v.held, v.seq)
		} else {
			c.Oracle("observed acquisition violates the lock order: handler=%s acquires %s while holding %s (after %s)",
				v.handler, v.wanted, v.held, v.seq)
		}
	}
	handlers := map[string]bool{}
	for _, s := range seqs {
		e.seq("SEQ " + s)
		handlers[strings.Fields(s)[0]] = true
	}
	c.stats.Dist["distinct-seqs"] += len(seqs)
	if contended > 0 && len(handlers) >= 5 {
		c.Nontrivial()
	}
}

// seq emits one observed sequence as a command plus the Go-side verdict.
func (e *locksEng) seq(line string) {
	t := strings.Fields(line)
	e.c.Cmd("%s", line)
	if len(t) < 3 {
		e.c.Obs("bad-seq")
		return
	}
	e.c.Count("handler:" + t[1])
	e.c.Obs("ok %s", seqVerdict(t[2:]))
}

// ---------------------------------------------------------------- forced interleaving

type orchestrator struct {
	once1, once2, once3 gosync.Once
	dFirst              chan struct{} // the cluster detach has acquired its first lock
	pAtPull             chan struct{} // the SDK PushPull holds doc(R) and has reached the pull lock
	cPending            chan struct{} // the compaction has called Lock(doc)
	resumeD             chan struct{}
}

func (o *orchestrator) at(handler, cls, mode, phase string, nHeld int) {
	switch {
	case handler == "server/rpc.clusterServer.DetachDocument" && phase == "acquired" && nHeld == 0:
		o.once1.Do(func() { close(o.dFirst) })
		select {
		case <-o.resumeD:
		case <-gotime.After(20 * gotime.Second):
		}
	case handler == "server/rpc.yorkieServer.PushPullChanges" && cls == "DocPullKey" && phase == "acquire-begin":
		o.once2.Do(func() { close(o.pAtPull) })
	case cls == "DocKey" && mode == "W" && phase == "acquire-begin":
		o.once3.Do(func() { close(o.cPending) })
	}
}

func waitCh(ch chan struct{}, d gotime.Duration) bool {
	select {
	case <-ch:
		return true
	case <-gotime.After(d):
		return false
	}
}

// repro forces: cluster DetachDocument takes its first lock and pauses; the SDK
// PushPull of the same client takes doc(R) and reaches pull; the compaction calls
// Lock(doc); the detach resumes. Returns whether the three requests are still
// blocked after the watchdog bound.
func (e *locksEng) repro(line string) {
	c := e.c
	c.Cmd("%s", line)
	ctx, cancel := context.WithCancel(context.Background())
	defer cancel()
	rec := newRecorder(1, 0)
	activeRecorder.Store(rec)
	cli, err := e.newClient(ctx)
	if err != nil {
		c.Obs("repro-error activate")
		c.Oracle("repro: %v", err)
		return
	}
	dk := key.Key(fmt.Sprintf("c16-repro-%d-%d", os.Getpid(), e.c.stats.Traces))
	d := document.New(dk)
	if err := cli.Attach(ctx, d); err != nil {
		c.Obs("repro-error attach")
		c.Oracle("repro: %v", err)
		return
	}
	_ = d.Update(func(root *json.Object, p *presence.Presence) error { root.SetInteger("k", 1); return nil })
	if err := cli.Sync(ctx); err != nil {
		c.Oracle("repro: %v", err)
	}
	_ = d.Update(func(root *json.Object, p *presence.Presence) error { root.SetInteger("k", 2); return nil })
	// let the background snapshot goroutine of the first sync finish
	gotime.Sleep(100 * gotime.Millisecond)

	o := &orchestrator{dFirst: make(chan struct{}), pAtPull: make(chan struct{}), cPending: make(chan struct{}), resumeD: make(chan struct{})}
	rec.mu.Lock()
	rec.orch = o
	rec.mu.Unlock()
	var doneD, doneP, doneC atomic.Bool
	var errD, errP, errC error
	go func() { errD = e.svr.DeactivateClient(ctx, cli); doneD.Store(true) }()
	ok1 := waitCh(o.dFirst, 5*gotime.Second)
	go func() { errP = cli.Sync(ctx); doneP.Store(true) }()
	ok2 := waitCh(o.pAtPull, 5*gotime.Second)
	go func() { errC = e.svr.CompactDocument(ctx, dk, true); doneC.Store(true) }()
	ok3 := waitCh(o.cPending, 5*gotime.Second)
	gotime.Sleep(300 * gotime.Millisecond) // the compaction is now inside RWMutex.Lock
	close(o.resumeD)
	deadline := gotime.Now().Add(e.bound)
	for gotime.Now().Before(deadline) && !(doneD.Load() && doneP.Load() && doneC.Load()) {
		gotime.Sleep(50 * gotime.Millisecond)
	}
	c.Count(fmt.Sprintf("repro:gates:%v-%v-%v", ok1, ok2, ok3))
	if doneD.Load() && doneP.Load() && doneC.Load() {
		c.Obs("deadlock=false")
		c.Count("repro:completed")
		_ = errD
		_ = errP
		_ = errC
		_ = cli.Close()
		return
	}
	blocked := rec.blocked(gotime.Second)
	p := filepath.Join(c.Out, fmt.Sprintf("goroutines-repro-%d.txt", os.Getpid()))
	dumpGoroutines(p)
	c.Count("repro:deadlocked")
	c.Obs("deadlock=true")
	msg := fmt.Sprintf("forced interleaving PushPull / cluster DetachDocument / compaction on one client and document: "+
		"after %s done(detach,pushpull,compaction)=(%v,%v,%v); blocked: %v; goroutine dump %s",
		e.bound, doneD.Load(), doneP.Load(), doneC.Load(), blocked, p)
	isKnown := len(blocked) == 3
	for _, b := range blocked {
		if !(strings.HasPrefix(b, "server/rpc.clusterServer.DetachDocument:holds=DocPullKey:W:wants=DocKey:R") ||
			strings.HasPrefix(b, "server/rpc.yorkieServer.PushPullChanges:holds=DocKey:R:wants=DocPullKey:W") ||
			strings.HasPrefix(b, "server.Yorkie.CompactDocument:holds=:wants=DocKey:W")) {
			isKnown = false
		}
	}
	if isKnown {
		c.Oracle("KNOWN[c16-cluster-detach-order] DEADLOCK %s", msg)
	} else {
		c.Oracle("DEADLOCK %s", msg)
	}
	// the server is wedged on this document from here on: no shutdown, the process ends after this engine run
	e.svr = nil
}


// ---------------------------------------------------------------- forced interleaving 2: the last two detachers

// activeDetachOrch receives the packs.VerifYield callbacks while a last-detachers scenario runs.
var activeDetachOrch atomic.Pointer[detachOrch]

type detachOrch struct {
	mu        gosync.Mutex
	docID     string
	atPush    int
	attBegins int
	secondAt  string // where the second request was when the first one was let go
	second    chan struct{}
	once      gosync.Once
	patience  gotime.Duration
}

func (o *detachOrch) seen(where string) {
	o.once.Do(func() { o.secondAt = where; close(o.second) })
}

// yield is packs.VerifYield: the first request to reach "push.before" waits for the second.
func (o *detachOrch) yield(point, clientID, docID string) {
	if point != "push.before" || docID != o.docID {
		return
	}
	o.mu.Lock()
	o.atPush++
	n := o.atPush
	if n == 2 {
		o.seen("push")
	}
	o.mu.Unlock()
	if n == 1 {
		select {
		case <-o.second:
		case <-gotime.After(o.patience):
		}
	}
}

// at: the second detach handler that starts to acquire doc.attachment finds it held by the first.
func (o *detachOrch) at(handler, cls, mode, phase string, nHeld int) {
	if cls != "DocAttachmentKey" || phase != "acquire-begin" {
		return
	}
	if handler != "server/rpc.yorkieServer.DetachDocument" && handler != "server/rpc.clusterServer.DetachDocument" {
		return
	}
	o.mu.Lock()
	o.attBegins++
	if o.attBegins == 2 {
		o.seen("attachment-lock")
	}
	o.mu.Unlock()
}

func (e *locksEng) rodProject(ctx context.Context) (*types.Project, error) {
	if e.rod != nil {
		return e.rod, nil
	}
	p, err := e.adm.CreateProject(ctx, fmt.Sprintf("c16-rod-%d", os.Getpid()%1000000))
	if err != nil {
		return nil, err
	}
	yes, noLimit := true, 0
	p, err = e.adm.UpdateProject(ctx, p.ID.String(), &types.UpdatableProjectFields{RemoveOnDetach: &yes, MaxAttachmentsPerDocument: &noLimit})
	if err != nil {
		return nil, err
	}
	if !p.RemoveOnDetach || p.HasAttachmentLimit() {
		return nil, fmt.Errorf("project setup: RemoveOnDetach=%v HasAttachmentLimit=%v", p.RemoveOnDetach, p.HasAttachmentLimit())
	}
	e.rod = p
	return p, nil
}

func (e *locksEng) lastDetachers(line string) {
	c := e.c
	c.Cmd("%s", line)
	via := [2]string{"detach", "detach"}
	for _, t := range strings.Fields(line)[2:] {
		switch {
		case strings.HasPrefix(t, "a="):
			via[0] = t[2:]
		case strings.HasPrefix(t, "b="):
			via[1] = t[2:]
		}
	}
	for _, v := range via {
		if v != "detach" && v != "deactivate" {
			c.Obs("bad-op")
			return
		}
	}
	bail := func(what string, err error) {
		c.Obs("repro-error %s", what)
		c.Oracle("last-detachers: %s: %v", what, err)
	}
	ctx, cancel := context.WithCancel(context.Background())
	defer cancel()
	be := e.svr.Backend()
	proj, err := e.rodProject(ctx)
	if err != nil {
		bail("project", err)
		return
	}
	rec := newRecorder(1, 0)
	activeRecorder.Store(rec)
	dk := key.Key(fmt.Sprintf("c16-rod-%d-%d", os.Getpid(), e.c.stats.Traces))
	var clis [2]*client.Client
	var docs [2]*document.Document
	for i := range clis {
		cli, err := client.Dial(e.addr, client.WithAPIKey(proj.PublicKey))
		if err != nil {
			bail("dial", err)
			return
		}
		defer func() { _ = cli.Close() }()
		if err := cli.Activate(ctx); err != nil {
			bail("activate", err)
			return
		}
		d := document.New(dk)
		if err := cli.Attach(ctx, d); err != nil {
			bail("attach", err)
			return
		}
		_ = d.Update(func(root *json.Object, p *presence.Presence) error { root.SetInteger(fmt.Sprintf("k%d", i), i); return nil })
		if err := cli.Sync(ctx); err != nil {
			bail("sync", err)
			return
		}
		clis[i], docs[i] = cli, d
	}
	info, err := documents.FindDocInfoByKey(ctx, be, proj, dk)
	if err != nil {
		bail("find document", err)
		return
	}
	ref := info.RefKey()
	// let the background snapshot goroutines of the syncs finish
	gotime.Sleep(50 * gotime.Millisecond)

	o := &detachOrch{docID: ref.DocID.String(), second: make(chan struct{}), patience: 5 * gotime.Second}
	rec.mu.Lock()
	rec.orch = o
	rec.mu.Unlock()
	activeDetachOrch.Store(o)
	errs := make(chan error, 2)
	for i := range clis {
		go func(i int) {
			if via[i] == "deactivate" {
				errs <- clis[i].Deactivate(ctx)
			} else {
				errs <- clis[i].Detach(ctx, docs[i])
			}
		}(i)
	}
	returned := 0
	deadline := gotime.After(e.bound)
	for returned < 2 {
		select {
		case err := <-errs:
			returned++
			c.Count("last-detachers:" + errKind(err))
			if err != nil {
				c.Oracle("last-detachers: a request failed: %v", err)
			}
		case <-deadline:
			activeDetachOrch.Store(nil)
			p := filepath.Join(c.Out, fmt.Sprintf("goroutines-rod-%d.txt", os.Getpid()))
			dumpGoroutines(p)
			c.Obs("timeout")
			c.Oracle("last-detachers: %d of 2 requests did not return within %s; blocked at locks: %v; goroutine dump %s",
				2-returned, e.bound, rec.blocked(gotime.Second), p)
			e.wedged = true
			return
		}
	}
	activeDetachOrch.Store(nil)
	rec.mu.Lock()
	rec.orch = nil
	rec.mu.Unlock()
	o.mu.Lock()
	secondAt := o.secondAt
	o.mu.Unlock()
	if secondAt == "" {
		secondAt = "none"
	}
	attached, err := be.DB.IsDocumentAttachedOrAttaching(ctx, ref, "")
	if err != nil {
		bail("attached?", err)
		return
	}
	after, err := be.DB.FindDocInfoByRefKey(ctx, ref)
	if err != nil {
		bail("find document after", err)
		return
	}
	c.Count("last-detachers:second-at-" + secondAt)
	c.Obs("second=%s attached=%v removed=%v", secondAt, attached, after.IsRemoved())
	if secondAt != "none" {
		c.Nontrivial()
	}
	if attached {
		c.Oracle("last-detachers (%s/%s): the document is still attached after both clients left it", via[0], via[1])
	} else if !after.IsRemoved() {
		c.Oracle("RemoveOnDetach project without attachment limit: the last two holders of a document left it concurrently (%s/%s; the second "+
			"request was at %s while the first one stood between its decision and its PushPull), nobody holds the document any more, but it "+
			"was NOT removed: each request saw the other client still attached (decision and stored detach are not atomic)", via[0], via[1], secondAt)
	}
	if via[0] == "detach" && via[1] == "detach" && after.IsRemoved() &&
		docs[0].Status() != document.StatusRemoved && docs[1].Status() != document.StatusRemoved {
		c.Oracle("last-detachers: the document was removed but no client was told so")
	}
}

// ---------------------------------------------------------------- engine

// raceEnabled is set by race_on.go when the harness is built with -race.
var raceEnabled bool

// reportRaces turns the race detector's reports (GORACE=log_path=<out>/race) into oracle failures.
func reportRaces(c *Ctx) {
	if !raceEnabled {
		return
	}
	c.Count("race-detector-runs")
	files, _ := filepath.Glob(filepath.Join(c.Out, "race.*"))
	for _, f := range files {
		b, err := os.ReadFile(f)
		if err != nil || len(b) == 0 {
			continue
		}
		n := strings.Count(string(b), "WARNING: DATA RACE")
		if n == 0 {
			continue
		}
		first := string(b)
		if len(first) > 2500 {
			first = first[:2500]
		}
		c.Trace("race-detector")
		c.Oracle("DATA RACE: %d report(s) by the Go race detector in %s; first: %s", n, f, strings.ReplaceAll(first, "\n", " | "))
	}
}

func runLocks(c *Ctx) error {
	c.stats.Rule = "free-running load of N clients x M documents on a real in-process server (memory DB) with compaction, " +
		"housekeeping and background snapshots, yields injected at lock boundaries; " +
		"non-trivial = at least one contended acquisition (lock already held when requested) and acquisition sequences of >= 5 different handlers observed; distinct by trace hash; " +
		"plus per run three forced interleavings of the two last holders of a document leaving a RemoveOnDetach project without attachment limit " +
		"(SDK detach / deactivation), the first held between its attachment decision and its PushPull; non-trivial = the second request was observed " +
		"at the doc.attachment lock or at the same yield point"
	if err := checkLockClasses(); err != nil {
		return err
	}
	lsync.VerifLockEvent = func(gid uint64, k, mode, phase string) {
		if r := activeRecorder.Load(); r != nil {
			r.event(gid, k, mode, phase)
		}
	}
	packs.VerifYield = func(point, clientID, docID string) {
		if o := activeDetachOrch.Load(); o != nil {
			o.yield(point, clientID, docID)
		}
	}
	e := &locksEng{c: c, bound: 20 * gotime.Second}
	if c.Tier == "thorough" {
		e.bound = 60 * gotime.Second
	}
	if c.Replay != nil {
		hasRun := false
		for _, l := range c.Replay {
			if strings.HasPrefix(l, "REPRO") {
				e.bound = 4 * gotime.Second
			}
			if strings.HasPrefix(l, "REPRO") || strings.HasPrefix(l, "LOAD") {
				hasRun = true
			}
		}
		if hasRun {
			if err := e.start(); err != nil {
				return err
			}
		}
		loaded := false
		for _, l := range c.Replay {
			switch {
			case strings.HasPrefix(l, "T "):
				c.Trace(strings.TrimPrefix(l, "T "))
				loaded = false
			case strings.HasPrefix(l, "LOAD"):
				c.Cmd("%s", l)
				e.load(l)
				loaded = true
			case strings.HasPrefix(l, "REPRO last-detachers"):
				e.lastDetachers(l)
			case strings.HasPrefix(l, "REPRO"):
				e.repro(l)
			case strings.HasPrefix(l, "SEQ"):
				// after a LOAD in the same trace the sequences are those of the new run
				if !loaded {
					e.seq(l)
				}
			default:
				c.Cmd("%s", l)
				c.Obs("bad-op")
			}
		}
		if e.svr != nil && !e.wedged {
			_ = e.svr.Shutdown(true)
		}
		return nil
	}
	if err := e.start(); err != nil {
		return err
	}
	for i := 0; i < c.N; i++ {
		c.Trace(fmt.Sprintf("locks-%d-%d", c.Seed, i))
		nC, nD, nOps := 3+c.Rng.Intn(4), 1+c.Rng.Intn(3), 25+c.Rng.Intn(25)
		if c.Tier == "thorough" {
			nC, nD, nOps = 4+c.Rng.Intn(9), 1+c.Rng.Intn(5), 40+c.Rng.Intn(80)
		}
		l := fmt.Sprintf("LOAD clients=%d docs=%d ops=%d seed=%d yield=%d", nC, nD, nOps, c.Rng.Intn(1<<30), 10+c.Rng.Intn(50))
		c.Cmd("%s", l)
		e.load(l)
		if e.wedged {
			break
		}
	}
	// the forced interleaving of the two last detachers (SDK detach and deactivation)
	if !e.wedged {
		for k, v := range [][2]string{{"detach", "detach"}, {"detach", "deactivate"}, {"deactivate", "deactivate"}} {
			c.Trace(fmt.Sprintf("locks-rod-%d-%d", c.Seed, k))
			e.lastDetachers(fmt.Sprintf("REPRO last-detachers a=%s b=%s", v[0], v[1]))
			if e.wedged {
				break
			}
		}
	}
	if e.wedged {
		reportRaces(c)
		return nil
	}
	done := make(chan struct{})
	go func() { _ = e.svr.Shutdown(true); close(done) }()
	select {
	case <-done:
	case <-gotime.After(e.bound):
		c.Trace("shutdown")
		c.Oracle("server shutdown did not finish within %s", e.bound)
	}
	reportRaces(c)
	return nil
}
