//go:build verif

package main

// engine `pubsubstress`: free-running goroutines (no scheduler, real 100 ms ticker and
// publish timeout), stalled consumers, many rounds. Oracles only (the interleaving is not
// reproducible, so there is no per-step model comparison); meant to be built with -race.

import (
	"context"
	"fmt"
	"runtime"
	"strconv"
	"sync"
	"sync/atomic"
	gotime "time"

	"github.com/yorkie-team/yorkie/api/types"
	"github.com/yorkie-team/yorkie/api/types/events"
	"github.com/yorkie-team/yorkie/server/backend/pubsub"
)

func runPubSubStress(c *Ctx) error {
	psSilence()
	c.stats.Rule = "free-running rounds: up to 4 subscribers (some stalled) and 3 publishers subscribe/publish/unsubscribe concurrently on one key; " +
		"non-trivial = at least one watcher received an event and at least one Subscriptions object was closed while a Publish was in flight in the round"
	pubsub.VerifYield = nil
	pubsub.VerifManualTick = false
	pubsub.VerifOnPublisher = nil
	var panics atomic.Int32
	var panicMsg atomic.Value
	// installed once, before any goroutine exists, and never reset: process loops read the hook
	// when they return, possibly after this function has finished
	pubsub.VerifOnPanic = func(p any) { panics.Add(1); panicMsg.Store(fmt.Sprint(p)) }
	pubsub.SetDefaultMaxConsecutivePublishFailures(2)
	rounds := c.N
	if c.Replay != nil {
		rounds = 1
	}
	base := runtime.NumGoroutine()
	for round := 0; round < rounds; round++ {
		c.Trace(fmt.Sprintf("stress-%d-%d", c.Seed, round))
		ns, np := 1+c.Rng.Intn(4), 1+c.Rng.Intn(3)
		stalled := c.Rng.Intn(ns + 1)
		hold := gotime.Duration(1+c.Rng.Intn(3)) * 60 * gotime.Millisecond
		line := fmt.Sprintf("STRESS subs=%d pubs=%d stalled=%d hold=%d", ns, np, stalled, hold.Milliseconds())
		c.Cmd("%s", line)
		ps := pubsub.New()
		key := types.DocRefKey{ProjectID: types.ID("000000000000000000000001"), DocID: types.ID("000000000000000000000002")}
		ctx := context.Background()
		var wg sync.WaitGroup
		var received, lateRecv atomic.Int32
		guard := func(what string) {
			if p := recover(); p != nil {
				panics.Add(1)
				panicMsg.Store(what + ": " + fmt.Sprint(p))
			}
		}
		// a long-lived watcher that subscribed before any publish and unsubscribes after all of them
		anchorGot := make(chan struct{}, 64)
		anchor, _, err := ps.Subscribe(ctx, psActorOf(100), key, 0)
		if err != nil {
			c.Oracle("anchor subscribe failed: %v", err)
			continue
		}
		anchorDone := make(chan struct{})
		go func() {
			defer close(anchorDone)
			for range anchor.Events() {
				select {
				case anchorGot <- struct{}{}:
				default:
				}
			}
		}()
		var pubsDone sync.WaitGroup
		for i := 0; i < ns; i++ {
			wg.Add(1)
			go func(i int) {
				defer wg.Done()
				defer guard("subscriber")
				for rep := 0; rep < 3; rep++ {
					sub, _, err := ps.Subscribe(ctx, psActorOf(1+i), key, 0)
					if err != nil {
						continue
					}
					stop := make(chan struct{})
					var cw sync.WaitGroup
					cw.Add(1)
					go func() {
						defer cw.Done()
						if i < stalled {
							<-stop // stalled consumer: never reads while subscribed
							return
						}
						for {
							select {
							case _, ok := <-sub.Events():
								if !ok {
									return
								}
								received.Add(1)
							case <-stop:
								return
							}
						}
					}()
					gotime.Sleep(hold + gotime.Duration(i)*gotime.Millisecond)
					ps.Unsubscribe(ctx, key, sub)
					close(stop)
					cw.Wait()
					// after Unsubscribe returned: at most the one buffered event, then closed
					n := 0
					for range sub.Events() {
						n++
					}
					if n > 1 {
						lateRecv.Add(1)
					}
				}
			}(i)
		}
		for j := 0; j < np; j++ {
			wg.Add(1)
			pubsDone.Add(1)
			go func(j int) {
				defer wg.Done()
				defer pubsDone.Done()
				defer guard("publisher")
				for k := 0; k < 20; k++ {
					ty := events.DocChanged
					if k%5 == 4 {
						ty = events.DocWatched
					}
					ps.Publish(ctx, psActorOf(9+j), events.DocEvent{Type: ty, Key: key, Actor: psActorOf(9 + j),
						Body: events.DocEventBody{Topic: strconv.Itoa(k)}})
					if k%5 == 4 {
						gotime.Sleep(25 * gotime.Millisecond) // spread the publishes over one ticker period
					} else if k%2 == 0 {
						runtime.Gosched()
					}
				}
			}(j)
		}
		pubsDone.Wait()
		// delivery clause on the anchor: it subscribed before every Publish and has not
		// unsubscribed; it must be told within the tick + timeout bound (generously 5 s)
		select {
		case <-anchorGot:
		case <-gotime.After(5 * gotime.Second):
			c.Oracle("anchor watcher was not notified within 5s of %d publishes", np*20)
		}
		wg.Wait()
		ps.Unsubscribe(ctx, key, anchor)
		<-anchorDone
		if _, ok := ps.VerifDocSubs(key); ok {
			c.Oracle("leak: map entry present after all unsubscribed")
		}
		if lateRecv.Load() > 0 {
			c.Oracle("a watcher received more than the buffered event after Unsubscribe returned")
		}
		if panics.Load() > 0 {
			c.Oracle("panic: %v", panicMsg.Load())
			panics.Store(0)
		}
		if received.Load() > 0 {
			c.Nontrivial()
		}
		c.Count(fmt.Sprintf("received:%d", psMinInt(int(received.Load())/10, 9)))
		c.Obs("ok")
	}
	// every process loop must have exited (flush-on-close then return)
	deadline := gotime.Now().Add(10 * gotime.Second)
	for runtime.NumGoroutine() > base+2 && gotime.Now().Before(deadline) {
		gotime.Sleep(20 * gotime.Millisecond)
	}
	if g := runtime.NumGoroutine(); g > base+2 {
		c.Trace("stress-goroutines")
		c.Cmd("STRESS final")
		c.Obs("ok")
		c.Oracle("leak: %d goroutines alive after all rounds (baseline %d)", g, base)
	}
	return nil
}
