//go:build verif

package main

// Schedule generation for engine `pubsub`: state-pruned exhaustive exploration of
// small configurations, random schedules for larger ones, and replay.

import (
	"fmt"
	"sort"
	"strconv"
	"strings"
)

type psThread struct {
	kind   string // "sub" (Subscribe, then optionally Unsubscribe, plus its consumer) or "pub"
	actor  int
	limit  int
	unsub  bool
	recv   int    // consumer budget (number of receives the watcher performs)
	events []bool // pub: one Publish per entry, true = DocChanged

	stage int
	op    int // current op id, -1 none
	sid   int // subscription index once Subscribe returned
	fail  bool
}

type psConfig struct {
	name    string
	maxFail int
	ticks   int // total manual ticks over all loops
	threads []psThread
}

func (cf psConfig) describe() string {
	var p []string
	for _, t := range cf.threads {
		if t.kind == "sub" {
			p = append(p, fmt.Sprintf("sub(actor=%d,limit=%d,unsub=%v,recv=%d)", t.actor, t.limit, t.unsub, t.recv))
		} else {
			p = append(p, fmt.Sprintf("pub(actor=%d,events=%d)", t.actor, len(t.events)))
		}
	}
	return fmt.Sprintf("%s{maxfail=%d ticks=%d %s}", cf.name, cf.maxFail, cf.ticks, strings.Join(p, " "))
}

// psSim is one execution of a configuration under the scheduler.
type psSim struct {
	r       *psRun
	c       *Ctx
	cf      psConfig
	th      []psThread
	ticks   int
	nextEid int
	sends   int
	conc    bool
	nondet  bool // the last choice involved a map-iteration pick among >= 2
}

func newPsSim(c *Ctx, cf psConfig) *psSim {
	s := &psSim{c: c, cf: cf, ticks: cf.ticks, nextEid: 1}
	s.th = make([]psThread, len(cf.threads))
	copy(s.th, cf.threads)
	for i := range s.th {
		s.th[i].op, s.th[i].sid = -1, -1
	}
	s.do0(fmt.Sprintf("CFG maxfail=%d", cf.maxFail))
	return s
}

// do0 handles CFG (creates the run); do executes a command and records it.
func (s *psSim) do0(line string) {
	t := strings.Fields(line)
	s.r = newPsRun(s.c, psKVI(t, "maxfail"))
	s.c.Cmd("%s", line)
	s.c.Obs("cfg maxfail=%d", psKVI(t, "maxfail"))
}

func (s *psSim) do(line string) {
	l2 := s.r.exec(line)
	s.c.Cmd("%s", l2)
	if strings.HasPrefix(line, "LOOP") || strings.HasPrefix(line, "STEP") {
		busy := 0
		for _, g := range s.r.ops {
			if !g.done {
				busy++
			}
		}
		for o := range s.r.loops {
			if p := s.r.loopPoint(o); p != "loop.wait" && p != "exited" {
				busy++
			}
		}
		if busy >= 2 {
			s.conc = true
		}
	}
}

// choices lists the enabled scheduler choices in a canonical order.
func (s *psSim) choices() []string {
	var cs []string
	r := s.r
	if r.panicked || r.stuck {
		return nil // the trace ends here; the oracle has already recorded the failure
	}
	for i := range s.th {
		t := &s.th[i]
		if t.op >= 0 && !r.ops[t.op].done {
			cs = append(cs, "t"+strconv.Itoa(i))
			continue
		}
		if t.kind == "sub" {
			if t.stage == 0 || (t.stage == 1 && t.unsub && !t.fail) {
				cs = append(cs, "t"+strconv.Itoa(i))
			}
			if t.sid >= 0 && t.recv > 0 {
				if _, n, _ := r.subs[t.sid].VerifDump(); n > 0 {
					cs = append(cs, "recv"+strconv.Itoa(i))
				}
			}
		} else if t.stage < len(t.events) {
			cs = append(cs, "t"+strconv.Itoa(i))
		}
	}
	for o := range r.loops {
		p := r.loopPoint(o)
		switch p {
		case "loop.wait":
			_, _, closed := r.objs[o].VerifDump()
			if closed {
				cs = append(cs, "wake"+strconv.Itoa(o))
			} else if s.ticks > 0 {
				cs = append(cs, "tick"+strconv.Itoa(o))
			}
		case "exited", "?", "panicked":
		default:
			cs = append(cs, "loop"+strconv.Itoa(o))
		}
	}
	return cs
}

func (s *psSim) perform(ch string) {
	r := s.r
	s.nondet = false
	switch {
	case strings.HasPrefix(ch, "tick"):
		s.ticks--
		s.do("TICK obj=" + ch[4:])
	case strings.HasPrefix(ch, "wake"):
		s.do("WAKE obj=" + ch[4:])
	case strings.HasPrefix(ch, "loop"):
		o, _ := strconv.Atoi(ch[4:])
		from := r.loopPoint(o)
		if from == "flush.send" {
			s.sends++
			// every publish timeout costs 100 ms of wall clock: once the budget is used up the
			// watcher is made to receive first (a legal schedule), so the send succeeds
			if cur := r.lg[o].cur; cur >= 0 {
				if closed, n, _ := r.subs[cur].VerifDump(); !closed && n > 0 {
					if psTimeoutBudget > 0 {
						psTimeoutBudget--
						s.c.Count("publish-timeout")
					} else {
						s.do(fmt.Sprintf("RECV sid=%d", cur))
					}
				}
			}
		}
		pool := len(r.lg[o].pool)
		if from == "flush.snapshot" {
			ms, _, _ := r.objs[o].VerifDump()
			pool = len(ms)
		}
		s.do(fmt.Sprintf("LOOP obj=%d point=%s", o, from))
		if r.loopPoint(o) == "flush.isdead" && from != "flush.send" || (from == "flush.send" && r.loopPoint(o) == "flush.isdead") {
			if pool >= 2 {
				s.nondet = true
			}
		}
	case strings.HasPrefix(ch, "recv"):
		i, _ := strconv.Atoi(ch[4:])
		s.th[i].recv--
		s.do(fmt.Sprintf("RECV sid=%d", s.th[i].sid))
	case strings.HasPrefix(ch, "t"):
		i, _ := strconv.Atoi(ch[1:])
		t := &s.th[i]
		if t.op < 0 || r.ops[t.op].done {
			k := len(r.ops)
			if t.kind == "sub" {
				if t.stage == 0 {
					s.do(fmt.Sprintf("SUB op=%d actor=%d limit=%d", k, t.actor, t.limit))
				} else {
					s.do(fmt.Sprintf("UNSUB op=%d sid=%d", k, t.sid))
				}
			} else {
				s.do(fmt.Sprintf("PUB op=%d eid=%d actor=%d changed=%d", k, s.nextEid, t.actor, psB01(t.events[t.stage])))
				s.nextEid++
			}
			t.op = k
			t.stage++
		}
		g := r.ops[t.op]
		s.do(fmt.Sprintf("STEP op=%d point=%s", t.op, g.point))
		if g.done && t.kind == "sub" && t.stage == 1 {
			if strings.HasPrefix(g.result, "sub:") {
				f := strings.Split(g.result, ":")
				t.sid, _ = strconv.Atoi(f[1])
			} else {
				t.fail = true
			}
		}
	}
}

// key identifies the scheduler-visible state including the locals held by in-flight
// operations (derived from observations).
func (s *psSim) key() string {
	r := s.r
	var sb strings.Builder
	sb.WriteString(r.dump())
	for k := range r.ops {
		fmt.Fprintf(&sb, "|p%d", r.opPtr[k])
		if p := r.pubs[k]; p != nil {
			fmt.Fprintf(&sb, "n%d", p.n0)
		}
	}
	for o, lg := range r.lg {
		var ev []int
		for _, e := range lg.evs {
			ev = append(ev, psEidOf(e))
		}
		fin := false
		if o < len(r.loops) {
			fin = r.loops[o].final
		}
		fmt.Fprintf(&sb, "|L%v;%s;%s;%d;%d;%s", fin, psJoinInts(ev), psJoinInts(lg.pool), lg.cur, lg.rest, psJoinInts(lg.dead))
	}
	for i := range s.th {
		t := &s.th[i]
		fmt.Fprintf(&sb, "|T%d;%d;%d;%d;%v", t.stage, t.op, t.sid, t.recv, t.fail)
	}
	fmt.Fprintf(&sb, "|k%d", s.ticks)
	return sb.String()
}

func (s *psSim) finish() {
	s.do("END")
	s.r.cleanup()
	if s.conc && s.sends > 0 {
		s.c.Nontrivial()
	}
	s.c.Count(fmt.Sprintf("sends:%d", psMinInt(s.sends, 6)))
	s.c.Count(fmt.Sprintf("objs:%d", len(s.r.objs)))
	if s.r.stuck {
		s.c.Count("stuck")
	}
}

// psTimeoutBudget bounds the wall clock spent in 100 ms publish timeouts by the sampled schedules.
var psTimeoutBudget = 1 << 30

func psMinInt(a, b int) int {
	if a < b {
		return a
	}
	return b
}

// exploreExhaustive runs a depth-first search with a visited-state set. Every enabled
// choice of every visited state is executed at least once on the implementation.
func exploreExhaustive(c *Ctx, cf psConfig, maxTraces int) (states, traces int, complete bool) {
	visited := map[string]bool{}
	succ := map[string]map[string]bool{}
	tries := map[string]int{}
	stack := [][]string{{}}
	for len(stack) > 0 {
		if traces >= maxTraces {
			return len(visited), traces, false
		}
		prefix := stack[len(stack)-1]
		stack = stack[:len(stack)-1]
		c.Trace(fmt.Sprintf("pubsub-x-%s-%d", cf.name, traces))
		traces++
		s := newPsSim(c, cf)
		path := make([]string, 0, len(prefix)+8)
		ok := true
		var lastKey string
		for i, ch := range prefix {
			en := s.choices()
			found := false
			for _, e := range en {
				if e == ch {
					found = true
				}
			}
			if !found { // the replay diverged (map iteration order); explore from here instead
				ok = false
				break
			}
			if i == len(prefix)-1 {
				lastKey = s.key()
			}
			s.perform(ch)
			path = append(path, ch)
		}
		if ok && len(prefix) > 0 {
			ek := lastKey + "#" + prefix[len(prefix)-1]
			if s.nondet {
				if succ[ek] == nil {
					succ[ek] = map[string]bool{}
				}
				succ[ek][s.key()] = true
				tries[ek]++
				if len(succ[ek]) < 2 && tries[ek] < 6 {
					stack = append(stack, append([]string{}, prefix...))
				}
			}
		}
		for !s.r.stuck {
			k := s.key()
			if visited[k] {
				break
			}
			visited[k] = true
			en := s.choices()
			if len(en) == 0 {
				c.Count("terminal")
				break
			}
			for _, e := range en[1:] {
				stack = append(stack, append(append([]string{}, path...), e))
			}
			ek := k + "#" + en[0]
			s.perform(en[0])
			path = append(path, en[0])
			if s.nondet {
				if succ[ek] == nil {
					succ[ek] = map[string]bool{}
				}
				succ[ek][s.key()] = true
				tries[ek]++
				if len(succ[ek]) < 2 && tries[ek] < 6 {
					stack = append(stack, append([]string{}, path...))
				}
			}
		}
		s.finish()
	}
	return len(visited), traces, true
}

func exploreRandom(c *Ctx, cf psConfig, n int, tag string) {
	for i := 0; i < n; i++ {
		c.Trace(fmt.Sprintf("pubsub-r-%s-%s-%d", cf.name, tag, i))
		s := newPsSim(c, cf)
		// per-trace bias: how reluctant consumers and the ticker are
		stall := c.Rng.Intn(4)
		for steps := 0; steps < 400 && !s.r.stuck; steps++ {
			en := s.choices()
			if len(en) == 0 {
				break
			}
			var w []int
			tot := 0
			for _, e := range en {
				x := 4
				if strings.HasPrefix(e, "recv") {
					x = []int{6, 2, 1, 1}[stall]
				} else if strings.HasPrefix(e, "tick") {
					x = 2
				} else if strings.HasPrefix(e, "loop") {
					x = 5
				}
				w = append(w, x)
				tot += x
			}
			p := c.Rng.Intn(tot)
			j := 0
			for p >= w[j] {
				p -= w[j]
				j++
			}
			s.perform(en[j])
		}
		s.finish()
	}
}

func psConfigs(tier string) []psConfig {
	sub := func(actor int, unsub bool, recv int) psThread {
		return psThread{kind: "sub", actor: actor, unsub: unsub, recv: recv}
	}
	pub := func(actor int, ev ...bool) psThread { return psThread{kind: "pub", actor: actor, events: ev} }
	cfs := []psConfig{
		// one per quick-tier worker (index mod 8)
		{name: "s1u-p1", maxFail: 100, ticks: 1, threads: []psThread{sub(1, true, 1), pub(9, true)}},
		{name: "s2-p1", maxFail: 100, ticks: 1, threads: []psThread{sub(1, false, 1), sub(2, false, 1), pub(9, true)}},
		{name: "s1u-s1u", maxFail: 100, ticks: 0, threads: []psThread{sub(1, true, 0), sub(2, true, 0)}},
		{name: "s1u-s1u-p1", maxFail: 100, ticks: 0, threads: []psThread{sub(1, true, 0), sub(2, true, 0), pub(9, true)}},
		{name: "stall", maxFail: 1, ticks: 1, threads: []psThread{sub(1, true, 1), pub(9, true, false)}},
		{name: "limit", maxFail: 100, ticks: 0, threads: []psThread{{kind: "sub", actor: 1, limit: 1, unsub: true}, {kind: "sub", actor: 2, limit: 1, unsub: true}}},
		{name: "self", maxFail: 100, ticks: 1, threads: []psThread{sub(1, true, 1), pub(1, true), pub(9, true)}},
		{name: "dedup", maxFail: 100, ticks: 0, threads: []psThread{sub(1, true, 0), pub(9, true, true, true, false)}},
	}
	if tier == "thorough" {
		cfs = append(cfs,
			psConfig{name: "s3u", maxFail: 100, ticks: 0, threads: []psThread{sub(1, true, 0), sub(2, true, 0), sub(3, true, 0)}},
			psConfig{name: "s1u-s1-p1", maxFail: 100, ticks: 1, threads: []psThread{sub(1, true, 0), sub(2, false, 1), pub(9, true)}},
			psConfig{name: "stall3", maxFail: 2, ticks: 2, threads: []psThread{sub(1, true, 1), pub(9, true, false, true)}},
			psConfig{name: "s2u-p1", maxFail: 100, ticks: 1, threads: []psThread{sub(1, true, 1), sub(2, true, 0), pub(9, true)}},
			psConfig{name: "dedup-tick", maxFail: 100, ticks: 1, threads: []psThread{sub(1, false, 2), pub(9, true, true, true, false)}},
			psConfig{name: "s1u-p2", maxFail: 100, ticks: 1, threads: []psThread{sub(1, true, 1), pub(8, true), pub(9, true)}},
			psConfig{name: "limit-p", maxFail: 100, ticks: 1, threads: []psThread{{kind: "sub", actor: 1, limit: 1, unsub: true, recv: 1}, {kind: "sub", actor: 2, limit: 1, unsub: true}, pub(9, true)}},
		)
	}
	return cfs
}

func psBigConfig(c *Ctx) psConfig {
	r := c.Rng
	cf := psConfig{name: "big", maxFail: []int{1, 2, 3, 100}[r.Intn(4)], ticks: 1 + r.Intn(4)}
	ns, np := 1+r.Intn(4), 1+r.Intn(3)
	for i := 0; i < ns; i++ {
		lim := 0
		if r.Intn(5) == 0 {
			lim = 1 + r.Intn(3)
		}
		cf.threads = append(cf.threads, psThread{kind: "sub", actor: 1 + i, limit: lim, unsub: r.Intn(4) != 0, recv: r.Intn(3)})
	}
	for i := 0; i < np; i++ {
		a := 9 + i
		if r.Intn(5) == 0 {
			a = 1 + r.Intn(ns) // a watcher that also publishes (self filter)
		}
		var ev []bool
		for k := 1 + r.Intn(3); k > 0; k-- {
			ev = append(ev, r.Intn(4) != 0)
		}
		cf.threads = append(cf.threads, psThread{kind: "pub", actor: a, events: ev})
	}
	return cf
}

func runPubSub(c *Ctx) error {
	psSilence()
	c.stats.Rule = "lock-granularity schedules of Subscribe/Unsubscribe/Publish/flush/consume on one document key, one released critical section per command; " +
		"non-trivial = at some command two or more calls/flushes were mid-operation and at least one Subscription.Publish send step ran; distinct by trace hash"
	if c.Replay != nil {
		var r *psRun
		fin := func() {
			if r != nil {
				r.cleanup()
			}
			r = nil
		}
		for _, l := range c.Replay {
			if strings.HasPrefix(l, "T ") {
				fin()
				c.Trace(strings.TrimPrefix(l, "T "))
				continue
			}
			if strings.HasPrefix(l, "CFG") {
				fin()
				r = newPsRun(c, psKVI(strings.Fields(l), "maxfail"))
				c.Cmd("%s", l)
				c.Obs("cfg maxfail=%d", psKVI(strings.Fields(l), "maxfail"))
				continue
			}
			if r == nil {
				r = newPsRun(c, 100)
			}
			l2 := r.exec(l)
			c.Cmd("%s", l2)
		}
		fin()
		return nil
	}
	worker := int(c.Seed % 1000)
	cfs := psConfigs(c.Tier)
	budget := c.N
	var scopes, bounded []string
	for i, cf := range cfs {
		if i%8 != worker%8 || worker >= 8 {
			continue
		}
		states, traces, complete := exploreExhaustive(c, cf, budget)
		budget -= traces
		if budget < 0 {
			budget = 0
		}
		c.Count("xstates:" + cf.name + ":" + strconv.Itoa(states))
		if complete {
			scopes = append(scopes, fmt.Sprintf("%s states=%d traces=%d", cf.describe(), states, traces))
		} else {
			// the trace budget ran out: a bounded depth-first exploration, not claimed as exhaustive
			bounded = append(bounded, cf.name)
			c.Count("xincomplete:" + cf.name)
		}
	}
	if len(scopes) > 0 {
		sort.Strings(scopes)
		c.stats.Exhaustive = true
		c.stats.ExhaustiveScope = "pubsub: every enabled scheduler choice (one critical section of one call / of the flush / one receive) from every reachable scheduler state of " +
			strings.Join(scopes, "; ") + " (the order in which a flush walks its Values() snapshot is Go's randomized map iteration: followed and retried, not forced)"
		if len(bounded) > 0 {
			c.stats.ExhaustiveScope += "; explored within the trace budget only (NOT exhaustive): " + strings.Join(bounded, ",")
		}
	}
	// sampled schedules for larger configurations
	// c.N is the per-worker trace budget of the exhaustive part; the sampled part is capped
	nr := budget
	psTimeoutBudget = 3000
	if c.Tier == "quick" {
		psTimeoutBudget = 60
		if nr > 400 {
			nr = 400
		}
	} else if nr > 20000 {
		nr = 20000
	}
	for i := 0; i < nr; i++ {
		exploreRandom(c, psBigConfig(c), 1, strconv.Itoa(i))
	}
	return nil
}
