package main

// engine `pbfuzz`: protobuf-level codecs of C09 on the real code.  There is no Lean model of
// this stream: the commands (`HIST …`, `MUT …`) only make a trace replayable, the Lean engine
// of the same name answers every command with no output and this engine prints no
// observation line either, so the compared streams consist of the `T` lines only.  Everything
// is decided by the property oracle (c.Oracle) and reported in stats.
//
//	HIST <seed> <class> <clients> <steps> <gc>
//	    random multi-client history over real document.Document replicas and a small
//	    in-process change log; every pack travels ToChangePack → proto.Marshal →
//	    proto.Unmarshal → FromChangePack.  Oracles: wire replica ≡ direct replica ≡ replica
//	    fed from stored ChangeInfo (BSON round trip through the real mongo registry);
//	    BytesToSnapshot(SnapshotToBytes(root)) marshals identically, keeps GarbageLen, and
//	    re-encodes to an equal protobuf.
//	    class A: text styles, no undo, no array move
//	    class B: undo/redo (restore spans), no text style, no array move
//	    class C: array moves
//	    class D: text style + undo
//	    The class only steers the generator.  No classification consults it: a difference is tagged
//	    only when the evidence predicate of a listed finding holds (eng_pbfuzz_diff.go).
//	MUT <seed> <n>
//	    n hostile inputs derived from the messages of the history: structural protobuf
//	    mutation (nil-out / empty / foreign body for every message field, oneof body swap,
//	    repeated-field truncation/duplication/reorder, extreme ints, out-of-range enums, byte
//	    field damage, map key/value damage) normalised through the wire, plus raw byte
//	    mutation of the marshalled form; fed to the decoders under recover() + timeout.
//	    Stage 2 executes what the decoder accepted the way the server's background snapshot
//	    builder would (apply to the pre-state replica, Marshal, DeepCopy, re-encode).

import (
	"bytes"
	"fmt"
	"math"
	"math/rand"
	"os"
	"regexp"
	"sort"
	"strconv"
	"strings"
	gotime "time"

	"go.mongodb.org/mongo-driver/v2/bson"
	"google.golang.org/protobuf/proto"

	"github.com/yorkie-team/yorkie/api/converter"
	"github.com/yorkie-team/yorkie/api/types"
	api "github.com/yorkie-team/yorkie/api/yorkie/v1"
	"github.com/yorkie-team/yorkie/pkg/document"
	"github.com/yorkie-team/yorkie/pkg/document/change"
	"github.com/yorkie-team/yorkie/pkg/document/crdt"
	"github.com/yorkie-team/yorkie/pkg/document/json"
	"github.com/yorkie-team/yorkie/pkg/document/presence"
	"github.com/yorkie-team/yorkie/pkg/document/time"
	"github.com/yorkie-team/yorkie/pkg/key"
	"github.com/yorkie-team/yorkie/server/backend/database"
	"github.com/yorkie-team/yorkie/server/backend/database/mongo"
)

func init() { register("pbfuzz", runPbfuzz) }

const pbTimeout = 10 * gotime.Second

var (
	pbDocKey   = key.Key("pbfuzz-doc")
	pbRefKey   = types.DocRefKey{ProjectID: "000000000000000000000001", DocID: "000000000000000000000002"}
	pbRegistry = mongo.NewRegistryBuilder()
)

// ---------- seeds collected from a history ----------

type packSeed struct {
	pb  *api.ChangePack
	pre *document.InternalDocument // server replica before the pack (for stage 2); may be nil
}

type pbSeeds struct {
	packs     []packSeed
	snapshots []*api.Snapshot
	elements  []*api.JSONElement
	ops       [][]*api.Operation
	vvs       []*api.VersionVector
	presences []*api.PresenceChange
	trees     [][]*api.TreeNode
	infos     [][]byte // BSON of stored ChangeInfo
	pool      msgPool
}

// ---------- history ----------

type fuzzClient struct {
	doc    *document.Document
	actor  time.ActorID
	lastVV time.VersionVector
	// shadow receives exactly the changes doc executes, in the same order, but every one of them
	// (the client's own included) decoded from the wire: doc = "p applied directly" (the author
	// executes its own operations in memory), shadow = "FromChangePack(ToChangePack(p)) applied"
	shadow *document.InternalDocument
	// Marshal() of the author right after producing the local change with a given clientSeq, and
	// which of those changes were emitted by Undo/Redo
	states   map[uint32]string
	undoSeqs map[uint32]bool
	// first local change after which the shadow stopped agreeing with the recorded author state
	staleBefore    []string
	silentUndo     string
	preAuthor      *document.InternalDocument
	preShadow      *document.InternalDocument
	preResp        *api.ChangePack
	firstBad       uint32
	firstBadByUndo bool
}

type fuzzHist struct {
	r        *rand.Rand
	class    string
	gc       bool
	clients  []*fuzzClient
	log      []*change.Change // wire-decoded, server seq set
	logPB    []*api.Change    // the same changes as protobuf (fresh decodes for the continuation oracle)
	sWire    *document.InternalDocument
	sStore   *document.InternalDocument
	seeds    *pbSeeds
	dead     string
	styled   bool // a text Style happened
	moved    bool
	undone   bool
	dumped   bool
	lastPack *api.ChangePack
	// createdAt keys of array elements replaced through Array.Set* (ArraySet), per history
	replaced map[string]bool
	// createdAt keys of values restored by undo/redo under their old identity; of text/tree nodes
	// named by restore spans
	restoredVals  map[string]bool
	restoredNodes map[string]bool
	// attribute-tombstone ids seen on more than one owner at some observed point
	sharedIDs map[string]bool
}

func newHist(seed int64, class string, nClients int, gc bool) *fuzzHist {
	h := &fuzzHist{r: rand.New(rand.NewSource(seed)), class: class, gc: gc,
		sWire:  document.NewInternalDocument(pbDocKey),
		sStore: document.NewInternalDocument(pbDocKey), seeds: &pbSeeds{pool: msgPool{}}, replaced: map[string]bool{}, restoredVals: map[string]bool{}, restoredNodes: map[string]bool{}, sharedIDs: map[string]bool{}}
	for i := 0; i < nClients; i++ {
		var a time.ActorID
		a[11] = byte(i + 1)
		if i == 1 {
			a[0] = 0xff // an actor that sorts last bytewise
		}
		d := document.New(pbDocKey)
		d.SetActor(a)
		go func() {
			for range d.Events() {
			}
		}()
		sh := document.NewInternalDocument(pbDocKey)
		h.clients = append(h.clients, &fuzzClient{doc: d, actor: a, lastVV: time.NewVersionVector(), shadow: sh,
			states: map[uint32]string{}, undoSeqs: map[uint32]bool{}})
	}
	return h
}

var pbWords = []string{"a", "bc", "hello", "wörld", "한글", "\U0001F600", "x y", "\"q\"", "\\", "line\nbreak", "", "0"}

func (h *fuzzHist) word() string { return pbWords[h.r.Intn(len(pbWords))] }

func (h *fuzzHist) attrs() map[string]string {
	m := map[string]string{}
	for _, k := range []string{"b", "i", "color"} {
		if h.r.Intn(2) == 0 {
			m[k] = []string{"1", "true", "\"red\"", ""}[h.r.Intn(4)]
		}
	}
	if len(m) == 0 {
		m["b"] = "1"
	}
	return m
}

func u16len(s string) int {
	n := 0
	for _, c := range s {
		if c >= 0x10000 {
			n += 2
		} else {
			n++
		}
	}
	return n
}

func (h *fuzzHist) setPrim(o *json.Object, k string) {
	r := h.r
	switch r.Intn(9) {
	case 0:
		o.SetNull(k)
	case 1:
		o.SetBool(k, r.Intn(2) == 0)
	case 2:
		o.SetInteger(k, []int{0, -1, math.MaxInt32, math.MinInt32, r.Intn(1000)}[r.Intn(5)])
	case 3:
		o.SetLong(k, []int64{math.MaxInt64, math.MinInt64, 1 << 40, int64(r.Intn(100))}[r.Intn(4)])
	case 4:
		o.SetDouble(k, []float64{0, -0.5, 1e300, math.Inf(1), 3.25}[r.Intn(5)])
	case 5:
		o.SetString(k, h.word())
	case 6:
		o.SetBytes(k, []byte(h.word()))
	case 7:
		o.SetDate(k, gotime.UnixMilli(int64(r.Intn(2000000000))*1000).UTC())
	case 8:
		o.SetInteger(k, math.MaxInt32+1+r.Intn(3)) // Go int beyond int32 → Long
	}
}

func (h *fuzzHist) addElem(a *json.Array) {
	r := h.r
	switch r.Intn(10) {
	case 0:
		a.AddNull()
	case 1:
		a.AddBool(true)
	case 2, 3:
		a.AddInteger(r.Intn(100))
	case 4:
		a.AddString(h.word())
	case 5:
		a.AddNewObject().SetInteger("n", r.Intn(9))
	case 6:
		a.AddNewArray().AddInteger(1, 2)
	case 7:
		a.AddNewText().Edit(0, 0, h.word())
	case 8:
		a.AddNewCounter(crdt.LongCnt, int64(r.Intn(5)))
	case 9:
		a.AddDouble(1.5).AddLong(7).AddBytes([]byte{0, 1})
	}
}

func pbTreeInit() json.TreeNode {
	return json.TreeNode{Type: "doc", Children: []json.TreeNode{
		{Type: "p", Children: []json.TreeNode{{Type: "text", Value: "ab"}}},
		{Type: "p", Attributes: map[string]string{"k": "v"}, Children: []json.TreeNode{{Type: "text", Value: "cd"}}},
	}}
}

// edit performs one random edit on the document of a client.
func (h *fuzzHist) edit(root *json.Object, p *presence.Presence, actor string) {
	r := h.r
	switch k := r.Intn(100); {
	case k < 12:
		h.setPrim(root, fmt.Sprintf("k%d", r.Intn(4)))
	case k < 16:
		root.Delete(fmt.Sprintf("k%d", r.Intn(4)))
	case k < 26:
		o := root.GetObject("o")
		if o == nil {
			o = root.SetNewObject("o")
		}
		switch r.Intn(5) {
		case 0, 1:
			h.setPrim(o, fmt.Sprintf("x%d", r.Intn(3)))
		case 2:
			o.Delete(fmt.Sprintf("x%d", r.Intn(3)))
		case 3:
			n := o.GetObject("n")
			if n == nil {
				n = o.SetNewObject("n")
			}
			h.setPrim(n, "y")
		case 4:
			if r.Intn(4) == 0 {
				root.Delete("o")
			} else {
				o.SetNewArray("na").AddInteger(1)
			}
		}
	case k < 46:
		a := root.GetArray("a")
		if a == nil {
			a = root.SetNewArray("a")
			a.AddInteger(1, 2, 3)
			return
		}
		n := a.Len()
		switch x := r.Intn(10); {
		case x < 3 || n == 0:
			h.addElem(a)
		case x < 5:
			a.InsertIntegerAfter(r.Intn(n), 100+r.Intn(100))
		case x < 7:
			a.Delete(r.Intn(n))
		case x < 8:
			i := r.Intn(n)
			h.replaced[a.Get(i).CreatedAt().Key()] = true
			a.SetInteger(i, 500+r.Intn(100))
		default:
			if h.class == "C" && n >= 2 {
				h.moved = true
				switch r.Intn(3) {
				case 0:
					i, j := r.Intn(n), r.Intn(n)
					if i != j {
						a.MoveAfterByIndex(i, j)
					}
				case 1:
					a.MoveFront(a.Get(r.Intn(n)).CreatedAt())
				case 2:
					a.MoveLast(a.Get(r.Intn(n)).CreatedAt())
				}
			} else {
				h.addElem(a)
			}
		}
	case k < 66:
		t := root.GetText("t")
		if t == nil {
			root.SetNewText("t").Edit(0, 0, "hello")
			return
		}
		n := u16len(t.String())
		from := r.Intn(n + 1)
		to := from + r.Intn(n-from+1)
		switch x := r.Intn(10); {
		case x < 4:
			t.Edit(from, from, h.word())
		case x < 6:
			t.Edit(from, to, h.word())
		case x < 7:
			t.Edit(from, to, "")
		case x < 8:
			t.Edit(from, to, h.word(), h.attrs())
		default:
			if (h.class == "A" || h.class == "D") && to > from {
				h.styled = true
				t.Style(from, to, h.attrs())
			} else {
				t.Edit(from, from, h.word())
			}
		}
	case k < 74:
		c := root.GetCounter("c")
		if c == nil {
			root.SetNewCounter("c", []any{0, int64(0), math.MaxInt32 - 1, int64(math.MaxInt64 - 1)}[r.Intn(4)])
			return
		}
		switch r.Intn(4) {
		case 0:
			c.Increase(1)
		case 1:
			c.Increase(-3)
		case 2:
			c.Increase(int64(1) << 33)
		case 3:
			c.Increase(2.5)
		}
	case k < 79:
		d := root.GetCounter("d")
		if d == nil {
			root.SetNewDedupCounter("d")
			return
		}
		d.Add(fmt.Sprintf("user-%d", r.Intn(6)))
	case k < 94:
		t := root.GetTree("r")
		if t == nil {
			init := pbTreeInit()
			root.SetNewTree("r", init)
			return
		}
		n := t.Len()
		if n < 2 {
			t.Edit(0, 0, &json.TreeNode{Type: "p", Children: []json.TreeNode{{Type: "text", Value: "z"}}}, 0)
			return
		}
		// candidate edits; invalid indexes panic inside the updater and abandon the history
		switch x := r.Intn(10); {
		case x < 3:
			i := 1 + r.Intn(n-1)
			t.Edit(i, i, &json.TreeNode{Type: "text", Value: h.word() + "t"}, 0)
		case x < 4:
			t.Edit(0, 0, &json.TreeNode{Type: "p", Attributes: map[string]string{"a": "1"},
				Children: []json.TreeNode{{Type: "text", Value: "n"}}}, 0)
		case x < 6:
			i := 1 + r.Intn(n-1)
			j := i + r.Intn(min(3, n-i))
			t.Edit(i, j, nil, 0)
		case x < 7:
			i := 1 + r.Intn(n-1)
			t.Edit(i, i, nil, 1) // split
		case x < 9:
			t.Style(0, 1+r.Intn(n-1), h.attrs())
		default:
			t.RemoveStyle(0, 1+r.Intn(n-1), []string{"b", "k"})
		}
	default:
		p.Set([]string{"cursor", "name"}[r.Intn(2)], strconv.Quote(h.word()))
	}
}

func (h *fuzzHist) kill(c *Ctx, why string) {
	if h.dead == "" {
		h.dead = why
		if len(why) > 60 {
			why = why[:60]
		}
		c.Count("history:abandoned:" + why)
	}
}

func (h *fuzzHist) update(c *Ctx, i int) {
	cl := h.clients[i]
	var err error
	g := guardRun(pbTimeout, func() {
		err = cl.doc.Update(func(root *json.Object, p *presence.Presence) error {
			for k := 1 + h.r.Intn(3); k > 0; k-- {
				h.edit(root, p, cl.actor.String())
			}
			return nil
		})
	})
	switch {
	case g.bad():
		// a panic inside an editing API (index out of range for a concurrent tree shape, …) is not
		// a codec matter: abandon the history
		h.kill(c, "update-panic: "+g.site)
	case err != nil:
		h.kill(c, "update-error")
	default:
		c.Count("step:update")
		h.record(cl, false)
	}
}

// record keeps what the author shows right after its newest local change.
func (h *fuzzHist) record(cl *fuzzClient, byUndo bool) {
	pk := cl.doc.CreateChangePack()
	if n := len(pk.Changes); n > 0 {
		cs := pk.Changes[n-1].ClientSeq()
		cl.states[cs] = cl.doc.Marshal()
		if byUndo {
			cl.undoSeqs[cs] = true
		}
	}
}

func (h *fuzzHist) undo(c *Ctx, i int) {
	cl := h.clients[i]
	var err error
	before, nBefore := cl.doc.Marshal(), len(cl.doc.CreateChangePack().Changes)
	g := guardRun(pbTimeout, func() {
		if h.r.Intn(3) == 0 && cl.doc.CanRedo() {
			err = cl.doc.Redo()
		} else if cl.doc.CanUndo() {
			err = cl.doc.Undo()
		}
	})
	switch {
	case g.bad():
		h.kill(c, "undo-panic: "+g.site)
	case err != nil:
		h.kill(c, "undo-error")
	default:
		h.undone = true
		c.Count("step:undo")
		if os.Getenv("PBFUZZ_DUMP") == "undo" {
			pk := cl.doc.CreateChangePack()
			fmt.Fprintf(os.Stderr, "UNDO client=%d pending %d -> %d\n  before %s\n  after  %s\n", i, nBefore, len(pk.Changes), before, cl.doc.Marshal())
			if len(pk.Changes) > nBefore {
				pb, _ := converter.ToChanges(pk.Changes[nBefore:])
				for _, x := range pb {
					fmt.Fprintf(os.Stderr, "  emitted %s\n", protoTextLong(x))
				}
			}
		}
		if after := cl.doc.Marshal(); mergeTextNodes(after) != mergeTextNodes(before) && len(cl.doc.CreateChangePack().Changes) == nBefore {
			// the undo/redo changed what the author shows and added no local change: nothing will
			// ever tell the peers (or the author's wire shadow)
			cl.silentUndo = firstDiff(before, after)
			c.Count("note:undo-changed-document-without-emitting-a-change")
		}
		h.record(cl, true)
	}
}

// throughWire converts a pack to protobuf, to bytes and back.
func throughWire(p *change.Pack) (*api.ChangePack, *change.Pack, error) {
	pb, err := converter.ToChangePack(p)
	if err != nil {
		return nil, nil, fmt.Errorf("ToChangePack: %w", err)
	}
	b, err := proto.Marshal(pb)
	if err != nil {
		return nil, nil, fmt.Errorf("Marshal: %w", err)
	}
	pb2 := &api.ChangePack{}
	if err := proto.Unmarshal(b, pb2); err != nil {
		return nil, nil, fmt.Errorf("Unmarshal: %w", err)
	}
	out, err := converter.FromChangePack(pb2)
	if err != nil {
		return pb2, nil, fmt.Errorf("FromChangePack: %w", err)
	}
	return pb2, out, nil
}

// storedRoundTrip sends a change through database.ChangeInfo and BSON (real mongo registry).
func storedRoundTrip(ch *change.Change) (*change.Change, []byte, error) {
	info, err := database.NewFromChange(pbRefKey, ch)
	if err != nil {
		return nil, nil, fmt.Errorf("NewFromChange: %w", err)
	}
	info.ID = "000000000000000000000003"
	var buf bytes.Buffer
	enc := bson.NewEncoder(bson.NewDocumentWriter(&buf))
	enc.SetRegistry(pbRegistry)
	if err := enc.Encode(info); err != nil {
		return nil, nil, fmt.Errorf("bson encode: %w", err)
	}
	raw := append([]byte{}, buf.Bytes()...)
	info2 := &database.ChangeInfo{}
	dec := bson.NewDecoder(bson.NewDocumentReader(bytes.NewReader(raw)))
	dec.SetRegistry(pbRegistry)
	if err := dec.Decode(info2); err != nil {
		return nil, raw, fmt.Errorf("bson decode: %w", err)
	}
	out, err := info2.ToChange()
	if err != nil {
		return nil, raw, fmt.Errorf("ToChange: %w", err)
	}
	return out, raw, nil
}

var knownWritten = map[string]int{}

var reTextJoin = regexp.MustCompile(`\{"val":"((?:[^"\\]|\\.)*)"\},\{"val":"((?:[^"\\]|\\.)*)"\}`)

// mergeTextNodes joins adjacent text nodes that carry the same attributes in a Marshal() string
// (where a text is split into nodes is not content).  Falls back to joining attribute-less nodes
// textually when the string does not parse as JSON.
func mergeTextNodes(s string) string {
	if out, ok := mergeTextNodesJSON(s); ok {
		return out
	}
	for {
		t := reTextJoin.ReplaceAllString(s, `{"val":"$1$2"}`)
		if t == s {
			return s
		}
		s = t
	}
}

// mismatch reports a difference, classified against the two known C02 defects by the class of
// the history **and** the shape of the difference.
func (h *fuzzHist) mismatch(c *Ctx, what, a, b string) {
	tag := ""
	if strings.HasPrefix(what, "KNOWN[") {
		k := strings.Index(what, "] ")
		tag, what = what[:k+2], what[k+2:]
	}
	// show a window around the first difference
	i := 0
	for i < len(a) && i < len(b) && a[i] == b[i] {
		i++
	}
	win := func(x string) string {
		lo, hi := max(0, i-260), min(len(x), i+260)
		pre, post := "", ""
		if lo > 0 {
			pre = "…"
		}
		if hi < len(x) {
			post = "…"
		}
		return pre + x[lo:hi] + post
	}
	a, b = win(a), win(b)
	cw := what
	if k := strings.Index(cw, " ("); k > 0 {
		cw = cw[:k]
	}
	if k := strings.Index(cw, " ["); k > 0 {
		cw = cw[:k]
	}
	if k := strings.Index(cw, "("); k > 0 {
		cw = cw[:k]
	}
	c.Count("oracle:" + strings.TrimSpace(tag) + cw)
	if tag != "" {
		// a known finding is written out a few times per run and counted afterwards
		knownWritten[tag]++
		if knownWritten[tag] > 3 {
			return
		}
	}
	c.Oracle("%s", strings.ToValidUTF8(fmt.Sprintf("%s%s: expected %s got %s", tag, what, a, b), "?"))
}

// snapOracle: BytesToSnapshot(SnapshotToBytes(root)) marshals identically, keeps GarbageLen and
// presences, and re-encodes to an equal protobuf.  Differences are classified against the
// known CRDT-layer defects by their *shape* (see classify below); anything else is a violation.
func (h *fuzzHist) snapOracle(c *Ctx, who string, live *crdt.Root, pres map[string]presence.Data, collect bool) {
	root := live.Object()
	garbage := live.GarbageLen()
	var b []byte
	var err error
	g := guardRun(pbTimeout, func() {
		b, err = converter.SnapshotToBytes(root, pres)
	})
	if g.bad() || err != nil {
		c.Oracle("SnapshotToBytes(%s) failed: %v %s", who, err, g.sig())
		return
	}
	var obj *crdt.Object
	var pm *presence.Map
	g = guardRun(pbTimeout, func() { obj, pm, err = converter.BytesToSnapshot(b) })
	if g.bad() || err != nil {
		c.Oracle("BytesToSnapshot(SnapshotToBytes(%s)) rejected its own output: %v %s", who, err, g.sig())
		return
	}
	c.Count("oracle-run:snapshot")
	if garbage > 0 {
		c.Count("snapshot:with-garbage")
	}
	// presences
	got := pm.ToMap()
	if len(got) != len(pres) {
		c.Oracle("snapshot presences(%s): %d entries became %d", who, len(pres), len(got))
	} else {
		for k, v := range pres {
			if fmt.Sprint(map[string]string(v)) != fmt.Sprint(map[string]string(got[k])) {
				c.Oracle("snapshot presence(%s) of %s: %v became %v", who, k, v, got[k])
			}
		}
	}
	// re-encode: same meaning (tickets, tombstones, order)
	b2, err := converter.SnapshotToBytes(obj, got)
	if err != nil {
		c.Oracle("re-encode of decoded snapshot(%s) failed: %v", who, err)
		return
	}
	pa, pb := &api.Snapshot{}, &api.Snapshot{}
	_ = proto.Unmarshal(b, pa)
	_ = proto.Unmarshal(b2, pb)
	if collect {
		seed := proto.Clone(pa).(*api.Snapshot)
		h.seeds.snapshots = append(h.seeds.snapshots, seed)
		h.seeds.pool.add(seed.ProtoReflect(), 0)
		if seed.Root != nil {
			h.collectElements(seed.Root, 0)
		}
	}
	h.notePending()
	rep := h.analyseSnapshot(live, obj, pa, pb)
	m1, m2 := root.Marshal(), obj.Marshal()
	if m1 != m2 {
		tags := h.explainMarshal(rep, live, m1, m2)
		if tags == nil {
			tags = []string{""}
		}
		for _, tag := range tags {
			rep.add(tag, "Marshal() differs: "+firstDiff(m1, m2))
		}
	}
	if gl := crdt.NewRoot(obj).GarbageLen(); gl != garbage && len(rep.by) == 0 {
		rep.add("", fmt.Sprintf("GarbageLen %d became %d and no differing item was found", garbage, gl))
	}
	if f, ok := rep.by[""]; ok && os.Getenv("PBFUZZ_DUMP") == "snap" && !h.dumped {
		h.dumped = true
		fmt.Fprintf(os.Stderr, "DUMP %s unexplained: %s\nLIVE MARSHAL %s\n", who, strings.Join(f.items, "; "), m1)
		gv := graphView(live.Object())
		lreg := bookView(live).inst
		keyOf := map[string]string{}
		for k, e := range gv.all {
			keyOf[e.CreatedAt().ToTestString()] = k
		}
		for k, e := range lreg {
			keyOf[e.CreatedAt().ToTestString()] = k
		}
		for _, it := range f.items {
			if strings.HasPrefix(it, "pair-") {
				for _, l := range h.opsMentioning("styles") {
					fmt.Fprintf(os.Stderr, "   %s\n", l)
				}
				break
			}
		}
		for _, it := range f.items {
			i := strings.Index(it, ":")
			j := strings.Index(it, "(")
			if i < 0 || j < i {
				continue
			}
			t := it[i+1 : j]
			k, ok := keyOf[t]
			if !ok {
				continue
			}
			for _, l := range h.opsMentioning(k) {
				fmt.Fprintf(os.Stderr, "   %s: %s\n", t, l)
			}
		}
	}
	h.emit(c, "snapshot("+who+")", rep)
}

// emit writes one oracle line per finding of a report (known findings a few times per run, then
// only counted) and one untagged line for everything no predicate explains.
func (h *fuzzHist) emit(c *Ctx, where string, rep *snapReport) {
	var tags []string
	for t := range rep.by {
		tags = append(tags, t)
	}
	sort.Strings(tags)
	for _, t := range tags {
		f := rep.by[t]
		sort.Strings(f.items)
		items := f.items
		if len(items) > 6 {
			items = append(append([]string{}, items[:6]...), fmt.Sprintf("… %d more", len(f.items)-6))
		}
		prefix := ""
		if t != "" {
			prefix = "KNOWN[" + t + "] "
			c.Count("oracle:KNOWN[" + t + "]")
			knownWritten[prefix]++
			if knownWritten[prefix] > 3 {
				continue
			}
		} else {
			c.Count("oracle:unexplained:" + where[:strings.Index(where, "(")])
		}
		c.Oracle("%s", strings.ToValidUTF8(fmt.Sprintf("%s%s: %s", prefix, where, strings.Join(items, "; ")), "?"))
	}
}

// canonElement sorts the nodes of every JSONObject (they come out of a Go map) by key and
// deterministic encoding, recursively, so that two encodings can be compared with proto.Equal.
func canonElement(e *api.JSONElement) {
	if e == nil {
		return
	}
	switch body := e.Body.(type) {
	case *api.JSONElement_JsonObject:
		if body.JsonObject == nil {
			return
		}
		ns := body.JsonObject.Nodes
		keys := make([]string, len(ns))
		for i, n := range ns {
			if n != nil {
				canonElement(n.Element)
				b, _ := proto.MarshalOptions{Deterministic: true}.Marshal(n)
				keys[i] = n.Key + "\x00" + string(b)
			}
		}
		idx := make([]int, len(ns))
		for i := range idx {
			idx[i] = i
		}
		sort.SliceStable(idx, func(a, b int) bool { return keys[idx[a]] < keys[idx[b]] })
		out := make([]*api.RHTNode, len(ns))
		for i, j := range idx {
			out[i] = ns[j]
		}
		body.JsonObject.Nodes = out
	case *api.JSONElement_JsonArray:
		if body.JsonArray == nil {
			return
		}
		for _, n := range body.JsonArray.Nodes {
			if n != nil {
				canonElement(n.Element)
			}
		}
	}
}

func (h *fuzzHist) collectElements(e *api.JSONElement, depth int) {
	if depth > 6 || len(h.seeds.elements) > 40 {
		return
	}
	switch body := e.Body.(type) {
	case *api.JSONElement_JsonObject:
		h.seeds.elements = append(h.seeds.elements, e)
		for _, n := range body.JsonObject.Nodes {
			if n.Element != nil {
				h.collectElements(n.Element, depth+1)
			}
		}
	case *api.JSONElement_JsonArray:
		h.seeds.elements = append(h.seeds.elements, e)
		for _, n := range body.JsonArray.Nodes {
			if n.Element != nil {
				h.collectElements(n.Element, depth+1)
			}
		}
	case *api.JSONElement_Tree_:
		h.seeds.elements = append(h.seeds.elements, e)
		h.seeds.trees = append(h.seeds.trees, body.Tree.Nodes)
	}
}

func compareReplicas(h *fuzzHist, c *Ctx, what string, a, b *document.InternalDocument) {
	if m1, m2 := a.Marshal(), b.Marshal(); m1 != m2 {
		h.mismatch(c, what+"-marshal", m1, m2)
		return
	}
	if g1, g2 := a.GarbageLen(), b.GarbageLen(); g1 != g2 {
		h.mismatch(c, what+"-garbagelen", strconv.Itoa(g1), strconv.Itoa(g2))
	}
	if v1, v2 := ShowVV(a.VersionVector()), ShowVV(b.VersionVector()); v1 != v2 {
		h.mismatch(c, what+"-vv", v1, v2)
	}
	if l1, l2 := a.Lamport(), b.Lamport(); l1 != l2 {
		h.mismatch(c, what+"-lamport", strconv.FormatInt(l1, 10), strconv.FormatInt(l2, 10))
	}
	p1, p2 := a.AllPresences(), b.AllPresences()
	if fmt.Sprint(p1) != fmt.Sprint(p2) {
		h.mismatch(c, what+"-presences", fmt.Sprint(p1), fmt.Sprint(p2))
	}
	if a.DocSize() != b.DocSize() {
		// size accounting is accumulated from execution results and was seen to differ between two
		// replays of the same operations (Go map order); content, garbage and clocks above are equal
		c.Count("note:" + what + "-docsize-differs")
	}
}

// sync pushes the local changes of client i through the wire to the log and pulls the rest.
func (h *fuzzHist) sync(c *Ctx, i int) {
	cl := h.clients[i]
	req := cl.doc.CreateChangePack()
	pbReq, reqW, err := throughWire(req)
	if err != nil {
		c.Oracle("a pack the system produced does not survive the wire: %v", err)
		h.kill(c, "wire-error")
		return
	}
	c.Count("step:sync")
	if len(req.Changes) > 0 {
		var pre *document.InternalDocument
		if len(h.seeds.packs) < 12 {
			pre, _ = h.sWire.DeepCopy()
		}
		h.seeds.packs = append(h.seeds.packs, packSeed{pb: pbReq, pre: pre})
		h.seeds.pool.add(pbReq.ProtoReflect(), 0)
		for _, ch := range pbReq.Changes {
			if len(ch.Operations) > 0 && len(h.seeds.ops) < 60 {
				h.seeds.ops = append(h.seeds.ops, ch.Operations)
			}
			if ch.Id != nil && ch.Id.VersionVector != nil && len(h.seeds.vvs) < 30 {
				h.seeds.vvs = append(h.seeds.vvs, ch.Id.VersionVector)
			}
			if ch.PresenceChange != nil && len(h.seeds.presences) < 30 {
				h.seeds.presences = append(h.seeds.presences, ch.PresenceChange)
			}
		}
	}
	// --- server side: three replicas fed three ways
	var stored []*change.Change
	for k, ch := range reqW.Changes {
		pbc := proto.Clone(pbReq.Changes[k]).(*api.Change)
		pbc.Id.ServerSeq = int64(len(h.log) + 1)
		h.logPB = append(h.logPB, pbc)
		h.noteOps([]*change.Change{ch})
		ch.SetServerSeq(int64(len(h.log) + 1))
		h.log = append(h.log, ch)
		st, raw, err := storedRoundTrip(ch)
		if err != nil {
			c.Oracle("stored ChangeInfo does not round-trip: %v", err)
			h.kill(c, "store-error")
			return
		}
		if len(h.seeds.infos) < 40 {
			h.seeds.infos = append(h.seeds.infos, raw)
		}
		// the stored change must carry the same identity
		if ShowVV(st.ID().VersionVector()) != ShowVV(ch.ID().VersionVector()) || st.ID().Lamport() != ch.ID().Lamport() ||
			st.ID().ActorID() != ch.ID().ActorID() || st.ClientSeq() != ch.ClientSeq() || st.ServerSeq() != ch.ServerSeq() ||
			st.Message() != ch.Message() {
			c.Oracle("stored ChangeInfo changed the change id: %v became %v", ch.ID(), st.ID())
		}
		stored = append(stored, st)
	}
	// a second, independent decode for the author's shadow
	reqS, err := converter.FromChangePack(proto.Clone(pbReq).(*api.ChangePack))
	if err != nil {
		c.Oracle("second decode of the same pack failed: %v", err)
		h.kill(c, "wire-error")
		return
	}
	var e1, e2, e3 error
	g := guardRun(pbTimeout, func() {
		// one change at a time, against what the author showed right after producing it
		for _, ch := range reqS.Changes {
			if _, _, e1 = cl.shadow.ApplyChangesForReplay(ch); e1 != nil {
				break
			}
			cs := ch.ClientSeq()
			if want, ok := cl.states[cs]; ok {
				if cl.firstBad == 0 && mergeTextNodes(want) != mergeTextNodes(cl.shadow.Marshal()) {
					cl.firstBad, cl.firstBadByUndo = cs, cl.undoSeqs[cs]
				}
				delete(cl.states, cs)
			}
		}
		_, _, e2 = h.sWire.ApplyChangesForReplay(reqW.Changes...)
		_, _, e3 = h.sStore.ApplyChangesForReplay(stored...)
	})
	if g.bad() {
		h.kill(c, "server-apply-panic: "+g.site)
		return
	}
	if e1 != nil || e2 != nil || e3 != nil {
		// the two server replicas hold the same state and receive the same changes through two codecs;
		// the author's shadow holds a different state (only what the author has seen) and is not comparable
		if (e2 == nil) != (e3 == nil) {
			c.Oracle("server replicas disagree on applicability: wire=%v stored=%v", e2, e3)
		}
		h.kill(c, "server-apply-error")
		return
	}
	if len(req.Changes) > 0 {
		c.Count("oracle-run:pack")
		h.lastPack = pbReq
		h.compareAuthor(c, cl)
		compareReplicas(h, c, "stored-vs-wire", h.sWire, h.sStore)
	}
	cl.lastVV = req.VersionVector.DeepCopy()
	// --- response
	var sel []*change.Change
	for _, ch := range h.log[cl.doc.Checkpoint().ServerSeq:] {
		if ch.ID().ActorID() != cl.actor {
			sel = append(sel, ch)
		}
	}
	var vvs []time.VersionVector
	for _, o := range h.clients {
		vvs = append(vvs, o.lastVV)
	}
	// GC off: the documents keep GC enabled (the DisableGC mode has a contract of its own) and are
	// simply never told that anything is stable: an empty minimum vector purges nothing
	minVV := time.NewVersionVector()
	if h.gc {
		minVV = time.MinVersionVector(vvs...)
	}
	resp := change.NewPack(pbDocKey, change.NewCheckpoint(int64(len(h.log)), req.Checkpoint.ClientSeq), sel,
		minVV, nil)
	pbResp, respW, err := throughWire(resp)
	if err != nil {
		c.Oracle("a response pack does not survive the wire: %v", err)
		h.kill(c, "wire-error")
		return
	}
	if len(sel) > 0 && len(h.seeds.packs) < 24 {
		h.seeds.packs = append(h.seeds.packs, packSeed{pb: pbResp})
	}
	respS, err2 := converter.FromChangePack(proto.Clone(pbResp).(*api.ChangePack))
	if err2 != nil {
		c.Oracle("second decode of the same response pack failed: %v", err2)
		h.kill(c, "wire-error")
		return
	}
	var errS error
	// what the author's clone (Document.Root(), the working copy updaters edit) and its root show
	// before the response: Document.ApplyChangePack executes every remote change on the clone first
	cloneBefore, rootBefore := "", ""
	g = guardRun(pbTimeout, func() {
		cloneBefore = cl.doc.Root().Marshal()
		rootBefore = cl.doc.Marshal()
	})
	if g.bad() {
		h.kill(c, "client-root-panic: "+g.site)
		return
	}
	if mergeTextNodes(cloneBefore) != mergeTextNodes(rootBefore) {
		c.Count("oracle:clone-differs-from-root")
		c.Oracle("%s", strings.ToValidUTF8("the author's clone differs from its root before a response is applied (C08): "+firstDiff(rootBefore, cloneBefore), "?"))
	}
	// evidence for what a purge may do: stale registrations before the response, and copies of both
	// replicas to replay the response on without the GC step
	cl.staleBefore = append(staleRegistrations(cl.doc.InternalDocument().Root()), staleRegistrations(cl.shadow.Root())...)
	cl.preAuthor, cl.preShadow, cl.preResp = nil, nil, nil
	if h.undone && h.gc {
		cl.preAuthor, _ = cl.doc.InternalDocument().DeepCopy()
		cl.preShadow, _ = cl.shadow.DeepCopy()
		cl.preResp = pbResp
	}
	g = guardRun(pbTimeout, func() {
		err = cl.doc.ApplyChangePack(respW)
		errS = cl.shadow.ApplyChangePack(respS, false)
	})
	if g.bad() {
		h.kill(c, "client-apply-panic: "+g.site)
		return
	}
	if err != nil || errS != nil {
		if (err == nil) != (errS == nil) {
			// no predicate: the author (own operations executed in memory, remote ones on clone then
			// root) and its shadow (the same changes in the same order, all from the wire) must agree on
			// whether a response applies.  Evidence that helps to locate it is attached.
			detail := ""
			if err != nil && errS == nil {
				if rc, e := cl.doc.InternalDocument().DeepCopy(); e == nil {
					if r3, e := converter.FromChangePack(proto.Clone(pbResp).(*api.ChangePack)); e == nil {
						var e3 error
						g3 := guardRun(pbTimeout, func() { e3 = rc.ApplyChangePack(r3, false) })
						if !g3.bad() {
							detail = fmt.Sprintf("; a copy of the author's root takes the same response: err=%v (so the rejecting side is the clone iff nil)", e3)
						}
					}
				}
			}
			c.Count("oracle:response-applicability")
			if os.Getenv("PBFUZZ_DUMP") == "wire" {
				fmt.Fprintf(os.Stderr, "DUMP response-applicability client=%d gc=%v err=%v\nRESPONSE %s\nROOT  %s\nCLONE %s\n", i, h.gc, err, protoTextLong(pbResp), rootBefore, cloneBefore)
			}
			c.Oracle("author and its wire shadow disagree on applicability of a response: direct=%v wire=%v%s", err, errS, detail)
		}
		h.kill(c, "client-apply-error")
		return
	}
	if len(sel) > 0 || h.gc {
		// (with GC on, a response without changes still purges)
		h.lastPack = pbResp
		h.compareAuthor(c, cl)
	}
}

// purgeOnly replays the last response on the copies taken before it, GC step skipped.
func (h *fuzzHist) purgeOnly(cl *fuzzClient) bool {
	if cl.preAuthor == nil || cl.preShadow == nil || cl.preResp == nil || len(cl.staleBefore) == 0 {
		return false
	}
	ra, e1 := converter.FromChangePack(proto.Clone(cl.preResp).(*api.ChangePack))
	rs, e2 := converter.FromChangePack(proto.Clone(cl.preResp).(*api.ChangePack))
	if e1 != nil || e2 != nil {
		return false
	}
	ok := false
	g := guardRun(pbTimeout, func() {
		if cl.preAuthor.ApplyChangePack(ra, true) != nil || cl.preShadow.ApplyChangePack(rs, true) != nil {
			return
		}
		ok = mergeTextNodes(cl.preAuthor.Marshal()) == mergeTextNodes(cl.preShadow.Marshal())
	})
	return !g.bad() && ok
}

// dedupOnly: the two Marshal() strings agree once every member that is a dedup counter with a
// non-empty sketch on the author is deleted, and there is one.
func (h *fuzzHist) dedupOnly(cl *fuzzClient, m1, m2 string) bool {
	keys := map[string]bool{}
	root := cl.doc.RootObject()
	visit := func(o *crdt.Object) {
		for k, e := range o.Members() {
			if cnt, ok := e.(*crdt.Counter); ok && cnt.IsDedup() {
				if v, ok := cnt.Value().(int32); ok && v != 0 {
					keys[k] = true
				}
			}
		}
	}
	visit(root)
	root.Descendants(func(e crdt.Element, _ crdt.Container) bool {
		if o, ok := e.(*crdt.Object); ok {
			visit(o)
		}
		return false
	})
	if len(keys) == 0 {
		return false
	}
	a, ok1 := stripKeysJSON(m1, keys)
	b, ok2 := stripKeysJSON(m2, keys)
	return ok1 && ok2 && a == b
}

// compareAuthor: the author's document (its own operations executed in memory) against its shadow
// (the same changes in the same order, all decoded from the wire).  Content is the oracle;
// bookkeeping that legitimately depends on the local/remote execution path is only counted.
func (h *fuzzHist) compareAuthor(c *Ctx, cl *fuzzClient) {
	c.Count("oracle-run:wire-vs-direct")
	d := cl.doc.InternalDocument()
	if m1, m2 := d.Marshal(), cl.shadow.Marshal(); m1 != m2 {
		if os.Getenv("PBFUZZ_DUMP") == "wire" && !h.dumped {
			h.dumped = true
			fmt.Fprintf(os.Stderr, "DUMP\nPACK %s\nDIRECT %s\nWIRE   %s\n", protoTextLong(h.lastPack), m1, m2)
		}
		if mergeTextNodes(m1) == mergeTextNodes(m2) {
			// same text, split into nodes at different places (a local edit splits at its boundaries
			// even when it neither inserts nor deletes; the remote path does not)
			c.Count("note:wire-vs-direct-text-node-boundaries-differ")
			return
		}
		what := "wire-vs-direct-marshal"
		switch {
		case h.dedupOnly(cl, m1, m2):
			// a Set/Add/ArraySet operation carries a dedup counter as JSONElementSimple: type + 4 value
			// bytes, no HLL registers; the receiver builds an empty sketch (value 0)
			what = "KNOWN[c09-dedup-counter-registers-not-in-operation-value] " + what
		case cl.silentUndo != "":
			// (never observed so far: reported untagged, with the evidence)
			what = what + " [an Undo/Redo call changed the author without emitting a change: " + cl.silentUndo + "]"
		case cl.firstBad != 0 && cl.firstBadByUndo:
			// the shadow stopped agreeing with the author exactly at a change emitted by Undo/Redo: what
			// the undo did locally and what the emitted change does when executed from the wire differ
			// (C14/C15)
			what = fmt.Sprintf("KNOWN[c15-undo-local-vs-remote-path] %s (first divergence at the undo/redo change clientSeq %d)", what, cl.firstBad)
		case cl.firstBad != 0:
			what = fmt.Sprintf("%s (first divergence at the ordinary local change clientSeq %d)", what, cl.firstBad)
		case h.purgeOnly(cl):
			// the two agree when the same response is applied to copies of both without the GC step, and
			// before the response a root held a tombstone registration whose createdAt belongs to a live
			// restored instance: GarbageCollect purges by createdAt and takes the live element with it
			// (the upstream-known "redo + peer GC deletes live key")
			what = "KNOWN[c15-gc-purges-element-restored-under-registered-createdat] " + what + " [stale before: " + strings.Join(cl.staleBefore, "; ") + "]"
		}
		h.mismatch(c, what, m1, m2)
		h.kill(c, "wire-vs-direct-mismatch")
		return
	}
	if fmt.Sprint(d.AllPresences()) != fmt.Sprint(cl.shadow.AllPresences()) {
		h.mismatch(c, "wire-vs-direct-presences", fmt.Sprint(d.AllPresences()), fmt.Sprint(cl.shadow.AllPresences()))
	}
	if d.GarbageLen() != cl.shadow.GarbageLen() {
		c.Count("note:wire-vs-direct-garbagelen-differs")
	}
	if d.DocSize() != cl.shadow.DocSize() {
		c.Count("note:wire-vs-direct-docsize-differs")
	}
}

// continuationOracle: a replica seeded from a snapshot taken in the middle of the log and a
// replica that replayed the log from the start must still agree after the rest of the log.  This
// is what makes an encoder-side drop of a field that only matters for *later* merges (ins_prev_id,
// split bookkeeping, position tickets) visible; the plain snapshot oracle cannot see it because
// encode(decode(encode x)) = encode x whatever the encoder forgets.  Restricted to the clean
// class without GC: with undo, moves or purges the known C02/C03/C15 defects decide the outcome.
func (h *fuzzHist) continuationOracle(c *Ctx) {
	if h.class != "A" || h.gc || len(h.logPB) < 6 {
		return
	}
	decode := func(pbs []*api.Change) ([]*change.Change, error) {
		var cl []*api.Change
		for _, p := range pbs {
			cl = append(cl, proto.Clone(p).(*api.Change))
		}
		return converter.FromChanges(cl)
	}
	cut := len(h.logPB)/3 + h.r.Intn(len(h.logPB)/3+1)
	full := document.NewInternalDocument(pbDocKey)
	var seeded *document.InternalDocument
	var e1, e2 error
	g := guardRun(pbTimeout, func() {
		pre, err := decode(h.logPB[:cut])
		if err != nil {
			e1 = err
			return
		}
		if _, _, e1 = full.ApplyChangesForReplay(pre...); e1 != nil {
			return
		}
		snap, err := converter.SnapshotToBytes(full.RootObject(), full.AllPresences())
		if err != nil {
			e1 = err
			return
		}
		seeded, e2 = document.NewInternalDocumentFromSnapshot(pbDocKey, int64(cut), full.Lamport(), full.VersionVector(), snap)
		if e2 != nil {
			return
		}
		rest1, err := decode(h.logPB[cut:])
		if err != nil {
			e1 = err
			return
		}
		rest2, _ := decode(h.logPB[cut:])
		_, _, e1 = full.ApplyChangesForReplay(rest1...)
		_, _, e2 = seeded.ApplyChangesForReplay(rest2...)
	})
	if g.bad() {
		c.Oracle("continuation after snapshot: %s", g.sig())
		return
	}
	c.Count("oracle-run:continuation")
	if e1 != nil || e2 != nil {
		if (e1 == nil) != (e2 == nil) {
			c.Oracle("continuation after a snapshot at change %d of %d: replayed replica err=%v, snapshot-seeded replica err=%v", cut, len(h.logPB), e1, e2)
		}
		return
	}
	if m1, m2 := full.Marshal(), seeded.Marshal(); mergeTextNodes(m1) != mergeTextNodes(m2) {
		if os.Getenv("PBFUZZ_DUMP") == "cont" {
			// find the first change after the cut at which the two replicas part
			f2 := document.NewInternalDocument(pbDocKey)
			pre, _ := decode(h.logPB[:cut])
			_, _, _ = f2.ApplyChangesForReplay(pre...)
			snap, _ := converter.SnapshotToBytes(f2.RootObject(), f2.AllPresences())
			s2, _ := document.NewInternalDocumentFromSnapshot(pbDocKey, int64(cut), f2.Lamport(), f2.VersionVector(), snap)
			for j := cut; j < len(h.logPB); j++ {
				a, _ := decode(h.logPB[j : j+1])
				b, _ := decode(h.logPB[j : j+1])
				before := f2.Marshal()
				_, _, _ = f2.ApplyChangesForReplay(a...)
				_, _, _ = s2.ApplyChangesForReplay(b...)
				if f2.Marshal() != s2.Marshal() {
					sp := &api.Snapshot{}
					_ = proto.Unmarshal(snap, sp)
					fmt.Fprintf(os.Stderr, "DUMP continuation: first divergence at change %d (cut %d)\nCHANGE %s\nBEFORE %s\nREPLAYED %s\nSEEDED   %s\nSNAPSHOT %s\n",
						j, cut, protoTextLong(h.logPB[j]), before, f2.Marshal(), s2.Marshal(), protoTextLong(sp))
					break
				}
			}
		}
		what := fmt.Sprintf("continuation-after-snapshot(cut %d of %d)", cut, len(h.logPB))
		if a, b := stripTreeMember(m1), stripTreeMember(m2); a != m1 && mergeTextNodes(a) == mergeTextNodes(b) {
			// the replicas differ inside the Tree only; locate the first change after the cut at which
			// they part and look at what it addresses in the seeded replica's tree just before it
			if why := h.treeContinuationEvidence(cut, decode); why != "" {
				what = "KNOWN[c02-tree-continuation-after-snapshot] " + what + " [" + why + "]"
			}
		}
		h.mismatch(c, what, m1, m2)
	}
}

// treeContinuationEvidence replays the continuation change by change and, at the first change
// where the replayed and the snapshot-seeded replica part, checks the two shapes the finding is
// about: (1) a tree operation of that change addresses (parent or left sibling of from/to) a node
// that is a tombstone in the seeded replica's tree; (2) the tree holds text that cannot be split
// at every UTF-16 offset (a character outside the BMP, or U+FFFD left by such a split).
func (h *fuzzHist) treeContinuationEvidence(cut int, decode func([]*api.Change) ([]*change.Change, error)) string {
	f2 := document.NewInternalDocument(pbDocKey)
	pre, err := decode(h.logPB[:cut])
	if err != nil {
		return ""
	}
	if _, _, err := f2.ApplyChangesForReplay(pre...); err != nil {
		return ""
	}
	snap, err := converter.SnapshotToBytes(f2.RootObject(), f2.AllPresences())
	if err != nil {
		return ""
	}
	s2, err := document.NewInternalDocumentFromSnapshot(pbDocKey, int64(cut), f2.Lamport(), f2.VersionVector(), snap)
	if err != nil {
		return ""
	}
	for j := cut; j < len(h.logPB); j++ {
		a, _ := decode(h.logPB[j : j+1])
		b, _ := decode(h.logPB[j : j+1])
		// the seeded replica's trees right before change j
		tombs := map[string]bool{}
		oddText := false
		if sb, err := converter.SnapshotToBytes(s2.RootObject(), s2.AllPresences()); err == nil {
			sp := &api.Snapshot{}
			_ = proto.Unmarshal(sb, sp)
			var walk func(e *api.JSONElement)
			walk = func(e *api.JSONElement) {
				switch body := e.GetBody().(type) {
				case *api.JSONElement_JsonObject:
					for _, n := range body.JsonObject.GetNodes() {
						walk(n.GetElement())
					}
				case *api.JSONElement_JsonArray:
					for _, n := range body.JsonArray.GetNodes() {
						if n.GetElement() != nil {
							walk(n.GetElement())
						}
					}
				case *api.JSONElement_Tree_:
					for _, n := range body.Tree.GetNodes() {
						if n.GetRemovedAt() != nil {
							tombs[pbTicketKey(n.GetId().GetCreatedAt())+":"+fmt.Sprint(n.GetId().GetOffset())] = true
						}
						for _, r := range n.GetValue() {
							if r >= 0x10000 || r == 0xFFFD {
								oddText = true
							}
						}
					}
				}
			}
			walk(sp.Root)
		}
		_, _, e1 := f2.ApplyChangesForReplay(a...)
		_, _, e2 := s2.ApplyChangesForReplay(b...)
		if e1 != nil || e2 != nil {
			return ""
		}
		if mergeTextNodes(f2.Marshal()) == mergeTextNodes(s2.Marshal()) {
			continue
		}
		// first divergence: what does change j address?
		idKey := func(id *api.TreeNodeID) string {
			return pbTicketKey(id.GetCreatedAt()) + ":" + fmt.Sprint(id.GetOffset())
		}
		treeOp := false
		for _, op := range h.logPB[j].Operations {
			var poss []*api.TreePos
			if te := op.GetTreeEdit(); te != nil {
				poss = append(poss, te.From, te.To)
				treeOp = true
			}
			if ts := op.GetTreeStyle(); ts != nil {
				poss = append(poss, ts.From, ts.To)
				treeOp = true
			}
			for _, p := range poss {
				for _, id := range []*api.TreeNodeID{p.GetParentId(), p.GetLeftSiblingId()} {
					if id != nil && tombs[idKey(id)] {
						return fmt.Sprintf("change %d: a tree operation addresses node %s, a tombstone in the seeded tree", j, idKey(id))
					}
				}
			}
		}
		if treeOp && oddText {
			return fmt.Sprintf("change %d: tree operation on a tree holding text outside the BMP / U+FFFD", j)
		}
		return ""
	}
	return ""
}

// stripTreeMember removes the value of the root member "r" (the Tree) from a Marshal() string.
func stripTreeMember(s string) string {
	i := strings.Index(s, `"r":{"type":"doc"`)
	if i < 0 {
		return s
	}
	depth, j, inStr := 0, i+4, false
	for ; j < len(s); j++ {
		ch := s[j]
		if inStr {
			if ch == '\\' {
				j++
			} else if ch == '"' {
				inStr = false
			}
			continue
		}
		switch ch {
		case '"':
			inStr = true
		case '{':
			depth++
		case '}':
			depth--
			if depth == 0 {
				return s[:i] + `"r":{}` + s[j+1:]
			}
		}
	}
	return s
}

// pbInitUpdate is the first change of every history (by the client with actor ..01): the shared
// containers, with fixed tickets 1:1 (o), 1:2 (a; elements 1:3..1:5), 1:6 (t; node 1:7), 1:8 (c),
// 1:9 (d), 1:10 (r; doc 1:10, p 1:11, "ab" 1:12, p 1:13, "cd" 1:14).
func pbInitUpdate(root *json.Object, p *presence.Presence) error {
	root.SetNewObject("o")
	root.SetNewArray("a").AddInteger(1, 2, 3)
	root.SetNewText("t").Edit(0, 0, "hello world")
	root.SetNewCounter("c", 0)
	root.SetNewDedupCounter("d")
	root.SetNewTree("r", pbTreeInit())
	p.Set("name", "\"zero\"")
	return nil
}

// initReplica is a server-side replica holding exactly the first change (context for the corpus
// witnesses `PB FromChangePack@init`).
func initReplica() *document.InternalDocument {
	var a time.ActorID
	a[11] = 1
	d := document.New(pbDocKey)
	d.SetActor(a)
	if err := d.Update(pbInitUpdate); err != nil {
		return nil
	}
	_, w, err := throughWire(d.CreateChangePack())
	if err != nil {
		return nil
	}
	r := document.NewInternalDocument(pbDocKey)
	if _, _, err := r.ApplyChangesForReplay(w.Changes...); err != nil {
		return nil
	}
	return r
}

func (h *fuzzHist) run(c *Ctx, steps int) {
	r := h.r
	n := len(h.clients)
	// client 0 creates the shared containers so that everybody edits the same identities
	g := guardRun(pbTimeout, func() {
		_ = h.clients[0].doc.Update(pbInitUpdate)
	})
	if g.bad() {
		h.kill(c, "init-panic: "+g.site)
		return
	}
	for i := 0; i < n && h.dead == ""; i++ {
		h.sync(c, i)
	}
	for s := 0; s < steps && h.dead == ""; s++ {
		i := r.Intn(n)
		switch x := r.Intn(100); {
		case x < 60:
			h.update(c, i)
		case x < 72 && (h.class == "B" || h.class == "D"):
			h.undo(c, i)
		case x < 72:
			h.update(c, i)
		default:
			h.sync(c, i)
		}
		if h.dead == "" {
			h.observe(h.clients[i].doc.RootObject())
			h.observe(h.sWire.RootObject())
		}
		if h.dead == "" && r.Intn(6) == 0 {
			d := h.clients[i].doc
			h.snapOracle(c, fmt.Sprintf("client%d", i), d.InternalDocument().Root(), d.AllPresences(), false)
		}
	}
	// quiesce and final oracles
	for round := 0; round < 2 && h.dead == ""; round++ {
		for i := 0; i < n && h.dead == ""; i++ {
			h.sync(c, i)
		}
	}
	if h.dead != "" {
		// the seeds collected so far are still real messages
		if len(h.seeds.snapshots) == 0 {
			h.snapOracle(c, "server", h.sWire.Root(), h.sWire.AllPresences(), true)
		}
		return
	}
	c.Count("history:completed:" + h.class)
	h.continuationOracle(c)
	for i, cl := range h.clients {
		h.snapOracle(c, fmt.Sprintf("client%d", i), cl.doc.InternalDocument().Root(), cl.doc.AllPresences(), i == 0)
	}
	h.snapOracle(c, "server", h.sWire.Root(), h.sWire.AllPresences(), true)
}

// ---------- malformed stream ----------

type pbFinding struct {
	decoder string
	sig     string
}

type pbMut struct {
	c      *Ctx
	r      *rand.Rand
	seeds  *pbSeeds
	seen   map[pbFinding]bool
	hangs  int
	accept int
	reject int
}

// pbStage is set by a decoder driver when it leaves the decoder proper and starts using what
// the decoder accepted (stage 2).  The harness is single threaded.
var pbStage string

func stage2() { pbStage = "use-of-accepted-value" }

// decoders over a protobuf message; each returns whether the input was accepted.
func decodePack(pb *api.ChangePack, pre *document.InternalDocument) func() bool {
	return func() bool {
		p, err := converter.FromChangePack(pb)
		if err != nil {
			return false
		}
		stage2()
		// what the server does with an accepted pack before executing it
		for _, ch := range p.Changes {
			if info, err := database.NewFromChange(pbRefKey, ch); err == nil {
				_, _ = info.ToChange()
			}
		}
		if pre != nil {
			d, err := pre.DeepCopy()
			if err == nil {
				if _, _, err := d.ApplyChangesForReplay(p.Changes...); err == nil {
					_ = d.Marshal()
					_ = d.GarbageLen()
					if b, err := converter.SnapshotToBytes(d.RootObject(), d.AllPresences()); err == nil {
						_, _, _ = converter.BytesToSnapshot(b)
					}
					_, _ = d.DeepCopy()
					mx := time.NewVersionVector()
					for a := range d.VersionVector() {
						mx[a] = math.MaxInt64
					}
					_, _ = d.GarbageCollect(mx)
				}
			}
		}
		return true
	}
}

func useObject(obj *crdt.Object) {
	_ = obj.Marshal()
	root := crdt.NewRoot(obj)
	_ = root.GarbageLen()
	_ = root.DocSize()
	if cp, err := root.DeepCopy(); err == nil {
		_ = cp.Object().Marshal()
	}
	if b, err := converter.ObjectToBytes(obj); err == nil {
		_, _ = converter.BytesToObject(b)
	}
}

func decodeSnapshotBytes(b []byte) func() bool {
	return func() bool {
		obj, pm, err := converter.BytesToSnapshot(b)
		if err != nil {
			return false
		}
		_ = pm.ToMap()
		stage2()
		{
			useObject(obj)
			// the server seeds a document from a stored snapshot like this
			if d, err := document.NewInternalDocumentFromSnapshot(pbDocKey, 1, 1, time.NewVersionVector(), b); err == nil {
				_ = d.Marshal()
			}
		}
		return true
	}
}

func decodeElementBytes(b []byte, which int) func() bool {
	return func() bool {
		switch which {
		case 0:
			o, err := converter.BytesToObject(b)
			if err != nil {
				return false
			}
			stage2()
			useObject(o)
		case 1:
			a, err := converter.BytesToArray(b)
			if err != nil {
				return false
			}
			stage2()
			_ = a.Marshal()
			_, _ = a.DeepCopy()
			_, _ = converter.ArrayToBytes(a)
		default:
			t, err := converter.BytesToTree(b)
			if err != nil {
				return false
			}
			stage2()
			_ = t.Marshal()
			_, _ = t.DeepCopy()
			_, _ = converter.TreeToBytes(t)
		}
		return true
	}
}

// mutateStoredInfo damages one yorkie-decoded payload inside a stored ChangeInfo document and
// re-frames the document correctly.
func mutateStoredInfo(raw []byte, r *rand.Rand) ([]byte, string, bool) {
	var d bson.D
	if err := bson.Unmarshal(raw, &d); err != nil {
		return nil, "", false
	}
	var cands []int
	for i, e := range d {
		switch e.Key {
		case "version_vector", "presence_change", "operations":
			cands = append(cands, i)
		}
	}
	if len(cands) == 0 {
		return nil, "", false
	}
	i := cands[r.Intn(len(cands))]
	kind := d[i].Key
	switch v := d[i].Value.(type) {
	case bson.Binary:
		nb, k := mutateBytes(v.Data, r)
		d[i].Value = bson.Binary{Subtype: v.Subtype, Data: nb}
		kind += ":" + k
	case bson.A:
		if len(v) == 0 {
			d[i].Value = bson.A{bson.Binary{Data: []byte{byte(r.Intn(256))}}}
			kind += ":added-blob"
			break
		}
		j := r.Intn(len(v))
		if bin, ok := v[j].(bson.Binary); ok {
			nb, k := mutateBytes(bin.Data, r)
			v[j] = bson.Binary{Subtype: bin.Subtype, Data: nb}
			kind += ":" + k
		}
	case nil:
		d[i].Value = bson.Binary{Data: []byte{byte(r.Intn(256)), byte(r.Intn(256))}}
		kind += ":null-to-bytes"
	default:
		return nil, "", false
	}
	out, err := bson.Marshal(d)
	if err != nil {
		return nil, "", false
	}
	return out, kind, true
}

// decodeBSON: a stored ChangeInfo document through the real mongo registry, then ToChange.
func decodeBSON(b []byte) func() bool {
	return func() bool {
		info := &database.ChangeInfo{}
		dec := bson.NewDecoder(bson.NewDocumentReader(bytes.NewReader(b)))
		dec.SetRegistry(pbRegistry)
		if err := dec.Decode(info); err != nil {
			return false
		}
		_, err := info.ToChange()
		return err == nil
	}
}

func (m *pbMut) report(decoder string, g guardResult, kinds []string, msg proto.Message, raw []byte,
	fails func(proto.Message) bool) {
	c := m.c
	if g.hang {
		m.hangs++
	}
	tag := ""
	if pbStage != "" {
		// the decoder returned normally; the crash is in code that consumes the accepted value
		decoder = pbStage + "(" + decoder + ")"
		tag = "KNOWN[c09-accepted-input-panics-later] "
	}
	f := pbFinding{decoder, g.sig()}
	c.Count("panic:" + decoder + ":" + g.site)
	if m.seen[f] {
		return
	}
	m.seen[f] = true
	text := ""
	if msg != nil {
		min := msg
		if fails != nil && !g.hang {
			min = shrinkMessage(msg, fails, 400)
		}
		b, _ := proto.Marshal(min)
		text = fmt.Sprintf("minimal message (%d bytes, hex %s): %s", len(b), showHex(b), protoText(min))
	} else {
		text = "input bytes: " + showHex(raw)
	}
	what := "panic"
	if g.hang {
		what = "hang (>60s)"
	}
	c.Oracle("%s", strings.ToValidUTF8(fmt.Sprintf("%s%s in %s at %s: %s; mutation=%s; %s", tag, what, decoder, g.site, g.value,
		strings.Join(kinds, "+"), text), "?"))
}

// one hostile input
func (m *pbMut) one() {
	r, s, c := m.r, m.seeds, m.c
	type job struct {
		name  string
		seed  proto.Message
		run   func(proto.Message) func() bool // decoder over the (wire-normal) message
		bytes func([]byte) func() bool        // decoder over raw bytes (nil: Unmarshal into seed type first)
	}
	var jobs []job
	if len(s.packs) > 0 {
		ps := s.packs[r.Intn(len(s.packs))]
		jobs = append(jobs, job{name: "FromChangePack", seed: ps.pb,
			run: func(x proto.Message) func() bool { return decodePack(x.(*api.ChangePack), ps.pre) }})
		jobs = append(jobs, job{name: "FromChangePack", seed: ps.pb,
			run: func(x proto.Message) func() bool { return decodePack(x.(*api.ChangePack), ps.pre) }})
	}
	if len(s.snapshots) > 0 {
		sn := s.snapshots[r.Intn(len(s.snapshots))]
		jobs = append(jobs, job{name: "BytesToSnapshot", seed: sn,
			run: func(x proto.Message) func() bool {
				b, _ := proto.Marshal(x)
				return decodeSnapshotBytes(b)
			},
			bytes: func(b []byte) func() bool { return decodeSnapshotBytes(b) }})
	}
	if len(s.elements) > 0 {
		el := s.elements[r.Intn(len(s.elements))]
		which := 0
		switch el.Body.(type) {
		case *api.JSONElement_JsonArray:
			which = 1
		case *api.JSONElement_Tree_:
			which = 2
		}
		if r.Intn(5) == 0 {
			which = r.Intn(3) // feed the wrong decoder
		}
		name := []string{"BytesToObject", "BytesToArray", "BytesToTree"}[which]
		jobs = append(jobs, job{name: name, seed: el,
			run: func(x proto.Message) func() bool {
				b, _ := proto.Marshal(x)
				return decodeElementBytes(b, which)
			},
			bytes: func(b []byte) func() bool { return decodeElementBytes(b, which) }})
	}
	if len(s.ops) > 0 {
		ops := s.ops[r.Intn(len(s.ops))]
		wrap := &api.Change{Operations: ops}
		jobs = append(jobs, job{name: "FromOperations", seed: wrap,
			run: func(x proto.Message) func() bool {
				return func() bool {
					_, err := converter.FromOperations(x.(*api.Change).Operations)
					return err == nil
				}
			}})
		jobs = append(jobs, job{name: "ChangeInfo.ToChange", seed: wrap,
			run: func(x proto.Message) func() bool {
				return func() bool {
					info := &database.ChangeInfo{ActorID: "000000000000000000000001", VersionVector: time.NewVersionVector()}
					for _, op := range x.(*api.Change).Operations {
						b, _ := proto.Marshal(op)
						info.Operations = append(info.Operations, b)
					}
					_, err := info.ToChange()
					return err == nil
				}
			}})
	}
	if len(s.vvs) > 0 {
		jobs = append(jobs, job{name: "FromVersionVector", seed: s.vvs[r.Intn(len(s.vvs))],
			run: func(x proto.Message) func() bool {
				return func() bool { _, err := converter.FromVersionVector(x.(*api.VersionVector)); return err == nil }
			}})
	}
	if len(s.presences) > 0 {
		jobs = append(jobs, job{name: "FromPresenceChange", seed: s.presences[r.Intn(len(s.presences))],
			run: func(x proto.Message) func() bool {
				return func() bool {
					_, err := converter.FromPresenceChange(x.(*api.PresenceChange))
					b, _ := proto.Marshal(x)
					_, err2 := database.PresenceChangeFromBytes(b)
					return err == nil && err2 == nil
				}
			},
			bytes: func(b []byte) func() bool {
				return func() bool { _, err := database.PresenceChangeFromBytes(b); return err == nil }
			}})
	}
	if len(s.trees) > 0 {
		tn := s.trees[r.Intn(len(s.trees))]
		jobs = append(jobs, job{name: "FromTreeNodes", seed: &api.TreeNodes{Content: tn},
			run: func(x proto.Message) func() bool {
				return func() bool {
					n, err := converter.FromTreeNodes(x.(*api.TreeNodes).Content)
					if err != nil {
						return false
					}
					stage2()
					if n != nil {
						_ = converter.ToTreeNodes(n)
						_, _ = converter.FromTreeNodesWhenEdit([]*api.TreeNodes{x.(*api.TreeNodes)})
					}
					return true
				}
			}})
	}
	if len(s.infos) > 0 && (r.Intn(8) == 0 || os.Getenv("PBFUZZ_BSON_ONLY") != "") {
		// stored BSON document of a ChangeInfo: the payloads yorkie's own registry decodes
		// (version_vector bytes, presence_change bytes, each operations[i] blob) are damaged, the
		// BSON framing is kept well-formed (MongoDB itself validates framing; the driver's
		// streaming reader allocates by declared length, up to 2 GiB per field, which would only
		// measure the third-party library and kill the harness)
		raw := s.infos[r.Intn(len(s.infos))]
		b, kind, ok := mutateStoredInfo(raw, r)
		if !ok {
			return
		}
		c.Count("mut:bson:" + kind)
		accepted := false
		pbStage = ""
		g := guardRun(pbTimeout, func() { accepted = decodeBSON(b)() })
		if g.bad() {
			m.report("bson", g, []string{kind}, nil, b, nil)
		} else if accepted {
			m.accept++
			c.Count("result:bson:accept")
		} else {
			m.reject++
			c.Count("result:bson:reject")
		}
		return
	}
	if len(jobs) == 0 {
		return
	}
	j := jobs[r.Intn(len(jobs))]
	if r.Intn(4) == 0 {
		// raw byte mutation of the marshalled seed
		sb, _ := proto.Marshal(j.seed)
		b, kind := mutateBytes(sb, r)
		c.Count("mut:" + kind)
		var f func() bool
		var msg proto.Message
		if j.bytes != nil {
			f = j.bytes(b)
		} else {
			msg = j.seed.ProtoReflect().New().Interface()
			if err := proto.Unmarshal(b, msg); err != nil {
				c.Count("result:" + j.name + ":unmarshal-reject")
				m.reject++
				return
			}
			f = j.run(msg)
		}
		acc := false
		pbStage = ""
		g := guardRun(pbTimeout, func() { acc = f() })
		if g.bad() {
			var fails func(proto.Message) bool
			if msg != nil {
				fails = func(x proto.Message) bool {
					y, _, ok := wireNormal(x)
					if !ok {
						return false
					}
					st := pbStage
					pbStage = ""
					g2 := guardRun(pbTimeout, func() { j.run(y)() })
					same := g2.bad() && g2.site == g.site && pbStage == st
					pbStage = st
					return same
				}
			}
			m.report(j.name, g, []string{kind}, msg, b, fails)
			return
		}
		if acc {
			m.accept++
			c.Count("result:" + j.name + ":accept")
		} else {
			m.reject++
			c.Count("result:" + j.name + ":reject")
		}
		return
	}
	mut, kinds := mutateMessage(j.seed, s.pool, r)
	for _, k := range kinds {
		c.Count("mut:" + k)
	}
	norm, _, ok := wireNormal(mut)
	if !ok {
		c.Count("result:" + j.name + ":not-marshallable")
		return
	}
	acc := false
	pbStage = ""
	g := guardRun(pbTimeout, func() { acc = j.run(norm)() })
	if g.bad() {
		fails := func(x proto.Message) bool {
			y, _, ok := wireNormal(x)
			if !ok {
				return false
			}
			st := pbStage
			pbStage = ""
			g2 := guardRun(pbTimeout, func() { j.run(y)() })
			same := g2.bad() && g2.site == g.site && pbStage == st
			pbStage = st
			return same
		}
		m.report(j.name, g, kinds, norm, nil, fails)
		return
	}
	if acc {
		m.accept++
		c.Count("result:" + j.name + ":accept")
	} else {
		m.reject++
		c.Count("result:" + j.name + ":reject")
	}
}

// ---------- engine ----------

func pbExec(c *Ctx, line string, st **fuzzHist, seen map[pbFinding]bool) {
	t := strings.Fields(line)
	switch {
	case t[0] == "HIST" && len(t) == 6:
		seed, _ := strconv.ParseInt(t[1], 10, 64)
		n, _ := strconv.Atoi(t[3])
		steps, _ := strconv.Atoi(t[4])
		h := newHist(seed, t[2], n, t[5] == "1")
		h.run(c, steps)
		*st = h
		c.Count("class:" + t[2])
	case t[0] == "PB" && len(t) == 3:
		// one fixed hostile input (corpus witnesses): PB <decoder> <hex>
		b, ok := parseHex(t[2])
		if !ok {
			return
		}
		m := &pbMut{c: c, r: rand.New(rand.NewSource(1)), seeds: &pbSeeds{pool: msgPool{}}, seen: seen}
		var f func() bool
		var msg proto.Message
		switch t[1] {
		case "FromChangePack", "FromChangePack@init":
			pb := &api.ChangePack{}
			if err := proto.Unmarshal(b, pb); err != nil {
				c.Count("result:PB:unmarshal-reject")
				return
			}
			msg = pb
			pre := document.NewInternalDocument(pbDocKey)
			if t[1] == "FromChangePack@init" {
				pre = initReplica()
			}
			f = decodePack(pb, pre)
		case "BytesToSnapshot":
			f = decodeSnapshotBytes(b)
		case "BytesToObject":
			f = decodeElementBytes(b, 0)
		case "BytesToArray":
			f = decodeElementBytes(b, 1)
		case "BytesToTree":
			f = decodeElementBytes(b, 2)
		case "bson":
			f = decodeBSON(b)
		default:
			return
		}
		acc := false
		pbStage = ""
		g := guardRun(pbTimeout, func() { acc = f() })
		if g.bad() {
			m.report(t[1], g, []string{"corpus"}, msg, b, nil)
			return
		}
		if acc {
			c.Count("result:PB:" + t[1] + ":accept")
		} else {
			c.Count("result:PB:" + t[1] + ":reject")
		}
		c.Nontrivial()
	case t[0] == "MUT" && len(t) == 3 && *st != nil:
		seed, _ := strconv.ParseInt(t[1], 10, 64)
		n, _ := strconv.Atoi(t[2])
		m := &pbMut{c: c, r: rand.New(rand.NewSource(seed)), seeds: (*st).seeds, seen: seen}
		for i := 0; i < n && m.hangs < 3; i++ {
			m.one()
		}
		if m.accept > 0 && m.reject > 0 {
			c.Nontrivial()
		}
	}
}

func runPbfuzz(c *Ctx) error {
	c.stats.Rule = "NO MODEL STREAM: the Lean engine `pbfuzz` prints nothing and so does this engine; HIST/MUT/PB command lines exist " +
		"only so that a trace replays without the generator (replay is exact up to Go map iteration order inside yorkie); everything is " +
		"decided by the oracle on the real code. Trace = one random multi-client history (2-3 document.Document replicas, 12-40 steps; " +
		"GC on in half of them - with GC off the documents keep GC enabled and receive an empty minimum vector; classes A 55% no undo/" +
		"move, B 20% undo/redo, C 12% array moves, D 13% text style+undo - the class only steers the generator, NO classification " +
		"consults it; every pack through ToChangePack/Marshal/Unmarshal/FromChangePack). Oracles: each author's document = its shadow " +
		"fed only from the wire, checked after every single local change (content, presences); server replica fed from the wire = " +
		"replica fed from stored ChangeInfo through the real BSON registry (content, GarbageLen, version vector, lamport, presences, " +
		"change ids); snapshot round trip judged item by item on three views - L the live root's registrations, G its object graph, " +
		"D the decoded graph - plus the two encodings (proto.Equal after canonical ordering) and Marshal(); class A without GC: " +
		"replica seeded from a mid-log snapshot = replayed replica after the rest of the log. Every differing item must satisfy the " +
		"evidence predicate of a listed finding (known_findings.json, field `predicate`); anything else is written untagged = " +
		"violation. Then a malformed stream of hostile inputs derived from that history's own messages (structural protobuf mutation " +
		"normalised through the wire + raw byte mutation) fed to FromChangePack, BytesToSnapshot, BytesToObject/Array/Tree, " +
		"FromOperations, ChangeInfo.ToChange (also from BSON documents with damaged payloads), FromVersionVector, FromPresenceChange/" +
		"PresenceChangeFromBytes, FromTreeNodes under recover()+timeout; stage 2 uses what a decoder accepted the way the server would " +
		"(execute on the pre-state replica, Marshal, DeepCopy, NewRoot, GC, re-encode). Non-trivial = the malformed stream of the " +
		"trace contains at least one accepted and one rejected input; distinct by trace hash"
	seen := map[pbFinding]bool{}
	var st *fuzzHist
	if c.Replay != nil {
		for _, l := range c.Replay {
			if strings.HasPrefix(l, "T ") {
				c.Trace(strings.TrimPrefix(l, "T "))
				st = nil
				continue
			}
			c.Cmd("%s", l)
			pbExec(c, l, &st, seen)
		}
		return nil
	}
	r := c.Rng
	nMut := 150
	if c.Tier == "thorough" {
		nMut = 600
	}
	defer func() {
		if slowCalls > 0 {
			c.stats.Dist["note:calls-slower-than-10s-but-finished"] = slowCalls
		}
	}()
	for i := 0; i < c.N; i++ {
		c.Trace(fmt.Sprintf("pbfuzz-%d-%d", c.Seed, i))
		class := "A"
		switch x := r.Intn(100); {
		case x < 55:
			class = "A"
		case x < 75:
			class = "B"
		case x < 87:
			class = "C"
		default:
			class = "D"
		}
		l := fmt.Sprintf("HIST %d %s %d %d %d", r.Int63n(1<<40), class, 2+r.Intn(2), 12+r.Intn(29), r.Intn(2))
		c.Cmd("%s", l)
		pbExec(c, l, &st, seen)
		l = fmt.Sprintf("MUT %d %d", r.Int63n(1<<40), nMut)
		c.Cmd("%s", l)
		pbExec(c, l, &st, seen)
	}
	return nil
}
