package main

// engine `pbfuzz`: protobuf-level codecs of C09 on the real code.  There is no Lean model of
// this stream: the commands (`HIST …`, `MUT …`) only make a trace replayable, the Lean engine
// of the same name answers every command with no output and this engine prints no
// observation line either, so the compared streams consist of the `T` lines only.  Everything
// is decided by the property oracle (c.Oracle) and reported in stats.
//
//	HIST <seed> <class> <clients> <steps> <gc>
//	    random multi-client history over real document.Document replicas and a small
//	    in-process change log; every pack travels ToChangePack → proto.Marshal →
//	    proto.Unmarshal → FromChangePack.  Oracles: wire replica ≡ direct replica ≡ replica
//	    fed from stored ChangeInfo (BSON round trip through the real mongo registry);
//	    BytesToSnapshot(SnapshotToBytes(root)) marshals identically, keeps GarbageLen, and
//	    re-encodes to an equal protobuf.
//	    class A: text styles, no undo, no array move
//	    class B: undo/redo (restore spans), no text style, no array move
//	    class C: array moves
//	    class D: text style + undo
//	    The class only steers the generator.  No classification consults it: a difference is tagged
//	    only when the evidence predicate of a listed finding holds (eng_pbfuzz_diff.go).
//	MUT <seed> <n>
//	    n hostile inputs derived from the messages of the history: structural protobuf
//	    mutation (nil-out / empty / foreign body for every message field, oneof body swap,
//	    repeated-field truncation/duplication/reorder, extreme ints, out-of-range enums, byte
//	    field damage, map key/value damage) normalised through the wire, plus raw byte
//	    mutation of the marshalled form; fed to the decoders under recover() + timeout.
//	    Stage 2 executes what the decoder accepted the way the server's background snapshot
//	    builder would (apply to the pre-state replica, Marshal, DeepCopy, re-encode).

import (
	"bytes"
	"fmt"
	"math"
	"math/rand"
	"os"
	"regexp"
	"sort"
	"strconv"
	"strings"
	gotime "time"
	"unicode/utf16"

	"go.mongodb.org/mongo-driver/v2/bson"
	"google.golang.org/protobuf/proto"

	"github.com/yorkie-team/yorkie/api/converter"
	"github.com/yorkie-team/yorkie/api/types"
	api "github.com/yorkie-team/yorkie/api/yorkie/v1"
	"github.com/yorkie-team/yorkie/pkg/document"
	"github.com/yorkie-team/yorkie/pkg/document/change"
	"github.com/yorkie-team/yorkie/pkg/document/crdt"
	"github.com/yorkie-team/yorkie/pkg/document/json"
	"github.com/yorkie-team/yorkie/pkg/document/operations"
	"github.com/yorkie-team/yorkie/pkg/document/presence"
	innerpresence "github.com/yorkie-team/yorkie/pkg/document/presence/inner"
	"github.com/yorkie-team/yorkie/pkg/document/time"
	"github.com/yorkie-team/yorkie/pkg/key"
	"github.com/yorkie-team/yorkie/server/backend/database"
	"github.com/yorkie-team/yorkie/server/backend/database/mongo"
)

func init() { register("pbfuzz", runPbfuzz) }

const pbTimeout = 10 * gotime.Second

var (
	pbDocKey   = key.Key("pbfuzz-doc")
	pbRefKey   = types.DocRefKey{ProjectID: "000000000000000000000001", DocID: "000000000000000000000002"}
	pbRegistry = mongo.NewRegistryBuilder()
)

// ---------- seeds collected from a history ----------

type packSeed struct {
	pb  *api.ChangePack
	pre *document.InternalDocument // server replica before the pack (for stage 2); may be nil
}

type pbSeeds struct {
	packs     []packSeed
	snapshots []*api.Snapshot
	elements  []*api.JSONElement
	ops       [][]*api.Operation
	vvs       []*api.VersionVector
	presences []*api.PresenceChange
	trees     [][]*api.TreeNode
	infos     [][]byte // BSON of stored ChangeInfo
	pool      msgPool
}

// ---------- history ----------

type fuzzClient struct {
	doc    *document.Document
	actor  time.ActorID
	lastVV time.VersionVector
	// shadow receives exactly the changes doc executes, in the same order, but every one of them
	// (the client's own included) decoded from the wire: doc = "p applied directly" (the author
	// executes its own operations in memory), shadow = "FromChangePack(ToChangePack(p)) applied"
	shadow *document.InternalDocument
	// Marshal() of the author right after producing the local change with a given clientSeq, and
	// which of those changes were emitted by Undo/Redo
	states   map[uint32]string
	idents   map[uint32]string
	orders   map[uint32]string
	undoSeqs map[uint32]bool
	// first local change after which the shadow stopped agreeing with the recorded author state
	staleBefore    []string
	staleKeys      map[string]bool
	silentUndo     string
	preAuthor      *document.InternalDocument
	preShadow      *document.InternalDocument
	preResp        *api.ChangePack
	firstBad       uint32
	firstBadByUndo bool
	// same for the set of element identities (createdAt keys) in the graph
	firstIdentBad       uint32
	firstIdentBadByUndo bool
	// same for what Marshal() does not show: the node order inside Text / Tree elements, tombstones
	// included (nodeOrder), and the removedAt of element tombstones (tombstones)
	firstOrderBad       uint32
	firstOrderBadByUndo bool
	// clientSeq of the last local change whose operations were looked at one by one (observePending)
	pendingObserved uint32
}

type fuzzHist struct {
	r       *rand.Rand
	class   string
	gc      bool
	clients []*fuzzClient
	log     []*change.Change // wire-decoded, server seq set
	logPB   []*api.Change    // the same changes as protobuf (fresh decodes for the continuation oracle)
	sWire   *document.InternalDocument
	sStore  *document.InternalDocument
	// sObs takes no part in any oracle: it executes the log one OPERATION at a time (server order) and
	// is looked at after each, so that evidence which exists only between two operations of one change
	// (an attribute-tombstone id carried by two owners) is seen
	sObs     *document.InternalDocument
	seeds    *pbSeeds
	dead     string
	styled   bool // a text Style happened
	moved    bool
	undone   bool
	dumped   bool
	lastPack *api.ChangePack
	// createdAt keys of array elements replaced through Array.Set* (ArraySet), per history
	replaced map[string]bool
	// createdAt keys of values restored by undo/redo under their old identity; of text/tree nodes
	// named by restore spans
	restoredVals  map[string]bool
	restoredNodes map[string]bool
	// attribute-tombstone ids seen on more than one owner at some observed point
	sharedIDs map[string]bool
	// GC off: elements that left a client's graph (createdAt key -> how)
	vanished map[string]string
	// the HIST line that generated this history (debug aid)
	line string
	// style operations seen: "<container createdAt key>/<attribute key>" -> tickets of the operations
	// that SET the attribute; executedAt key -> ticket of the operations that REMOVE attributes
	styleSets    map[string][]*time.Ticket
	styleRemoves map[string]*time.Ticket
	// "<container createdAt key>/<attribute key>" -> tickets of the operations that REMOVE the attribute
	styleRems map[string][]*time.Ticket
	// createdAt key -> createdAt key of the container an element was seen in at some observed point
	parentOf map[string]string
}

func newHist(seed int64, class string, nClients int, gc bool) *fuzzHist {
	h := &fuzzHist{r: rand.New(rand.NewSource(seed)), class: class, gc: gc,
		sWire:  document.NewInternalDocument(pbDocKey),
		sStore: document.NewInternalDocument(pbDocKey), sObs: document.NewInternalDocument(pbDocKey), seeds: &pbSeeds{pool: msgPool{}}, replaced: map[string]bool{}, restoredVals: map[string]bool{}, restoredNodes: map[string]bool{}, sharedIDs: map[string]bool{}, vanished: map[string]string{},
		styleSets: map[string][]*time.Ticket{}, styleRemoves: map[string]*time.Ticket{}, styleRems: map[string][]*time.Ticket{}, parentOf: map[string]string{}}
	for i := 0; i < nClients; i++ {
		var a time.ActorID
		a[11] = byte(i + 1)
		if i == 1 {
			a[0] = 0xff // an actor that sorts last bytewise
		}
		d := document.New(pbDocKey)
		d.SetActor(a)
		go func() {
			for range d.Events() {
			}
		}()
		sh := document.NewInternalDocument(pbDocKey)
		h.clients = append(h.clients, &fuzzClient{doc: d, actor: a, lastVV: time.NewVersionVector(), shadow: sh,
			states: map[uint32]string{}, idents: map[uint32]string{}, orders: map[uint32]string{}, undoSeqs: map[uint32]bool{}})
	}
	return h
}

var pbWords = []string{"a", "bc", "hello", "wörld", "한글", "\U0001F600", "x y", "\"q\"", "\\", "line\nbreak", "", "0"}

func (h *fuzzHist) word() string { return pbWords[h.r.Intn(len(pbWords))] }

func (h *fuzzHist) attrs() map[string]string {
	m := map[string]string{}
	for _, k := range []string{"b", "i", "color"} {
		if h.r.Intn(2) == 0 {
			m[k] = []string{"1", "true", "\"red\"", ""}[h.r.Intn(4)]
		}
	}
	if len(m) == 0 {
		m["b"] = "1"
	}
	return m
}

// astralAsReplacement replaces every character outside the BMP by two U+FFFD.
func astralAsReplacement(s string) string {
	var b strings.Builder
	for _, c := range s {
		if c >= 0x10000 {
			b.WriteString("\uFFFD\uFFFD")
		} else {
			b.WriteRune(c)
		}
	}
	return b.String()
}

// snapU16 moves a UTF-16 offset that falls inside a surrogate pair down to the pair's start.
func snapU16(s string, off int) int {
	n := 0
	for _, c := range s {
		w := 1
		if c >= 0x10000 {
			w = 2
		}
		if off > n && off < n+w {
			return n
		}
		n += w
	}
	return off
}

func u16len(s string) int {
	n := 0
	for _, c := range s {
		if c >= 0x10000 {
			n += 2
		} else {
			n++
		}
	}
	return n
}

func (h *fuzzHist) setPrim(o *json.Object, k string) {
	r := h.r
	switch r.Intn(9) {
	case 0:
		o.SetNull(k)
	case 1:
		o.SetBool(k, r.Intn(2) == 0)
	case 2:
		o.SetInteger(k, []int{0, -1, math.MaxInt32, math.MinInt32, r.Intn(1000)}[r.Intn(5)])
	case 3:
		o.SetLong(k, []int64{math.MaxInt64, math.MinInt64, 1 << 40, int64(r.Intn(100))}[r.Intn(4)])
	case 4:
		o.SetDouble(k, []float64{0, -0.5, 1e300, math.Inf(1), 3.25}[r.Intn(5)])
	case 5:
		o.SetString(k, h.word())
	case 6:
		o.SetBytes(k, []byte(h.word()))
	case 7:
		o.SetDate(k, gotime.UnixMilli(int64(r.Intn(2000000000))*1000).UTC())
	case 8:
		o.SetInteger(k, math.MaxInt32+1+r.Intn(3)) // Go int beyond int32 → Long
	}
}

func (h *fuzzHist) addElem(a *json.Array) {
	r := h.r
	switch r.Intn(10) {
	case 0:
		a.AddNull()
	case 1:
		a.AddBool(true)
	case 2, 3:
		a.AddInteger(r.Intn(100))
	case 4:
		a.AddString(h.word())
	case 5:
		a.AddNewObject().SetInteger("n", r.Intn(9))
	case 6:
		a.AddNewArray().AddInteger(1, 2)
	case 7:
		a.AddNewText().Edit(0, 0, h.word())
	case 8:
		a.AddNewCounter(crdt.LongCnt, int64(r.Intn(5)))
	case 9:
		a.AddDouble(1.5).AddLong(7).AddBytes([]byte{0, 1})
	}
}

func pbTreeInit() json.TreeNode {
	return json.TreeNode{Type: "doc", Children: []json.TreeNode{
		{Type: "p", Children: []json.TreeNode{{Type: "text", Value: "ab"}}},
		{Type: "p", Attributes: map[string]string{"k": "v"}, Children: []json.TreeNode{{Type: "text", Value: "cd"}}},
	}}
}

// edit performs one random edit on the document of a client.
// treeSplitEdit (class E): tree edits that SPLIT (splitLevel 1 or 2) and insert content in the same
// operation - the originating replica issues the tickets of the split-off elements and ships them
// (split_tickets); a receiver that had to reconstruct them would give the new elements other ids -
// followed by edits addressed inside the split-off element.  Invalid positions make the updater fail
// and abandon the history.
func (h *fuzzHist) treeSplitEdit(root *json.Object) {
	r := h.r
	t := root.GetTree("r")
	if t == nil {
		root.SetNewTree("r", pbTreeInit())
		return
	}
	n := t.Len()
	if n < 4 {
		t.Edit(0, 0, &json.TreeNode{Type: "p", Children: []json.TreeNode{{Type: "text", Value: "zz"}}}, 0)
		return
	}
	switch x := r.Intn(10); {
	case x < 3:
		// split the paragraph and put text at the split point
		i := 1 + r.Intn(n-1)
		t.Edit(i, i, &json.TreeNode{Type: "text", Value: "q"}, 1)
	case x < 5:
		// split and put an element with a child in between
		i := 1 + r.Intn(n-1)
		t.Edit(i, i, &json.TreeNode{Type: "i", Children: []json.TreeNode{{Type: "text", Value: "cd"}}}, 1)
	case x < 6:
		// something two levels deep, so that splitLevel 2 has two elements to split
		t.Edit(0, 0, &json.TreeNode{Type: "p", Children: []json.TreeNode{{Type: "b", Children: []json.TreeNode{{Type: "text", Value: "xyz"}}}}}, 0)
	case x < 7:
		i := 1 + r.Intn(n-1)
		t.Edit(i, i, &json.TreeNode{Type: "text", Value: "w"}, 2)
	case x < 9:
		// just in front of the closing tag of the last top-level element (the split-off element when the
		// last edit split there)
		t.Edit(n-1, n-1, &json.TreeNode{Type: "text", Value: "!"}, 0)
	default:
		t.Style(0, 1+r.Intn(n-1), h.attrs())
	}
}

func (h *fuzzHist) edit(root *json.Object, p *presence.Presence, actor string) {
	r := h.r
	if h.class == "E" && r.Intn(100) < 55 {
		h.treeSplitEdit(root)
		return
	}
	switch k := r.Intn(100); {
	case k < 12:
		h.setPrim(root, fmt.Sprintf("k%d", r.Intn(4)))
	case k < 16:
		root.Delete(fmt.Sprintf("k%d", r.Intn(4)))
	case k < 26:
		o := root.GetObject("o")
		if o == nil {
			o = root.SetNewObject("o")
		}
		switch r.Intn(5) {
		case 0, 1:
			h.setPrim(o, fmt.Sprintf("x%d", r.Intn(3)))
		case 2:
			o.Delete(fmt.Sprintf("x%d", r.Intn(3)))
		case 3:
			n := o.GetObject("n")
			if n == nil {
				n = o.SetNewObject("n")
			}
			h.setPrim(n, "y")
		case 4:
			if r.Intn(4) == 0 {
				root.Delete("o")
			} else {
				o.SetNewArray("na").AddInteger(1)
			}
		}
	case k < 46:
		a := root.GetArray("a")
		if a == nil {
			a = root.SetNewArray("a")
			a.AddInteger(1, 2, 3)
			return
		}
		n := a.Len()
		switch x := r.Intn(10); {
		case x < 3 || n == 0:
			h.addElem(a)
		case x < 5:
			a.InsertIntegerAfter(r.Intn(n), 100+r.Intn(100))
		case x < 7:
			a.Delete(r.Intn(n))
		case x < 8:
			i := r.Intn(n)
			h.replaced[a.Get(i).CreatedAt().Key()] = true
			a.SetInteger(i, 500+r.Intn(100))
		default:
			if h.class == "C" && n >= 2 {
				h.moved = true
				switch r.Intn(3) {
				case 0:
					i, j := r.Intn(n), r.Intn(n)
					if i != j {
						a.MoveAfterByIndex(i, j)
					}
				case 1:
					a.MoveFront(a.Get(r.Intn(n)).CreatedAt())
				case 2:
					a.MoveLast(a.Get(r.Intn(n)).CreatedAt())
				}
			} else {
				h.addElem(a)
			}
		}
	case k < 66:
		t := root.GetText("t")
		if t == nil {
			root.SetNewText("t").Edit(0, 0, "hello")
			return
		}
		str := t.String()
		n := u16len(str)
		from := r.Intn(n + 1)
		to := from + r.Intn(n-from+1)
		// never inside a surrogate pair: splitting a text node there replaces the character by two
		// U+FFFD on that replica only (a C07 matter, not a codec one); the PRNG stream is unchanged
		if os.Getenv("PBFUZZ_NOSNAP") == "" {
			from, to = snapU16(str, from), snapU16(str, to)
		}
		switch x := r.Intn(10); {
		case x < 4:
			t.Edit(from, from, h.word())
		case x < 6:
			t.Edit(from, to, h.word())
		case x < 7:
			t.Edit(from, to, "")
		case x < 8:
			t.Edit(from, to, h.word(), h.attrs())
		default:
			if (h.class == "A" || h.class == "D") && to > from {
				h.styled = true
				t.Style(from, to, h.attrs())
			} else {
				t.Edit(from, from, h.word())
			}
		}
	case k < 74:
		c := root.GetCounter("c")
		if c == nil {
			root.SetNewCounter("c", []any{0, int64(0), math.MaxInt32 - 1, int64(math.MaxInt64 - 1)}[r.Intn(4)])
			return
		}
		switch r.Intn(4) {
		case 0:
			c.Increase(1)
		case 1:
			c.Increase(-3)
		case 2:
			c.Increase(int64(1) << 33)
		case 3:
			c.Increase(2.5)
		}
	case k < 79:
		d := root.GetCounter("d")
		if d == nil {
			root.SetNewDedupCounter("d")
			return
		}
		d.Add(fmt.Sprintf("user-%d", r.Intn(6)))
	case k < 94:
		t := root.GetTree("r")
		if t == nil {
			init := pbTreeInit()
			root.SetNewTree("r", init)
			return
		}
		n := t.Len()
		if n < 2 {
			t.Edit(0, 0, &json.TreeNode{Type: "p", Children: []json.TreeNode{{Type: "text", Value: "z"}}}, 0)
			return
		}
		// candidate edits; invalid indexes panic inside the updater and abandon the history
		switch x := r.Intn(10); {
		case x < 3:
			i := 1 + r.Intn(n-1)
			t.Edit(i, i, &json.TreeNode{Type: "text", Value: h.word() + "t"}, 0)
		case x < 4:
			t.Edit(0, 0, &json.TreeNode{Type: "p", Attributes: map[string]string{"a": "1"},
				Children: []json.TreeNode{{Type: "text", Value: "n"}}}, 0)
		case x < 6:
			i := 1 + r.Intn(n-1)
			j := i + r.Intn(min(3, n-i))
			t.Edit(i, j, nil, 0)
		case x < 7:
			i := 1 + r.Intn(n-1)
			t.Edit(i, i, nil, 1) // split
		case x < 9:
			t.Style(0, 1+r.Intn(n-1), h.attrs())
		default:
			t.RemoveStyle(0, 1+r.Intn(n-1), []string{"b", "k"})
		}
	default:
		p.Set([]string{"cursor", "name"}[r.Intn(2)], strconv.Quote(h.word()))
	}
}

func (h *fuzzHist) kill(c *Ctx, why string) {
	if h.dead == "" {
		h.dead = why
		if len(why) > 60 {
			why = why[:60]
		}
		c.Count("history:abandoned:" + why)
	}
}

func (h *fuzzHist) update(c *Ctx, i int) {
	cl := h.clients[i]
	var err error
	g := guardRun(pbTimeout, func() {
		err = cl.doc.Update(func(root *json.Object, p *presence.Presence) error {
			for k := 1 + h.r.Intn(3); k > 0; k-- {
				h.edit(root, p, cl.actor.String())
			}
			return nil
		})
	})
	switch {
	case g.bad():
		// a panic inside an editing API (index out of range for a concurrent tree shape, …) is not
		// a codec matter: abandon the history
		h.kill(c, "update-panic: "+g.site)
	case err != nil:
		h.kill(c, "update-error")
	default:
		c.Count("step:update")
		h.record(cl, false)
	}
}

// identities is the sorted list of createdAt keys of every element reachable in a graph.
func identities(root *crdt.Object) string {
	var ks []string
	root.Descendants(func(e crdt.Element, _ crdt.Container) bool {
		ks = append(ks, e.CreatedAt().Key())
		return false
	})
	sort.Strings(ks)
	return strings.Join(ks, ",")
}

// nodeOrder lists, for every Text and Tree in a graph, the sequence of its nodes INCLUDING tombstones
// (createdAt, offset range, removed or not); contiguous pieces of one inserted run are merged, so where
// a run happens to be split does not show.  Two replicas with equal Marshal() can differ here (the
// order of tombstones is invisible until something un-tombstones them).
func nodeOrder(root *crdt.Object) string {
	var parts []string
	root.Descendants(func(e crdt.Element, _ crdt.Container) bool {
		type run struct {
			key      string
			from, to int
			removed  bool
			attrs    string
		}
		var runs []run
		add := func(key string, off, n int, removed bool, attrs string) {
			if k := len(runs) - 1; k >= 0 && runs[k].key == key && runs[k].to == off && runs[k].removed == removed && runs[k].attrs == attrs {
				runs[k].to = off + n
				return
			}
			runs = append(runs, run{key, off, off + n, removed, attrs})
		}
		// the attribute table of a node WITH its tombstones and tickets (an attribute tombstone decides
		// whether a concurrent older Style of a peer takes effect, and does not show in Marshal())
		sig := func(rht *crdt.RHT) string {
			if rht == nil {
				return ""
			}
			var l []string
			for _, a := range rht.Nodes() {
				v := "=" + a.Value()
				if a.IsRemoved() {
					v = " removed"
				}
				l = append(l, a.Key()+v+"@"+a.UpdatedAt().ToTestString())
			}
			if len(l) == 0 {
				return "" // no table and an empty table are the same thing
			}
			sort.Strings(l)
			return "{" + strings.Join(l, ",") + "}"
		}
		switch x := e.(type) {
		case *crdt.Text:
			for _, n := range x.Nodes() {
				if n.Value() == nil {
					continue
				}
				add(n.ID().CreatedAt().Key(), n.ID().Offset(), n.Value().Len(), n.RemovedAt() != nil, sig(n.Value().Attrs()))
			}
		case *crdt.Tree:
			for _, n := range x.Nodes() {
				l := 1
				if n.IsText() {
					l = len(utf16.Encode([]rune(n.Value)))
				}
				add(n.ID().CreatedAt.Key(), n.ID().Offset, l, n.RemovedAt() != nil, sig(n.Attrs))
			}
		default:
			return false
		}
		var b strings.Builder
		b.WriteString(e.CreatedAt().Key() + "=")
		for _, r := range runs {
			fmt.Fprintf(&b, "%s[%d,%d)%v%s ", r.key, r.from, r.to, r.removed, r.attrs)
		}
		parts = append(parts, b.String())
		return false
	})
	sort.Strings(parts)
	return strings.Join(parts, "\n")
}

// tombstones lists the removed elements of a graph with their removedAt (invisible in Marshal()).
func tombstones(root *crdt.Object) string {
	var ks []string
	root.Descendants(func(e crdt.Element, _ crdt.Container) bool {
		if e.RemovedAt() != nil {
			ks = append(ks, e.CreatedAt().Key()+"@"+e.RemovedAt().Key())
		}
		return false
	})
	sort.Strings(ks)
	return strings.Join(ks, ",")
}

// record keeps what the author shows right after its newest local change.
func (h *fuzzHist) record(cl *fuzzClient, byUndo bool) {
	pk := cl.doc.CreateChangePack()
	if n := len(pk.Changes); n > 0 {
		cs := pk.Changes[n-1].ClientSeq()
		cl.states[cs] = cl.doc.Marshal()
		cl.idents[cs] = identities(cl.doc.RootObject())
		cl.orders[cs] = nodeOrder(cl.doc.RootObject()) + "\n" + tombstones(cl.doc.RootObject())
		if byUndo {
			cl.undoSeqs[cs] = true
		}
	}
}

func (h *fuzzHist) undo(c *Ctx, i int) {
	cl := h.clients[i]
	var err error
	before, nBefore := cl.doc.Marshal(), len(cl.doc.CreateChangePack().Changes)
	g := guardRun(pbTimeout, func() {
		if h.r.Intn(3) == 0 && cl.doc.CanRedo() {
			err = cl.doc.Redo()
		} else if cl.doc.CanUndo() {
			err = cl.doc.Undo()
		}
	})
	switch {
	case g.bad():
		h.kill(c, "undo-panic: "+g.site)
	case err != nil:
		h.kill(c, "undo-error")
	default:
		h.undone = true
		c.Count("step:undo")
		if os.Getenv("PBFUZZ_DUMP") == "undo" {
			pk := cl.doc.CreateChangePack()
			fmt.Fprintf(os.Stderr, "UNDO client=%d pending %d -> %d\n  before %s\n  after  %s\n", i, nBefore, len(pk.Changes), before, cl.doc.Marshal())
			if len(pk.Changes) > nBefore {
				pb, _ := converter.ToChanges(pk.Changes[nBefore:])
				for _, x := range pb {
					fmt.Fprintf(os.Stderr, "  emitted %s\n", protoTextLong(x))
				}
			}
		}
		if after := cl.doc.Marshal(); mergeTextNodes(after) != mergeTextNodes(before) && len(cl.doc.CreateChangePack().Changes) == nBefore {
			// the undo/redo changed what the author shows and added no local change: nothing will
			// ever tell the peers (or the author's wire shadow)
			cl.silentUndo = firstDiff(before, after)
			c.Count("note:undo-changed-document-without-emitting-a-change")
		}
		h.record(cl, true)
	}
}

// throughWire converts a pack to protobuf, to bytes and back.
func throughWire(p *change.Pack) (*api.ChangePack, *change.Pack, error) {
	pb, err := converter.ToChangePack(p)
	if err != nil {
		return nil, nil, fmt.Errorf("ToChangePack: %w", err)
	}
	b, err := proto.Marshal(pb)
	if err != nil {
		return nil, nil, fmt.Errorf("Marshal: %w", err)
	}
	pb2 := &api.ChangePack{}
	if err := proto.Unmarshal(b, pb2); err != nil {
		return nil, nil, fmt.Errorf("Unmarshal: %w", err)
	}
	out, err := converter.FromChangePack(pb2)
	if err != nil {
		return pb2, nil, fmt.Errorf("FromChangePack: %w", err)
	}
	return pb2, out, nil
}

// storedRoundTrip sends a change through database.ChangeInfo and BSON (real mongo registry).
func storedRoundTrip(ch *change.Change) (*change.Change, []byte, error) {
	info, err := database.NewFromChange(pbRefKey, ch)
	if err != nil {
		return nil, nil, fmt.Errorf("NewFromChange: %w", err)
	}
	info.ID = "000000000000000000000003"
	var buf bytes.Buffer
	enc := bson.NewEncoder(bson.NewDocumentWriter(&buf))
	enc.SetRegistry(pbRegistry)
	if err := enc.Encode(info); err != nil {
		return nil, nil, fmt.Errorf("bson encode: %w", err)
	}
	raw := append([]byte{}, buf.Bytes()...)
	info2 := &database.ChangeInfo{}
	dec := bson.NewDecoder(bson.NewDocumentReader(bytes.NewReader(raw)))
	dec.SetRegistry(pbRegistry)
	if err := dec.Decode(info2); err != nil {
		return nil, raw, fmt.Errorf("bson decode: %w", err)
	}
	out, err := info2.ToChange()
	if err != nil {
		return nil, raw, fmt.Errorf("ToChange: %w", err)
	}
	return out, raw, nil
}

var knownWritten = map[string]int{}

var reTextJoin = regexp.MustCompile(`\{"val":"((?:[^"\\]|\\.)*)"\},\{"val":"((?:[^"\\]|\\.)*)"\}`)

// mergeTextNodes joins adjacent text nodes that carry the same attributes in a Marshal() string
// (where a text is split into nodes is not content).  Falls back to joining attribute-less nodes
// textually when the string does not parse as JSON.
func mergeTextNodes(s string) string {
	if out, ok := mergeTextNodesJSON(s); ok {
		return out
	}
	for {
		t := reTextJoin.ReplaceAllString(s, `{"val":"$1$2"}`)
		if t == s {
			return s
		}
		s = t
	}
}

// mismatch reports a difference, classified against the two known C02 defects by the class of
// the history **and** the shape of the difference.
func (h *fuzzHist) mismatch(c *Ctx, what, a, b string) {
	tag := ""
	if strings.HasPrefix(what, "KNOWN[") {
		k := strings.Index(what, "] ")
		tag, what = what[:k+2], what[k+2:]
	}
	// show a window around the first difference
	i := 0
	for i < len(a) && i < len(b) && a[i] == b[i] {
		i++
	}
	win := func(x string) string {
		lo, hi := max(0, i-260), min(len(x), i+260)
		pre, post := "", ""
		if lo > 0 {
			pre = "…"
		}
		if hi < len(x) {
			post = "…"
		}
		return pre + x[lo:hi] + post
	}
	a, b = win(a), win(b)
	cw := what
	if k := strings.Index(cw, " ("); k > 0 {
		cw = cw[:k]
	}
	if k := strings.Index(cw, " ["); k > 0 {
		cw = cw[:k]
	}
	if k := strings.Index(cw, "("); k > 0 {
		cw = cw[:k]
	}
	c.Count("oracle:" + strings.TrimSpace(tag) + cw)
	if tag != "" {
		// a known finding is written out a few times per run and counted afterwards
		knownWritten[tag]++
		if knownWritten[tag] > 3 {
			return
		}
	}
	c.Oracle("%s", strings.ToValidUTF8(fmt.Sprintf("%s%s: expected %s got %s", tag, what, a, b), "?"))
}

// observeByOperation executes changes on d one OPERATION at a time and looks at d after each
// (evidence only; d takes no part in any oracle).
func (h *fuzzHist) observeByOperation(d *document.InternalDocument, changes []*change.Change) bool {
	for _, ch := range changes {
		ops := ch.Operations()
		if len(ops) <= 1 {
			if _, _, e := d.ApplyChangesForReplay(ch); e != nil {
				return false
			}
			h.observe(d.RootObject())
			continue
		}
		for i, op := range ops {
			var pc *innerpresence.Change
			if i == 0 {
				pc = ch.PresenceChange()
			}
			sub := change.New(ch.ID(), ch.Message(), []operations.Operation{op}, pc)
			if _, _, e := d.ApplyChangesForReplay(sub); e != nil {
				return false
			}
			h.observe(d.RootObject())
		}
	}
	return true
}

// observePending: local changes a client has not pushed yet, one operation at a time on a copy of the
// client's shadow (fresh decodes from the wire: nothing is shared with the author's document).
func (h *fuzzHist) observePending() {
	for _, cl := range h.clients {
		pack := cl.doc.CreateChangePack()
		if len(pack.Changes) == 0 {
			continue
		}
		last := pack.Changes[len(pack.Changes)-1].ClientSeq()
		if cl.pendingObserved >= last {
			continue
		}
		cl.pendingObserved = last
		_, w, err := throughWire(pack)
		if err != nil {
			continue
		}
		d, err := cl.shadow.DeepCopy()
		if err != nil {
			continue
		}
		guardRun(pbTimeout, func() { h.observeByOperation(d, w.Changes) })
	}
}

// snapOracle: BytesToSnapshot(SnapshotToBytes(root)) marshals identically, keeps GarbageLen and
// presences, and re-encodes to an equal protobuf.  Differences are classified against the
// known CRDT-layer defects by their *shape* (see classify below); anything else is a violation.
func (h *fuzzHist) snapOracle(c *Ctx, who string, live *crdt.Root, pres map[string]presence.Data, collect bool) {
	root := live.Object()
	garbage := live.GarbageLen()
	var b []byte
	var err error
	g := guardRun(pbTimeout, func() {
		b, err = converter.SnapshotToBytes(root, pres)
	})
	if g.bad() || err != nil {
		c.Oracle("SnapshotToBytes(%s) failed: %v %s", who, err, g.sig())
		return
	}
	var obj *crdt.Object
	var pm *presence.Map
	g = guardRun(pbTimeout, func() { obj, pm, err = converter.BytesToSnapshot(b) })
	if g.bad() || err != nil {
		c.Oracle("BytesToSnapshot(SnapshotToBytes(%s)) rejected its own output: %v %s", who, err, g.sig())
		return
	}
	c.Count("oracle-run:snapshot")
	if garbage > 0 {
		c.Count("snapshot:with-garbage")
	}
	// presences
	got := pm.ToMap()
	if len(got) != len(pres) {
		c.Oracle("snapshot presences(%s): %d entries became %d", who, len(pres), len(got))
	} else {
		for k, v := range pres {
			if fmt.Sprint(map[string]string(v)) != fmt.Sprint(map[string]string(got[k])) {
				c.Oracle("snapshot presence(%s) of %s: %v became %v", who, k, v, got[k])
			}
		}
	}
	// re-encode: same meaning (tickets, tombstones, order)
	b2, err := converter.SnapshotToBytes(obj, got)
	if err != nil {
		c.Oracle("re-encode of decoded snapshot(%s) failed: %v", who, err)
		return
	}
	pa, pb := &api.Snapshot{}, &api.Snapshot{}
	_ = proto.Unmarshal(b, pa)
	_ = proto.Unmarshal(b2, pb)
	if collect {
		seed := proto.Clone(pa).(*api.Snapshot)
		h.seeds.snapshots = append(h.seeds.snapshots, seed)
		h.seeds.pool.add(seed.ProtoReflect(), 0)
		if seed.Root != nil {
			h.collectElements(seed.Root, 0)
		}
	}
	h.notePending()
	h.observePending()
	rep := h.analyseSnapshot(live, obj, pa, pb)
	m1, m2 := root.Marshal(), obj.Marshal()
	if m1 != m2 {
		tags := h.explainMarshal(rep, live, m1, m2)
		if tags == nil {
			tags = []string{""}
		}
		for _, tag := range tags {
			rep.add(tag, "Marshal() differs: "+firstDiff(m1, m2))
		}
	}
	if gl := crdt.NewRoot(obj).GarbageLen(); gl != garbage && len(rep.by) == 0 {
		rep.add("", fmt.Sprintf("GarbageLen %d became %d and no differing item was found", garbage, gl))
	}
	dumpF, dumpIt := rep.by[""], os.Getenv("PBFUZZ_DUMP") == "snap"
	if t := os.Getenv("PBFUZZ_DUMPTAG"); t != "" {
		// debug aid: the same dump for the items of one listed finding
		dumpF, dumpIt = rep.by[t], true
	}
	if f := dumpF; f != nil && dumpIt && !h.dumped {
		h.dumped = true
		fmt.Fprintf(os.Stderr, "DUMP %s | %s unexplained: %s\nLIVE MARSHAL %s\n", h.line, who, strings.Join(f.items, "; "), m1)
		gv := graphView(live.Object())
		lreg := bookView(live).inst
		keyOf := map[string]string{}
		for k, e := range gv.all {
			keyOf[e.CreatedAt().ToTestString()] = k
		}
		for k, e := range lreg {
			keyOf[e.CreatedAt().ToTestString()] = k
		}
		for _, it := range f.items {
			if strings.HasPrefix(it, "pair-") {
				if i := strings.Index(it, ":"); i > 0 {
					id := it[i+1:]
					if j := strings.Index(id, " ["); j > 0 {
						id = id[:j]
					}
					gvl := graphView(live.Object())
					for k, pid := range gvl.pairs {
						if pid == id {
							fmt.Fprintf(os.Stderr, "   HELD BY %s\n", k)
							for _, l := range h.opsMentioning(gvl.pairIn[k]) {
								fmt.Fprintf(os.Stderr, "      holder element: %s\n", l)
							}
							for x, n := gvl.pairIn[k], 0; n < 8; n++ {
								pk, ok := h.parentOf[x]
								if !ok {
									break
								}
								fmt.Fprintf(os.Stderr, "      seen inside %s (restored=%v)\n", pk, h.restoredVals[pk])
								for _, l := range h.opsMentioning(pk) {
									fmt.Fprintf(os.Stderr, "         %s\n", l)
								}
								x = pk
							}
						}
					}
					if p, ok := registeredPairs(live)[id]; ok {
						fmt.Fprintf(os.Stderr, "   REGISTERED %s: %s\n", id, pairShape(ownersOf(live.Object()), p).desc)
					}
				}
				if i := strings.Index(it, ":"); i > 0 && !isAttrID(it[i+1:]) {
					for _, l := range locateNode(live.Object(), it[i+1:]) {
						fmt.Fprintf(os.Stderr, "   LIVE GRAPH %s\n", l)
					}
					for _, l := range locateNode(obj, it[i+1:]) {
						fmt.Fprintf(os.Stderr, "   DECODED    %s\n", l)
					}
				}
			}
		}
		for _, it := range f.items {
			if strings.HasPrefix(it, "pair-") {
				for _, l := range h.opsMentioning("styles") {
					fmt.Fprintf(os.Stderr, "   %s\n", l)
				}
				break
			}
		}
		for _, it := range f.items {
			i := strings.Index(it, ":")
			j := strings.Index(it, "(")
			if i < 0 || j < i {
				continue
			}
			t := it[i+1 : j]
			k, ok := keyOf[t]
			if !ok {
				continue
			}
			for _, l := range h.opsMentioning(k) {
				fmt.Fprintf(os.Stderr, "   %s: %s\n", t, l)
			}
		}
	}
	h.emit(c, "snapshot("+who+")", rep)
}

// emit writes one oracle line per finding of a report (known findings a few times per run, then
// only counted) and one untagged line for everything no predicate explains.
func (h *fuzzHist) emit(c *Ctx, where string, rep *snapReport) {
	var tags []string
	for t := range rep.by {
		tags = append(tags, t)
	}
	sort.Strings(tags)
	for _, t := range tags {
		f := rep.by[t]
		sort.Strings(f.items)
		items := f.items
		if len(items) > 6 {
			items = append(append([]string{}, items[:6]...), fmt.Sprintf("… %d more", len(f.items)-6))
		}
		prefix := ""
		if t == "" {
			// unexplained: count what kind of item it holds
			kinds := map[string]bool{}
			for _, it := range f.items {
				k := it
				if i := strings.Index(k, ":"); i > 0 {
					k = k[:i]
				}
				kinds[k] = true
			}
			for k := range kinds {
				c.Count("unexplained-item:" + k)
			}
			if os.Getenv("PBFUZZ_DUMP") == "n7" {
				fmt.Fprintf(os.Stderr, "N7 %s | %s | %s\n", h.line, where, strings.Join(f.items, "; "))
			}
		}
		if t != "" {
			prefix = "KNOWN[" + t + "] "
			c.Count("oracle:KNOWN[" + t + "]")
			knownWritten[prefix]++
			if knownWritten[prefix] > 3 {
				continue
			}
		} else {
			c.Count("oracle:unexplained:" + where[:strings.Index(where, "(")])
		}
		c.Oracle("%s", strings.ToValidUTF8(fmt.Sprintf("%s%s: %s", prefix, where, strings.Join(items, "; ")), "?"))
	}
}

// canonElement sorts the nodes of every JSONObject (they come out of a Go map) by key and
// deterministic encoding, recursively, so that two encodings can be compared with proto.Equal.
func canonElement(e *api.JSONElement) {
	if e == nil {
		return
	}
	switch body := e.Body.(type) {
	case *api.JSONElement_JsonObject:
		if body.JsonObject == nil {
			return
		}
		ns := body.JsonObject.Nodes
		keys := make([]string, len(ns))
		for i, n := range ns {
			if n != nil {
				canonElement(n.Element)
				b, _ := proto.MarshalOptions{Deterministic: true}.Marshal(n)
				keys[i] = n.Key + "\x00" + string(b)
			}
		}
		idx := make([]int, len(ns))
		for i := range idx {
			idx[i] = i
		}
		sort.SliceStable(idx, func(a, b int) bool { return keys[idx[a]] < keys[idx[b]] })
		out := make([]*api.RHTNode, len(ns))
		for i, j := range idx {
			out[i] = ns[j]
		}
		body.JsonObject.Nodes = out
	case *api.JSONElement_JsonArray:
		if body.JsonArray == nil {
			return
		}
		for _, n := range body.JsonArray.Nodes {
			if n != nil {
				canonElement(n.Element)
			}
		}
	}
}

func (h *fuzzHist) collectElements(e *api.JSONElement, depth int) {
	if depth > 6 || len(h.seeds.elements) > 40 {
		return
	}
	switch body := e.Body.(type) {
	case *api.JSONElement_JsonObject:
		h.seeds.elements = append(h.seeds.elements, e)
		for _, n := range body.JsonObject.Nodes {
			if n.Element != nil {
				h.collectElements(n.Element, depth+1)
			}
		}
	case *api.JSONElement_JsonArray:
		h.seeds.elements = append(h.seeds.elements, e)
		for _, n := range body.JsonArray.Nodes {
			if n.Element != nil {
				h.collectElements(n.Element, depth+1)
			}
		}
	case *api.JSONElement_Tree_:
		h.seeds.elements = append(h.seeds.elements, e)
		h.seeds.trees = append(h.seeds.trees, body.Tree.Nodes)
	}
}

func compareReplicas(h *fuzzHist, c *Ctx, what string, a, b *document.InternalDocument) {
	if m1, m2 := a.Marshal(), b.Marshal(); m1 != m2 {
		h.mismatch(c, what+"-marshal", m1, m2)
		return
	}
	if g1, g2 := a.GarbageLen(), b.GarbageLen(); g1 != g2 {
		h.mismatch(c, what+"-garbagelen", strconv.Itoa(g1), strconv.Itoa(g2))
	}
	if v1, v2 := ShowVV(a.VersionVector()), ShowVV(b.VersionVector()); v1 != v2 {
		h.mismatch(c, what+"-vv", v1, v2)
	}
	if l1, l2 := a.Lamport(), b.Lamport(); l1 != l2 {
		h.mismatch(c, what+"-lamport", strconv.FormatInt(l1, 10), strconv.FormatInt(l2, 10))
	}
	p1, p2 := a.AllPresences(), b.AllPresences()
	if fmt.Sprint(p1) != fmt.Sprint(p2) {
		h.mismatch(c, what+"-presences", fmt.Sprint(p1), fmt.Sprint(p2))
	}
	if a.DocSize() != b.DocSize() {
		// size accounting is accumulated from execution results and was seen to differ between two
		// replays of the same operations (Go map order); content, garbage and clocks above are equal
		c.Count("note:" + what + "-docsize-differs")
	}
}

// sync pushes the local changes of client i through the wire to the log and pulls the rest.
func (h *fuzzHist) sync(c *Ctx, i int) {
	cl := h.clients[i]
	req := cl.doc.CreateChangePack()
	pbReq, reqW, err := throughWire(req)
	if err != nil {
		c.Oracle("a pack the system produced does not survive the wire: %v", err)
		h.kill(c, "wire-error")
		return
	}
	c.Count("step:sync")
	if len(req.Changes) > 0 {
		var pre *document.InternalDocument
		if len(h.seeds.packs) < 12 {
			pre, _ = h.sWire.DeepCopy()
		}
		h.seeds.packs = append(h.seeds.packs, packSeed{pb: pbReq, pre: pre})
		h.seeds.pool.add(pbReq.ProtoReflect(), 0)
		for _, ch := range pbReq.Changes {
			if len(ch.Operations) > 0 && len(h.seeds.ops) < 60 {
				h.seeds.ops = append(h.seeds.ops, ch.Operations)
			}
			if ch.Id != nil && ch.Id.VersionVector != nil && len(h.seeds.vvs) < 30 {
				h.seeds.vvs = append(h.seeds.vvs, ch.Id.VersionVector)
			}
			if ch.PresenceChange != nil && len(h.seeds.presences) < 30 {
				h.seeds.presences = append(h.seeds.presences, ch.PresenceChange)
			}
		}
	}
	// --- server side: three replicas fed three ways
	var stored []*change.Change
	for k, ch := range reqW.Changes {
		pbc := proto.Clone(pbReq.Changes[k]).(*api.Change)
		pbc.Id.ServerSeq = int64(len(h.log) + 1)
		h.logPB = append(h.logPB, pbc)
		h.noteOps([]*change.Change{ch})
		for _, op := range ch.Operations() {
			if te, ok := op.(*operations.TreeEdit); ok && te.SplitLevel() > 0 && len(te.Contents()) > 0 {
				c.Count(fmt.Sprintf("shape:tree-edit-split-level-%d-with-content", te.SplitLevel()))
			}
		}
		ch.SetServerSeq(int64(len(h.log) + 1))
		h.log = append(h.log, ch)
		st, raw, err := storedRoundTrip(ch)
		if err != nil {
			c.Oracle("stored ChangeInfo does not round-trip: %v", err)
			h.kill(c, "store-error")
			return
		}
		if len(h.seeds.infos) < 40 {
			h.seeds.infos = append(h.seeds.infos, raw)
		}
		// the stored change must carry the same identity
		if ShowVV(st.ID().VersionVector()) != ShowVV(ch.ID().VersionVector()) || st.ID().Lamport() != ch.ID().Lamport() ||
			st.ID().ActorID() != ch.ID().ActorID() || st.ClientSeq() != ch.ClientSeq() || st.ServerSeq() != ch.ServerSeq() ||
			st.Message() != ch.Message() {
			c.Oracle("stored ChangeInfo changed the change id: %v became %v", ch.ID(), st.ID())
		}
		stored = append(stored, st)
	}
	// a second, independent decode for the author's shadow
	reqS, err := converter.FromChangePack(proto.Clone(pbReq).(*api.ChangePack))
	if err != nil {
		c.Oracle("second decode of the same pack failed: %v", err)
		h.kill(c, "wire-error")
		return
	}
	if reqO, err := converter.FromChangePack(proto.Clone(pbReq).(*api.ChangePack)); err == nil && h.sObs != nil {
		ok := false
		g := guardRun(pbTimeout, func() { ok = h.observeByOperation(h.sObs, reqO.Changes) })
		if g.bad() || !ok {
			h.sObs = nil
		}
	}
	var e1, e2, e3 error
	hiddenDiff := ""
	g := guardRun(pbTimeout, func() {
		// one change at a time, against what the author showed right after producing it
		for _, ch := range reqS.Changes {
			if _, _, e1 = cl.shadow.ApplyChangesForReplay(ch); e1 != nil {
				break
			}
			h.observe(cl.shadow.RootObject())
			cs := ch.ClientSeq()
			if want, ok := cl.states[cs]; ok {
				if cl.firstBad == 0 && mergeTextNodes(want) != mergeTextNodes(cl.shadow.Marshal()) {
					cl.firstBad, cl.firstBadByUndo = cs, cl.undoSeqs[cs]
					if os.Getenv("PBFUZZ_DUMP") == "firstbad" {
						fmt.Fprintf(os.Stderr, "FIRSTBAD cs=%d undo=%v\n  %s\nAUTHOR %s\nSHADOW %s\n", cs, cl.undoSeqs[cs], firstDiff(want, cl.shadow.Marshal()), want, cl.shadow.Marshal())
						for _, op := range ch.Operations() {
							fmt.Fprintf(os.Stderr, "  OP %T %s\n", op, op.ExecutedAt().ToTestString())
						}
					}
				}
				// the same elements (by createdAt, tombstones included)?  Content can agree while one
				// side has lost an element that later operations of peers still address
				if cl.firstIdentBad == 0 && cl.idents[cs] != identities(cl.shadow.RootObject()) {
					cl.firstIdentBad, cl.firstIdentBadByUndo = cs, cl.undoSeqs[cs]
				}
				if got := nodeOrder(cl.shadow.RootObject()) + "\n" + tombstones(cl.shadow.RootObject()); cl.firstOrderBad == 0 && cl.orders[cs] != got {
					cl.firstOrderBad, cl.firstOrderBadByUndo = cs, cl.undoSeqs[cs]
					if cl.undoSeqs[cs] {
						c.Count("note:hidden-state-first-differs-at-an-undo-change")
						if os.Getenv("PBFUZZ_DUMP") == "hidden" {
							fmt.Fprintf(os.Stderr, "HIDDEN(undo) %s cs=%d\n  %s\n", h.line, cs, firstDiff(cl.orders[cs], got))
							for _, op := range ch.Operations() {
								fmt.Fprintf(os.Stderr, "  OP %T %s\n", op, op.ExecutedAt().ToTestString())
							}
						}
					} else {
						c.Count("note:hidden-state-first-differs-at-an-ordinary-change")
						if cl.firstBad == 0 && cl.firstIdentBad == 0 {
							// ORACLE: nothing differed so far, the change was not emitted by undo/redo, and the
							// same change executed from the wire leaves other node ids / another node order
							// (tombstones included) or other removedAt than it left on its author
							hiddenDiff = fmt.Sprintf("wire-vs-direct-hidden-state: after the ordinary local change clientSeq %d the author and its wire shadow "+
								"show the same content but differ in what Marshal() does not show (ids and order of the nodes inside Text/Tree, "+
								"tombstones included; removedAt of element tombstones): %s", cs, firstDiff(cl.orders[cs], got))
						}
						if os.Getenv("PBFUZZ_DUMP") == "hidden" {
							fmt.Fprintf(os.Stderr, "HIDDEN %s cs=%d\nAUTHOR %s\nSHADOW %s\n", h.line, cs, cl.orders[cs], nodeOrder(cl.shadow.RootObject())+"\n"+tombstones(cl.shadow.RootObject()))
						}
					}
				}
				delete(cl.states, cs)
				delete(cl.idents, cs)
				delete(cl.orders, cs)
			}
		}
		for _, ch := range reqW.Changes {
			if _, _, e2 = h.sWire.ApplyChangesForReplay(ch); e2 != nil {
				break
			}
			h.observe(h.sWire.RootObject())
		}
		_, _, e3 = h.sStore.ApplyChangesForReplay(stored...)
	})
	if g.bad() {
		h.kill(c, "server-apply-panic: "+g.site)
		return
	}
	if e1 != nil || e2 != nil || e3 != nil {
		// the two server replicas hold the same state and receive the same changes through two codecs;
		// the author's shadow holds a different state (only what the author has seen) and is not comparable
		if (e2 == nil) != (e3 == nil) {
			c.Oracle("server replicas disagree on applicability: wire=%v stored=%v", e2, e3)
		}
		h.kill(c, "server-apply-error")
		return
	}
	if hiddenDiff != "" {
		c.Count("oracle:wire-vs-direct-hidden-state")
		c.Oracle("%s", strings.ReplaceAll(strings.ToValidUTF8(hiddenDiff, "?"), "\n", " | "))
		h.kill(c, "wire-vs-direct-hidden-state")
		return
	}
	if len(req.Changes) > 0 {
		c.Count("oracle-run:pack")
		h.lastPack = pbReq
		h.compareAuthor(c, cl)
		compareReplicas(h, c, "stored-vs-wire", h.sWire, h.sStore)
		if h.dead != "" {
			// author and shadow already differ: whatever the response does to them says nothing more
			return
		}
	}
	cl.lastVV = req.VersionVector.DeepCopy()
	// --- response
	var sel []*change.Change
	for _, ch := range h.log[cl.doc.Checkpoint().ServerSeq:] {
		if ch.ID().ActorID() != cl.actor {
			sel = append(sel, ch)
		}
	}
	var vvs []time.VersionVector
	for _, o := range h.clients {
		vvs = append(vvs, o.lastVV)
	}
	// GC off: the documents keep GC enabled (the DisableGC mode has a contract of its own) and are
	// simply never told that anything is stable: an empty minimum vector purges nothing
	minVV := time.NewVersionVector()
	if h.gc {
		minVV = time.MinVersionVector(vvs...)
	}
	resp := change.NewPack(pbDocKey, change.NewCheckpoint(int64(len(h.log)), req.Checkpoint.ClientSeq), sel,
		minVV, nil)
	pbResp, respW, err := throughWire(resp)
	if err != nil {
		c.Oracle("a response pack does not survive the wire: %v", err)
		h.kill(c, "wire-error")
		return
	}
	if len(sel) > 0 && len(h.seeds.packs) < 24 {
		h.seeds.packs = append(h.seeds.packs, packSeed{pb: pbResp})
	}
	respS, err2 := converter.FromChangePack(proto.Clone(pbResp).(*api.ChangePack))
	if err2 != nil {
		c.Oracle("second decode of the same response pack failed: %v", err2)
		h.kill(c, "wire-error")
		return
	}
	var errS error
	// what the author's clone (Document.Root(), the working copy updaters edit) and its root show
	// before the response: Document.ApplyChangePack executes every remote change on the clone first
	cloneBefore, rootBefore := "", ""
	g = guardRun(pbTimeout, func() {
		cloneBefore = cl.doc.Root().Marshal()
		rootBefore = cl.doc.Marshal()
	})
	if g.bad() {
		h.kill(c, "client-root-panic: "+g.site)
		return
	}
	if mergeTextNodes(cloneBefore) != mergeTextNodes(rootBefore) {
		c.Count("oracle:clone-differs-from-root")
		c.Oracle("%s", strings.ToValidUTF8("the author's clone differs from its root before a response is applied (C08): "+firstDiff(rootBefore, cloneBefore), "?"))
	}
	// evidence for what a purge may do: stale registrations before the response, and copies of both
	// replicas to replay the response on without the GC step
	sa, ka := staleRegistrationKeys(cl.doc.InternalDocument().Root())
	ss, ks := staleRegistrationKeys(cl.shadow.Root())
	cl.staleBefore = append(sa, ss...)
	cl.staleKeys = ka
	for k := range ks {
		cl.staleKeys[k] = true
	}
	cl.preAuthor, cl.preShadow, cl.preResp = nil, nil, nil
	if h.undone && h.gc {
		cl.preAuthor, _ = cl.doc.InternalDocument().DeepCopy()
		cl.preShadow, _ = cl.shadow.DeepCopy()
		cl.preResp = pbResp
	}
	// evidence only: the response one operation at a time on a copy of the shadow (this client's order
	// of execution differs from the server's; what exists only between two remote changes is seen here)
	if len(sel) > 0 {
		if d, e := cl.shadow.DeepCopy(); e == nil {
			if respO, e := converter.FromChangePack(proto.Clone(pbResp).(*api.ChangePack)); e == nil {
				guardRun(pbTimeout, func() { h.observeByOperation(d, respO.Changes) })
			}
		}
	}
	g = guardRun(pbTimeout, func() {
		err = cl.doc.ApplyChangePack(respW)
		errS = cl.shadow.ApplyChangePack(respS, false)
	})
	if g.bad() {
		h.kill(c, "client-apply-panic: "+g.site)
		return
	}
	if err != nil || errS != nil {
		if (err == nil) != (errS == nil) {
			// no predicate: the author (own operations executed in memory, remote ones on clone then
			// root) and its shadow (the same changes in the same order, all from the wire) must agree on
			// whether a response applies.  Evidence that helps to locate it is attached.
			detail := ""
			if err != nil && errS == nil {
				if rc, e := cl.doc.InternalDocument().DeepCopy(); e == nil {
					if r3, e := converter.FromChangePack(proto.Clone(pbResp).(*api.ChangePack)); e == nil {
						var e3 error
						g3 := guardRun(pbTimeout, func() { e3 = rc.ApplyChangePack(r3, false) })
						if !g3.bad() {
							detail = fmt.Sprintf("; a copy of the author's root takes the same response: err=%v (so the rejecting side is the clone iff nil)", e3)
						}
					}
				}
			}
			tag := ""
			if why := h.detachedTarget(cl, pbResp); why != "" {
				// an operation of the response addresses an element that exists in neither graph any more
				// (an undo/redo restored its container as a copy that lacks what peers had created inside
				// it); one registry still holds the detached element and takes the operation, the other -
				// and every replica rebuilt from the log or a snapshot - rejects it
				tag = "KNOWN[c15-operation-addresses-element-dropped-by-restore] [" + why + "] "
			} else if cl.firstIdentBad != 0 && cl.firstIdentBadByUndo {
				// the author's graph and its shadow's stopped holding the same elements exactly at a change
				// emitted by Undo/Redo (what the undo did locally and what the emitted change does from the
				// wire differ in which elements - tombstones included - exist); an operation of a peer that
				// addresses such an element now applies on one of them only
				tag = fmt.Sprintf("KNOWN[c15-undo-local-vs-remote-path] (element identities first differ at the undo/redo change clientSeq %d) ", cl.firstIdentBad)
			} else if cl.firstOrderBad != 0 && cl.firstOrderBadByUndo {
				tag = fmt.Sprintf("KNOWN[c15-undo-local-vs-remote-path] (what Marshal() does not show - node order inside a Text/Tree incl. tombstones, removedAt of element tombstones - first differed at the undo/redo change clientSeq %d) ", cl.firstOrderBad)
			} else if cl.firstBad != 0 && cl.firstBadByUndo {
				// the same for content: author and shadow first showed different content right after a change
				// emitted by Undo/Redo; later changes made the two Marshal() strings agree again (so the
				// request-side comparison passed) while text / tree nodes inside still differ, and an
				// operation of a peer that addresses such a node applies on one of them only
				tag = fmt.Sprintf("KNOWN[c15-undo-local-vs-remote-path] (content first differed at the undo/redo change clientSeq %d and agreed again later) ", cl.firstBad)
			}
			c.Count("oracle:" + strings.TrimSpace(strings.Split(strings.Split(tag, " (")[0], " [")[0]) + "response-applicability")
			if os.Getenv("PBFUZZ_DUMP") == "wire" {
				{
					a, b := strings.Split(identities(cl.doc.RootObject()), ","), strings.Split(identities(cl.shadow.RootObject()), ",")
					ma, mb := map[string]bool{}, map[string]bool{}
					for _, x := range a {
						ma[x] = true
					}
					for _, x := range b {
						mb[x] = true
					}
					for x := range ma {
						if !mb[x] {
							fmt.Fprintf(os.Stderr, "ONLY AUTHOR GRAPH %s\n", x)
						}
					}
					for x := range mb {
						if !ma[x] {
							fmt.Fprintf(os.Stderr, "ONLY SHADOW GRAPH %s\n", x)
						}
					}
				}
				fmt.Fprintf(os.Stderr, "VANISHED %v\nfirstIdentBad %d byUndo %v firstBad %d\n", h.vanished, cl.firstIdentBad, cl.firstIdentBadByUndo, cl.firstBad)
				fmt.Fprintf(os.Stderr, "UNREG author %v\nUNREG shadow %v\n", unregisteredInGraph(cl.doc.InternalDocument().Root()), unregisteredInGraph(cl.shadow.Root()))
				fmt.Fprintf(os.Stderr, "DUP author %v\nDUP shadow %v\n", duplicateCreatedAt(cl.doc.RootObject()), duplicateCreatedAt(cl.shadow.RootObject()))
				if rc, e := cl.doc.InternalDocument().DeepCopy(); e == nil {
					if r3, e := converter.FromChangePack(proto.Clone(pbResp).(*api.ChangePack)); e == nil {
						for k, ch := range r3.Changes {
							if _, _, e := rc.ApplyChangesForReplay(ch); e != nil {
								fmt.Fprintf(os.Stderr, "FAILING CHANGE %d: %v\n%s\n", k, e, protoTextLong(pbResp.Changes[k]))
								for _, op := range ch.Operations() {
									pe := rc.Root().FindByCreatedAt(op.ParentCreatedAt())
									fmt.Fprintf(os.Stderr, "  op %T parent %s -> %T\n", op, op.ParentCreatedAt().ToTestString(), pe)
								}
								break
							}
						}
					}
				}
				fmt.Fprintf(os.Stderr, "DUMP response-applicability client=%d gc=%v err=%v\nRESPONSE %s\nROOT  %s\nCLONE %s\n", i, h.gc, err, protoTextLong(pbResp), rootBefore, cloneBefore)
			}
			c.Oracle("%sauthor and its wire shadow disagree on applicability of a response: direct=%v wire=%v%s", tag, err, errS, detail)
		}
		h.kill(c, "client-apply-error")
		return
	}
	if len(sel) > 0 || h.gc {
		// (with GC on, a response without changes still purges)
		h.lastPack = pbResp
		h.compareAuthor(c, cl)
	}
}

// purgeOnly replays the last response on the copies taken before it, GC step skipped.
func (h *fuzzHist) purgeOnly(cl *fuzzClient) bool {
	if os.Getenv("PBFUZZ_DUMP") == "purge" {
		fmt.Fprintf(os.Stderr, "PURGE? pre copies %v stale %v undone %v gc %v\n", cl.preAuthor != nil, cl.staleBefore, h.undone, h.gc)
		if cl.preAuthor != nil {
			fmt.Fprintf(os.Stderr, " author regs: %v\n shadow regs: %v\n", regList(cl.preAuthor.Root()), regList(cl.preShadow.Root()))
		}
	}
	if cl.preAuthor == nil || cl.preShadow == nil || cl.preResp == nil || len(cl.staleBefore) == 0 {
		return false
	}
	ra, e1 := converter.FromChangePack(proto.Clone(cl.preResp).(*api.ChangePack))
	rs, e2 := converter.FromChangePack(proto.Clone(cl.preResp).(*api.ChangePack))
	if e1 != nil || e2 != nil {
		return false
	}
	ok := false
	g := guardRun(pbTimeout, func() {
		if cl.preAuthor.ApplyChangePack(ra, true) != nil || cl.preShadow.ApplyChangePack(rs, true) != nil {
			return
		}
		ok = mergeTextNodes(cl.preAuthor.Marshal()) == mergeTextNodes(cl.preShadow.Marshal())
	})
	return !g.bad() && ok
}

// detachedTarget looks for an operation of the response whose parent element is reachable in
// neither the author's nor the shadow's graph while exactly one of the two registries still
// resolves it.  Only meaningful after an undo/redo happened in the history.
func (h *fuzzHist) detachedTarget(cl *fuzzClient, pbResp *api.ChangePack) string {
	if !h.undone {
		return ""
	}
	p, err := converter.FromChangePack(proto.Clone(pbResp).(*api.ChangePack))
	if err != nil {
		return ""
	}
	ga, gs := graphView(cl.doc.RootObject()).all, graphView(cl.shadow.RootObject()).all
	ra, rs := cl.doc.InternalDocument().Root(), cl.shadow.Root()
	for _, ch := range p.Changes {
		for _, op := range ch.Operations() {
			t := op.ParentCreatedAt()
			if t == nil {
				continue
			}
			_, inA := ga[t.Key()]
			_, inS := gs[t.Key()]
			regA, regS := ra.FindByCreatedAt(t) != nil, rs.FindByCreatedAt(t) != nil
			if !inA && !inS && regA != regS {
				return fmt.Sprintf("%T addresses %s: in no graph, author registry %v, shadow registry %v", op, t.ToTestString(), regA, regS)
			}
		}
	}
	return ""
}

// purgedKeysOnly: author and shadow agree once the members whose createdAt had a stale tombstone
// registration before the response are deleted from both.
func (h *fuzzHist) purgedKeysOnly(cl *fuzzClient, m1, m2 string) bool {
	if !h.gc || len(cl.staleBefore) == 0 || len(cl.staleKeys) == 0 {
		return false
	}
	a, ok1 := stripKeysJSON(m1, cl.staleKeys)
	b, ok2 := stripKeysJSON(m2, cl.staleKeys)
	return ok1 && ok2 && a != "" && mergeTextNodes(a) == mergeTextNodes(b)
}

func regList(r *crdt.Root) []string {
	var out []string
	for _, p := range r.GCElementPairMap() {
		p := p
		out = append(out, describe(p.Elem()))
	}
	sort.Strings(out)
	return out
}

// dedupOnly: the two Marshal() strings agree once every member that is a dedup counter with a
// non-empty sketch on the author is deleted, and there is one.
func (h *fuzzHist) dedupOnly(cl *fuzzClient, m1, m2 string) bool {
	keys := map[string]bool{}
	root := cl.doc.RootObject()
	visit := func(o *crdt.Object) {
		for k, e := range o.Members() {
			if cnt, ok := e.(*crdt.Counter); ok && cnt.IsDedup() {
				if v, ok := cnt.Value().(int32); ok && v != 0 {
					keys[k] = true
				}
			}
		}
	}
	visit(root)
	root.Descendants(func(e crdt.Element, _ crdt.Container) bool {
		if o, ok := e.(*crdt.Object); ok {
			visit(o)
		}
		return false
	})
	if len(keys) == 0 {
		return false
	}
	a, ok1 := stripKeysJSON(m1, keys)
	b, ok2 := stripKeysJSON(m2, keys)
	return ok1 && ok2 && a == b
}

// compareAuthor: the author's document (its own operations executed in memory) against its shadow
// (the same changes in the same order, all decoded from the wire).  Content is the oracle;
// bookkeeping that legitimately depends on the local/remote execution path is only counted.
func (h *fuzzHist) compareAuthor(c *Ctx, cl *fuzzClient) {
	c.Count("oracle-run:wire-vs-direct")
	d := cl.doc.InternalDocument()
	if os.Getenv("PBFUZZ_DUMP") == "ident" && !h.dumped {
		if a, b := identities(cl.doc.RootObject()), identities(cl.shadow.RootObject()); a != b {
			h.dumped = true
			fmt.Fprintf(os.Stderr, "IDENT differ after pack (firstIdentBad %d)\nPACK %s\nAUTHOR %s\nSHADOW %s\n", cl.firstIdentBad, protoTextLong(h.lastPack), a, b)
		}
	}
	if m1, m2 := d.Marshal(), cl.shadow.Marshal(); m1 != m2 {
		if mergeTextNodes(m1) == mergeTextNodes(m2) {
			// same text, split into nodes at different places (a local edit splits at its boundaries
			// even when it neither inserts nor deletes; the remote path does not)
			c.Count("note:wire-vs-direct-text-node-boundaries-differ")
			return
		}
		if os.Getenv("PBFUZZ_DUMP") == "wire" && !h.dumped {
			h.dumped = true
			fmt.Fprintf(os.Stderr, "DUMP\nPACK %s\nDIRECT %s\nWIRE   %s\n", protoTextLong(h.lastPack), m1, m2)
		}
		what := "wire-vs-direct-marshal"
		switch {
		case h.dedupOnly(cl, m1, m2):
			// a Set/Add/ArraySet operation carries a dedup counter as JSONElementSimple: type + 4 value
			// bytes, no HLL registers; the receiver builds an empty sketch (value 0)
			what = "KNOWN[c09-dedup-counter-registers-not-in-operation-value] " + what
		case astralAsReplacement(mergeTextNodes(m1)) == astralAsReplacement(mergeTextNodes(m2)):
			// one side holds two U+FFFD where the other holds one character outside the BMP: a text node
			// was split inside a surrogate pair on one replica only (TextValue.Split re-encodes the halves,
			// each lone surrogate becomes U+FFFD) - here by a position an undo/redo computed
			what = "KNOWN[c07-text-split-inside-surrogate-pair] " + what
		case cl.silentUndo != "":
			// (never observed so far: reported untagged, with the evidence)
			what = what + " [an Undo/Redo call changed the author without emitting a change: " + cl.silentUndo + "]"
		case cl.firstBad != 0 && cl.firstBadByUndo:
			// the shadow stopped agreeing with the author exactly at a change emitted by Undo/Redo: what
			// the undo did locally and what the emitted change does when executed from the wire differ
			// (C14/C15)
			what = fmt.Sprintf("KNOWN[c15-undo-local-vs-remote-path] %s (first divergence at the undo/redo change clientSeq %d)", what, cl.firstBad)
		case cl.firstBad != 0:
			what = fmt.Sprintf("%s (first divergence at the ordinary local change clientSeq %d)", what, cl.firstBad)
		case cl.firstOrderBad != 0 && cl.firstOrderBadByUndo:
			// content agreed after every local change, but what Marshal() does not show - the order of
			// nodes inside a Text/Tree, tombstones included, and the removedAt of element tombstones -
			// stopped agreeing exactly at a change emitted by Undo/Redo; a later operation (a peer's
			// restore edit un-tombstones by id; a restoring Set races against removedAt; GC compares
			// removedAt with the minimum vector) made the difference visible
			what = fmt.Sprintf("KNOWN[c15-undo-local-vs-remote-path] %s (node order incl. tombstones / removedAt of tombstones first differed at the undo/redo change clientSeq %d)", what, cl.firstOrderBad)
		case h.purgeOnly(cl) || h.purgedKeysOnly(cl, m1, m2):
			// before the response a root held a tombstone registration whose createdAt belongs to a live
			// restored instance - GarbageCollect purges by createdAt and takes the live element with it
			// (the upstream-known "redo + peer GC deletes live key") - and either the two agree when the
			// same response is applied to copies of both without the GC step, or they agree once exactly
			// the object members that held those live instances are left out
			what = "KNOWN[c15-gc-purges-element-restored-under-registered-createdat] " + what + " [stale before: " + strings.Join(cl.staleBefore, "; ") + "]"
		}
		h.mismatch(c, what, m1, m2)
		h.kill(c, "wire-vs-direct-mismatch")
		return
	}
	if fmt.Sprint(d.AllPresences()) != fmt.Sprint(cl.shadow.AllPresences()) {
		h.mismatch(c, "wire-vs-direct-presences", fmt.Sprint(d.AllPresences()), fmt.Sprint(cl.shadow.AllPresences()))
	}
	if d.GarbageLen() != cl.shadow.GarbageLen() {
		c.Count("note:wire-vs-direct-garbagelen-differs")
	}
	if d.DocSize() != cl.shadow.DocSize() {
		c.Count("note:wire-vs-direct-docsize-differs")
	}
}

// continuationOracle: a replica seeded from a snapshot taken in the middle of the log and a
// replica that replayed the log from the start must still agree after the rest of the log.  This
// is what makes an encoder-side drop of a field that only matters for *later* merges (ins_prev_id,
// split bookkeeping, position tickets) visible; the plain snapshot oracle cannot see it because
// encode(decode(encode x)) = encode x whatever the encoder forgets.  Restricted to the clean
// class without GC: with undo, moves or purges the known C02/C03/C15 defects decide the outcome.
func (h *fuzzHist) continuationOracle(c *Ctx) {
	if h.class != "A" || h.gc || len(h.logPB) < 6 {
		return
	}
	decode := func(pbs []*api.Change) ([]*change.Change, error) {
		var cl []*api.Change
		for _, p := range pbs {
			cl = append(cl, proto.Clone(p).(*api.Change))
		}
		return converter.FromChanges(cl)
	}
	cut := len(h.logPB)/3 + h.r.Intn(len(h.logPB)/3+1)
	full := document.NewInternalDocument(pbDocKey)
	var seeded *document.InternalDocument
	var e1, e2 error
	g := guardRun(pbTimeout, func() {
		pre, err := decode(h.logPB[:cut])
		if err != nil {
			e1 = err
			return
		}
		if _, _, e1 = full.ApplyChangesForReplay(pre...); e1 != nil {
			return
		}
		snap, err := converter.SnapshotToBytes(full.RootObject(), full.AllPresences())
		if err != nil {
			e1 = err
			return
		}
		seeded, e2 = document.NewInternalDocumentFromSnapshot(pbDocKey, int64(cut), full.Lamport(), full.VersionVector(), snap)
		if e2 != nil {
			return
		}
		rest1, err := decode(h.logPB[cut:])
		if err != nil {
			e1 = err
			return
		}
		rest2, _ := decode(h.logPB[cut:])
		_, _, e1 = full.ApplyChangesForReplay(rest1...)
		_, _, e2 = seeded.ApplyChangesForReplay(rest2...)
	})
	if g.bad() {
		c.Oracle("continuation after snapshot: %s", g.sig())
		return
	}
	c.Count("oracle-run:continuation")
	if e1 != nil || e2 != nil {
		if (e1 == nil) != (e2 == nil) {
			c.Oracle("continuation after a snapshot at change %d of %d: replayed replica err=%v, snapshot-seeded replica err=%v", cut, len(h.logPB), e1, e2)
		}
		return
	}
	if m1, m2 := full.Marshal(), seeded.Marshal(); mergeTextNodes(m1) != mergeTextNodes(m2) {
		if os.Getenv("PBFUZZ_DUMP") == "cont" {
			// find the first change after the cut at which the two replicas part
			f2 := document.NewInternalDocument(pbDocKey)
			pre, _ := decode(h.logPB[:cut])
			_, _, _ = f2.ApplyChangesForReplay(pre...)
			snap, _ := converter.SnapshotToBytes(f2.RootObject(), f2.AllPresences())
			s2, _ := document.NewInternalDocumentFromSnapshot(pbDocKey, int64(cut), f2.Lamport(), f2.VersionVector(), snap)
			for j := cut; j < len(h.logPB); j++ {
				a, _ := decode(h.logPB[j : j+1])
				b, _ := decode(h.logPB[j : j+1])
				before := f2.Marshal()
				_, _, _ = f2.ApplyChangesForReplay(a...)
				_, _, _ = s2.ApplyChangesForReplay(b...)
				if f2.Marshal() != s2.Marshal() {
					sp := &api.Snapshot{}
					_ = proto.Unmarshal(snap, sp)
					fmt.Fprintf(os.Stderr, "DUMP continuation: first divergence at change %d (cut %d)\nCHANGE %s\nBEFORE %s\nREPLAYED %s\nSEEDED   %s\nSNAPSHOT %s\n",
						j, cut, protoTextLong(h.logPB[j]), before, f2.Marshal(), s2.Marshal(), protoTextLong(sp))
					break
				}
			}
		}
		what := fmt.Sprintf("continuation-after-snapshot(cut %d of %d)", cut, len(h.logPB))
		if a, b := stripTreeMember(m1), stripTreeMember(m2); a != m1 && mergeTextNodes(a) == mergeTextNodes(b) {
			// the replicas differ inside the Tree only; locate the first change after the cut at which
			// they part and look at what it addresses in the seeded replica's tree just before it
			if why := h.treeContinuationEvidence(cut, decode); why != "" {
				what = "KNOWN[c02-tree-continuation-after-snapshot] " + what + " [" + why + "]"
			}
		}
		h.mismatch(c, what, m1, m2)
	}
}

// treeContinuationEvidence replays the continuation change by change and, at the first change
// where the replayed and the snapshot-seeded replica part, checks the two shapes the finding is
// about: (1) a tree operation of that change addresses (parent or left sibling of from/to) a node
// that is a tombstone in the seeded replica's tree; (2) the tree holds text that cannot be split
// at every UTF-16 offset (a character outside the BMP, or U+FFFD left by such a split).
func (h *fuzzHist) treeContinuationEvidence(cut int, decode func([]*api.Change) ([]*change.Change, error)) string {
	f2 := document.NewInternalDocument(pbDocKey)
	pre, err := decode(h.logPB[:cut])
	if err != nil {
		return ""
	}
	if _, _, err := f2.ApplyChangesForReplay(pre...); err != nil {
		return ""
	}
	snap, err := converter.SnapshotToBytes(f2.RootObject(), f2.AllPresences())
	if err != nil {
		return ""
	}
	s2, err := document.NewInternalDocumentFromSnapshot(pbDocKey, int64(cut), f2.Lamport(), f2.VersionVector(), snap)
	if err != nil {
		return ""
	}
	for j := cut; j < len(h.logPB); j++ {
		a, _ := decode(h.logPB[j : j+1])
		b, _ := decode(h.logPB[j : j+1])
		// the seeded replica's trees right before change j
		tombs := map[string]bool{}
		oddText := false
		if sb, err := converter.SnapshotToBytes(s2.RootObject(), s2.AllPresences()); err == nil {
			sp := &api.Snapshot{}
			_ = proto.Unmarshal(sb, sp)
			var walk func(e *api.JSONElement)
			walk = func(e *api.JSONElement) {
				switch body := e.GetBody().(type) {
				case *api.JSONElement_JsonObject:
					for _, n := range body.JsonObject.GetNodes() {
						walk(n.GetElement())
					}
				case *api.JSONElement_JsonArray:
					for _, n := range body.JsonArray.GetNodes() {
						if n.GetElement() != nil {
							walk(n.GetElement())
						}
					}
				case *api.JSONElement_Tree_:
					for _, n := range body.Tree.GetNodes() {
						if n.GetRemovedAt() != nil {
							tombs[pbTicketKey(n.GetId().GetCreatedAt())+":"+fmt.Sprint(n.GetId().GetOffset())] = true
						}
						for _, r := range n.GetValue() {
							if r >= 0x10000 || r == 0xFFFD {
								oddText = true
							}
						}
					}
				}
			}
			walk(sp.Root)
		}
		_, _, e1 := f2.ApplyChangesForReplay(a...)
		_, _, e2 := s2.ApplyChangesForReplay(b...)
		if e1 != nil || e2 != nil {
			return ""
		}
		if mergeTextNodes(f2.Marshal()) == mergeTextNodes(s2.Marshal()) {
			continue
		}
		// first divergence: what does change j address?
		idKey := func(id *api.TreeNodeID) string {
			return pbTicketKey(id.GetCreatedAt()) + ":" + fmt.Sprint(id.GetOffset())
		}
		treeOp := false
		for _, op := range h.logPB[j].Operations {
			var poss []*api.TreePos
			if te := op.GetTreeEdit(); te != nil {
				poss = append(poss, te.From, te.To)
				treeOp = true
			}
			if ts := op.GetTreeStyle(); ts != nil {
				poss = append(poss, ts.From, ts.To)
				treeOp = true
			}
			for _, p := range poss {
				for _, id := range []*api.TreeNodeID{p.GetParentId(), p.GetLeftSiblingId()} {
					if id != nil && tombs[idKey(id)] {
						return fmt.Sprintf("change %d: a tree operation addresses node %s, a tombstone in the seeded tree", j, idKey(id))
					}
				}
			}
		}
		if treeOp && oddText {
			return fmt.Sprintf("change %d: tree operation on a tree holding text outside the BMP / U+FFFD", j)
		}
		return ""
	}
	return ""
}

// stripTreeMember removes the value of the root member "r" (the Tree) from a Marshal() string.
func stripTreeMember(s string) string {
	i := strings.Index(s, `"r":{"type":"doc"`)
	if i < 0 {
		return s
	}
	depth, j, inStr := 0, i+4, false
	for ; j < len(s); j++ {
		ch := s[j]
		if inStr {
			if ch == '\\' {
				j++
			} else if ch == '"' {
				inStr = false
			}
			continue
		}
		switch ch {
		case '"':
			inStr = true
		case '{':
			depth++
		case '}':
			depth--
			if depth == 0 {
				return s[:i] + `"r":{}` + s[j+1:]
			}
		}
	}
	return s
}

// pbInitUpdate is the first change of every history (by the client with actor ..01): the shared
// containers, with fixed tickets 1:1 (o), 1:2 (a; elements 1:3..1:5), 1:6 (t; node 1:7), 1:8 (c),
// 1:9 (d), 1:10 (r; doc 1:10, p 1:11, "ab" 1:12, p 1:13, "cd" 1:14).
func pbInitUpdate(root *json.Object, p *presence.Presence) error {
	root.SetNewObject("o")
	root.SetNewArray("a").AddInteger(1, 2, 3)
	root.SetNewText("t").Edit(0, 0, "hello world")
	root.SetNewCounter("c", 0)
	root.SetNewDedupCounter("d")
	root.SetNewTree("r", pbTreeInit())
	p.Set("name", "\"zero\"")
	return nil
}

// initReplica is a server-side replica holding exactly the first change (context for the corpus
// witnesses `PB FromChangePack@init`).
func initReplica() *document.InternalDocument {
	var a time.ActorID
	a[11] = 1
	d := document.New(pbDocKey)
	d.SetActor(a)
	if err := d.Update(pbInitUpdate); err != nil {
		return nil
	}
	_, w, err := throughWire(d.CreateChangePack())
	if err != nil {
		return nil
	}
	r := document.NewInternalDocument(pbDocKey)
	if _, _, err := r.ApplyChangesForReplay(w.Changes...); err != nil {
		return nil
	}
	return r
}

func (h *fuzzHist) run(c *Ctx, steps int) {
	r := h.r
	n := len(h.clients)
	// client 0 creates the shared containers so that everybody edits the same identities
	g := guardRun(pbTimeout, func() {
		_ = h.clients[0].doc.Update(pbInitUpdate)
	})
	if g.bad() {
		h.kill(c, "init-panic: "+g.site)
		return
	}
	for i := 0; i < n && h.dead == ""; i++ {
		h.sync(c, i)
	}
	for s := 0; s < steps && h.dead == ""; s++ {
		i := r.Intn(n)
		var before map[string]crdt.Element
		if !h.gc {
			before = graphView(h.clients[i].doc.RootObject()).all
		}
		stepKind := "update"
		switch x := r.Intn(100); {
		case x < 60:
			h.update(c, i)
		case x < 72 && (h.class == "B" || h.class == "D"):
			stepKind = "undo/redo"
			h.undo(c, i)
		case x < 72:
			h.update(c, i)
		default:
			stepKind = "sync"
			h.sync(c, i)
		}
		if before != nil {
			// nothing is ever purged in these histories: an element that leaves a graph was dropped
			// by something else
			after := graphView(h.clients[i].doc.RootObject()).all
			for k, e := range before {
				if _, ok := after[k]; !ok {
					h.vanished[k] = fmt.Sprintf("%s left client%d's graph during a local %s step although nothing is purged", describe(e), i, stepKind)
				}
			}
		}
		if h.dead == "" {
			h.observe(h.clients[i].doc.RootObject())
			h.observe(h.sWire.RootObject())
		}
		if h.dead == "" && r.Intn(6) == 0 {
			d := h.clients[i].doc
			h.snapOracle(c, fmt.Sprintf("client%d", i), d.InternalDocument().Root(), d.AllPresences(), false)
		}
	}
	// quiesce and final oracles
	for round := 0; round < 2 && h.dead == ""; round++ {
		for i := 0; i < n && h.dead == ""; i++ {
			h.sync(c, i)
		}
	}
	if h.dead != "" {
		// the seeds collected so far are still real messages
		if len(h.seeds.snapshots) == 0 {
			h.snapOracle(c, "server", h.sWire.Root(), h.sWire.AllPresences(), true)
		}
		return
	}
	c.Count("history:completed:" + h.class)
	h.continuationOracle(c)
	for i, cl := range h.clients {
		h.snapOracle(c, fmt.Sprintf("client%d", i), cl.doc.InternalDocument().Root(), cl.doc.AllPresences(), i == 0)
	}
	h.snapOracle(c, "server", h.sWire.Root(), h.sWire.AllPresences(), true)
}

// ---------- malformed stream ----------

type pbFinding struct {
	decoder string
	sig     string
}

type pbMut struct {
	c      *Ctx
	r      *rand.Rand
	seeds  *pbSeeds
	seen   map[pbFinding]bool
	hangs  int
	accept int
	reject int
}

// pbStage is set by a decoder driver when it leaves the decoder proper and starts using what
// the decoder accepted (stage 2).  The harness is single threaded.
var pbStage string

func stage2() { pbStage = "use-of-accepted-value" }

// decoders over a protobuf message; each returns whether the input was accepted.
// lastPre: the pre-state replica of the pack most recently handed to decodePack (debug aid)
var lastPre *document.InternalDocument

func decodePack(pb *api.ChangePack, pre *document.InternalDocument) func() bool {
	return func() bool {
		lastPre = pre
		p, err := converter.FromChangePack(pb)
		if err != nil {
			return false
		}
		stage2()
		// what the server does with an accepted pack before executing it
		for _, ch := range p.Changes {
			if info, err := database.NewFromChange(pbRefKey, ch); err == nil {
				_, _ = info.ToChange()
			}
		}
		if pre != nil {
			d, err := pre.DeepCopy()
			if err == nil {
				if _, _, err := d.ApplyChangesForReplay(p.Changes...); err == nil {
					_ = d.Marshal()
					_ = d.GarbageLen()
					if b, err := converter.SnapshotToBytes(d.RootObject(), d.AllPresences()); err == nil {
						_, _, _ = converter.BytesToSnapshot(b)
					}
					_, _ = d.DeepCopy()
					mx := time.NewVersionVector()
					for a := range d.VersionVector() {
						mx[a] = math.MaxInt64
					}
					_, _ = d.GarbageCollect(mx)
				}
			}
		}
		return true
	}
}

func useObject(obj *crdt.Object) {
	_ = obj.Marshal()
	root := crdt.NewRoot(obj)
	_ = root.GarbageLen()
	_ = root.DocSize()
	if cp, err := root.DeepCopy(); err == nil {
		_ = cp.Object().Marshal()
	}
	if b, err := converter.ObjectToBytes(obj); err == nil {
		_, _ = converter.BytesToObject(b)
	}
}

func decodeSnapshotBytes(b []byte) func() bool {
	return func() bool {
		obj, pm, err := converter.BytesToSnapshot(b)
		if err != nil {
			return false
		}
		_ = pm.ToMap()
		stage2()
		{
			useObject(obj)
			// the server seeds a document from a stored snapshot like this
			if d, err := document.NewInternalDocumentFromSnapshot(pbDocKey, 1, 1, time.NewVersionVector(), b); err == nil {
				_ = d.Marshal()
			}
		}
		return true
	}
}

func decodeElementBytes(b []byte, which int) func() bool {
	return func() bool {
		switch which {
		case 0:
			o, err := converter.BytesToObject(b)
			if err != nil {
				return false
			}
			stage2()
			useObject(o)
		case 1:
			a, err := converter.BytesToArray(b)
			if err != nil {
				return false
			}
			stage2()
			_ = a.Marshal()
			_, _ = a.DeepCopy()
			_, _ = converter.ArrayToBytes(a)
		default:
			t, err := converter.BytesToTree(b)
			if err != nil {
				return false
			}
			stage2()
			_ = t.Marshal()
			_, _ = t.DeepCopy()
			_, _ = converter.TreeToBytes(t)
		}
		return true
	}
}

// mutateStoredInfo damages one yorkie-decoded payload inside a stored ChangeInfo document and
// re-frames the document correctly.
func mutateStoredInfo(raw []byte, r *rand.Rand) ([]byte, string, bool) {
	var d bson.D
	if err := bson.Unmarshal(raw, &d); err != nil {
		return nil, "", false
	}
	var cands []int
	for i, e := range d {
		switch e.Key {
		case "version_vector", "presence_change", "operations":
			cands = append(cands, i)
		}
	}
	if len(cands) == 0 {
		return nil, "", false
	}
	i := cands[r.Intn(len(cands))]
	kind := d[i].Key
	switch v := d[i].Value.(type) {
	case bson.Binary:
		nb, k := mutateBytes(v.Data, r)
		d[i].Value = bson.Binary{Subtype: v.Subtype, Data: nb}
		kind += ":" + k
	case bson.A:
		if len(v) == 0 {
			d[i].Value = bson.A{bson.Binary{Data: []byte{byte(r.Intn(256))}}}
			kind += ":added-blob"
			break
		}
		j := r.Intn(len(v))
		if bin, ok := v[j].(bson.Binary); ok {
			nb, k := mutateBytes(bin.Data, r)
			v[j] = bson.Binary{Subtype: bin.Subtype, Data: nb}
			kind += ":" + k
		}
	case nil:
		d[i].Value = bson.Binary{Data: []byte{byte(r.Intn(256)), byte(r.Intn(256))}}
		kind += ":null-to-bytes"
	default:
		return nil, "", false
	}
	out, err := bson.Marshal(d)
	if err != nil {
		return nil, "", false
	}
	return out, kind, true
}

// decodeBSON: a stored ChangeInfo document through the real mongo registry, then ToChange.
func decodeBSON(b []byte) func() bool {
	return func() bool {
		info := &database.ChangeInfo{}
		dec := bson.NewDecoder(bson.NewDocumentReader(bytes.NewReader(b)))
		dec.SetRegistry(pbRegistry)
		if err := dec.Decode(info); err != nil {
			return false
		}
		_, err := info.ToChange()
		return err == nil
	}
}

func (m *pbMut) report(decoder string, g guardResult, kinds []string, msg proto.Message, raw []byte,
	fails func(proto.Message) bool) {
	c := m.c
	if g.hang {
		m.hangs++
	}
	tag := ""
	if pbStage != "" {
		// the decoder returned normally; the crash is in code that consumes the accepted value
		decoder = pbStage + "(" + decoder + ")"
		tag = "KNOWN[c09-accepted-input-panics-later] "
	}
	f := pbFinding{decoder, g.sig()}
	c.Count("panic:" + decoder + ":" + g.site)
	if m.seen[f] {
		return
	}
	m.seen[f] = true
	text := ""
	if msg != nil {
		min := msg
		if fails != nil && !g.hang {
			min = shrinkMessage(msg, fails, 400)
		}
		b, _ := proto.Marshal(min)
		text = fmt.Sprintf("minimal message (%d bytes, hex %s): %s", len(b), showHex(b), protoText(min))
	} else {
		text = "input bytes: " + showHex(raw)
	}
	what := "panic"
	if g.hang {
		what = "hang (>60s)"
	}
	c.Oracle("%s", strings.ToValidUTF8(fmt.Sprintf("%s%s in %s at %s: %s; mutation=%s; %s", tag, what, decoder, g.site, g.value,
		strings.Join(kinds, "+"), text), "?"))
}

// one hostile input
func (m *pbMut) one() {
	r, s, c := m.r, m.seeds, m.c
	type job struct {
		name  string
		seed  proto.Message
		run   func(proto.Message) func() bool // decoder over the (wire-normal) message
		bytes func([]byte) func() bool        // decoder over raw bytes (nil: Unmarshal into seed type first)
	}
	var jobs []job
	if len(s.packs) > 0 {
		ps := s.packs[r.Intn(len(s.packs))]
		jobs = append(jobs, job{name: "FromChangePack", seed: ps.pb,
			run: func(x proto.Message) func() bool { return decodePack(x.(*api.ChangePack), ps.pre) }})
		jobs = append(jobs, job{name: "FromChangePack", seed: ps.pb,
			run: func(x proto.Message) func() bool { return decodePack(x.(*api.ChangePack), ps.pre) }})
	}
	if len(s.snapshots) > 0 {
		sn := s.snapshots[r.Intn(len(s.snapshots))]
		jobs = append(jobs, job{name: "BytesToSnapshot", seed: sn,
			run: func(x proto.Message) func() bool {
				b, _ := proto.Marshal(x)
				return decodeSnapshotBytes(b)
			},
			bytes: func(b []byte) func() bool { return decodeSnapshotBytes(b) }})
	}
	if len(s.elements) > 0 {
		el := s.elements[r.Intn(len(s.elements))]
		which := 0
		switch el.Body.(type) {
		case *api.JSONElement_JsonArray:
			which = 1
		case *api.JSONElement_Tree_:
			which = 2
		}
		if r.Intn(5) == 0 {
			which = r.Intn(3) // feed the wrong decoder
		}
		name := []string{"BytesToObject", "BytesToArray", "BytesToTree"}[which]
		jobs = append(jobs, job{name: name, seed: el,
			run: func(x proto.Message) func() bool {
				b, _ := proto.Marshal(x)
				return decodeElementBytes(b, which)
			},
			bytes: func(b []byte) func() bool { return decodeElementBytes(b, which) }})
	}
	if len(s.ops) > 0 {
		ops := s.ops[r.Intn(len(s.ops))]
		wrap := &api.Change{Operations: ops}
		jobs = append(jobs, job{name: "FromOperations", seed: wrap,
			run: func(x proto.Message) func() bool {
				return func() bool {
					_, err := converter.FromOperations(x.(*api.Change).Operations)
					return err == nil
				}
			}})
		jobs = append(jobs, job{name: "ChangeInfo.ToChange", seed: wrap,
			run: func(x proto.Message) func() bool {
				return func() bool {
					info := &database.ChangeInfo{ActorID: "000000000000000000000001", VersionVector: time.NewVersionVector()}
					for _, op := range x.(*api.Change).Operations {
						b, _ := proto.Marshal(op)
						info.Operations = append(info.Operations, b)
					}
					_, err := info.ToChange()
					return err == nil
				}
			}})
	}
	if len(s.vvs) > 0 {
		jobs = append(jobs, job{name: "FromVersionVector", seed: s.vvs[r.Intn(len(s.vvs))],
			run: func(x proto.Message) func() bool {
				return func() bool { _, err := converter.FromVersionVector(x.(*api.VersionVector)); return err == nil }
			}})
	}
	if len(s.presences) > 0 {
		jobs = append(jobs, job{name: "FromPresenceChange", seed: s.presences[r.Intn(len(s.presences))],
			run: func(x proto.Message) func() bool {
				return func() bool {
					_, err := converter.FromPresenceChange(x.(*api.PresenceChange))
					b, _ := proto.Marshal(x)
					_, err2 := database.PresenceChangeFromBytes(b)
					return err == nil && err2 == nil
				}
			},
			bytes: func(b []byte) func() bool {
				return func() bool { _, err := database.PresenceChangeFromBytes(b); return err == nil }
			}})
	}
	if len(s.trees) > 0 {
		tn := s.trees[r.Intn(len(s.trees))]
		jobs = append(jobs, job{name: "FromTreeNodes", seed: &api.TreeNodes{Content: tn},
			run: func(x proto.Message) func() bool {
				return func() bool {
					n, err := converter.FromTreeNodes(x.(*api.TreeNodes).Content)
					if err != nil {
						return false
					}
					stage2()
					if n != nil {
						_ = converter.ToTreeNodes(n)
						_, _ = converter.FromTreeNodesWhenEdit([]*api.TreeNodes{x.(*api.TreeNodes)})
					}
					return true
				}
			}})
	}
	if len(s.infos) > 0 && (r.Intn(8) == 0 || os.Getenv("PBFUZZ_BSON_ONLY") != "") {
		// stored BSON document of a ChangeInfo: the payloads yorkie's own registry decodes
		// (version_vector bytes, presence_change bytes, each operations[i] blob) are damaged, the
		// BSON framing is kept well-formed (MongoDB itself validates framing; the driver's
		// streaming reader allocates by declared length, up to 2 GiB per field, which would only
		// measure the third-party library and kill the harness)
		raw := s.infos[r.Intn(len(s.infos))]
		b, kind, ok := mutateStoredInfo(raw, r)
		if !ok {
			return
		}
		c.Count("mut:bson:" + kind)
		accepted := false
		pbStage = ""
		g := guardRun(pbTimeout, func() { accepted = decodeBSON(b)() })
		if g.bad() {
			m.report("bson", g, []string{kind}, nil, b, nil)
		} else if accepted {
			m.accept++
			c.Count("result:bson:accept")
		} else {
			m.reject++
			c.Count("result:bson:reject")
		}
		return
	}
	if len(jobs) == 0 {
		return
	}
	j := jobs[r.Intn(len(jobs))]
	if r.Intn(4) == 0 {
		// raw byte mutation of the marshalled seed
		sb, _ := proto.Marshal(j.seed)
		b, kind := mutateBytes(sb, r)
		c.Count("mut:" + kind)
		var f func() bool
		var msg proto.Message
		if j.bytes != nil {
			f = j.bytes(b)
		} else {
			msg = j.seed.ProtoReflect().New().Interface()
			if err := proto.Unmarshal(b, msg); err != nil {
				c.Count("result:" + j.name + ":unmarshal-reject")
				m.reject++
				return
			}
			f = j.run(msg)
		}
		acc := false
		pbStage = ""
		g := guardRun(pbTimeout, func() { acc = f() })
		if g.bad() {
			var fails func(proto.Message) bool
			if msg != nil {
				fails = func(x proto.Message) bool {
					y, _, ok := wireNormal(x)
					if !ok {
						return false
					}
					st := pbStage
					pbStage = ""
					g2 := guardRun(pbTimeout, func() { j.run(y)() })
					same := g2.bad() && g2.site == g.site && pbStage == st
					pbStage = st
					return same
				}
			}
			m.report(j.name, g, []string{kind}, msg, b, fails)
			return
		}
		if acc {
			m.accept++
			c.Count("result:" + j.name + ":accept")
		} else {
			m.reject++
			c.Count("result:" + j.name + ":reject")
		}
		return
	}
	mut, kinds := mutateMessage(j.seed, s.pool, r)
	for _, k := range kinds {
		c.Count("mut:" + k)
	}
	norm, _, ok := wireNormal(mut)
	if !ok {
		c.Count("result:" + j.name + ":not-marshallable")
		return
	}
	acc := false
	pbStage = ""
	t0 := gotime.Now()
	g := guardRun(pbTimeout, func() { acc = j.run(norm)() })
	if el := gotime.Since(t0); el > 2*gotime.Second && os.Getenv("PBFUZZ_DUMP") == "slow" {
		b, _ := proto.Marshal(norm)
		pre := ""
		if lastPre != nil {
			if sb, err := converter.SnapshotToBytes(lastPre.RootObject(), lastPre.AllPresences()); err == nil {
				pre = showHex(sb)
			}
		}
		fmt.Fprintf(os.Stderr, "SLOW %s %v stage=%q hang=%v\nMSG %s\nPRE %s\nTEXT %s\n", j.name, el, pbStage, g.hang, showHex(b), pre, protoTextLong(norm))
	}
	if g.bad() {
		fails := func(x proto.Message) bool {
			y, _, ok := wireNormal(x)
			if !ok {
				return false
			}
			st := pbStage
			pbStage = ""
			g2 := guardRun(pbTimeout, func() { j.run(y)() })
			same := g2.bad() && g2.site == g.site && pbStage == st
			pbStage = st
			return same
		}
		m.report(j.name, g, kinds, norm, nil, fails)
		return
	}
	if acc {
		m.accept++
		c.Count("result:" + j.name + ":accept")
	} else {
		m.reject++
		c.Count("result:" + j.name + ":reject")
	}
}

// ---------- engine ----------

func pbExec(c *Ctx, line string, st **fuzzHist, seen map[pbFinding]bool) {
	t := strings.Fields(line)
	switch {
	case t[0] == "HIST" && len(t) == 6:
		seed, _ := strconv.ParseInt(t[1], 10, 64)
		n, _ := strconv.Atoi(t[3])
		steps, _ := strconv.Atoi(t[4])
		h := newHist(seed, t[2], n, t[5] == "1")
		h.line = line
		h.run(c, steps)
		*st = h
		c.Count("class:" + t[2])
	case t[0] == "PBALL" && len(t) == 2 && *st != nil:
		// debug aid: one change pack executed on every recorded pre-state of the current history, timed
		b, ok := parseHex(t[1])
		if !ok {
			return
		}
		for k, ps := range (*st).seeds.packs {
			if ps.pre == nil {
				continue
			}
			pb := &api.ChangePack{}
			if err := proto.Unmarshal(b, pb); err != nil {
				return
			}
			t0 := gotime.Now()
			acc := false
			pbStage = ""
			g := guardRun(1*gotime.Second, func() { acc = decodePack(pb, ps.pre)() })
			fmt.Fprintf(os.Stderr, "PBALL pre#%d accepted=%v elapsed=%v bad=%v %s\n", k, acc, gotime.Since(t0), g.bad(), g.value)
			if g.bad() {
				if sb, err := converter.SnapshotToBytes(ps.pre.RootObject(), ps.pre.AllPresences()); err == nil {
					_ = os.WriteFile(fmt.Sprintf("%s/pbfuzz_pre_%d.hex", os.TempDir(), k), []byte(showHex(sb)), 0o644)
				}
				break
			}
		}
	case t[0] == "PBAT" && len(t) == 3:
		// one fixed change pack executed on a replica seeded from a snapshot (corpus witnesses whose
		// effect needs a pre-state): PBAT <snapshot hex> <change pack hex>
		sb, ok1 := parseHex(t[1])
		b, ok2 := parseHex(t[2])
		if !ok1 || !ok2 {
			return
		}
		pb := &api.ChangePack{}
		if err := proto.Unmarshal(b, pb); err != nil {
			c.Count("result:PBAT:unmarshal-reject")
			return
		}
		pre, err := document.NewInternalDocumentFromSnapshot(pbDocKey, 1, 1, time.NewVersionVector(), sb)
		if err != nil {
			c.Count("result:PBAT:snapshot-reject")
			return
		}
		m := &pbMut{c: c, r: rand.New(rand.NewSource(1)), seeds: &pbSeeds{pool: msgPool{}}, seen: seen}
		acc := false
		pbStage = ""
		g := guardRun(pbTimeout, func() { acc = decodePack(pb, pre)() })
		if g.bad() {
			m.report("FromChangePack", g, []string{"corpus"}, pb, b, nil)
			return
		}
		if acc {
			c.Count("result:PBAT:accept")
		} else {
			c.Count("result:PBAT:reject")
		}
		c.Nontrivial()
	case t[0] == "PB" && len(t) == 3:
		// one fixed hostile input (corpus witnesses): PB <decoder> <hex>
		b, ok := parseHex(t[2])
		if !ok {
			return
		}
		m := &pbMut{c: c, r: rand.New(rand.NewSource(1)), seeds: &pbSeeds{pool: msgPool{}}, seen: seen}
		var f func() bool
		var msg proto.Message
		switch t[1] {
		case "FromChangePack", "FromChangePack@init":
			pb := &api.ChangePack{}
			if err := proto.Unmarshal(b, pb); err != nil {
				c.Count("result:PB:unmarshal-reject")
				return
			}
			msg = pb
			pre := document.NewInternalDocument(pbDocKey)
			if t[1] == "FromChangePack@init" {
				pre = initReplica()
			}
			f = decodePack(pb, pre)
		case "BytesToSnapshot":
			f = decodeSnapshotBytes(b)
		case "BytesToObject":
			f = decodeElementBytes(b, 0)
		case "BytesToArray":
			f = decodeElementBytes(b, 1)
		case "BytesToTree":
			f = decodeElementBytes(b, 2)
		case "bson":
			f = decodeBSON(b)
		default:
			return
		}
		acc := false
		pbStage = ""
		g := guardRun(pbTimeout, func() { acc = f() })
		if g.bad() {
			m.report(t[1], g, []string{"corpus"}, msg, b, nil)
			return
		}
		if acc {
			c.Count("result:PB:" + t[1] + ":accept")
		} else {
			c.Count("result:PB:" + t[1] + ":reject")
		}
		c.Nontrivial()
	case t[0] == "MUT" && len(t) == 3 && *st != nil:
		seed, _ := strconv.ParseInt(t[1], 10, 64)
		n, _ := strconv.Atoi(t[2])
		m := &pbMut{c: c, r: rand.New(rand.NewSource(seed)), seeds: (*st).seeds, seen: seen}
		for i := 0; i < n && m.hangs < 3; i++ {
			m.one()
		}
		if m.accept > 0 && m.reject > 0 {
			c.Nontrivial()
		}
	}
}

func runPbfuzz(c *Ctx) error {
	c.stats.Rule = "NO MODEL STREAM: the Lean engine `pbfuzz` prints nothing and so does this engine; HIST/MUT/PB command lines exist " +
		"only so that a trace replays without the generator (replay is exact up to Go map iteration order inside yorkie); everything is " +
		"decided by the oracle on the real code. Trace = one random multi-client history (2-3 document.Document replicas, 12-40 steps; " +
		"GC on in half of them - with GC off the documents keep GC enabled and receive an empty minimum vector; classes A 45% no undo/" +
		"move, E 10% tree edits that split (level 1/2) and insert content in one operation + edits inside the split-off element, " +
		"B 20% undo/redo, C 12% array moves, D 13% text style+undo - the class only steers the generator, NO classification " +
		"consults it; every pack through ToChangePack/Marshal/Unmarshal/FromChangePack). Oracles: each author's document = its shadow " +
		"fed only from the wire, checked after every single local change (content, presences, and - for changes not emitted by " +
		"undo/redo - what Marshal() does not show: ids and order of the nodes inside Text/Tree with tombstones, removedAt of " +
		"element tombstones); server replica fed from the wire = " +
		"replica fed from stored ChangeInfo through the real BSON registry (content, GarbageLen, version vector, lamport, presences, " +
		"change ids); snapshot round trip judged item by item on three views - L the live root's registrations, G its object graph, " +
		"D the decoded graph - plus the two encodings (proto.Equal after canonical ordering) and Marshal(); class A without GC: " +
		"replica seeded from a mid-log snapshot = replayed replica after the rest of the log. Every differing item must satisfy the " +
		"evidence predicate of a listed finding (known_findings.json, field `predicate`); anything else is written untagged = " +
		"violation. Evidence is collected apart from the oracles: an observer replica executes the log one OPERATION at a time, " +
		"every response and every pending local change is executed operation by operation on a copy of the receiving client's " +
		"shadow, the registered GC pairs are read out of gcNodePairMap, and after every local change the author's content, " +
		"element identities and node order inside Text/Tree (tombstones included) are compared with its wire shadow. Then a malformed stream of hostile inputs derived from that history's own messages (structural protobuf mutation " +
		"normalised through the wire + raw byte mutation) fed to FromChangePack, BytesToSnapshot, BytesToObject/Array/Tree, " +
		"FromOperations, ChangeInfo.ToChange (also from BSON documents with damaged payloads), FromVersionVector, FromPresenceChange/" +
		"PresenceChangeFromBytes, FromTreeNodes under recover()+timeout; stage 2 uses what a decoder accepted the way the server would " +
		"(execute on the pre-state replica, Marshal, DeepCopy, NewRoot, GC, re-encode). Non-trivial = the malformed stream of the " +
		"trace contains at least one accepted and one rejected input; distinct by trace hash"
	seen := map[pbFinding]bool{}
	var st *fuzzHist
	if c.Replay != nil {
		for _, l := range c.Replay {
			if strings.HasPrefix(l, "T ") {
				c.Trace(strings.TrimPrefix(l, "T "))
				st = nil
				continue
			}
			c.Cmd("%s", l)
			pbExec(c, l, &st, seen)
		}
		return nil
	}
	r := c.Rng
	nMut := 150
	if c.Tier == "thorough" {
		nMut = 600
	}
	defer func() {
		if slowCalls > 0 {
			c.stats.Dist["note:calls-slower-than-10s-but-finished"] = slowCalls
		}
	}()
	for i := 0; i < c.N; i++ {
		c.Trace(fmt.Sprintf("pbfuzz-%d-%d", c.Seed, i))
		class := "A"
		switch x := r.Intn(100); {
		case x < 45:
			class = "A"
		case x < 55:
			class = "E"
		case x < 75:
			class = "B"
		case x < 87:
			class = "C"
		default:
			class = "D"
		}
		l := fmt.Sprintf("HIST %d %s %d %d %d", r.Int63n(1<<40), class, 2+r.Intn(2), 12+r.Intn(29), r.Intn(2))
		c.Cmd("%s", l)
		pbExec(c, l, &st, seen)
		l = fmt.Sprintf("MUT %d %d", r.Int63n(1<<40), nMut)
		if os.Getenv("PBFUZZ_NOMUT") != "" {
			continue // statistics runs: histories only (the PRNG stream stays the same)
		}
		c.Cmd("%s", l)
		pbExec(c, l, &st, seen)
	}
	return nil
}
