package main

// engine `access` (C13): project isolation and credentials.
//
// One real in-process server on the memory DB *with a cluster secret*, three
// projects (default D, A, B; thorough adds C) whose fixtures use IDENTICAL document
// keys / channel keys / schema names, and an exhaustive matrix
//   every procedure of the generated service descriptors
//   x every credential kind of its service
//   x {own ids, foreign client id, foreign document id, foreign name (key), foreign
//      revision id, foreign session id, foreign project, wrong password} and the same
//      with ids that exist nowhere ("ghost" twins).
// Requests are sent with a hand-rolled Connect-protocol client over plain HTTP so
// that any header combination can be presented.  Before and after every request
// the memdb tables and the channel manager are dumped per project; every project
// outside the credential's authority must be byte-identical.
//
// Command lines:   CONFIG udp=<bool>            start / reuse a server with that config
//                  PROCS <svc>/<method> ...     run-time descriptor list (model compares with T-gen)
//                  RPC svc=<s> proc=<p>[+variant] cred=<kind> target=<kind>
//                  WEBHOOK on|off|flush|expire  auth webhooks of A and B (one httptest endpoint each) configured /
//                                               removed; verdict cache purged; (thorough) wait for the cache TTL
//                  AUTH proc=<p>[+variant] home=<A|B> token=<none|ta|tb|terr>
//                                               the own-ids request of the home project with its API key and that
//                                               token (ta: only A's webhook allows it, tb: only B's, terr: every
//                                               webhook answers 400, none: 401)
// Observation:     <decision> victim=<unchanged|CHANGED>            (RPC)
//                  <decision> consulted=<n> victim=<…>              (AUTH; n = calls of the home project's OWN webhook)

import (
	"bytes"
	"context"
	"encoding/binary"
	"encoding/json"
	"fmt"
	"io"
	stdlog "log"
	"net"
	"net/http"
	"net/http/httptest"
	"reflect"
	"regexp"
	"sort"
	"strings"
	"sync/atomic"
	gotime "time"
	"unsafe"

	"github.com/hashicorp/go-memdb"
	"google.golang.org/protobuf/encoding/prototext"
	"google.golang.org/protobuf/proto"
	"google.golang.org/protobuf/reflect/protoreflect"
	"google.golang.org/protobuf/reflect/protoregistry"
	"google.golang.org/protobuf/types/known/wrapperspb"

	"github.com/yorkie-team/yorkie/api/converter"
	"github.com/yorkie-team/yorkie/api/types"
	api "github.com/yorkie-team/yorkie/api/yorkie/v1"
	"github.com/yorkie-team/yorkie/api/yorkie/v1/v1connect"
	"github.com/yorkie-team/yorkie/pkg/document"
	yjson "github.com/yorkie-team/yorkie/pkg/document/json"
	"github.com/yorkie-team/yorkie/pkg/document/presence"
	"github.com/yorkie-team/yorkie/pkg/document/time"
	"github.com/yorkie-team/yorkie/pkg/key"
	"github.com/yorkie-team/yorkie/server"
	"github.com/yorkie-team/yorkie/server/logging"
	"github.com/yorkie-team/yorkie/test/helper"
)

func init() { register("access", runAccess) }

// TTL of the auth webhook verdict cache: long enough for every within-TTL sequence of a trace
// (a few dozen local requests), short enough to be waited for once in the thorough tier.
const acHookTTL = 4 * gotime.Second

const (
	acClusterSecret = "verif-cluster-secret"
	acPassword      = "Passw0rd123!"
	acSharedDoc     = "shared-doc"
	acSharedRoom    = "room"
	acSharedSchema  = "sch"
	acGhostID       = "0123456789abcdef01234567" // well-formed, never issued
)

var acServices = []string{v1connect.YorkieServiceName, v1connect.AdminServiceName, v1connect.ClusterServiceName}

// credential kinds per service (the matrix is the full product with the targets)
var acCreds = map[string][]string{
	"YorkieService":  {"none", "badkey", "otherkey", "ownkey"},
	"AdminService":   {"none", "badtoken", "outsider", "member", "owner", "badsecret", "emptysecret", "othersecret", "ownsecret"},
	"ClusterService": {"none", "wrongsecret", "prefixsecret", "longersecret", "rightsecret"},
}

// target kind -> request fields it substitutes
var acTargetFields = map[string][]string{
	"client":  {"client_id"},
	"docid":   {"document_id", "resources"},
	"name":    {"document_key", "document_keys", "channel_key", "channel_keys", "schema_name", "change_pack", "resources"},
	"rev":     {"revision_id"},
	"session": {"session_id"},
	"project": {"project_name", "project_id", "project", "id", "name"},
}

// procedures with an extra request shape
var acVariants = map[string][]string{
	"YorkieService/RefreshChannel":   {"", "first"},
	"YorkieService/DeactivateClient": {"", "async"},
}

// documented public procedures of the admin service (docs + isRequiredAuth)
var acAdminPublic = map[string]bool{"SignUp": true, "LogIn": true, "ChangePassword": true, "DeleteAccount": true}

type acUser struct{ name, pass, token, id string }

type acFix struct {
	c1, c2            string
	doc               *document.Document
	docID, onlyID     string
	rev, sess         string
	onlyKey, onlyRoom string
	onlySchema        string
}

type acProj struct {
	label, name, id, pub, sec string
	project                   *api.Project
	owner                     string
	marker                    string
	fx                        *acFix
	sessions                  []string // every channel session created in this project and not yet detached
}

type acWorld struct {
	c       *Ctx
	udp     bool
	svr     *server.Yorkie
	addr    string
	hc      *http.Client
	mdb     *memdb.MemDB
	users   map[string]*acUser
	projs   map[string]*acProj
	order   []string
	seq     int
	methods map[string]protoreflect.MethodDescriptor
	third   bool
	ghostID string             // well-formed id that was never issued
	ghostNm string             // prefix of names nobody uses
	hooks   map[string]*acHook // auth webhook endpoint of project A / B
	hookOn  bool               // A and B currently have their auth webhook configured
}

// acHook is the auth webhook endpoint of one project. Verdict per token: "setup" (the harness' own
// fixture traffic) and "t<label>" allowed, "" 401, "terr" 400, everything else 403.
type acHook struct {
	label string
	srv   *httptest.Server
	calls atomic.Int64 // requests other than the harness' own fixture traffic
}

func newAcHook(label string) *acHook {
	h := &acHook{label: label}
	h.srv = httptest.NewServer(http.HandlerFunc(func(rw http.ResponseWriter, rq *http.Request) {
		req, err := types.NewAuthWebhookRequest(rq.Body)
		if err != nil {
			rw.WriteHeader(http.StatusBadRequest)
			return
		}
		if req.Token != "setup" {
			h.calls.Add(1)
		}
		status, res := http.StatusForbidden, types.AuthWebhookResponse{Allowed: false, Reason: "denied by " + label}
		switch req.Token {
		case "setup", "t" + strings.ToLower(label):
			status, res = http.StatusOK, types.AuthWebhookResponse{Allowed: true}
		case "":
			status, res = http.StatusUnauthorized, types.AuthWebhookResponse{Allowed: false, Reason: "no token"}
		case "terr":
			rw.WriteHeader(http.StatusBadRequest)
			return
		}
		rw.Header().Set("Content-Type", "application/json")
		rw.WriteHeader(status)
		_ = json.NewEncoder(rw).Encode(res)
	}))
	return h
}

// keyHdr is the header set of the harness' own fixture traffic for a project.
func (w *acWorld) keyHdr(label string) map[string]string {
	h := acHKey(w.projs[label].pub)
	if w.hookOn && w.hooks[label] != nil {
		h[types.AuthorizationKey] = "setup"
	}
	return h
}

// setWebhook configures (or removes) the auth webhook of A and B through the admin API and
// purges the verdict cache.
func (w *acWorld) setWebhook(on bool) {
	for _, l := range []string{"A", "B"} {
		p := w.projs[l]
		f := &api.UpdatableProjectFields{
			AuthWebhookUrl:             wrapperspb.String(""),
			AuthWebhookMethods:         &api.UpdatableProjectFields_AuthWebhookMethods{},
			AuthWebhookMaxRetries:      wrapperspb.UInt64(0),
			AuthWebhookMinWaitInterval: wrapperspb.String("10ms"),
			AuthWebhookMaxWaitInterval: wrapperspb.String("10ms"),
		}
		if on {
			f.AuthWebhookUrl = wrapperspb.String(w.hooks[l].srv.URL)
			for _, m := range types.AuthMethods() {
				f.AuthWebhookMethods.Methods = append(f.AuthWebhookMethods.Methods, string(m))
			}
		}
		w.must("AdminService/UpdateProject", acHTok(w.users[p.owner].token), &api.UpdateProjectRequest{Id: p.id, Fields: f})
		w.refreshProject(l)
	}
	w.hookOn = on
	w.svr.Backend().Cache.AuthWebhook.Purge()
}

type acRes struct {
	code string
	msg  string
	resp proto.Message
	text string // everything the caller can see (response body or error message + details)
}

// ---------------------------------------------------------------- descriptors

func acMethods() (map[string]protoreflect.MethodDescriptor, []string) {
	m := map[string]protoreflect.MethodDescriptor{}
	var order []string
	for _, full := range acServices {
		d, err := protoregistry.GlobalFiles.FindDescriptorByName(protoreflect.FullName(full))
		if err != nil {
			panic(err)
		}
		sd := d.(protoreflect.ServiceDescriptor)
		for i := 0; i < sd.Methods().Len(); i++ {
			md := sd.Methods().Get(i)
			k := string(sd.Name()) + "/" + string(md.Name())
			m[k] = md
			order = append(order, k)
		}
	}
	return m, order
}

// ---------------------------------------------------------------- transport

func (w *acWorld) call(svcMethod string, hdr map[string]string, req proto.Message) acRes {
	md := w.methods[svcMethod]
	body, err := proto.Marshal(req)
	if err != nil {
		return acRes{code: "marshal-error", msg: err.Error()}
	}
	stream := md.IsStreamingServer()
	ctx, cancel := context.WithTimeout(context.Background(), 10*gotime.Second)
	defer cancel()
	ct := "application/proto"
	if stream {
		env := make([]byte, 5+len(body))
		binary.BigEndian.PutUint32(env[1:5], uint32(len(body)))
		copy(env[5:], body)
		body = env
		ct = "application/connect+proto"
	}
	url := "http://" + w.addr + "/" + string(md.Parent().FullName()) + "/" + string(md.Name())
	hreq, _ := http.NewRequestWithContext(ctx, http.MethodPost, url, bytes.NewReader(body))
	hreq.Header.Set("Content-Type", ct)
	hreq.Header.Set("Connect-Protocol-Version", "1")
	hreq.Header.Set(types.UserAgentKey, types.GoSDKType+"/verif")
	for k, v := range hdr {
		hreq.Header.Set(k, v)
	}
	hresp, err := w.hc.Do(hreq)
	if err != nil {
		return acRes{code: "crash", msg: "transport", text: ""}
	}
	defer hresp.Body.Close()
	newOut := func() proto.Message {
		mt, err := protoregistry.GlobalTypes.FindMessageByName(md.Output().FullName())
		if err != nil {
			panic(err)
		}
		return mt.New().Interface()
	}
	parseErr := func(b []byte) acRes {
		var e struct {
			Code    string            `json:"code"`
			Message string            `json:"message"`
			Details []json_RawMessage `json:"details"`
		}
		if json.Unmarshal(b, &e) != nil || e.Code == "" {
			return acRes{code: fmt.Sprintf("http-%d", hresp.StatusCode), msg: string(b), text: string(b)}
		}
		return acRes{code: e.Code, msg: e.Message, text: string(b)}
	}
	if hresp.StatusCode != http.StatusOK {
		b, _ := io.ReadAll(hresp.Body)
		return parseErr(b)
	}
	if !stream {
		b, err := io.ReadAll(hresp.Body)
		if err != nil {
			return acRes{code: "crash", msg: "transport-read"}
		}
		out := newOut()
		if err := proto.Unmarshal(b, out); err != nil {
			return acRes{code: "bad-response", msg: err.Error()}
		}
		return acRes{code: "ok", resp: out, text: prototext.Format(out)}
	}
	// server stream: first envelope
	var h [5]byte
	if _, err := io.ReadFull(hresp.Body, h[:]); err != nil {
		return acRes{code: "crash", msg: "transport-stream"}
	}
	n := binary.BigEndian.Uint32(h[1:5])
	b := make([]byte, n)
	if _, err := io.ReadFull(hresp.Body, b); err != nil {
		return acRes{code: "crash", msg: "transport-stream"}
	}
	if h[0]&2 != 0 { // end of stream
		var e struct {
			Error json_RawMessage `json:"error"`
		}
		if json.Unmarshal(b, &e) == nil && len(e.Error) > 0 {
			return parseErr(e.Error)
		}
		return acRes{code: "ok", msg: "end-of-stream", text: ""}
	}
	out := newOut()
	if err := proto.Unmarshal(b, out); err != nil {
		return acRes{code: "bad-response", msg: err.Error()}
	}
	return acRes{code: "ok", resp: out, text: prototext.Format(out)}
}

type json_RawMessage = json.RawMessage

func (w *acWorld) must(svcMethod string, hdr map[string]string, req proto.Message) proto.Message {
	r := w.call(svcMethod, hdr, req)
	if r.code != "ok" {
		panic(fmt.Sprintf("setup %s failed: %s %s", svcMethod, r.code, r.msg))
	}
	return r.resp
}

func acHKey(pub string) map[string]string { return map[string]string{types.APIKeyKey: pub} }
func acHTok(tok string) map[string]string {
	return map[string]string{types.AuthorizationKey: types.AuthSchemeBearer + " " + tok}
}
func acHSec(sec string) map[string]string {
	return map[string]string{types.AuthorizationKey: types.AuthSchemeAPIKey + " " + sec}
}

// ---------------------------------------------------------------- world set-up

func acFreePort() int {
	l, err := net.Listen("tcp", "127.0.0.1:0")
	if err != nil {
		panic(err)
	}
	defer l.Close()
	return l.Addr().(*net.TCPAddr).Port
}

func newAcWorld(c *Ctx, udp, third bool) (w *acWorld, err error) {
	defer func() {
		if r := recover(); r != nil {
			err = fmt.Errorf("access world: %v", r)
		}
	}()
	_ = logging.SetLogLevel("fatal") // the webhook-error lines make the server log at error level
	stdlog.SetOutput(io.Discard)     // net/http reports recovered handler panics here
	conf := helper.TestConfig()
	conf.Mongo = nil
	conf.RPC.Port = acFreePort()
	conf.Profiling.Port = acFreePort()
	conf.Backend.GatewayAddr = fmt.Sprintf("localhost:%d", conf.RPC.Port)
	conf.Backend.RPCAddr = conf.Backend.GatewayAddr
	conf.Backend.ClusterSecret = acClusterSecret // C13 runs WITH a cluster secret (open mode is documented behaviour)
	conf.Backend.UseDefaultProject = udp
	conf.Backend.AdminTokenDuration = "24h"
	conf.Backend.ChannelSessionTTL = "1h"
	conf.Backend.ChannelSessionCleanupInterval = "1h" // per-project TTL defaults to 15s; no background expiry during the run
	conf.Housekeeping.Interval = "1h"
	conf.Backend.AuthWebhookCacheTTL = acHookTTL.String()
	svr, err := server.New(conf)
	if err != nil {
		return nil, err
	}
	if err := svr.Start(); err != nil {
		return nil, err
	}
	w = &acWorld{c: c, udp: udp, svr: svr, addr: svr.RPCAddr(), hc: &http.Client{}, users: map[string]*acUser{},
		projs: map[string]*acProj{}, third: third, hooks: map[string]*acHook{"A": newAcHook("A"), "B": newAcHook("B")}}
	w.methods, _ = acMethods()
	w.ghostID, w.ghostNm = acGhostID, "nowhere"
	if c.Tier == "thorough" { // thorough: random well-formed ids / names instead of the fixed ones
		const hexd = "0123456789abcdef"
		b := make([]byte, 24)
		for i := range b {
			b[i] = hexd[c.Rng.Intn(16)]
		}
		w.ghostID, w.ghostNm = string(b), fmt.Sprintf("nowhere%d", c.Rng.Intn(1<<30))
	}
	// memdb handle of the memory database (unexported field `db`)
	dbv := reflect.ValueOf(svr.Backend().DB).Elem().FieldByName("db")
	w.mdb = *(**memdb.MemDB)(unsafe.Pointer(dbv.UnsafeAddr()))

	for _, u := range []string{"ua", "ub", "ma", "un"} {
		w.signUp("verif-" + u)
		w.users[u] = w.login("verif-"+u, acPassword)
	}
	if dp, err := svr.DefaultProject(context.Background()); err == nil {
		w.projs["D"] = &acProj{label: "D", name: dp.Name, id: dp.ID.String(), pub: dp.PublicKey, sec: dp.SecretKey,
			project: converter.ToProject(dp), owner: "", marker: "SECRET-MARKER-D"}
		w.order = []string{"D"}
	} // UseDefaultProject=false: the default project does not exist at all
	w.order = append(w.order, "A", "B")
	mk := func(label, owner string) {
		r := w.must("AdminService/CreateProject", acHTok(w.users[owner].token), &api.CreateProjectRequest{Name: "proj-" + strings.ToLower(label)}).(*api.CreateProjectResponse)
		w.projs[label] = &acProj{label: label, name: r.Project.Name, owner: owner, marker: "SECRET-MARKER-" + label}
		w.refreshProject(label)
	}
	mk("A", "ua")
	mk("B", "ub")
	if third {
		mk("C", "ub")
		w.order = append(w.order, "C")
	}
	w.ensureMembers()
	for _, l := range w.order {
		if l != "D" {
			w.rebuild(l)
		}
	}
	return w, nil
}

func (w *acWorld) close() {
	if w != nil && w.svr != nil {
		_ = w.svr.Shutdown(true)
	}
	if w != nil {
		for _, h := range w.hooks {
			h.srv.Close()
		}
	}
}

func (w *acWorld) signUp(name string) {
	w.must("AdminService/SignUp", nil, &api.SignUpRequest{Username: name, Password: acPassword})
}

func (w *acWorld) login(name, pass string) *acUser {
	r := w.must("AdminService/LogIn", nil, &api.LogInRequest{Username: name, Password: pass}).(*api.LogInResponse)
	u := &acUser{name: name, pass: pass, token: r.Token}
	if info, err := w.svr.Backend().DB.FindUserInfoByName(context.Background(), name); err == nil {
		u.id = info.ID.String()
	}
	return u
}

func (w *acWorld) refreshProject(label string) {
	p := w.projs[label]
	if p.owner == "" {
		return
	}
	r := w.must("AdminService/GetProject", acHTok(w.users[p.owner].token), &api.GetProjectRequest{Name: p.name}).(*api.GetProjectResponse)
	p.project = r.Project
	p.id, p.pub, p.sec = r.Project.Id, r.Project.PublicKey, r.Project.SecretKey
}

// ma is a plain member of A; un is a member of nothing.
func (w *acWorld) ensureMembers() {
	a := w.projs["A"]
	own := acHTok(w.users["ua"].token)
	lm := w.must("AdminService/ListMembers", own, &api.ListMembersRequest{ProjectName: a.name}).(*api.ListMembersResponse)
	has := map[string]string{}
	for _, m := range lm.Members {
		has[m.Username] = m.Role
	}
	if _, ok := has[w.users["un"].name]; ok {
		w.must("AdminService/RemoveMember", own, &api.RemoveMemberRequest{ProjectName: a.name, Username: w.users["un"].name})
	}
	if r, ok := has[w.users["ma"].name]; !ok {
		inv := w.must("AdminService/CreateInvite", own, &api.CreateInviteRequest{ProjectName: a.name, Role: "member",
			ExpireOption: api.InviteExpireOption_INVITE_EXPIRE_OPTION_ONE_HOUR}).(*api.CreateInviteResponse)
		w.must("AdminService/AcceptInvite", acHTok(w.users["ma"].token), &api.AcceptInviteRequest{Token: inv.Token})
	} else if r != "member" {
		w.must("AdminService/UpdateMemberRole", own, &api.UpdateMemberRoleRequest{ProjectName: a.name, Username: w.users["ma"].name, Role: "member"})
	}
}

func acActorOf(id string) time.ActorID {
	a, err := time.ActorIDFromHex(id)
	if err != nil {
		panic(err)
	}
	return a
}

func acAttachPack(docKey, clientID string) *api.ChangePack {
	d := document.New(key.Key(docKey))
	d.SetActor(acActorOf(clientID))
	if err := d.Update(func(r *yjson.Object, p *presence.Presence) error {
		p.Initialize(nil)
		return nil
	}); err != nil {
		panic(err)
	}
	pb, err := converter.ToChangePack(d.CreateChangePack())
	if err != nil {
		panic(err)
	}
	return pb
}

// rebuild discards whatever is left of the project's fixture and creates a
// pristine one: c1 active and attached to the shared-key document (with content,
// a pushed change, a revision) and to a document only this project has; c2
// active, attached to nothing; one session of c1 on the shared channel key; one
// session of c2 on a channel key only this project has; schemas.
func (w *acWorld) rebuild(label string) {
	p := w.projs[label]
	w.refreshProject(label)
	if label == "A" {
		w.ensureMembers()
	}
	k, s := w.keyHdr(label), acHSec(p.sec)
	if old := p.fx; old != nil {
		for _, cid := range []string{old.c1, old.c2} {
			w.call("YorkieService/DeactivateClient", k, &api.DeactivateClientRequest{ClientId: cid, Synchronous: true})
		}
	}
	for _, sid := range p.sessions {
		w.svr.Backend().Channel.Detach(context.Background(), types.ID(sid)) //nolint
	}
	p.sessions = nil
	// remove every live document of the project
	for _, dk := range w.liveDocKeys(p.id) {
		w.call("AdminService/RemoveDocumentByAdmin", s, &api.RemoveDocumentByAdminRequest{DocumentKey: dk, Force: true})
	}
	w.seq++
	fx := &acFix{onlyKey: "only-" + strings.ToLower(label) + "-doc", onlyRoom: "only-" + strings.ToLower(label) + "-room",
		onlySchema: "only-" + strings.ToLower(label) + "-sch"}
	act := func(n string) string {
		r := w.must("YorkieService/ActivateClient", k, &api.ActivateClientRequest{ClientKey: fmt.Sprintf("%s-%s-%d", n, label, w.seq)}).(*api.ActivateClientResponse)
		return r.ClientId
	}
	fx.c1, fx.c2 = act("c1"), act("c2")
	// shared-key document with content
	d := document.New(key.Key(acSharedDoc))
	d.SetActor(acActorOf(fx.c1))
	if err := d.Update(func(r *yjson.Object, pr *presence.Presence) error {
		pr.Initialize(nil)
		r.SetString("secret", p.marker)
		return nil
	}); err != nil {
		panic(err)
	}
	pb, _ := converter.ToChangePack(d.CreateChangePack())
	ar := w.must("YorkieService/AttachDocument", k, &api.AttachDocumentRequest{ClientId: fx.c1, ChangePack: pb}).(*api.AttachDocumentResponse)
	pack, err := converter.FromChangePack(ar.ChangePack)
	if err != nil {
		panic(err)
	}
	if err := d.ApplyChangePack(pack); err != nil {
		panic(err)
	}
	d.SetStatus(document.StatusAttached)
	fx.doc, fx.docID = d, ar.DocumentId
	if err := d.Update(func(r *yjson.Object, pr *presence.Presence) error {
		r.SetInteger("n", w.seq)
		return nil
	}); err != nil {
		panic(err)
	}
	pb, _ = converter.ToChangePack(d.CreateChangePack())
	pr := w.must("YorkieService/PushPullChanges", k, &api.PushPullChangesRequest{ClientId: fx.c1, DocumentId: fx.docID, ChangePack: pb}).(*api.PushPullChangesResponse)
	pack, err = converter.FromChangePack(pr.ChangePack)
	if err != nil {
		panic(err)
	}
	if err := d.ApplyChangePack(pack); err != nil {
		panic(err)
	}
	// document only this project has
	ar2 := w.must("YorkieService/AttachDocument", k, &api.AttachDocumentRequest{ClientId: fx.c1, ChangePack: acAttachPack(fx.onlyKey, fx.c1)}).(*api.AttachDocumentResponse)
	fx.onlyID = ar2.DocumentId
	rv := w.must("YorkieService/CreateRevision", k, &api.CreateRevisionRequest{ClientId: fx.c1, DocumentId: fx.docID, Label: fmt.Sprintf("r%d", w.seq)}).(*api.CreateRevisionResponse)
	fx.rev = rv.Revision.Id
	ac := w.must("YorkieService/AttachChannel", k, &api.AttachChannelRequest{ClientId: fx.c1, ChannelKey: acSharedRoom}).(*api.AttachChannelResponse)
	fx.sess = ac.SessionId
	ac2 := w.must("YorkieService/AttachChannel", k, &api.AttachChannelRequest{ClientId: fx.c2, ChannelKey: fx.onlyRoom}).(*api.AttachChannelResponse)
	p.sessions = append(p.sessions, ac.SessionId, ac2.SessionId)
	for _, sn := range []string{acSharedSchema, fx.onlySchema} {
		r := w.call("AdminService/CreateSchema", s, &api.CreateSchemaRequest{SchemaName: sn, SchemaVersion: 1, SchemaBody: "type Document = {};"})
		if r.code != "ok" && r.code != "already_exists" {
			panic("setup CreateSchema: " + r.code + " " + r.msg)
		}
	}
	p.fx = fx
}

func (w *acWorld) liveDocKeys(projectID string) []string {
	txn := w.mdb.Txn(false)
	defer txn.Abort()
	it, err := txn.Get("documents", "id")
	if err != nil {
		panic(err)
	}
	var out []string
	for raw := it.Next(); raw != nil; raw = it.Next() {
		v := reflect.ValueOf(raw).Elem()
		if v.FieldByName("ProjectID").String() == projectID && v.FieldByName("RemovedAt").IsZero() {
			out = append(out, v.FieldByName("Key").String())
		}
	}
	sort.Strings(out)
	return out
}

// ---------------------------------------------------------------- state dump

func acCanon(sb *strings.Builder, v reflect.Value, depth int) {
	if depth > 12 {
		sb.WriteString("…")
		return
	}
	switch v.Kind() {
	case reflect.Ptr, reflect.Interface:
		if v.IsNil() {
			sb.WriteString("nil")
			return
		}
		acCanon(sb, v.Elem(), depth+1)
	case reflect.Struct:
		if v.Type().PkgPath() == "time" && v.Type().Name() == "Time" {
			fmt.Fprintf(sb, "t(%d,%d)", v.Field(0).Uint(), v.Field(1).Int())
			return
		}
		sb.WriteString(v.Type().Name() + "{")
		for i := 0; i < v.NumField(); i++ {
			sb.WriteString(v.Type().Field(i).Name + ":")
			acCanon(sb, v.Field(i), depth+1)
			sb.WriteByte(' ')
		}
		sb.WriteByte('}')
	case reflect.Map:
		type kv struct{ k, v string }
		var l []kv
		it := v.MapRange()
		for it.Next() {
			var a, b strings.Builder
			acCanon(&a, it.Key(), depth+1)
			acCanon(&b, it.Value(), depth+1)
			l = append(l, kv{a.String(), b.String()})
		}
		sort.Slice(l, func(i, j int) bool { return l[i].k < l[j].k })
		sb.WriteString("map[")
		for _, e := range l {
			sb.WriteString(e.k + "=" + e.v + " ")
		}
		sb.WriteByte(']')
	case reflect.Slice, reflect.Array:
		if v.Kind() == reflect.Slice && v.Type().Elem().Kind() == reflect.Uint8 {
			fmt.Fprintf(sb, "%x", v.Bytes())
			return
		}
		sb.WriteByte('[')
		for i := 0; i < v.Len(); i++ {
			acCanon(sb, v.Index(i), depth+1)
			sb.WriteByte(' ')
		}
		sb.WriteByte(']')
	case reflect.String:
		fmt.Fprintf(sb, "%q", v.String())
	case reflect.Bool:
		fmt.Fprintf(sb, "%v", v.Bool())
	case reflect.Int, reflect.Int8, reflect.Int16, reflect.Int32, reflect.Int64:
		fmt.Fprintf(sb, "%d", v.Int())
	case reflect.Uint, reflect.Uint8, reflect.Uint16, reflect.Uint32, reflect.Uint64, reflect.Uintptr:
		fmt.Fprintf(sb, "%d", v.Uint())
	case reflect.Float32, reflect.Float64:
		fmt.Fprintf(sb, "%v", v.Float())
	default:
		sb.WriteString("?" + v.Kind().String())
	}
}

var acTables = []string{"projects", "members", "invites", "clients", "documents", "schemas", "changes", "snapshots",
	"versionvectors", "snapshot_bodies", "revisions"}

// dump returns, per project id, the canonical text of every memdb row that
// belongs to it (all tables) plus its channels in the channel manager, and
// under "users" the users table.
func (w *acWorld) dump() map[string]string {
	out := map[string]*strings.Builder{}
	get := func(id string) *strings.Builder {
		if out[id] == nil {
			out[id] = &strings.Builder{}
		}
		return out[id]
	}
	txn := w.mdb.Txn(false)
	defer txn.Abort()
	for _, tbl := range append([]string{"users"}, acTables...) {
		it, err := txn.Get(tbl, "id")
		if err != nil {
			panic(err)
		}
		for raw := it.Next(); raw != nil; raw = it.Next() {
			v := reflect.ValueOf(raw)
			for v.Kind() == reflect.Ptr {
				v = v.Elem()
			}
			owner := "users"
			if tbl == "projects" {
				owner = v.FieldByName("ID").String()
			} else if tbl != "users" {
				owner = v.FieldByName("ProjectID").String()
			}
			sb := get(owner)
			sb.WriteString(tbl + ":")
			acCanon(sb, v, 0)
			sb.WriteByte('\n')
		}
	}
	for _, l := range w.order {
		p := w.projs[l]
		sb := get(p.id)
		for _, ch := range w.svr.Backend().Channel.List(types.ID(p.id), "", 100) {
			fmt.Fprintf(sb, "channel:%s sessions=%d\n", ch.Key.ChannelKey, ch.Sessions)
		}
	}
	res := map[string]string{}
	for k, v := range out {
		res[k] = v.String()
	}
	return res
}

// ---------------------------------------------------------------- request construction

type acSlots struct {
	client, attacher, docID, docKey, rev, sess, room, schema string
	projName, projID                                         string
	projMsg                                                  *api.Project
	user, pass                                               string
	invite                                                   string
	home                                                     *acProj
}

func (w *acWorld) slots(target string) *acSlots { return w.slotsFor(target, "A", "B") }

// slotsFor: the ids of the home project's fixture, one of them replaced according to the target kind
// by the other project's or by one that exists nowhere.
func (w *acWorld) slotsFor(target, home, other string) *acSlots {
	a, b := w.projs[home], w.projs[other]
	s := &acSlots{client: a.fx.c1, attacher: a.fx.c2, docID: a.fx.docID, docKey: acSharedDoc, rev: a.fx.rev, sess: a.fx.sess,
		room: acSharedRoom, schema: acSharedSchema, projName: a.name, projID: a.id, projMsg: a.project, home: a,
		user: w.users["ua"].name, pass: acPassword}
	ghost := strings.HasPrefix(target, "g")
	pick := func(f, g string) string {
		if ghost {
			return g
		}
		return f
	}
	switch strings.TrimLeft(target, "fg") {
	case "client":
		s.client, s.attacher = pick(b.fx.c1, w.ghostID), pick(b.fx.c2, w.ghostID)
	case "docid":
		s.docID = pick(b.fx.docID, w.ghostID)
	case "name":
		s.docKey, s.room, s.schema = pick(b.fx.onlyKey, w.ghostNm+"-doc"), pick(b.fx.onlyRoom, w.ghostNm+"-room"), pick(b.fx.onlySchema, w.ghostNm+"-sch")
	case "rev":
		s.rev = pick(b.fx.rev, w.ghostID)
	case "session":
		s.sess = pick(b.fx.sess, w.ghostID)
	case "project":
		s.projName, s.projID = pick(b.name, w.ghostNm+"-proj"), pick(b.id, w.ghostID)
		if ghost {
			gp := proto.Clone(a.project).(*api.Project)
			gp.Id, gp.Name, gp.PublicKey, gp.SecretKey = w.ghostID, w.ghostNm+"-proj", w.ghostNm+"-pub", w.ghostNm+"-sec"
			s.projMsg = gp
		} else {
			s.projMsg = b.project
		}
	case "pass":
		s.pass = "Wr0ngPassw0rd!"
	}
	return s
}

// applicable target kinds of a request message: own + every f/g pair whose fields it has
func acTargets(svc, method string, md protoreflect.MethodDescriptor) []string {
	fields := md.Input().Fields()
	has := func(names []string) bool {
		for _, n := range names {
			if fields.ByName(protoreflect.Name(n)) != nil {
				return true
			}
		}
		return false
	}
	out := []string{"own"}
	for _, k := range []string{"client", "docid", "name", "rev", "session", "project"} {
		if k == "project" && (method == "CreateProject" || method == "CreateDocument" && false) {
			continue // `name` of CreateProject is a new name, not a target
		}
		if has(acTargetFields[k]) {
			out = append(out, "f"+k, "g"+k)
		}
	}
	if has([]string{"password", "current_password"}) && method != "SignUp" {
		out = append(out, "fpass")
	}
	return out
}

// build fills the request of svc/method from the slots by field name.
func (w *acWorld) build(svc, method, variant string, s *acSlots) proto.Message {
	md := w.methods[svc+"/"+method]
	mt, err := protoregistry.GlobalTypes.FindMessageByName(md.Input().FullName())
	if err != nil {
		panic(err)
	}
	msg := mt.New()
	w.seq++
	fresh := fmt.Sprintf("%d", w.seq)
	client := s.client
	if method == "AttachDocument" {
		client = s.attacher
	}
	fs := msg.Descriptor().Fields()
	for i := 0; i < fs.Len(); i++ {
		fd := fs.Get(i)
		name := string(fd.Name())
		setS := func(v string) {
			if fd.Kind() == protoreflect.StringKind && !fd.IsList() {
				msg.Set(fd, protoreflect.ValueOfString(v))
			}
		}
		setI := func(v int64) {
			switch fd.Kind() {
			case protoreflect.Int32Kind, protoreflect.Sint32Kind:
				msg.Set(fd, protoreflect.ValueOfInt32(int32(v)))
			case protoreflect.Int64Kind, protoreflect.Sint64Kind:
				msg.Set(fd, protoreflect.ValueOfInt64(v))
			case protoreflect.EnumKind:
				msg.Set(fd, protoreflect.ValueOfEnum(protoreflect.EnumNumber(v)))
			}
		}
		switch name {
		case "client_id":
			setS(client)
		case "client_key":
			if svc+"/"+method != "YorkieService/RefreshChannel" || variant == "first" {
				setS("ck-" + fresh)
			}
		case "document_id":
			setS(s.docID)
		case "document_key":
			setS(s.docKey)
		case "document_keys":
			msg.Mutable(fd).List().Append(protoreflect.ValueOfString(s.docKey))
		case "channel_key":
			setS(s.room)
		case "channel_keys":
			msg.Mutable(fd).List().Append(protoreflect.ValueOfString(s.room))
		case "revision_id":
			setS(s.rev)
		case "session_id":
			if variant != "first" {
				setS(s.sess)
			}
		case "schema_name":
			if method == "CreateSchema" {
				setS("new-sch-" + fresh)
			} else {
				setS(s.schema)
			}
		case "schema_body":
			setS("type Document = {};")
		case "version", "schema_version":
			setI(1)
		case "project_name":
			setS(s.projName)
		case "project_id":
			setS(s.projID)
		case "id":
			setS(s.projID)
		case "name":
			if method == "CreateProject" {
				setS("np-" + fresh)
			} else {
				setS(s.projName)
			}
		case "project":
			msg.Set(fd, protoreflect.ValueOfMessage(proto.Clone(s.projMsg).ProtoReflect()))
		case "username":
			setS(s.user)
		case "password", "current_password":
			setS(s.pass)
		case "new_password":
			setS(acPassword)
		case "role":
			setS("member")
		case "label":
			setS("l-" + fresh)
		case "topic":
			setS("topic")
		case "payload":
			msg.Set(fd, protoreflect.ValueOfBytes([]byte(`"x"`)))
		case "token":
			setS(s.invite)
		case "limit", "page_size":
			setI(10)
		case "date_range", "cache_type":
			setI(1)
		case "expire_option":
			setI(int64(api.InviteExpireOption_INVITE_EXPIRE_OPTION_ONE_HOUR))
		case "server_seq":
			setI(1)
		case "synchronous":
			msg.Set(fd, protoreflect.ValueOfBool(variant != "async"))
		case "force", "is_forward", "include_root", "include_presences":
			msg.Set(fd, protoreflect.ValueOfBool(true))
		case "key":
			setS("cache-key")
		case "root":
			setS(`{"k":"v"}`)
		case "fields":
			f := &api.UpdatableProjectFields{ClientDeactivateThreshold: wrapperspb.String("24h")}
			msg.Set(fd, protoreflect.ValueOfMessage(f.ProtoReflect()))
		case "change_pack":
			var pb *api.ChangePack
			if method == "AttachDocument" {
				pb = acAttachPack(s.docKey, client)
			} else {
				pb, _ = converter.ToChangePack(s.home.fx.doc.CreateChangePack())
				pb.DocumentKey = s.docKey
				if method == "RemoveDocument" {
					pb.IsRemoved = true
				}
			}
			msg.Set(fd, protoreflect.ValueOfMessage(pb.ProtoReflect()))
		case "resources":
			l := msg.Mutable(fd).List()
			l.Append(protoreflect.ValueOfMessage((&api.ResourceDescriptor{Resource: &api.ResourceDescriptor_Document{
				Document: &api.DocumentDescriptor{DocumentId: s.docID}}}).ProtoReflect()))
			l.Append(protoreflect.ValueOfMessage((&api.ResourceDescriptor{Resource: &api.ResourceDescriptor_Channel{
				Channel: &api.ChannelDescriptor{ChannelKey: s.room}}}).ProtoReflect()))
		}
	}
	return msg.Interface()
}

// headers and authority (labels of the projects the credential legitimately speaks for)
func (w *acWorld) cred(svc, kind string) (map[string]string, []string) {
	a, b := w.projs["A"], w.projs["B"]
	switch svc + ":" + kind {
	case "YorkieService:none":
		if w.udp {
			return nil, []string{"D"}
		}
		return nil, nil
	case "YorkieService:badkey":
		return acHKey("no-such-api-key"), nil
	case "YorkieService:otherkey":
		return acHKey(b.pub), []string{"B"}
	case "YorkieService:ownkey":
		return acHKey(a.pub), []string{"A"}
	case "AdminService:none":
		return nil, nil
	case "AdminService:badtoken":
		return acHTok("not-a-token"), nil
	case "AdminService:outsider":
		return acHTok(w.users["un"].token), nil
	case "AdminService:member":
		return acHTok(w.users["ma"].token), []string{"A"}
	case "AdminService:owner":
		return acHTok(w.users["ua"].token), []string{"A"}
	case "AdminService:badsecret":
		return acHSec("no-such-secret"), nil
	case "AdminService:emptysecret":
		if w.udp {
			return acHSec(""), []string{"D"}
		}
		return acHSec(""), nil
	case "AdminService:othersecret":
		return acHSec(b.sec), []string{"B"}
	case "AdminService:ownsecret":
		return acHSec(a.sec), []string{"A"}
	case "ClusterService:none":
		return nil, nil
	case "ClusterService:wrongsecret":
		return map[string]string{"x-cluster-secret": "wrong"}, nil
	case "ClusterService:prefixsecret": // a proper prefix of the secret is a wrong secret
		return map[string]string{"x-cluster-secret": acClusterSecret[:1]}, nil
	case "ClusterService:longersecret": // so is an extension of it
		return map[string]string{"x-cluster-secret": acClusterSecret + "-and-more"}, nil
	case "ClusterService:rightsecret":
		return map[string]string{"x-cluster-secret": acClusterSecret}, w.order
	}
	panic("unknown credential " + svc + ":" + kind)
}

var acHex24 = regexp.MustCompile(`[0-9a-f]{24}`)

// Error-text pairs (foreign object | nowhere-existing object) that are documented behaviour, not a
// finding: a signed-up user can tell a project he is not a member of from a project that does not
// exist. That is about project NAMES / IDS (names are globally unique, CreateProject answers
// already_exists; the two cases carry the distinct codes ErrMemberNotFound / ErrProjectNotFound),
// which C13 ("clients and documents of another project") does not cover. They are counted
// (`documented:project-membership-vs-existence-text`), never reported. Every other text difference –
// clients, documents, revisions, sessions: made identical by /repo 863f1a42 – is a plain violation.
var acDocumentedTextPairs = map[string]bool{
	"find project member: project member not found | <name>: project not found": true,
	"find project member: project member not found | <id>: project not found":   true,
}

func (w *acWorld) secrets(label string) []string {
	p := w.projs[label]
	out := []string{p.id, p.pub, p.sec, p.marker}
	if p.fx != nil {
		out = append(out, p.fx.c1, p.fx.c2, p.fx.docID, p.fx.onlyID, p.fx.rev, p.fx.sess)
	}
	var o []string
	for _, s := range out {
		if s != "" && s != "000000000000000000000000" {
			o = append(o, s)
		}
	}
	return o
}

type acOutcome struct {
	code, norm string
	foreignB   bool // project B is outside the credential's authority
}

func acFirstDiff(a, b string) string {
	la, lb := strings.Split(a, "\n"), strings.Split(b, "\n")
	for i := 0; i < len(la) || i < len(lb); i++ {
		var x, y string
		if i < len(la) {
			x = la[i]
		}
		if i < len(lb) {
			y = lb[i]
		}
		if x != y {
			if len(x) > 300 {
				x = x[:300]
			}
			if len(y) > 300 {
				y = y[:300]
			}
			return fmt.Sprintf("first differing row: before=%q after=%q", x, y)
		}
	}
	return "?"
}

// awaitDeactivated waits for the fire-and-forget deactivation of a client the
// background task can actually find (its project is the credential's project).
func (w *acWorld) awaitDeactivated(clientID string, authIDs map[string]bool) {
	for i := 0; i < 300; i++ {
		txn := w.mdb.Txn(false)
		raw, _ := txn.First("clients", "id", clientID)
		txn.Abort()
		if raw == nil || !authIDs[reflect.ValueOf(raw).Elem().FieldByName("ProjectID").String()] {
			gotime.Sleep(40 * gotime.Millisecond) // the task fails its project-keyed lookup
			return
		}
		if reflect.ValueOf(raw).Elem().FieldByName("Status").String() != "activated" {
			gotime.Sleep(10 * gotime.Millisecond)
			return
		}
		gotime.Sleep(10 * gotime.Millisecond)
	}
}

// reapSessions detaches a channel session a successful request has just created.
func (w *acWorld) reapSessions(r acRes, authority []string) {
	if r.code != "ok" || r.resp == nil {
		return
	}
	fd := r.resp.ProtoReflect().Descriptor().Fields().ByName("session_id")
	if fd == nil {
		return
	}
	if sid := r.resp.ProtoReflect().Get(fd).String(); sid != "" {
		w.svr.Backend().Channel.Detach(context.Background(), types.ID(sid)) //nolint
	}
}

// exec runs one RPC line; returns the outcome for the twin comparison.
func (w *acWorld) exec(line string) acOutcome {
	c := w.c
	t := strings.Fields(line)
	svc, procv, credKind, target := acArg(t, "svc"), acArg(t, "proc"), acArg(t, "cred"), acArg(t, "target")
	method, variant, _ := strings.Cut(procv, "+")
	if w.methods[svc+"/"+method] == nil {
		c.Obs("unimplemented victim=unchanged")
		return acOutcome{}
	}
	hdr, authority := w.cred(svc, credKind)
	s := w.slots(target)
	// per-procedure fixtures that a request consumes
	if svc == "AdminService" {
		switch method {
		case "DeleteAccount", "ChangePassword":
			w.seq++
			s.user = fmt.Sprintf("verif-tmp-%d", w.seq)
			w.signUp(s.user)
		case "SignUp":
			w.seq++
			s.user = fmt.Sprintf("verif-new-%d", w.seq)
		case "AcceptInvite":
			inv := w.must("AdminService/CreateInvite", acHTok(w.users["ua"].token), &api.CreateInviteRequest{ProjectName: w.projs["A"].name,
				Role: "member", ExpireOption: api.InviteExpireOption_INVITE_EXPIRE_OPTION_ONE_HOUR}).(*api.CreateInviteResponse)
			s.invite = inv.Token
			if len(authority) > 0 || credKind == "outsider" {
				authority = append(authority, "A") // the invite token is itself the credential for joining A
			}
		case "RemoveMember", "UpdateMemberRole":
			s.user = w.users["ma"].name
		case "CreateDocument":
			if target == "own" {
				w.seq++
				s.docKey = fmt.Sprintf("new-doc-%d", w.seq)
			}
		}
	}
	if svc == "ClusterService" && method == "PurgeDocument" {
		// only a removed document can be purged: remove A's shared-key document first (A is rebuilt afterwards)
		a := w.projs["A"]
		w.must("AdminService/RemoveDocumentByAdmin", acHSec(a.sec), &api.RemoveDocumentByAdminRequest{DocumentKey: acSharedDoc, Force: true})
	}
	req := w.build(svc, method, variant, s)
	reqText := prototext.Format(req)
	for _, v := range hdr {
		reqText += "\n" + v
	}
	before := w.dump()
	r := w.call(svc+"/"+method, hdr, req)
	if variant == "async" && r.code == "ok" {
		ids := map[string]bool{}
		for _, l := range authority {
			ids[w.projs[l].id] = true
		}
		w.awaitDeactivated(s.client, ids)
	}
	w.reapSessions(r, authority)
	after := w.dump()
	inAuth := map[string]bool{}
	for _, l := range authority {
		inAuth[l] = true
	}
	victim := "unchanged"
	for _, l := range w.order {
		if !inAuth[l] && before[w.projs[l].id] != after[w.projs[l].id] {
			victim = "CHANGED"
			// no listed finding changes a victim any more (session scope repaired by /repo 3821028d): always a plain violation
			c.Oracle("victim project %s changed by: %s -> %s :: %s", l, line, r.code, acFirstDiff(before[w.projs[l].id], after[w.projs[l].id]))
		}
	}
	if svc == "AdminService" && acAdminPublic[method] {
		// password-authenticated account procedures: a wrong password must not touch the users table
		if target == "fpass" && before["users"] != after["users"] {
			victim = "CHANGED"
			c.Oracle("users table changed by wrong-password request: %s -> %s", line, r.code)
		}
	}
	// victim data in what the caller sees
	for _, l := range w.order {
		if inAuth[l] {
			continue
		}
		for _, sec := range w.secrets(l) {
			if strings.Contains(r.text, sec) && !strings.Contains(reqText, sec) {
				// no listed finding discloses anything any more (ddb0dfd3: foreign snapshot; 863f1a42: owning
				// project's id in an error text): always a plain violation
				c.Oracle("response discloses data of project %s (%q) to: %s -> %s", l, sec, line, r.code)
				break
			}
		}
	}
	// no authority at all: only the documented public procedures may succeed
	if len(authority) == 0 && r.code == "ok" {
		pub := svc == "AdminService" && acAdminPublic[method]
		userScoped := svc == "AdminService" && (credKind == "outsider") // an authenticated user without any project
		if !pub && !userScoped {
			c.Oracle("request without valid credential succeeded: %s", line)
		}
	}
	c.Count("decision:" + r.code)
	c.Count("svc:" + svc)
	c.Obs("%s victim=%s", r.code, victim)
	// re-establish the pristine fixture of every project this request has written to
	switch {
	case victim == "CHANGED" || method == "PurgeDocument":
		for _, l := range w.order {
			if l != "D" {
				w.rebuild(l)
			}
		}
	default:
		for _, l := range authority {
			if l != "D" && before[w.projs[l].id] != after[w.projs[l].id] {
				w.rebuild(l)
			}
		}
	}
	norm := acHex24.ReplaceAllString(r.msg, "<id>")
	for _, nm := range []string{s.docKey, s.room, s.schema, s.projName} { // names the caller supplied itself
		norm = strings.ReplaceAll(norm, nm, "<name>")
	}
	return acOutcome{code: r.code, norm: norm, foreignB: !inAuth["B"]}
}

// execAuth runs one AUTH line: the own-ids request of the home project under its API key with the
// given token, while A and B have (or do not have) their auth webhooks configured.
func (w *acWorld) execAuth(line string) string {
	c := w.c
	t := strings.Fields(line)
	procv, home, tok := acArg(t, "proc"), acArg(t, "home"), acArg(t, "token")
	method, variant, _ := strings.Cut(procv, "+")
	svc := "YorkieService"
	other := map[string]string{"A": "B", "B": "A"}[home]
	if w.methods[svc+"/"+method] == nil || other == "" {
		c.Obs("unimplemented consulted=0 victim=unchanged")
		return ""
	}
	hdr := acHKey(w.projs[home].pub)
	if tok != "none" {
		hdr[types.AuthorizationKey] = tok
	}
	s := w.slotsFor("own", home, other)
	req := w.build(svc, method, variant, s)
	before := w.dump()
	own0, oth0 := w.hooks[home].calls.Load(), w.hooks[other].calls.Load()
	r := w.call(svc+"/"+method, hdr, req)
	own1, oth1 := w.hooks[home].calls.Load(), w.hooks[other].calls.Load()
	if variant == "async" && r.code == "ok" {
		w.awaitDeactivated(s.client, map[string]bool{w.projs[home].id: true})
	}
	w.reapSessions(r, []string{home})
	after := w.dump()
	victim := "unchanged"
	for _, l := range w.order {
		if l != home && before[w.projs[l].id] != after[w.projs[l].id] {
			victim = "CHANGED"
			c.Oracle("victim project %s changed by: %s -> %s :: %s", l, line, r.code, acFirstDiff(before[w.projs[l].id], after[w.projs[l].id]))
		}
	}
	consulted := fmt.Sprintf("%d", own1-own0)
	if oth1 != oth0 {
		consulted += fmt.Sprintf("+other:%d", oth1-oth0)
		c.Oracle("the auth webhook of project %s was asked about a request to project %s: %s", other, home, line)
	}
	// the property's own oracle: with a webhook configured a request is admitted only with a token
	// the project's OWN webhook allows (cached or not) – never on another project's verdict
	if w.hookOn {
		ownAllows := tok == "t"+strings.ToLower(home)
		switch {
		case r.code == "ok" && !ownAllows:
			c.Oracle("project %s admitted token %q although its own auth webhook does not allow it (own webhook consulted %d times): %s", home, tok, own1-own0, line)
		case r.code != "ok" && ownAllows:
			c.Oracle("project %s refused token %q although its own auth webhook allows it: %s -> %s", home, tok, line, r.code)
		}
	}
	c.Count("auth-decision:" + r.code)
	c.Count("auth-consulted:" + consulted)
	c.Obs("%s consulted=%s victim=%s", r.code, consulted, victim)
	if victim == "CHANGED" {
		for _, l := range w.order {
			if l != "D" {
				w.rebuild(l)
			}
		}
	} else if before[w.projs[home].id] != after[w.projs[home].id] {
		w.rebuild(home)
	}
	return r.code
}

// acAuthLines is the webhook sequence of one Yorkie procedure: both orders (A first, B first) inside
// the cache TTL, repeated with a cold cache, (thorough) once more after the TTL has passed.
func acAuthLines(procv string, expire bool) []string {
	au := func(home, tok string) string {
		return fmt.Sprintf("AUTH proc=%s home=%s token=%s", procv, home, tok)
	}
	l := []string{"WEBHOOK on",
		au("A", "ta"), au("B", "ta"), au("A", "ta"), au("B", "ta"), // A first: B must not inherit A's cached allow
		au("B", "tb"), au("A", "tb"), au("B", "tb"), // and the mirror image
		au("A", "none"), au("A", "none"), au("B", "none"), au("A", "terr"), au("A", "terr"),
		"WEBHOOK flush",
		au("B", "ta"), au("A", "ta"), au("B", "ta"), // B first: A must not inherit B's cached deny
		au("A", "tb"), au("B", "tb"), au("A", "tb"),
	}
	if expire {
		l = append(l, "WEBHOOK expire", au("B", "ta"), au("A", "ta"), au("A", "ta"), au("A", "tb"), au("B", "tb"))
	}
	return append(l, "WEBHOOK off", au("A", "none"), au("B", "ta"))
}

// ---------------------------------------------------------------- engine

func acLines(w map[string]protoreflect.MethodDescriptor, order []string) map[string][]string {
	out := map[string][]string{}
	for _, k := range order {
		svc, method, _ := strings.Cut(k, "/")
		vs := acVariants[k]
		if vs == nil {
			vs = []string{""}
		}
		for _, v := range vs {
			pv := method
			if v != "" {
				pv += "+" + v
			}
			for _, cr := range acCreds[svc] {
				for _, tg := range acTargets(svc, method, w[k]) {
					out[k] = append(out[k], fmt.Sprintf("RPC svc=%s proc=%s cred=%s target=%s", svc, pv, cr, tg))
				}
			}
		}
	}
	return out
}

func runAccess(c *Ctx) error {
	c.stats.Rule = "one trace per (server configuration, procedure): every credential kind x every applicable target kind; " +
		"non-trivial = the trace has the own-credential/own-ids baseline answered ok (or the procedure is credential-only) and at least one foreign or unauthenticated combination denied"
	c.stats.Exhaustive = true
	c.stats.ExhaustiveScope = "every procedure of the YorkieService/AdminService/ClusterService descriptors (run-time list, cross-checked against the T-gen table) " +
		"x credential kinds {Yorkie: none, bad key, other project's key, own key; Admin: none, bad token, outsider token, member token, owner token, bad secret, empty secret, other project's secret, own secret; " +
		"Cluster: none, wrong secret, right secret} x target kinds {own ids; foreign and nowhere-existing client id, document id, document/channel/schema name, revision id, session id, project name/id; wrong password} " +
		"x server configuration {UseDefaultProject on, off}, cluster secret configured; " +
		"auth webhook dimension: every YorkieService procedure (and request shape) x home project {A, B} x token {allowed by A's webhook only, allowed by B's webhook only, none, webhook error} " +
		"in both orders inside the verdict-cache TTL and again with a cold cache (thorough: once after the TTL), with per-request call counters of both projects' webhook endpoints"
	var w *acWorld
	defer func() { w.close() }()
	third := c.Tier == "thorough"
	ensure := func(udp, third bool) error {
		if w != nil && w.udp == udp && w.third == third {
			return nil
		}
		w.close()
		var err error
		w, err = newAcWorld(c, udp, third)
		return err
	}
	type grp struct {
		prev map[string]acOutcome
	}
	var g grp
	var sawOK, sawDenied bool
	runLine := func(l string) error {
		t := strings.Fields(l)
		switch t[0] {
		case "CONFIG":
			if err := ensure(acArg(t, "udp") == "true", acArg(t, "third") == "true"); err != nil {
				return err
			}
			if w.hookOn { // a trace that was cut short left the webhooks configured
				w.setWebhook(false)
			}
			c.Obs("config ok")
		case "PROCS":
			c.Obs("procs ok n=%d", len(t)-1)
		case "WEBHOOK":
			if w == nil {
				if err := ensure(true, false); err != nil {
					return err
				}
			}
			switch t[1] {
			case "on":
				w.setWebhook(true)
			case "off":
				w.setWebhook(false)
			case "flush":
				w.svr.Backend().Cache.AuthWebhook.Purge()
			case "expire":
				gotime.Sleep(acHookTTL + 300*gotime.Millisecond)
			}
			c.Obs("webhook %s", t[1])
		case "AUTH":
			if w == nil {
				if err := ensure(true, false); err != nil {
					return err
				}
			}
			switch w.execAuth(l) {
			case "ok":
				sawOK = true
			case "permission_denied", "unauthenticated":
				sawDenied = true
			}
			if sawOK && sawDenied {
				c.Nontrivial()
			}
		case "RPC":
			if w == nil {
				if err := ensure(true, false); err != nil {
					return err
				}
			}
			o := w.exec(l)
			tg, cr := acArg(t, "target"), acArg(t, "cred")
			k := acArg(t, "proc") + "|" + cr + "|" + strings.TrimLeft(tg, "fg")
			if tg == "own" && o.code == "ok" && (cr == "ownkey" || cr == "owner" || cr == "ownsecret" || cr == "rightsecret") {
				sawOK = true
			}
			if o.code == "not_found" || o.code == "unauthenticated" || o.code == "permission_denied" {
				sawDenied = true
			}
			if strings.HasPrefix(tg, "f") && tg != "fpass" {
				g.prev[k] = o
			} else if strings.HasPrefix(tg, "g") {
				if f, ok := g.prev[k]; ok && f.foreignB {
					switch {
					case f.code != o.code && f.code == "ok":
						// no listed finding honours a foreign id any more (ddb0dfd3, 3821028d): always a plain violation
						c.Oracle("foreign id honoured: %s answered ok but the same request with a nowhere-existing id is %s", strings.Replace(l, "target=g", "target=f", 1), o.code)
					case f.code != o.code:
						c.Oracle("existence of a foreign object is observable: %s -> %s, nowhere-existing twin -> %s", strings.Replace(l, "target=g", "target=f", 1), f.code, o.code)
					case f.norm != o.norm && acDocumentedTextPairs[f.norm+" | "+o.norm]:
						c.Count("documented:project-membership-vs-existence-text")
					case f.norm != o.norm:
						c.Oracle("error text distinguishes a foreign object from a nowhere-existing one: %s: %q vs %q",
							strings.Replace(l, "target=g", "target=f", 1), f.norm, o.norm)
					}
				}
			}
			if sawOK && sawDenied {
				c.Nontrivial()
			}
		default:
			c.Obs("bad-op")
		}
		return nil
	}
	if c.Replay != nil {
		g = grp{prev: map[string]acOutcome{}}
		for _, l := range c.Replay {
			if strings.HasPrefix(l, "T ") {
				c.Trace(strings.TrimPrefix(l, "T "))
				g = grp{prev: map[string]acOutcome{}}
				sawOK, sawDenied = false, false
				continue
			}
			c.Cmd("%s", l)
			if err := runLine(l); err != nil {
				return err
			}
		}
		return nil
	}
	methods, order := acMethods()
	lines := acLines(methods, order)
	// check.py starts `workers` processes with seeds seed*1000+k and -n n/workers; with n = workers^2
	// the k-th process handles every trace whose index is k modulo the number of workers
	shards, shard := c.N, int(c.Seed%1000)
	if shards < 1 {
		shards = 1
	}
	shard %= shards
	if shard == 0 {
		c.Trace("access-procs")
		pl := "PROCS " + strings.Join(order, " ")
		c.Cmd("%s", pl)
		_ = runLine(pl)
	}
	ti := 0
	for _, udp := range []bool{true, false} {
		for _, k := range order {
			ti++
			if ti%shards != shard {
				continue
			}
			c.Trace(fmt.Sprintf("access-udp%v-%s", udp, strings.Replace(k, "/", ".", 1)))
			g = grp{prev: map[string]acOutcome{}}
			sawOK, sawDenied = false, false
			cl := fmt.Sprintf("CONFIG udp=%v secret=set third=%v", udp, third)
			c.Cmd("%s", cl)
			if err := runLine(cl); err != nil {
				return err
			}
			for _, l := range lines[k] {
				c.Cmd("%s", l)
				if err := runLine(l); err != nil {
					return err
				}
			}
		}
		// the auth webhook dimension: every Yorkie procedure (all of them call auth.VerifyAccess)
		for _, k := range order {
			svc, method, _ := strings.Cut(k, "/")
			if svc != "YorkieService" {
				continue
			}
			vs := acVariants[k]
			if vs == nil {
				vs = []string{""}
			}
			for _, v := range vs {
				ti++
				if ti%shards != shard {
					continue
				}
				pv := method
				if v != "" {
					pv += "+" + v
				}
				c.Trace(fmt.Sprintf("access-udp%v-webhook-%s.%s", udp, svc, pv))
				sawOK, sawDenied = false, false
				cl := fmt.Sprintf("CONFIG udp=%v secret=set third=%v", udp, third)
				for _, l := range append([]string{cl}, acAuthLines(pv, third && pv == "PushPullChanges")...) {
					c.Cmd("%s", l)
					if err := runLine(l); err != nil {
						return err
					}
				}
			}
		}
	}
	return nil
}

// acArg is the `key=value` lookup shared with the Lean driver's convention.
func acArg(toks []string, k string) string {
	for _, t := range toks {
		if strings.HasPrefix(t, k+"=") {
			return t[len(k)+1:]
		}
	}
	return ""
}
